/-
  S2Proofs.EdgeNbr — `edgeNeighbors` for ALL valid cells (also those on a face boundary): each of the four
  results is the level-k cell whose (face, square) is given by the integer table `nbrSq`; same-face through
  `wrapIJ_in`, across a face edge through the cross-face wrap theorems of `WrapIJ` (soft-float, proved).
-/
import S2Proofs.WrapIJ
import S2Proofs.FaceTransitions
open S2 S2.CellID S2.Hilbert S2.STUV
set_option linter.unusedVariables false
namespace S2Proofs.C01W

/-- the neighbour of the square (I,J) of face f (squares numbered 0..N per axis) across side
    d = 0 (down, j−), 1 (right, i+), 2 (up, j+), 3 (left, i−): (face, I', J') -/
def nbrSq (f I J N : Nat) (d : Nat) : Nat × Nat × Nat :=
  match d with
  | 0 => if 1 ≤ J then (f, I, J - 1) else if f % 2 = 0 then ((f + 5) % 6, I, N) else ((f + 4) % 6, N, N - I)
  | 1 => if I + 1 ≤ N then (f, I + 1, J) else if f % 2 = 0 then ((f + 1) % 6, 0, J) else ((f + 2) % 6, N - J, 0)
  | 2 => if J + 1 ≤ N then (f, I, J + 1) else if f % 2 = 0 then ((f + 2) % 6, 0, N - I) else ((f + 1) % 6, I, 0)
  | _ => if 1 ≤ I then (f, I - 1, J) else if f % 2 = 0 then ((f + 4) % 6, N - J, N) else ((f + 5) % 6, N, J)

/-- `n` is the level-k cell of face f with square coordinates (I,J) -/
def IsSq (n : CellID) (k f I J : Nat) : Prop := IsCell n k ∧ face n = f ∧ sqI n k = I ∧ sqJ n k = J

theorem pow_split (k : Nat) (hk : k ≤ 30) : (2:Nat)^k * 2^(30-k) = 1073741824 := by
  rw [← Nat.pow_add]; have : k + (30 - k) = 30 := by omega
  rw [this]

/-- arithmetic of squares: `x/s` for x in the last column, and the mirrored coordinate -/
theorem sq_arith (k x : Nat) (hk : k ≤ 30) (hx : x < 1073741824) :
    x / 2^(30-k) ≤ 2^k - 1 ∧ 1073741823 / 2^(30-k) = 2^k - 1 ∧
    (1073741823 - x) / 2^(30-k) = 2^k - 1 - x / 2^(30-k) ∧
    (x / 2^(30-k) + 1 ≤ 2^k - 1 ↔ x + 2^(30-k) < 1073741824) ∧
    (1 ≤ x / 2^(30-k) ↔ 2^(30-k) ≤ x) := by
  have hp := pow_split k hk
  have hS := Nat.two_pow_pos (30-k)
  have hK := Nat.two_pow_pos k
  generalize (2:Nat)^(30-k) = S at *
  generalize (2:Nat)^k = K at *
  have hdm := Nat.div_add_mod x S
  have hr := Nat.mod_lt x hS
  have hq : x / S < K := by
    rw [Nat.div_lt_iff_lt_mul hS]; omega
  have e1 : 1073741823 = (K - 1) * S + (S - 1) := by
    rw [Nat.sub_mul, Nat.one_mul]
    have : S ≤ K * S := Nat.le_mul_of_pos_left S hK
    omega
  have e2 : 1073741823 - x = (K - 1 - x / S) * S + (S - 1 - x % S) := by
    rw [Nat.sub_mul, Nat.sub_mul, Nat.one_mul]
    have h1 : x / S * S ≤ (K - 1) * S := Nat.mul_le_mul_right _ (by omega)
    rw [Nat.sub_mul, Nat.one_mul] at h1
    have h2 : S ≤ K * S := Nat.le_mul_of_pos_left S hK
    rw [Nat.mul_comm] at hdm
    omega
  refine ⟨by omega, ?_, ?_, ?_, ?_⟩
  · rw [e1]; exact div_lem _ _ _ (by omega)
  · rw [e2]; exact div_lem _ _ _ (by omega)
  · constructor
    · intro h
      have h1 : (x / S + 1) * S ≤ (K - 1) * S := Nat.mul_le_mul_right _ h
      rw [Nat.sub_mul, Nat.add_mul, Nat.one_mul] at h1
      have h2 : S ≤ K * S := Nat.le_mul_of_pos_left S hK
      rw [Nat.mul_comm] at hdm
      omega
    · intro h
      have : (x + S) / S < K := by rw [Nat.div_lt_iff_lt_mul hS]; omega
      rw [Nat.add_div_right _ hS] at this
      omega
  · constructor
    · intro h
      have := Nat.mul_le_mul_right S h
      rw [Nat.mul_comm] at hdm
      omega
    · intro h
      exact (Nat.le_div_iff_mul_le hS).2 (by omega)

section
variable {L : Nat} (hL : L = 30)
include hL

theorem isSq_leaf_parent (f i' j' k : Nat) (hf : f < 6) (hi : i' < 2^30) (hj : j' < 2^30) (hk : k ≤ 30) :
    IsSq (parent (cellIDFromFaceIJ f i' j') k) k f (i' / 2^(30-k)) (j' / 2^(30-k)) :=
  square_cell hL f i' j' k hf hi hj hk

/-- a cell is determined by its level, face and square -/
theorem isSq_unique {a b : CellID} {k f I J : Nat} (ha : IsSq a k f I J) (hb : IsSq b k f I J) : a = b := by
  obtain ⟨ca, fa, ia, ja⟩ := ha
  obtain ⟨cb, fb, ib, jb⟩ := hb
  obtain ⟨g1, g2, g3, _, g5⟩ := faceIJOrientation_leaf_in_cell hL a k ca
  obtain ⟨h1, h2, h3, _, h5⟩ := faceIJOrientation_leaf_in_cell hL b k cb
  rw [← g5, ← h5]
  apply (parent_cellIDFromFaceIJ_eq_iff hL _ _ _ _ _ _ k (by rw [g1]; exact ca.face_lt6) (by rw [h1]; exact cb.face_lt6)
    g2 g3 h2 h3 ca.k_le).2
  unfold sqI at ia ib
  unfold sqJ at ja jb
  exact ⟨by rw [g1, h1, fa, fb], by rw [ia, ib], by rw [ja, jb]⟩

theorem wrap_leaf_sq (f : Nat) (a b : Int) (f' i' j' k : Nat) (h : wrapIJ f a b = (f', i', j'))
    (hf : f' < 6) (hi : i' < 2^30) (hj : j' < 2^30) (hk : k ≤ 30) :
    IsSq (parent (cellIDFromFaceIJWrap f a b) k) k f' (i' / 2^(30-k)) (j' / 2^(30-k)) := by
  rw [cellIDFromFaceIJWrap_eq, h]
  exact isSq_leaf_parent hL f' i' j' k hf hi hj hk

/-- the four directions: the wrapped leaf's level-k ancestor is the cell of the table `nbrSq` -/
theorem nbr_dir0 (f i j k : Nat) (hf : f < 6) (hi : i < 2^30) (hj : j < 2^30) (hk : k ≤ 30) :
    IsSq (parent (cellIDFromFaceIJWrap f (i:Int) ((j:Int) - ((2^(30-k) : Nat) : Int))) k) k
      (nbrSq f (i / 2^(30-k)) (j / 2^(30-k)) (2^k - 1) 0).1 (nbrSq f (i / 2^(30-k)) (j / 2^(30-k)) (2^k - 1) 0).2.1
      (nbrSq f (i / 2^(30-k)) (j / 2^(30-k)) (2^k - 1) 0).2.2 := by
  obtain ⟨i1, i2, i3, i4, i5⟩ := sq_arith k i hk hi
  obtain ⟨j1, j2, j3, j4, j5⟩ := sq_arith k j hk hj
  have hS := Nat.two_pow_pos (30-k)
  have hSle : 2^(30-k) ≤ 1073741824 := by
    have := pow_split k hk; have := Nat.two_pow_pos k
    calc 2^(30-k) ≤ 2^k * 2^(30-k) := Nat.le_mul_of_pos_left _ (by omega)
      _ = 1073741824 := pow_split k hk
  unfold nbrSq
  simp only
  by_cases hc : 2^(30-k) ≤ j
  · rw [if_pos (j5.2 hc)]
    have hw := wrapIJ_in f hf (i:Int) ((j:Int) - ((2^(30-k) : Nat) : Int)) (by omega) (by omega) (by omega) (by omega)
    have e : ((j:Int) - ((2^(30-k) : Nat) : Int)).toNat = j - 2^(30-k) := by omega
    rw [Int.toNat_natCast, e] at hw
    have := wrap_leaf_sq hL f _ _ f i (j - 2^(30-k)) k hw hf hi (by omega) hk
    have hd := sub_div_self j _ hS hc
    have e2 : (j - 2^(30-k)) / 2^(30-k) = j / 2^(30-k) - 1 := by omega
    rw [e2] at this
    exact this
  · rw [if_neg (by rw [j5]; exact hc)]
    have hw := wrapIJ_jLo f hf (i:Int) ((j:Int) - ((2^(30-k) : Nat) : Int)) (by omega) (by omega) (by omega)
    have e : (1073741823 - (i:Int)).toNat = 1073741823 - i := by omega
    rw [Int.toNat_natCast, e] at hw
    by_cases hp : f % 2 = 0
    · rw [if_pos hp] at hw ⊢
      have := wrap_leaf_sq hL f _ _ _ _ _ k hw (Nat.mod_lt _ (by omega)) hi (by omega) hk
      rw [j2] at this
      exact this
    · rw [if_neg hp] at hw ⊢
      have := wrap_leaf_sq hL f _ _ _ _ _ k hw (Nat.mod_lt _ (by omega)) (by omega) (by omega) hk
      rw [j2, i3] at this
      exact this

theorem nbr_dir1 (f i j k : Nat) (hf : f < 6) (hi : i < 2^30) (hj : j < 2^30) (hk : k ≤ 30) :
    IsSq (parent (cellIDFromFaceIJWrap f ((i:Int) + ((2^(30-k) : Nat) : Int)) (j:Int)) k) k
      (nbrSq f (i / 2^(30-k)) (j / 2^(30-k)) (2^k - 1) 1).1 (nbrSq f (i / 2^(30-k)) (j / 2^(30-k)) (2^k - 1) 1).2.1
      (nbrSq f (i / 2^(30-k)) (j / 2^(30-k)) (2^k - 1) 1).2.2 := by
  obtain ⟨i1, i2, i3, i4, i5⟩ := sq_arith k i hk hi
  obtain ⟨j1, j2, j3, j4, j5⟩ := sq_arith k j hk hj
  have hS := Nat.two_pow_pos (30-k)
  unfold nbrSq
  simp only
  by_cases hc : i + 2^(30-k) < 1073741824
  · rw [if_pos (i4.2 hc)]
    have hw := wrapIJ_in f hf ((i:Int) + ((2^(30-k) : Nat) : Int)) (j:Int) (by omega) (by omega) (by omega) (by omega)
    have e : ((i:Int) + ((2^(30-k) : Nat) : Int)).toNat = i + 2^(30-k) := by omega
    rw [Int.toNat_natCast, e] at hw
    have := wrap_leaf_sq hL f _ _ f (i + 2^(30-k)) j k hw hf (by omega) hj hk
    rw [Nat.add_div_right _ hS] at this
    exact this
  · rw [if_neg (by rw [i4]; exact hc)]
    have hw := wrapIJ_iHi f hf ((i:Int) + ((2^(30-k) : Nat) : Int)) (j:Int) (by omega) (by omega) (by omega)
    have e : (1073741823 - (j:Int)).toNat = 1073741823 - j := by omega
    rw [Int.toNat_natCast, e] at hw
    by_cases hp : f % 2 = 0
    · rw [if_pos hp] at hw ⊢
      have := wrap_leaf_sq hL f _ _ _ _ _ k hw (Nat.mod_lt _ (by omega)) (by omega) hj hk
      rw [Nat.zero_div] at this
      exact this
    · rw [if_neg hp] at hw ⊢
      have := wrap_leaf_sq hL f _ _ _ _ _ k hw (Nat.mod_lt _ (by omega)) (by omega) (by omega) hk
      rw [Nat.zero_div, j3] at this
      exact this

theorem nbr_dir2 (f i j k : Nat) (hf : f < 6) (hi : i < 2^30) (hj : j < 2^30) (hk : k ≤ 30) :
    IsSq (parent (cellIDFromFaceIJWrap f (i:Int) ((j:Int) + ((2^(30-k) : Nat) : Int))) k) k
      (nbrSq f (i / 2^(30-k)) (j / 2^(30-k)) (2^k - 1) 2).1 (nbrSq f (i / 2^(30-k)) (j / 2^(30-k)) (2^k - 1) 2).2.1
      (nbrSq f (i / 2^(30-k)) (j / 2^(30-k)) (2^k - 1) 2).2.2 := by
  obtain ⟨i1, i2, i3, i4, i5⟩ := sq_arith k i hk hi
  obtain ⟨j1, j2, j3, j4, j5⟩ := sq_arith k j hk hj
  have hS := Nat.two_pow_pos (30-k)
  unfold nbrSq
  simp only
  by_cases hc : j + 2^(30-k) < 1073741824
  · rw [if_pos (j4.2 hc)]
    have hw := wrapIJ_in f hf (i:Int) ((j:Int) + ((2^(30-k) : Nat) : Int)) (by omega) (by omega) (by omega) (by omega)
    have e : ((j:Int) + ((2^(30-k) : Nat) : Int)).toNat = j + 2^(30-k) := by omega
    rw [Int.toNat_natCast, e] at hw
    have := wrap_leaf_sq hL f _ _ f i (j + 2^(30-k)) k hw hf hi (by omega) hk
    rw [Nat.add_div_right _ hS] at this
    exact this
  · rw [if_neg (by rw [j4]; exact hc)]
    have hw := wrapIJ_jHi f hf (i:Int) ((j:Int) + ((2^(30-k) : Nat) : Int)) (by omega) (by omega) (by omega)
    have e : (1073741823 - (i:Int)).toNat = 1073741823 - i := by omega
    rw [Int.toNat_natCast, e] at hw
    by_cases hp : f % 2 = 0
    · rw [if_pos hp] at hw ⊢
      have := wrap_leaf_sq hL f _ _ _ _ _ k hw (Nat.mod_lt _ (by omega)) (by omega) (by omega) hk
      rw [Nat.zero_div, i3] at this
      exact this
    · rw [if_neg hp] at hw ⊢
      have := wrap_leaf_sq hL f _ _ _ _ _ k hw (Nat.mod_lt _ (by omega)) hi (by omega) hk
      rw [Nat.zero_div] at this
      exact this

theorem nbr_dir3 (f i j k : Nat) (hf : f < 6) (hi : i < 2^30) (hj : j < 2^30) (hk : k ≤ 30) :
    IsSq (parent (cellIDFromFaceIJWrap f ((i:Int) - ((2^(30-k) : Nat) : Int)) (j:Int)) k) k
      (nbrSq f (i / 2^(30-k)) (j / 2^(30-k)) (2^k - 1) 3).1 (nbrSq f (i / 2^(30-k)) (j / 2^(30-k)) (2^k - 1) 3).2.1
      (nbrSq f (i / 2^(30-k)) (j / 2^(30-k)) (2^k - 1) 3).2.2 := by
  obtain ⟨i1, i2, i3, i4, i5⟩ := sq_arith k i hk hi
  obtain ⟨j1, j2, j3, j4, j5⟩ := sq_arith k j hk hj
  have hS := Nat.two_pow_pos (30-k)
  unfold nbrSq
  simp only
  by_cases hc : 2^(30-k) ≤ i
  · rw [if_pos (i5.2 hc)]
    have hw := wrapIJ_in f hf ((i:Int) - ((2^(30-k) : Nat) : Int)) (j:Int) (by omega) (by omega) (by omega) (by omega)
    have e : ((i:Int) - ((2^(30-k) : Nat) : Int)).toNat = i - 2^(30-k) := by omega
    rw [Int.toNat_natCast, e] at hw
    have := wrap_leaf_sq hL f _ _ f (i - 2^(30-k)) j k hw hf (by omega) hj hk
    have hd := sub_div_self i _ hS hc
    have e2 : (i - 2^(30-k)) / 2^(30-k) = i / 2^(30-k) - 1 := by omega
    rw [e2] at this
    exact this
  · rw [if_neg (by rw [i5]; exact hc)]
    have hw := wrapIJ_iLo f hf ((i:Int) - ((2^(30-k) : Nat) : Int)) (j:Int) (by omega) (by omega) (by omega)
    have e : (1073741823 - (j:Int)).toNat = 1073741823 - j := by omega
    rw [Int.toNat_natCast, e] at hw
    by_cases hp : f % 2 = 0
    · rw [if_pos hp] at hw ⊢
      have := wrap_leaf_sq hL f _ _ _ _ _ k hw (Nat.mod_lt _ (by omega)) (by omega) (by omega) hk
      rw [i2, j3] at this
      exact this
    · rw [if_neg hp] at hw ⊢
      have := wrap_leaf_sq hL f _ _ _ _ _ k hw (Nat.mod_lt _ (by omega)) (by omega) hj hk
      rw [i2] at this
      exact this

end
end S2Proofs.C01W
