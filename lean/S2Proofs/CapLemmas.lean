/-
  S2Proofs.CapLemmas — laws assumed about the carrier of the cap model (`S2.CapM`) and their satisfiability.

  `CapLaws`   : order-level facts that hold for the float code by construction
                (`ChordAngleBetweenPoints = min(4, |x−y|²)` lies in [0, 4], `|x−x|² = 0`, float `==` is equality …).
  `ChordLaws` : the NUMERIC facts about chord-angle arithmetic that the float code only satisfies up to rounding
                (triangle inequality in chord-angle form, monotonicity of `Add`, …).  Theorems that need them
                are named `…_partial`; the oracle measures how far the float code is from them.
  Both are satisfiable: instance on the 0-sphere `P = Bool` (two antipodal points), `α = Int`, exact arithmetic.
-/
import Mathlib.Order.Defs.LinearOrder
import Mathlib.Order.Basic
import Mathlib.Tactic.Order
import S2.CapM

set_option linter.unusedSectionVars false

namespace S2Proofs
open S2 S2.CapOps S2.CapPt

class CapLaws (P α : Type) [LinearOrder α] [CapPt P] [CapOps P α] : Prop where
  feq_iff : ∀ a b : α, feq a b = true ↔ a = b
  negOne_lt_zero : (negOne : α) < zero
  zero_lt_four : (zero : α) < four
  dist_nonneg : ∀ x y : P, (zero : α) ≤ dist x y
  dist_le_four : ∀ x y : P, (dist x y : α) ≤ four
  dist_self : ∀ x : P, (dist x x : α) ≤ zero
  center_unit : isUnit (centerPoint : P) = true
  neg_unit : ∀ x : P, isUnit (neg x) = isUnit x
  /-- `Sub` never exceeds its first argument (it is `c`, `0`, or `max(0, x+y−2√xy)` …) — used for validity only -/
  csub_four_le : ∀ r : α, zero ≤ r → csub (four : α) r ≤ four
  /-- `Add` is clamped to 4 -/
  cadd_le_four : ∀ a b : α, a ≤ four → cadd a b ≤ four
  /-- `Expanded` is clamped to [0, 4] for non-special arguments -/
  cexp_le_four : ∀ a e : α, zero ≤ a → a ≤ four → cexp a e ≤ four

/-- numeric laws of chord-angle arithmetic (exact geometry; floats satisfy them only up to rounding) -/
class ChordLaws (P α : Type) [LinearOrder α] [CapPt P] [CapOps P α] : Prop where
  dist_comm : ∀ x y : P, (dist x y : α) = dist y x
  /-- triangle inequality in chord-angle form -/
  tri : ∀ x y z : P, (dist x z : α) ≤ cadd (dist x y) (dist y z)
  cadd_mono_right : ∀ a b b' : α, b ≤ b' → cadd a b ≤ cadd a b'
  cadd_mono_left : ∀ a a' b : α, a ≤ a' → cadd a b ≤ cadd a' b
  le_cadd : ∀ a b : α, a ≤ four → zero ≤ b → a ≤ cadd a b
  /-- the slack added by `AddCap` does not decrease the radius -/
  le_cexp : ∀ a x y : α, zero ≤ a → a ≤ four → a ≤ cexp a (addCapSlack x y a)

/-! ### satisfiability: the 0-sphere -/

namespace S0

scoped instance : CapPt Bool where
  neg := fun b => !b
  isUnit := fun _ => true
  peq := fun a b => a == b
  centerPoint := true

scoped instance : CapOps Bool Int where
  dist := fun x y => if x = y then 0 else 4
  feq := fun a b => a == b
  cadd := fun a b => min 4 (a + b)
  csub := fun a b => if a ≤ b then 0 else a - b
  cexp := fun a e => max 0 (min 4 (a + e))
  addCapSlack := fun _ _ _ => 0
  half := fun a => a / 2
  zero := 0
  four := 4
  negOne := -1

end S0

open S0 in
instance : CapLaws Bool Int where
  feq_iff := by intro a b; show (a == b) = true ↔ a = b; simp
  negOne_lt_zero := by show (-1 : Int) < 0; decide
  zero_lt_four := by show (0 : Int) < 4; decide
  dist_nonneg := by intro x y; show (0 : Int) ≤ if x = y then 0 else 4; split <;> decide
  dist_le_four := by intro x y; show (if x = y then (0 : Int) else 4) ≤ 4; split <;> decide
  dist_self := by intro x; show (if x = x then (0 : Int) else 4) ≤ 0; simp
  center_unit := rfl
  neg_unit := by intro x; rfl
  csub_four_le := by intro r h; show (if (4 : Int) ≤ r then 0 else 4 - r) ≤ 4; have : (0 : Int) ≤ r := h; split <;> omega
  cadd_le_four := by intro a b _; show min (4 : Int) (a + b) ≤ 4; omega
  cexp_le_four := by intro a e _ _; show max (0 : Int) (min 4 (a + e)) ≤ 4; omega

open S0 in
instance : ChordLaws Bool Int where
  dist_comm := by intro x y; show (if x = y then (0 : Int) else 4) = if y = x then 0 else 4; cases x <;> cases y <;> rfl
  tri := by
    intro x y z
    show (if x = z then (0 : Int) else 4) ≤ min 4 ((if x = y then 0 else 4) + (if y = z then 0 else 4))
    cases x <;> cases y <;> cases z <;> decide
  cadd_mono_right := by intro a b b' h; show min (4 : Int) (a + b) ≤ min 4 (a + b'); omega
  cadd_mono_left := by intro a a' b h; show min (4 : Int) (a + b) ≤ min 4 (a' + b); omega
  le_cadd := by
    intro a b h4 h; show a ≤ min (4 : Int) (a + b)
    have : a ≤ (4 : Int) := h4
    have : (0 : Int) ≤ b := h
    omega
  le_cexp := by intro a _ _ h1 h2; show a ≤ max (0 : Int) (min 4 (a + 0)); have : (0:Int) ≤ a := h1; have : a ≤ (4:Int) := h2; omega

end S2Proofs
