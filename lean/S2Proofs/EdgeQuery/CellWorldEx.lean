/-
  S2Proofs.EdgeQuery.CellWorldEx — NON-VACUITY of the hypotheses `CellTargetOK` / `IndexOK` of
  `S2Proofs.EdgeQuery.CellWorld` (package c08more): the two-cell index of `PointWorldEx.lean`

      fromFace 0 (node) ── child 0  (uv ∈ [-1,0]×[-1,0])  lists edge 1 = (2/3,−2/3,−1/3) → (2/3,−1/3,−2/3)
                        └─ child 2  (uv ∈ [ 0,1]×[ 0,1])  lists edge 0 = (1,0,0) → (2/3,2/3,1/3)

  with the CELL target `0x0c40000000000000` (face 0, level 3, inside `child 1`: u ∈ [-1/3, -5/48] …, disjoint from both index cells).
  Every hypothesis is discharged by the kernel on the integer forms (`UnitPtZ`, `EdgeOKZ`, `WedgeMarginZ`): the two index edges against the
  four float vertices of the target, and the 3 × 32 `(vertex, edge)` calls of `DistanceToCell(target, ·)` for the three cells the search
  visits; the optimized search is evaluated by the kernel on the bit-exact soft-float (`Cell.DistanceToCell`, `Cell.DistanceToEdge`).
-/
import S2Proofs.EdgeQuery.CellWorld
import S2Proofs.EdgeQuery.PointWorldEx
import S2Proofs.Properties.C08_World2

set_option linter.unusedSimpArgs false
set_option linter.unusedVariables false

namespace S2Proofs.C08Cell.Ex
open S2 S2.Exact S2.CellID S2.CellM S2.CellEdgeM S2.EdgeNum S2.EdgeQueryM S2Proofs.F64Order S2Proofs.FloatErr S2Proofs.EdgeQuery
open S2Proofs.C17Err S2Proofs.C17 S2Proofs.C17Pairs S2Proofs.C12Dist S2Proofs.C08World S2Proofs.C08World.Ex

/-! ## the data -/

/-- the index of `PointWorldEx` with the target cell `tid` -/
def mkC (tid : CellID) : CellIndex where
  tid := tid
  vert := exIdx.vert
  allEdges := exIdx.allEdges
  ix := exIdx.ix
  rootIds := exIdx.rootIds
  depth := exIdx.depth
  interiors := exIdx.interiors
  located := exIdx.located
  small := exIdx.small

/-- the target: face 0, level 3 -/
def tidEx : CellID := 0x0c40000000000000

/-- `CellFromCellID(0x0c40000000000000)` written out -/
def cellT : Cell :=
  { face := 0, level := 3, orientation := 1, id := 882705526964617216,
    uv := ((⟨13824549656151632554⟩, ⟨13819295456586366976⟩), (⟨4601177619296856746⟩, ⟨4604367669032910848⟩)) }

theorem isCell_t : IsCell tidEx 3 := ⟨by decide, by decide, by decide⟩

theorem cellT_eq : cellFromCellID tidEx = cellT := by
  rw [S2Proofs.C12C.cellFromCellID_eq isCell_t]; decide +kernel

def exC : CellIndex := mkC tidEx

theorem tcell_exC : tcell exC = cellT := cellT_eq

theorem vertC_e0 (tid : CellID) : (mkC tid).vert e0 = (a0, b0) := rfl
theorem vertC_e1 (tid : CellID) : (mkC tid).vert e1 = (a1, b1) := rfl

theorem memC {tid : CellID} {e : EdgeKey} (he : e ∈ (mkC tid).allEdges) : e = e0 ∨ e = e1 := mem_allEdges he

/-! ## `CellTargetOK` -/

/-- the decidable integer facts: the two index edges against the four float vertices of the target; the 32 calls of `DistanceToCell`
    against each of the three visited cells -/
def Facts (T : Cell) : Prop :=
    ([(a0, b0), (a1, b1)].all fun p =>
      decide (UnitPtZ p.1 ∧ UnitPtZ p.2 ∧ EdgeOKZ p.1 p.2) &&
        (List.range 4).all fun k => decide (UnitPtZ (vertex T k) ∧ WedgeMarginZ (vertex T k) p.1 p.2)) = true ∧
    ([cellRoot, cellNeg, cellPos].all fun c => (pairCalls (vertices T) (vertices c)).all fun t =>
      decide (UnitPtZ t.1 ∧ UnitPtZ t.2.1 ∧ UnitPtZ t.2.2 ∧ EdgeOKZ t.2.1 t.2.2 ∧ WedgeMarginZ t.1 t.2.1 t.2.2)) = true

instance (T : Cell) : Decidable (Facts T) := by unfold Facts; infer_instance

set_option maxRecDepth 100000 in
theorem factsC : Facts cellT := by decide +kernel

theorem edgeOK_of_mem {T : Cell} (hF : Facts T) {p : V3 × V3} (hp : p ∈ [(a0, b0), (a1, b1)]) :
    UnitPt p.1 ∧ UnitPt p.2 ∧ EdgeOK p.1 p.2 ∧ S2Proofs.C12.VerticesOK T p.1 p.2 := by
  have h := List.all_eq_true.mp hF.1 p hp
  rw [Bool.and_eq_true] at h
  obtain ⟨u1, u2, e⟩ := of_decide_eq_true h.1
  have hu1 := unitPt_of_int u1
  have hu2 := unitPt_of_int u2
  refine ⟨hu1, hu2, edgeOK_of_int e, ?_⟩
  intro k hk
  have h2 := of_decide_eq_true (List.all_eq_true.mp h.2 k (List.mem_range.mpr hk))
  have hu := unitPt_of_int h2.1
  exact ⟨hu, wedgeMargin_of_int _ _ _ hu hu1 hu2 h2.2⟩

theorem callsOK_of_mem {T : Cell} (hF : Facts T) {c : Cell} (hc : c ∈ [cellRoot, cellNeg, cellPos]) :
    ∀ t ∈ pairCalls (vertices T) (vertices c), CallOK t.1 t.2.1 t.2.2 := by
  intro t ht
  obtain ⟨u1, u2, u3, e, m⟩ := of_decide_eq_true (List.all_eq_true.mp (List.all_eq_true.mp hF.2 c hc) t ht)
  exact callOK_of_int u1 u2 u3 e m

/-- the cells the search can visit: the two index cells and the face cell -/
theorem visited_cases {tid : CellID} {y : CellID} (hy : Visited (mkC tid) y) : y = cNeg ∨ y = cPos ∨ y = cRoot := by
  obtain ⟨hv, x, hx, hyx, _⟩ := hy
  have : x = cNeg ∨ x = cPos := by simpa [mkC, exIdx, Roots.ids] using hx
  rcases this with rfl | rfl
  · rcases ancestors_level1 isCell_neg hv hyx with rfl | rfl
    · exact Or.inl rfl
    · exact Or.inr (Or.inr parent_neg)
  · rcases ancestors_level1 isCell_pos hv hyx with rfl | rfl
    · exact Or.inr (Or.inl rfl)
    · exact Or.inr (Or.inr parent_pos)

theorem ex_targetOK : CellTargetOK exC where
  valid := by decide
  edges e he := by
    rw [tcell_exC]
    rcases memC he with rfl | rfl
    · show UnitPt (a0, b0).1 ∧ _; exact edgeOK_of_mem factsC (p := (a0, b0)) (by simp)
    · show UnitPt (a1, b1).1 ∧ _; exact edgeOK_of_mem factsC (p := (a1, b1)) (by simp)
  cells y hy := by
    rw [tcell_exC]
    rcases visited_cases hy with rfl | rfl | rfl
    · rw [cellNeg_eq]; exact callsOK_of_mem factsC (by simp)
    · rw [cellPos_eq]; exact callsOK_of_mem factsC (by simp)
    · rw [cellRoot_eq]; exact callsOK_of_mem factsC (by simp)

/-! ## `IndexOK` (from its parts: `I1Arc` and `RootsCover`; the ancestors by `regions_nested`) -/

theorem ex_i1ArcC (tid : CellID) : I1Arc (mkC tid).toPoint := S2Proofs.C08.ex_i1Arc

theorem ex_rootsCoverC (tid : CellID) : RootsCover (mkC tid) := by
  intro lim x hx Q _ _ _
  have : x = cNeg ∨ x = cPos := by simpa [mkC, exIdx, Roots.ids] using hx
  refine ⟨cRoot, by simp [mkC, exIdx], ?_⟩
  rcases this with rfl | rfl <;> decide

theorem ex_indexOKC : IndexOK exC :=
  indexOK_of_parts ex_targetOK ex_indexOK.cellsOK ex_indexOK.rootsValid ex_indexOK.depth ex_indexOK.edgesSound
    ex_indexOK.locatedSound (ex_i1ArcC tidEx) (ex_rootsCoverC tidEx)

/-- **hypothesis-free instance of `cell_slackWorld`** -/
theorem ex_slackWorldC : Slack.SlackWorld chordI (world exC) (Near exC) := cell_slackWorld ex_targetOK ex_indexOKC

/-! ## the search really runs on this world (kernel evaluation) -/

def updCellL (T c : CellM.Cell) (lim : Chord) : Option Chord :=
  if F64.lt (distanceToCell T c) lim.1 then some (canon (distanceToCell T c)) else none

def updEdgeL (T : CellM.Cell) (e : EdgeKey) (lim : Chord) : Option Chord :=
  if F64.lt (distanceToEdge T (exIdx.vert e).1 (exIdx.vert e).2) lim.1
  then some (canon (distanceToEdge T (exIdx.vert e).1 (exIdx.vert e).2)) else none

def exTreeC (T : CellM.Cell) : EdgeQueryM.Cell Chord :=
  .node (updCellL T cellRoot) [.index (updCellL T cellNeg) [e1], .index (updCellL T cellPos) [e0]]

theorem updCellC_root : updCell exC cRoot = updCellL cellT cellRoot := by
  funext lim; unfold updCell cellDist updCellL; rw [tcell_exC, cellRoot_eq]
theorem updCellC_neg : updCell exC cNeg = updCellL cellT cellNeg := by
  funext lim; unfold updCell cellDist updCellL; rw [tcell_exC, cellNeg_eq]
theorem updCellC_pos : updCell exC cPos = updCellL cellT cellPos := by
  funext lim; unfold updCell cellDist updCellL; rw [tcell_exC, cellPos_eq]

theorem updEdgeC_eq : updEdge exC = updEdgeL cellT := by
  funext e lim; unfold updEdge edgeDist updEdgeL; rw [tcell_exC]; rfl

theorem treeC_eq : Roots.subtree exC.ix (updCell exC) 30 cRoot = exTreeC cellT := by
  have l0 : exC.ix.lookup cRoot = none := (by decide : exIdx.ix.lookup cRoot = none)
  have l1 : exC.ix.lookup cNeg = some [e1] := (by decide : exIdx.ix.lookup cNeg = some [e1])
  have l2 : exC.ix.lookup cPos = some [e0] := (by decide : exIdx.ix.lookup cPos = some [e0])
  have hk : (([1, 0, 3, 2].map (child cRoot)).filter (Roots.hasIndexCell exC.ix)) = [cNeg, cPos] :=
    (by decide : (([1, 0, 3, 2].map (child cRoot)).filter (Roots.hasIndexCell exIdx.ix)) = [cNeg, cPos])
  have h : Roots.subtree exC.ix (updCell exC) 30 cRoot =
      .node (updCell exC cRoot) [.index (updCell exC cNeg) [e1], .index (updCell exC cPos) [e0]] := by
    rw [show (30 : Nat) = 28 + 1 + 1 from rfl]
    rw [Roots.subtree, l0]
    rw [hk]
    simp only [List.map_cons, List.map_nil]
    rw [Roots.subtree, l1, Roots.subtree, l2]
  rw [h, updCellC_root, updCellC_neg, updCellC_pos]; rfl

/-- the same world with the tree and the target cell written out -/
def exWorldCL : World Chord where
  updEdge := updEdgeL cellT
  allEdges := exIdx.allEdges
  interiors := exIdx.interiors
  small := exIdx.small
  emptyTarget := false
  located := exIdx.located
  roots := fun _ => [exTreeC cellT]

theorem worldC_eq : world exC = exWorldCL := by
  have hr : (world exC).roots = fun _ => [exTreeC cellT] := by
    funext lim
    show [Roots.subtree exC.ix (updCell exC) 30 cRoot] = _
    rw [treeC_eq]
  unfold exWorldCL
  rw [← hr, ← updEdgeC_eq]; rfl

set_option maxRecDepth 100000 in
/-- the pruning values `DistanceToCell(target, ·)` of the three cells (bit patterns): the face cell contains the target (early `return 0`),
    `[-1,0]²` is at squared chord ≈ 0.135, `[0,1]²` at ≈ 0.0235 -/
theorem ex_cellValues :
    [cellRoot, cellNeg, cellPos].map (fun c => (distanceToCell cellT c).bits) =
      [0, 4593970975539599539, 4582417255529727149] := by decide +kernel

set_option maxRecDepth 100000 in
/-- the two `DistanceToEdge(target, edge)` values (bit patterns); for both edges the code reaches the vertex loop (no endpoint in the cell,
    no crossing) — the proviso of c12dist2's `distanceToEdge_attained_partial` holds -/
theorem ex_edgeValues :
    [(a0, b0), (a1, b1)].map (fun p => ((distanceToEdge cellT p.1 p.2).bits,
      anyCrossing (Crosser.initChain p.1 p.2 (vertex cellT 3)) (vertices cellT))) =
      [(4595673941343881311, false), (4603687153151700380, false)] := by decide +kernel

set_option maxRecDepth 100000 in
theorem ex_searchCL : (findEdges chordI exOpts exWorldCL).map (fun rs => rs.map (fun r => (r.dist.1.bits, r.shape, r.edge)))
    = some [(4595673941343881311, 0, 0)] := by decide +kernel

/-- the optimized search (MaxResults 1, infinite limit, MaxError 0) returns edge 0 at squared chord `0x3FC71D1A8A0C0C5F`-ish ≈ 0.18 -/
theorem ex_searchC : (findEdges chordI exOpts (world exC)).map (fun rs => rs.map (fun r => (r.dist.1.bits, r.shape, r.edge)))
    = some [(4595673941343881311, 0, 0)] := by
  rw [worldC_eq]; exact ex_searchCL

set_option maxRecDepth 100000 in
theorem ex_searchCL2 : (findEdges chordI exOpts2 exWorldCL).map (fun rs => rs.map (fun r => (r.dist.1.bits, r.shape, r.edge)))
    = some [(4595673941343881311, 0, 0), (4603687153151700380, 0, 1)] := by decide +kernel

/-- with `MaxResults = 2` both edges are found -/
theorem ex_searchC2 : (findEdges chordI exOpts2 (world exC)).map (fun rs => rs.map (fun r => (r.dist.1.bits, r.shape, r.edge)))
    = some [(4595673941343881311, 0, 0), (4603687153151700380, 0, 1)] := by
  rw [worldC_eq]; exact ex_searchCL2

/-- the proviso of the "attained" direction holds for both edges of the example -/
theorem ex_proviso : ∀ e ∈ exC.allEdges, AttainedProviso exC e := by
  intro e he
  have hv := ex_edgeValues
  simp only [List.map_cons, List.map_nil, List.cons.injEq, Prod.mk.injEq, and_true] at hv
  unfold AttainedProviso
  rw [tcell_exC]
  rcases memC he with rfl | rfl
  · exact Or.inr hv.1.2
  · exact Or.inr hv.2.2

/-- the two reported floats are `≤ 4` -/
theorem ex_le4 : EdgeLe4 exC := by
  intro e he
  have h : ∀ p ∈ [(a0, b0), (a1, b1)], Fin (distanceToEdge cellT p.1 p.2) ∧ S2.Exact.toInt (distanceToEdge cellT p.1 p.2) ≤ 4 * 2 ^ 1074 := by
    decide +kernel
  unfold edgeDist
  rw [tcell_exC]
  have key : ∀ x : F64, S2.Exact.toInt x ≤ 4 * 2 ^ 1074 → val x ≤ 4 := by
    intro x hx
    unfold val
    rw [div_le_iff₀ (by positivity)]
    exact_mod_cast hx
  rcases memC he with rfl | rfl
  · exact key _ (h (a0, b0) (by simp)).2
  · exact key _ (h (a1, b1) (by simp)).2

end S2Proofs.C08Cell.Ex
