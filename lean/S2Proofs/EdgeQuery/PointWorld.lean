/-
  S2Proofs.EdgeQuery.PointWorld — the CONCRETE world of a closest-edge query with a POINT target
  (`MinDistanceToPointTarget`) on a built index, and the proof that it is a `Slack.SlackWorld`
  (package c08world):

   * edges      = pairs of float vertices; `updateDistanceToEdge` = the bit-exact `UpdateMinDistance`
                  (`S2.EdgeNum.updateMinDistancePub`) — contract `updateMin_contract` (C17);
   * cells      = cell ids, arranged as the tree `Roots.subtree` of the index; `updateDistanceToCell`
                  = the bit-exact `Cell.Distance` (`S2.CellM.distance`) — `distance_lower_bound` (C12),
                  taken as the PARAMETER `DistanceLowerBoundReal cellErr` with `cellErr + 2^-49 ≤ slack`
                  (instantiate with `S2Proofs.C12.distanceLowerBound_holds`: `cellErr = 2^-45`);
   * "below"    = index invariant I1 in the form the search needs it (`ClosestCovered`): the point of the
                  edge closest to the target lies in (the exact region of) an index cell that lists the edge
                  and in all its ancestors up to an initial cell.
-/
import S2Proofs.EdgeQuery.PointChord
import S2Proofs.EdgeQuery.SlackDefs
import S2Proofs.EdgeQuery.RootsComplete
import S2Proofs.EdgeQuery.PointEdgeNum
import S2Proofs.Properties.C12_Distance

set_option linter.unusedSimpArgs false
set_option linter.unusedVariables false

namespace S2Proofs.C08World
open S2 S2.Exact S2.CellID S2.EdgeNum S2.EdgeQueryM S2Proofs.F64Order S2Proofs.FloatErr S2Proofs.EdgeQuery
open S2Proofs.C17Err S2Proofs.C17

/-! ## the data -/

/-- index + target of one query -/
structure PointIndex where
  /-- the target point -/
  p : V3
  /-- the two vertices of an edge -/
  vert : EdgeKey → V3 × V3
  /-- all edges of the index in brute-force scan order -/
  allEdges : List EdgeKey
  /-- the index cells with their clipped edges -/
  ix : Roots.CIndex
  /-- ids of the initial cells `initQueue` hands to `processOrEnqueue`, as a function of the limit -/
  rootIds : Chord → List CellID
  /-- descent depth of the tree (30 covers every level) -/
  depth : Nat
  interiors : List Int
  located : Option (List EdgeKey)
  small : Bool

variable (P : PointIndex)

/-- `cell.Distance(m.point)` -/
def cellDist (id : CellID) : F64 := CellM.distance (CellM.cellFromCellID id) P.p

/-- `MinDistanceToPointTarget.updateDistanceToCell`: `dist.updateDistance(minDistance(cell.Distance(point)))` -/
def updCell (id : CellID) (lim : Chord) : Option Chord :=
  if F64.lt (cellDist P id) lim.1 then some (canon (cellDist P id)) else none

/-- `MinDistanceToPointTarget.updateDistanceToEdge`:
    `if d, ok := UpdateMinDistance(point, v0, v1, dist); ok { dist, _ = dist.updateDistance(minDistance(d)); return dist, true }`
    (`updateDistance` keeps the old value unless `d < dist`; on the domain of the theorems `ok` implies `d < dist`) -/
def updEdge (e : EdgeKey) (lim : Chord) : Option Chord :=
  if (updateMinDistancePub P.p (P.vert e).1 (P.vert e).2 lim.1).2 then
    some (if F64.lt (updateMinDistancePub P.p (P.vert e).1 (P.vert e).2 lim.1).1 lim.1
      then canon (updateMinDistancePub P.p (P.vert e).1 (P.vert e).2 lim.1).1 else lim)
  else none

/-- the world of the search model -/
def world : World Chord where
  updEdge := updEdge P
  allEdges := P.allEdges
  interiors := P.interiors
  small := P.small
  emptyTarget := false
  located := P.located
  roots lim := (P.rootIds lim).map (Roots.subtree P.ix (updCell P) P.depth)

/-- TRUE squared chord distance from (the direction of) the target to the arc of edge `e` -/
noncomputable def rho (e : EdgeKey) : ℝ := trueDist2 P.p (P.vert e).1 (P.vert e).2

/-- THE SLACK of the end-to-end theorems (squared chord length): `2^-44 = 512·2^-53`
    (cell: the error of C12's `distance_lower_bound` — `2^-45` after repair D58, `2^-46` before — plus `2^-49` for
    `|p| ≠ 1`, rounded up to a power of two; edge: `edgeErr = 2^-46`) -/
noncomputable def slack : ℝ := 1 / 2 ^ 44

/-- "edge `e` is truly closer than `lim` by more than the slack" -/
def Near (e : EdgeKey) (lim : Chord) : Prop := lim.1 = posInf ∨ rho P e + slack < val lim.1

/-! ## `canon` on finite values -/

theorem val_sign_false {x : F64} (h : x.signBit = false) : 0 ≤ val x := by
  unfold val
  rw [S2Proofs.F64Inj.toInt_eq_mag, h]
  simp only [Bool.false_eq_true, if_false]
  positivity

theorem val_sign_true {x : F64} (h : x.signBit = true) : val x ≤ 0 := by
  unfold val
  rw [S2Proofs.F64Inj.toInt_eq_mag, h]
  simp only [if_true]
  apply div_nonpos_of_nonpos_of_nonneg
  · push_cast; simp
  · positivity

theorem czero_facts : Fin czero.1 ∧ val czero.1 = 0 := by
  have h : Fin czero.1 ∧ toInt czero.1 = 0 := by decide
  exact ⟨h.1, by unfold val; rw [h.2]; simp⟩

theorem fin_ne_inf {x : F64} (h : Fin x) : x ≠ posInf := by
  intro e; rw [e] at h; exact inf_facts.2.2.2 h

/-- a finite value is injected as a finite chord with the same value (negative values, which never occur on the
    domain, as 0) -/
theorem canon_fin {x : F64} (h : Fin x) : Fin (canon x).1 ∧ val (canon x).1 = max (val x) 0 := by
  unfold canon
  by_cases hc : IsChord x
  · rw [dif_pos hc]
    rcases hc with ⟨_, hs⟩ | hi
    · exact ⟨h, (max_eq_left (val_sign_false hs)).symm⟩
    · exact absurd hi (fin_ne_inf h)
  · rw [dif_neg hc]
    have hs : x.signBit = true := by
      cases hh : x.signBit with
      | true => rfl
      | false => exact absurd (Or.inl ⟨h, hh⟩) hc
    rw [if_pos ⟨h, hs⟩]
    exact ⟨czero_facts.1, by rw [czero_facts.2, max_eq_right (val_sign_true hs)]⟩

theorem chord_lim_ok (lim : Chord) : (Fin lim.1 ∧ 0 ≤ val lim.1) ∨ lim.1 = F64.inf false := by
  rcases lim.2 with ⟨hf, hs⟩ | hi
  · exact Or.inl ⟨hf, val_sign_false hs⟩
  · exact Or.inr hi

theorem chord_fin_or_inf (lim : Chord) : Fin lim.1 ∨ lim.1 = posInf := by
  rcases lim.2 with ⟨hf, _⟩ | hi
  · exact Or.inl hf
  · exact Or.inr hi

/-- `Near` is monotone in the limit -/
theorem near_mono (e : EdgeKey) (a b : Chord) (h : Near P e a) (hba : chordI.less b a = false) : Near P e b := by
  rcases chord_fin_or_inf b with hb | hb
  · rcases h with ha | ha
    · have : cless b a = true := by unfold cless; rw [ha]; exact lt_fin_inf hb
      rw [show chordI.less b a = cless b a from rfl, this] at hba; cases hba
    · rcases chord_fin_or_inf a with haf | hai
      · right
        have h1 : ¬ (val b.1 < val a.1) := by
          intro hlt
          have : F64.lt b.1 a.1 = true := (lt_val hb haf).mpr hlt
          rw [show chordI.less b a = F64.lt b.1 a.1 from rfl, this] at hba; cases hba
        linarith [not_lt.mp h1]
      · have : cless b a = true := by unfold cless; rw [hai]; exact lt_fin_inf hb
        rw [show chordI.less b a = cless b a from rfl, this] at hba; cases hba
  · exact Or.inl hb

/-! ## domain hypotheses -/

/-- numeric domain of c17err for the target and every edge of the index -/
structure EdgesOK : Prop where
  target : UnitPt P.p
  v0 : ∀ e ∈ P.allEdges, UnitPt (P.vert e).1
  v1 : ∀ e ∈ P.allEdges, UnitPt (P.vert e).2
  edgeOK : ∀ e ∈ P.allEdges, EdgeOK (P.vert e).1 (P.vert e).2
  margin : ∀ e ∈ P.allEdges, WedgeMargin P.p (P.vert e).1 (P.vert e).2

theorem edgeErr_le_slack : edgeErr ≤ slack := by unfold edgeErr slack; norm_num

/-! ## the edge clauses of `SlackWorld` -/

variable {P}

theorem updEdge_some {e : EdgeKey} {lim x : Chord} (h : updEdge P e lim = some x) :
    (updateMinDistancePub P.p (P.vert e).1 (P.vert e).2 lim.1).2 = true ∧
    x = (if F64.lt (updateMinDistancePub P.p (P.vert e).1 (P.vert e).2 lim.1).1 lim.1
      then canon (updateMinDistancePub P.p (P.vert e).1 (P.vert e).2 lim.1).1 else lim) := by
  unfold updEdge at h
  split at h
  · rename_i h2
    exact ⟨h2, by simpa using h.symm⟩
  · cases h

theorem updEdge_none {e : EdgeKey} {lim : Chord} (h : updEdge P e lim = none) :
    (updateMinDistancePub P.p (P.vert e).1 (P.vert e).2 lim.1).2 = false := by
  unfold updEdge at h
  split at h
  · cases h
  · rename_i h2; simpa using h2

/-- "ok, x": `x` is finite, within the limit (Go's `<`), and within `edgeErr` of the true distance -/
theorem edge_some (H : EdgesOK P) {e : EdgeKey} (he : e ∈ P.allEdges) {lim x : Chord}
    (h : updEdge P e lim = some x) :
    Fin x.1 ∧ chordI.less x lim = true ∧ |val x.1 - rho P e| ≤ edgeErr := by
  obtain ⟨h2, hx⟩ := updEdge_some h
  obtain ⟨c1, _⟩ := updateMin_contract P.p (P.vert e).1 (P.vert e).2 H.target (H.v0 e he) (H.v1 e he)
    (H.edgeOK e he) (H.margin e he) lim.1 (chord_lim_ok lim)
  obtain ⟨f, nn, _, hlt, herr⟩ := c1 h2
  obtain ⟨cf, cv⟩ := canon_fin f
  rw [max_eq_left nn] at cv
  rw [if_pos hlt] at hx
  subst hx
  refine ⟨cf, ?_, by rw [cv]; exact herr⟩
  show F64.lt _ lim.1 = true
  rcases chord_fin_or_inf lim with hl | hl
  · rw [lt_val cf hl, cv]; exact (lt_val f hl).mp hlt
  · have := lt_fin_inf cf
    rw [← hl] at this; exact this

/-- "not ok": the limit is finite and at most `edgeErr` above the true distance -/
theorem edge_none (H : EdgesOK P) {e : EdgeKey} (he : e ∈ P.allEdges) {lim : Chord}
    (h : updEdge P e lim = none) : Fin lim.1 ∧ val lim.1 ≤ rho P e + edgeErr := by
  obtain ⟨_, c2⟩ := updateMin_contract P.p (P.vert e).1 (P.vert e).2 H.target (H.v0 e he) (H.v1 e he)
    (H.edgeOK e he) (H.margin e he) lim.1 (chord_lim_ok lim)
  exact c2 (updEdge_none h)

theorem not_near_of_le {e : EdgeKey} {x : Chord} (hf : Fin x.1) (h : val x.1 ≤ rho P e + slack) : ¬ Near P e x := by
  rintro (hi | hlt)
  · exact fin_ne_inf hf hi
  · linarith


/-! ## bridge between the exact vocabularies of C17 (`C17Err.R3`, directions) and C12 (`C16Acc.R3`, `dist2`) -/

/-- the same real vector in the vocabulary of C12 -/
def toAcc (Q : C17Err.R3) : S2Proofs.C16Acc.R3 := ⟨Q.x, Q.y, Q.z⟩

theorem unitPt_ptOK {p : V3} (h : UnitPt p) : S2Proofs.C12Dist.PtOK p := by
  obtain ⟨⟨fx, fy, fz'⟩, lo, hi⟩ := h
  have hn : (S2Proofs.C16Acc.ofV p).norm2 = n2 p := by
    unfold S2Proofs.C16Acc.ofV S2Proofs.C16Acc.R3.norm2 n2; ring
  refine ⟨?_, ?_, ?_⟩
  · unfold Exact.finite3
    simp [S2Proofs.C12ST.isFinite_of_fin fx, S2Proofs.C12ST.isFinite_of_fin fy, S2Proofs.C12ST.isFinite_of_fin fz']
  · rw [hn]
    have : (1 : ℝ) / 2 ≤ (1 - delta0) ^ 2 := by unfold delta0; norm_num
    linarith
  · rw [hn]
    have : (1 + delta0) ^ 2 ≤ (1 : ℝ) + 1 / 2 ^ 21 := by unfold delta0; norm_num
    linarith

/-- `|p − Q|²` (C12) against the chord between the DIRECTION of `p` and `Q` (C17): they differ by at most
    `5·| |p| − 1 | ≤ 2^-49` -/
theorem dist2_bridge {p : V3} (hp : UnitPt p) (Q : C17Err.R3) (hQ : Q.n2 = 1) :
    S2Proofs.C12Dist.dist2 (S2Proofs.C16Acc.ofV p) (toAcc Q) ≤ dirChordP p Q + 1 / 2 ^ 49 ∧ 0 ≤ dirChordP p Q := by
  obtain ⟨hL1, hL0, hLle⟩ := unit_len delta0_nonneg (le_refl _) hp
  have hQl : Q.len = 1 := by unfold R3.len; rw [hQ]; simp
  have hcs := R3.abs_dot_le (vecR p) Q
  rw [hQl, mul_one, vecR_len] at hcs
  have hd2 : S2Proofs.C12Dist.dist2 (S2Proofs.C16Acc.ofV p) (toAcc Q)
      = len p * len p + 1 - 2 * (vecR p).dot Q := by
    rw [S2Proofs.C12Dist.dist2_eq]
    have h1 : (S2Proofs.C16Acc.ofV p).norm2 = len p * len p := by
      rw [C17Err.len_sq]; unfold S2Proofs.C16Acc.ofV S2Proofs.C16Acc.R3.norm2 n2; ring
    have h2 : (toAcc Q).norm2 = 1 := by
      rw [← hQ]; unfold toAcc S2Proofs.C16Acc.R3.norm2 R3.n2 R3.dot; ring
    have h3 : S2Proofs.C16Acc.R3.dot (S2Proofs.C16Acc.ofV p) (toAcc Q) = (vecR p).dot Q := by
      unfold toAcc S2Proofs.C16Acc.ofV S2Proofs.C16Acc.R3.dot vecR R3.dot; ring
    rw [h1, h2, h3]
  set L := len p with hLd
  set d := (vecR p).dot Q with hdd
  set t := d / L with htd
  have hdt : d = t * L := by rw [htd]; field_simp
  have ht : |t| ≤ 1 := by
    rw [htd, abs_div, abs_of_pos hL0]
    exact (div_le_one hL0).mpr hcs
  obtain ⟨t1, t2⟩ := abs_le.mp ht
  obtain ⟨l1, l2⟩ := abs_le.mp hL1
  have hδ := delta0_le
  have hδ0 := delta0_nonneg
  constructor
  · rw [hd2]
    unfold dirChordP
    rw [← hdd, ← hLd, ← htd, hdt]
    have key : (L - 1) * (L + 1 - 2 * t) ≤ 5 * delta0 := by
      have a1 : |L - 1| * |L + 1 - 2 * t| ≤ delta0 * 5 := by
        apply mul_le_mul hL1 _ (abs_nonneg _) hδ0
        rw [abs_le]; constructor <;> nlinarith
      calc (L - 1) * (L + 1 - 2 * t) ≤ |(L - 1) * (L + 1 - 2 * t)| := le_abs_self _
        _ = |L - 1| * |L + 1 - 2 * t| := abs_mul _ _
        _ ≤ 5 * delta0 := by linarith
    have : (5 : ℝ) * (1 / 2 ^ 52) ≤ 1 / 2 ^ 49 := by norm_num
    nlinarith
  · unfold dirChordP
    rw [← hdd, ← hLd, ← htd]
    linarith

/-! ## the cell clause: `Cell.Distance` against an edge with a point in the cell -/

open S2Proofs.C12 S2Proofs.C12Dist in
/-- a cell whose exact region contains the point `Q` of edge `e` that realises the edge's true distance is
    `GoodFor` that edge: its reported distance is at most `rho e + cellErr + 2^-49 ≤ rho e + slack` -/
theorem cell_good {cellErr : ℝ} (hc : cellErr + 1 / 2 ^ 49 ≤ slack) (cellLB : DistanceLowerBoundReal cellErr)
    (hp : UnitPt P.p) {y : CellID}
    (hv : isValid y = true) {e : EdgeKey} {Q : C17Err.R3} (hQ1 : Q.n2 = 1)
    (hQ : InCellXYZ (CellM.cellFromCellID y) (toAcc Q)) (hρ : dirChordP P.p Q = rho P e) :
    ∀ l, (updCell P y l = none → ¬ Near P e l) ∧ (∀ x, updCell P y l = some x → ¬ Near P e x) := by
  obtain ⟨hf, hle⟩ := cellLB y P.p hv (unitPt_ptOK hp) (toAcc Q) hQ
  obtain ⟨hb, hr0⟩ := dist2_bridge hp Q hQ1
  rw [hρ] at hb hr0
  have hD : val (cellDist P y) ≤ rho P e + (cellErr + 1 / 2 ^ 49) := by
    unfold cellDist; linarith
  have hs : cellErr + 1 / 2 ^ 49 ≤ slack := hc
  have hf' : Fin (cellDist P y) := hf
  intro l
  constructor
  · intro hnone
    unfold updCell at hnone
    split at hnone
    · cases hnone
    · rename_i hnl
      rintro (hi | hlt)
      · rw [hi] at hnl; exact hnl (lt_fin_inf hf')
      · rcases chord_fin_or_inf l with hl | hl
        · have : ¬ (val (cellDist P y) < val l.1) := fun h => hnl ((lt_val hf' hl).mpr h)
          linarith [not_lt.mp this]
        · rw [hl] at hnl; exact hnl (lt_fin_inf hf')
  · intro x hsome
    unfold updCell at hsome
    split at hsome
    · have hx : x = canon (cellDist P y) := by simpa using hsome.symm
      obtain ⟨cf, cv⟩ := canon_fin hf'
      subst hx
      apply not_near_of_le cf
      rw [cv]
      apply max_le
      · linarith
      · unfold slack; linarith [show (0 : ℝ) ≤ 1 / 2 ^ 44 by positivity]
    · cases hsome

/-! ## the witness path in `Roots.subtree` -/

section Tree
variable {D : Type} {NearD : EdgeKey → D → Prop}

theorem subtree_cd (ix : Roots.CIndex) (cd : CellID → D → Option D) (fuel : Nat) (c : CellID) :
    (Roots.subtree ix cd fuel c).cd = cd c := by
  cases fuel with
  | zero => rfl
  | succ n =>
    unfold Roots.subtree
    cases ix.lookup c <;> rfl

theorem goodFor_subtree (ix : Roots.CIndex) (cd : CellID → D → Option D) (fuel : Nat) (c : CellID) (e : EdgeKey)
    (h : ∀ l, (cd c l = none → ¬ NearD e l) ∧ (∀ x, cd c l = some x → ¬ NearD e x)) :
    Slack.GoodFor NearD e (Roots.subtree ix cd fuel c) := by
  unfold Slack.GoodFor
  rw [subtree_cd]; exact h

theorem reachList_of_mem {e : EdgeKey} {l : List (Cell D)} {c : Cell D} (hc : c ∈ l)
    (h : Slack.Reach NearD e c) : Slack.ReachList NearD e l := by
  induction l with
  | nil => cases hc
  | cons x xs ih =>
    unfold Slack.ReachList
    rcases List.mem_cons.1 hc with rfl | hc
    · exact Or.inl h
    · exact Or.inr (ih hc)

/-- below a cell `c` that contains the index cell `x` (which lists `e`), the tree has a witness path for `e`,
    provided `x` and all its ancestors are `GoodFor e` -/
theorem reach_subtree (ix : Roots.CIndex) (cd : CellID → D → Option D) (hok : IndexCellsOK (Roots.ids ix))
    (e : EdgeKey) {x : CellID} {es : List EdgeKey} {j : Nat} (hl : ix.lookup x = some es) (hx : IsCell x j)
    (he : e ∈ es)
    (hg : ∀ y i, IsCell y i → contains y x = true →
      ∀ l, (cd y l = none → ¬ NearD e l) ∧ (∀ z, cd y l = some z → ¬ NearD e z)) :
    ∀ (fuel : Nat) (c : CellID) (k : Nat), IsCell c k → contains c x = true → j ≤ k + fuel →
      Slack.Reach NearD e (Roots.subtree ix cd fuel c) := by
  intro fuel
  induction fuel with
  | zero =>
    intro c k hc hcx hj
    have hp := (hc.contains_iff_parent hx).mp hcx
    have hkj : k = j := by omega
    subst hkj
    have hxc : x = c := by rw [← hp.2, hx.parent_self_id]
    subst hxc
    have hgf := goodFor_subtree ix cd 0 x e (hg x k hx hcx)
    simp only [Roots.subtree, hl, Option.getD_some] at hgf ⊢
    unfold Slack.Reach
    exact ⟨he, hgf⟩
  | succ fuel ih =>
    intro c k hc hcx hj
    have hxm := Roots.lookup_mem_ids ix hl
    have hgf := goodFor_subtree ix cd (fuel+1) c e (hg c k hc hcx)
    unfold Roots.subtree at hgf ⊢
    cases hlc : ix.lookup c with
    | some es' =>
      have hcm := Roots.lookup_mem_ids ix hlc
      have hxc : c = x := by
        by_contra hne
        rw [Roots.not_contains_of_ne hok hcm hxm hne] at hcx; cases hcx
      subst hxc
      rw [hl] at hlc
      cases hlc
      rw [hl] at hgf
      simp only at hgf ⊢
      unfold Slack.Reach
      exact ⟨he, hgf⟩
    | none =>
      rw [hlc] at hgf
      simp only at hgf ⊢
      have hne : x ≠ c := fun h => Roots.lookup_none_not_mem ix hlc (h ▸ hxm)
      obtain ⟨hk30, t, ⟨ht, hct⟩, _⟩ := hc.unique_child hx hcx hne
      have hkid : child c t ∈ ([1, 0, 3, 2].map (child c)).filter (Roots.hasIndexCell ix) := by
        rw [List.mem_filter]
        constructor
        · have : t = 0 ∨ t = 1 ∨ t = 2 ∨ t = 3 := by omega
          rcases this with rfl | rfl | rfl | rfl <;> simp
        · unfold Roots.hasIndexCell
          rw [List.any_eq_true]
          exact ⟨x, hxm, hct⟩
      unfold Slack.Reach
      refine ⟨hgf, ?_⟩
      apply reachList_of_mem (List.mem_map.2 ⟨child c t, hkid, rfl⟩)
      exact ih (child c t) (k+1) (hc.child_isCell hk30 ht) hct (by omega)

end Tree

/-! ## index hypotheses and the `SlackWorld` instance -/

variable (P)

/-- **index invariant I1 in the form the search needs** (C06's subject; for a finite limit it also contains the
    completeness of the search-disc covering): for an edge that is `Near` the limit, the point `Q` of its arc that
    realises the true distance lies in the exact region of an index cell `x` that lists the edge, `x` lies below an
    initial cell for that limit, and `Q` also lies in the exact region of every ancestor of `x`
    (nesting of the exact regions — float monotonicity of `stToUV`, not proved here). -/
def ClosestCovered : Prop :=
  ∀ lim, ∀ e ∈ P.allEdges, Near P e lim →
    ∃ Q : C17Err.R3, OnArc (vecR (P.vert e).1) (vecR (P.vert e).2) Q ∧ dirChordP P.p Q = rho P e ∧
      ∃ x es, P.ix.lookup x = some es ∧ e ∈ es ∧
        (∃ c ∈ P.rootIds lim, contains c x = true) ∧
        ∀ y, isValid y = true → contains y x = true →
          S2Proofs.C12Dist.InCellXYZ (CellM.cellFromCellID y) (toAcc Q)

/-- structural hypotheses on the index -/
structure IndexOK : Prop where
  cellsOK : IndexCellsOK (Roots.ids P.ix)
  rootsValid : ∀ lim, ∀ c ∈ P.rootIds lim, isValid c = true
  depth : 30 ≤ P.depth
  /-- index cells and the located cell only list edges of the index -/
  edgesSound : ∀ x es, P.ix.lookup x = some es → ∀ e ∈ es, e ∈ P.allEdges
  locatedSound : ∀ es, P.located = some es → ∀ e ∈ es, e ∈ P.allEdges
  covered : ClosestCovered P

variable {P}

/-- **the concrete point-target world is a `SlackWorld`** for `Near` = "truly closer than the limit by more than
    `slack = 2^-44`".  `cellLB` is `S2Proofs.C12.distanceLowerBound_holds`. -/
theorem point_slackWorld {cellErr : ℝ} (hcE : cellErr + 1 / 2 ^ 49 ≤ slack)
    (cellLB : S2Proofs.C12.DistanceLowerBoundReal cellErr) (HE : EdgesOK P) (HI : IndexOK P) : Slack.SlackWorld chordI (world P) (Near P) where
  nearMono := near_mono P
  edgeLt e he lim x h := (edge_some HE he h).2.1
  edgeVal e he lim x h := by
    obtain ⟨f, _, herr⟩ := edge_some HE he h
    apply not_near_of_le f
    have := (abs_le.mp herr).2
    linarith [edgeErr_le_slack]
  edgeNone e he lim h := by
    obtain ⟨f, hle⟩ := edge_none HE he h
    apply not_near_of_le f
    linarith [edgeErr_le_slack]
  reach lim e he hn := by
    obtain ⟨Q, hQarc, hρ, x, es, hl, hes, ⟨c, hc, hcx⟩, hin⟩ := HI.covered lim e he hn
    obtain ⟨_, _, _, _, _, hQ1⟩ := hQarc
    obtain ⟨k, hk⟩ := (isValid_iff c).mp (HI.rootsValid lim c hc)
    obtain ⟨j, hj⟩ := (isValid_iff x).mp (HI.cellsOK.valid x (Roots.lookup_mem_ids P.ix hl))
    show Slack.ReachList (Near P) e ((P.rootIds lim).map (Roots.subtree P.ix (updCell P) P.depth))
    apply reachList_of_mem (List.mem_map.2 ⟨c, hc, rfl⟩)
    refine reach_subtree P.ix (updCell P) HI.cellsOK e hl hj hes ?_ P.depth c k hk hcx ?_
    · intro y i hy hyx
      exact cell_good hcE cellLB HE.target ((isValid_iff y).mpr ⟨i, hy⟩) hQ1
        (hin y ((isValid_iff y).mpr ⟨i, hy⟩) hyx) hρ
    · have := hj.k_le; have := HI.depth; omega
  rootsSound lim e he := by
    obtain ⟨c, hc, hec⟩ := Roots.exists_of_mem_edgesUnderList he
    obtain ⟨id, _, rfl⟩ := List.mem_map.1 hc
    obtain ⟨x, es, hl, hes⟩ := Roots.subtree_sound P.ix (updCell P) P.depth id e hec
    exact HI.edgesSound x es hl e hes
  locatedSound := HI.locatedSound
  nonEmptyTarget := rfl
  zeroMin e he := by
    obtain ⟨Q, hQarc, hρ, _⟩ : ∃ Q : C17Err.R3, OnArc (vecR (P.vert e).1) (vecR (P.vert e).2) Q ∧
        dirChordP P.p Q = rho P e ∧ True := by
      obtain ⟨Q, h1, h2⟩ := trueDist2_attained (x := P.p) (a := (P.vert e).1) (b := (P.vert e).2)
        HE.target.len_pos (HE.v0 e he).len_pos (HE.v1 e he).len_pos
      exact ⟨Q, h1, h2, trivial⟩
    obtain ⟨_, _, _, _, _, hQ1⟩ := hQarc
    have h0 := (dist2_bridge HE.target Q hQ1).2
    rw [hρ] at h0
    apply not_near_of_le czero_facts.1
    show val czero.1 ≤ _
    rw [czero_facts.2]
    unfold slack; linarith [show (0 : ℝ) ≤ 1 / 2 ^ 44 by positivity]

end S2Proofs.C08World
