/-
  S2Proofs.EdgeQuery.FurthestCover — where the index hypothesis `FarthestCovered` of `FurthestWorld.lean` comes from
  (package c08more-subF; the analogue of c08world2 / c08edge for the furthest-edge query):

      `FarthestCovered`  ⇐  `I1Arc` (C06; literally c08world2's statement — it only speaks about the index)
                          +  `FarRootsCover` (completeness of the initial cells)
                          +  nesting of the exact cell regions (`regions_nested`, PROVED in c08world2)

      `FarRootsCover`    ⇐  `FarRootsCoverInf` (unbounded search, limit = −1: the initial cells are the index covering — index-only
                             statement, derivable from `initCovering_spec`, see `Properties/C08_Furthest.lean`)
                          +  `FarRootsCoverFin` (finite limit — hypothesis: the covering of the search "disc", which for a furthest query is
                             the cap around the ANTIPODE of the target: `MaxDistanceToPointTarget.capBound` = `Cap(−p, 0)`, radius
                             `maxDistance.chordAngleBound()` = `4 − limit`).
-/
import S2Proofs.EdgeQuery.FurthestWorld
import S2Proofs.EdgeQuery.PointWorld2Defs
import S2Proofs.EdgeQuery.RegionsNested

set_option linter.unusedSimpArgs false
set_option linter.unusedVariables false

namespace S2Proofs.C08Far
open S2 S2.Exact S2.CellID S2.EdgeNum S2.EdgeQueryM S2Proofs.F64Order S2Proofs.FloatErr S2Proofs.EdgeQuery
open S2Proofs.C17Err S2Proofs.C17 S2Proofs.C17Pairs S2Proofs.C12Dist2
open S2Proofs.C08World (toAcc I1Arc PointIndex regions_nested)

/-- the index of a furthest-edge query seen as the `PointIndex` of c08world (only `allEdges`, `vert`, `ix` matter for `I1Arc`;
    the initial cells are those of the unbounded search) -/
def FarIndex.toPoint (P : FarIndex) : PointIndex where
  p := P.p
  vert := P.vert
  allEdges := P.allEdges
  ix := P.ix
  rootIds := fun _ => P.rootIds minf
  depth := P.depth
  interiors := P.interiors
  located := P.located
  small := P.small

variable (P : FarIndex)

/-- "the unit vector `Q` is FARTHER from (the direction of) the target than `lim` by more than the slack" -/
def FarPtNear (Q : C17Err.R3) (lim : MChord) : Prop := lim.1 = mNegOne ∨ val lim.1 + farSlack < dirChordP P.p Q

/-- **completeness of the initial cells**: an index cell whose exact region holds a point `FarPtNear` the limit lies below an
    initial cell for that limit -/
def FarRootsCover : Prop :=
  ∀ lim : MChord, ∀ x ∈ Roots.ids P.ix, ∀ Q : C17Err.R3, Q.n2 = 1 →
    S2Proofs.C12Dist.InCellXYZ (CellM.cellFromCellID x) (toAcc Q) → FarPtNear P Q lim →
    ∃ c ∈ P.rootIds lim, contains c x = true

/-- completeness of the initial cells of the UNBOUNDED search (`distanceLimit == infinity()` = −1): every index cell lies below one -/
def FarRootsCoverInf : Prop := ∀ x ∈ Roots.ids P.ix, ∃ c ∈ P.rootIds minf, contains c x = true

/-- **completeness of the initial cells for a limit other than −1** (hypothesis): an index cell whose exact region holds a unit
    vector `Q` with `limit + farSlack < chord²(p̂, Q)` lies below one of the cells `initQueue` produces in its finite-limit branch
    (`FastCovering` of `Cap(−p, 4 − limit)` intersected with the index covering and cleaned up by `LocateCellID`). -/
def FarRootsCoverFin : Prop :=
  ∀ lim : MChord, lim.1 ≠ mNegOne → ∀ x ∈ Roots.ids P.ix, ∀ Q : C17Err.R3, Q.n2 = 1 →
    S2Proofs.C12Dist.InCellXYZ (CellM.cellFromCellID x) (toAcc Q) → val lim.1 + farSlack < dirChordP P.p Q →
    ∃ c ∈ P.rootIds lim, contains c x = true

variable {P}

/-- **`FarthestCovered` from `I1Arc` (C06) and `FarRootsCover`**; the nesting of the exact regions is `regions_nested` (c08world2),
    the attaining point is `trueMaxDist2_is_max` (c17pairs) -/
theorem farthestCovered_of_arc_roots (H : FarEdgesOK P) (hcells : IndexCellsOK (Roots.ids P.ix))
    (h1 : I1Arc P.toPoint) (hr : FarRootsCover P) : FarthestCovered P := by
  intro lim e he hn
  obtain ⟨Q, hQ, hρ⟩ := (rhoMax_is_max H he).2
  obtain ⟨x, es, hl, hes, hin⟩ := h1 e he Q hQ
  have hl' : P.ix.lookup x = some es := hl
  have hQ1 : Q.n2 = 1 := by obtain ⟨_, _, _, _, _, h⟩ := hQ; exact h
  have hxm := Roots.lookup_mem_ids P.ix hl'
  have hnear : FarPtNear P Q lim := by
    rcases hn with hi | hlt
    · exact Or.inl hi
    · right; rw [hρ]; exact hlt
  refine ⟨Q, hQ, hρ, x, es, hl', hes, hr lim x hxm Q hQ1 hin hnear, ?_⟩
  intro y hy hyx
  exact regions_nested y x hy (hcells.valid x hxm) hyx _ hin

theorem farRootsCover_of_inf_fin (hi : FarRootsCoverInf P) (hf : FarRootsCoverFin P) : FarRootsCover P := by
  intro lim x hx Q hQ1 hin hn
  by_cases hl : lim.1 = mNegOne
  · have : lim = minf := Subtype.ext hl
    subst this
    exact hi x hx
  · rcases hn with h | h
    · exact absurd h hl
    · exact hf lim hl x hx Q hQ1 hin h

theorem farIndexOK_of_parts (H : FarEdgesOK P) (hcells : IndexCellsOK (Roots.ids P.ix))
    (hroots : ∀ lim, ∀ c ∈ P.rootIds lim, isValid c = true) (hdepth : 30 ≤ P.depth)
    (hes : ∀ x es, P.ix.lookup x = some es → ∀ e ∈ es, e ∈ P.allEdges)
    (hloc : ∀ es, P.located = some es → ∀ e ∈ es, e ∈ P.allEdges)
    (h1 : I1Arc P.toPoint) (hr : FarRootsCover P) : FarIndexOK P where
  cellsOK := hcells
  rootsValid := hroots
  depth := hdepth
  edgesSound := hes
  locatedSound := hloc
  covered := farthestCovered_of_arc_roots H hcells h1 hr

/-- `SubLawsOn` for `MaxError = 0` -/
theorem far_subLawsOn_zero : Slack.SubLawsOn mchordI (world P) mnull := mchord_subLaws_zero.on

/-- **`SubLawsOn` in a form decidable per index**: every value `updateDistanceToEdge` returns for edge `e` is the (re-injected)
    candidate `maxCandidate p v0 v1` of its `UpdateMaxDistance` call, whatever the limit; so the law "`x.sub(err)` is not before `x`"
    only has to be checked for these finitely many floats and for `zero = 4`. -/
theorem far_subLawsOn_of_cands (err : MChord)
    (h : ∀ e ∈ P.allEdges, mless (mcanon (cand P e)) (msub (mcanon (cand P e)) err) = false)
    (hz : mless mzero (msub mzero err) = false) : Slack.SubLawsOn mchordI (world P) err where
  sub_edge e he lim x hu := by
    obtain ⟨_, hx⟩ := updEdge_some (P := P) hu
    subst hx
    exact h e he
  sub_zero := hz

end S2Proofs.C08Far
