/-
  S2Proofs.EdgeQuery.SearchMulti — the best-first search of `S2.EdgeQueryM` part (c) for
  `maxResults ≠ 1` (the distance limit is never tightened):

  (S0) the fuel of `searchLoop` never runs out                      `findEdgesInternal_total`
  (S1) the raw results of the brute-force path                       `brute_results_eq`, `brute_results_mem`
  (S2) optimized path = brute-force path after post-processing       `opt_eq_brute_multi`,
       `opt_results_mem`, `findEdges_multi_answer`; `postProcess_congr_mem` (the final answer
       depends only on the SET of raw results).  Holds for either value of `invertedFilter`
       (`avoidDuplicates = false` makes both filters the identity).  Side observation used in
       the proof: with a constant limit and an exact target every queued key is `less` than the
       limit (`CellLB`), so the early exit `!(less key limit)` of the loop never fires.
  (S3) the repaired duplicate filter yields pairwise distinct keys   `dupfilter_nodup`
  (S4) defect D9 exhibited on a concrete world; the same world is the non-vacuity witness of
       `WorldOK`.
  Core-only.
-/
import S2.EdgeQueryM
import S2Proofs.EdgeQuery.Laws
import S2Proofs.EdgeQuery.SearchDefs
open S2 S2.EdgeQueryM
namespace S2Proofs.EdgeQuery

/-! ## Sorting: `postProcess` depends only on the set of members -/

/-- a Bool-valued strict total order -/
private structure sm_STO {α : Type} (lt : α → α → Bool) : Prop where
  irrefl : ∀ a, lt a a = false
  trans : ∀ a b c, lt a b = true → lt b c = true → lt a c = true
  tri : ∀ a b, a ≠ b → lt a b = true ∨ lt b a = true

private theorem sm_STO.asymm {α : Type} {lt : α → α → Bool} (h : sm_STO lt) {a b : α}
    (hab : lt a b = true) : lt b a = false := by
  cases hba : lt b a with
  | false => rfl
  | true => have := h.trans a b a hab hba; rw [h.irrefl] at this; cases this

/-- `a < b`, `b ≤ c` ⟹ `a < c` -/
private theorem sm_STO.lt_of_lt_of_le {α : Type} {lt : α → α → Bool} (h : sm_STO lt) {a b c : α}
    (hab : lt a b = true) (hbc : lt c b = false) : lt a c = true := by
  by_cases hac : a = c
  · subst hac; rw [hbc] at hab; cases hab
  · rcases h.tri a c hac with h1 | h1
    · exact h1
    · have := h.trans c a b h1 hab; rw [hbc] at this; cases this

/-- `a ≤ b`, `b ≤ c` ⟹ `a ≤ c` (with `x ≤ y` := `lt y x = false`) -/
private theorem sm_STO.le_trans {α : Type} {lt : α → α → Bool} (h : sm_STO lt) {a b c : α}
    (hab : lt b a = false) (hbc : lt c b = false) : lt c a = false := by
  cases hca : lt c a with
  | false => rfl
  | true => have := h.lt_of_lt_of_le hca hab; rw [hbc] at this; cases this

private theorem sm_mem_insertBy {α : Type} (lt : α → α → Bool) (x y : α) (l : List α) :
    y ∈ insertBy lt x l ↔ y = x ∨ y ∈ l := by
  induction l with
  | nil => simp [insertBy]
  | cons z zs ih =>
    unfold insertBy
    split
    · simp
    · simp only [List.mem_cons, ih]
      constructor
      · rintro (h | h | h) <;> simp [h]
      · rintro (h | h | h) <;> simp [h]

private theorem sm_mem_sortBy {α : Type} (lt : α → α → Bool) (y : α) (l : List α) :
    y ∈ sortBy lt l ↔ y ∈ l := by
  induction l with
  | nil => simp [sortBy]
  | cons z zs ih => simp [sortBy, sm_mem_insertBy, ih]

private theorem sm_insertBy_sorted {α : Type} {lt : α → α → Bool} (h : sm_STO lt) (x : α) (l : List α)
    (hl : l.Pairwise (fun a b => lt b a = false)) :
    (insertBy lt x l).Pairwise (fun a b => lt b a = false) := by
  induction l with
  | nil => simp [insertBy]
  | cons z zs ih =>
    rw [List.pairwise_cons] at hl
    unfold insertBy
    split
    · rename_i hxz
      rw [List.pairwise_cons]
      refine ⟨?_, List.pairwise_cons.2 hl⟩
      intro b hb
      rcases List.mem_cons.1 hb with rfl | hb
      · exact h.asymm hxz
      · exact h.le_trans (h.asymm hxz) (hl.1 b hb)
    · rename_i hxz
      rw [List.pairwise_cons]
      refine ⟨?_, ih hl.2⟩
      intro b hb
      rcases (sm_mem_insertBy lt x b zs).1 hb with rfl | hb
      · simpa using hxz
      · exact hl.1 b hb

private theorem sm_sortBy_sorted {α : Type} {lt : α → α → Bool} (h : sm_STO lt) (l : List α) :
    (sortBy lt l).Pairwise (fun a b => lt b a = false) := by
  induction l with
  | nil => simp [sortBy]
  | cons z zs ih => exact sm_insertBy_sorted h z _ ih

/-- `last :: uniqLoop last xs` of a weakly sorted `last :: xs` is strictly sorted, same members -/
private theorem sm_uniqLoop {α : Type} [DecidableEq α] {lt : α → α → Bool} (h : sm_STO lt)
    (xs : List α) : ∀ (last : α), (last :: xs).Pairwise (fun a b => lt b a = false) →
      (last :: uniqLoop last xs).Pairwise (fun a b => lt a b = true) ∧
      ∀ y, y ∈ last :: uniqLoop last xs ↔ y ∈ last :: xs := by
  induction xs with
  | nil => intro last _; simp [uniqLoop]
  | cons x xs ih =>
    intro last hs
    rw [List.pairwise_cons] at hs
    unfold uniqLoop
    split
    · rename_i hlx
      subst hlx
      have := ih last hs.2
      refine ⟨this.1, ?_⟩
      intro y; rw [this.2 y]; simp
    · rename_i hlx
      have ihx := ih x hs.2
      have hlt : lt last x = true := by
        rcases h.tri last x hlx with h1 | h1
        · exact h1
        · rw [hs.1 x (by simp)] at h1; cases h1
      refine ⟨?_, ?_⟩
      · rw [List.pairwise_cons]
        refine ⟨?_, ihx.1⟩
        intro b hb
        rw [ihx.2 b] at hb
        rcases List.mem_cons.1 hb with rfl | hb
        · exact hlt
        · exact h.lt_of_lt_of_le hlt ((List.pairwise_cons.1 hs.2).1 b hb)
      · intro y
        rw [List.mem_cons, ihx.2 y]; simp

private theorem sm_uniqAdj {α : Type} [DecidableEq α] {lt : α → α → Bool} (h : sm_STO lt)
    (l : List α) (hl : l.Pairwise (fun a b => lt b a = false)) :
    (uniqAdj l).Pairwise (fun a b => lt a b = true) ∧ ∀ y, y ∈ uniqAdj l ↔ y ∈ l := by
  cases l with
  | nil => simp [uniqAdj]
  | cons x xs => exact sm_uniqLoop h xs x hl

/-- two strictly sorted lists with the same members are equal -/
private theorem sm_sorted_ext {α : Type} {lt : α → α → Bool} (h : sm_STO lt) :
    ∀ (l₁ l₂ : List α), l₁.Pairwise (fun a b => lt a b = true) → l₂.Pairwise (fun a b => lt a b = true) →
      (∀ y, y ∈ l₁ ↔ y ∈ l₂) → l₁ = l₂
  | [], [], _, _, _ => rfl
  | [], b :: t₂, _, _, hm => by have := (hm b).2 (by simp); simp at this
  | a :: t₁, [], _, _, hm => by have := (hm a).1 (by simp); simp at this
  | a :: t₁, b :: t₂, h₁, h₂, hm => by
    rw [List.pairwise_cons] at h₁ h₂
    have hab : a = b := by
      by_cases hab : a = b
      · exact hab
      · have h1 : lt b a = true := by
          rcases List.mem_cons.1 ((hm a).1 (by simp)) with e | e
          · exact absurd e hab
          · exact h₂.1 a e
        have h2 : lt a b = true := by
          rcases List.mem_cons.1 ((hm b).2 (by simp)) with e | e
          · exact absurd e.symm hab
          · exact h₁.1 b e
        rw [h.asymm h1] at h2; cases h2
    subst hab
    have : t₁ = t₂ := by
      apply sm_sorted_ext h t₁ t₂ h₁.2 h₂.2
      intro y
      constructor
      · intro hy
        rcases List.mem_cons.1 ((hm y).1 (List.mem_cons_of_mem _ hy)) with e | e
        · subst e; have := h₁.1 y hy; rw [h.irrefl] at this; cases this
        · exact e
      · intro hy
        rcases List.mem_cons.1 ((hm y).2 (List.mem_cons_of_mem _ hy)) with e | e
        · subst e; have := h₂.1 y hy; rw [h.irrefl] at this; cases this
        · exact e
    rw [this]

set_option linter.unusedSectionVars false
variable {D : Type} [DecidableEq D]

/-- `EdgeQueryResult.Less` is a strict total order when `less` on distances is -/
private theorem sm_resultLess_STO {I : DistI D} (hI : DistOrder I) : sm_STO (Result.less I) where
  irrefl a := by simp [Result.less]
  trans a b c := by
    obtain ⟨ad, as, ae⟩ := a
    obtain ⟨bd, bs, be⟩ := b
    obtain ⟨cd, cs, ce⟩ := c
    simp only [Result.less, ne_eq, ite_not]
    by_cases h1 : ad = bd
    · subst h1
      by_cases h2 : ad = cd
      · subst h2
        simp only [if_true]
        repeat' split
        all_goals (simp only [decide_eq_true_eq]; omega)
      · simp only [if_true, h2, if_false]
        intro _ h; exact h
    · by_cases h2 : bd = cd
      · subst h2
        simp only [h1, if_false, if_true]
        intro h _; exact h
      · simp only [h1, h2, if_false]
        intro h3 h4
        have h5 := hI.trans _ _ _ h3 h4
        by_cases h6 : ad = cd
        · subst h6
          rw [hI.irrefl] at h5; cases h5
        · simp only [h6, if_false]; exact h5
  tri a b := by
    obtain ⟨ad, as, ae⟩ := a
    obtain ⟨bd, bs, be⟩ := b
    intro hne
    simp only [Result.less, ne_eq, ite_not]
    by_cases h1 : ad = bd
    · subst h1
      simp only [if_true]
      by_cases h3 : as = bs
      · subst h3
        have : ae ≠ be := fun h => hne (by rw [h])
        simp only [if_true, decide_eq_true_eq]; omega
      · have h3' : ¬ bs = as := fun h => h3 h.symm
        simp only [h3, h3', if_false, decide_eq_true_eq]; omega
    · have h1' : ¬ bd = ad := fun h => h1 h.symm
      simp only [h1, h1', if_false]
      exact hI.tri _ _ h1

private theorem sm_sortAndUnique_eq (I : DistI D) (rs : List (Result D)) :
    sortAndUniqueResults I rs = uniqAdj (sortBy (Result.less I) rs) := by
  unfold sortAndUniqueResults
  split
  · match rs with
    | [] => rfl
    | [x] => rfl
    | _ :: _ :: _ => rename_i h; simp at h
  · rfl

/-- `sortAndUniqueResults` depends only on the set of members -/
theorem sortAndUnique_congr_mem {I : DistI D} (hI : DistOrder I) (l₁ l₂ : List (Result D))
    (hm : ∀ r, r ∈ l₁ ↔ r ∈ l₂) : sortAndUniqueResults I l₁ = sortAndUniqueResults I l₂ := by
  have h := sm_resultLess_STO hI
  rw [sm_sortAndUnique_eq, sm_sortAndUnique_eq]
  have u₁ := sm_uniqAdj h _ (sm_sortBy_sorted h l₁)
  have u₂ := sm_uniqAdj h _ (sm_sortBy_sorted h l₂)
  apply sm_sorted_ext h _ _ u₁.1 u₂.1
  intro y
  rw [u₁.2, u₂.2, sm_mem_sortBy, sm_mem_sortBy, hm]

/-- `postProcess` depends only on the set of members -/
theorem postProcess_congr_mem {I : DistI D} (hI : DistOrder I) (n : Nat) (l₁ l₂ : List (Result D))
    (hm : ∀ r, r ∈ l₁ ↔ r ∈ l₂) : postProcess I n l₁ = postProcess I n l₂ := by
  unfold postProcess
  rw [sortAndUnique_congr_mem hI l₁ l₂ hm]

/-! ## (S0) the fuel never runs out -/

section Total
variable (I : DistI D) (o : Opts D) (w : World D)

private theorem sm_addResult_queue (s : St D) (r : Result D) : (addResult I o s r).queue = s.queue := by
  unfold addResult; dsimp only; split <;> rfl

private theorem sm_maybeAdd_false (s : St D) (e : EdgeKey) :
    maybeAddResult I o w false s e = match w.updEdge e s.limit with
      | some d => addResult I o s ⟨d, e.shape, e.edge⟩
      | none => s := by
  unfold maybeAddResult
  cases o.invertedFilter <;> simp only [Bool.false_and, if_true, if_false, Bool.false_eq_true] <;> rfl

private theorem sm_maybeAdd_true (hif : o.invertedFilter = false) (s : St D) (e : EdgeKey) :
    maybeAddResult I o w true s e = if s.tested.contains e then s else
      match w.updEdge e s.limit with
      | some d => addResult I o { s with tested := e :: s.tested } ⟨d, e.shape, e.edge⟩
      | none => { s with tested := e :: s.tested } := by
  unfold maybeAddResult
  simp only [hif, Bool.true_and, if_true, if_false, Bool.false_eq_true]
  rfl

private theorem sm_maybeAdd_queue (a : Bool) (s : St D) (e : EdgeKey) :
    (maybeAddResult I o w a s e).queue = s.queue := by
  unfold maybeAddResult
  cases a <;> cases o.invertedFilter <;>
    simp only [Bool.false_and, Bool.true_and, if_true, if_false, Bool.false_eq_true]
  all_goals repeat' split
  all_goals first | rfl | rw [sm_addResult_queue]

private theorem sm_processEdges_queue (a : Bool) (es : List EdgeKey) : ∀ (s : St D),
    (processEdges I o w a s es).queue = s.queue := by
  unfold processEdges
  induction es with
  | nil => intro s; rfl
  | cons e es ih => intro s; rw [List.foldl_cons, ih, sm_maybeAdd_queue]

private theorem sm_sizeList_append (l₁ l₂ : List (Cell D)) :
    Cell.sizeList (l₁ ++ l₂) = Cell.sizeList l₁ + Cell.sizeList l₂ := by
  induction l₁ with
  | nil => simp [Cell.sizeList]
  | cons c cs ih => simp [Cell.sizeList, ih, Nat.add_assoc]

/-- the local function `enqueue` of `processOrEnqueue` -/
private def sm_enq (cv : Bool) (c : Cell D) (s : St D) : St D :=
  match c.cd s.limit with
  | none => s
  | some x => { s with queue := s.queue ++ [(if cv then I.sub x o.maxError else x, c)] }

private theorem sm_poe_index (a cv : Bool) (s : St D) (cd : D → Option D) (es : List EdgeKey) :
    processOrEnqueue I o w a cv s (.index cd es) =
      if es.length == 0 then s
      else if es.length < 10 then processEdges I o w a s es
      else sm_enq I o cv (.index cd es) s := rfl

private theorem sm_poe_node (a cv : Bool) (s : St D) (cd : D → Option D) (kids : List (Cell D)) :
    processOrEnqueue I o w a cv s (.node cd kids) = sm_enq I o cv (.node cd kids) s := rfl

private theorem sm_enq_size (cv : Bool) (s : St D) (c : Cell D) :
    Cell.sizeList ((sm_enq I o cv c s).queue.map (·.2)) ≤
      Cell.sizeList (s.queue.map (·.2)) + Cell.size c := by
  unfold sm_enq
  split
  · omega
  · simp [sm_sizeList_append, Cell.sizeList]

private theorem sm_poe_size (a cv : Bool) (s : St D) (c : Cell D) :
    Cell.sizeList ((processOrEnqueue I o w a cv s c).queue.map (·.2)) ≤
      Cell.sizeList (s.queue.map (·.2)) + Cell.size c := by
  cases c with
  | index cd es =>
    rw [sm_poe_index]
    split
    · omega
    · split
      · rw [sm_processEdges_queue]; omega
      · exact sm_enq_size I o cv s _
  | node cd kids =>
    rw [sm_poe_node]
    exact sm_enq_size I o cv s _

private theorem sm_fold_size (a cv : Bool) (cs : List (Cell D)) : ∀ (s : St D),
    Cell.sizeList ((cs.foldl (processOrEnqueue I o w a cv) s).queue.map (·.2)) ≤
      Cell.sizeList (s.queue.map (·.2)) + Cell.sizeList cs := by
  induction cs with
  | nil => intro s; simp [Cell.sizeList]
  | cons c cs ih =>
    intro s
    rw [List.foldl_cons]
    have h1 := ih (processOrEnqueue I o w a cv s c)
    have h2 := sm_poe_size I o w a cv s c
    simp only [Cell.sizeList]
    omega

private theorem sm_popMin_size (q : List (D × Cell D)) : ∀ m rest, popMin I q = some (m, rest) →
    Cell.sizeList (q.map (·.2)) = Cell.size m.2 + Cell.sizeList (rest.map (·.2)) := by
  induction q with
  | nil => intro m rest h; simp [popMin] at h
  | cons x xs ih =>
    intro m rest h
    unfold popMin at h
    split at h
    · rename_i hx
      cases h
      cases xs with
      | nil => simp [Cell.sizeList]
      | cons y ys =>
        exfalso
        unfold popMin at hx
        split at hx
        · cases hx
        · split at hx <;> cases hx
    · rename_i m' rest' hx
      have := ih m' rest' hx
      split at h
      · cases h
        simp only [List.map_cons, Cell.sizeList, this]; omega
      · cases h
        simp only [List.map_cons, Cell.sizeList]

private theorem sm_size_pos (c : Cell D) : 1 ≤ Cell.size c := by
  cases c <;> simp [Cell.size]

/-- (S0) the loop terminates normally whenever the fuel exceeds the number of cells in and below
    the queue -/
theorem searchLoop_total (a cv : Bool) : ∀ (fuel : Nat) (s : St D),
    Cell.sizeList (s.queue.map (·.2)) < fuel → ∃ s', searchLoop I o w a cv fuel s = some s' := by
  intro fuel
  induction fuel with
  | zero => intro s h; omega
  | succ fuel ih =>
    intro s h
    unfold searchLoop
    cases hp : popMin I s.queue with
    | none => exact ⟨s, rfl⟩
    | some mr =>
      obtain ⟨⟨k, c⟩, rest⟩ := mr
      have hsz := sm_popMin_size I s.queue _ _ hp
      dsimp only
      split
      · exact ⟨_, rfl⟩
      · cases c with
        | index cd es =>
          dsimp only
          apply ih
          rw [sm_processEdges_queue]
          simp only [Cell.size] at hsz
          show Cell.sizeList (rest.map (·.2)) < fuel
          omega
        | node cd kids =>
          dsimp only
          apply ih
          have := sm_fold_size I o w a cv kids { s with queue := rest }
          simp only [Cell.size] at hsz
          have e : ({ s with queue := rest } : St D).queue = rest := rfl
          rw [e] at this
          omega

/-- (S0) `findEdgesInternal` never returns `none`, for all options and worlds -/
theorem findEdgesInternal_total : ∃ s, findEdgesInternal I o w = some s := by
  have ite_some : ∀ (c : Prop) [Decidable c] (a : St D) (b : Option (St D)),
      (∃ s, b = some s) → ∃ s, (if c then some a else b) = some s := by
    intro c _ a b hb; split
    · exact ⟨_, rfl⟩
    · exact hb
  unfold findEdgesInternal
  apply ite_some
  apply ite_some
  apply ite_some
  unfold findEdgesOptimized
  apply searchLoop_total
  omega

/-- (S0) hence `findEdges` always returns a list -/
theorem findEdges_total : ∃ rs, findEdges I o w = some rs := by
  obtain ⟨s, hs⟩ := findEdgesInternal_total I o w
  exact ⟨_, by unfold findEdges; rw [hs]; rfl⟩

end Total

/-! ## (S1) the raw results of the brute-force path -/

/-- the result reported for an edge at its true distance -/
def hitOf (d : EdgeKey → D) (e : EdgeKey) : Result D := ⟨d e, e.shape, e.edge⟩

/-- the interior results `findEdgesInternal` produces before the two paths split -/
def interiorResults (I : DistI D) (o : Opts D) (w : World D) : List (Result D) :=
  if o.includeInteriors then w.interiors.map (fun sh => ⟨I.zero, sh, -1⟩) else []

section Brute
variable (I : DistI D) (o : Opts D) (w : World D) (d : EdgeKey → D)

private theorem sm_addResult_eq (h1 : o.maxResults ≠ 1) (s : St D) (r : Result D) :
    addResult I o s r = { s with results := s.results ++ [r] } := by
  unfold addResult; simp [h1]

private theorem sm_interiors_fold (h1 : o.maxResults ≠ 1) (l : List Int) : ∀ s : St D,
    l.foldl (fun s sh => addResult I o s ⟨I.zero, sh, -1⟩) s =
      { s with results := s.results ++ l.map (fun sh => ⟨I.zero, sh, -1⟩) } := by
  induction l with
  | nil => intro s; simp
  | cons x xs ih => intro s; rw [List.foldl_cons, ih, sm_addResult_eq I o h1]; simp

/-- the state after the interior results have been added -/
private def sm_s1 : St D :=
  { limit := o.distanceLimit, results := interiorResults I o w, tested := [], queue := [] }

/-- `findEdgesInternal` past its early exits, for `maxResults ≠ 1` and a non-zero limit -/
private theorem sm_fei_eq (h1 : o.maxResults ≠ 1) (hz : o.distanceLimit ≠ I.zero) :
    findEdgesInternal I o w =
      if o.useBruteForce || w.small then some (findEdgesBruteForce I o w (sm_s1 I o w))
      else findEdgesOptimized I o w
        ((o.maxError != I.zero && o.targetUsesMaxError) && decide (o.maxResults > 1))
        ((o.maxError != I.zero && o.targetUsesMaxError) &&
          (o.distanceLimit == I.infinity || I.less I.zero (I.sub o.distanceLimit o.maxError)))
        (sm_s1 I o w) := by
  have hs1 : (if o.includeInteriors then
      w.interiors.foldl (fun s sh => addResult I o s ⟨I.zero, sh, -1⟩)
        ({ limit := o.distanceLimit, results := [], tested := [], queue := [] } : St D)
    else { limit := o.distanceLimit, results := [], tested := [], queue := [] }) = sm_s1 I o w := by
    unfold sm_s1 interiorResults
    split
    · rw [sm_interiors_fold I o h1]; simp
    · rfl
  unfold findEdgesInternal
  dsimp only
  rw [hs1]
  have hl : (sm_s1 I o w).limit = o.distanceLimit := rfl
  have hz' : (o.distanceLimit == I.zero) = false := by simpa using hz
  rw [hl]
  simp only [hz', Bool.and_false, Bool.false_eq_true, if_false]

/-- `processEdges` without duplicate filter, exact target, `maxResults ≠ 1`: appends the edges
    within the (unchanged) limit, in order -/
private theorem sm_processEdges_false
    (hex : ∀ e lim, w.updEdge e lim = if I.less (d e) lim then some (d e) else none)
    (h1 : o.maxResults ≠ 1) (es : List EdgeKey) : ∀ s : St D,
    processEdges I o w false s es =
      { s with results := s.results ++ (es.filter (fun e => I.less (d e) s.limit)).map (hitOf d) } := by
  unfold processEdges
  induction es with
  | nil => intro s; simp
  | cons e es ih =>
    intro s
    rw [List.foldl_cons, sm_maybeAdd_false, hex]
    cases hl : I.less (d e) s.limit
    · simp only [Bool.false_eq_true, if_false]; rw [ih]; simp [hl]
    · simp only [if_true]; rw [sm_addResult_eq I o h1, ih]; simp [hl, hitOf]

/-- (S1) the final state of the brute-force path, as an equation -/
theorem brute_results_eq
    (hex : ∀ e lim, w.updEdge e lim = if I.less (d e) lim then some (d e) else none)
    (h1 : o.maxResults ≠ 1) (hz : o.distanceLimit ≠ I.zero)
    (hb : o.useBruteForce = true ∨ w.small = true) :
    findEdgesInternal I o w = some
      { limit := o.distanceLimit
        results := interiorResults I o w ++
          (w.allEdges.filter (fun e => I.less (d e) o.distanceLimit)).map (hitOf d)
        tested := [], queue := [] } := by
  rw [sm_fei_eq I o w h1 hz]
  have : (o.useBruteForce || w.small) = true := by
    rcases hb with h | h <;> simp [h]
  rw [if_pos this]
  unfold findEdgesBruteForce
  rw [sm_processEdges_false I o w d hex h1]
  rfl

/-- (S1) membership form -/
theorem brute_results_mem
    (hex : ∀ e lim, w.updEdge e lim = if I.less (d e) lim then some (d e) else none)
    (h1 : o.maxResults ≠ 1) (hz : o.distanceLimit ≠ I.zero)
    (hb : o.useBruteForce = true ∨ w.small = true) :
    ∃ s, findEdgesInternal I o w = some s ∧ ∀ r, r ∈ s.results ↔
      (r ∈ interiorResults I o w ∨
        ∃ e ∈ w.allEdges, I.less (d e) o.distanceLimit = true ∧ r = hitOf d e) := by
  refine ⟨_, brute_results_eq I o w d hex h1 hz hb, ?_⟩
  intro r
  simp only [List.mem_append, List.mem_map, List.mem_filter]
  constructor
  · rintro (h | ⟨e, ⟨he, hl⟩, rfl⟩)
    · exact Or.inl h
    · exact Or.inr ⟨e, he, hl, rfl⟩
  · rintro (h | ⟨e, he, hl, rfl⟩)
    · exact Or.inl h
    · exact Or.inr ⟨e, ⟨he, hl⟩, rfl⟩

end Brute

/-! ## (S2) optimized path = brute-force path for `maxResults ≠ 1`, exact target -/

section Multi
variable (I : DistI D) (o : Opts D) (w : World D) (d : EdgeKey → D)

/-- a cell all of whose sub-cells have sound bounds and whose edges are edges of the index -/
private def sm_Good (c : Cell D) : Prop :=
  (∀ c' ∈ cellsOf c, CellLB I d c') ∧ ∀ e ∈ edgesUnder c, e ∈ w.allEdges

private theorem sm_self_mem_cellsOf (c : Cell D) : c ∈ cellsOf c := by
  cases c <;> simp [cellsOf]

private theorem sm_cellsOf_sub_list (l : List (Cell D)) : ∀ c ∈ l, ∀ c' ∈ cellsOf c, c' ∈ cellsOfList l := by
  induction l with
  | nil => intro c h; cases h
  | cons x xs ih =>
    intro c hc c' hc'
    simp only [cellsOfList, List.mem_append]
    rcases List.mem_cons.1 hc with rfl | hc
    · exact Or.inl hc'
    · exact Or.inr (ih c hc c' hc')

private theorem sm_edgesUnder_sub_list (l : List (Cell D)) : ∀ c ∈ l, ∀ e ∈ edgesUnder c, e ∈ edgesUnderList l := by
  induction l with
  | nil => intro c h; cases h
  | cons x xs ih =>
    intro c hc e he
    simp only [edgesUnderList, List.mem_append]
    rcases List.mem_cons.1 hc with rfl | hc
    · exact Or.inl he
    · exact Or.inr (ih c hc e he)

private theorem sm_mem_edgesUnderList (l : List (Cell D)) : ∀ e ∈ edgesUnderList l, ∃ c ∈ l, e ∈ edgesUnder c := by
  induction l with
  | nil => intro e h; simp [edgesUnderList] at h
  | cons x xs ih =>
    intro e he
    simp only [edgesUnderList, List.mem_append] at he
    rcases he with he | he
    · exact ⟨x, by simp, he⟩
    · obtain ⟨c, hc, h⟩ := ih e he
      exact ⟨c, List.mem_cons_of_mem _ hc, h⟩

private theorem sm_Good_kid (cd : D → Option D) (kids : List (Cell D))
    (h : sm_Good I w d (.node cd kids)) : ∀ k ∈ kids, sm_Good I w d k := by
  intro k hk
  constructor
  · intro c' hc'
    apply h.1
    simp only [cellsOf, List.mem_cons]
    exact Or.inr (sm_cellsOf_sub_list kids k hk c' hc')
  · intro e he
    apply h.2
    simp only [edgesUnder]
    exact sm_edgesUnder_sub_list kids k hk e he

private theorem sm_Good_root (H : WorldOK I w d) (lim : D) : ∀ c ∈ w.roots lim, sm_Good I w d c := by
  intro c hc
  constructor
  · intro c' hc'
    exact H.cellLB lim c' (sm_cellsOf_sub_list _ c hc c' hc')
  · intro e he
    exact H.rootsSound lim e (sm_edgesUnder_sub_list _ c hc e he)

/-- a legitimate raw result: an interior result or an edge within the limit, at its true distance -/
private def sm_Hit (lim : D) (R0 : List (Result D)) (r : Result D) : Prop :=
  r ∈ R0 ∨ ∃ e ∈ w.allEdges, I.less (d e) lim = true ∧ r = hitOf d e

/-- the invariant of the optimized search while the limit stays `lim` -/
private structure sm_Inv (lim : D) (R0 : List (Result D)) (s : St D) : Prop where
  hlim : s.limit = lim
  sound : ∀ r ∈ s.results, sm_Hit I w d lim R0 r
  good : ∀ p ∈ s.queue, sm_Good I w d p.2 ∧ p.2.cd lim = some p.1

/-- the edge is accounted for: already reported, or below a queued cell -/
private def sm_Cov (s : St D) (e : EdgeKey) : Prop :=
  hitOf d e ∈ s.results ∨ ∃ p ∈ s.queue, e ∈ edgesUnder p.2

/-- step: `processEdges` on edges of the index -/
private theorem sm_step_edges (H : WorldOK I w d) (h1 : o.maxResults ≠ 1) (lim : D) (R0 : List (Result D))
    (s : St D) (es : List EdgeKey) (hs : sm_Inv I w d lim R0 s) (hes : ∀ e ∈ es, e ∈ w.allEdges) :
    let s' := processEdges I o w false s es
    sm_Inv I w d lim R0 s' ∧ (∀ r ∈ s.results, r ∈ s'.results) ∧ s'.queue = s.queue ∧
      ∀ e ∈ es, I.less (d e) lim = true → hitOf d e ∈ s'.results := by
  intro s'
  have hs' : s' = { s with results := s.results ++ (es.filter (fun e => I.less (d e) s.limit)).map (hitOf d) } :=
    sm_processEdges_false I o w d H.exactEdge h1 es s
  have hl' := hs.hlim
  subst hl'
  rw [hs']
  refine ⟨⟨rfl, ?_, hs.good⟩, ?_, rfl, ?_⟩
  · intro r hr
    rcases List.mem_append.1 hr with hr | hr
    · exact hs.sound r hr
    · obtain ⟨e, he, rfl⟩ := List.mem_map.1 hr
      obtain ⟨he, hl⟩ := List.mem_filter.1 he
      exact Or.inr ⟨e, hes e he, hl, rfl⟩
  · intro r hr; exact List.mem_append_left _ hr
  · intro e he hl
    exact List.mem_append_right _ (List.mem_map.2 ⟨e, List.mem_filter.2 ⟨he, hl⟩, rfl⟩)

/-- step: `processOrEnqueue` on a good cell -/
private theorem sm_step_poe (H : WorldOK I w d) (h1 : o.maxResults ≠ 1) (lim : D) (R0 : List (Result D))
    (s : St D) (c : Cell D) (hs : sm_Inv I w d lim R0 s) (hc : sm_Good I w d c) :
    let s' := processOrEnqueue I o w false false s c
    sm_Inv I w d lim R0 s' ∧ (∀ r ∈ s.results, r ∈ s'.results) ∧
      (∀ e, sm_Cov d s e → sm_Cov d s' e) ∧
      ∀ e ∈ edgesUnder c, I.less (d e) lim = true → sm_Cov d s' e := by
  have henq : let s' := sm_enq I o false c s
      sm_Inv I w d lim R0 s' ∧ (∀ r ∈ s.results, r ∈ s'.results) ∧
      (∀ e, sm_Cov d s e → sm_Cov d s' e) ∧
      ∀ e ∈ edgesUnder c, I.less (d e) lim = true → sm_Cov d s' e := by
    intro s'
    have hlb := hc.1 c (sm_self_mem_cellsOf c) lim
    cases hcd : c.cd lim with
    | none =>
      have : s' = s := by
        show sm_enq I o false c s = s
        unfold sm_enq; rw [hs.hlim, hcd]
      rw [this]
      refine ⟨hs, fun r hr => hr, fun e he => he, ?_⟩
      intro e he hl
      rw [hlb.1 hcd e he] at hl; cases hl
    | some x =>
      have : s' = { s with queue := s.queue ++ [(x, c)] } := by
        show sm_enq I o false c s = _
        unfold sm_enq; rw [hs.hlim, hcd]; simp
      rw [this]
      refine ⟨⟨hs.hlim, hs.sound, ?_⟩, fun r hr => hr, ?_, ?_⟩
      · intro p hp
        rcases List.mem_append.1 hp with hp | hp
        · exact hs.good p hp
        · rw [List.mem_singleton] at hp; subst hp; exact ⟨hc, hcd⟩
      · rintro e (he | ⟨p, hp, he⟩)
        · exact Or.inl he
        · exact Or.inr ⟨p, List.mem_append_left _ hp, he⟩
      · intro e he _
        exact Or.inr ⟨(x, c), List.mem_append_right _ (by simp), he⟩
  cases c with
  | index cd es =>
    intro s'
    have hs' : s' = if es.length == 0 then s
      else if es.length < 10 then processEdges I o w false s es
      else sm_enq I o false (.index cd es) s := rfl
    rw [hs']
    split
    · rename_i h0
      have : es = [] := by
        cases es with
        | nil => rfl
        | cons _ _ => simp at h0
      subst this
      refine ⟨hs, fun r hr => hr, fun e he => he, ?_⟩
      intro e he; simp [edgesUnder] at he
    · split
      · have hst := sm_step_edges I o w d H h1 lim R0 s es hs (by
          intro e he; apply hc.2; simpa [edgesUnder] using he)
        refine ⟨hst.1, hst.2.1, ?_, ?_⟩
        · rintro e (he | ⟨p, hp, he⟩)
          · exact Or.inl (hst.2.1 _ he)
          · exact Or.inr ⟨p, by rw [hst.2.2.1]; exact hp, he⟩
        · intro e he hl
          exact Or.inl (hst.2.2.2 e (by simpa [edgesUnder] using he) hl)
      · exact henq
  | node cd kids => exact henq

/-- step: the fold of `processOrEnqueue` over good cells -/
private theorem sm_step_fold (H : WorldOK I w d) (h1 : o.maxResults ≠ 1) (lim : D) (R0 : List (Result D))
    (cs : List (Cell D)) : ∀ (s : St D), sm_Inv I w d lim R0 s → (∀ c ∈ cs, sm_Good I w d c) →
    let s' := cs.foldl (processOrEnqueue I o w false false) s
    sm_Inv I w d lim R0 s' ∧ (∀ r ∈ s.results, r ∈ s'.results) ∧
      (∀ e, sm_Cov d s e → sm_Cov d s' e) ∧
      ∀ e ∈ edgesUnderList cs, I.less (d e) lim = true → sm_Cov d s' e := by
  induction cs with
  | nil =>
    intro s hs _
    refine ⟨hs, fun r hr => hr, fun e he => he, ?_⟩
    intro e he; simp [edgesUnderList] at he
  | cons c cs ih =>
    intro s hs hg
    have h₁ := sm_step_poe I o w d H h1 lim R0 s c hs (hg c (by simp))
    have h₂ := ih (processOrEnqueue I o w false false s c) h₁.1
      (fun c' hc' => hg c' (List.mem_cons_of_mem _ hc'))
    rw [List.foldl_cons]
    refine ⟨h₂.1, fun r hr => h₂.2.1 r (h₁.2.1 r hr), fun e he => h₂.2.2.1 e (h₁.2.2.1 e he), ?_⟩
    intro e he hl
    simp only [edgesUnderList, List.mem_append] at he
    rcases he with he | he
    · exact h₂.2.2.1 e (h₁.2.2.2 e he hl)
    · exact h₂.2.2.2 e he hl

private theorem sm_popMin_none (q : List (D × Cell D)) (h : popMin I q = none) : q = [] := by
  cases q with
  | nil => rfl
  | cons x xs =>
    unfold popMin at h
    split at h
    · cases h
    · split at h <;> cases h

private theorem sm_popMin_mem (q : List (D × Cell D)) : ∀ m rest, popMin I q = some (m, rest) →
    ∀ p, p ∈ q ↔ p = m ∨ p ∈ rest := by
  induction q with
  | nil => intro m rest h; simp [popMin] at h
  | cons x xs ih =>
    intro m rest h p
    unfold popMin at h
    split at h
    · rename_i hx
      cases h
      rw [sm_popMin_none I xs hx]; simp
    · rename_i m' rest' hx
      have := ih m' rest' hx p
      split at h
      · cases h
        simp only [List.mem_cons, this]
        constructor
        · rintro (h | h | h) <;> simp [h]
        · rintro (h | h | h) <;> simp [h]
      · cases h
        simp only [List.mem_cons]

/-- the loop: every raw result is legitimate, nothing is lost, and every edge within the limit
    that was accounted for ends up reported -/
private theorem sm_loop (H : WorldOK I w d) (h1 : o.maxResults ≠ 1) (lim : D) (R0 : List (Result D)) :
    ∀ (fuel : Nat) (s s' : St D), sm_Inv I w d lim R0 s →
      searchLoop I o w false false fuel s = some s' →
      (∀ r ∈ s'.results, sm_Hit I w d lim R0 r) ∧ (∀ r ∈ s.results, r ∈ s'.results) ∧
        ∀ e, I.less (d e) lim = true → sm_Cov d s e → hitOf d e ∈ s'.results := by
  intro fuel
  induction fuel with
  | zero => intro s s' _ h; simp [searchLoop] at h
  | succ fuel ih =>
    intro s s' hs
    unfold searchLoop
    cases hp : popMin I s.queue with
    | none =>
      intro h; cases h
      refine ⟨hs.sound, fun r hr => hr, ?_⟩
      rintro e _ (he | ⟨p, hp', _⟩)
      · exact he
      · rw [sm_popMin_none I _ hp] at hp'; cases hp'
    | some mr =>
      obtain ⟨⟨k, c⟩, rest⟩ := mr
      have hmem := sm_popMin_mem I s.queue _ _ hp
      have hkc := hs.good (k, c) ((hmem _).2 (Or.inl rfl))
      have hrest : ∀ p ∈ rest, p ∈ s.queue := fun p hp' => (hmem p).2 (Or.inr hp')
      have hs1 : sm_Inv I w d lim R0 { s with queue := rest } :=
        ⟨hs.hlim, hs.sound, fun p hp' => hs.good p (hrest p hp')⟩
      dsimp only
      split
      · -- the early exit cannot fire: every queued key is within the (constant) limit
        rename_i hk
        exfalso
        have := ((hkc.1.1 c (sm_self_mem_cellsOf c) lim).2 k hkc.2).1
        rw [hs.hlim, this] at hk; cases hk
      · cases c with
        | index cd es =>
          dsimp only
          intro h
          have hst := sm_step_edges I o w d H h1 lim R0 { s with queue := rest } es hs1 (by
            intro e he; apply hkc.1.2; simpa [edgesUnder] using he)
          have hpost := ih _ s' hst.1 h
          refine ⟨hpost.1, fun r hr => hpost.2.1 r (hst.2.1 r hr), ?_⟩
          rintro e hl (he | ⟨p, hp', he⟩)
          · exact hpost.2.1 _ (hst.2.1 _ he)
          · rcases (hmem p).1 hp' with rfl | hp'
            · exact hpost.2.1 _ (hst.2.2.2 e (by simpa [edgesUnder] using he) hl)
            · exact hpost.2.2 e hl (Or.inr ⟨p, by rw [hst.2.2.1]; exact hp', he⟩)
        | node cd kids =>
          dsimp only
          intro h
          have hst := sm_step_fold I o w d H h1 lim R0 kids { s with queue := rest } hs1
            (sm_Good_kid I w d cd kids hkc.1)
          have hpost := ih _ s' hst.1 h
          refine ⟨hpost.1, fun r hr => hpost.2.1 r (hst.2.1 r hr), ?_⟩
          rintro e hl (he | ⟨p, hp', he⟩)
          · exact hpost.2.1 _ (hst.2.1 _ he)
          · rcases (hmem p).1 hp' with rfl | hp'
            · exact hpost.2.2 e hl (hst.2.2.2 e (by simpa [edgesUnder] using he) hl)
            · exact hpost.2.2 e hl (hst.2.2.1 e (Or.inr ⟨p, hp', he⟩))

/-- the raw results of the optimized path: exactly the interior results and the edges within the
    limit (as a set; an edge may be reported once per index cell holding it) -/
theorem opt_results_mem (H : WorldOK I w d) (h1 : o.maxResults ≠ 1) (hz : o.distanceLimit ≠ I.zero)
    (hte : o.targetUsesMaxError = false) (hb : o.useBruteForce = false) (hsm : w.small = false) :
    ∃ s, findEdgesInternal I o w = some s ∧ ∀ r, r ∈ s.results ↔
      (r ∈ interiorResults I o w ∨
        ∃ e ∈ w.allEdges, I.less (d e) o.distanceLimit = true ∧ r = hitOf d e) := by
  obtain ⟨s', hs'⟩ := findEdgesInternal_total I o w
  refine ⟨s', hs', ?_⟩
  rw [sm_fei_eq I o w h1 hz] at hs'
  simp only [hb, hsm, hte, Bool.or_false, Bool.and_false, Bool.false_and, Bool.false_eq_true, if_false] at hs'
  unfold findEdgesOptimized at hs'
  have hinit : initQueue I o w false false (sm_s1 I o w) =
      (w.roots o.distanceLimit).foldl (processOrEnqueue I o w false false) (sm_s1 I o w) := by
    unfold initQueue
    have : (o.maxResults == 1) = false := by simpa using h1
    simp only [H.nonEmptyTarget, this, Bool.false_eq_true, if_false, Bool.false_and]
    rfl
  rw [hinit] at hs'
  have hinv0 : sm_Inv I w d o.distanceLimit (interiorResults I o w) (sm_s1 I o w) :=
    ⟨rfl, fun r hr => Or.inl hr, fun p hp => by cases hp⟩
  have hst := sm_step_fold I o w d H h1 o.distanceLimit (interiorResults I o w)
    (w.roots o.distanceLimit) (sm_s1 I o w) hinv0 (sm_Good_root I w d H o.distanceLimit)
  have hpost := sm_loop I o w d H h1 o.distanceLimit (interiorResults I o w) _ _ s' hst.1 hs'
  intro r
  constructor
  · exact hpost.1 r
  · rintro (hr | ⟨e, he, hl, rfl⟩)
    · exact hpost.2.1 r (hst.2.1 r hr)
    · exact hpost.2.2 e hl (hst.2.2.2 e (H.rootsComplete _ e he hl) hl)

/-- (S2) MAIN: for `maxResults ≠ 1` and a target that does not use `maxError`, the optimized
    search and the brute-force scan return the same final answer. -/
theorem opt_eq_brute_multi (hI : DistOrder I) (H : WorldOK I w d) (h1 : o.maxResults ≠ 1)
    (hte : o.targetUsesMaxError = false) :
    findEdges I { o with useBruteForce := false } { w with small := false } =
      findEdges I { o with useBruteForce := true } w := by
  by_cases hz : o.distanceLimit = I.zero
  · -- early exit before the paths split
    have hz' : (o.distanceLimit == I.zero) = true := by simpa using hz
    unfold findEdges findEdgesInternal
    simp only [hz', if_true]
  · have H' : WorldOK I { w with small := false } d :=
      ⟨H.exactEdge, H.cellLB, H.rootsComplete, H.rootsSound, H.locatedSound, H.nonEmptyTarget, H.zeroMin⟩
    obtain ⟨s₁, e₁, m₁⟩ := opt_results_mem I { o with useBruteForce := false } { w with small := false } d
      H' h1 hz hte rfl rfl
    obtain ⟨s₂, e₂, m₂⟩ := brute_results_mem I { o with useBruteForce := true } w d
      H.exactEdge h1 hz (Or.inl rfl)
    unfold findEdges
    rw [e₁, e₂]
    simp only [Option.map_some]
    congr 1
    apply postProcess_congr_mem hI
    intro r
    rw [m₁, m₂]
    rfl

/-- (S2, explicit form) the final answer of either path: the interior results and the edges
    within the limit, sorted, de-duplicated and cut at `maxResults`. -/
theorem findEdges_multi_answer (hI : DistOrder I) (H : WorldOK I w d) (h1 : o.maxResults ≠ 1)
    (hz : o.distanceLimit ≠ I.zero) (hte : o.targetUsesMaxError = false) :
    findEdges I o w = some (postProcess I o.maxResults (interiorResults I o w ++
      (w.allEdges.filter (fun e => I.less (d e) o.distanceLimit)).map (hitOf d))) := by
  by_cases hb : o.useBruteForce = true ∨ w.small = true
  · unfold findEdges
    rw [brute_results_eq I o w d H.exactEdge h1 hz hb]
    rfl
  · have hb1 : o.useBruteForce = false := by
      cases h : o.useBruteForce
      · rfl
      · exact absurd (Or.inl h) hb
    have hb2 : w.small = false := by
      cases h : w.small
      · rfl
      · exact absurd (Or.inr h) hb
    obtain ⟨s₁, e₁, m₁⟩ := opt_results_mem I o w d H h1 hz hte hb1 hb2
    unfold findEdges
    rw [e₁]
    simp only [Option.map_some]
    congr 1
    apply postProcess_congr_mem hI
    intro r
    rw [m₁]
    simp only [List.mem_append, List.mem_map, List.mem_filter]
    constructor
    · rintro (h | ⟨e, he, hl, rfl⟩)
      · exact Or.inl h
      · exact Or.inr ⟨e, ⟨he, hl⟩, rfl⟩
    · rintro (h | ⟨e, ⟨he, hl⟩, rfl⟩)
      · exact Or.inl h
      · exact Or.inr ⟨e, he, hl, rfl⟩

end Multi

/-! ## (S3) the repaired duplicate filter reports every edge key at most once -/

section Dup
variable (I : DistI D) (o : Opts D) (w : World D)

/-- invariant: the results selected by `f` have pairwise distinct keys, all of them `tested` -/
private def sm_Dup (f : Result D → Bool) (s : St D) : Prop :=
  ((s.results.filter f).map (fun r => (r.shape, r.edge))).Nodup ∧
  ∀ r ∈ s.results, f r = true → (⟨r.shape, r.edge⟩ : EdgeKey) ∈ s.tested

private theorem sm_addResult_results (s : St D) (r : Result D) :
    (addResult I o s r).results = s.results ++ [r] := by
  unfold addResult; dsimp only; split <;> rfl

private theorem sm_addResult_tested (s : St D) (r : Result D) :
    (addResult I o s r).tested = s.tested := by
  unfold addResult; dsimp only; split <;> rfl

private theorem sm_dup_add (f : Result D → Bool) (s : St D) (e : EdgeKey) (dd : D)
    (hs : sm_Dup f s) (hne : e ∉ s.tested) :
    sm_Dup f (addResult I o { s with tested := e :: s.tested } ⟨dd, e.shape, e.edge⟩) := by
  unfold sm_Dup
  rw [sm_addResult_results, sm_addResult_tested]
  dsimp only
  constructor
  · rw [List.filter_append, List.map_append, List.nodup_append]
    refine ⟨hs.1, ?_, ?_⟩
    · cases hf : f ⟨dd, e.shape, e.edge⟩ <;> simp [List.filter, hf]
    · intro a ha b hb hab
      obtain ⟨r', hr', rfl⟩ := List.mem_map.1 ha
      obtain ⟨hr'm, hfr'⟩ := List.mem_filter.1 hr'
      have hbe : b = (e.shape, e.edge) := by
        obtain ⟨r2, hr2, rfl⟩ := List.mem_map.1 hb
        have := (List.mem_filter.1 hr2).1
        rw [List.mem_singleton] at this
        subst this; rfl
      subst hbe
      apply hne
      have he : (⟨r'.shape, r'.edge⟩ : EdgeKey) = e := by
        cases e
        simp only [Prod.mk.injEq] at hab
        simp only [EdgeKey.mk.injEq]
        exact hab
      rw [← he]
      exact hs.2 r' hr'm hfr'
  · intro r' hr' hfr'
    rcases List.mem_append.1 hr' with h | h
    · exact List.mem_cons_of_mem _ (hs.2 r' h hfr')
    · rw [List.mem_singleton] at h
      subst h
      exact List.mem_cons_self

private theorem sm_dup_maybeAdd (hif : o.invertedFilter = false) (f : Result D → Bool) (s : St D)
    (e : EdgeKey) (hs : sm_Dup f s) : sm_Dup f (maybeAddResult I o w true s e) := by
  rw [sm_maybeAdd_true I o w hif]
  split
  · exact hs
  · rename_i hc
    have hne : e ∉ s.tested := by simpa using hc
    split
    · exact sm_dup_add I o f s e _ hs hne
    · exact ⟨hs.1, fun r hr hf => List.mem_cons_of_mem _ (hs.2 r hr hf)⟩

private theorem sm_dup_processEdges (hif : o.invertedFilter = false) (f : Result D → Bool)
    (es : List EdgeKey) : ∀ s : St D, sm_Dup f s → sm_Dup f (processEdges I o w true s es) := by
  unfold processEdges
  induction es with
  | nil => intro s hs; exact hs
  | cons e es ih => intro s hs; rw [List.foldl_cons]; exact ih _ (sm_dup_maybeAdd I o w hif f s e hs)

private theorem sm_dup_enq (f : Result D → Bool) (cv : Bool) (c : Cell D) (s : St D)
    (hs : sm_Dup f s) : sm_Dup f (sm_enq I o cv c s) := by
  unfold sm_enq
  split
  · exact hs
  · exact hs

private theorem sm_dup_poe (hif : o.invertedFilter = false) (f : Result D → Bool) (cv : Bool)
    (s : St D) (c : Cell D) (hs : sm_Dup f s) : sm_Dup f (processOrEnqueue I o w true cv s c) := by
  cases c with
  | index cd es =>
    rw [sm_poe_index]
    split
    · exact hs
    · split
      · exact sm_dup_processEdges I o w hif f es s hs
      · exact sm_dup_enq I o f cv _ s hs
  | node cd kids =>
    rw [sm_poe_node]
    exact sm_dup_enq I o f cv _ s hs

private theorem sm_dup_fold (hif : o.invertedFilter = false) (f : Result D → Bool) (cv : Bool)
    (cs : List (Cell D)) : ∀ s : St D, sm_Dup f s →
      sm_Dup f (cs.foldl (processOrEnqueue I o w true cv) s) := by
  induction cs with
  | nil => intro s hs; exact hs
  | cons c cs ih => intro s hs; rw [List.foldl_cons]; exact ih _ (sm_dup_poe I o w hif f cv s c hs)

private theorem sm_dup_initQueue (hif : o.invertedFilter = false) (f : Result D → Bool) (cv : Bool)
    (s : St D) (hs : sm_Dup f s) : sm_Dup f (initQueue I o w true cv s) := by
  have aux : ∀ s1 : St D, sm_Dup f s1 →
      sm_Dup f (if (o.maxResults == 1 && w.located.isSome && s1.limit == I.zero) = true then s1
        else (w.roots s1.limit).foldl (processOrEnqueue I o w true cv) s1) := by
    intro s1 h1
    split
    · exact h1
    · exact sm_dup_fold I o w hif f cv _ _ h1
  have h1 : sm_Dup f (if (o.maxResults == 1) = true then
      match w.located with
      | some edges => processEdges I o w true s edges
      | none => s
    else s) := by
    split
    · split
      · exact sm_dup_processEdges I o w hif f _ s hs
      · exact hs
    · exact hs
  unfold initQueue
  split
  · exact hs
  · exact aux _ h1

private theorem sm_dup_loop (hif : o.invertedFilter = false) (f : Result D → Bool) (cv : Bool) :
    ∀ (fuel : Nat) (s s' : St D), sm_Dup f s → searchLoop I o w true cv fuel s = some s' →
      sm_Dup f s' := by
  intro fuel
  induction fuel with
  | zero => intro s s' _ h; simp [searchLoop] at h
  | succ fuel ih =>
    intro s s' hs
    unfold searchLoop
    cases hp : popMin I s.queue with
    | none => intro h; cases h; exact hs
    | some mr =>
      obtain ⟨⟨k, c⟩, rest⟩ := mr
      have hs1 : sm_Dup f { s with queue := rest } := hs
      dsimp only
      split
      · intro h; cases h; exact hs
      · cases c with
        | index cd es =>
          dsimp only
          intro h
          exact ih _ s' (sm_dup_processEdges I o w hif f es _ hs1) h
        | node cd kids =>
          dsimp only
          intro h
          exact ih _ s' (sm_dup_fold I o w hif f cv kids _ hs1) h

/-- general form: any selection `f` of the results that excludes the interior results -/
private theorem sm_dup_main (hif : o.invertedFilter = false) (hte : o.targetUsesMaxError = true)
    (hme : o.maxError ≠ I.zero) (hmr : o.maxResults > 1)
    (hb : o.useBruteForce = false) (hsm : w.small = false) (f : Result D → Bool)
    (hf : ∀ r ∈ interiorResults I o w, f r = false) :
    ∀ s, findEdgesInternal I o w = some s → sm_Dup f s := by
  intro s hs
  by_cases hz : o.distanceLimit = I.zero
  · have hz' : (o.distanceLimit == I.zero) = true := by simpa using hz
    unfold findEdgesInternal at hs
    simp only [hz', if_true] at hs
    cases hs
    exact ⟨List.nodup_nil, fun r hr => by cases hr⟩
  · have h1 : o.maxResults ≠ 1 := by omega
    rw [sm_fei_eq I o w h1 hz] at hs
    have hme' : (o.maxError != I.zero) = true := by simpa using hme
    simp only [hb, hsm, hte, hme', hmr, Bool.or_false, Bool.and_true, Bool.true_and,
      Bool.false_eq_true, if_false, decide_true] at hs
    unfold findEdgesOptimized at hs
    have h0 : sm_Dup f (sm_s1 I o w) := by
      constructor
      · have : (sm_s1 I o w).results.filter f = [] := by
          rw [List.filter_eq_nil_iff]
          intro r hr; rw [hf r hr]; simp
        rw [this]; exact List.nodup_nil
      · intro r hr hfr
        rw [hf r hr] at hfr; cases hfr
    exact sm_dup_loop I o w hif f _ _ _ s (sm_dup_initQueue I o w hif f _ _ h0) hs

/-- (S3) with the repaired filter and `avoidDuplicates = true`, the edge results of the optimized
    path have pairwise distinct keys `(shapeID, edgeID)` — no geometric hypotheses.  (Interior
    results carry edge id −1 and are excluded by the filter `edge ≥ 0`.) -/
theorem dupfilter_nodup (hif : o.invertedFilter = false) (hte : o.targetUsesMaxError = true)
    (hme : o.maxError ≠ I.zero) (hmr : o.maxResults > 1)
    (hb : o.useBruteForce = false) (hsm : w.small = false) :
    ∀ s, findEdgesInternal I o w = some s →
      ((s.results.filter (fun r => decide (r.edge ≥ 0))).map (fun r => (r.shape, r.edge))).Nodup := by
  intro s hs
  refine (sm_dup_main I o w hif hte hme hmr hb hsm (fun r => decide (r.edge ≥ 0)) ?_ s hs).1
  intro r hr
  unfold interiorResults at hr
  split at hr
  · obtain ⟨sh, _, rfl⟩ := List.mem_map.1 hr
    simp
  · cases hr

/-- (S3) without interior results, ALL raw results have pairwise distinct keys -/
theorem dupfilter_nodup_noInteriors (hif : o.invertedFilter = false)
    (hte : o.targetUsesMaxError = true) (hme : o.maxError ≠ I.zero) (hmr : o.maxResults > 1)
    (hb : o.useBruteForce = false) (hsm : w.small = false) (hii : o.includeInteriors = false) :
    ∀ s, findEdgesInternal I o w = some s →
      (s.results.map (fun r => (r.shape, r.edge))).Nodup := by
  intro s hs
  have := (sm_dup_main I o w hif hte hme hmr hb hsm (fun _ => true) (by
    intro r hr
    unfold interiorResults at hr
    rw [hii] at hr
    simp at hr) s hs).1
  rw [List.filter_eq_self.2 (fun _ _ => rfl)] at this
  exact this

end Dup

/-! ## (S4) a concrete world: defect D9 exhibited, and non-vacuity of `WorldOK` -/

namespace Example

/-- closest-edge distances in integer units, 180° = 1000 -/
def I0 : DistI Int := minDist 1000

/-- the true distance of an edge to the target (non-negative for every key) -/
def d0 (e : EdgeKey) : Int := 10 + 10 * (e.edge.toNat : Int) + 100 * (e.shape.toNat : Int)

/-- `updateDistanceToCell` of a cell whose distance to the target is `lb` -/
def cdOf (lb : Int) : Int → Option Int := fun lim => if lb < lim then some lb else none

/-- index cell A: ten edges of shape 0 (enqueued: `≥ minEdgesToEnqueue`) -/
def edgesA : List EdgeKey := [⟨0,0⟩, ⟨0,1⟩, ⟨0,2⟩, ⟨0,3⟩, ⟨0,4⟩, ⟨0,5⟩, ⟨0,6⟩, ⟨0,7⟩, ⟨0,8⟩, ⟨0,9⟩]
/-- index cell B: three edges (processed at once); edge `(0,0)` also lies in cell A -/
def edgesB : List EdgeKey := [⟨0,0⟩, ⟨1,0⟩, ⟨1,1⟩]
def cellA : Cell Int := .index (cdOf 10) edgesA
def cellB : Cell Int := .index (cdOf 10) edgesB
def root0 : Cell Int := .node (cdOf 10) [cellA, cellB]

def w0 : World Int where
  updEdge e lim := if I0.less (d0 e) lim then some (d0 e) else none
  allEdges := edgesA ++ [⟨1,0⟩, ⟨1,1⟩]
  interiors := [7]
  small := false
  emptyTarget := false
  located := none
  roots _ := [root0]

/-- the options of the D9 scenario: the target uses `maxError`, several results wanted -/
def oD9 (inverted : Bool) : Opts Int where
  maxResults := 3
  distanceLimit := 1001
  maxError := 5
  includeInteriors := false
  useBruteForce := false
  targetUsesMaxError := true
  invertedFilter := inverted

/-- the same for an exact target (the setting of `opt_eq_brute_multi`) -/
def oExact (interiors : Bool) : Opts Int where
  maxResults := 3
  distanceLimit := 1001
  maxError := 5
  includeInteriors := interiors
  useBruteForce := false
  targetUsesMaxError := false

/-- D9: with the inverted filter every edge is dropped as "not yet tested" — no result at all -/
theorem d9_inverted_empty : findEdges I0 (oD9 true) w0 = some [] := by decide

/-- repaired filter: the three closest edges -/
theorem d9_repaired : findEdges I0 (oD9 false) w0 = some [⟨10, 0, 0⟩, ⟨20, 0, 1⟩, ⟨30, 0, 2⟩] := by decide

/-- … which is the brute-force answer -/
theorem d9_repaired_eq_brute :
    findEdges I0 (oD9 false) w0 = findEdges I0 { oD9 false with useBruteForce := true } w0 := by decide

/-- … while the inverted filter disagrees with brute force -/
theorem d9_inverted_ne_brute :
    findEdges I0 (oD9 true) w0 ≠ findEdges I0 { oD9 true with useBruteForce := true } w0 := by decide

/-- the raw results of the repaired run: the shared edge `(0,0)` is reported once -/
theorem d9_repaired_raw : (findEdgesInternal I0 (oD9 false) w0).map (fun s => s.results.map (fun r => (r.shape, r.edge))) =
    some [(0,0), (1,0), (1,1), (0,1), (0,2), (0,3), (0,4), (0,5), (0,6), (0,7), (0,8), (0,9)] := by decide

/-- exact target: the shared edge is reported twice in the raw results (once per cell) and
    removed by `sortAndUniqueResults` -/
theorem exact_raw : (findEdgesInternal I0 (oExact false) w0).map (fun s => s.results.map (fun r => (r.shape, r.edge))) =
    some [(0,0), (1,0), (1,1), (0,0), (0,1), (0,2), (0,3), (0,4), (0,5), (0,6), (0,7), (0,8), (0,9)] := by decide

theorem exact_answer : findEdges I0 (oExact true) w0 = some [⟨0, 7, -1⟩, ⟨10, 0, 0⟩, ⟨20, 0, 1⟩] := by decide

private theorem cdOf_LB (lb : Int) (c : Cell Int) (hcd : c.cd = cdOf lb)
    (h : ∀ e ∈ edgesUnder c, lb ≤ d0 e) : CellLB I0 d0 c := by
  intro lim
  rw [hcd]
  simp only [cdOf, I0, minDist, decide_eq_false_iff_not, decide_eq_true_eq]
  constructor
  · intro hn e he
    have := h e he
    split at hn
    · cases hn
    · omega
  · intro x hx
    split at hx
    · cases hx
      refine ⟨by assumption, ?_⟩
      intro e he
      have := h e he
      omega
    · cases hx

/-- non-vacuity: the hypotheses of `opt_eq_brute_multi` hold in the example world -/
theorem w0_ok : WorldOK I0 w0 d0 where
  exactEdge _ _ := rfl
  cellLB := by
    intro lim c hc
    have hc' : c = root0 ∨ c = cellA ∨ c = cellB := by
      simpa [w0, root0, cellA, cellB, cellsOfList, cellsOf] using hc
    rcases hc' with rfl | rfl | rfl
    · exact cdOf_LB 10 _ rfl (by simp [root0, cellA, cellB, edgesUnder, edgesUnderList, edgesA, edgesB]; decide)
    · exact cdOf_LB 10 _ rfl (by simp [cellA, edgesUnder, edgesA]; decide)
    · exact cdOf_LB 10 _ rfl (by simp [cellB, edgesUnder, edgesB]; decide)
  rootsComplete := by
    intro lim e he hl
    clear hl
    have : edgesUnderList (w0.roots lim) = edgesA ++ (edgesB ++ []) ++ [] := by
      simp [w0, root0, cellA, cellB, edgesUnder, edgesUnderList]
    rw [this]
    revert e
    decide
  rootsSound := by
    intro lim e he
    have : edgesUnderList (w0.roots lim) = edgesA ++ (edgesB ++ []) ++ [] := by
      simp [w0, root0, cellA, cellB, edgesUnder, edgesUnderList]
    rw [this] at he
    revert e
    decide
  locatedSound := by intro es h; cases h
  nonEmptyTarget := rfl
  zeroMin := by
    intro e
    simp only [I0, minDist, d0, decide_eq_false_iff_not]
    omega

/-- `opt_eq_brute_multi` applied to the example (both `includeInteriors` values) … -/
theorem exact_opt_eq_brute (b : Bool) :
    findEdges I0 { oExact b with useBruteForce := false } { w0 with small := false } =
      findEdges I0 { oExact b with useBruteForce := true } w0 :=
  opt_eq_brute_multi I0 (oExact b) w0 d0 (minDist_order 1000) w0_ok (show (3 : Nat) ≠ 1 by decide) rfl

/-- … and `dupfilter_nodup` to the repaired D9 run -/
theorem d9_nodup : ∀ s, findEdgesInternal I0 (oD9 false) w0 = some s →
    ((s.results.filter (fun r => decide (r.edge ≥ 0))).map (fun r => (r.shape, r.edge))).Nodup :=
  dupfilter_nodup I0 (oD9 false) w0 rfl rfl (by decide) (by decide) rfl rfl

end Example

end S2Proofs.EdgeQuery
