/-
  S2Proofs.EdgeQuery.EdgeWorldEx — NON-VACUITY of the hypotheses `EdgeTargetOK` / `IndexOK` of
  `S2Proofs.EdgeQuery.EdgeWorld` (package c08edge): the two-cell index of `PointWorldEx.lean`

      fromFace 0 (node) ── child 0  (uv ∈ [-1,0]×[-1,0])  lists edge 1 = (2/3,−2/3,−1/3) → (2/3,−1/3,−2/3)
                        └─ child 2  (uv ∈ [ 0,1]×[ 0,1])  lists edge 0 = (1,0,0) → (2/3,2/3,1/3)

  with the EDGE target (1/3,2/3,2/3) → (2/3,1/3,2/3) (`exE`; thirds rounded to float64) and, second instance, the EDGE target
  (2/3,1/3,2/3) → (2/3,2/3,−1/3) (`exE2`), which CROSSES edge 0 (exit `CrossingSign == Cross` of `updateEdgePairMinDistance`,
  reported distance exactly 0; afterwards the limit is 0 and the exit `minDist == 0` is taken).  Every hypothesis is discharged by the
  kernel on the integer forms (`UnitPtZ`, `EdgeOKZ`, `WedgeMarginZ`, `CirclesDifferZ`), for the three cells the search
  visits (12 float vertices) and the eight point-to-edge calls of the two edge pairs; the optimized search is evaluated by the
  kernel on the bit-exact soft-float (`Cell.DistanceToEdge` incl. its exact crossing test, `updateEdgePairMinDistance`).
-/
import S2Proofs.EdgeQuery.EdgeWorld
import S2Proofs.EdgeQuery.PointWorldEx
import S2Proofs.Properties.C08_World2

set_option linter.unusedSimpArgs false
set_option linter.unusedVariables false

namespace S2Proofs.C08Edge.Ex
open S2 S2.Exact S2.CellID S2.CellM S2.EdgeNum S2.EdgeQueryM S2Proofs.F64Order S2Proofs.FloatErr S2Proofs.EdgeQuery
open S2Proofs.C17Err S2Proofs.C17 S2Proofs.C17Pairs S2Proofs.C12Dist S2Proofs.C08World S2Proofs.C08World.Ex

/-! ## the data -/

/-- the index of `PointWorldEx` with the target edge `t0 → t1` -/
def mkE (t0 t1 : V3) : EdgeIndex where
  t0 := t0
  t1 := t1
  vert := exIdx.vert
  allEdges := exIdx.allEdges
  ix := exIdx.ix
  rootIds := exIdx.rootIds
  depth := exIdx.depth
  interiors := exIdx.interiors
  located := exIdx.located
  small := exIdx.small

/-- first target edge (1/3,2/3,2/3) → (2/3,1/3,2/3): crosses no index edge -/
def T0 : V3 := S2Proofs.C08World.Ex.exP
def T1 : V3 := ⟨t23, t13, t23⟩
/-- second target edge (2/3,1/3,2/3) → (2/3,2/3,−1/3): crosses edge 0 at the direction (14,10,5) -/
def U0 : V3 := T1
def U1 : V3 := ⟨t23, t23, m13⟩

def exE : EdgeIndex := mkE T0 T1
def exE2 : EdgeIndex := mkE U0 U1

variable {t0 t1 : V3}

theorem vertE_e0 : (mkE t0 t1).vert e0 = (a0, b0) := rfl
theorem vertE_e1 : (mkE t0 t1).vert e1 = (a1, b1) := rfl

theorem memE {e : EdgeKey} (he : e ∈ (mkE t0 t1).allEdges) : e = e0 ∨ e = e1 := mem_allEdges he

/-! ## `EdgeTargetOK` -/

/-- the decidable integer facts: target, the 12 vertices of the three visited cells, the 8 calls of the two pairs -/
def Facts (t0 t1 : V3) : Prop :=
    UnitPtZ t0 ∧ UnitPtZ t1 ∧ EdgeOKZ t0 t1 ∧
    ([cellRoot, cellNeg, cellPos].all fun c => (List.range 4).all fun k =>
      decide (UnitPtZ (vertex c k) ∧ WedgeMarginZ (vertex c k) t0 t1)) = true ∧
    ([(a0, b0), (a1, b1)].all fun p =>
      decide (UnitPtZ p.1 ∧ UnitPtZ p.2 ∧ EdgeOKZ p.1 p.2 ∧
        WedgeMarginZ t0 p.1 p.2 ∧ WedgeMarginZ t1 p.1 p.2 ∧ WedgeMarginZ p.1 t0 t1 ∧ WedgeMarginZ p.2 t0 t1 ∧
        (crosses t0 t1 p.1 p.2 = true → CirclesDifferZ t0 t1 p.1 p.2))) = true

instance (t0 t1 : V3) : Decidable (Facts t0 t1) := by unfold Facts; infer_instance

set_option maxRecDepth 100000 in
theorem factsE : Facts T0 T1 := by decide +kernel
set_option maxRecDepth 100000 in
theorem factsE2 : Facts U0 U1 := by decide +kernel

theorem verticesOK_of_mem (hF : Facts t0 t1) {c : Cell} (hc : c ∈ [cellRoot, cellNeg, cellPos]) :
    S2Proofs.C12.VerticesOK c t0 t1 := by
  have h := List.all_eq_true.mp hF.2.2.2.1 c hc
  intro k hk
  have h2 := of_decide_eq_true (List.all_eq_true.mp h k (List.mem_range.mpr hk))
  have hu := unitPt_of_int h2.1
  exact ⟨hu, wedgeMargin_of_int _ _ _ hu (unitPt_of_int hF.1) (unitPt_of_int hF.2.1) h2.2⟩

theorem pairOK_of_mem (hF : Facts t0 t1) {p : V3 × V3} (hp : p ∈ [(a0, b0), (a1, b1)]) : PairOK t0 t1 p.1 p.2 := by
  obtain ⟨u1, u2, e, m1, m2, m3, m4, cr⟩ := of_decide_eq_true (List.all_eq_true.mp hF.2.2.2.2 p hp)
  have z0 : UnitPtZ t0 := hF.1
  have z1 : UnitPtZ t1 := hF.2.1
  have ze : EdgeOKZ t0 t1 := hF.2.2.1
  exact ⟨callOK_of_int z0 u1 u2 e m1, callOK_of_int z1 u1 u2 e m2, callOK_of_int u1 z0 z1 ze m3,
    callOK_of_int u2 z0 z1 ze m4, cr⟩

/-- the cells the search can visit: the two index cells and the face cell -/
theorem visited_cases {y : CellID} (hy : Visited (mkE t0 t1) y) : y = cNeg ∨ y = cPos ∨ y = cRoot := by
  obtain ⟨hv, x, hx, hyx, _⟩ := hy
  have : x = cNeg ∨ x = cPos := by simpa [mkE, exIdx, Roots.ids] using hx
  rcases this with rfl | rfl
  · rcases ancestors_level1 isCell_neg hv hyx with rfl | rfl
    · exact Or.inl rfl
    · exact Or.inr (Or.inr parent_neg)
  · rcases ancestors_level1 isCell_pos hv hyx with rfl | rfl
    · exact Or.inr (Or.inl rfl)
    · exact Or.inr (Or.inr parent_pos)

theorem targetOK_of_facts (hF : Facts t0 t1) : EdgeTargetOK (mkE t0 t1) where
  t0 := unitPt_of_int hF.1
  t1 := unitPt_of_int hF.2.1
  tEdge := edgeOK_of_int hF.2.2.1
  cells y hy := by
    show S2Proofs.C12.VerticesOK (cellFromCellID y) t0 t1
    rcases visited_cases hy with rfl | rfl | rfl
    · rw [cellNeg_eq]; exact verticesOK_of_mem hF (by simp)
    · rw [cellPos_eq]; exact verticesOK_of_mem hF (by simp)
    · rw [cellRoot_eq]; exact verticesOK_of_mem hF (by simp)
  pairs e he := by
    rcases memE he with rfl | rfl
    · rw [vertE_e0]; exact pairOK_of_mem hF (p := (a0, b0)) (by simp)
    · rw [vertE_e1]; exact pairOK_of_mem hF (p := (a1, b1)) (by simp)

theorem ex_targetOK : EdgeTargetOK exE := targetOK_of_facts factsE
theorem ex_targetOK2 : EdgeTargetOK exE2 := targetOK_of_facts factsE2

/-- in the second instance the target edge and edge 0 CROSS (the float `CrossingSign` answers `Cross`) -/
theorem ex2_crosses : crosses U0 U1 a0 b0 = true ∧ crosses U0 U1 a1 b1 = false := by decide +kernel

/-! ## `IndexOK` (from its parts: `I1Arc` and `RootsCover`; the ancestors by `regions_nested`) -/

theorem ex_i1ArcE : I1Arc (mkE t0 t1).toPoint := S2Proofs.C08.ex_i1Arc

theorem ex_rootsCoverE : RootsCover (mkE t0 t1) := by
  intro lim x hx Q _ _ _
  have : x = cNeg ∨ x = cPos := by simpa [mkE, exIdx, Roots.ids] using hx
  refine ⟨cRoot, by simp [mkE, exIdx], ?_⟩
  rcases this with rfl | rfl <;> decide

theorem indexOK_of_facts (hF : Facts t0 t1) : IndexOK (mkE t0 t1) :=
  indexOK_of_parts (targetOK_of_facts hF) ex_indexOK.cellsOK ex_indexOK.rootsValid ex_indexOK.depth ex_indexOK.edgesSound
    ex_indexOK.locatedSound ex_i1ArcE ex_rootsCoverE

theorem ex_indexOKE : IndexOK exE := indexOK_of_facts factsE
theorem ex_indexOKE2 : IndexOK exE2 := indexOK_of_facts factsE2

/-- **hypothesis-free instances of `edge_slackWorld`** -/
theorem ex_slackWorldE : Slack.SlackWorld chordI (world exE) (Near exE) := edge_slackWorld ex_targetOK ex_indexOKE
theorem ex_slackWorldE2 : Slack.SlackWorld chordI (world exE2) (Near exE2) := edge_slackWorld ex_targetOK2 ex_indexOKE2

/-! ## the search really runs on these worlds (kernel evaluation) -/

def updCellL (t0 t1 : V3) (c : CellM.Cell) (lim : Chord) : Option Chord :=
  if F64.lt (CellEdgeM.distanceToEdge c t0 t1) lim.1 then some (canon (CellEdgeM.distanceToEdge c t0 t1)) else none

def exTreeE (t0 t1 : V3) : EdgeQueryM.Cell Chord :=
  .node (updCellL t0 t1 cellRoot) [.index (updCellL t0 t1 cellNeg) [e1], .index (updCellL t0 t1 cellPos) [e0]]

theorem updCellE_root : updCell (mkE t0 t1) cRoot = updCellL t0 t1 cellRoot := by
  funext lim; unfold updCell cellDist updCellL; rw [cellRoot_eq]; rfl
theorem updCellE_neg : updCell (mkE t0 t1) cNeg = updCellL t0 t1 cellNeg := by
  funext lim; unfold updCell cellDist updCellL; rw [cellNeg_eq]; rfl
theorem updCellE_pos : updCell (mkE t0 t1) cPos = updCellL t0 t1 cellPos := by
  funext lim; unfold updCell cellDist updCellL; rw [cellPos_eq]; rfl

theorem treeE_eq : Roots.subtree (mkE t0 t1).ix (updCell (mkE t0 t1)) 30 cRoot = exTreeE t0 t1 := by
  have l0 : (mkE t0 t1).ix.lookup cRoot = none := (by decide : exIdx.ix.lookup cRoot = none)
  have l1 : (mkE t0 t1).ix.lookup cNeg = some [e1] := (by decide : exIdx.ix.lookup cNeg = some [e1])
  have l2 : (mkE t0 t1).ix.lookup cPos = some [e0] := (by decide : exIdx.ix.lookup cPos = some [e0])
  have hk : (([1, 0, 3, 2].map (child cRoot)).filter (Roots.hasIndexCell (mkE t0 t1).ix)) = [cNeg, cPos] :=
    (by decide : (([1, 0, 3, 2].map (child cRoot)).filter (Roots.hasIndexCell exIdx.ix)) = [cNeg, cPos])
  have h : Roots.subtree (mkE t0 t1).ix (updCell (mkE t0 t1)) 30 cRoot =
      .node (updCell (mkE t0 t1) cRoot) [.index (updCell (mkE t0 t1) cNeg) [e1], .index (updCell (mkE t0 t1) cPos) [e0]] := by
    rw [show (30 : Nat) = 28 + 1 + 1 from rfl]
    rw [Roots.subtree, l0]
    rw [hk]
    simp only [List.map_cons, List.map_nil]
    rw [Roots.subtree, l1, Roots.subtree, l2]
  rw [h, updCellE_root, updCellE_neg, updCellE_pos]; rfl

/-- the same world with the tree written out -/
def exWorldEL (t0 t1 : V3) : World Chord := { world (mkE t0 t1) with roots := fun _ => [exTreeE t0 t1] }

theorem rootsE_eq : (world (mkE t0 t1)).roots = fun _ => [exTreeE t0 t1] := by
  funext lim
  show [Roots.subtree (mkE t0 t1).ix (updCell (mkE t0 t1)) 30 cRoot] = _
  rw [treeE_eq]

theorem worldE_eq : world (mkE t0 t1) = exWorldEL t0 t1 := by
  unfold exWorldEL; rw [← rootsE_eq]

set_option maxRecDepth 100000 in
/-- the pruning values of the three cells (bit patterns), first target: the face cell and `[0,1]²` contain the target endpoint
    `(2/3,1/3,2/3)` (distance 0), `[-1,0]²` is at squared chord `0x3FE5555555555555` (≈ 2/3) from the target arc -/
theorem ex_cellValues :
    [cellRoot, cellNeg, cellPos].map (fun c => (CellEdgeM.distanceToEdge c T0 T1).bits) =
      [0, 4604180019048437077, 0] := by decide +kernel

set_option maxRecDepth 100000 in
/-- the two edge-pair distances for an infinite limit (bit patterns; edge 1 is at squared chord exactly 2.0) -/
theorem ex_pairValues :
    [(a0, b0), (a1, b1)].map (fun p => ((updateEdgePairMinDistance T0 T1 p.1 p.2 (F64.inf false)).1.bits,
      (updateEdgePairMinDistance T0 T1 p.1 p.2 (F64.inf false)).2)) =
      [(4595317478721647778, true), (4611686018427387904, true)] := by decide +kernel

set_option maxRecDepth 100000 in
theorem ex_searchEL : (findEdges chordI exOpts (exWorldEL T0 T1)).map (fun rs => rs.map (fun r => (r.dist.1.bits, r.shape, r.edge)))
    = some [(4595317478721647778, 0, 0)] := by decide +kernel

/-- the optimized search (MaxResults 1, infinite limit, MaxError 0) returns edge 0 at squared chord `0x3FC5D8E65D58F4A2` ≈ 0.1707 -/
theorem ex_searchE : (findEdges chordI exOpts (world exE)).map (fun rs => rs.map (fun r => (r.dist.1.bits, r.shape, r.edge)))
    = some [(4595317478721647778, 0, 0)] := by
  show (findEdges chordI exOpts (world (mkE T0 T1))).map _ = _
  rw [worldE_eq]; exact ex_searchEL

set_option maxRecDepth 100000 in
theorem ex_searchEL2 : (findEdges chordI exOpts2 (exWorldEL T0 T1)).map (fun rs => rs.map (fun r => (r.dist.1.bits, r.shape, r.edge)))
    = some [(4595317478721647778, 0, 0), (4611686018427387904, 0, 1)] := by decide +kernel

/-- with `MaxResults = 2` both edges are found -/
theorem ex_searchE2 : (findEdges chordI exOpts2 (world exE)).map (fun rs => rs.map (fun r => (r.dist.1.bits, r.shape, r.edge)))
    = some [(4595317478721647778, 0, 0), (4611686018427387904, 0, 1)] := by
  show (findEdges chordI exOpts2 (world (mkE T0 T1))).map _ = _
  rw [worldE_eq]; exact ex_searchEL2

set_option maxRecDepth 100000 in
/-- the pruning values of the three cells for the second target (the crossing loop of `DistanceToEdge` returns 0 for the face
    cell and for `[0,1]²`) -/
theorem ex2_cellValues :
    [cellRoot, cellNeg, cellPos].map (fun c => (CellEdgeM.distanceToEdge c U0 U1).bits) =
      [0, 4601437103236720531, 0] := by decide +kernel

set_option maxRecDepth 100000 in
theorem ex2_searchL : (findEdges chordI exOpts (exWorldEL U0 U1)).map (fun rs => rs.map (fun r => (r.dist.1.bits, r.shape, r.edge)))
    = some [(0, 0, 0)] := by decide +kernel

/-- second target (crossing edge 0): the optimized search returns edge 0 at distance exactly `+0` -/
theorem ex2_search : (findEdges chordI exOpts (world exE2)).map (fun rs => rs.map (fun r => (r.dist.1.bits, r.shape, r.edge)))
    = some [(0, 0, 0)] := by
  show (findEdges chordI exOpts (world (mkE U0 U1))).map _ = _
  rw [worldE_eq]; exact ex2_searchL

set_option maxRecDepth 100000 in
theorem ex2_searchL2 : (findEdges chordI exOpts2 (exWorldEL U0 U1)).map (fun rs => rs.map (fun r => (r.dist.1.bits, r.shape, r.edge)))
    = some [(0, 0, 0), (4607682818758614130, 0, 1)] := by decide +kernel

/-- second target, `MaxResults = 2`: edge 0 at `+0`, edge 1 at `0x3FF1C71C71C71C72` (≈ 1.111) -/
theorem ex2_search2 : (findEdges chordI exOpts2 (world exE2)).map (fun rs => rs.map (fun r => (r.dist.1.bits, r.shape, r.edge)))
    = some [(0, 0, 0), (4607682818758614130, 0, 1)] := by
  show (findEdges chordI exOpts2 (world (mkE U0 U1))).map _ = _
  rw [worldE_eq]; exact ex2_searchL2

end S2Proofs.C08Edge.Ex
