/-
  S2Proofs.EdgeQuery.SearchSlack — the search theorems under `Slack.SlackWorld` (package c08world):
  exact-type target (`targetUsesMaxError = false`, hence `avoidDuplicates = false`,
  `useConservativeCellDistance = false`), floating-point distances with slack, clipped edges.
-/
import S2Proofs.EdgeQuery.SlackDefs
import S2Proofs.EdgeQuery.SearchSingle
import S2Proofs.EdgeQuery.Post
open S2 S2.EdgeQueryM
namespace S2Proofs.EdgeQuery
namespace Slack
open Single

set_option linter.unusedSectionVars false

variable {D : Type} [DecidableEq D] {I : DistI D} {o : Opts D} {w : World D} {Near : EdgeKey → D → Prop}

/-- what an entry of the raw result list is when MaxResults ≠ 1 (the limit is never tightened) -/
def RawOK (I : DistI D) (o : Opts D) (w : World D) (r : Result D) : Prop :=
  (o.includeInteriors = true ∧ r.dist = I.zero ∧ r.edge = -1 ∧ r.shape ∈ w.interiors) ∨
  (∃ e ∈ w.allEdges, r.shape = e.shape ∧ r.edge = e.edge ∧ w.updEdge e o.distanceLimit = some r.dist)

/-! ## The state invariant -/

/-- a limit the search may hold: not above the option's limit, or (after an interior result) not above
    `zero` -/
def LimOK (I : DistI D) (o : Opts D) (l : D) : Prop :=
  I.less o.distanceLimit l = false ∨ I.less I.zero l = false

theorem LimOK.mono (O : DistOrder I) {a b : D} (h : LimOK I o a) (hab : I.less a b = false) :
    LimOK I o b := by
  rcases h with h | h
  · exact Or.inl (ord_le_trans O hab h)
  · exact Or.inr (ord_le_trans O hab h)

/-- soundness of a result as the invariant carries it (the limit handed to `updateDistanceToEdge` was
    `LimOK`) -/
def Sound0 (I : DistI D) (o : Opts D) (w : World D) (r : Result D) : Prop :=
  (o.includeInteriors = true ∧ r.dist = I.zero ∧ r.edge = -1 ∧ r.shape ∈ w.interiors) ∨
  (∃ e ∈ w.allEdges, r.shape = e.shape ∧ r.edge = e.edge ∧
    ∃ lim, w.updEdge e lim = some r.dist ∧ LimOK I o lim)

/-- `x ⊖ err ≤ x` for the distance of every result the invariant can carry (package c08world2) -/
theorem subOn_of_sound (S : SubLawsOn I w o.maxError) {r : Result D} (h : Sound0 I o w r) :
    I.less r.dist (I.sub r.dist o.maxError) = false := by
  rcases h with ⟨_, hz, _, _⟩ | ⟨e, he, _, _, lim, hu, _⟩
  · rw [hz]; exact S.sub_zero
  · exact S.sub_edge e he lim _ hu

/-- invariant of the query state (both `maxResults = 1` and `maxResults ≠ 1`) -/
structure Inv (I : DistI D) (o : Opts D) (w : World D) (s : St D) : Prop where
  lim : LimOK I o s.limit
  limConst : o.maxResults ≠ 1 → s.limit = o.distanceLimit
  sound : ∀ r ∈ s.results, Sound0 I o w r
  raw : o.maxResults ≠ 1 → ∀ r ∈ s.results, RawOK I o w r
  nil_limit : s.results = [] → s.limit = o.distanceLimit
  last : o.maxResults = 1 → s.results ≠ [] → ∃ m ∈ s.results, s.limit = I.sub m.dist o.maxError ∧
    ∀ r ∈ s.results, I.less r.dist m.dist = false

theorem Inv.of_eq {s s' : St D} (hs : Inv I o w s) (hl : s'.limit = s.limit)
    (hr : s'.results = s.results) : Inv I o w s' := by
  refine ⟨hl ▸ hs.lim, fun h => hl.trans (hs.limConst h), hr ▸ hs.sound, fun h => hr ▸ hs.raw h,
    fun h => hl.trans (hs.nil_limit (hr ▸ h)), ?_⟩
  intro h1 hne
  rw [hr] at hne
  rw [hr, hl]
  exact hs.last h1 hne

/-- the edge has been reported (only used for `maxResults ≠ 1`) -/
def Done (o : Opts D) (w : World D) (s : St D) (e : EdgeKey) : Prop :=
  o.maxResults ≠ 1 ∧ ∃ x, w.updEdge e o.distanceLimit = some x ∧ (⟨x, e.shape, e.edge⟩ : Result D) ∈ s.results

/-- a queued cell starts a witness path of the edge, and the edge is not `Near` its key -/
def Covered (Near : EdgeKey → D → Prop) (s : St D) (e : EdgeKey) : Prop :=
  ∃ kc ∈ s.queue, Reach Near e kc.2 ∧ ¬ Near e kc.1

def Pending (o : Opts D) (w : World D) (Near : EdgeKey → D → Prop) (s : St D) : Prop :=
  ∀ e ∈ w.allEdges, Near e s.limit → Done o w s e ∨ Covered Near s e

def Exit (o : Opts D) (w : World D) (Near : EdgeKey → D → Prop) (s : St D) : Prop :=
  ∀ e ∈ w.allEdges, Near e s.limit → Done o w s e

theorem Done.mono {s s' : St D} {e : EdgeKey} (h : Done o w s e)
    (hr : ∀ r ∈ s.results, r ∈ s'.results) : Done o w s' e := by
  obtain ⟨hk, x, hx, hm⟩ := h
  exact ⟨hk, x, hx, hr _ hm⟩

theorem addResult_ne (hk : o.maxResults ≠ 1) (s : St D) (r : Result D) :
    addResult I o s r = { s with results := s.results ++ [r] } := by
  simp [addResult, hk]

/-- adding a result -/
theorem add_inv (O : DistOrder I) {s : St D} (hs : Inv I o w s) {r : Result D}
    (hr : Sound0 I o w r) (hraw : o.maxResults ≠ 1 → RawOK I o w r)
    (hmin : o.maxResults = 1 → ∀ r' ∈ s.results, I.less r'.dist r.dist = false)
    (hlim : o.maxResults = 1 → LimOK I o (I.sub r.dist o.maxError)) :
    Inv I o w (addResult I o s r) := by
  by_cases h1 : o.maxResults = 1
  · rw [addResult_one h1]
    refine ⟨hlim h1, fun h => absurd h1 h, ?_, fun h => absurd h1 h, ?_, ?_⟩
    · intro r' hr'
      rcases List.mem_append.1 hr' with h | h
      · exact hs.sound r' h
      · simp only [List.mem_singleton] at h; subst h; exact hr
    · intro h; simp at h
    · intro _ _
      refine ⟨r, by simp, rfl, ?_⟩
      intro r' hr'
      rcases List.mem_append.1 hr' with h | h
      · exact hmin h1 r' h
      · simp only [List.mem_singleton] at h; subst h; exact O.irrefl _
  · rw [addResult_ne h1]
    refine ⟨hs.lim, hs.limConst, ?_, ?_, fun _ => hs.limConst h1, fun h => absurd h h1⟩
    · intro r' hr'
      rcases List.mem_append.1 hr' with h | h
      · exact hs.sound r' h
      · simp only [List.mem_singleton] at h; subst h; exact hr
    · intro _ r' hr'
      rcases List.mem_append.1 hr' with h | h
      · exact hs.raw h1 r' h
      · simp only [List.mem_singleton] at h; subst h; exact hraw h1

theorem add_results (s : St D) (r : Result D) :
    (addResult I o s r).results = s.results ++ [r] := by
  unfold addResult; simp only; split <;> rfl

/-- what one edge / a list of edges handed to `maybeAddResult` guarantees -/
structure EdgesOut (I : DistI D) (o : Opts D) (w : World D) (Near : EdgeKey → D → Prop)
    (s s' : St D) (es : List EdgeKey) : Prop where
  inv : Inv I o w s'
  step : Step I s s'
  queue : s'.queue = s.queue
  handled : ∀ e ∈ es, Near e s'.limit → Done o w s' e

theorem edge_step (O : DistOrder I) (S1 : o.maxResults = 1 → SubLawsOn I w o.maxError)
    (W : SlackWorld I w Near) {s : St D} (hs : Inv I o w s) {e : EdgeKey} (he : e ∈ w.allEdges) :
    EdgesOut I o w Near s (maybeAddResult I o w false s e) [e] := by
  rw [Approx.maybeAdd_false]
  cases hu : w.updEdge e s.limit with
  | none =>
    refine ⟨hs, Step.refl O s, rfl, ?_⟩
    intro e' he' hn
    simp only [List.mem_singleton] at he'; subst he'
    exact absurd hn (W.edgeNone e' he _ hu)
  | some x =>
    simp only
    have hx : I.less x s.limit = true := W.edgeLt e he _ _ hu
    have hsnd : Sound0 I o w ⟨x, e.shape, e.edge⟩ := Or.inr ⟨e, he, rfl, rfl, s.limit, hu, hs.lim⟩
    by_cases h1 : o.maxResults = 1
    · have hle : I.less x (I.sub x o.maxError) = false := (S1 h1).sub_edge e he _ _ hu
      have hlt : I.less s.limit (I.sub x o.maxError) = false :=
        ord_asymm O (ord_lt_of_le_of_lt O hle hx)
      refine ⟨add_inv O hs hsnd (fun h => absurd h1 h) ?_ (fun _ => hs.lim.mono O hlt), ?_, ?_, ?_⟩
      · intro _ r' hr'
        obtain ⟨m, hmm, hlim, hm⟩ := hs.last h1 (List.ne_nil_of_mem hr')
        have h2 : I.less x m.dist = true :=
          ord_lt_of_lt_of_le O (hlim ▸ hx) (subOn_of_sound (S1 h1) (hs.sound m hmm))
        exact ord_asymm O (ord_lt_of_lt_of_le O h2 (hm r' hr'))
      · rw [addResult_one h1]
        exact ⟨hlt, fun r h => List.mem_append_left _ h⟩
      · rw [addResult_one h1]
      · intro e' he' hn
        simp only [List.mem_singleton] at he'; subst he'
        rw [addResult_one h1] at hn
        exact absurd (W.nearMono e' _ _ hn hle) (W.edgeVal e' he _ _ hu)
    · have hraw : RawOK I o w ⟨x, e.shape, e.edge⟩ :=
        Or.inr ⟨e, he, rfl, rfl, by rw [← hs.limConst h1]; exact hu⟩
      refine ⟨add_inv O hs hsnd (fun _ => hraw) (fun h => absurd h h1) (fun h => absurd h h1), ?_, ?_, ?_⟩
      · rw [addResult_ne h1]
        exact ⟨O.irrefl _, fun r h => List.mem_append_left _ h⟩
      · rw [addResult_ne h1]
      · intro e' he' _
        simp only [List.mem_singleton] at he'; subst he'
        refine ⟨h1, x, by rw [← hs.limConst h1]; exact hu, ?_⟩
        rw [addResult_ne h1]; simp

/-- `processEdges` on edges of the index -/
theorem edges_step (O : DistOrder I) (S1 : o.maxResults = 1 → SubLawsOn I w o.maxError)
    (W : SlackWorld I w Near) (es : List EdgeKey) : ∀ {s : St D}, Inv I o w s →
    (∀ e ∈ es, e ∈ w.allEdges) → EdgesOut I o w Near s (processEdges I o w false s es) es := by
  induction es with
  | nil => intro s hs _; exact ⟨hs, Step.refl O s, rfl, by simp⟩
  | cons e es ih =>
    intro s hs hes
    have a := edge_step O S1 W hs (hes e (by simp))
    have b := ih a.inv (fun e' he' => hes e' (List.mem_cons_of_mem _ he'))
    have heq : processEdges I o w false s (e :: es) =
        processEdges I o w false (maybeAddResult I o w false s e) es := rfl
    rw [heq]
    refine ⟨b.inv, a.step.trans O b.step, b.queue.trans a.queue, ?_⟩
    intro e' he' hn
    rcases List.mem_cons.1 he' with rfl | he'
    · exact (a.handled e' (by simp) (W.nearMono e' _ _ hn b.step.limit_le)).mono b.step.results_sub
    · exact b.handled e' he' hn

/-! ## The optimized path -/

/-- queued cells only hold edges of the index -/
def QSound (w : World D) (s : St D) : Prop :=
  ∀ kc ∈ s.queue, ∀ e ∈ edgesUnder kc.2, e ∈ w.allEdges

omit [DecidableEq D] in
theorem Reach.good {e : EdgeKey} {c : Cell D} (h : Reach Near e c) : GoodFor Near e c := by
  cases c with
  | index cd edges => rw [Reach] at h; exact h.2
  | node cd kids => rw [Reach] at h; exact h.1

/-- what `processOrEnqueue` guarantees for one cell / a list of cells; `P e` = the cell(s) start a witness
    path of `e` -/
structure PoeOut (I : DistI D) (o : Opts D) (w : World D) (Near : EdgeKey → D → Prop)
    (s s' : St D) (P : EdgeKey → Prop) : Prop where
  inv : Inv I o w s'
  step : Step I s s'
  qsound : QSound w s'
  queue_sub : ∀ kc ∈ s.queue, kc ∈ s'.queue
  cover : ∀ e ∈ w.allEdges, P e → Near e s'.limit → Done o w s' e ∨ Covered Near s' e

theorem enq_out (O : DistOrder I) {s : St D} (hs : Inv I o w s) (hq : QSound w s)
    {c : Cell D} (hc : ∀ e ∈ edgesUnder c, e ∈ w.allEdges) :
    PoeOut I o w Near s (enq s c) (fun e => Reach Near e c) := by
  unfold enq
  cases hcd : c.cd s.limit with
  | none =>
    refine ⟨hs, Step.refl O s, hq, fun _ h => h, ?_⟩
    intro e _ hr hn
    exact absurd hn ((hr.good s.limit).1 hcd)
  | some x =>
    refine ⟨hs.of_eq rfl rfl, ⟨O.irrefl _, fun _ h => h⟩, ?_, fun kc h => List.mem_append_left _ h, ?_⟩
    · intro kc hkc
      rcases List.mem_append.1 hkc with h | h
      · exact hq kc h
      · simp only [List.mem_singleton] at h; subst h; exact hc
    · intro e _ hr _
      exact Or.inr ⟨(x, c), by simp, hr, (hr.good s.limit).2 x hcd⟩

theorem poe_out (O : DistOrder I) (S1 : o.maxResults = 1 → SubLawsOn I w o.maxError)
    (W : SlackWorld I w Near) {s : St D} (hs : Inv I o w s) (hq : QSound w s)
    {c : Cell D} (hc : ∀ e ∈ edgesUnder c, e ∈ w.allEdges) :
    PoeOut I o w Near s (processOrEnqueue I o w false false s c) (fun e => Reach Near e c) := by
  rw [poe_eq]
  cases c with
  | node cd kids => exact enq_out O hs hq hc
  | index cd edges =>
    simp only
    split
    · rename_i h0
      have : edges = [] := by simpa using h0
      subst this
      refine ⟨hs, Step.refl O s, hq, fun _ h => h, ?_⟩
      intro e _ hr _
      rw [Reach] at hr
      exact absurd hr.1 (by simp)
    · split
      · have hes : ∀ e ∈ edges, e ∈ w.allEdges := fun e he => hc e (by simpa [edgesUnder] using he)
        have a := edges_step O S1 W edges hs hes
        refine ⟨a.inv, a.step, ?_, ?_, ?_⟩
        · intro kc hkc; rw [a.queue] at hkc; exact hq kc hkc
        · intro kc hkc; rw [a.queue]; exact hkc
        · intro e _ hr hn
          rw [Reach] at hr
          exact Or.inl (a.handled e hr.1 hn)
      · exact enq_out O hs hq hc

theorem Covered.mono {s s' : St D} {e : EdgeKey} (h : Covered Near s e)
    (hq : ∀ kc ∈ s.queue, kc ∈ s'.queue) : Covered Near s' e := by
  obtain ⟨kc, hkc, h1, h2⟩ := h
  exact ⟨kc, hq kc hkc, h1, h2⟩

/-- the loop over the children / the initial cells -/
theorem poe_fold (O : DistOrder I) (S1 : o.maxResults = 1 → SubLawsOn I w o.maxError)
    (W : SlackWorld I w Near) (cs : List (Cell D)) : ∀ {s : St D}, Inv I o w s → QSound w s →
    (∀ e ∈ edgesUnderList cs, e ∈ w.allEdges) →
    PoeOut I o w Near s (cs.foldl (processOrEnqueue I o w false false) s)
      (fun e => ReachList Near e cs) := by
  induction cs with
  | nil =>
    intro s hs hq _
    refine ⟨hs, Step.refl O s, hq, fun _ h => h, ?_⟩
    intro e _ hr _
    rw [ReachList] at hr
    exact hr.elim
  | cons c cs ih =>
    intro s hs hq hg
    have a := poe_out O S1 W hs hq (c := c) (fun e he => hg e (by simp [edgesUnderList, he]))
    have b := ih a.inv a.qsound (fun e he => hg e (by simp [edgesUnderList, he]))
    simp only [List.foldl_cons]
    refine ⟨b.inv, a.step.trans O b.step, b.qsound, fun kc h => b.queue_sub kc (a.queue_sub kc h), ?_⟩
    intro e he hr hn
    rw [ReachList] at hr
    rcases hr with hr | hr
    · rcases a.cover e he hr (W.nearMono e _ _ hn b.step.limit_le) with h | h
      · exact Or.inl (h.mono b.step.results_sub)
      · exact Or.inr (h.mono b.queue_sub)
    · exact b.cover e he hr hn

/-- the main loop -/
theorem searchLoop_out (O : DistOrder I) (S1 : o.maxResults = 1 → SubLawsOn I w o.maxError)
    (W : SlackWorld I w Near) : ∀ (fuel : Nat) (s s' : St D), Inv I o w s → QSound w s →
    Pending o w Near s → searchLoop I o w false false fuel s = some s' →
    Inv I o w s' ∧ Step I s s' ∧ Exit o w Near s' := by
  intro fuel
  induction fuel with
  | zero => intro s s' _ _ _ h; simp [searchLoop] at h
  | succ fuel ih =>
    intro s s' hs hq hc h
    unfold searchLoop at h
    split at h
    · rename_i hn
      have hq0 := popMin_none _ hn
      simp only [Option.some.injEq] at h
      subst h
      refine ⟨hs, Step.refl O s, ?_⟩
      intro e he hne
      rcases hc e he hne with hd | ⟨kc, hkc, _⟩
      · exact hd
      · rw [hq0] at hkc; cases hkc
    · rename_i k c rest hp
      obtain ⟨p1, p2, p3, p4⟩ := popMin_spec O _ _ _ hp
      simp only at h
      have hq' : QSound w { s with queue := rest } := fun kc hkc => hq kc (p2 kc hkc)
      have hs' : Inv I o w { s with queue := rest } := hs.of_eq rfl rfl
      split at h
      · -- the popped key is not within the limit: nothing queued is
        rename_i hnl
        have hnl' : I.less k s.limit = false := by simpa using hnl
        simp only [Option.some.injEq] at h
        subst h
        refine ⟨hs.of_eq rfl rfl, ⟨O.irrefl _, fun _ h => h⟩, ?_⟩
        intro e he hne
        rcases hc e he hne with hd | ⟨kc, hkc, _, hnk⟩
        · exact hd.mono (fun _ h => h)
        · have hk1 : I.less kc.1 k = false := p4 kc hkc
          exact absurd (W.nearMono e _ _ hne (ord_le_trans O hnl' hk1)) hnk
      · have hgc : ∀ e ∈ edgesUnder c, e ∈ w.allEdges := hq (k, c) p1
        split at h
        · -- an index cell: its edges are processed
          rename_i cd edges
          have hes : ∀ e ∈ edges, e ∈ w.allEdges :=
            fun e he => hgc e (by simpa [edgesUnder] using he)
          have a := edges_step O S1 W edges hs' hes
          have hq2 : QSound w (processEdges I o w false { s with queue := rest } edges) := by
            intro kc hkc; rw [a.queue] at hkc; exact hq' kc hkc
          have hc2 : Pending o w Near (processEdges I o w false { s with queue := rest } edges) := by
            intro e he hne
            have hn0 : Near e s.limit := W.nearMono e _ _ hne a.step.limit_le
            rcases hc e he hn0 with hd | ⟨kc, hkc, hr, hnk⟩
            · exact Or.inl (hd.mono a.step.results_sub)
            · rcases p3 kc hkc with rfl | hrest
              · rw [Reach] at hr
                exact Or.inl (a.handled e hr.1 hne)
              · exact Or.inr ⟨kc, by rw [a.queue]; exact hrest, hr, hnk⟩
          obtain ⟨r1, r2, r3⟩ := ih _ s' a.inv hq2 hc2 h
          exact ⟨r1, (Step.trans O (s1 := s) ⟨a.step.limit_le, a.step.results_sub⟩ r2), r3⟩
        · -- a proper ancestor: its children are processed or enqueued
          rename_i cd kids
          have a := poe_fold O S1 W kids hs' hq' (fun e he => hgc e (by simpa [edgesUnder] using he))
          have hc2 : Pending o w Near
              (kids.foldl (processOrEnqueue I o w false false) { s with queue := rest }) := by
            intro e he hne
            have hn0 : Near e s.limit := W.nearMono e _ _ hne a.step.limit_le
            rcases hc e he hn0 with hd | ⟨kc, hkc, hr, hnk⟩
            · exact Or.inl (hd.mono a.step.results_sub)
            · rcases p3 kc hkc with rfl | hrest
              · rw [Reach] at hr
                exact a.cover e he hr.2 hne
              · exact Or.inr ⟨kc, a.queue_sub kc hrest, hr, hnk⟩
          obtain ⟨r1, r2, r3⟩ := ih _ s' a.inv a.qsound hc2 h
          exact ⟨r1, (Step.trans O (s1 := s) ⟨a.step.limit_le, a.step.results_sub⟩ r2), r3⟩

/-! ## `initQueue`, `findEdgesOptimized`, `findEdgesInternal` -/

theorem Exit.pending {s : St D} (h : Exit o w Near s) : Pending o w Near s :=
  fun e he hn => Or.inl (h e he hn)

theorem exit_of_limit_zero (W : SlackWorld I w Near) {s : St D} (h : s.limit = I.zero) :
    Exit o w Near s := by
  intro e he hn
  rw [h] at hn
  exact absurd hn (W.zeroMin e he)

theorem initQueue_out (O : DistOrder I) (S1 : o.maxResults = 1 → SubLawsOn I w o.maxError)
    (W : SlackWorld I w Near) {s : St D} (hs : Inv I o w s) (hq0 : s.queue = []) :
    Inv I o w (initQueue I o w false false s) ∧ Step I s (initQueue I o w false false s) ∧
    QSound w (initQueue I o w false false s) ∧ Pending o w Near (initQueue I o w false false s) := by
  have qnil : ∀ s1 : St D, s1.queue = [] → QSound w s1 := by
    intro s1 hq kc hkc; rw [hq] at hkc; cases hkc
  have second : ∀ s1 : St D, Inv I o w s1 → s1.queue = [] →
      Inv I o w ((w.roots s1.limit).foldl (processOrEnqueue I o w false false) s1) ∧
      Step I s1 ((w.roots s1.limit).foldl (processOrEnqueue I o w false false) s1) ∧
      QSound w ((w.roots s1.limit).foldl (processOrEnqueue I o w false false) s1) ∧
      Pending o w Near ((w.roots s1.limit).foldl (processOrEnqueue I o w false false) s1) := by
    intro s1 hs1 hq
    have a := poe_fold O S1 W (w.roots s1.limit) hs1 (qnil s1 hq) (W.rootsSound _)
    refine ⟨a.inv, a.step, a.qsound, ?_⟩
    intro e he hn
    exact a.cover e he (W.reach _ e he (W.nearMono e _ _ hn a.step.limit_le)) hn
  unfold initQueue
  simp only [W.nonEmptyTarget, Bool.false_eq_true, if_false]
  by_cases h1 : o.maxResults = 1
  · simp only [h1, beq_self_eq_true, if_true, Bool.true_and]
    cases hl : w.located with
    | none =>
      simp only [Option.isSome_none, Bool.false_and, Bool.false_eq_true, if_false]
      exact second s hs hq0
    | some es =>
      simp only [Option.isSome_some, Bool.true_and]
      have a := edges_step O S1 W es hs (W.locatedSound es hl)
      split
      · rename_i hz
        have hz' : (processEdges I o w false s es).limit = I.zero := by simpa using hz
        exact ⟨a.inv, a.step, qnil _ (a.queue.trans hq0), (exit_of_limit_zero W hz').pending⟩
      · obtain ⟨b1, b2, b3, b4⟩ := second _ a.inv (a.queue.trans hq0)
        exact ⟨b1, a.step.trans O b2, b3, b4⟩
  · have hb : (o.maxResults == 1) = false := by simpa using h1
    simp only [hb, Bool.false_eq_true, if_false, Bool.false_and]
    exact second s hs hq0

theorem optimized_out (O : DistOrder I) (S1 : o.maxResults = 1 → SubLawsOn I w o.maxError)
    (W : SlackWorld I w Near) {s s' : St D} (hs : Inv I o w s) (hq0 : s.queue = [])
    (h : findEdgesOptimized I o w false false s = some s') :
    Inv I o w s' ∧ Step I s s' ∧ Exit o w Near s' := by
  obtain ⟨a1, a2, a3, a4⟩ := initQueue_out O S1 W hs hq0
  obtain ⟨b1, b2, b3⟩ := searchLoop_out O S1 W _ _ _ a1 a3 a4 h
  exact ⟨b1, a2.trans O b2, b3⟩

theorem brute_step (O : DistOrder I) (S1 : o.maxResults = 1 → SubLawsOn I w o.maxError)
    (W : SlackWorld I w Near) {s : St D} (hs : Inv I o w s) :
    Inv I o w (findEdgesBruteForce I o w s) ∧ Step I s (findEdgesBruteForce I o w s) ∧
    Exit o w Near (findEdgesBruteForce I o w s) := by
  have a := edges_step O S1 W w.allEdges hs (fun _ h => h)
  exact ⟨a.inv, a.step, a.handled⟩

/-- the loop over the containing shapes -/
theorem interiors_fold (O : DistOrder I) (S1 : o.maxResults = 1 → SubLawsOn I w o.maxError)
    (hi : o.includeInteriors = true) (l : List Int) :
    ∀ {s : St D}, Inv I o w s → (∀ r ∈ s.results, r.dist = I.zero) → (∀ sh ∈ l, sh ∈ w.interiors) →
    Inv I o w (l.foldl (fun s sh => addResult I o s ⟨I.zero, sh, -1⟩) s) ∧
    (l.foldl (fun s sh => addResult I o s ⟨I.zero, sh, -1⟩) s).queue = s.queue ∧
    (∀ sh ∈ l, (⟨I.zero, sh, -1⟩ : Result D) ∈
      (l.foldl (fun s sh => addResult I o s ⟨I.zero, sh, -1⟩) s).results) ∧
    (∀ r ∈ s.results, r ∈ (l.foldl (fun s sh => addResult I o s ⟨I.zero, sh, -1⟩) s).results) := by
  induction l with
  | nil => intro s hs _ _; exact ⟨hs, rfl, by simp, fun _ h => h⟩
  | cons sh l ih =>
    intro s hs hz hl
    simp only [List.foldl_cons]
    have hint : (o.includeInteriors = true ∧ (⟨I.zero, sh, -1⟩ : Result D).dist = I.zero ∧
        (⟨I.zero, sh, -1⟩ : Result D).edge = -1 ∧ (⟨I.zero, sh, -1⟩ : Result D).shape ∈ w.interiors) :=
      ⟨hi, rfl, rfl, hl sh (by simp)⟩
    have hs1 : Inv I o w (addResult I o s ⟨I.zero, sh, -1⟩) := by
      refine add_inv O hs (Or.inl hint) (fun _ => Or.inl hint) ?_ ?_
      · intro _ r' hr'; rw [hz r' hr']; exact O.irrefl _
      · intro h1; exact Or.inr (S1 h1).sub_zero
    have hz1 : ∀ r ∈ (addResult I o s ⟨I.zero, sh, -1⟩).results, r.dist = I.zero := by
      rw [add_results]
      intro r hr
      rcases List.mem_append.1 hr with h | h
      · exact hz r h
      · simp only [List.mem_singleton] at h; subst h; rfl
    obtain ⟨b1, b2, b3, b4⟩ := ih hs1 hz1 (fun x hx => hl x (List.mem_cons_of_mem _ hx))
    refine ⟨b1, ?_, ?_, ?_⟩
    · rw [b2, addResult_queue]
    · intro sh' hsh'
      rcases List.mem_cons.1 hsh' with rfl | h
      · apply b4; rw [add_results]; simp
      · exact b3 sh' h
    · intro r hr
      apply b4
      rw [add_results]; exact List.mem_append_left _ hr

/-- everything the theorems need of the final state -/
structure Final (I : DistI D) (o : Opts D) (w : World D) (Near : EdgeKey → D → Prop) (s : St D) : Prop where
  inv : Inv I o w s
  exit : Exit o w Near s
  interior : o.includeInteriors = true → o.distanceLimit ≠ I.zero →
    ∀ sh ∈ w.interiors, (⟨I.zero, sh, -1⟩ : Result D) ∈ s.results
  zero_nil : o.distanceLimit = I.zero → s.results = []

theorem internal_final (O : DistOrder I) (S1 : o.maxResults = 1 → SubLawsOn I w o.maxError)
    (W : SlackWorld I w Near) (hU : o.targetUsesMaxError = false) {s : St D}
    (hT : findEdgesInternal I o w = some s) : Final I o w Near s := by
  have hs0 : Inv I o w { limit := o.distanceLimit, results := [], tested := [], queue := [] } :=
    ⟨Or.inl (O.irrefl _), fun _ => rfl, by simp, by simp, fun _ => rfl, fun _ h => absurd rfl h⟩
  unfold findEdgesInternal at hT
  simp only [hU, Bool.and_false, Bool.false_and] at hT
  split at hT
  · rename_i hz
    have hz' : o.distanceLimit = I.zero := by simpa using hz
    simp only [Option.some.injEq] at hT
    subst hT
    exact ⟨hs0, exit_of_limit_zero W hz', fun _ h => absurd hz' h, fun _ => rfl⟩
  · rename_i hz
    have hne : o.distanceLimit ≠ I.zero := by simpa using hz
    -- the state after the containing shapes
    have hs1 : ∃ s1 : St D, s1 = (if o.includeInteriors then
          w.interiors.foldl (fun s sh => addResult I o s ⟨I.zero, sh, -1⟩)
            { limit := o.distanceLimit, results := [], tested := [], queue := [] }
        else { limit := o.distanceLimit, results := [], tested := [], queue := [] }) ∧
        Inv I o w s1 ∧ s1.queue = [] ∧
        (o.includeInteriors = true → ∀ sh ∈ w.interiors, (⟨I.zero, sh, -1⟩ : Result D) ∈ s1.results) := by
      refine ⟨_, rfl, ?_⟩
      cases hi : o.includeInteriors with
      | false => exact ⟨hs0, rfl, fun h => by cases h⟩
      | true =>
        simp only [if_true]
        obtain ⟨a1, a2, a3, _⟩ := interiors_fold O S1 hi w.interiors hs0 (by simp) (fun _ h => h)
        exact ⟨a1, a2, fun _ => a3⟩
    obtain ⟨s1, hs1eq, i1, i2, i3⟩ := hs1
    rw [← hs1eq] at hT
    have fin : ∀ s' : St D, Inv I o w s' → Step I s1 s' → Exit o w Near s' → Final I o w Near s' := by
      intro s' a b c
      refine ⟨a, c, ?_, fun h => absurd h hne⟩
      intro hi _ sh hsh
      exact b.results_sub _ (i3 hi sh hsh)
    split at hT
    · rename_i hz2
      simp only [Option.some.injEq] at hT
      subst hT
      have : s1.limit = I.zero := by
        simp only [Bool.and_eq_true, beq_iff_eq] at hz2; exact hz2.2
      exact fin _ i1 (Step.refl O _) (exit_of_limit_zero W this)
    · split at hT
      · simp only [Option.some.injEq] at hT
        subst hT
        obtain ⟨a, b, c⟩ := brute_step O S1 W i1
        exact fin _ a b c
      · obtain ⟨a, b, c⟩ := optimized_out O S1 W i1 i2 hT
        exact fin _ a b c

/-! ## The theorems -/

/-- MaxResults = 1, either path.
    Two repairs of the first draft of this statement (both drafts refuted by Lean-checked worlds over
    `D = Int`, `less = (<)`, `zero = 5`, `sub a e = a - e`, `Near = False`, brute force, one interior shape):
    * `hL` (the option's limit is not below `zero`) is needed for the soundness conjunct: with
      `distanceLimit = 3 < zero` the interior result moves the limit UP to `sub zero err = 4` and the edge value
      `3` is returned;
    * the last conjunct only says the reported distance is not above `zero` (nothing forces edge values to be
      `≥ zero`: with `distanceLimit = 10` the edge value `0 < sub zero err = 4` replaces the interior result). -/
theorem slack_single_on (O : DistOrder I) (S : SubLawsOn I w o.maxError) (W : SlackWorld I w Near)
    (h1 : o.maxResults = 1) (hU : o.targetUsesMaxError = false)
    (hL : I.less o.distanceLimit I.zero = false) {rs : List (Result D)}
    (h : findEdges I o w = some rs) :
    rs.length ≤ 1 ∧ (∀ r ∈ rs, SoundResult I o w r) ∧
    (∀ r ∈ rs, ∀ e ∈ w.allEdges, ¬ Near e (I.sub r.dist o.maxError)) ∧
    (rs = [] → ∀ e ∈ w.allEdges, ¬ Near e o.distanceLimit) ∧
    (o.includeInteriors = true → w.interiors ≠ [] → o.distanceLimit ≠ I.zero →
      ∃ r ∈ rs, I.less I.zero r.dist = false) := by
  obtain ⟨s, hs, hrs⟩ := findEdges_some h
  have F := internal_final O (fun _ => S) W hU hs
  rw [h1] at hrs
  have hex : ∀ e ∈ w.allEdges, ¬ Near e s.limit := fun e he hn => (F.exit e he hn).1 h1
  rcases postProcess_one O s.results with ⟨a, b⟩ | ⟨m, a, b, c⟩
  · have hnil : rs = [] := hrs.trans b
    subst hnil
    refine ⟨by simp, by simp, by simp, ?_, ?_⟩
    · intro _ e he
      rw [← F.inv.nil_limit a]; exact hex e he
    · intro hi hne hz
      obtain ⟨sh, hsh⟩ := List.exists_mem_of_ne_nil _ hne
      have := F.interior hi hz sh hsh
      rw [a] at this; cases this
  · have hm : rs = [m] := hrs.trans a
    subst hm
    refine ⟨by simp, ?_, ?_, by simp, ?_⟩
    · intro r hr
      simp only [List.mem_singleton] at hr; subst hr
      rcases F.inv.sound r b with hint | ⟨e, he, h2, h3, lim, hu, hlim⟩
      · exact Or.inl hint
      · have hle : I.less o.distanceLimit lim = false := by
          rcases hlim with hl | hl
          · exact hl
          · exact ord_le_trans O hl hL
        exact Or.inr ⟨e, he, h2, h3, ⟨lim, hu, hle⟩,
          ord_lt_of_lt_of_le O (W.edgeLt e he _ _ hu) hle⟩
    · intro r hr e he
      simp only [List.mem_singleton] at hr; subst hr
      obtain ⟨l, hl, hlim, hlmin⟩ := F.inv.last h1 (List.ne_nil_of_mem b)
      have : r.dist = l.dist := ord_eq_of_le_le O (hlmin r b) (c l hl)
      rw [this, ← hlim]
      exact hex e he
    · intro hi hne hz
      obtain ⟨sh, hsh⟩ := List.exists_mem_of_ne_nil _ hne
      exact ⟨m, by simp, c _ (F.interior hi hz sh hsh)⟩

/-- `slack_single_on` under the (stronger) law `SubLaws` for ALL values of the distance type — the original statement of
    package c08world.  `ChordAngle.Sub` satisfies `SubLaws` only for MaxError = 0; for MaxError ≠ 0 use `slack_single_on`
    with `SubLawsOn` (the law restricted to the values `updateDistanceToEdge` returns and to zero). -/
theorem slack_single (O : DistOrder I) (S : SubLaws I o.maxError) (W : SlackWorld I w Near)
    (h1 : o.maxResults = 1) (hU : o.targetUsesMaxError = false)
    (hL : I.less o.distanceLimit I.zero = false) {rs : List (Result D)}
    (h : findEdges I o w = some rs) :
    rs.length ≤ 1 ∧ (∀ r ∈ rs, SoundResult I o w r) ∧
    (∀ r ∈ rs, ∀ e ∈ w.allEdges, ¬ Near e (I.sub r.dist o.maxError)) ∧
    (rs = [] → ∀ e ∈ w.allEdges, ¬ Near e o.distanceLimit) ∧
    (o.includeInteriors = true → w.interiors ≠ [] → o.distanceLimit ≠ I.zero →
      ∃ r ∈ rs, I.less I.zero r.dist = false) :=
  slack_single_on O S.on W h1 hU hL h

/-- MaxResults ≠ 1, either path: the raw results are interior results / edges of the index with the value
    computed at the option's limit, and every `Near` edge is among them -/
theorem slack_multi_internal (O : DistOrder I) (W : SlackWorld I w Near)
    (hk : o.maxResults ≠ 1) (hU : o.targetUsesMaxError = false) {s : St D}
    (h : findEdgesInternal I o w = some s) :
    (∀ r ∈ s.results, RawOK I o w r) ∧
    (∀ e ∈ w.allEdges, Near e o.distanceLimit →
      ∃ x, w.updEdge e o.distanceLimit = some x ∧ (⟨x, e.shape, e.edge⟩ : Result D) ∈ s.results) ∧
    (o.includeInteriors = true → o.distanceLimit ≠ I.zero →
      ∀ sh ∈ w.interiors, (⟨I.zero, sh, -1⟩ : Result D) ∈ s.results) := by
  have F := internal_final O (fun h => absurd h hk) W hU h
  refine ⟨F.inv.raw hk, ?_, F.interior⟩
  intro e he hn
  rw [← F.inv.limConst hk] at hn
  exact (F.exit e he hn).2

/-! ### the brute-force scan as a plain computation -/

theorem interiors_eq (hk : o.maxResults ≠ 1) (l : List Int) : ∀ s : St D,
    l.foldl (fun s sh => addResult I o s ⟨I.zero, sh, -1⟩) s =
      { s with results := s.results ++ l.map (fun sh => (⟨I.zero, sh, -1⟩ : Result D)) } := by
  induction l with
  | nil => intro s; simp
  | cons sh l ih =>
    intro s
    simp only [List.foldl_cons]
    rw [ih, addResult_ne hk]
    simp

theorem processEdges_eq (hk : o.maxResults ≠ 1) (es : List EdgeKey) : ∀ s : St D,
    processEdges I o w false s es =
      { s with results := s.results ++ es.filterMap (fun e =>
          (w.updEdge e s.limit).map (fun x => (⟨x, e.shape, e.edge⟩ : Result D))) } := by
  induction es with
  | nil => intro s; simp [processEdges]
  | cons e es ih =>
    intro s
    show processEdges I o w false (maybeAddResult I o w false s e) es = _
    rw [ih, Approx.maybeAdd_false]
    cases hu : w.updEdge e s.limit with
    | none => simp [hu]
    | some x => simp [hu, addResult_ne hk]

set_option linter.unusedVariables false in
/-- the brute-force scan, MaxResults ≠ 1: no hypothesis on the world at all (`hU` is not needed: the scan
    never looks at `avoidDuplicates` / the conservative cell distance) -/
theorem brute_multi_internal (hk : o.maxResults ≠ 1) (hU : o.targetUsesMaxError = false)
    (hb : o.useBruteForce = true ∨ w.small = true) (hz : o.distanceLimit ≠ I.zero) {s : St D}
    (h : findEdgesInternal I o w = some s) :
    ∀ r, r ∈ s.results ↔
      ((o.includeInteriors = true ∧ r.dist = I.zero ∧ r.edge = -1 ∧ r.shape ∈ w.interiors) ∨
       (∃ e ∈ w.allEdges, r = ⟨r.dist, e.shape, e.edge⟩ ∧ w.updEdge e o.distanceLimit = some r.dist)) := by
  have hz' : (o.distanceLimit == I.zero) = false := by simpa using hz
  have hb' : (o.useBruteForce || w.small) = true := by simpa using hb
  unfold findEdgesInternal at h
  simp only [hz', hb', Bool.false_eq_true, if_false, if_true] at h
  cases hi : o.includeInteriors with
  | false =>
    simp only [hi, Bool.false_eq_true, if_false, Bool.false_and, Option.some.injEq] at h
    subst h
    intro r
    rw [findEdgesBruteForce, processEdges_eq hk]
    simp only [List.nil_append]
    constructor
    · intro hm
      rcases List.mem_filterMap.1 hm with ⟨e, he, hmap⟩
      rcases Option.map_eq_some_iff.1 hmap with ⟨x, hx, rfl⟩
      exact Or.inr ⟨e, he, rfl, hx⟩
    · rintro (⟨hf, _⟩ | ⟨e, he, hr, hx⟩)
      · cases hf
      · refine List.mem_filterMap.2 ⟨e, he, ?_⟩
        show Option.map _ (w.updEdge e o.distanceLimit) = some r
        rw [hx, Option.map_some]
        exact congrArg some hr.symm
  | true =>
    simp only [hi, if_true, Bool.true_and, interiors_eq hk, hz', Bool.false_eq_true, if_false,
      Option.some.injEq] at h
    subst h
    intro r
    rw [findEdgesBruteForce, processEdges_eq hk]
    simp only [List.nil_append, List.mem_append]
    constructor
    · rintro (hm | hm)
      · rcases List.mem_map.1 hm with ⟨sh, hsh, rfl⟩
        exact Or.inl ⟨trivial, rfl, rfl, hsh⟩
      · rcases List.mem_filterMap.1 hm with ⟨e, he, hmap⟩
        rcases Option.map_eq_some_iff.1 hmap with ⟨x, hx, rfl⟩
        exact Or.inr ⟨e, he, rfl, hx⟩
    · rintro (⟨_, h0, h1, hsh⟩ | ⟨e, he, hr, hx⟩)
      · refine Or.inl (List.mem_map.2 ⟨r.shape, hsh, ?_⟩)
        obtain ⟨rd, rs, re⟩ := r
        simp only at h0 h1
        subst h0 h1
        rfl
      · refine Or.inr (List.mem_filterMap.2 ⟨e, he, ?_⟩)
        show Option.map _ (w.updEdge e o.distanceLimit) = some r
        rw [hx, Option.map_some]
        exact congrArg some hr.symm

/-- answer level, MaxResults ≠ 1: the answer is the post-processed raw list; every member is `RawOK`; a `Near`
    edge is reported, or the answer is full and every reported entry precedes the edge's entry -/
theorem slack_multi (O : DistOrder I) (W : SlackWorld I w Near)
    (hk : o.maxResults ≠ 1) (hU : o.targetUsesMaxError = false) {rs : List (Result D)}
    (h : findEdges I o w = some rs) :
    rs.length ≤ o.maxResults ∧
    rs.Pairwise (fun a b => Result.less I a b = true) ∧
    (∀ r ∈ rs, RawOK I o w r) ∧
    (∀ e ∈ w.allEdges, Near e o.distanceLimit →
      ∃ x, w.updEdge e o.distanceLimit = some x ∧
        ((⟨x, e.shape, e.edge⟩ : Result D) ∈ rs ∨
         (rs.length = o.maxResults ∧ ∀ a ∈ rs, Result.less I a ⟨x, e.shape, e.edge⟩ = true))) := by
  obtain ⟨s, hs, hrs⟩ := findEdges_some h
  obtain ⟨m1, m2, _⟩ := slack_multi_internal O W hk hU hs
  subst hrs
  refine ⟨post_length_le _ _ _, post_sorted O _ _, fun r hr => m1 r (post_mem _ _ _ r hr), ?_⟩
  intro e he hn
  obtain ⟨x, hx, hm⟩ := m2 e he hn
  refine ⟨x, hx, ?_⟩
  by_cases hin : (⟨x, e.shape, e.edge⟩ : Result D) ∈ postProcess I o.maxResults s.results
  · exact Or.inl hin
  · right
    refine ⟨?_, fun a ha => post_kbest O _ _ a ha _ hm hin⟩
    rw [post_eq_take] at hin ⊢
    have hmem := (sortAndUnique_mem I s.results _).2 hm
    have hlt : o.maxResults < (sortAndUniqueResults I s.results).length := by
      apply Classical.byContradiction
      intro hge
      rw [List.take_of_length_le (Nat.le_of_not_lt hge)] at hin
      exact hin hmem
    rw [List.length_take]
    omega

end Slack
end S2Proofs.EdgeQuery
