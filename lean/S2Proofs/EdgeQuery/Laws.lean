/-
  S2Proofs.EdgeQuery.Laws — the order laws the C08 theorems assume of a `distance` type, and the
  proof that the two instantiations `minDist` / `maxDist` satisfy them (non-vacuity).
-/
import S2.EdgeQueryM
open S2 S2.EdgeQueryM
namespace S2Proofs.EdgeQuery

/-- `less` is a strict total order. -/
structure DistOrder {D : Type} (I : DistI D) : Prop where
  irrefl : ∀ a, I.less a a = false
  trans : ∀ a b c, I.less a b = true → I.less b c = true → I.less a c = true
  tri : ∀ a b, a ≠ b → I.less a b = true ∨ I.less b a = true

theorem minDist_order (top : Int) : DistOrder (minDist top) where
  irrefl a := by simp [minDist]
  trans a b c := by simp only [minDist, decide_eq_true_eq]; omega
  tri a b := by simp only [minDist, decide_eq_true_eq]; omega

theorem maxDist_order (top : Int) : DistOrder (maxDist top) where
  irrefl a := by simp [maxDist]
  trans a b c := by simp only [maxDist, decide_eq_true_eq]; omega
  tri a b := by simp only [maxDist, decide_eq_true_eq]; omega

/-- what the search needs of `sub · err`: it never increases a value. -/
structure SubLaws {D : Type} (I : DistI D) (err : D) : Prop where
  sub_le : ∀ a, I.less a (I.sub a err) = false

theorem minDist_sub (top err : Int) (h : 0 ≤ err) : SubLaws (minDist top) err where
  sub_le a := by
    simp only [minDist, decide_eq_false_iff_not]
    repeat' split
    all_goals omega

theorem maxDist_sub (top err : Int) (h : 0 ≤ err) : SubLaws (maxDist top) err where
  sub_le a := by
    simp only [maxDist, decide_eq_false_iff_not]
    repeat' split
    all_goals omega

end S2Proofs.EdgeQuery
