/-
  S2Proofs.EdgeQuery.PointWorldEx — NON-VACUITY of the hypotheses `EdgesOK` / `IndexOK` of
  `S2Proofs.EdgeQuery.PointWorld` (package c08world): a concrete index on cube face 0 with a real tree

      fromFace 0 (node) ── child 0  (uv ∈ [-1,0]×[-1,0])  lists edge 1
                        └─ child 2  (uv ∈ [ 0,1]×[ 0,1])  lists edge 0

  edge 0 = (1,0,0) → (2/3,2/3,1/3),  edge 1 = (2/3,−2/3,−1/3) → (2/3,−1/3,−2/3),  target (1/3,2/3,2/3)
  (all thirds rounded to float64).  Each edge lies entirely in (the exact region of) its index cell, so the point
  of the arc closest to the target does, too (`arc_in_cell`).
-/
import S2Proofs.EdgeQuery.PointWorld
import Mathlib.Tactic.NormNum
import Mathlib.Tactic.Linarith
import Mathlib.Tactic.Ring

set_option linter.unusedSimpArgs false
set_option linter.unusedVariables false

namespace S2Proofs.C08World.Ex
open S2 S2.Exact S2.CellID S2.CellM S2.EdgeNum S2.EdgeQueryM S2Proofs.F64Order S2Proofs.FloatErr S2Proofs.EdgeQuery
open S2Proofs.C17Err S2Proofs.C17 S2Proofs.C12Dist

/-! ## the data -/

/-- 2/3, 1/3 rounded to float64 and their negatives -/
def t23 : F64 := ⟨0x3FE5555555555555⟩
def t13 : F64 := ⟨0x3FD5555555555555⟩
def m23 : F64 := ⟨0xBFE5555555555555⟩
def m13 : F64 := ⟨0xBFD5555555555555⟩

/-- edge 0: (1,0,0) → (2/3,2/3,1/3)  (u,v ∈ [0,1]) -/
def a0 : V3 := ⟨F64.one, fz, fz⟩
def b0 : V3 := ⟨t23, t23, t13⟩
/-- edge 1: (2/3,−2/3,−1/3) → (2/3,−1/3,−2/3)  (u,v ∈ [−1,0]) -/
def a1 : V3 := ⟨t23, m23, m13⟩
def b1 : V3 := ⟨t23, m13, m23⟩
/-- the target (1/3,2/3,2/3) -/
def exP : V3 := ⟨t13, t23, t23⟩

def e0 : EdgeKey := ⟨0, 0⟩
def e1 : EdgeKey := ⟨0, 1⟩

def exVerts : List (Int × (V3 × V3)) := [(0, (a0, b0)), (1, (a1, b1))]

/-- the face cell and the two index cells -/
def cRoot : CellID := fromFace 0
def cNeg : CellID := child (fromFace 0) 0
def cPos : CellID := child (fromFace 0) 2

def exIdx : PointIndex where
  p := exP
  vert e := (exVerts.lookup e.edge).getD (a0, b0)
  allEdges := [e0, e1]
  ix := [(cNeg, [e1]), (cPos, [e0])]
  rootIds := fun _ => [cRoot]
  depth := 30
  interiors := []
  located := none
  small := false

theorem vert_e0 : exIdx.vert e0 = (a0, b0) := rfl
theorem vert_e1 : exIdx.vert e1 = (a1, b1) := rfl

/-! ## `EdgesOK` -/

theorem intFacts : UnitPtZ exP ∧ UnitPtZ a0 ∧ UnitPtZ b0 ∧ UnitPtZ a1 ∧ UnitPtZ b1 ∧
    EdgeOKZ a0 b0 ∧ EdgeOKZ a1 b1 ∧ WedgeMarginZ exP a0 b0 ∧ WedgeMarginZ exP a1 b1 := by decide +kernel

theorem unit_p : UnitPt exP := unitPt_of_int intFacts.1
theorem unit_a0 : UnitPt a0 := unitPt_of_int intFacts.2.1
theorem unit_b0 : UnitPt b0 := unitPt_of_int intFacts.2.2.1
theorem unit_a1 : UnitPt a1 := unitPt_of_int intFacts.2.2.2.1
theorem unit_b1 : UnitPt b1 := unitPt_of_int intFacts.2.2.2.2.1

theorem mem_allEdges {e : EdgeKey} (he : e ∈ exIdx.allEdges) : e = e0 ∨ e = e1 := by
  simpa [exIdx] using he

theorem ex_edgesOK : EdgesOK exIdx where
  target := unit_p
  v0 e he := by
    rcases mem_allEdges he with rfl | rfl
    · rw [vert_e0]; exact unit_a0
    · rw [vert_e1]; exact unit_a1
  v1 e he := by
    rcases mem_allEdges he with rfl | rfl
    · rw [vert_e0]; exact unit_b0
    · rw [vert_e1]; exact unit_b1
  edgeOK e he := by
    rcases mem_allEdges he with rfl | rfl
    · rw [vert_e0]; exact edgeOK_of_int intFacts.2.2.2.2.2.1
    · rw [vert_e1]; exact edgeOK_of_int intFacts.2.2.2.2.2.2.1
  margin e he := by
    rcases mem_allEdges he with rfl | rfl
    · rw [vert_e0]; exact wedgeMargin_of_int _ _ _ unit_p unit_a0 unit_b0 intFacts.2.2.2.2.2.2.2.1
    · rw [vert_e1]; exact wedgeMargin_of_int _ _ _ unit_p unit_a1 unit_b1 intFacts.2.2.2.2.2.2.2.2

/-! ## a great-circle arc with both endpoints in a cell lies in the cell -/

/-- the HOMOGENEOUS cell inequalities (face frame): no normalisation needed -/
def HomIn (r : RRect) (q : S2Proofs.C16Acc.R3) : Prop :=
  0 < q.z ∧ r.u0 * q.z ≤ q.x ∧ q.x ≤ r.u1 * q.z ∧ r.v0 * q.z ≤ q.y ∧ q.y ≤ r.v1 * q.z

/-- the cone `HomIn` is convex: a non-negative combination of unit length is a point of the cell -/
theorem comb_in_cell (r : RRect) (A B : S2Proofs.C16Acc.R3) (hA : HomIn r A) (hB : HomIn r B) (s t : ℝ)
    (hs : 0 ≤ s) (ht : 0 ≤ t)
    (h1 : (⟨s * A.x + t * B.x, s * A.y + t * B.y, s * A.z + t * B.z⟩ : S2Proofs.C16Acc.R3).norm2 = 1) :
    InCell r ⟨s * A.x + t * B.x, s * A.y + t * B.y, s * A.z + t * B.z⟩ := by
  obtain ⟨a0, a1, a2, a3, a4⟩ := hA
  obtain ⟨b0, b1, b2, b3, b4⟩ := hB
  have hz : 0 < s * A.z + t * B.z := by
    rcases hs.lt_or_eq with hs' | hs'
    · have := mul_pos hs' a0
      have := mul_nonneg ht b0.le
      linarith
    · rcases ht.lt_or_eq with ht' | ht'
      · have := mul_pos ht' b0
        have := mul_nonneg hs a0.le
        linarith
      · exfalso
        subst hs' ht'
        unfold S2Proofs.C16Acc.R3.norm2 at h1
        norm_num at h1
  refine ⟨h1, hz, ?_, ?_, ?_, ?_⟩ <;> simp only
  · have := mul_le_mul_of_nonneg_left a1 hs
    have := mul_le_mul_of_nonneg_left b1 ht
    linarith
  · have := mul_le_mul_of_nonneg_left a2 hs
    have := mul_le_mul_of_nonneg_left b2 ht
    linarith
  · have := mul_le_mul_of_nonneg_left a3 hs
    have := mul_le_mul_of_nonneg_left b3 ht
    linarith
  · have := mul_le_mul_of_nonneg_left a4 hs
    have := mul_le_mul_of_nonneg_left b4 ht
    linarith

theorem uvwR_comb (f : Nat) (s t : ℝ) (a b : C17Err.R3) :
    uvwR f (toAcc (C17Err.R3.comb s a t b)) =
      ⟨s * (uvwR f (toAcc a)).x + t * (uvwR f (toAcc b)).x, s * (uvwR f (toAcc a)).y + t * (uvwR f (toAcc b)).y,
       s * (uvwR f (toAcc a)).z + t * (uvwR f (toAcc b)).z⟩ := by
  unfold uvwR toAcc C17Err.R3.comb
  split <;> (ext <;> simp <;> ring)

/-- **an arc whose endpoints satisfy the homogeneous cell inequalities in the face frame lies in the cell** -/
theorem arc_in_cell (r : RRect) (f : Nat) (a b Q : C17Err.R3) (ha : HomIn r (uvwR f (toAcc a)))
    (hb : HomIn r (uvwR f (toAcc b))) (hQ : OnArc a b Q) : InCell r (uvwR f (toAcc Q)) := by
  obtain ⟨s, t, hs, ht, rfl, h1⟩ := hQ
  have hn : (uvwR f (toAcc (C17Err.R3.comb s a t b))).norm2 = 1 := by
    rw [uvwR_norm2, ← h1]
    unfold toAcc S2Proofs.C16Acc.R3.norm2 C17Err.R3.n2 C17Err.R3.dot; ring
  rw [uvwR_comb] at hn ⊢
  exact comb_in_cell r _ _ ha hb s t hs ht hn

/-! ## the three cells and the endpoints as literals -/

def cellRoot : Cell :=
  { face := 0, level := 0, orientation := 0, id := cRoot, uv := ((negOne, F64.one), (negOne, F64.one)) }
def cellNeg : Cell :=
  { face := 0, level := 1, orientation := 1, id := cNeg, uv := ((negOne, fzero), (negOne, fzero)) }
def cellPos : Cell :=
  { face := 0, level := 1, orientation := 0, id := cPos, uv := ((fzero, F64.one), (fzero, F64.one)) }

theorem isCell_root : IsCell cRoot 0 := ⟨by decide, by decide, by decide⟩
theorem isCell_neg : IsCell cNeg 1 := ⟨by decide, by decide, by decide⟩
theorem isCell_pos : IsCell cPos 1 := ⟨by decide, by decide, by decide⟩

theorem cellRoot_eq : cellFromCellID cRoot = cellRoot := by
  rw [S2Proofs.C12C.cellFromCellID_eq isCell_root]; decide +kernel
theorem cellNeg_eq : cellFromCellID cNeg = cellNeg := by
  rw [S2Proofs.C12C.cellFromCellID_eq isCell_neg]; decide +kernel
theorem cellPos_eq : cellFromCellID cPos = cellPos := by
  rw [S2Proofs.C12C.cellFromCellID_eq isCell_pos]; decide +kernel

/-- the exact value of a float from its integer `toInt x = m·2^k` (local copy: the lemma of this name moved between
    `C12Dist/Counter.lean` and `C12Dist/Branches.lean` with package d58fix) -/
theorem exVal_of_toInt {x : F64} {m : ℤ} {k j : ℕ} (h : S2.Exact.toInt x = m * 2 ^ k) (hkj : 1074 = k + j) :
    val x = (m : ℝ) / 2 ^ j := by
  unfold val
  rw [h, hkj, pow_add]
  push_cast
  field_simp

theorem val_one : val F64.one = 1 := by
  have h : toInt F64.one = 1 * 2 ^ 1074 := by decide +kernel
  rw [exVal_of_toInt (j := 0) h (by norm_num)]; push_cast; ring
theorem val_negOne : val negOne = -1 := by
  have h : toInt negOne = -1 * 2 ^ 1074 := by decide +kernel
  rw [exVal_of_toInt (j := 0) h (by norm_num)]; push_cast; ring
theorem val_zero : val fzero = 0 := by
  have h : toInt fzero = 0 * 2 ^ 1074 := by decide +kernel
  rw [exVal_of_toInt (j := 0) h (by norm_num)]; push_cast; ring
theorem val_fz : val fz = 0 := val_zero
theorem val_t23 : val t23 = 6004799503160661 / 2 ^ 53 := by
  have h : toInt t23 = 6004799503160661 * 2 ^ 1021 := by decide +kernel
  rw [exVal_of_toInt (j := 53) h (by norm_num)]; push_cast; ring
theorem val_t13 : val t13 = 6004799503160661 / 2 ^ 54 := by
  have h : toInt t13 = 6004799503160661 * 2 ^ 1020 := by decide +kernel
  rw [exVal_of_toInt (j := 54) h (by norm_num)]; push_cast; ring
theorem val_m23 : val m23 = -6004799503160661 / 2 ^ 53 := by
  have h : toInt m23 = -6004799503160661 * 2 ^ 1021 := by decide +kernel
  rw [exVal_of_toInt (j := 53) h (by norm_num)]; push_cast; ring
theorem val_m13 : val m13 = -6004799503160661 / 2 ^ 54 := by
  have h : toInt m13 = -6004799503160661 * 2 ^ 1020 := by decide +kernel
  rw [exVal_of_toInt (j := 54) h (by norm_num)]; push_cast; ring

/-- the rectangles of the three cells -/
noncomputable def RRoot : RRect := ⟨-1, 1, -1, 1⟩
noncomputable def RNeg : RRect := ⟨-1, 0, -1, 0⟩
noncomputable def RPos : RRect := ⟨0, 1, 0, 1⟩

theorem rectRoot : rectOf cellRoot = RRoot := by
  show (⟨val negOne, val F64.one, val negOne, val F64.one⟩ : RRect) = _
  rw [val_negOne, val_one]; rfl
theorem rectNeg : rectOf cellNeg = RNeg := by
  show (⟨val negOne, val fzero, val negOne, val fzero⟩ : RRect) = _
  rw [val_negOne, val_zero]; rfl
theorem rectPos : rectOf cellPos = RPos := by
  show (⟨val fzero, val F64.one, val fzero, val F64.one⟩ : RRect) = _
  rw [val_zero, val_one]; rfl

theorem vec_a0 : vecR a0 = ⟨1, 0, 0⟩ := by
  show (⟨val F64.one, val fz, val fz⟩ : C17Err.R3) = _
  rw [val_one, val_fz]
theorem vec_b0 : vecR b0 = ⟨6004799503160661 / 2 ^ 53, 6004799503160661 / 2 ^ 53, 6004799503160661 / 2 ^ 54⟩ := by
  show (⟨val t23, val t23, val t13⟩ : C17Err.R3) = _
  rw [val_t23, val_t13]
theorem vec_a1 : vecR a1 = ⟨6004799503160661 / 2 ^ 53, -6004799503160661 / 2 ^ 53, -6004799503160661 / 2 ^ 54⟩ := by
  show (⟨val t23, val m23, val m13⟩ : C17Err.R3) = _
  rw [val_t23, val_m23, val_m13]
theorem vec_b1 : vecR b1 = ⟨6004799503160661 / 2 ^ 53, -6004799503160661 / 2 ^ 54, -6004799503160661 / 2 ^ 53⟩ := by
  show (⟨val t23, val m13, val m23⟩ : C17Err.R3) = _
  rw [val_t23, val_m23, val_m13]

/-- edge 0 lies in the cell `[0,1]²` and in the face cell -/
theorem hom_a0_pos : HomIn RPos (uvwR 0 (toAcc (vecR a0))) := by
  rw [vec_a0]; unfold HomIn uvwR toAcc; simp only [RPos]; norm_num
theorem hom_b0_pos : HomIn RPos (uvwR 0 (toAcc (vecR b0))) := by
  rw [vec_b0]; unfold HomIn uvwR toAcc; simp only [RPos]; norm_num
theorem hom_a0_root : HomIn RRoot (uvwR 0 (toAcc (vecR a0))) := by
  rw [vec_a0]; unfold HomIn uvwR toAcc; simp only [RRoot]; norm_num
theorem hom_b0_root : HomIn RRoot (uvwR 0 (toAcc (vecR b0))) := by
  rw [vec_b0]; unfold HomIn uvwR toAcc; simp only [RRoot]; norm_num
/-- edge 1 lies in the cell `[-1,0]²` and in the face cell -/
theorem hom_a1_neg : HomIn RNeg (uvwR 0 (toAcc (vecR a1))) := by
  rw [vec_a1]; unfold HomIn uvwR toAcc; simp only [RNeg]; norm_num
theorem hom_b1_neg : HomIn RNeg (uvwR 0 (toAcc (vecR b1))) := by
  rw [vec_b1]; unfold HomIn uvwR toAcc; simp only [RNeg]; norm_num
theorem hom_a1_root : HomIn RRoot (uvwR 0 (toAcc (vecR a1))) := by
  rw [vec_a1]; unfold HomIn uvwR toAcc; simp only [RRoot]; norm_num
theorem hom_b1_root : HomIn RRoot (uvwR 0 (toAcc (vecR b1))) := by
  rw [vec_b1]; unfold HomIn uvwR toAcc; simp only [RRoot]; norm_num

/-! ## `IndexOK` -/

/-- the cells containing a level-1 cell: itself and its face cell -/
theorem ancestors_level1 {x y : CellID} (hx : IsCell x 1) (hy : isValid y = true) (hyx : contains y x = true) :
    y = x ∨ y = parent x 0 := by
  obtain ⟨i, hi⟩ := (isValid_iff y).mp hy
  obtain ⟨hle, hp⟩ := (hi.contains_iff_parent hx).mp hyx
  have : i = 0 ∨ i = 1 := by omega
  rcases this with rfl | rfl
  · exact Or.inr hp.symm
  · left; rw [← hp, hx.parent_self_id]

theorem parent_pos : parent cPos 0 = cRoot := by decide
theorem parent_neg : parent cNeg 0 = cRoot := by decide

theorem ex_covered : ClosestCovered exIdx := by
  intro lim e he _
  rcases mem_allEdges he with rfl | rfl
  · obtain ⟨Q, hQ, hd⟩ := trueDist2_attained (x := exP) (a := a0) (b := b0)
      unit_p.len_pos unit_a0.len_pos unit_b0.len_pos
    refine ⟨Q, hQ, hd, cPos, [e0], by decide, by simp, ⟨cRoot, by simp [exIdx], by decide⟩, ?_⟩
    intro y hy hyx
    rcases ancestors_level1 isCell_pos hy hyx with rfl | rfl
    · rw [cellPos_eq]
      show InCell (rectOf cellPos) (uvwR 0 (toAcc Q))
      rw [rectPos]
      exact arc_in_cell _ 0 _ _ _ hom_a0_pos hom_b0_pos hQ
    · rw [parent_pos, cellRoot_eq]
      show InCell (rectOf cellRoot) (uvwR 0 (toAcc Q))
      rw [rectRoot]
      exact arc_in_cell _ 0 _ _ _ hom_a0_root hom_b0_root hQ
  · obtain ⟨Q, hQ, hd⟩ := trueDist2_attained (x := exP) (a := a1) (b := b1)
      unit_p.len_pos unit_a1.len_pos unit_b1.len_pos
    refine ⟨Q, hQ, hd, cNeg, [e1], by decide, by simp, ⟨cRoot, by simp [exIdx], by decide⟩, ?_⟩
    intro y hy hyx
    rcases ancestors_level1 isCell_neg hy hyx with rfl | rfl
    · rw [cellNeg_eq]
      show InCell (rectOf cellNeg) (uvwR 0 (toAcc Q))
      rw [rectNeg]
      exact arc_in_cell _ 0 _ _ _ hom_a1_neg hom_b1_neg hQ
    · rw [parent_neg, cellRoot_eq]
      show InCell (rectOf cellRoot) (uvwR 0 (toAcc Q))
      rw [rectRoot]
      exact arc_in_cell _ 0 _ _ _ hom_a1_root hom_b1_root hQ

theorem ex_indexOK : IndexOK exIdx where
  cellsOK := by decide +kernel
  rootsValid lim c hc := by
    have : c = cRoot := by simpa [exIdx] using hc
    subst this; decide
  depth := le_refl _
  edgesSound x es hl e he := by
    have hx : x ∈ Roots.ids exIdx.ix := Roots.lookup_mem_ids _ hl
    have : x = cNeg ∨ x = cPos := by simpa [exIdx, Roots.ids] using hx
    rcases this with rfl | rfl
    · have : exIdx.ix.lookup cNeg = some [e1] := by decide
      rw [this] at hl; cases hl
      have : e = e1 := by simpa using he
      subst this; simp [exIdx]
    · have : exIdx.ix.lookup cPos = some [e0] := by decide
      rw [this] at hl; cases hl
      have : e = e0 := by simpa using he
      subst this; simp [exIdx]
  locatedSound es h := by cases h
  covered := ex_covered

/-- **hypothesis-free instance of `point_slackWorld`**: the example world is a `SlackWorld`
    (it depends on whatever `point_slackWorld` depends on, in particular `updateMin_contract` of `PointEdgeNum.lean`) -/
theorem ex_slackWorld : Slack.SlackWorld chordI (world exIdx) (Near exIdx) :=
  point_slackWorld (by unfold slack; norm_num) S2Proofs.C12.distanceLowerBound_holds ex_edgesOK ex_indexOK

/-! ## the search really runs on this world (kernel evaluation)

  `cellFromCellID` is slow in the kernel (lookup tables), so the tree `Roots.subtree …` is first written out with the
  literal cell records (`tree_eq`, `world_eq`); the search on the literal world is then evaluated by the kernel. -/

def exOpts : Opts Chord := { maxResults := 1, distanceLimit := cinf, maxError := czero, includeInteriors := false, useBruteForce := false, targetUsesMaxError := false }

def updCellL (c : CellM.Cell) (lim : Chord) : Option Chord :=
  if F64.lt (CellM.distance c exP) lim.1 then some (canon (CellM.distance c exP)) else none

def exTree : EdgeQueryM.Cell Chord :=
  .node (updCellL cellRoot) [.index (updCellL cellNeg) [e1], .index (updCellL cellPos) [e0]]

theorem updCell_root : updCell exIdx cRoot = updCellL cellRoot := by
  funext lim; unfold updCell cellDist updCellL; rw [cellRoot_eq]; rfl
theorem updCell_neg : updCell exIdx cNeg = updCellL cellNeg := by
  funext lim; unfold updCell cellDist updCellL; rw [cellNeg_eq]; rfl
theorem updCell_pos : updCell exIdx cPos = updCellL cellPos := by
  funext lim; unfold updCell cellDist updCellL; rw [cellPos_eq]; rfl

theorem tree_eq : Roots.subtree exIdx.ix (updCell exIdx) 30 cRoot = exTree := by
  have l0 : exIdx.ix.lookup cRoot = none := by decide
  have l1 : exIdx.ix.lookup cNeg = some [e1] := by decide
  have l2 : exIdx.ix.lookup cPos = some [e0] := by decide
  have hk : (([1, 0, 3, 2].map (child cRoot)).filter (Roots.hasIndexCell exIdx.ix)) = [cNeg, cPos] := by
    decide
  have h : Roots.subtree exIdx.ix (updCell exIdx) 30 cRoot =
      .node (updCell exIdx cRoot) [.index (updCell exIdx cNeg) [e1], .index (updCell exIdx cPos) [e0]] := by
    rw [show (30 : Nat) = 28 + 1 + 1 from rfl]
    rw [Roots.subtree, l0]
    rw [hk]
    simp only [List.map_cons, List.map_nil]
    rw [Roots.subtree, l1, Roots.subtree, l2]
  rw [h, updCell_root, updCell_neg, updCell_pos]; rfl

/-- the same world with the tree written out -/
def exWorldL : World Chord := { world exIdx with roots := fun _ => [exTree] }

theorem roots_eq : (world exIdx).roots = fun _ => [exTree] := by
  funext lim
  show [Roots.subtree exIdx.ix (updCell exIdx) 30 cRoot] = _
  rw [tree_eq]

theorem world_eq : world exIdx = exWorldL := by
  unfold exWorldL; rw [← roots_eq]

set_option maxRecDepth 100000 in
theorem ex_searchL : (findEdges chordI exOpts exWorldL).map (fun rs => rs.map (fun r => (r.dist.1.bits, r.shape, r.edge)))
    = some [(0x3FCC71C71C71C71C, 0, 0)] := by decide +kernel

theorem ex_search : (findEdges chordI exOpts (world exIdx)).map (fun rs => rs.map (fun r => (r.dist.1.bits, r.shape, r.edge)))
    = some [(0x3FCC71C71C71C71C, 0, 0)] := by rw [world_eq]; exact ex_searchL

/-- with `maxResults = 2` both edges are found (edge 1, in the other index cell, at squared chord distance 2.888…) -/
def exOpts2 : Opts Chord := { exOpts with maxResults := 2 }

set_option maxRecDepth 100000 in
theorem ex_searchL2 : (findEdges chordI exOpts2 exWorldL).map (fun rs => rs.map (fun r => (r.dist.1.bits, r.shape, r.edge)))
    = some [(0x3FCC71C71C71C71C, 0, 0), (0x40071C71C71C71C7, 0, 1)] := by decide +kernel

theorem ex_search2 : (findEdges chordI exOpts2 (world exIdx)).map (fun rs => rs.map (fun r => (r.dist.1.bits, r.shape, r.edge)))
    = some [(0x3FCC71C71C71C71C, 0, 0), (0x40071C71C71C71C7, 0, 1)] := by rw [world_eq]; exact ex_searchL2


end S2Proofs.C08World.Ex
