/-
  S2Proofs.EdgeQuery.SlackDefs — vocabulary of the search theorems for REAL (floating point) exact targets
  (package c08world).

  Why a new vocabulary.  `WorldOK.cellLB` (SearchDefs) demands that the value of `updateDistanceToCell`
  is a lower bound for the distance of EVERY edge stored in the cell.  For a real `ShapeIndex` this is
  false for two independent reasons:
    (a) an edge is CLIPPED to the cells it crosses: a cell far from the target holds a long edge whose
        closest point lies in another cell — the cell distance bounds the distance to the part of the edge
        inside the cell only;
    (b) `Cell.Distance` over-estimates by a few ulps (c12dist F2), and `updateMinDistance` is only accurate
        up to its documented error (C17).
  What IS true: every edge has a WITNESS path root → … → index cell (the cells containing the edge's closest
  point), and along this path every cell distance is at most the edge's distance plus a slack.  The relation
  "the edge `e` is closer than `lim` by more than the slack" is abstracted as `Near e lim`.
  Core-only.
-/
import S2.EdgeQueryM
import S2Proofs.EdgeQuery.SearchDefs
open S2 S2.EdgeQueryM
namespace S2Proofs.EdgeQuery
namespace Slack

variable {D : Type}

/-- a cell on the witness path of edge `e`: it is pruned ("not ok") only for limits the edge is not `Near`,
    and the value it reports is never a value the edge is `Near` (i.e. value ≤ distance(e) + slack) -/
def GoodFor (Near : EdgeKey → D → Prop) (e : EdgeKey) (c : Cell D) : Prop :=
  ∀ l, (c.cd l = none → ¬ Near e l) ∧ (∀ x, c.cd l = some x → ¬ Near e x)

mutual
/-- there is a path from the cell down to an index cell holding `e`, every cell of it `GoodFor e` -/
def Reach (Near : EdgeKey → D → Prop) (e : EdgeKey) : Cell D → Prop
  | .index cd edges => e ∈ edges ∧ GoodFor Near e (.index cd edges)
  | .node cd kids => GoodFor Near e (.node cd kids) ∧ ReachList Near e kids
def ReachList (Near : EdgeKey → D → Prop) (e : EdgeKey) : List (Cell D) → Prop
  | [] => False
  | c :: cs => Reach Near e c ∨ ReachList Near e cs
end

/-- hypotheses on a world whose target computes EXACT-type distances (does not use `maxError`) in floating
    point.  `Near e lim` reads "edge `e` is closer than `lim` by more than the slack". -/
structure SlackWorld (I : DistI D) (w : World D) (Near : EdgeKey → D → Prop) : Prop where
  /-- `Near` is monotone in the limit -/
  nearMono : ∀ e a b, Near e a → I.less b a = false → Near e b
  /-- `updateDistanceToEdge` "ok, x": `x` is within the limit handed in -/
  edgeLt : ∀ e ∈ w.allEdges, ∀ lim x, w.updEdge e lim = some x → I.less x lim = true
  /-- … and `x` is not above the distance of the edge by more than the slack -/
  edgeVal : ∀ e ∈ w.allEdges, ∀ lim x, w.updEdge e lim = some x → ¬ Near e x
  /-- "not ok": the edge is not closer than the limit by more than the slack -/
  edgeNone : ∀ e ∈ w.allEdges, ∀ lim, w.updEdge e lim = none → ¬ Near e lim
  /-- the initial cells for limit `lim` contain a witness path for every edge `Near lim` -/
  reach : ∀ lim, ∀ e ∈ w.allEdges, Near e lim → ReachList Near e (w.roots lim)
  /-- index cells only hold edges of the index -/
  rootsSound : ∀ lim, ∀ e ∈ edgesUnderList (w.roots lim), e ∈ w.allEdges
  locatedSound : ∀ es, w.located = some es → ∀ e ∈ es, e ∈ w.allEdges
  nonEmptyTarget : w.emptyTarget = false
  /-- nothing is `Near` zero -/
  zeroMin : ∀ e ∈ w.allEdges, ¬ Near e I.zero

/-- the part of `SubLaws` the single-result search really uses (package c08world2): `x ⊖ err ≤ x` for the values
    `updateDistanceToEdge` returns for edges of the index, and for `zero`.  (`ChordAngle.Sub` violates `x ⊖ err ≤ x` for
    receivers above 4 — NaN — and for receivers / errors so tiny that `x*y` underflows; see `EdgeQuery/ChordSub.lean`.) -/
structure SubLawsOn (I : DistI D) (w : World D) (err : D) : Prop where
  sub_edge : ∀ e ∈ w.allEdges, ∀ lim x, w.updEdge e lim = some x → I.less x (I.sub x err) = false
  sub_zero : I.less I.zero (I.sub I.zero err) = false

theorem _root_.S2Proofs.EdgeQuery.SubLaws.on {I : DistI D} {w : World D} {err : D} (S : SubLaws I err) :
    SubLawsOn I w err :=
  ⟨fun _ _ _ _ _ => S.sub_le _, S.sub_le _⟩

/-- what a result of the search is: an interior result, or an edge of the index with a value its
    `updateDistanceToEdge` returned for some limit not above the option's limit -/
def SoundResult [DecidableEq D] (I : DistI D) (o : Opts D) (w : World D) (r : Result D) : Prop :=
  (o.includeInteriors = true ∧ r.dist = I.zero ∧ r.edge = -1 ∧ r.shape ∈ w.interiors) ∨
  (∃ e ∈ w.allEdges, r.shape = e.shape ∧ r.edge = e.edge ∧
    (∃ lim, w.updEdge e lim = some r.dist ∧ I.less o.distanceLimit lim = false) ∧
    I.less r.dist o.distanceLimit = true)

end Slack
end S2Proofs.EdgeQuery
