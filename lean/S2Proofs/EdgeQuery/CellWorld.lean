/-
  S2Proofs.EdgeQuery.CellWorld — the CONCRETE world of a closest-edge query with a CELL target
  (`MinDistanceToCellTarget`, s2/min_distance_targets.go) on a built index, and the proof that it is a
  `Slack.SlackWorld` (package c08more; the cell-target twin of `PointWorld.lean` / `EdgeWorld.lean`):

   * edges   = pairs of float vertices; `updateDistanceToEdge` =
               `dist.updateDistance(minDistance(m.cell.DistanceToEdge(edge.V0, edge.V1)))` with the bit-exact
               `S2.CellEdgeM.distanceToEdge` of the TARGET cell — upper estimate
               `S2Proofs.C12.distanceToEdge_lower_bound` (c12dist2): reported ≤ chord²(q, r) + 2^-44 for EVERY point `q` of the
               exact target cell and `r` of the arc of the edge;
   * cells   = cell ids, arranged as the tree `Roots.subtree` of the index; `updateDistanceToCell` =
               `dist.updateDistance(minDistance(m.cell.DistanceToCell(cell)))` with the bit-exact
               `S2.CellEdgeM.distanceToCell` (receiver = the target cell, as in the Go code) — bound
               `S2Proofs.C12.distanceToCell_lower_bound` (c12dist2): reported ≤ chord²(q, q') + 2^-45 for all points of the two exact cells;
   * "below" = `ClosestCovered`: a pair (`q` in the target cell, `r` on the arc of the edge) that realises the exact distance up to `2^-45`
               has `r` in the exact region of an index cell listing the edge and of all its ancestors up to an initial cell.

  Exact distance of edge `e`:  `rho E e` = the INFIMUM of the squared chord `2 − 2 q·r` over (exact target cell) × (arc of `e`)
  (`rho_le`, `rho_greatest`, `exists_near_rho`).  No compactness argument is needed: the cell bound of c12dist2 is `2^-45`, the slack of
  the search is `2^-44`, so a pair within `2^-45` of the infimum is enough for the witness path.
-/
import S2Proofs.EdgeQuery.EdgeWorld
import S2Proofs.C12Dist2.MaxEdge

set_option linter.unusedSimpArgs false
set_option linter.unusedVariables false

namespace S2Proofs.C08Cell
open S2 S2.Exact S2.CellID S2.EdgeNum S2.EdgeQueryM S2Proofs.F64Order S2Proofs.FloatErr S2Proofs.EdgeQuery
open S2Proofs.C17Err S2Proofs.C17 S2Proofs.C17Pairs S2Proofs.C08World
open S2Proofs.C12Dist (InCellXYZ)

/-! ## the data -/

/-- index + cell target of one query -/
structure CellIndex where
  /-- id of the target cell `m.cell` (`CellFromCellID`) -/
  tid : CellID
  /-- the two vertices of an index edge -/
  vert : EdgeKey → V3 × V3
  /-- all edges of the index in brute-force scan order -/
  allEdges : List EdgeKey
  /-- the index cells with their clipped edges -/
  ix : Roots.CIndex
  /-- ids of the initial cells `initQueue` hands to `processOrEnqueue`, as a function of the limit -/
  rootIds : Chord → List CellID
  /-- descent depth of the tree (30 covers every level) -/
  depth : Nat
  interiors : List Int
  located : Option (List EdgeKey)
  small : Bool

/-- the index part in the vocabulary of the point-target package (the point `p` is NOT used by `I1Arc`, … — only the index) -/
def CellIndex.toPoint (E : CellIndex) : PointIndex where
  p := ⟨⟨0⟩, ⟨0⟩, ⟨0⟩⟩
  vert := E.vert
  allEdges := E.allEdges
  ix := E.ix
  rootIds := E.rootIds
  depth := E.depth
  interiors := E.interiors
  located := E.located
  small := E.small

variable (E : CellIndex)

/-- the target cell `m.cell` -/
def tcell : CellM.Cell := CellM.cellFromCellID E.tid

/-- `m.cell.DistanceToEdge(edge.V0, edge.V1)` -/
def edgeDist (e : EdgeKey) : F64 := CellEdgeM.distanceToEdge (tcell E) (E.vert e).1 (E.vert e).2

/-- `MinDistanceToCellTarget.updateDistanceToEdge`:
    `dist.updateDistance(minDistance(m.cell.DistanceToEdge(edge.V0, edge.V1)))` -/
def updEdge (e : EdgeKey) (lim : Chord) : Option Chord :=
  if F64.lt (edgeDist E e) lim.1 then some (canon (edgeDist E e)) else none

/-- `m.cell.DistanceToCell(cell)` (receiver = the target cell) -/
def cellDist (id : CellID) : F64 := CellEdgeM.distanceToCell (tcell E) (CellM.cellFromCellID id)

/-- `MinDistanceToCellTarget.updateDistanceToCell`:
    `dist.updateDistance(minDistance(m.cell.DistanceToCell(cell)))` -/
def updCell (id : CellID) (lim : Chord) : Option Chord :=
  if F64.lt (cellDist E id) lim.1 then some (canon (cellDist E id)) else none

/-- the world of the search model -/
def world : World Chord where
  updEdge := updEdge E
  allEdges := E.allEdges
  interiors := E.interiors
  small := E.small
  emptyTarget := false
  located := E.located
  roots lim := (E.rootIds lim).map (Roots.subtree E.ix (updCell E) E.depth)

/-- the squared chords between points of the exact target cell and points of the arc of edge `e` -/
def distSet (e : EdgeKey) : Set ℝ :=
  {d | ∃ q r : C17Err.R3, InCellXYZ (tcell E) (toAcc q) ∧ OnArc (vecR (E.vert e).1) (vecR (E.vert e).2) r ∧ d = chordPQ q r}

/-- EXACT squared chord distance between the target cell and the arc of edge `e` (infimum over cell × arc) -/
noncomputable def rho (e : EdgeKey) : ℝ := sInf (distSet E e)

/-- "edge `e` is truly closer to the target cell than `lim` by more than the slack" (`slack = 2^-44`, as for points and edges) -/
def Near (e : EdgeKey) (lim : Chord) : Prop := lim.1 = posInf ∨ rho E e + slack < val lim.1

/-- `Near` is monotone in the limit -/
theorem near_mono (e : EdgeKey) (a b : Chord) (h : Near E e a) (hba : chordI.less b a = false) : Near E e b := by
  rcases chord_fin_or_inf b with hb | hb
  · rcases h with ha | ha
    · have : cless b a = true := by unfold cless; rw [ha]; exact lt_fin_inf hb
      rw [show chordI.less b a = cless b a from rfl, this] at hba; cases hba
    · rcases chord_fin_or_inf a with haf | hai
      · right
        have h1 : ¬ (val b.1 < val a.1) := by
          intro hlt
          have : F64.lt b.1 a.1 = true := (lt_val hb haf).mpr hlt
          rw [show chordI.less b a = F64.lt b.1 a.1 from rfl, this] at hba; cases hba
        linarith [not_lt.mp h1]
      · have : cless b a = true := by unfold cless; rw [hai]; exact lt_fin_inf hb
        rw [show chordI.less b a = cless b a from rfl, this] at hba; cases hba
  · exact Or.inl hb

/-! ## the domain: ONE record with the hypotheses of c12dist2 for the two functions the target calls -/

/-- cells the search can visit: the valid cells that contain an index cell AND lie at or below an initial cell (for
    some limit) containing that index cell — the nodes of the trees `Roots.subtree` on the way to an index cell -/
def Visited (y : CellID) : Prop :=
  isValid y = true ∧ ∃ x ∈ Roots.ids E.ix, contains y x = true ∧
    ∃ lim, ∃ c ∈ E.rootIds lim, contains c x = true ∧ level c ≤ level y

/-- **the numeric domain of a cell-target query** = the hypotheses of c12dist2:
    * `distanceToEdge_lower_bound` for (target cell, index edge): `UnitPt` of the edge's endpoints, `EdgeOK` of the edge (≥ 2.9e-11 rad and
      that far from antipodal), `VerticesOK` = the four float vertices of the TARGET cell are `UnitPt` and have `WedgeMargin` against the edge;
    * `distanceToCell_lower_bound` for (target cell, visited cell): `CallOK` of the 32 `(vertex, edge)` calls of the double loop. -/
structure CellTargetOK : Prop where
  valid : isValid E.tid = true
  edges : ∀ e ∈ E.allEdges, UnitPt (E.vert e).1 ∧ UnitPt (E.vert e).2 ∧ EdgeOK (E.vert e).1 (E.vert e).2 ∧
    S2Proofs.C12.VerticesOK (tcell E) (E.vert e).1 (E.vert e).2
  cells : ∀ y, Visited E y →
    ∀ t ∈ CellEdgeM.pairCalls (CellEdgeM.vertices (tcell E)) (CellEdgeM.vertices (CellM.cellFromCellID y)), CallOK t.1 t.2.1 t.2.2

variable {E}

/-! ## `rho`: the infimum and its three properties -/

theorem distSet_nonempty (H : CellTargetOK E) {e : EdgeKey} (he : e ∈ E.allEdges) : (distSet E e).Nonempty := by
  obtain ⟨ha, _, _, _⟩ := H.edges e he
  exact ⟨_, _, _, S2Proofs.C12Dist2.corner_inCell E.tid H.valid 0, onArc_left _ _ ha.len_pos, rfl⟩

theorem distSet_nonneg (H : CellTargetOK E) {e : EdgeKey} {d : ℝ} (hd : d ∈ distSet E e) : 0 ≤ d := by
  obtain ⟨q, r, hq, hr, rfl⟩ := hd
  exact chordPQ_nonneg (S2Proofs.C12Dist2.cell_pt_n2 E.tid H.valid hq) (S2Proofs.C12Dist2.onArc_n2 hr)

theorem distSet_bdd (H : CellTargetOK E) (e : EdgeKey) : BddBelow (distSet E e) := ⟨0, fun _ hd => distSet_nonneg H hd⟩

/-- `rho` is a lower bound of the squared chord over (target cell) × (arc of the edge) … -/
theorem rho_le (H : CellTargetOK E) (e : EdgeKey) {q r : C17Err.R3} (hq : InCellXYZ (tcell E) (toAcc q))
    (hr : OnArc (vecR (E.vert e).1) (vecR (E.vert e).2) r) : rho E e ≤ chordPQ q r :=
  csInf_le (distSet_bdd H e) ⟨q, r, hq, hr, rfl⟩

/-- … the GREATEST one … -/
theorem rho_greatest (H : CellTargetOK E) {e : EdgeKey} (he : e ∈ E.allEdges) {m : ℝ}
    (hm : ∀ q r : C17Err.R3, InCellXYZ (tcell E) (toAcc q) → OnArc (vecR (E.vert e).1) (vecR (E.vert e).2) r → m ≤ chordPQ q r) :
    m ≤ rho E e := by
  apply le_csInf (distSet_nonempty H he)
  rintro d ⟨q, r, hq, hr, rfl⟩
  exact hm q r hq hr

/-- … approached arbitrarily well by pairs of points -/
theorem exists_near_rho (H : CellTargetOK E) {e : EdgeKey} (he : e ∈ E.allEdges) {ε : ℝ} (hε : 0 < ε) :
    ∃ q r : C17Err.R3, InCellXYZ (tcell E) (toAcc q) ∧ OnArc (vecR (E.vert e).1) (vecR (E.vert e).2) r ∧ chordPQ q r < rho E e + ε := by
  obtain ⟨d, ⟨q, r, hq, hr, rfl⟩, hlt⟩ := exists_lt_of_csInf_lt (distSet_nonempty H he) (show sInf (distSet E e) < rho E e + ε by
    unfold rho; linarith)
  exact ⟨q, r, hq, hr, hlt⟩

theorem rho_nonneg (H : CellTargetOK E) {e : EdgeKey} (he : e ∈ E.allEdges) : 0 ≤ rho E e :=
  rho_greatest H he (fun q r hq hr => distSet_nonneg H ⟨q, r, hq, hr, rfl⟩)

/-! ## the edge clauses of `SlackWorld` -/

/-- **`Cell.DistanceToEdge` of the target cell never exceeds the exact distance by more than `2^-44`** (c12dist2) -/
theorem edgeDist_le (H : CellTargetOK E) {e : EdgeKey} (he : e ∈ E.allEdges) :
    Fin (edgeDist E e) ∧ val (edgeDist E e) ≤ rho E e + slack := by
  obtain ⟨ha, hb, hE, hV⟩ := H.edges e he
  obtain ⟨q0, r0, hq0, hr0, _⟩ := exists_near_rho H he (show (0 : ℝ) < 1 by norm_num)
  refine ⟨(S2Proofs.C12.distanceToEdge_lower_bound E.tid H.valid _ _ ha hb hE hV q0 r0 hq0 hr0).1, ?_⟩
  have : val (edgeDist E e) - slack ≤ rho E e := by
    apply rho_greatest H he
    intro q r hq hr
    have := (S2Proofs.C12.distanceToEdge_lower_bound E.tid H.valid _ _ ha hb hE hV q r hq hr).2
    unfold edgeDist tcell slack; linarith
  linarith

theorem updEdge_some {e : EdgeKey} {lim x : Chord} (h : updEdge E e lim = some x) :
    F64.lt (edgeDist E e) lim.1 = true ∧ x = canon (edgeDist E e) := by
  unfold updEdge at h
  split at h
  · rename_i h2
    exact ⟨h2, by simpa using h.symm⟩
  · cases h

theorem updEdge_none {e : EdgeKey} {lim : Chord} (h : updEdge E e lim = none) : ¬ F64.lt (edgeDist E e) lim.1 = true := by
  unfold updEdge at h
  split at h
  · cases h
  · rename_i h2; exact h2

theorem not_near_of_le {e : EdgeKey} {x : Chord} (hf : Fin x.1) (h : val x.1 ≤ rho E e + slack) : ¬ Near E e x := by
  rintro (hi | hlt)
  · exact fin_ne_inf hf hi
  · linarith

/-- `Cell.DistanceToEdge` of the target cell is a NON-NEGATIVE float (c12max `distanceToEdge_nonneg`) -/
theorem edgeDist_nonneg (H : CellTargetOK E) {e : EdgeKey} (he : e ∈ E.allEdges) : 0 ≤ val (edgeDist E e) := by
  obtain ⟨ha, hb, hE, hV⟩ := H.edges e he
  exact S2Proofs.C12Dist2.distanceToEdge_nonneg E.tid H.valid _ _ ha hb hE (fun k hk => ⟨(hV k hk).1, (hV k hk).2⟩)

/-- "ok, x": `x` is the float `DistanceToEdge` returns, finite, non-negative, within the limit (Go's `<`), and at most `2^-44` above the
    exact distance -/
theorem edge_some (H : CellTargetOK E) {e : EdgeKey} (he : e ∈ E.allEdges) {lim x : Chord}
    (h : updEdge E e lim = some x) :
    Fin x.1 ∧ val x.1 = val (edgeDist E e) ∧ 0 ≤ val x.1 ∧ chordI.less x lim = true ∧ val x.1 ≤ rho E e + slack := by
  obtain ⟨hlt, hx⟩ := updEdge_some h
  obtain ⟨f, hle⟩ := edgeDist_le H he
  have nn := edgeDist_nonneg H he
  obtain ⟨cf, cv⟩ := canon_fin f
  rw [max_eq_left nn] at cv
  subst hx
  refine ⟨cf, cv, by rw [cv]; exact nn, ?_, by rw [cv]; exact hle⟩
  show F64.lt _ lim.1 = true
  rcases chord_fin_or_inf lim with hl | hl
  · rw [lt_val cf hl, cv]; exact (lt_val f hl).mp hlt
  · have := lt_fin_inf cf
    rw [← hl] at this; exact this

/-- "not ok": the limit is finite and at most `2^-44` above the exact distance -/
theorem edge_none (H : CellTargetOK E) {e : EdgeKey} (he : e ∈ E.allEdges) {lim : Chord}
    (h : updEdge E e lim = none) : Fin lim.1 ∧ val lim.1 ≤ rho E e + slack := by
  have hn := updEdge_none h
  obtain ⟨f, hle⟩ := edgeDist_le H he
  rcases chord_fin_or_inf lim with hl | hl
  · refine ⟨hl, ?_⟩
    have : ¬ (val (edgeDist E e) < val lim.1) := fun h => hn ((lt_val f hl).mpr h)
    linarith [not_lt.mp this]
  · rw [hl] at hn; exact absurd (lt_fin_inf f) hn

/-! ## the cell clause: `Cell.DistanceToCell` against an index edge with a point in the cell -/

/-- a visited cell whose exact region contains the point `r` of a pair (`q` in the target cell, `r` on edge `e`) that realises the exact
    distance up to `2^-45` is `GoodFor` that edge: its reported distance is at most `rho e + 2^-44` -/
theorem cell_good (H : CellTargetOK E) {y : CellID} (hy : Visited E y) {e : EdgeKey} (he : e ∈ E.allEdges)
    {q r : C17Err.R3} (hq : InCellXYZ (tcell E) (toAcc q))
    (hr : InCellXYZ (CellM.cellFromCellID y) (toAcc r)) (hρ : chordPQ q r ≤ rho E e + 1 / 2 ^ 45) :
    ∀ l, (updCell E y l = none → ¬ Near E e l) ∧ (∀ x, updCell E y l = some x → ¬ Near E e x) := by
  obtain ⟨hf, hle⟩ := S2Proofs.C12.distanceToCell_lower_bound E.tid y H.valid hy.1 (H.cells y hy) q r hq hr
  have hD : val (cellDist E y) ≤ rho E e + slack := by
    unfold cellDist tcell slack
    have e1 : (1 : ℝ) / 2 ^ 44 = 1 / 2 ^ 45 + 1 / 2 ^ 45 := by norm_num
    rw [e1]; linarith
  have hf' : Fin (cellDist E y) := hf
  have hr0 := rho_nonneg H he
  intro l
  constructor
  · intro hnone
    unfold updCell at hnone
    split at hnone
    · cases hnone
    · rename_i hnl
      rintro (hi | hlt)
      · rw [hi] at hnl; exact hnl (lt_fin_inf hf')
      · rcases chord_fin_or_inf l with hl | hl
        · have : ¬ (val (cellDist E y) < val l.1) := fun h => hnl ((lt_val hf' hl).mpr h)
          linarith [not_lt.mp this]
        · rw [hl] at hnl; exact hnl (lt_fin_inf hf')
  · intro x hsome
    unfold updCell at hsome
    split at hsome
    · have hx : x = canon (cellDist E y) := by simpa using hsome.symm
      obtain ⟨cf, cv⟩ := canon_fin hf'
      subst hx
      apply not_near_of_le cf
      rw [cv]
      apply max_le
      · exact hD
      · unfold slack; linarith [show (0 : ℝ) ≤ 1 / 2 ^ 44 by positivity]
    · cases hsome

/-! ## index hypotheses and the `SlackWorld` instance -/

variable (E)

/-- **index invariant I1 in the form the search needs, for a cell target**: for an index edge that is `Near` the limit there is a pair
    (`q` in the exact target cell, `r` on the arc of the edge) realising the exact distance up to `2^-45` such that `r` lies in the exact region
    of an index cell `x` that lists the edge, `x` lies below an initial cell for that limit, and `r` also lies in the exact region of every
    ancestor of `x`. -/
def ClosestCovered : Prop :=
  ∀ lim, ∀ e ∈ E.allEdges, Near E e lim →
    ∃ q r : C17Err.R3, InCellXYZ (tcell E) (toAcc q) ∧ OnArc (vecR (E.vert e).1) (vecR (E.vert e).2) r ∧
      chordPQ q r ≤ rho E e + 1 / 2 ^ 45 ∧
      ∃ x es, E.ix.lookup x = some es ∧ e ∈ es ∧
        (∃ c ∈ E.rootIds lim, contains c x = true) ∧
        ∀ y, isValid y = true → contains y x = true → InCellXYZ (CellM.cellFromCellID y) (toAcc r)

/-- structural hypotheses on the index (the same as for the point and edge targets) -/
structure IndexOK : Prop where
  cellsOK : IndexCellsOK (Roots.ids E.ix)
  rootsValid : ∀ lim, ∀ c ∈ E.rootIds lim, isValid c = true
  depth : 30 ≤ E.depth
  /-- index cells and the located cell only list edges of the index -/
  edgesSound : ∀ x es, E.ix.lookup x = some es → ∀ e ∈ es, e ∈ E.allEdges
  locatedSound : ∀ es, E.located = some es → ∀ e ∈ es, e ∈ E.allEdges
  covered : ClosestCovered E

/-- "the unit vector `r` is closer to SOME point of the exact target cell than `lim` by more than the slack" -/
def PtNear (r : C17Err.R3) (lim : Chord) : Prop :=
  lim.1 = posInf ∨ ∃ q : C17Err.R3, InCellXYZ (tcell E) (toAcc q) ∧ chordPQ q r + slack < val lim.1

/-- **completeness of the initial cells** (cell target): an index cell whose exact region holds a point `PtNear` the limit
    lies below an initial cell for that limit -/
def RootsCover : Prop :=
  ∀ lim : Chord, ∀ x ∈ Roots.ids E.ix, ∀ r : C17Err.R3, r.n2 = 1 →
    InCellXYZ (CellM.cellFromCellID x) (toAcc r) → PtNear E r lim →
    ∃ c ∈ E.rootIds lim, contains c x = true

/-- completeness of the initial cells of the UNBOUNDED search (index-only statement, the one of the point-target package:
    `rootsCoverInf_of_initCovering` proves it when the initial cells are the index covering) -/
def RootsCoverInf : Prop := ∀ x ∈ Roots.ids E.ix, ∃ c ∈ E.rootIds cinf, contains c x = true

/-- **completeness of the initial cells for a FINITE limit** (hypothesis, as `RootsCoverFin` of c08world2 / c08edge): an index cell whose
    exact region holds a unit vector `r` with `chord²(q, r) + slack < limit` for some point `q` of the exact target cell lies below one of
    the cells `initQueue` produces in its finite-limit branch (`FastCovering` of the cap `Cap(target.capBound().center, radius + limit)` —
    `MinDistanceToCellTarget.capBound` = `Cell.CapBound()` — intersected with the index covering and cleaned up by `LocateCellID`). -/
def RootsCoverFin : Prop :=
  ∀ lim : Chord, Fin lim.1 → ∀ x ∈ Roots.ids E.ix, ∀ r : C17Err.R3, r.n2 = 1 →
    InCellXYZ (CellM.cellFromCellID x) (toAcc r) →
    (∃ q : C17Err.R3, InCellXYZ (tcell E) (toAcc q) ∧ chordPQ q r + slack < val lim.1) →
    ∃ c ∈ E.rootIds lim, contains c x = true

variable {E}

/-- **`ClosestCovered` from `I1Arc` (C06; the SAME statement as for the point target: it only speaks about the index)
    and `RootsCover`**; the nesting of the exact regions is `regions_nested` (c08world2); the pair is a near-minimiser of the infimum -/
theorem closestCovered_of_arc_roots (H : CellTargetOK E) (hcells : IndexCellsOK (Roots.ids E.ix))
    (h1 : I1Arc E.toPoint) (hr : RootsCover E) : ClosestCovered E := by
  intro lim e he hn
  -- a pair within `min(2^-45, gap)` of the infimum
  obtain ⟨ε, hε, hε45, hεlim⟩ : ∃ ε : ℝ, 0 < ε ∧ ε ≤ 1 / 2 ^ 45 ∧ (lim.1 = posInf ∨ rho E e + ε + slack ≤ val lim.1) := by
    rcases hn with hi | hlt
    · exact ⟨1 / 2 ^ 45, by positivity, le_refl _, Or.inl hi⟩
    · refine ⟨min (1 / 2 ^ 45) (val lim.1 - rho E e - slack), lt_min (by positivity) (by linarith), min_le_left _ _, Or.inr ?_⟩
      have := min_le_right ((1 : ℝ) / 2 ^ 45) (val lim.1 - rho E e - slack)
      linarith
  obtain ⟨q, r, hq, hrarc, hlt⟩ := exists_near_rho H he hε
  obtain ⟨x, es, hl, hes, hin⟩ := h1 e he r hrarc
  have hl' : E.ix.lookup x = some es := hl
  have hr1 : r.n2 = 1 := S2Proofs.C12Dist2.onArc_n2 hrarc
  have hxm := Roots.lookup_mem_ids E.ix hl'
  have hnear : PtNear E r lim := by
    rcases hεlim with hi | hle
    · exact Or.inl hi
    · right; exact ⟨q, hq, by linarith⟩
  refine ⟨q, r, hq, hrarc, by linarith, x, es, hl', hes, hr lim x hxm r hr1 hin hnear, ?_⟩
  intro y hy hyx
  exact regions_nested y x hy (hcells.valid x hxm) hyx _ hin

theorem rootsCover_of_inf_fin (hi : RootsCoverInf E) (hf : RootsCoverFin E) : RootsCover E := by
  intro lim x hx r hr1 hin hn
  rcases chord_fin_or_inf lim with hl | hl
  · rcases hn with h | h
    · exact absurd h (fin_ne_inf hl)
    · exact hf lim hl x hx r hr1 hin h
  · have : lim = cinf := Subtype.ext hl
    subst this
    exact hi x hx

theorem indexOK_of_parts (H : CellTargetOK E) (hcells : IndexCellsOK (Roots.ids E.ix))
    (hroots : ∀ lim, ∀ c ∈ E.rootIds lim, isValid c = true) (hdepth : 30 ≤ E.depth)
    (hes : ∀ x es, E.ix.lookup x = some es → ∀ e ∈ es, e ∈ E.allEdges)
    (hloc : ∀ es, E.located = some es → ∀ e ∈ es, e ∈ E.allEdges)
    (h1 : I1Arc E.toPoint) (hr : RootsCover E) : IndexOK E where
  cellsOK := hcells
  rootsValid := hroots
  depth := hdepth
  edgesSound := hes
  locatedSound := hloc
  covered := closestCovered_of_arc_roots H hcells h1 hr

/-- **the concrete cell-target world is a `SlackWorld`** for `Near` = "truly closer than the limit by more than `slack = 2^-44`" -/
theorem cell_slackWorld (H : CellTargetOK E) (HI : IndexOK E) : Slack.SlackWorld chordI (world E) (Near E) where
  nearMono := near_mono E
  edgeLt e he lim x h := (edge_some H he h).2.2.2.1
  edgeVal e he lim x h := by
    obtain ⟨f, _, _, _, hle⟩ := edge_some H he h
    exact not_near_of_le f hle
  edgeNone e he lim h := by
    obtain ⟨f, hle⟩ := edge_none H he h
    exact not_near_of_le f hle
  reach lim e he hn := by
    obtain ⟨q, r, hq, hrarc, hρ, x, es, hl, hes, ⟨c, hc, hcx⟩, hin⟩ := HI.covered lim e he hn
    obtain ⟨k, hk⟩ := (isValid_iff c).mp (HI.rootsValid lim c hc)
    have hxm := Roots.lookup_mem_ids E.ix hl
    obtain ⟨j, hj⟩ := (isValid_iff x).mp (HI.cellsOK.valid x hxm)
    show Slack.ReachList (Near E) e ((E.rootIds lim).map (Roots.subtree E.ix (updCell E) E.depth))
    apply reachList_of_mem (List.mem_map.2 ⟨c, hc, rfl⟩)
    refine S2Proofs.C08Edge.reach_subtree_from E.ix (updCell E) HI.cellsOK e hl hj hes k ?_ E.depth c k hk hcx (le_refl _) ?_
    · intro y i hy hyx hki
      have hyv : isValid y = true := (isValid_iff y).mpr ⟨i, hy⟩
      have hlv : level c ≤ level y := by rw [hk.level_eq, hy.level_eq]; exact hki
      exact cell_good H ⟨hyv, x, hxm, hyx, lim, c, hc, hcx, hlv⟩ he hq (hin y hyv hyx) hρ
    · have := hj.k_le; have := HI.depth; omega
  rootsSound lim e he := by
    obtain ⟨c, hc, hec⟩ := Roots.exists_of_mem_edgesUnderList he
    obtain ⟨id, _, rfl⟩ := List.mem_map.1 hc
    obtain ⟨x, es, hl, hes⟩ := Roots.subtree_sound E.ix (updCell E) E.depth id e hec
    exact HI.edgesSound x es hl e hes
  locatedSound := HI.locatedSound
  nonEmptyTarget := rfl
  zeroMin e he := by
    apply not_near_of_le czero_facts.1
    show val czero.1 ≤ _
    rw [czero_facts.2]
    have := rho_nonneg H he
    unfold slack; linarith [show (0 : ℝ) ≤ 1 / 2 ^ 44 by positivity]

/-- the proviso of c12dist2's `distanceToEdge_attained_partial` for edge `e`: `DistanceToEdge(target cell, e)` does not return from its
    crossing loop (an endpoint distance is 0, or all four `ChainCrossingSign` answer `DoNotCross`).  Decidable on the floats. -/
def AttainedProviso (E : CellIndex) (e : EdgeKey) : Prop :=
  F64.feq (CellM.minChord (CellM.distance (tcell E) (E.vert e).1) [CellM.distance (tcell E) (E.vert e).2]) CellM.fzero = true ∨
  CellEdgeM.anyCrossing (Crosser.initChain (E.vert e).1 (E.vert e).2 (CellM.vertex (tcell E) 3)) (CellEdgeM.vertices (tcell E)) = false

instance (E : CellIndex) (e : EdgeKey) : Decidable (AttainedProviso E e) := by unfold AttainedProviso; infer_instance

/-- **under the proviso the float `DistanceToEdge` is also not BELOW the exact distance by more than `2^-45`** (c12dist2
    `distanceToEdge_attained_partial`; the missing branch is the `return 0` of the crossing loop) -/
theorem rho_le_edgeDist (H : CellTargetOK E) {e : EdgeKey} (he : e ∈ E.allEdges) (hp : AttainedProviso E e) :
    rho E e ≤ val (edgeDist E e) + 1 / 2 ^ 45 := by
  obtain ⟨ha, hb, hE, hV⟩ := H.edges e he
  obtain ⟨q, r, hq, hr, hle⟩ := S2Proofs.C12.distanceToEdge_attained_partial E.tid H.valid _ _ ha hb hE hV hp
  exact le_trans (rho_le H e hq hr) hle

/-- `SubLawsOn` for MaxError = 0 (the default): `x ⊖ 0 = x` -/
theorem cell_subLawsOn_zero : Slack.SubLawsOn chordI (world E) czero where
  sub_edge e he lim x hu := by
    show cless x (csub x czero) = false
    rw [csub_zero]; exact cless_irrefl _
  sub_zero := by
    show cless czero (csub czero czero) = false
    rw [csub_zero]; exact cless_irrefl _

/-- the values `DistanceToEdge` returns for the index edges are at most 4 (a decidable fact about the floats; NOT proved in general:
    c12dist2 bounds `DistanceToEdge` by `exact + 2^-44` only) -/
def EdgeLe4 (E : CellIndex) : Prop := ∀ e ∈ E.allEdges, val (edgeDist E e) ≤ 4

/-- **`SubLawsOn` for the cell-target world** from the law of `ChordAngle.Sub` on `[0,4]` (c08world2: `chordSubLe_of_subDom`) -/
theorem cell_subLawsOn (H : CellTargetOK E) (h4 : EdgeLe4 E) {err : Chord} (h : ChordSubLe err) :
    Slack.SubLawsOn chordI (world E) err where
  sub_edge e he lim x hu := by
    obtain ⟨f, hv, _⟩ := edge_some H he hu
    exact h x f (by rw [hv]; exact h4 e he)
  sub_zero := by
    show cless czero (csub czero err) = false
    rw [csub_zero_left]; exact cless_irrefl _

end S2Proofs.C08Cell
