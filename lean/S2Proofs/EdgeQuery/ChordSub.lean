/-
  S2Proofs.EdgeQuery.ChordSub — `minDistance.sub` = `ChordAngle.Sub` on the bit-exact soft-float, as the single-result
  search uses it (`distanceLimit = result.distance.sub(maxError)`), package c08world2 goal 2.

  FINDING (model = implementation, checked against `/repo`, see the `example`s): the law `x ⊖ e ≤ x` that the search
  relies on ("the limit after a result is not above the result") is FALSE for `ChordAngle.Sub` in floating point
    (a) for receivers above 4 (not a valid chord angle): `Sub(5, 1) = NaN`  (`x > 0 > y`, `Sqrt(x*y)` of a negative);
    (b) INSIDE the valid range, for tiny operands, by underflow: `Sub(2^-1000, 2^-1001) = 1.5·2^-1000 > 2^-1000`
        (`x*y` underflows to 0, so the result is `x + y`); likewise `Sub(1e-300, 0.9e-300) = 1.9e-300`.
  Hence `SubLaws chordI err` (for ALL receivers) cannot be proved for `err ≠ 0`.  What the search needs
  (`Slack.SubLawsOn`) is the law for the values `UpdateMinDistance` returns (finite, in [0,4]) and for zero:
  `ChordSubLe err`.  It is PROVED here for `err = 0`, `err = +Inf` and every `err ≥ 4` (in particular
  `StraightChordAngle`, the `IsDistanceLess` family), and in `ChordSubCore.lean` for EVERY finite `err ≥ 2^-400`
  (`chordSubLe_of_ge`, `chordSubLe_of_subDom`: float analysis of the main branch).
-/
import S2Proofs.EdgeQuery.PointWorld2Defs
import S2Proofs.CapF64.ChordAdd

set_option linter.unusedSimpArgs false
set_option linter.unusedVariables false

namespace S2Proofs.C08World
open S2 S2.Exact S2.EdgeNum S2.EdgeQueryM S2Proofs.F64Order S2Proofs.FloatErr S2Proofs.EdgeQuery
open S2Proofs.C17Err S2Proofs.C17 S2.Generated.DistTargetFns

/-! ## the counterexamples (kernel-checked on the bit-exact model; the same bits come out of `/repo`) -/

/-- (a) receiver 5.0 (above the valid range), error 1.0: the result is NaN -/
example : (ChordAngle_Sub ⟨0x4014000000000000⟩ ⟨0x3FF0000000000000⟩).isNaN = true := by decide +kernel

/-- (b) receiver `2^-1000`, error `2^-1001`, both valid chord angles: the result `1.5·2^-1000` EXCEEDS the receiver -/
example : ChordAngle_Sub ⟨0x0170000000000000⟩ ⟨0x0160000000000000⟩ = ⟨0x0178000000000000⟩ ∧
    F64.lt ⟨0x0170000000000000⟩ (ChordAngle_Sub ⟨0x0170000000000000⟩ ⟨0x0160000000000000⟩) = true := by
  decide +kernel

/-- … so `SubLaws chordI err` is FALSE for `err = 2^-1001` -/
theorem subLaws_false_tiny :
    ¬ SubLaws chordI (⟨⟨0x0160000000000000⟩, by decide⟩ : Chord) := by
  intro h
  have := h.sub_le (⟨⟨0x0170000000000000⟩, by decide⟩ : Chord)
  revert this
  decide +kernel

/-- … and for `err = 1.0` (receiver 5.0) -/
theorem subLaws_false_one :
    ¬ SubLaws chordI (⟨⟨0x3FF0000000000000⟩, by decide⟩ : Chord) := by
  intro h
  have := h.sub_le (⟨⟨0x4014000000000000⟩, by decide⟩ : Chord)
  revert this
  decide +kernel

/-! ## the law on the values the search produces -/

/-- `x ⊖ err ≤ x` (Go's `<` fails) for every FINITE receiver in `[0,4]` -/
def ChordSubLe (err : Chord) : Prop :=
  ∀ x : Chord, Fin x.1 → val x.1 ≤ 4 → cless x (csub x err) = false

theorem le_fin_inf {x : F64} (hx : Fin x) : F64.le x posInf = true := by
  obtain ⟨a, b, c, _⟩ := inf_facts
  unfold F64.le F64.cmp
  simp [isNaN_false hx, isInf_false hx, a, b, c]

theorem feq_inf_zero : F64.feq posInf (⟨0x0000000000000000⟩ : F64) = false := by decide

theorem czero_val_eq : czero.1 = (⟨0x0000000000000000⟩ : F64) := rfl

/-- a chord is `≥ +0` in Go's `<=` -/
theorem le_zero_chord (e : Chord) : F64.le (⟨0x0000000000000000⟩ : F64) e.1 = true := by
  show F64.le czero.1 e.1 = true
  rcases chord_lim_ok e with ⟨hf, h0⟩ | hi
  · rw [le_val czero_facts.1 hf, czero_facts.2]; exact h0
  · have : e.1 = posInf := hi
    rw [this]; exact le_fin_inf czero_facts.1

/-- `0 ⊖ e = 0` -/
theorem csub_zero_left (e : Chord) : csub czero e = czero := by
  unfold csub
  have hne : ¬ czero.1 = posInf := by decide
  rw [if_neg hne]
  have : ChordAngle_Sub czero.1 e.1 = czero.1 := by
    unfold ChordAngle_Sub
    split
    · rfl
    · rw [if_pos (show F64.le czero.1 e.1 = true from le_zero_chord e)]; rfl
  rw [this, canon_of_chord czero.2]

/-- `+Inf ⊖ e = +Inf` (the `IsInfinity()` guard of `minDistance.sub`) -/
theorem csub_inf_left (e : Chord) : csub cinf e = cinf := by
  unfold csub; rw [if_pos (show cinf.1 = posInf from rfl)]

/-- a receiver not above the error goes to zero -/
theorem csub_of_le {x e : Chord} (hx : Fin x.1) (hne : F64.feq e.1 (⟨0x0000000000000000⟩ : F64) = false)
    (hle : F64.le x.1 e.1 = true) : csub x e = czero := by
  unfold csub
  rw [if_neg (fin_ne_inf hx)]
  have : ChordAngle_Sub x.1 e.1 = czero.1 := by
    unfold ChordAngle_Sub
    rw [if_neg (by rw [hne]; simp), if_pos hle]; rfl
  rw [this, canon_of_chord czero.2]

/-- nothing is below zero -/
theorem cless_czero (x : Chord) : cless x czero = false := by
  unfold cless
  rcases chord_lim_ok x with ⟨hf, h0⟩ | hi
  · cases h : F64.lt x.1 czero.1 with
    | false => rfl
    | true =>
      have := (lt_val hf czero_facts.1).mp h
      rw [czero_facts.2] at this; linarith
  · have : x.1 = posInf := hi
    rw [this]; exact lt_inf_left _

/-- MaxError = 0 -/
theorem chordSubLe_zero : ChordSubLe czero := by
  intro x _ _
  rw [csub_zero]; exact cless_irrefl x

/-- MaxError = +Inf -/
theorem chordSubLe_inf : ChordSubLe cinf := by
  intro x hx _
  rw [csub_of_le (e := cinf) hx feq_inf_zero (le_fin_inf hx)]
  exact cless_czero x

/-- every finite MaxError `≥ 4` — in particular `StraightChordAngle = 4` (`IsDistanceLess`, `IsDistanceGreater`, …): the
    receiver (≤ 4) is not above it, the result is zero -/
theorem chordSubLe_of_ge4 (e : Chord) (hf : Fin e.1) (h4 : 4 ≤ val e.1) : ChordSubLe e := by
  intro x hx hx4
  have hne : F64.feq e.1 (⟨0x0000000000000000⟩ : F64) = false := by
    cases h : F64.feq e.1 (⟨0x0000000000000000⟩ : F64) with
    | false => rfl
    | true =>
      have hz := czero_facts
      rw [czero_val_eq] at hz
      have := (S2Proofs.CapF64.CA.feq_iff_val hf hz.1).mp h
      rw [hz.2] at this; linarith
  rw [csub_of_le hx hne ((le_val hx hf).mpr (by linarith))]
  exact cless_czero x

/-- `StraightChordAngle` -/
def cstraight : Chord := ⟨⟨0x4010000000000000⟩, by decide⟩

theorem cstraight_facts : Fin cstraight.1 ∧ val cstraight.1 = 4 := by
  have h : Fin cstraight.1 ∧ toInt cstraight.1 = 4 * 2 ^ 1074 := by decide +kernel
  refine ⟨h.1, ?_⟩
  unfold val; rw [h.2]; push_cast; field_simp

theorem chordSubLe_straight : ChordSubLe cstraight :=
  chordSubLe_of_ge4 cstraight cstraight_facts.1 (by rw [cstraight_facts.2])

/-! ## from `ChordSubLe` to the law the search uses -/

variable {P : PointIndex}

/-- the value `updateDistanceToEdge` returns is a finite chord in `[0,4]` -/
theorem edge_some_le4 (H : EdgesOK P) {e : EdgeKey} (he : e ∈ P.allEdges) {lim x : Chord}
    (h : updEdge P e lim = some x) : Fin x.1 ∧ val x.1 ≤ 4 := by
  obtain ⟨h2, hx⟩ := updEdge_some h
  obtain ⟨c1, _⟩ := updateMin_contract P.p (P.vert e).1 (P.vert e).2 H.target (H.v0 e he) (H.v1 e he)
    (H.edgeOK e he) (H.margin e he) lim.1 (chord_lim_ok lim)
  obtain ⟨f, nn, le4, hlt, _⟩ := c1 h2
  obtain ⟨cf, cv⟩ := canon_fin f
  rw [max_eq_left nn] at cv
  rw [if_pos hlt] at hx
  subst hx
  exact ⟨cf, by rw [cv]; exact le4⟩

/-- **`SubLawsOn` for the point-target world** from the law on `[0,4]` -/
theorem point_subLawsOn (HE : EdgesOK P) {err : Chord} (h : ChordSubLe err) :
    Slack.SubLawsOn chordI (world P) err where
  sub_edge e he lim x hu := by
    obtain ⟨f, l4⟩ := edge_some_le4 HE he hu
    exact h x f l4
  sub_zero := by
    show cless czero (csub czero err) = false
    rw [csub_zero_left]; exact cless_irrefl _

-- non-vacuity: the evaluation of `2 ⊖ 1` (= 2 − √3 as a squared chord) on the model
example : (csub (⟨⟨0x4000000000000000⟩, by decide⟩ : Chord) (⟨⟨0x3FF0000000000000⟩, by decide⟩ : Chord)).1 =
    ⟨0x3FD126145E9ECD58⟩ := by decide +kernel

end S2Proofs.C08World
