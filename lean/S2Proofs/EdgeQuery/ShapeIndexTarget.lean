/-
  S2Proofs.EdgeQuery.ShapeIndexTarget — where `WorldApprox.approxEdge` / `approxEdgeNone` come from:
  `Min/MaxDistanceToShapeIndexTarget.updateDistanceToEdge(edge, dist)` runs the target's OWN edge
  query (an `EdgeQuery` over the target index, options `maxError = ε` as set by `setMaxError`,
  `distanceLimit = dist`) with the EXACT target `MinDistanceToEdgeTarget(edge)` and returns its
  single result.  From the proved `MaxResults = 1` theorems of the inner query (exact world):
  "ok, x" ⇒ `x` within the limit, `true ≤ x`, `x − ε ≤ true`;  "not ok" ⇒ `true` is not within the
  limit — where `true` is the exact distance between the edge and the target index (`DistSpec`).
  Core-only.
-/
import S2.EdgeQueryM
import S2Proofs.EdgeQuery.SearchSingle
set_option linter.unusedSectionVars false
open S2 S2.EdgeQueryM
namespace S2Proofs.EdgeQuery
namespace ShapeIndexTarget
open Single

variable {D : Type} [DecidableEq D]

/-- `updateDistanceToEdge` of a shape-index target: `oi` = options of the target's query (with the
    `maxError` that `setMaxError` stored), `wi` = the target index as seen from the edge target.
    `r.shapeID < 0` ⇒ `(dist, false)`, else `(r.distance, true)`. -/
def updEdge (I : DistI D) (oi : Opts D) (wi : World D) (lim : D) : Option D :=
  match findEdge I { oi with distanceLimit := lim } wi with
  | some r => if r.shape < 0 then none else some r.dist
  | none => none

/-- first result, or `newEdgeQueryResult` (distance infinity, ids −1) -/
def headOr (I : DistI D) (rs : List (Result D)) : Result D :=
  match rs with
  | r :: _ => r
  | [] => ⟨I.infinity, -1, -1⟩

theorem findEdge_eq (I : DistI D) (o : Opts D) (w : World D) :
    findEdge I o w = (findEdges I { o with maxResults := 1 } w).map (headOr I) := by
  unfold findEdge
  cases findEdges I { o with maxResults := 1 } w with
  | none => rfl
  | some rs => cases rs <;> rfl

variable {I : DistI D} {oi : Opts D} {wi : World D} {di : EdgeKey → D}

/-- THE CONTRACT `WorldApprox` ASSUMES OF A TARGET THAT USES MaxError, derived for shape-index
    targets.  `dtrue` is the exact distance from the edge to the target index (`DistSpec` of an
    unbounded search); limits are between `zero` and `infinity` (the search only hands out the
    option's limit or `reported − maxError`). -/
theorem updEdge_contract (O : DistOrder I) (S : SubLaws I oi.maxError)
    (hU : oi.targetUsesMaxError = false) (H : WorldOK I wi di)
    (hsh : ∀ f ∈ wi.allEdges, 0 ≤ f.shape) (hin : ∀ sh ∈ wi.interiors, 0 ≤ sh)
    {dtrue : D} (hd : DistSpec I { oi with distanceLimit := I.infinity } wi di dtrue)
    (hinf : I.less I.zero I.infinity = true) {lim : D}
    (hlim : I.less I.infinity lim = false) (hl0 : I.less lim I.zero = false) :
    (∀ x, updEdge I oi wi lim = some x →
      I.less x lim = true ∧ I.less x dtrue = false ∧ I.less dtrue (I.sub x oi.maxError) = false) ∧
    (updEdge I oi wi lim = none → I.less dtrue lim = false) := by
  have hne : I.infinity ≠ I.zero := by
    intro h; rw [h, O.irrefl] at hinf; cases hinf
  -- the inner single-result search
  obtain ⟨rs, hrs⟩ := findEdges_total I { oi with distanceLimit := lim, maxResults := 1 } wi
  have S' : SubLaws I ({ oi with distanceLimit := lim, maxResults := 1 } : Opts D).maxError := S
  have k1 := single_length (I := I) (o := { oi with distanceLimit := lim, maxResults := 1 }) rfl hrs
  have k2 := single_sound (o := { oi with distanceLimit := lim, maxResults := 1 }) O S' H rfl hU hrs
  have k3 := single_optimal (o := { oi with distanceLimit := lim, maxResults := 1 }) O S' H rfl hU hrs
  have k4 := single_complete (o := { oi with distanceLimit := lim, maxResults := 1 }) O S' H rfl hU hrs
  have k4i := single_interior (o := { oi with distanceLimit := lim, maxResults := 1 }) O S' H rfl hU hrs
  have k0 := single_zero_limit (o := { oi with distanceLimit := lim, maxResults := 1 }) O S' H rfl hU hrs
  -- the three shapes of the true distance
  have htrue : (oi.includeInteriors = true ∧ wi.interiors ≠ [] ∧ dtrue = I.zero) ∨
      (¬ (oi.includeInteriors = true ∧ wi.interiors ≠ []) ∧ dtrue = I.infinity ∧
        ∀ f ∈ wi.allEdges, I.less (di f) I.infinity = false) ∨
      (¬ (oi.includeInteriors = true ∧ wi.interiors ≠ []) ∧ ∃ f ∈ wi.allEdges, dtrue = di f ∧
        ∀ f' ∈ wi.allEdges, I.less (di f') dtrue = false) := by
    by_cases hi : oi.includeInteriors = true ∧ wi.interiors ≠ []
    · exact Or.inl ⟨hi.1, hi.2, hd.interior hne hi.1 hi.2⟩
    · rcases hd.edges hne hi with ⟨a, b⟩ | ⟨f, hf, a, _, c⟩
      · exact Or.inr (Or.inl ⟨hi, a, b⟩)
      · exact Or.inr (Or.inr ⟨hi, f, hf, a, c⟩)
  have hfe : findEdge I { oi with distanceLimit := lim } wi = some (headOr I rs) := by
    rw [findEdge_eq]
    show (findEdges I { oi with distanceLimit := lim, maxResults := 1 } wi).map (headOr I) = _
    rw [hrs]; rfl
  cases rs with
  | nil =>
    have hfe' : findEdge I { oi with distanceLimit := lim } wi = some ⟨I.infinity, -1, -1⟩ := hfe
    unfold updEdge
    rw [hfe']
    simp only
    refine ⟨fun x hx => by simp at hx, fun _ => ?_⟩
    have hcomp := k4 rfl
    rcases htrue with ⟨hi, hne', h0⟩ | ⟨_, hinf', _⟩ | ⟨_, f, hf, hdf, _⟩
    · -- interiors would have produced a result unless the limit is zero
      by_cases hz : lim = I.zero
      · rw [h0, hz]; exact O.irrefl _
      · obtain ⟨r, hr, _⟩ := k4i hi hne' hz
        cases hr
    · rw [hinf']; exact hlim
    · rw [hdf]; exact hcomp f hf
  | cons r rest =>
    have hfe' : findEdge I { oi with distanceLimit := lim } wi = some r := hfe
    unfold updEdge
    rw [hfe']
    simp only
    have hr : r ∈ r :: rest := by simp
    have hz : lim ≠ I.zero := fun h0 => by cases k0 h0
    have hzl : I.less I.zero lim = true := by
      rcases O.tri _ _ hz with h | h
      · rw [hl0] at h; cases h
      · exact h
    have hshape : ¬ r.shape < 0 := by
      rcases k2 r hr with ⟨_, _, _, a⟩ | ⟨f, hf, a, _⟩
      · have := hin _ a; omega
      · have := hsh f hf; rw [a]; simp only; omega
    simp only [if_neg hshape]
    refine ⟨?_, fun h => by cases h⟩
    intro x hx
    simp only [Option.some.injEq] at hx
    subst hx
    have hopt := k3 r hr
    rcases k2 r hr with ⟨hi, h0, _, hmem⟩ | ⟨f, hf, a, hwl⟩
    · -- interior result: distance zero, and then the true distance is zero
      have hne' := List.ne_nil_of_mem hmem
      rcases htrue with ⟨_, _, ht0⟩ | ⟨hn, _⟩ | ⟨hn, _⟩
      · rw [h0, ht0]
        exact ⟨hzl, O.irrefl _, S.sub_le _⟩
      · exact absurd ⟨hi, hne'⟩ hn
      · exact absurd ⟨hi, hne'⟩ hn
    · have hrd : r.dist = di f := by rw [a]
      rw [hrd]
      refine ⟨hwl, ?_, ?_⟩
      · rcases htrue with ⟨_, _, ht0⟩ | ⟨_, hinf', hall⟩ | ⟨_, f0, _, hdf, hmin⟩
        · rw [ht0]; exact H.zeroMin f
        · rw [hinf']; exact hall f hf
        · exact hmin f hf
      · rcases htrue with ⟨hi, hne', ht0⟩ | ⟨_, _, hall⟩ | ⟨_, f0, hf0, hdf, _⟩
        · -- with interiors the single result is at distance zero
          obtain ⟨r', hr', hz'⟩ := k4i hi hne' hz
          have : r' = r := by
            cases rest with
            | nil => simpa using hr'
            | cons _ _ => simp at k1
          subst this
          rw [ht0, ← hrd, hz']
          exact S.sub_le _
        · -- no edge is within infinity, but `f` is within `lim ≤ infinity`
          have := ord_lt_of_lt_of_le O hwl hlim
          rw [hall f hf] at this; cases this
        · rw [hdf, ← hrd]; exact hopt f0 hf0

end ShapeIndexTarget
end S2Proofs.EdgeQuery
