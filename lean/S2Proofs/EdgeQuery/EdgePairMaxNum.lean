/-
  S2Proofs.EdgeQuery.EdgePairMaxNum — the FLAG-AWARE contract of `updateEdgePairMaxDistance(a0, a1, b0, b1, maxDist)`
  (s2/edge_distances.go; bit-exact model `S2.EdgeNum.updateEdgePairMaxDistance`) that the furthest-edge search for an EDGE target needs
  (package c08more; the max-twin of `EdgePairNum.lean`).

  c17pairs2's `edgePairMax_within_partial` bounds the VALUE; the search also needs the FLAG: "ok ⇒ the value is strictly greater than the
  old one (Go's `>`)", "not ok ⇒ the old value is already at least the exact maximum − err".  Every `UpdateMaxDistance` call is
  `if maxDist < candidate { (candidate, true) } else { (maxDist, false) }` (`updateMaxDistance_eq`), so the chain of four calls is a running
  maximum; the per-call bounds are c12max's `maxCall_lower` / `CallUpper` (`maxCallErr = 205u`, one side needs the exclusion of the
  right-angle class F10 or a short edge).  All three exits (`maxDist == 4`, `CrossingSign(a0,a1,−b0,−b1) == Cross`, chain) are covered.
-/
import S2Proofs.Properties.C17_Pairs2
import S2Proofs.C12Dist2.MaxCellAttained
import S2Proofs.C12Dist2.MaxCallShort
import S2Proofs.F64Round.Carrier

set_option linter.unusedSimpArgs false
set_option linter.unusedVariables false

namespace S2Proofs.C08FarEdge
open S2 S2.Exact S2.EdgeNum S2Proofs.F64Order S2Proofs.FloatErr
open S2Proofs.C17Err S2Proofs.C17 S2Proofs.C17Pairs S2Proofs.C12Dist2

/-- one call `UpdateMaxDistance(x, a, b, ·)` in the domain of c17err (for the antipode `−x`), with the candidate not below the true maximum − 205u:
    either outside the right-angle class F10 (`beyondRightAngle = false ∧ 2 < maxEndpointTrue`: the code keeps the endpoint value although the true
    larger endpoint chord exceeds 2) or for an edge of at most 120° (`EdgeShort`) -/
structure MaxCall (x a b : V3) : Prop where
  anti : AntiCallOK x a b
  notClass : ¬ (beyondRightAngle x a b = false ∧ 2 < maxEndpointTrue x a b) ∨ EdgeShort a b

theorem MaxCall.upper {x a b : V3} (h : MaxCall x a b) : CallUpper x a b := by
  obtain ⟨⟨hx, ha, hb, hE, hM⟩, hc⟩ := h
  rcases hc with h | h
  · exact callUpper_of_maxCallOK ⟨hx, ha, hb, hE, hM, h⟩
  · exact maxCall_upper_short hx ha hb hE hM h

/-- two-sided bound of the candidate -/
theorem MaxCall.cand {x a b : V3} (h : MaxCall x a b) :
    Fin (maxCandidate x a b) ∧ |val (maxCandidate x a b) - trueMaxDist2 x a b| ≤ maxCallErr ∧ 0 ≤ trueMaxDist2 x a b := by
  obtain ⟨fc, hlo, h0⟩ := maxCall_lower h.anti
  have hup := h.upper.up
  refine ⟨fc, ?_, h0⟩
  rw [abs_le]; constructor <;> linarith

theorem toInt_nonneg_of_val {d : F64} (h0 : 0 ≤ val d) : 0 ≤ toInt d := by
  have hpos : (0 : ℝ) < 2 ^ 1074 := by positivity
  have : (0 : ℝ) ≤ (toInt d : ℝ) := by
    have h := h0
    unfold val at h
    rcases le_or_gt 0 (toInt d : ℝ) with h' | h'
    · exact h'
    · exact absurd h (not_le.mpr (div_neg_of_neg_of_pos h' hpos))
  exact_mod_cast this

/-- the candidate of `UpdateMaxDistance` never exceeds 4 (`StraightChordAngle`): it is an endpoint chord (clamped at 4 by
    `ChordAngleBetweenPoints`) or `4 ⊖ d` with a non-negative `d` (rounding is monotone) -/
theorem MaxCall.cand_le4 {x a b : V3} (h : MaxCall x a b) : val (maxCandidate x a b) ≤ 4 := by
  obtain ⟨fc, _, _⟩ := h.cand
  obtain ⟨hx, ha, hb, hE, hM⟩ := h.anti
  cases hbr : beyondRightAngle x a b
  · rw [maxCandidate_near x a b hbr]
    exact (maxEndpoint_spec hx ha hb).2.2.1
  · rw [maxCandidate_antipode_chord x a b hbr] at fc ⊢
    have hc : CallOK (negV x) a b := ⟨unitWithin_negV hx, ha, hb, hE, hM⟩
    obtain ⟨fd, d0, _⟩ := always_bound hc
    have hle : F64.le (F64.sub f4 (distanceFromSegmentChord (negV x) a b)) f4 = true :=
      S2Proofs.F64Round.sub_le_of_nonneg f4_facts.1 fd (toInt_nonneg_of_val d0)
    have := (le_val fc f4_facts.1).mp hle
    rw [f4_facts.2] at this
    exact this

/-- the pair (target edge `a0a1`, index edge `b0b1`): the four calls, and "a `Cross` answer of `CrossingSign(a0,a1,−b0,−b1)` is given on two
    different great circles" (c17pairs2 §3.2) -/
structure PairMaxOK (a0 a1 b0 b1 : V3) : Prop where
  c1 : MaxCall a0 b0 b1
  c2 : MaxCall a1 b0 b1
  c3 : MaxCall b0 a0 a1
  c4 : MaxCall b1 a0 a1
  cross : crosses a0 a1 (negV b0) (negV b1) = true → CirclesDifferZ a0 a1 (negV b0) (negV b1)

/-- one step of the running maximum, with the flag -/
theorem step_flag (x a b : V3) {m : F64} (hm : Fin m) (hc : Fin (maxCandidate x a b)) :
    Fin (updateMaxDistance x a b m).1 ∧
    val (updateMaxDistance x a b m).1 = max (val m) (val (maxCandidate x a b)) ∧
    ((updateMaxDistance x a b m).2 = true → val m < val (updateMaxDistance x a b m).1) ∧
    ((updateMaxDistance x a b m).2 = false → (updateMaxDistance x a b m).1 = m) := by
  obtain ⟨f, v⟩ := maxStep (x := x) (a := a) (b := b) hm hc
  refine ⟨f, v, ?_, ?_⟩
  · intro h2
    have := updateMaxDistance_true_lt x a b m h2
    exact (lt_val hm f).mp this
  · rw [updateMaxDistance_eq]
    split_ifs with h <;> simp

theorem f4_val : Fin f4 ∧ val f4 = 4 := f4_facts

theorem feq_val {x y : F64} (hx : Fin x) (hy : Fin y) : F64.feq x y = true ↔ val x = val y := by
  rw [feq_iff hx hy]
  unfold val
  constructor
  · intro h; rw [h]
  · intro h
    have h2 : (2 : ℝ) ^ 1074 ≠ 0 := by positivity
    have := (div_left_inj' h2).mp h
    exact_mod_cast this

/-- the chain of four calls (no early exit) -/
theorem chain_contract {a0 a1 b0 b1 : V3} (P : PairMaxOK a0 a1 b0 b1)
    (hc : crosses a0 a1 (negV b0) (negV b1) = false) (m : F64) (hm : Fin m) :
    let r1 := updateMaxDistance a0 b0 b1 m
    let r2 := updateMaxDistance a1 b0 b1 r1.1
    let r3 := updateMaxDistance b0 a0 a1 r2.1
    let r4 := updateMaxDistance b1 a0 a1 r3.1
    ((r1.2 || r2.2 || r3.2 || r4.2) = true →
      Fin r4.1 ∧ val m < val r4.1 ∧ |val r4.1 - truePairMaxDist2 a0 a1 b0 b1| ≤ maxCallErr) ∧
    ((r1.2 || r2.2 || r3.2 || r4.2) = false →
      val r4.1 = val m ∧ truePairMaxDist2 a0 a1 b0 b1 ≤ val m + maxCallErr) ∧
    (val m ≤ 4 → val r4.1 ≤ 4) := by
  intro r1 r2 r3 r4
  obtain ⟨fc1, e1, _⟩ := P.c1.cand
  obtain ⟨fc2, e2, _⟩ := P.c2.cand
  obtain ⟨fc3, e3, _⟩ := P.c3.cand
  obtain ⟨fc4, e4, _⟩ := P.c4.cand
  obtain ⟨f1, v1, t1, n1⟩ := step_flag a0 b0 b1 hm fc1
  obtain ⟨f2, v2, t2, n2⟩ := step_flag a1 b0 b1 f1 fc2
  obtain ⟨f3, v3, t3, n3⟩ := step_flag b0 a0 a1 f2 fc3
  obtain ⟨f4', v4, t4, n4⟩ := step_flag b1 a0 a1 f3 fc4
  change Fin r1.1 at f1; change Fin r2.1 at f2; change Fin r3.1 at f3; change Fin r4.1 at f4'
  change val r1.1 = _ at v1; change val r2.1 = max (val r1.1) _ at v2
  change val r3.1 = max (val r2.1) _ at v3; change val r4.1 = max (val r3.1) _ at v4
  change r1.2 = true → val m < val r1.1 at t1; change r2.2 = true → val r1.1 < val r2.1 at t2
  change r3.2 = true → val r2.1 < val r3.1 at t3; change r4.2 = true → val r3.1 < val r4.1 at t4
  change r1.2 = false → r1.1 = m at n1; change r2.2 = false → r2.1 = r1.1 at n2
  change r3.2 = false → r3.1 = r2.1 at n3; change r4.2 = false → r4.1 = r3.1 at n4
  have hT : truePairMaxDist2 a0 a1 b0 b1 =
      max (max (trueMaxDist2 a0 b0 b1) (trueMaxDist2 a1 b0 b1)) (max (trueMaxDist2 b0 a0 a1) (trueMaxDist2 b1 a0 a1)) := by
    rw [noncrossing_truePairMaxDist2 a0 a1 b0 b1 P.c1.anti.hx P.c2.anti.hx P.c3.anti.hx P.c4.anti.hx hc]; rfl
  obtain ⟨l1, u1⟩ := abs_le.mp e1
  obtain ⟨l2, u2⟩ := abs_le.mp e2
  obtain ⟨l3, u3⟩ := abs_le.mp e3
  obtain ⟨l4, u4⟩ := abs_le.mp e4
  have g1 : val m ≤ val r1.1 := by rw [v1]; exact le_max_left _ _
  have g2 : val r1.1 ≤ val r2.1 := by rw [v2]; exact le_max_left _ _
  have g3 : val r2.1 ≤ val r3.1 := by rw [v3]; exact le_max_left _ _
  have g4 : val r3.1 ≤ val r4.1 := by rw [v4]; exact le_max_left _ _
  have k1 : val (maxCandidate a0 b0 b1) ≤ val r1.1 := by rw [v1]; exact le_max_right _ _
  have k2 : val (maxCandidate a1 b0 b1) ≤ val r2.1 := by rw [v2]; exact le_max_right _ _
  have k3 : val (maxCandidate b0 a0 a1) ≤ val r3.1 := by rw [v3]; exact le_max_right _ _
  have k4 : val (maxCandidate b1 a0 a1) ≤ val r4.1 := by rw [v4]; exact le_max_right _ _
  have hlow : truePairMaxDist2 a0 a1 b0 b1 ≤ val r4.1 + maxCallErr := by
    rw [hT]
    refine max_le (max_le ?_ ?_) (max_le ?_ ?_) <;> linarith
  have hTa : trueMaxDist2 a0 b0 b1 ≤ truePairMaxDist2 a0 a1 b0 b1 := by
    rw [hT]; exact le_trans (le_max_left _ _) (le_max_left _ _)
  have hTb : trueMaxDist2 a1 b0 b1 ≤ truePairMaxDist2 a0 a1 b0 b1 := by
    rw [hT]; exact le_trans (le_max_right _ _) (le_max_left _ _)
  have hTc : trueMaxDist2 b0 a0 a1 ≤ truePairMaxDist2 a0 a1 b0 b1 := by
    rw [hT]; exact le_trans (le_max_left _ _) (le_max_right _ _)
  have hTd : trueMaxDist2 b1 a0 a1 ≤ truePairMaxDist2 a0 a1 b0 b1 := by
    rw [hT]; exact le_trans (le_max_right _ _) (le_max_right _ _)
  refine ⟨?_, ?_, ?_⟩
  rotate_left 2
  · intro hm4
    have q1 := P.c1.cand_le4
    have q2 := P.c2.cand_le4
    have q3 := P.c3.cand_le4
    have q4 := P.c4.cand_le4
    rw [v4, v3, v2, v1]
    exact max_le (max_le (max_le (max_le hm4 q1) q2) q3) q4
  · intro hflag
    have hany : r1.2 = true ∨ r2.2 = true ∨ r3.2 = true ∨ r4.2 = true := by
      revert hflag
      cases r1.2 <;> cases r2.2 <;> cases r3.2 <;> cases r4.2 <;> simp
    have hgt : val m < val r4.1 := by
      rcases hany with h | h | h | h
      · have := t1 h; linarith
      · have := t2 h; linarith
      · have := t3 h; linarith
      · have := t4 h; linarith
    refine ⟨f4', hgt, ?_⟩
    have hup : val r4.1 ≤ truePairMaxDist2 a0 a1 b0 b1 + maxCallErr := by
      have hr : val r4.1 = max (max (max (max (val m) (val (maxCandidate a0 b0 b1))) (val (maxCandidate a1 b0 b1)))
          (val (maxCandidate b0 a0 a1))) (val (maxCandidate b1 a0 a1)) := by
        rw [v4, v3, v2, v1]
      have hle : val r4.1 ≤ max (val m) (truePairMaxDist2 a0 a1 b0 b1 + maxCallErr) := by
        rw [hr]
        refine max_le (max_le (max_le (max_le (le_max_left _ _) ?_) ?_) ?_) ?_ <;>
          (refine le_trans ?_ (le_max_right _ _); linarith)
      rcases le_max_iff.mp hle with h | h
      · linarith
      · exact h
    rw [abs_le]; constructor <;> linarith
  · intro hflag
    have hall : r1.2 = false ∧ r2.2 = false ∧ r3.2 = false ∧ r4.2 = false := by
      revert hflag
      cases r1.2 <;> cases r2.2 <;> cases r3.2 <;> cases r4.2 <;> simp
    obtain ⟨q1, q2, q3, q4⟩ := hall
    have e4' : r4.1 = m := by rw [n4 q4, n3 q3, n2 q2, n1 q1]
    refine ⟨by rw [e4'], ?_⟩
    rw [e4'] at hlow; exact hlow

/-- **the contract** for a finite old value `m ≤ 4` (a `maxDistance`: −1, or in `[0, 4]`): with `T` = the exact maximum of the squared chord over
    arc × arc (`truePairMaxDist2`, c17pairs2 `truePairMaxDist2_max`),
    * "ok, d"   ⇒ `d` finite, `m < d` (Go's `>`), `d ≤ 4`, `|d − T| ≤ 205u`;
    * "not ok"  ⇒ the returned value equals `m` (as a real number; `4` when `m == 4`), and `T ≤ m + 205u`;
    and `T ≤ 4`. -/
theorem edgePairMax_contract {a0 a1 b0 b1 : V3} (P : PairMaxOK a0 a1 b0 b1) (hB : NotAntipodal (vecR b0) (vecR b1))
    (m : F64) (hm : Fin m) (hm4 : val m ≤ 4) :
    ((updateEdgePairMaxDistance a0 a1 b0 b1 m).2 = true →
      Fin (updateEdgePairMaxDistance a0 a1 b0 b1 m).1 ∧ val m < val (updateEdgePairMaxDistance a0 a1 b0 b1 m).1 ∧
      val (updateEdgePairMaxDistance a0 a1 b0 b1 m).1 ≤ 4 ∧
      |val (updateEdgePairMaxDistance a0 a1 b0 b1 m).1 - truePairMaxDist2 a0 a1 b0 b1| ≤ maxCallErr) ∧
    ((updateEdgePairMaxDistance a0 a1 b0 b1 m).2 = false →
      val (updateEdgePairMaxDistance a0 a1 b0 b1 m).1 = val m ∧ truePairMaxDist2 a0 a1 b0 b1 ≤ val m + maxCallErr) ∧
    truePairMaxDist2 a0 a1 b0 b1 ≤ 4 := by
  have hE0 : (0 : ℝ) ≤ maxCallErr := by unfold maxCallErr uR; positivity
  have hT4 : truePairMaxDist2 a0 a1 b0 b1 ≤ 4 := by
    obtain ⟨_, Pp, Q, hP, hQ, hPQ⟩ := truePairMaxDist2_is_max P.c1.anti.hx P.c2.anti.hx P.c3.anti.hx P.c4.anti.hx hB
    rw [← hPQ]
    exact chordPQ_le_four (S2Proofs.C12Dist2.onArc_n2 hP) (S2Proofs.C12Dist2.onArc_n2 hQ)
  cases hz : F64.feq m f4
  case true =>
    rw [edgePairMax_four_threshold a0 a1 b0 b1 m hz]
    have hv : val m = 4 := by
      have := (feq_val hm f4_val.1).mp hz
      rw [this, f4_val.2]
    refine ⟨fun h => by simp at h, fun _ => ⟨?_, ?_⟩, hT4⟩
    · show val f4 = val m
      rw [f4_val.2, hv]
    · rw [hv]; linarith
  case false =>
    cases hc : crosses a0 a1 (negV b0) (negV b1)
    case true =>
      obtain ⟨e, _, hT⟩ := edgePairMax_crossing_weak a0 a1 b0 b1 m P.c1.anti.hx P.c2.anti.hx P.c3.anti.hx P.c4.anti.hx
        (P.cross hc) hz hc
      rw [e]
      refine ⟨fun _ => ⟨f4_val.1, ?_, ?_, ?_⟩, fun h => by simp at h, hT4⟩
      · show val m < val f4
        rw [f4_val.2]
        rcases lt_or_eq_of_le hm4 with h | h
        · exact h
        · exfalso
          have : F64.feq m f4 = true := (feq_val hm f4_val.1).mpr (by rw [h, f4_val.2])
          rw [this] at hz; cases hz
      · show val f4 ≤ 4
        rw [f4_val.2]
      · show |val f4 - _| ≤ _
        rw [f4_val.2, hT]; simpa using hE0
    case false =>
      rw [edgePairMax_no_crossing a0 a1 b0 b1 m hz hc]
      obtain ⟨c1, c2, c3⟩ := chain_contract P hc m hm
      exact ⟨fun h => ⟨(c1 h).1, (c1 h).2.1, c3 hm4, (c1 h).2.2⟩, c2, hT4⟩

end S2Proofs.C08FarEdge
