/-
  S2Proofs.EdgeQuery.Cover — correctness of `initCovering` (s2/edge_query.go, model
  `S2.EdgeQueryM` part (b)) on EVERY non-empty sorted list of pairwise disjoint valid index cells.

  Sections
   1. `CommonAncestorLevel` on valid cells (`cal_none_iff`, `commonAncestorLevel_some`,
      `commonAncestorLevel_ge`): bit level (xor / log2) to arithmetic.
   2. cell arithmetic in `Nat` form: `lo`/`hi` (leaf range), `Inside`, `block_trichotomy`
      (a cell of level ≥ ℓ lies inside a level-ℓ cell or strictly off it), successors.
   3. `Ctx` (positional facts on the index list), `emit_spec` (`addInitialRange` on a block).
   4. `Inv` / `coverLoop_inv`: the loop invariant of the `for id := …; id != lastID; id = id.Next()`
      loop, by induction on the fuel.
   5. `initCovering_core`, `initCovering_spec`: the theorem.
   6. instances closed by `decide +kernel`: non-vacuity, the D7 counterexamples, tightness of 4 / 6.
-/
import S2Proofs.CellIDLemmas
import S2Proofs.C06.Locate
import S2.EdgeQueryM
open S2 S2.CellID S2.Locate S2.EdgeQueryM
namespace S2Proofs.EdgeQuery
open S2Proofs.C06 (idAt_lt idAt_ge seek_weak)

/-! ## 1. `CommonAncestorLevel` on valid cells -/

theorem xor_eq_zero_imp (a b : Nat) (h : a ^^^ b = 0) : a = b := by
  have : b = a ^^^ (a ^^^ b) := by rw [← Nat.xor_assoc, Nat.xor_self, Nat.zero_xor]
  rw [h, Nat.xor_zero] at this; exact this.symm

theorem xor_lt_iff (a b s : Nat) : a ^^^ b < 2^s ↔ a / 2^s = b / 2^s := by
  have hpos := Nat.two_pow_pos s
  constructor
  · intro h
    have : (a ^^^ b) / 2^s = 0 := Nat.div_eq_zero_iff.mpr (Or.inr h)
    rw [Nat.xor_div_two_pow] at this
    exact xor_eq_zero_imp _ _ this
  · intro h
    have : (a ^^^ b) / 2^s = 0 := by rw [Nat.xor_div_two_pow, h, Nat.xor_self]
    rcases Nat.div_eq_zero_iff.mp this with h | h
    · omega
    · exact h

theorem ite_lt_toNat (a b : UInt64) : (if a < b then b else a).toNat = max a.toNat b.toNat := by
  split
  · rename_i h; rw [UInt64.lt_iff_toNat_lt] at h; omega
  · rename_i h; rw [UInt64.lt_iff_toNat_lt] at h; omega

/-- the word whose top bit `CommonAncestorLevel` looks at -/
theorem cal_bits {x y : CellID} {k j : Nat} (hx : IsCell x k) (hy : IsCell y j) :
    commonAncestorLevel x y =
      (let B := max (max (x.toNat ^^^ y.toNat) (2^(60-2*k))) (2^(60-2*j))
       if B.log2 > 60 then none else some ((60 - B.log2) / 2)) := by
  unfold commonAncestorLevel msbPos
  simp only [ite_lt_toNat, UInt64.toNat_xor, hx.lsb_eq, hy.lsb_eq, Nat.shiftRight_eq_div_pow, Nat.pow_one]

theorem pow_lt_pow61 {k t : Nat} (hk : k ≤ 30) (ht : t ≤ 30) : 2^(60-2*k) < 2^(61-2*t) ↔ t ≤ k := by
  rw [Nat.pow_lt_pow_iff_right (by omega)]; omega

theorem cal_none_iff {x y : CellID} {k j : Nat} (hx : IsCell x k) (hy : IsCell y j) :
    commonAncestorLevel x y = none ↔ x.toNat / 2^61 ≠ y.toNat / 2^61 := by
  rw [cal_bits hx hy]
  simp only []
  have hk := hx.k_le; have hj := hy.k_le
  have h1 : 2^(60-2*k) < 2^61 := by
    have := (pow_lt_pow61 (k := k) (t := 0) hk (by omega)).mpr (by omega); simpa using this
  have h2 : 2^(60-2*j) < 2^61 := by
    have := (pow_lt_pow61 (k := j) (t := 0) hj (by omega)).mpr (by omega); simpa using this
  have hpos := Nat.two_pow_pos (60 - 2*k)
  generalize hB : max (max (x.toNat ^^^ y.toNat) (2^(60-2*k))) (2^(60-2*j)) = B
  have hB0 : B ≠ 0 := by omega
  have hlog := Nat.log2_lt (n := B) (k := 61) hB0
  rw [Ne, ← xor_lt_iff]
  constructor
  · intro h
    split at h
    · omega
    · cases h
  · intro h
    have : ¬ B.log2 < 61 := by rw [hlog]; omega
    rw [if_pos (by omega)]

/-- `CommonAncestorLevel` reports "no common ancestor" exactly when the faces differ -/
theorem commonAncestorLevel_none_iff {x y : CellID} {k j : Nat} (hx : IsCell x k) (hy : IsCell y j) :
    commonAncestorLevel x y = none ↔ x.toNat / 2^61 ≠ y.toNat / 2^61 := cal_none_iff hx hy

/-- the level returned is the largest one at which both cells exist and have the same ancestor -/
theorem cal_some_le_iff {x y : CellID} {k j L : Nat} (hx : IsCell x k) (hy : IsCell y j)
    (h : commonAncestorLevel x y = some L) (t : Nat) (ht : t ≤ 30) :
    t ≤ L ↔ t ≤ k ∧ t ≤ j ∧ x.toNat / 2^(61-2*t) = y.toNat / 2^(61-2*t) := by
  rw [cal_bits hx hy] at h
  simp only [] at h
  have hk := hx.k_le; have hj := hy.k_le
  have hpos := Nat.two_pow_pos (60 - 2*k)
  rw [← xor_lt_iff, ← pow_lt_pow61 hk ht, ← pow_lt_pow61 hj ht]
  generalize hB : max (max (x.toNat ^^^ y.toNat) (2^(60-2*k))) (2^(60-2*j)) = B at h
  have hB0 : B ≠ 0 := by omega
  have hlog := Nat.log2_lt (n := B) (k := 61 - 2*t) hB0
  split at h
  · cases h
  · injection h with h
    have : t ≤ L ↔ B.log2 < 61 - 2*t := by omega
    rw [this, hlog]; omega


/-! ## 2. Cell arithmetic: leaf ranges as natural numbers -/

/-- first leaf of the cell, as a number -/
def lo (x : CellID) : Nat := (rangeMin x).toNat
/-- last leaf of the cell, as a number -/
def hi (x : CellID) : Nat := (rangeMax x).toNat
/-- the leaf range of `c` lies in the leaf range of `a` -/
def Inside (c a : CellID) : Prop := lo a ≤ lo c ∧ hi c ≤ hi a

theorem _root_.S2Proofs.IsCell.lo_hi {x : CellID} {k : Nat} (h : IsCell x k) : lo x ≤ x.toNat ∧ x.toNat ≤ hi x :=
  h.rangeMin_le

theorem pow61_eq {ℓ : Nat} (h : ℓ ≤ 30) : 2^(61-2*ℓ) = 2 * 2^(60-2*ℓ) := by
  have : 61 - 2*ℓ = (60 - 2*ℓ) + 1 := by omega
  rw [this, Nat.pow_succ]; omega

theorem _root_.S2Proofs.IsCell.lvl_facts {a : CellID} {ℓ : Nat} (h : IsCell a ℓ) :
    lo a = a.toNat - 2^(60-2*ℓ) + 1 ∧ hi a = a.toNat + 2^(60-2*ℓ) - 1 ∧ 2^(60-2*ℓ) ≤ a.toNat ∧
      0 < 2^(60-2*ℓ) ∧ 2^(61-2*ℓ) = 2 * 2^(60-2*ℓ) := by
  refine ⟨h.rangeMin_eq, h.rangeMax_eq, ?_, Nat.two_pow_pos _, pow61_eq h.k_le⟩
  have := h.low
  have := Nat.mod_le a.toNat (2^(61-2*ℓ))
  omega

theorem block_trichotomy {id c : CellID} {ℓ k : Nat} (hid : IsCell id ℓ) (hc : IsCell c k) (hk : ℓ ≤ k) :
    Inside c id ∨ hi c + 1 < lo id ∨ hi id + 1 < lo c := by
  unfold Inside lo hi
  rw [hid.rangeMin_eq, hid.rangeMax_eq, hc.rangeMin_eq, hc.rangeMax_eq]
  obtain ⟨hb, hne, hadd⟩ := hc.finer_facts ℓ hk
  obtain ⟨hl, hf, hlow⟩ := hid
  have hpos := Nat.two_pow_pos (60 - 2*k)
  interval_cases ℓ <;> cell_omega

theorem contains_inside {x y : CellID} {k j : Nat} (hx : IsCell x k) (hy : IsCell y j)
    (h : contains x y = true) : Inside y x := by
  have hkj := ((hx.contains_iff_parent hy).mp h).1
  rw [contains_iff] at h
  have h1 := hx.lo_hi; have h2 := hy.lo_hi
  rcases block_trichotomy hx hy hkj with h3 | h3 | h3
  · exact h3
  · unfold lo hi at *; omega
  · unfold lo hi at *; omega

theorem parent_inside {c : CellID} {k t : Nat} (hc : IsCell c k) (ht : t ≤ k) :
    IsCell (parent c t) t ∧ Inside c (parent c t) := by
  have hp := hc.parent_isCell ht
  exact ⟨hp, contains_inside hp hc ((hp.contains_iff_parent hc).mpr ⟨ht, rfl⟩)⟩

theorem same_level_cmp {a b : CellID} {ℓ : Nat} (ha : IsCell a ℓ) (hb : IsCell b ℓ)
    (h : a.toNat < b.toNat) : a.toNat + 2^(61-2*ℓ) ≤ b.toNat := by
  obtain ⟨hl, _, h1⟩ := ha
  obtain ⟨_, _, h2⟩ := hb
  interval_cases ℓ <;> cell_omega

theorem next_facts {id lastID : CellID} {ℓ : Nat} (hid : IsCell id ℓ) (hl : IsCell lastID ℓ)
    (h : id.toNat < lastID.toNat) :
    IsCell (next id) ℓ ∧ (next id).toNat = id.toNat + 2^(61-2*ℓ) := by
  have hcmp := same_level_cmp hid hl h
  have hf := hl.face_lt
  have e : (next id).toNat = id.toNat + 2^(61-2*ℓ) := by
    rw [hid.next_toNat]; apply Nat.mod_eq_of_lt; omega
  refine ⟨⟨hid.k_le, by omega, ?_⟩, e⟩
  rw [e, Nat.add_mod_right]; exact hid.low

theorem nextRangeMax {id : CellID} {ℓ : Nat} (hid : IsCell id ℓ) :
    (next (rangeMax id)).toNat = hi id + 2 := by
  have hr : IsCell (rangeMax id) 30 := by
    obtain ⟨hl, hf, hlow⟩ := hid
    refine ⟨by omega, ?_, ?_⟩ <;> rw [IsCell.rangeMax_eq ⟨hl, hf, hlow⟩]
    · interval_cases ℓ <;> cell_omega
    · interval_cases ℓ <;> cell_omega
  rw [hr.next_toNat]
  have := hr.face_lt
  unfold hi
  simp only [Nat.reduceMul, Nat.reduceSub, Nat.reducePow] at *
  omega

theorem parent_eq_iff (x y : CellID) (t : Nat) (ht : t ≤ 30) :
    parent x t = parent y t ↔ x.toNat / 2^(61-2*t) = y.toNat / 2^(61-2*t) := by
  rw [← UInt64.toNat_inj, parent_toNat x t ht, parent_toNat y t ht]
  interval_cases t <;> cell_omega


/-- `CommonAncestorLevel` on two valid cells: `some L` is the deepest level at which both cells
    exist and have the same ancestor. -/
theorem commonAncestorLevel_some {x y : CellID} {k j L : Nat} (hx : IsCell x k) (hy : IsCell y j)
    (h : commonAncestorLevel x y = some L) :
    L ≤ k ∧ L ≤ j ∧ parent x L = parent y L ∧
      (∀ L', L < L' → L' ≤ min k j → parent x L' ≠ parent y L') := by
  have hk := hx.k_le
  have hL30 : L ≤ 30 := by
    by_cases hL : L ≤ 30
    · exact hL
    · exfalso
      have := (cal_some_le_iff hx hy h 30 (by omega)).mp (by omega)
      have := (cal_some_le_iff hx hy h 0 (by omega)).mp (by omega)
      rw [cal_bits hx hy] at h
      simp only [] at h
      split at h
      · cases h
      · injection h with h; omega
  obtain ⟨a, b, c⟩ := (cal_some_le_iff hx hy h L hL30).mp (Nat.le_refl _)
  refine ⟨a, b, (parent_eq_iff x y L hL30).mpr c, ?_⟩
  intro L' hL' hmin hp
  have hL'30 : L' ≤ 30 := by omega
  have := (cal_some_le_iff hx hy h L' hL'30).mpr
    ⟨by omega, by omega, (parent_eq_iff x y L' hL'30).mp hp⟩
  omega

/-- converse direction: any level at which both cells exist and share the ancestor is `≤ L` -/
theorem commonAncestorLevel_ge {x y : CellID} {k j L t : Nat} (hx : IsCell x k) (hy : IsCell y j)
    (h : commonAncestorLevel x y = some L) (htk : t ≤ k) (htj : t ≤ j)
    (hp : parent x t = parent y t) : t ≤ L := by
  have ht : t ≤ 30 := by have := hx.k_le; omega
  exact (cal_some_le_iff hx hy h t ht).mpr ⟨htk, htj, (parent_eq_iff x y t ht).mp hp⟩

/-! ## 3. The index list by position; `addInitialRange` on one block -/

/-- facts on the index cell list, indexed by position, relative to a level `ℓ` that all cells reach -/
structure Ctx (cells : List CellID) (ℓ : Nat) : Prop where
  pos : 0 < cells.length
  hℓ : ℓ ≤ 30
  lev : ∀ i, i < cells.length → ∃ k, IsCell (idAt cells i) k ∧ ℓ ≤ k
  srt : ∀ i j, i < j → j < cells.length → hi (idAt cells i) < lo (idAt cells j)

variable {cells : List CellID} {ℓ : Nat}

theorem Ctx.lohi (C : Ctx cells ℓ) {i : Nat} (h : i < cells.length) :
    lo (idAt cells i) ≤ (idAt cells i).toNat ∧ (idAt cells i).toNat ≤ hi (idAt cells i) := by
  obtain ⟨k, hk, _⟩ := C.lev i h
  exact hk.lo_hi

theorem Ctx.mono (C : Ctx cells ℓ) {i j : Nat} (hij : i ≤ j) (hj : j < cells.length) :
    lo (idAt cells i) ≤ lo (idAt cells j) ∧ hi (idAt cells i) ≤ hi (idAt cells j) ∧
      (idAt cells i).toNat ≤ (idAt cells j).toNat := by
  rcases Nat.eq_or_lt_of_le hij with h | h
  · subst h; omega
  · have := C.srt i j h hj
    have := C.lohi (i := i) (by omega)
    have := C.lohi hj
    omega

theorem Ctx.ids (C : Ctx cells ℓ) {i j : Nat} (hij : i < j) (hj : j < cells.length) :
    (idAt cells i).toNat < (idAt cells j).toNat := by
  have := C.srt i j hij hj
  have := C.lohi (i := i) (by omega)
  have := C.lohi hj
  omega

theorem mem_iff_idAt (p : CellID) : p ∈ cells ↔ ∃ i, i < cells.length ∧ idAt cells i = p := by
  rw [List.mem_iff_getElem]
  constructor
  · rintro ⟨i, h, e⟩; exact ⟨i, h, by rw [idAt_lt h]; exact e⟩
  · rintro ⟨i, h, e⟩; exact ⟨i, h, by rw [idAt_lt h] at e; exact e⟩

theorem seek_facts (cells : List CellID) (x : CellID) :
    seek cells x ≤ cells.length ∧
    (seek cells x < cells.length → x.toNat ≤ (idAt cells (seek cells x)).toNat) ∧
    (0 < seek cells x → (idAt cells (seek cells x - 1)).toNat < x.toNat) := by
  obtain ⟨h1, h2, h3⟩ := seek_weak (cells := cells) x
  refine ⟨h1, ?_, ?_⟩
  · intro h; rw [idAt_lt h]; exact h2 h
  · intro h
    have h' : seek cells x - 1 < cells.length := by omega
    rw [idAt_lt h']; exact h3 h h'

theorem prev_snd (n : Nat) : (Locate.prev n).2 = n - 1 := by
  unfold Locate.prev
  split
  · rename_i h; simp only []; omega
  · rfl

/-- what is recorded for one covering entry -/
def EntryOK (cells : List CellID) (p : CellID × Bool) : Prop :=
  isValid p.1 = true ∧ (∃ i, i < cells.length ∧ Inside (idAt cells i) p.1) ∧ (p.2 = true ↔ p.1 ∈ cells)

/-- `addInitialRange` on a block `a..b` of index cells that lie in one level-`ℓ` cell `id` -/
theorem emit_spec (C : Ctx cells ℓ) {id : CellID} (hid : IsCell id ℓ) {a b : Nat} (hab : a ≤ b)
    (hb : b < cells.length) (ha_in : Inside (idAt cells a) id) (hb_in : Inside (idAt cells b) id) :
    EntryOK cells (addInitialRange cells a b) ∧ Inside (addInitialRange cells a b).1 id ∧
      lo (addInitialRange cells a b).1 ≤ lo (idAt cells a) ∧
      hi (idAt cells b) ≤ hi (addInitialRange cells a b).1 := by
  have ha : a < cells.length := by omega
  obtain ⟨ka, hca, hka⟩ := C.lev a ha
  obtain ⟨kb, hcb, hkb⟩ := C.lev b hb
  have hla := hca.lo_hi
  have hlb := hcb.lo_hi
  unfold addInitialRange
  simp only []
  by_cases heq : idAt cells a = idAt cells b
  · have hbeq : (idAt cells a == idAt cells b) = true := beq_iff_eq.mpr heq
    rw [if_pos hbeq]
    refine ⟨⟨(isValid_iff _).mpr ⟨ka, hca⟩, ⟨a, ha, Nat.le_refl _, Nat.le_refl _⟩, ?_⟩, ha_in,
      Nat.le_refl _, ?_⟩
    · simp only [true_iff]; exact (mem_iff_idAt _).mpr ⟨a, ha, rfl⟩
    · simp only []; rw [heq]
  · have hbeq : ¬ (idAt cells a == idAt cells b) = true := fun h => heq (beq_iff_eq.mp h)
    rw [if_neg hbeq]
    have hab' : a < b := by
      rcases Nat.eq_or_lt_of_le hab with h | h
      · subst h; exact absurd rfl heq
      · exact h
    -- both cells have `id` as their level-ℓ ancestor
    have hpa : parent (idAt cells a) ℓ = id := by
      have : contains id (idAt cells a) = true := by
        rw [contains_iff]; unfold Inside lo hi at ha_in; unfold lo hi at hla; omega
      exact ((hid.contains_iff_parent hca).mp this).2
    have hpb : parent (idAt cells b) ℓ = id := by
      have : contains id (idAt cells b) = true := by
        rw [contains_iff]; unfold Inside lo hi at hb_in; unfold lo hi at hlb; omega
      exact ((hid.contains_iff_parent hcb).mp this).2
    cases hcal : commonAncestorLevel (idAt cells a) (idAt cells b) with
    | none =>
      exfalso
      have hne := (cal_none_iff hca hcb).mp hcal
      have hq := (parent_eq_iff (idAt cells a) (idAt cells b) ℓ C.hℓ).mp (by rw [hpa, hpb])
      apply hne
      have e : (2:Nat)^61 = 2^(61-2*ℓ) * 2^(2*ℓ) := by
        rw [← Nat.pow_add]; congr 1; have := C.hℓ; omega
      rw [e, ← Nat.div_div_eq_div_mul, ← Nat.div_div_eq_div_mul, hq]
    | some L =>
      simp only [Option.getD_some]
      obtain ⟨hLa, hLb, hpar, _⟩ := commonAncestorLevel_some hca hcb hcal
      have hℓL : ℓ ≤ L := commonAncestorLevel_ge hca hcb hcal hka hkb (by rw [hpa, hpb])
      obtain ⟨hpc, hain⟩ := parent_inside hca hLa
      obtain ⟨_, hbin⟩ := parent_inside hcb hLb
      rw [← hpar] at hbin
      have hlp := hpc.lo_hi
      have hsrt := C.srt a b hab' hb
      unfold Inside at hain hbin ha_in hb_in
      refine ⟨⟨(isValid_iff _).mpr ⟨L, hpc⟩, ⟨a, ha, hain⟩, ?_⟩, ?_, hain.1, hbin.2⟩
      · simp only [Bool.false_eq_true, false_iff]
        intro hmem
        obtain ⟨m, hm, hme⟩ := (mem_iff_idAt _).mp hmem
        rw [← hme] at hain hbin
        have hlm := C.lohi hm
        have h1 : m = a := by
          rcases Nat.lt_trichotomy m a with h | h | h
          · have := C.srt m a h ha; omega
          · exact h
          · have := C.srt a m h hm; omega
        have h2 : m = b := by
          rcases Nat.lt_trichotomy m b with h | h | h
          · have := C.srt m b h hb; omega
          · exact h
          · have := C.srt b m h hm; omega
        omega
      · rcases block_trichotomy hid hpc hℓL with h | h | h
        · exact h
        · omega
        · omega



/-! ## 4. The loop -/

/-- the loop invariant of `coverLoop` at the head of an iteration with loop variable `id` -/
structure Inv (cells : List CellID) (ℓ : Nat) (id0 lastID id : CellID) (nx : Nat)
    (acc : List (CellID × Bool)) : Prop where
  idc : IsCell id ℓ
  le : id.toNat ≤ lastID.toNat
  nlt : nx < cells.length
  ge : lo id ≤ lo (idAt cells nx)
  before : ∀ i, i < nx → hi (idAt cells i) < lo id
  accHi : ∀ p ∈ acc, hi p.1 < lo id
  accOK : ∀ p ∈ acc, EntryOK cells p
  accSorted : acc.Pairwise (fun a b => hi a.1 < lo b.1)
  cover : ∀ i, i < nx → ∃ p ∈ acc, Inside (idAt cells i) p.1
  len : id0.toNat + acc.length * 2^(61-2*ℓ) ≤ id.toNat

theorem coverLoop_inv (C : Ctx cells ℓ) {id0 lastID : CellID} (hlast : IsCell lastID ℓ)
    (hlastIn : Inside (idAt cells (cells.length - 1)) lastID) :
    ∀ (fuel : Nat) (id : CellID) (nx : Nat) (acc : List (CellID × Bool)),
      Inv cells ℓ id0 lastID id nx acc →
      lastID.toNat + 2^(61-2*ℓ) ≤ id.toNat + fuel * 2^(61-2*ℓ) →
      ∃ next' acc', coverLoop false cells lastID fuel id nx acc = some (next', acc') ∧
        Inv cells ℓ id0 lastID lastID next' acc' := by
  intro fuel
  induction fuel with
  | zero =>
    intro id nx acc I hf
    exfalso
    have := I.le
    have := I.idc.lvl_facts
    simp only [Nat.zero_mul] at hf
    omega
  | succ fuel ih =>
    intro id nx acc I hf
    rw [coverLoop]
    by_cases hne : id = lastID
    · subst hne
      rw [if_pos (beq_self_eq_true _)]
      exact ⟨nx, acc, rfl, I⟩
    · have hbeq : ¬ (id == lastID) = true := fun h => hne (beq_iff_eq.mp h)
      rw [if_neg hbeq]
      have hlt : id.toNat < lastID.toNat := by
        have := I.le
        have : id.toNat ≠ lastID.toNat := fun h => hne (UInt64.toNat_inj.mp h)
        omega
      obtain ⟨hnc, hnv⟩ := next_facts I.idc hlast hlt
      obtain ⟨F1, F2, F3, F4, F5⟩ := I.idc.lvl_facts
      obtain ⟨G1, G2, G3, _, _⟩ := hnc.lvl_facts
      obtain ⟨L1, L2, L3, _, _⟩ := hlast.lvl_facts
      have hcmp := same_level_cmp I.idc hlast hlt
      have hge := I.ge
      obtain ⟨kn, hcn, hkn⟩ := C.lev nx I.nlt
      have hln := hcn.lo_hi
      have tri := block_trichotomy I.idc hcn hkn
      have hf' : lastID.toNat + 2^(61-2*ℓ) ≤ (CellID.next id).toNat + fuel * 2^(61-2*ℓ) := by
        have : (fuel + 1) * 2^(61-2*ℓ) = fuel * 2^(61-2*ℓ) + 2^(61-2*ℓ) := Nat.succ_mul _ _
        omega
      by_cases hskip : rangeMax id < idAt cells nx
      · rw [if_pos hskip]
        have hs : hi id < (idAt cells nx).toNat := by
          unfold hi; exact UInt64.lt_iff_toNat_lt.mp hskip
        apply ih (CellID.next id) nx acc _ hf'
        refine ⟨hnc, by omega, I.nlt, ?_, ?_, ?_, I.accOK, I.accSorted, I.cover, ?_⟩
        · unfold Inside at tri; omega
        · intro i hi'; have := I.before i hi'; omega
        · intro p hp; have := I.accHi p hp; omega
        · have := I.len; omega
      · rw [if_neg hskip]
        simp only [Bool.false_eq_true, if_false]
        have hs : (idAt cells nx).toNat ≤ hi id := by
          have : ¬ hi id < (idAt cells nx).toNat := by
            unfold hi; exact fun h => hskip (UInt64.lt_iff_toNat_lt.mpr h)
          omega
        have hin : Inside (idAt cells nx) id := by
          rcases tri with h | h | h
          · exact h
          · omega
          · omega
        have ht := nextRangeMax I.idc
        obtain ⟨s1, s2, s3⟩ := seek_facts cells (CellID.next (rangeMax id))
        rw [prev_snd]
        generalize seek cells (CellID.next (rangeMax id)) = next' at *
        have hlast_lo := hlastIn.1
        have hlastc := C.lohi (i := cells.length - 1) (by have := C.pos; omega)
        have hn' : next' < cells.length := by
          rcases Nat.eq_or_lt_of_le s1 with h | h
          · exfalso
            have := s3 (by have := C.pos; omega)
            rw [h] at this
            omega
          · exact h
        have s2 := s2 hn'
        have hnn : nx < next' := by
          by_cases h : nx < next'
          · exact h
          · exfalso
            have := (C.mono (i := next') (j := nx) (by omega) I.nlt).2.2
            omega
        have s3 := s3 (by omega)
        have hb : next' - 1 < cells.length := by omega
        obtain ⟨kb, hcb, hkb⟩ := C.lev (next' - 1) hb
        have hlb := hcb.lo_hi
        have hmono := C.mono (i := nx) (j := next' - 1) (by omega) hb
        have hinb : Inside (idAt cells (next' - 1)) id := by
          rcases block_trichotomy I.idc hcb hkb with h | h | h
          · exact h
          · omega
          · omega
        obtain ⟨e1, e2, e3, e4⟩ := emit_spec C I.idc (a := nx) (b := next' - 1) (by omega) hb hin hinb
        generalize addInitialRange cells nx (next' - 1) = p at *
        obtain ⟨kn', hcn', hkn'⟩ := C.lev next' hn'
        have hln' := hcn'.lo_hi
        have hlnext := hnc.lo_hi
        apply ih (CellID.next id) next' (acc ++ [p]) _ hf'
        unfold Inside at hin hinb e2
        refine ⟨hnc, by omega, hn', ?_, ?_, ?_, ?_, ?_, ?_, ?_⟩
        · rcases block_trichotomy hnc hcn' hkn' with h | h | h
          · exact h.1
          · omega
          · omega
        · intro i hi'
          have := (C.mono (i := i) (j := next' - 1) (by omega) hb).2.1
          omega
        · intro q hq
          rcases List.mem_append.mp hq with h | h
          · have := I.accHi q h; omega
          · rw [List.mem_singleton.mp h]; omega
        · intro q hq
          rcases List.mem_append.mp hq with h | h
          · exact I.accOK q h
          · rw [List.mem_singleton.mp h]; exact e1
        · refine List.pairwise_append.mpr ⟨I.accSorted, List.pairwise_singleton _ _, ?_⟩
          intro a ha b hb'
          rw [List.mem_singleton.mp hb']
          have := I.accHi a ha; omega
        · intro i hi'
          by_cases h : i < nx
          · obtain ⟨q, hq, hqi⟩ := I.cover i h
            exact ⟨q, List.mem_append.mpr (Or.inl hq), hqi⟩
          · refine ⟨p, List.mem_append.mpr (Or.inr (List.mem_singleton.mpr rfl)), ?_⟩
            have m1 := C.mono (i := nx) (j := i) (by omega) (by omega)
            have m2 := C.mono (i := i) (j := next' - 1) (by omega) hb
            unfold Inside; omega
        · have := I.len
          have : (acc.length + 1) * 2^(61-2*ℓ) = acc.length * 2^(61-2*ℓ) + 2^(61-2*ℓ) := Nat.succ_mul _ _
          rw [List.length_append, List.length_singleton]; omega


/-! ## 5. The theorem -/

/-- hypotheses on the index cell list: non-empty, every id a valid cell, sorted and pairwise
    disjoint -/
structure IndexCellsOK (cells : List CellID) : Prop where
  nonempty : cells ≠ []
  valid : ∀ c ∈ cells, CellID.isValid c = true
  sorted : cells.Pairwise (fun a b => CellID.rangeMax a < CellID.rangeMin b)

instance (cells : List CellID) : Decidable (IndexCellsOK cells) :=
  decidable_of_iff (cells ≠ [] ∧ (∀ c ∈ cells, CellID.isValid c = true) ∧
      cells.Pairwise (fun a b => CellID.rangeMax a < CellID.rangeMin b))
    ⟨fun ⟨a, b, c⟩ => ⟨a, b, c⟩, fun ⟨a, b, c⟩ => ⟨a, b, c⟩⟩


theorem IndexCellsOK.ctx0 (h : IndexCellsOK cells) : Ctx cells 0 where
  pos := List.length_pos_iff.mpr h.nonempty
  hℓ := by omega
  lev i hi' := by
    obtain ⟨k, hk⟩ := (isValid_iff _).mp (h.valid (idAt cells i) (by rw [idAt_lt hi']; exact List.getElem_mem hi'))
    exact ⟨k, hk, Nat.zero_le _⟩
  srt i j hij hj := by
    have := (List.pairwise_iff_getElem.mp h.sorted) i j (by omega) hj hij
    rw [idAt_lt hj, idAt_lt (show i < cells.length by omega)]
    exact UInt64.lt_iff_toNat_lt.mp this

theorem parent_self {x : CellID} {k : Nat} (h : IsCell x k) : parent x k = x := by
  rw [← UInt64.toNat_inj, parent_toNat x k h.k_le]
  have := h.low
  have := Nat.mod_le x.toNat (2^(61-2*k))
  omega

/-- what the proofs establish about a covering, in positional / `Nat` form -/
structure Good (cells : List CellID) (cov : List (CellID × Bool)) : Prop where
  ok : ∀ p ∈ cov, EntryOK cells p
  sorted : cov.Pairwise (fun a b => hi a.1 < lo b.1)
  cover : ∀ i, i < cells.length → ∃ p ∈ cov, Inside (idAt cells i) p.1

/-- the multi-cell path: loop plus the final `addInitialRange(next, last)` -/
theorem multi_spec (C : Ctx cells ℓ) {id0 lastID : CellID} (hid0 : IsCell id0 ℓ)
    (hlast : IsCell lastID ℓ) (h0in : Inside (idAt cells 0) id0)
    (hlastIn : Inside (idAt cells (cells.length - 1)) lastID)
    (m : Nat) (hm : m ≤ 7) (hdiff : lastID.toNat ≤ id0.toNat + m * 2^(61-2*ℓ)) :
    ∃ nx acc, coverLoop false cells lastID 8 id0 0 [] = some (nx, acc) ∧
      Good cells (acc ++ [addInitialRange cells nx (cells.length - 1)]) ∧ acc.length ≤ m := by
  have hn := C.pos
  have hx := C.lohi (i := 0) hn
  have hy := C.lohi (i := cells.length - 1) (by omega)
  have hmono := C.mono (i := 0) (j := cells.length - 1) (by omega) (by omega)
  obtain ⟨F1, F2, F3, F4, F5⟩ := hid0.lvl_facts
  obtain ⟨L1, L2, L3, _, _⟩ := hlast.lvl_facts
  have hle : id0.toNat ≤ lastID.toNat := by
    by_cases h : id0.toNat ≤ lastID.toNat
    · exact h
    · exfalso
      have := same_level_cmp hlast hid0 (by omega)
      unfold Inside at h0in hlastIn
      omega
  have I0 : Inv cells ℓ id0 lastID id0 0 [] := by
    refine ⟨hid0, hle, hn, h0in.1, ?_, ?_, ?_, List.Pairwise.nil, ?_, ?_⟩
    · intro i hi'; omega
    · intro p hp; cases hp
    · intro p hp; cases hp
    · intro i hi'; omega
    · simp
  have hfuel : lastID.toNat + 2^(61-2*ℓ) ≤ id0.toNat + 8 * 2^(61-2*ℓ) := by
    have : m * 2^(61-2*ℓ) ≤ 7 * 2^(61-2*ℓ) := Nat.mul_le_mul_right _ hm
    omega
  obtain ⟨nx, acc, hloop, I⟩ := coverLoop_inv C hlast hlastIn 8 id0 0 [] I0 hfuel
  refine ⟨nx, acc, hloop, ?_, ?_⟩
  · have hnx := I.nlt
    have hmono2 := C.mono (i := nx) (j := cells.length - 1) (by omega) (by omega)
    have hin : Inside (idAt cells nx) lastID := by
      have := I.ge; unfold Inside at *; omega
    obtain ⟨e1, e2, e3, e4⟩ := emit_spec C hlast (a := nx) (b := cells.length - 1) (by omega) (by omega) hin hlastIn
    generalize addInitialRange cells nx (cells.length - 1) = p at *
    unfold Inside at e2
    refine ⟨?_, ?_, ?_⟩
    · intro q hq
      rcases List.mem_append.mp hq with h | h
      · exact I.accOK q h
      · rw [List.mem_singleton.mp h]; exact e1
    · refine List.pairwise_append.mpr ⟨I.accSorted, List.pairwise_singleton _ _, ?_⟩
      intro a ha b hb'
      rw [List.mem_singleton.mp hb']
      have := I.accHi a ha; omega
    · intro i hi'
      by_cases h : i < nx
      · obtain ⟨q, hq, hqi⟩ := I.cover i h
        exact ⟨q, List.mem_append.mpr (Or.inl hq), hqi⟩
      · refine ⟨p, List.mem_append.mpr (Or.inr (List.mem_singleton.mpr rfl)), ?_⟩
        have m1 := C.mono (i := nx) (j := i) (by omega) (by omega)
        have m2 := C.mono (i := i) (j := cells.length - 1) (by omega) (by omega)
        unfold Inside; omega
  · have hl := I.len
    have : acc.length * 2^(61-2*ℓ) ≤ m * 2^(61-2*ℓ) := by omega
    exact Nat.le_of_mul_le_mul_right this (by omega)


theorem initCovering_core (h : IndexCellsOK cells) :
    ∃ cov, initCovering cells = some cov ∧ Good cells cov ∧ 1 ≤ cov.length ∧ cov.length ≤ 6 ∧
      (face (idAt cells 0) = face (idAt cells (cells.length - 1)) → cov.length ≤ 4) ∧
      (cells.length = 1 → cov = [(idAt cells 0, true)]) := by
  have C0 := h.ctx0
  have hn := C0.pos
  obtain ⟨kx, hcx, _⟩ := C0.lev 0 hn
  obtain ⟨ky, hcy, _⟩ := C0.lev (cells.length - 1) (by omega)
  have hlx := hcx.lo_hi
  have hly := hcy.lo_hi
  unfold initCovering initCoveringGen
  simp only [prev_snd]
  by_cases hxy : idAt cells 0 = idAt cells (cells.length - 1)
  · have hb : ¬ (idAt cells 0 != idAt cells (cells.length - 1)) = true := by
      rw [bne_iff_ne]; exact fun h => h hxy
    rw [if_neg hb]
    have hn1 : cells.length - 1 = 0 := by
      by_cases h0 : cells.length - 1 = 0
      · exact h0
      · exfalso
        have := C0.ids (i := 0) (j := cells.length - 1) (by omega) (by omega)
        rw [hxy] at this; omega
    rw [hn1]
    obtain ⟨hpc, hpin⟩ := parent_inside hcx (Nat.zero_le kx)
    obtain ⟨e1, e2, e3, e4⟩ := emit_spec C0 hpc (a := 0) (b := 0) (Nat.le_refl _) hn hpin hpin
    have hval : addInitialRange cells 0 0 = (idAt cells 0, true) := by
      unfold addInitialRange; simp
    refine ⟨_, rfl, ⟨?_, List.pairwise_singleton _ _, ?_⟩, by simp, by simp, by simp, ?_⟩
    · intro q hq; rw [List.mem_singleton.mp hq]; exact e1
    · intro i hi'
      have : i = 0 := by omega
      subst this
      exact ⟨_, List.mem_singleton.mpr rfl, e3, e4⟩
    · intro _; rw [hval]
  · have hb : (idAt cells 0 != idAt cells (cells.length - 1)) = true := by
      rw [bne_iff_ne]; exact hxy
    rw [if_pos hb]
    have hn2 : 0 < cells.length - 1 := by
      by_cases h0 : 0 < cells.length - 1
      · exact h0
      · exfalso; apply hxy; congr 1; omega
    have hsrt := C0.srt 0 (cells.length - 1) hn2 (by omega)
    have hlen1 : cells.length ≠ 1 := by omega
    cases hcal : commonAncestorLevel (idAt cells 0) (idAt cells (cells.length - 1)) with
    | none =>
      simp only []
      have hfne := (cal_none_iff hcx hcy).mp hcal
      obtain ⟨hpx, hxin⟩ := parent_inside hcx (Nat.zero_le kx)
      obtain ⟨hpy, hyin⟩ := parent_inside hcy (Nat.zero_le ky)
      have hdiff : (parent (idAt cells (cells.length - 1)) 0).toNat ≤
          (parent (idAt cells 0) 0).toNat + 5 * 2^(61-2*0) := by
        have := hpy.face_lt
        have := hpx.lvl_facts.2.2.1
        have := hpy.low
        simp only [Nat.reduceMul, Nat.reduceSub, Nat.reducePow] at *
        omega
      obtain ⟨nx, acc, hloop, hgood, hlen⟩ := multi_spec C0 hpx hpy hxin hyin 5 (by omega) hdiff
      rw [hloop]
      simp only []
      refine ⟨_, rfl, hgood, by simp, by simp; omega, ?_, fun h1 => absurd h1 hlen1⟩
      intro hf
      exfalso; apply hfne
      rw [← face_toNat, ← face_toNat]; exact hf
    | some L =>
      simp only []
      obtain ⟨hLx, hLy, hpar, hmax⟩ := commonAncestorLevel_some hcx hcy hcal
      have hLx' : L < kx := by
        by_cases hlt : L < kx
        · exact hlt
        · exfalso
          have hL : L = kx := by omega
          subst hL
          rw [parent_self hcx] at hpar
          have := contains_inside hcx hcy ((hcx.contains_iff_parent hcy).mpr ⟨hLy, hpar.symm⟩)
          unfold Inside at this; omega
      have hLy' : L < ky := by
        by_cases hlt : L < ky
        · exact hlt
        · exfalso
          have hL : L = ky := by omega
          subst hL
          rw [parent_self hcy] at hpar
          have := contains_inside hcy hcx ((hcy.contains_iff_parent hcx).mpr ⟨hLx, hpar⟩)
          unfold Inside at this; omega
      have hk30 := hcx.k_le
      -- the common ancestor
      obtain ⟨hA, hxA⟩ := parent_inside hcx hLx
      obtain ⟨_, hyA⟩ := parent_inside hcy hLy
      rw [← hpar] at hyA
      have hlA := hA.lo_hi
      unfold Inside at hxA hyA
      have C : Ctx cells (L + 1) := by
        refine ⟨hn, by omega, ?_, C0.srt⟩
        intro i hi'
        obtain ⟨k, hk, _⟩ := C0.lev i hi'
        refine ⟨k, hk, ?_⟩
        by_cases hkL : L + 1 ≤ k
        · exact hkL
        · exfalso
          have hli := hk.lo_hi
          have m1 := C0.mono (i := 0) (j := i) (by omega) hi'
          have m2 := C0.mono (i := i) (j := cells.length - 1) (by omega) (by omega)
          rcases block_trichotomy hk hA (by omega) with h3 | h3 | h3
          · unfold Inside at h3
            by_cases hi0 : i = 0
            · subst hi0
              have := hk.unique hcx; omega
            · have := C0.srt 0 i (by omega) hi'; omega
          · omega
          · omega
      obtain ⟨hpx, hxin⟩ := parent_inside hcx (show L + 1 ≤ kx by omega)
      obtain ⟨hpy, hyin⟩ := parent_inside hcy (show L + 1 ≤ ky by omega)
      have hq := (parent_eq_iff _ _ L (by omega)).mp hpar
      have hdiff : (parent (idAt cells (cells.length - 1)) (L + 1)).toNat ≤
          (parent (idAt cells 0) (L + 1)).toNat + 3 * 2^(61-2*(L+1)) := by
        rw [parent_toNat _ _ (show L + 1 ≤ 30 by omega), parent_toNat _ _ (show L + 1 ≤ 30 by omega)]
        have hL29 : L ≤ 29 := by omega
        clear hmax hpar hcal
        interval_cases L <;> cell_omega
      obtain ⟨nx, acc, hloop, hgood, hlen⟩ := multi_spec C hpx hpy hxin hyin 3 (by omega) hdiff
      rw [hloop]
      simp only []
      exact ⟨_, rfl, hgood, by simp, by simp; omega, fun _ => by simp; omega,
        fun h1 => absurd h1 hlen1⟩


theorem idAt_zero_head {cells : List CellID} (h : cells ≠ []) : idAt cells 0 = cells.head! := by
  cases cells with
  | nil => exact absurd rfl h
  | cons a t => rfl

/-- range containment in `UInt64` order ⇔ `Inside` -/
theorem inside_iff (c a : CellID) :
    (rangeMin a ≤ rangeMin c ∧ rangeMax c ≤ rangeMax a) ↔ Inside c a := by
  unfold Inside lo hi
  rw [UInt64.le_iff_toNat_le, UInt64.le_iff_toNat_le]

/-- **`initCovering` (repaired code) is correct on every index cell list.** -/
theorem initCovering_spec (cells : List CellID) (h : IndexCellsOK cells) :
    ∃ cov, initCovering cells = some cov ∧
      1 ≤ cov.length ∧ cov.length ≤ 6 ∧
      ((∀ c ∈ cells, face c = face cells.head!) → cov.length ≤ 4) ∧
      (cells.length = 1 → cov = [(cells.head!, true)]) ∧
      (∀ p ∈ cov, isValid p.1 = true) ∧
      cov.Pairwise (fun a b => rangeMax a.1 < rangeMin b.1) ∧
      (∀ c ∈ cells, ∃ p ∈ cov, rangeMin p.1 ≤ rangeMin c ∧ rangeMax c ≤ rangeMax p.1) ∧
      (∀ c ∈ cells, ∀ p ∈ cov, ∀ q ∈ cov,
        (rangeMin p.1 ≤ rangeMin c ∧ rangeMax c ≤ rangeMax p.1) →
        (rangeMin q.1 ≤ rangeMin c ∧ rangeMax c ≤ rangeMax q.1) → p = q) ∧
      (∀ p ∈ cov, ∃ c ∈ cells, rangeMin p.1 ≤ rangeMin c ∧ rangeMax c ≤ rangeMax p.1) ∧
      (∀ p ∈ cov, p.2 = true ↔ p.1 ∈ cells) := by
  obtain ⟨cov, hcov, hgood, h1, h6, h4, hsingle⟩ := initCovering_core h
  have C0 := h.ctx0
  have hn := C0.pos
  refine ⟨cov, hcov, h1, h6, ?_, ?_, ?_, ?_, ?_, ?_, ?_, ?_⟩
  · intro hf
    apply h4
    have hx : idAt cells 0 ∈ cells := (mem_iff_idAt _).mpr ⟨0, hn, rfl⟩
    have hy : idAt cells (cells.length - 1) ∈ cells := (mem_iff_idAt _).mpr ⟨_, by omega, rfl⟩
    rw [hf _ hx, hf _ hy]
  · intro h1; rw [← idAt_zero_head h.nonempty]; exact hsingle h1
  · intro p hp; exact (hgood.ok p hp).1
  · exact hgood.sorted.imp (fun {a b} hab => UInt64.lt_iff_toNat_lt.mpr hab)
  · intro c hc
    obtain ⟨i, hi', rfl⟩ := (mem_iff_idAt c).mp hc
    obtain ⟨p, hp, hpi⟩ := hgood.cover i hi'
    exact ⟨p, hp, (inside_iff _ _).mpr hpi⟩
  · intro c hc p hp q hq hpc hqc
    obtain ⟨i, hi', rfl⟩ := (mem_iff_idAt c).mp hc
    have hpc := (inside_iff _ _).mp hpc
    have hqc := (inside_iff _ _).mp hqc
    have hl := C0.lohi hi'
    unfold Inside at hpc hqc
    obtain ⟨a, ha, rfl⟩ := List.mem_iff_getElem.mp hp
    obtain ⟨b, hb, rfl⟩ := List.mem_iff_getElem.mp hq
    have hpw := List.pairwise_iff_getElem.mp hgood.sorted
    rcases Nat.lt_trichotomy a b with hab | hab | hab
    · have := hpw a b ha hb hab; omega
    · subst hab; rfl
    · have := hpw b a hb ha hab; omega
  · intro p hp
    obtain ⟨i, hi', hin⟩ := (hgood.ok p hp).2.1
    exact ⟨idAt cells i, (mem_iff_idAt _).mpr ⟨i, hi', rfl⟩, (inside_iff _ _).mpr hin⟩
  · intro p hp; exact (hgood.ok p hp).2.2

/-! ### instances: non-vacuity, the D7 counterexamples, tightness of the bounds -/

/-- mixed levels on three faces: the face cell 0, a level-1 and a level-2 cell on face 1, a level-3
    cell on face 4 -/
example : IndexCellsOK [fromFace 0, child (fromFace 1) 0, child (child (fromFace 1) 2) 3,
    child (child (child (fromFace 4) 1) 1) 2] := by decide +kernel

/-- … and what the repaired code computes for it: the two cells on face 1 are replaced by their
    lowest common ancestor `fromFace 1` (no index-cell pointer), the others are kept. -/
example : initCovering [fromFace 0, child (fromFace 1) 0, child (child (fromFace 1) 2) 3,
    child (child (child (fromFace 4) 1) 1) 2]
    = some [(fromFace 0, true), (fromFace 1, false),
        (child (child (child (fromFace 4) 1) 1) 2, true)] := by decide +kernel

example : IndexCellsOK [fromFace 0, fromFace 1, fromFace 3] := by decide +kernel

/-- D7, three faces: with the stray `break` the loop stops after face 0; the final
    `addInitialRange(face 1, face 3)` finds no common ancestor and records `Parent(0)` of face 1. -/
example : initCoveringD7 [fromFace 0, fromFace 1, fromFace 3]
    = some [(fromFace 0, true), (fromFace 1, false)] := by decide +kernel

/-- so the index cell `fromFace 3` lies in no covering cell (the coverage clause of
    `initCovering_spec` fails for the D7 code), -/
example : ∀ p ∈ [(fromFace 0, true), (fromFace 1, false)],
    ¬ (rangeMin p.1 ≤ rangeMin (fromFace 3) ∧ rangeMax (fromFace 3) ≤ rangeMax p.1) := by
  decide +kernel

/-- and the pointer clause fails as well: `fromFace 1` IS an index cell but is recorded with `nil`. -/
example : ¬ (∀ p ∈ [(fromFace 0, true), (fromFace 1, false)],
    p.2 = true ↔ p.1 ∈ [fromFace 0, fromFace 1, fromFace 3]) := by decide +kernel

/-- The repaired code covers all three. -/
example : initCovering [fromFace 0, fromFace 1, fromFace 3]
    = some [(fromFace 0, true), (fromFace 1, true), (fromFace 3, true)] := by decide +kernel

/-- D7 on a single face: children 0, 1, 3 of face 2. -/
example : IndexCellsOK [child (fromFace 2) 0, child (fromFace 2) 1, child (fromFace 2) 3] := by
  decide +kernel

/-- Here the final `addInitialRange(child 1, child 3)` DOES find a common ancestor, the whole face,
    so no index cell is lost on a single face; instead the covering overlaps itself: -/
example : initCoveringD7 [child (fromFace 2) 0, child (fromFace 2) 1, child (fromFace 2) 3]
    = some [(child (fromFace 2) 0, true), (fromFace 2, false)] := by decide +kernel

/-- the disjointness clause fails (`child 0 ⊂ face 2`) … -/
example : ¬ [(child (fromFace 2) 0, true), (fromFace 2, false)].Pairwise
    (fun a b => rangeMax a.1 < rangeMin b.1) := by decide +kernel

/-- … and the index cell `child 0` lies in two covering cells (the uniqueness clause fails): the
    search would visit its edges twice. -/
example : ∀ p ∈ [(child (fromFace 2) 0, true), (fromFace 2, false)],
    rangeMin p.1 ≤ rangeMin (child (fromFace 2) 0) ∧
      rangeMax (child (fromFace 2) 0) ≤ rangeMax p.1 := by decide +kernel

example : initCovering [child (fromFace 2) 0, child (fromFace 2) 1, child (fromFace 2) 3]
    = some [(child (fromFace 2) 0, true), (child (fromFace 2) 1, true),
        (child (fromFace 2) 3, true)] := by decide +kernel

/-- deeper cells on one face, D7 against the repaired code: grandchildren under children 0, 1, 2
    of face 5 -/
example : IndexCellsOK [child (child (fromFace 5) 0) 1, child (child (fromFace 5) 0) 2,
    child (child (fromFace 5) 1) 0, child (child (fromFace 5) 2) 3] := by decide +kernel

example : initCovering [child (child (fromFace 5) 0) 1, child (child (fromFace 5) 0) 2,
    child (child (fromFace 5) 1) 0, child (child (fromFace 5) 2) 3]
    = some [(child (fromFace 5) 0, false), (child (child (fromFace 5) 1) 0, true),
        (child (child (fromFace 5) 2) 3, true)] := by decide +kernel

example : initCoveringD7 [child (child (fromFace 5) 0) 1, child (child (fromFace 5) 0) 2,
    child (child (fromFace 5) 1) 0, child (child (fromFace 5) 2) 3]
    = some [(child (fromFace 5) 0, false), (fromFace 5, false)] := by decide +kernel

/-- the bounds are attained: six faces give six entries, four children of one face give four. -/
example : initCovering [fromFace 0, fromFace 1, fromFace 2, fromFace 3, fromFace 4, fromFace 5]
    = some [(fromFace 0, true), (fromFace 1, true), (fromFace 2, true), (fromFace 3, true),
        (fromFace 4, true), (fromFace 5, true)] := by decide +kernel

example : initCovering [child (fromFace 2) 0, child (fromFace 2) 1, child (fromFace 2) 2,
    child (fromFace 2) 3]
    = some [(child (fromFace 2) 0, true), (child (fromFace 2) 1, true),
        (child (fromFace 2) 2, true), (child (fromFace 2) 3, true)] := by decide +kernel


end S2Proofs.EdgeQuery
