/-
  S2Proofs.EdgeQuery.EdgePairNum — numeric contract of `updateEdgePairMinDistance` WITH a limit AND its flag
  (package c08edge): what `MinDistanceToEdgeTarget.updateDistanceToEdge` hands to the closest-edge search.

  c17pairs2 (`edgePairMin_within`, `edgePairMin_inf`, `edgePairMin_crossing_weak`) bounds the VALUE of
  `updateEdgePairMinDistance(a0,a1,b0,b1,m)` against `min(m, truePairDist2)`.  The search also needs the FLAG:
      "ok, d"   : `d` is finite, `≥ 0`, `d < m` in Go's `<`, and `d` is within `edgeErr = 2^-46` of the exact distance;
      "not ok"  : `m` is finite and `m ≤ truePairDist2 + edgeErr`.
  Both follow from the same ingredients as c17pairs2's chain (`updateMin_contract` of c08world for each of the four
  calls, `noncrossing_truePairDist2`, `edgePairMin_crossing_weak`); the three exits of the function are
      `minDist == 0`            → `(0, false)`
      `CrossingSign == Cross`   → `(0, true)`          (exact distance 0: `edgePairMin_crossing_weak`, different great circles)
      chain of four calls       → invariant `Inv` below.
-/
import S2Proofs.Properties.C17_Pairs2
import S2Proofs.EdgeQuery.PointEdgeNum
import S2Proofs.EdgeQuery.PointChord

set_option linter.unusedSimpArgs false
set_option linter.unusedVariables false

namespace S2Proofs.C08Edge
open S2 S2.Exact S2.EdgeNum S2Proofs.F64Order S2Proofs.FloatErr S2Proofs.C17Err S2Proofs.C17Pairs S2Proofs.C17
open S2Proofs.C08World

/-- the domain of c17pairs2 for one (target edge, index edge) pair: the four point-to-edge calls are in c17err's domain,
    and a `Cross` answer of `CrossingSign` is given on two different great circles -/
structure PairOK (a0 a1 b0 b1 : V3) : Prop where
  c1 : CallOK a0 b0 b1
  c2 : CallOK a1 b0 b1
  c3 : CallOK b0 a0 a1
  c4 : CallOK b1 a0 a1
  cross : crosses a0 a1 b0 b1 = true → CirclesDifferZ a0 a1 b0 b1

/-- one call `UpdateMinDistance(x, a, b, m)` with its flag -/
theorem step_flag {x a b : V3} (h : CallOK x a b) {m : F64} (hm : LimOK m) :
    ((updateMinDistance x a b m false).2 = true →
      Fin (updateMinDistance x a b m false).1 ∧ 0 ≤ val (updateMinDistance x a b m false).1 ∧
      val (updateMinDistance x a b m false).1 ≤ 4 ∧
      F64.lt (updateMinDistance x a b m false).1 m = true ∧
      |val (updateMinDistance x a b m false).1 - trueDist2 x a b| ≤ edgeErr) ∧
    ((updateMinDistance x a b m false).2 = false →
      (updateMinDistance x a b m false).1 = m ∧ Fin m ∧ val m ≤ trueDist2 x a b + edgeErr) := by
  obtain ⟨hx, ha, hb, hE, hM⟩ := h
  have hc := updateMin_contract x a b hx ha hb hE hM m hm
  change ((updateMinDistance x a b m false).2 = true → _) ∧ ((updateMinDistance x a b m false).2 = false → _) at hc
  constructor
  · intro h2
    exact hc.1 h2
  · intro h2
    obtain ⟨f, l⟩ := hc.2 h2
    exact ⟨updateMinDistance_false_unchanged x a b m h2, f, l⟩

/-- the chain of calls as a fold over `(value, flag)` -/
def chain (cs : List (V3 × V3 × V3)) (st : F64 × Bool) : F64 × Bool :=
  cs.foldl (fun s t => ((updateMinDistance t.1 t.2.1 t.2.2 s.1 false).1,
    s.2 || (updateMinDistance t.1 t.2.1 t.2.2 s.1 false).2)) st

/-- invariant of the chain started at `(m, false)`: `D` = the exact distances of the calls made so far -/
def Inv (m : F64) (D : List ℝ) (s : F64 × Bool) : Prop :=
  (s.2 = false → s.1 = m ∧ ∀ T ∈ D, Fin m ∧ val m ≤ T + edgeErr) ∧
  (s.2 = true → Fin s.1 ∧ 0 ≤ val s.1 ∧ val s.1 ≤ 4 ∧ F64.lt s.1 m = true ∧ (∀ T ∈ D, val s.1 ≤ T + edgeErr) ∧
    ∃ T ∈ D, T - edgeErr ≤ val s.1)

theorem lt_trans_lim {x y m : F64} (hx : Fin x) (hy : Fin y) (hxy : F64.lt x y = true) (hm : LimOK m)
    (hym : F64.lt y m = true) : F64.lt x m = true := by
  rcases hm with ⟨fm, _⟩ | hi
  · rw [lt_val hx fm]
    have := (lt_val hx hy).mp hxy
    have := (lt_val hy fm).mp hym
    linarith
  · rw [hi]; exact lt_fin_inf hx

theorem inv_step {m : F64} (hm : LimOK m) {D : List ℝ} {s : F64 × Bool} (hI : Inv m D s)
    {x a b : V3} (h : CallOK x a b) :
    Inv m (trueDist2 x a b :: D) ((updateMinDistance x a b s.1 false).1, s.2 || (updateMinDistance x a b s.1 false).2) := by
  obtain ⟨iF, iT⟩ := hI
  cases hs : s.2
  · -- nothing found so far: the current value is `m`
    obtain ⟨e, hD⟩ := iF hs
    obtain ⟨sT, sF⟩ := step_flag h (m := s.1) (by rw [e]; exact hm)
    cases hr : (updateMinDistance x a b s.1 false).2
    · obtain ⟨e1, fm, lm⟩ := sF hr
      refine ⟨fun _ => ⟨by simp only; rw [e1, e], ?_⟩, fun hc => by simp at hc⟩
      intro T hT
      rcases List.mem_cons.1 hT with rfl | hT
      · rw [e] at fm lm; exact ⟨fm, lm⟩
      · exact hD T hT
    · obtain ⟨f, n, l4, l, er⟩ := sT hr
      have l' : F64.lt (updateMinDistance x a b s.1 false).1 m = true := by rw [← e]; exact l
      refine ⟨fun hc => by simp at hc, fun _ => ⟨f, n, l4, l', ?_, ?_⟩⟩
      · intro T hT
        rcases List.mem_cons.1 hT with rfl | hT
        · have := (abs_le.mp er).2; simp only; linarith
        · obtain ⟨fm, lm⟩ := hD T hT
          have := (lt_val f fm).mp l'
          simp only; linarith
      · exact ⟨_, List.mem_cons_self, by have := (abs_le.mp er).1; simp only; linarith⟩
  · obtain ⟨fc, nc, c4, lc, uD, T0, hT0, lT0⟩ := iT hs
    obtain ⟨sT, sF⟩ := step_flag h (m := s.1) (Or.inl ⟨fc, nc⟩)
    cases hr : (updateMinDistance x a b s.1 false).2
    · obtain ⟨e1, _, lm⟩ := sF hr
      refine ⟨fun hc => by simp at hc, fun _ => ?_⟩
      simp only
      rw [e1]
      refine ⟨fc, nc, c4, lc, ?_, T0, List.mem_cons_of_mem _ hT0, lT0⟩
      intro T hT
      rcases List.mem_cons.1 hT with rfl | hT
      · exact lm
      · exact uD T hT
    · obtain ⟨f, n, l4, l, er⟩ := sT hr
      refine ⟨fun hc => by simp at hc, fun _ => ⟨f, n, l4, lt_trans_lim f fc l hm lc, ?_, ?_⟩⟩
      · intro T hT
        have hlt := (lt_val f fc).mp l
        rcases List.mem_cons.1 hT with rfl | hT
        · have := (abs_le.mp er).2; simp only; linarith
        · have := uD T hT; simp only; linarith
      · exact ⟨_, List.mem_cons_self, by have := (abs_le.mp er).1; simp only; linarith⟩

/-- the invariant holds along any chain of calls in the domain -/
theorem inv_chain {m : F64} (hm : LimOK m) (cs : List (V3 × V3 × V3)) (hcs : ∀ t ∈ cs, CallOK t.1 t.2.1 t.2.2) :
    ∀ (D : List ℝ) (s : F64 × Bool), Inv m D s →
      Inv m ((cs.map fun t => trueDist2 t.1 t.2.1 t.2.2).reverse ++ D) (chain cs s) := by
  induction cs with
  | nil => intro D s h; simpa [chain] using h
  | cons t ts ih =>
    intro D s h
    have h1 := inv_step hm h (hcs t List.mem_cons_self)
    have h2 := ih (fun u hu => hcs u (List.mem_cons_of_mem _ hu)) _ _ h1
    have e : ((t :: ts).map fun t => trueDist2 t.1 t.2.1 t.2.2).reverse ++ D
        = (ts.map fun t => trueDist2 t.1 t.2.1 t.2.2).reverse ++ (trueDist2 t.1 t.2.1 t.2.2 :: D) := by
      simp
    rw [e]
    exact h2

theorem inv_start (m : F64) : Inv m [] (m, false) :=
  ⟨fun _ => ⟨rfl, fun T hT => by cases hT⟩, fun h => by cases h⟩

/-- the non-crossing branch IS the chain over the four calls -/
theorem edgePair_eq_chain (a0 a1 b0 b1 : V3) (m : F64) (h : F64.feq m fz = false) (hc : crosses a0 a1 b0 b1 = false) :
    updateEdgePairMinDistance a0 a1 b0 b1 m =
      chain [(a0, b0, b1), (a1, b0, b1), (b0, a0, a1), (b1, a0, a1)] (m, false) := by
  rw [edgePair_no_crossing a0 a1 b0 b1 m h hc]
  simp [chain]

theorem val_zero_of_feq {m : F64} (fm : Fin m) (h : F64.feq m fz = true) : val m = 0 := by
  have := (feq_iff fm fz_facts'.1).mp h
  have hz : toInt fz = 0 := by decide
  unfold val; rw [this, hz]; simp

theorem val_ne_zero_of_feq {m : F64} (fm : Fin m) (h : F64.feq m fz = false) : val m ≠ 0 := by
  intro hv
  have hz : toInt fz = 0 := by decide
  have : toInt m = toInt fz := by
    rw [hz]
    unfold val at hv
    have h2 : ((toInt m : ℤ) : ℝ) = 0 := by
      have hp : (2 : ℝ) ^ 1074 ≠ 0 := by positivity
      rcases div_eq_zero_iff.mp hv with h | h
      · exact h
      · exact absurd h hp
    exact_mod_cast h2
  rw [(feq_iff fm fz_facts'.1).mpr this] at h
  cases h

theorem truePair_nonneg {a0 a1 b0 b1 : V3} (H : PairOK a0 a1 b0 b1) : 0 ≤ truePairDist2 a0 a1 b0 b1 := by
  unfold truePairDist2
  split_ifs
  · exact le_refl _
  · exact pairMin4_nonneg H.c1.hx.len_pos H.c2.hx.len_pos H.c3.hx.len_pos H.c4.hx.len_pos

/-- **contract of `updateEdgePairMinDistance` with a limit and its flag** (all three exits).
    `a0 a1` = target edge, `b0 b1` = index edge (argument order of `MinDistanceToEdgeTarget.updateDistanceToEdge`). -/
theorem edgePair_contract {a0 a1 b0 b1 : V3} (H : PairOK a0 a1 b0 b1) (lim : F64) (hlim : LimOK lim) :
    ((updateEdgePairMinDistance a0 a1 b0 b1 lim).2 = true →
      Fin (updateEdgePairMinDistance a0 a1 b0 b1 lim).1 ∧ 0 ≤ val (updateEdgePairMinDistance a0 a1 b0 b1 lim).1 ∧
      val (updateEdgePairMinDistance a0 a1 b0 b1 lim).1 ≤ 4 ∧
      F64.lt (updateEdgePairMinDistance a0 a1 b0 b1 lim).1 lim = true ∧
      |val (updateEdgePairMinDistance a0 a1 b0 b1 lim).1 - truePairDist2 a0 a1 b0 b1| ≤ edgeErr) ∧
    ((updateEdgePairMinDistance a0 a1 b0 b1 lim).2 = false →
      Fin lim ∧ val lim ≤ truePairDist2 a0 a1 b0 b1 + edgeErr) := by
  have hE0 : (0 : ℝ) ≤ edgeErr := by unfold edgeErr; positivity
  have hT0 := truePair_nonneg H
  cases hz : F64.feq lim fz
  · cases hc : crosses a0 a1 b0 b1
    · -- the chain
      rw [edgePair_eq_chain a0 a1 b0 b1 lim hz hc]
      have hI := inv_chain hlim [(a0, b0, b1), (a1, b0, b1), (b0, a0, a1), (b1, a0, a1)]
        (by
          intro t ht
          simp only [List.mem_cons, List.mem_nil_iff, or_false] at ht
          rcases ht with rfl | rfl | rfl | rfl
          · exact H.c1
          · exact H.c2
          · exact H.c3
          · exact H.c4) [] (lim, false) (inv_start lim)
      rw [noncrossing_truePairDist2 a0 a1 b0 b1 H.c1.hx H.c2.hx H.c3.hx H.c4.hx hc]
      obtain ⟨⟨m1, m2, m3, m4⟩, _, _⟩ := pair_facts a0 a1 b0 b1
      set R := chain [(a0, b0, b1), (a1, b0, b1), (b0, a0, a1), (b1, a0, a1)] (lim, false) with hR
      simp only [List.map_cons, List.map_nil, List.reverse_cons, List.reverse_nil, List.nil_append,
        List.cons_append, List.append_nil] at hI
      obtain ⟨iF, iT⟩ := hI
      constructor
      · intro h2
        obtain ⟨f, n, l4, l, u, T, hT, lT⟩ := iT h2
        refine ⟨f, n, l4, l, ?_⟩
        rw [abs_le]
        constructor
        · simp only [List.mem_cons, List.mem_nil_iff, or_false] at hT
          rcases hT with rfl | rfl | rfl | rfl <;> linarith
        · rcases pairMin4_cases a0 a1 b0 b1 with e | e | e | e <;> rw [e]
          · have := u (trueDist2 a0 b0 b1) (by simp); linarith
          · have := u (trueDist2 a1 b0 b1) (by simp); linarith
          · have := u (trueDist2 b0 a0 a1) (by simp); linarith
          · have := u (trueDist2 b1 a0 a1) (by simp); linarith
      · intro h2
        obtain ⟨_, hD⟩ := iF h2
        have hf : Fin lim := (hD (trueDist2 a0 b0 b1) (by simp)).1
        refine ⟨hf, ?_⟩
        rcases pairMin4_cases a0 a1 b0 b1 with e | e | e | e <;> rw [e]
        · exact (hD (trueDist2 a0 b0 b1) (by simp)).2
        · exact (hD (trueDist2 a1 b0 b1) (by simp)).2
        · exact (hD (trueDist2 b0 a0 a1) (by simp)).2
        · exact (hD (trueDist2 b1 a0 a1) (by simp)).2
    · -- `CrossingSign == Cross`
      obtain ⟨e, _, _, t⟩ := edgePairMin_crossing_weak a0 a1 b0 b1 lim H.c1.hx H.c2.hx H.c3.hx H.c4.hx (H.cross hc) hz hc
      rw [e, t]
      constructor
      · intro _
        refine ⟨fz_facts'.1, by rw [fz_facts'.2], by rw [fz_facts'.2]; norm_num, ?_, by rw [fz_facts'.2]; simpa using hE0⟩
        rcases hlim with ⟨fm, n⟩ | hi
        · rw [lt_val fz_facts'.1 fm, fz_facts'.2]
          exact lt_of_le_of_ne n (Ne.symm (val_ne_zero_of_feq fm hz))
        · rw [hi]; exact lt_fin_inf fz_facts'.1
      · intro h2; cases h2
  · -- `minDist == 0`
    rw [edgePair_zero_threshold a0 a1 b0 b1 lim hz]
    constructor
    · intro h2; cases h2
    · intro _
      rcases hlim with ⟨fm, _⟩ | hi
      · exact ⟨fm, by rw [val_zero_of_feq fm hz]; linarith⟩
      · have hd : F64.feq (F64.inf false) fz = false := by decide
        rw [hi, hd] at hz; cases hz

end S2Proofs.C08Edge
