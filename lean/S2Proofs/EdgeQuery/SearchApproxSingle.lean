/-
  S2Proofs.EdgeQuery.SearchApproxSingle — `maxResults = 1` with an approximate target
  (`WorldApprox`), generalising K7 of `SearchSingle` in two directions:

  * the query's own flag `targetUsesMaxError` (`maxError != zero && target.setMaxError(..)`) may be
    FALSE although the target does use `maxError`.  This happens in the Go code for
    `IsDistanceGreater` on a furthest-edge query: `maxError = StraightChordAngle` is compared with
    `distance().zero().chordAngle()`, which for `maxDistance` is `StraightChordAngle` too, so
    `useConservativeCellDistance` stays off while the shape-index target has been handed the error.
    The search is still right because `distanceLimit − maxError ≤ zero` (hypothesis `hq`): the first
    result kills the search, and until then the limit is the initial one.
  * the final state also records the interior results and the zero-limit exit, so that the
    threshold calls can be characterised: `isDistanceLess_spec_approx`, `isDistanceLess_iff_approx`.
  Core-only.
-/
import S2.EdgeQueryM
import S2Proofs.EdgeQuery.SearchSingle
set_option linter.unusedSectionVars false
open S2 S2.EdgeQueryM
namespace S2Proofs.EdgeQuery
namespace ApproxSingle
open Single

variable {D : Type} [DecidableEq D]

/-- everything the theorems need of the final state -/
structure Final (I : DistI D) (o : Opts D) (w : World D) (d : EdgeKey → D) (s : St D) : Prop where
  inv : Approx.Inv I o w d s
  exit : Exit I w d s
  interior : o.includeInteriors = true → w.interiors ≠ [] → o.distanceLimit ≠ I.zero →
    ∃ r ∈ s.results, r.dist = I.zero
  zero_nil : o.distanceLimit = I.zero → s.results = []

section Internal
variable {I : DistI D} {o : Opts D} {w : World D} {d : EdgeKey → D}

theorem addResult_results (s : St D) (r : Result D) :
    (addResult I o s r).results = s.results ++ [r] := by
  unfold addResult; split <;> rfl

theorem interiors_mem (l : List Int) : ∀ (s : St D),
    (∀ r ∈ s.results, r ∈ (l.foldl (fun s sh => addResult I o s ⟨I.zero, sh, -1⟩) s).results) ∧
    ∀ sh ∈ l, (⟨I.zero, sh, -1⟩ : Result D) ∈
      (l.foldl (fun s sh => addResult I o s ⟨I.zero, sh, -1⟩) s).results := by
  induction l with
  | nil => intro s; exact ⟨fun _ h => h, fun _ h => by cases h⟩
  | cons x xs ih =>
    intro s
    simp only [List.foldl_cons]
    obtain ⟨a, b⟩ := ih (addResult I o s ⟨I.zero, x, -1⟩)
    refine ⟨fun r hr => a r (by rw [addResult_results]; exact List.mem_append_left _ hr), ?_⟩
    intro sh hsh
    rcases List.mem_cons.1 hsh with rfl | h
    · exact a _ (by rw [addResult_results]; simp)
    · exact b sh h

/-- `distanceLimit − maxError ≤ zero` implies the side condition `hq` of the theorems below -/
theorem hq_of_limit (O : DistOrder I) {err L : D} (M : SubMono I err)
    (h : I.less I.zero (I.sub L err) = false) :
    ∀ x, I.less x I.zero = false → I.less x L = true → I.less I.zero (I.sub x err) = false :=
  fun x _ hx => ord_le_trans O (M.mono x L hx) h

/-- the final state of `findEdgesInternal`, `maxResults = 1`, approximate target; `hq`: if the query
    does not treat the target as approximate then `x − maxError ≤ zero` for every distance `x`
    within the limit (see `hq_of_limit`: `distanceLimit − maxError ≤ zero` suffices) -/
theorem internal_final (O : DistOrder I) (S : SubLaws I o.maxError) (M : SubMono I o.maxError)
    (A : WorldApprox I o.maxError w d) (h1 : o.maxResults = 1)
    (hq : (o.maxError != I.zero && o.targetUsesMaxError) = false →
      ∀ x, I.less x I.zero = false → I.less x o.distanceLimit = true →
        I.less I.zero (I.sub x o.maxError) = false) {s : St D}
    (hT : findEdgesInternal I o w = some s) : Final I o w d s := by
  have hs0 : Approx.Inv I o w d
      { limit := o.distanceLimit, results := [], tested := [], queue := [] } :=
    ⟨by simp, fun _ => rfl, fun h => absurd rfl h, fun _ _ h => h⟩
  have hav : decide (o.maxResults > 1) = false := by simp [h1]
  unfold findEdgesInternal at hT
  simp only [hav, Bool.and_false] at hT
  split at hT
  · rename_i hz
    have hz' : o.distanceLimit = I.zero := by simpa using hz
    simp only [Option.some.injEq] at hT
    subst hT
    exact ⟨hs0, Approx.exit_of_limit_zero O A hz', fun _ _ h => absurd hz' h, fun _ => rfl⟩
  · rename_i hz
    have hne : o.distanceLimit ≠ I.zero := by simpa using hz
    have hs1 : ∃ s1 : St D, s1 = (if o.includeInteriors then
          w.interiors.foldl (fun s sh => addResult I o s ⟨I.zero, sh, -1⟩)
            { limit := o.distanceLimit, results := [], tested := [], queue := [] }
        else { limit := o.distanceLimit, results := [], tested := [], queue := [] }) ∧
        Approx.Inv I o w d s1 ∧ s1.queue = [] ∧
        (o.includeInteriors = true → w.interiors ≠ [] → ∃ r ∈ s1.results, r.dist = I.zero) := by
      refine ⟨_, rfl, ?_⟩
      cases hi : o.includeInteriors with
      | false => exact ⟨hs0, rfl, fun h => by cases h⟩
      | true =>
        simp only [if_true]
        obtain ⟨a1, a2⟩ := Approx.interiors_fold O S h1 hi w.interiors hs0 (by simp) (fun _ h => h)
        refine ⟨a1, a2, fun _ hne' => ?_⟩
        obtain ⟨sh, hsh⟩ := List.exists_mem_of_ne_nil _ hne'
        exact ⟨_, (interiors_mem (I := I) (o := o) w.interiors _).2 sh hsh, rfl⟩
    obtain ⟨s1, hs1eq, i1, i2, i3⟩ := hs1
    rw [← hs1eq] at hT
    have fin : ∀ s' : St D, Approx.Inv I o w d s' → Step I s1 s' → Exit I w d s' →
        Final I o w d s' := by
      intro s' a b c
      refine ⟨a, c, ?_, fun h => absurd h hne⟩
      intro hi hne' _
      obtain ⟨r, hr, hr0⟩ := i3 hi hne'
      exact ⟨r, b.results_sub r hr, hr0⟩
    split at hT
    · rename_i hz2
      simp only [Option.some.injEq] at hT
      subst hT
      have : s1.limit = I.zero := by
        simp only [Bool.and_eq_true, beq_iff_eq] at hz2; exact hz2.2
      exact fin _ i1 (Step.refl O _) (Approx.exit_of_limit_zero O A this)
    · split at hT
      · simp only [Option.some.injEq] at hT
        subst hT
        obtain ⟨a, b, c⟩ := Approx.brute_step O S A h1 i1 i2
        exact fin _ a b c
      · have hNC : ((o.maxError != I.zero && o.targetUsesMaxError) &&
              (s1.limit == I.infinity || I.less I.zero (I.sub s1.limit o.maxError))) = false →
            ∀ x, I.less x s1.limit = true → I.less I.zero (I.sub x o.maxError) = false := by
          intro hc x hx
          cases htu : (o.maxError != I.zero && o.targetUsesMaxError) with
          | true =>
            rw [htu] at hc
            have h2 : I.less I.zero (I.sub s1.limit o.maxError) = false := by
              simp only [Bool.true_and, Bool.or_eq_false_iff] at hc; exact hc.2
            exact ord_le_trans O (M.mono x s1.limit hx) h2
          | false =>
            cases hx0 : I.less x I.zero with
            | true => exact ord_asymm O (ord_lt_of_le_of_lt O (S.sub_le x) hx0)
            | false => exact hq htu x hx0 (i1.within x hx0 hx)
        obtain ⟨a, b, c⟩ := Approx.optimized_out O S A h1 hNC i1 i2 hT
        exact fin _ a b c

end Internal

section Main
variable {I : DistI D} {o : Opts D} {w : World D} {d : EdgeKey → D}

theorem single_char (O : DistOrder I) (S : SubLaws I o.maxError) (M : SubMono I o.maxError)
    (A : WorldApprox I o.maxError w d) (h1 : o.maxResults = 1)
    (hq : (o.maxError != I.zero && o.targetUsesMaxError) = false →
      ∀ x, I.less x I.zero = false → I.less x o.distanceLimit = true →
        I.less I.zero (I.sub x o.maxError) = false) {rs : List (Result D)}
    (h : findEdges I o w = some rs) :
    ∃ s, Final I o w d s ∧ ((s.results = [] ∧ rs = []) ∨
      ∃ m, rs = [m] ∧ m ∈ s.results ∧ ∀ r ∈ s.results, I.less r.dist m.dist = false) := by
  obtain ⟨s, hs, hrs⟩ := findEdges_some h
  refine ⟨s, internal_final O S M A h1 hq hs, ?_⟩
  rw [h1] at hrs
  rcases postProcess_one O s.results with ⟨a, b⟩ | ⟨m, a, b, c⟩
  · left; exact ⟨a, hrs.trans b⟩
  · right; exact ⟨m, hrs.trans a, b, c⟩

/-- the complete description of a single-result answer for an approximate target -/
structure SingleSpec (I : DistI D) (o : Opts D) (w : World D) (d : EdgeKey → D)
    (rs : List (Result D)) : Prop where
  length : rs.length ≤ 1
  sound : ∀ r ∈ rs,
    (o.includeInteriors = true ∧ r.dist = I.zero ∧ r.edge = -1 ∧ r.shape ∈ w.interiors) ∨
    (∃ e ∈ w.allEdges, r.shape = e.shape ∧ r.edge = e.edge ∧
      I.less r.dist o.distanceLimit = true ∧ I.less r.dist (d e) = false ∧
      I.less (d e) (I.sub r.dist o.maxError) = false)
  optimal : ∀ r ∈ rs, ∀ e ∈ w.allEdges, I.less (d e) (I.sub r.dist o.maxError) = false
  complete : rs = [] → ∀ e ∈ w.allEdges, I.less (d e) o.distanceLimit = false
  interior : o.includeInteriors = true → w.interiors ≠ [] → o.distanceLimit ≠ I.zero →
    ∃ r ∈ rs, r.dist = I.zero
  zero_limit : o.distanceLimit = I.zero → rs = []

theorem single_spec (O : DistOrder I) (S : SubLaws I o.maxError) (M : SubMono I o.maxError)
    (A : WorldApprox I o.maxError w d) (h1 : o.maxResults = 1)
    (hq : (o.maxError != I.zero && o.targetUsesMaxError) = false →
      ∀ x, I.less x I.zero = false → I.less x o.distanceLimit = true →
        I.less I.zero (I.sub x o.maxError) = false) {rs : List (Result D)}
    (h : findEdges I o w = some rs) : SingleSpec I o w d rs := by
  obtain ⟨s, F, hc⟩ := single_char O S M A h1 hq h
  refine ⟨single_length h1 h, ?_, ?_, ?_, ?_, ?_⟩
  · intro r hr
    rcases hc with ⟨_, rfl⟩ | ⟨m, rfl, hm, _⟩
    · cases hr
    · simp only [List.mem_singleton] at hr; subst hr
      exact F.inv.sound r hm
  · intro r hr e he
    rcases hc with ⟨_, rfl⟩ | ⟨m, rfl, hm, hmin⟩
    · cases hr
    · simp only [List.mem_singleton] at hr; subst hr
      obtain ⟨l, hl, hlim, hlmin⟩ := F.inv.last (List.ne_nil_of_mem hm)
      have : r.dist = l.dist := ord_eq_of_le_le O (hlmin r hm) (hmin l hl)
      rw [this, ← hlim]
      exact F.exit e he
  · intro hnil e he
    rcases hc with ⟨hr, _⟩ | ⟨m, hm, _, _⟩
    · rw [← F.inv.nil_limit hr]; exact F.exit e he
    · rw [hnil] at hm; cases hm
  · intro hi hne hz
    obtain ⟨r0, hr0, hz0⟩ := F.interior hi hne hz
    rcases hc with ⟨hr, _⟩ | ⟨m, rfl, hm, hmin⟩
    · rw [hr] at hr0; cases hr0
    · refine ⟨m, by simp, ?_⟩
      have hle : I.less I.zero m.dist = false := hz0 ▸ hmin r0 hr0
      rcases F.inv.sound m hm with ⟨_, h0, _⟩ | ⟨e, _, _, _, _, hge, _⟩
      · exact h0
      · exact ord_eq_of_le_le O (ord_le_trans O (A.zeroMin e) hge) hle
  · intro hz
    rcases hc with ⟨_, h⟩ | ⟨m, _, hm, _⟩
    · exact h
    · rw [F.zero_nil hz] at hm; cases hm

end Main

/-! ## Threshold calls -/

section Threshold
variable {I : DistI D} {o : Opts D} {w : World D} {d : EdgeKey → D}

/-- `isDistanceLess` decides `Within` for a target that uses the error `straight` it is handed:
    `updateDistanceToEdge` may then return ANY value between the true distance and the limit, and
    the answer is still exactly "something of the index is within `t`".
    `hq`: if the query does not treat the target as approximate (`straight = zero`: the furthest-edge
    query) then `x − straight ≤ zero` for every `x` within `t`. -/
theorem isDistanceLess_spec_approx (O : DistOrder I) {straight t : D}
    (A : WorldApprox I straight w d) (Sst : SubLaws I straight) (Mst : SubMono I straight)
    (hq : (straight != I.zero && o.targetUsesMaxError) = false →
      ∀ x, I.less x I.zero = false → I.less x t = true → I.less I.zero (I.sub x straight) = false)
    (hsh : ∀ e ∈ w.allEdges, 0 ≤ e.shape) (hin : ∀ sh ∈ w.interiors, 0 ≤ sh)
    {b : Bool} (hb : isDistanceLess I straight o w t = some b) :
    (b = true ↔ Within I o w d t) := by
  rw [isDistanceLess_eq] at hb
  cases hrs : findEdges I { o with maxResults := 1, distanceLimit := t, maxError := straight } w with
  | none => rw [hrs] at hb; cases hb
  | some rs =>
    rw [hrs] at hb
    simp only [Option.map_some, Option.some.injEq] at hb
    have sp := single_spec (o := { o with maxResults := 1, distanceLimit := t, maxError := straight })
      O Sst Mst A rfl hq hrs
    cases rs with
    | nil =>
      have hbf : b = false := hb.symm
      subst hbf
      refine ⟨fun h => (by cases h), ?_⟩
      rintro ⟨ht, ⟨hi, hne⟩ | ⟨e, he, hlt⟩⟩
      · obtain ⟨r, hr, _⟩ := sp.interior hi hne ht
        cases hr
      · have := sp.complete rfl e he
        rw [show I.less (d e) t = true from hlt] at this; cases this
    | cons r rest =>
      have hr : r ∈ r :: rest := by simp
      have ht : t ≠ I.zero := fun h0 => by cases sp.zero_limit h0
      have hbt : b = decide (r.shape ≥ 0) := hb.symm
      rcases sp.sound r hr with ⟨a, _, _, a'⟩ | ⟨e, he, a, _, a', a'', _⟩
      · have : r.shape ≥ 0 := hin _ a'
        exact ⟨fun _ => ⟨ht, Or.inl ⟨a, List.ne_nil_of_mem a'⟩⟩, fun _ => by rw [hbt]; simpa using this⟩
      · have : r.shape ≥ 0 := by rw [a]; exact hsh e he
        refine ⟨fun _ => ⟨ht, Or.inr ⟨e, he, ?_⟩⟩, fun _ => by rw [hbt]; simpa using this⟩
        exact ord_lt_of_le_of_lt O a'' a'

/-- the threshold call agrees with the TRUE optimum `dd` (`DistSpec`: the distance an exact search
    without limit returns), also for approximate targets -/
theorem isDistanceLess_iff_approx (O : DistOrder I) {straight t : D}
    (A : WorldApprox I straight w d) (Sst : SubLaws I straight) (Mst : SubMono I straight)
    (hq : (straight != I.zero && o.targetUsesMaxError) = false →
      ∀ x, I.less x I.zero = false → I.less x t = true → I.less I.zero (I.sub x straight) = false)
    (hlim : o.distanceLimit = I.infinity)
    (hinf : I.less I.zero I.infinity = true) (ht1 : I.less I.infinity t = false)
    (ht0 : I.less t I.zero = false)
    (hsh : ∀ e ∈ w.allEdges, 0 ≤ e.shape) (hin : ∀ sh ∈ w.interiors, 0 ≤ sh)
    {b : Bool} {dd : D} (hb : isDistanceLess I straight o w t = some b)
    (hd : DistSpec I o w d dd) : (b = true ↔ I.less dd t = true) := by
  refine (isDistanceLess_spec_approx O A Sst Mst hq hsh hin hb).trans ?_
  -- `distance_less_iff` only needs `zeroMin` of the world
  have hne : o.distanceLimit ≠ I.zero := by
    intro h; rw [hlim] at h; rw [h, O.irrefl] at hinf; cases hinf
  by_cases hi : o.includeInteriors = true ∧ w.interiors ≠ []
  · rw [hd.interior hne hi.1 hi.2]
    constructor
    · rintro ⟨ht, _⟩
      rcases O.tri _ _ ht with h | h
      · rw [ht0] at h; cases h
      · exact h
    · intro hlt
      refine ⟨?_, Or.inl hi⟩
      intro h0; rw [h0, O.irrefl] at hlt; cases hlt
  · rcases hd.edges hne hi with ⟨a, a'⟩ | ⟨e, he, a, _, a''⟩
    · rw [a, ht1]
      refine ⟨?_, fun h => (by cases h)⟩
      rintro ⟨_, h | ⟨e, he, hlt⟩⟩
      · exact absurd h hi
      · have := ord_lt_of_lt_of_le O hlt ht1
        rw [hlim] at a'
        rw [a' e he] at this; cases this
    · rw [a]
      constructor
      · rintro ⟨_, h | ⟨f, hf, hlt⟩⟩
        · exact absurd h hi
        · exact ord_lt_of_le_of_lt O (a ▸ a'' f hf) hlt
      · intro hlt
        refine ⟨?_, Or.inr ⟨e, he, hlt⟩⟩
        intro h0; rw [h0, A.zeroMin] at hlt; cases hlt

end Threshold

end ApproxSingle
end S2Proofs.EdgeQuery
