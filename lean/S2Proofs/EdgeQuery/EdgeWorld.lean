/-
  S2Proofs.EdgeQuery.EdgeWorld — the CONCRETE world of a closest-edge query with an EDGE target
  (`MinDistanceToEdgeTarget`, s2/min_distance_targets.go) on a built index, and the proof that it is a
  `Slack.SlackWorld` (package c08edge; the edge-target twin of `PointWorld.lean`):

   * edges   = pairs of float vertices; `updateDistanceToEdge` = the bit-exact
               `updateEdgePairMinDistance(target.V0, target.V1, edge.V0, edge.V1, dist)` (`S2.EdgeNum`) followed by
               `dist.updateDistance` — contract `edgePair_contract` (c17pairs2 + c08world, `EdgePairNum.lean`);
   * cells   = cell ids, arranged as the tree `Roots.subtree` of the index; `updateDistanceToCell` = the bit-exact
               `Cell.DistanceToEdge(target.V0, target.V1)` (`S2.CellEdgeM.distanceToEdge`) — lower bound
               `S2Proofs.C12.distanceToEdge_lower_bound` (c12dist2), slack `2^-44`;
   * "below" = the index edge has a point in the exact cell: `ClosestCovered` — the point `Q` of the index edge that
               realises the exact edge-pair distance (with a point `R` of the target arc) lies in the exact region of an
               index cell listing the edge and of all its ancestors up to an initial cell.

  Exact distance of edge `e`:  `rho E e = truePairDist2 target e` (c17pairs: 0 if the arcs meet, else the least of the four
  endpoint-to-arc distances; `truePairDist2_is_min`: the minimum of the squared chord over arc × arc).
-/
import S2Proofs.EdgeQuery.EdgePairNum
import S2Proofs.EdgeQuery.PointWorld
import S2Proofs.EdgeQuery.PointWorld2Defs
import S2Proofs.EdgeQuery.RegionsNested
import S2Proofs.EdgeQuery.ChordSub
import S2Proofs.Properties.C12_Distance2

set_option linter.unusedSimpArgs false
set_option linter.unusedVariables false

namespace S2Proofs.C08Edge
open S2 S2.Exact S2.CellID S2.EdgeNum S2.EdgeQueryM S2Proofs.F64Order S2Proofs.FloatErr S2Proofs.EdgeQuery
open S2Proofs.C17Err S2Proofs.C17 S2Proofs.C17Pairs S2Proofs.C08World

/-! ## the data -/

/-- index + edge target of one query -/
structure EdgeIndex where
  /-- the target edge `m.e.V0`, `m.e.V1` -/
  t0 : V3
  t1 : V3
  /-- the two vertices of an index edge -/
  vert : EdgeKey → V3 × V3
  /-- all edges of the index in brute-force scan order -/
  allEdges : List EdgeKey
  /-- the index cells with their clipped edges -/
  ix : Roots.CIndex
  /-- ids of the initial cells `initQueue` hands to `processOrEnqueue`, as a function of the limit -/
  rootIds : Chord → List CellID
  /-- descent depth of the tree (30 covers every level) -/
  depth : Nat
  interiors : List Int
  located : Option (List EdgeKey)
  small : Bool

/-- the index part in the vocabulary of the point-target package (the point `p` is NOT used by `I1Arc`,
    `IxIsBuild`, … — only the index) -/
def EdgeIndex.toPoint (E : EdgeIndex) : PointIndex where
  p := E.t0
  vert := E.vert
  allEdges := E.allEdges
  ix := E.ix
  rootIds := E.rootIds
  depth := E.depth
  interiors := E.interiors
  located := E.located
  small := E.small

variable (E : EdgeIndex)

/-- `cell.DistanceToEdge(m.e.V0, m.e.V1)` -/
def cellDist (id : CellID) : F64 := CellEdgeM.distanceToEdge (CellM.cellFromCellID id) E.t0 E.t1

/-- `MinDistanceToEdgeTarget.updateDistanceToCell`:
    `dist.updateDistance(minDistance(cell.DistanceToEdge(m.e.V0, m.e.V1)))` -/
def updCell (id : CellID) (lim : Chord) : Option Chord :=
  if F64.lt (cellDist E id) lim.1 then some (canon (cellDist E id)) else none

/-- the raw call `updateEdgePairMinDistance(m.e.V0, m.e.V1, edge.V0, edge.V1, dist.chordAngle())` -/
def pairCall (e : EdgeKey) (lim : F64) : F64 × Bool :=
  updateEdgePairMinDistance E.t0 E.t1 (E.vert e).1 (E.vert e).2 lim

/-- `MinDistanceToEdgeTarget.updateDistanceToEdge`:
    `if d, ok := updateEdgePairMinDistance(…); ok { dist, _ = dist.updateDistance(minDistance(d)); return dist, true }`
    (`updateDistance` keeps the old value unless `d < dist`; on the domain of the theorems `ok` implies `d < dist`) -/
def updEdge (e : EdgeKey) (lim : Chord) : Option Chord :=
  if (pairCall E e lim.1).2 then
    some (if F64.lt (pairCall E e lim.1).1 lim.1 then canon (pairCall E e lim.1).1 else lim)
  else none

/-- the world of the search model -/
def world : World Chord where
  updEdge := updEdge E
  allEdges := E.allEdges
  interiors := E.interiors
  small := E.small
  emptyTarget := false
  located := E.located
  roots lim := (E.rootIds lim).map (Roots.subtree E.ix (updCell E) E.depth)

/-- EXACT squared chord distance between the target arc and the arc of edge `e` -/
noncomputable def rho (e : EdgeKey) : ℝ := truePairDist2 E.t0 E.t1 (E.vert e).1 (E.vert e).2

/-- "edge `e` is truly closer to the target edge than `lim` by more than the slack" (`slack = 2^-44`, as for points) -/
def Near (e : EdgeKey) (lim : Chord) : Prop := lim.1 = posInf ∨ rho E e + slack < val lim.1

/-- `Near` is monotone in the limit -/
theorem near_mono (e : EdgeKey) (a b : Chord) (h : Near E e a) (hba : chordI.less b a = false) : Near E e b := by
  rcases chord_fin_or_inf b with hb | hb
  · rcases h with ha | ha
    · have : cless b a = true := by unfold cless; rw [ha]; exact lt_fin_inf hb
      rw [show chordI.less b a = cless b a from rfl, this] at hba; cases hba
    · rcases chord_fin_or_inf a with haf | hai
      · right
        have h1 : ¬ (val b.1 < val a.1) := by
          intro hlt
          have : F64.lt b.1 a.1 = true := (lt_val hb haf).mpr hlt
          rw [show chordI.less b a = F64.lt b.1 a.1 from rfl, this] at hba; cases hba
        linarith [not_lt.mp h1]
      · have : cless b a = true := by unfold cless; rw [hai]; exact lt_fin_inf hb
        rw [show chordI.less b a = cless b a from rfl, this] at hba; cases hba
  · exact Or.inl hb

/-! ## the domain: ONE record with the hypotheses of c17pairs2 and c12dist2 -/

/-- cells the search can visit: the valid cells that contain an index cell AND lie at or below an initial cell (for
    some limit) containing that index cell — the nodes of the trees `Roots.subtree` on the way to an index cell -/
def Visited (y : CellID) : Prop :=
  isValid y = true ∧ ∃ x ∈ Roots.ids E.ix, contains y x = true ∧
    ∃ lim, ∃ c ∈ E.rootIds lim, contains c x = true ∧ level c ≤ level y

/-- **the numeric domain of an edge-target query** = the hypotheses of the two source packages:
    * c12dist2 (`distanceToEdge_lower_bound`): `UnitPt` of the target endpoints, `EdgeOK` of the target edge, and for every
      cell the search can visit (`Visited`: at or below an initial cell, above an index cell) `VerticesOK` (the four float vertices are in c17err's domain as points and have
      `WedgeMargin` against the target edge);
    * c17pairs2 (`edgePairMin_within` …): for every index edge the four `CallOK` of the pair (target, edge) and "a `Cross`
      answer of `CrossingSign` is given on two different great circles" (`PairOK`). -/
structure EdgeTargetOK : Prop where
  t0 : UnitPt E.t0
  t1 : UnitPt E.t1
  tEdge : EdgeOK E.t0 E.t1
  cells : ∀ y, Visited E y → S2Proofs.C12.VerticesOK (CellM.cellFromCellID y) E.t0 E.t1
  pairs : ∀ e ∈ E.allEdges, PairOK E.t0 E.t1 (E.vert e).1 (E.vert e).2

variable {E}

theorem rho_nonneg (H : EdgeTargetOK E) {e : EdgeKey} (he : e ∈ E.allEdges) : 0 ≤ rho E e :=
  truePair_nonneg (H.pairs e he)

/-- an index edge of the domain is not antipodal (`EdgeOK`: `|2 v0×v1|² ≥ 2^-68`) -/
theorem edge_notAntipodal (H : EdgeTargetOK E) {e : EdgeKey} (he : e ∈ E.allEdges) :
    NotAntipodal (vecR (E.vert e).1) (vecR (E.vert e).2) := by
  have h := edgeOK_normal_pos (H.pairs e he).c1.hE
  left
  unfold R3.len at h
  exact Real.sqrt_pos.mp h

/-- **`rho` is the minimum of the squared chord over (target arc) × (arc of the edge), and it is attained** -/
theorem rho_is_min (H : EdgeTargetOK E) {e : EdgeKey} (he : e ∈ E.allEdges) :
    (∀ R Q, OnArc (vecR E.t0) (vecR E.t1) R → OnArc (vecR (E.vert e).1) (vecR (E.vert e).2) Q → rho E e ≤ chordPQ R Q) ∧
    (∃ R Q, OnArc (vecR E.t0) (vecR E.t1) R ∧ OnArc (vecR (E.vert e).1) (vecR (E.vert e).2) Q ∧ chordPQ R Q = rho E e) :=
  truePairDist2_is_min E.t0 E.t1 (E.vert e).1 (E.vert e).2 H.t0 H.t1 (H.pairs e he).c3.hx (H.pairs e he).c4.hx
    (edge_notAntipodal H he)

/-! ## the edge clauses of `SlackWorld` -/

theorem updEdge_some {e : EdgeKey} {lim x : Chord} (h : updEdge E e lim = some x) :
    (pairCall E e lim.1).2 = true ∧
    x = (if F64.lt (pairCall E e lim.1).1 lim.1 then canon (pairCall E e lim.1).1 else lim) := by
  unfold updEdge at h
  split at h
  · rename_i h2
    exact ⟨h2, by simpa using h.symm⟩
  · cases h

theorem updEdge_none {e : EdgeKey} {lim : Chord} (h : updEdge E e lim = none) : (pairCall E e lim.1).2 = false := by
  unfold updEdge at h
  split at h
  · cases h
  · rename_i h2; simpa using h2

/-- "ok, x": `x` is finite, `≤ 4`, within the limit (Go's `<`), and within `edgeErr = 2^-46` of the exact distance -/
theorem edge_some (H : EdgeTargetOK E) {e : EdgeKey} (he : e ∈ E.allEdges) {lim x : Chord}
    (h : updEdge E e lim = some x) :
    Fin x.1 ∧ val x.1 ≤ 4 ∧ chordI.less x lim = true ∧ |val x.1 - rho E e| ≤ edgeErr := by
  obtain ⟨h2, hx⟩ := updEdge_some h
  obtain ⟨c1, _⟩ := edgePair_contract (H.pairs e he) lim.1 (chord_lim_ok lim)
  obtain ⟨f, nn, l4, hlt, herr⟩ := c1 h2
  change Fin (pairCall E e lim.1).1 at f
  change 0 ≤ val (pairCall E e lim.1).1 at nn
  change val (pairCall E e lim.1).1 ≤ 4 at l4
  change F64.lt (pairCall E e lim.1).1 lim.1 = true at hlt
  change |val (pairCall E e lim.1).1 - rho E e| ≤ edgeErr at herr
  obtain ⟨cf, cv⟩ := canon_fin f
  rw [max_eq_left nn] at cv
  rw [if_pos hlt] at hx
  subst hx
  refine ⟨cf, by rw [cv]; exact l4, ?_, by rw [cv]; exact herr⟩
  show F64.lt _ lim.1 = true
  rcases chord_fin_or_inf lim with hl | hl
  · rw [lt_val cf hl, cv]; exact (lt_val f hl).mp hlt
  · have := lt_fin_inf cf
    rw [← hl] at this; exact this

/-- "not ok": the limit is finite and at most `edgeErr` above the exact distance -/
theorem edge_none (H : EdgeTargetOK E) {e : EdgeKey} (he : e ∈ E.allEdges) {lim : Chord}
    (h : updEdge E e lim = none) : Fin lim.1 ∧ val lim.1 ≤ rho E e + edgeErr := by
  obtain ⟨_, c2⟩ := edgePair_contract (H.pairs e he) lim.1 (chord_lim_ok lim)
  exact c2 (updEdge_none h)

/-- **the same value in the terms of c17pairs2** (`edgePairMin_within_total` / `edgePairMin_inf_total`): a value reported for a
    FINITE limit is within `pairSlack ≤ 200u` of `min(limit, exact distance)`, for the limit `+Inf` within `pairSlack` of
    the exact distance.  (The search theorems use the sharper `edgeErr = 2^-46 = 128u` of `edge_some`, which also speaks
    about the flag.) -/
theorem edge_some_pairSlack (H : EdgeTargetOK E) {e : EdgeKey} (he : e ∈ E.allEdges) {lim x : Chord}
    (h : updEdge E e lim = some x) :
    (Fin lim.1 → |val x.1 - min (val lim.1) (rho E e)| ≤ pairSlack E.t0 E.t1 (E.vert e).1 (E.vert e).2) ∧
    (lim.1 = posInf → |val x.1 - rho E e| ≤ pairSlack E.t0 E.t1 (E.vert e).1 (E.vert e).2) := by
  obtain ⟨h2, hx⟩ := updEdge_some h
  obtain ⟨c1, _⟩ := edgePair_contract (H.pairs e he) lim.1 (chord_lim_ok lim)
  obtain ⟨f, nn, _, hlt, _⟩ := c1 h2
  change Fin (pairCall E e lim.1).1 at f
  change 0 ≤ val (pairCall E e lim.1).1 at nn
  change F64.lt (pairCall E e lim.1).1 lim.1 = true at hlt
  obtain ⟨cf, cv⟩ := canon_fin f
  rw [max_eq_left nn] at cv
  rw [if_pos hlt] at hx
  subst hx
  have P := H.pairs e he
  constructor
  · intro hl
    have hz : F64.feq lim.1 fz = false := by
      cases hzz : F64.feq lim.1 fz
      · rfl
      · have hzt := edgePair_zero_threshold E.t0 E.t1 (E.vert e).1 (E.vert e).2 lim.1 hzz
        unfold pairCall at h2
        rw [hzt] at h2; cases h2
    have h0 : 0 ≤ fval lim.1 := by
      rw [fval_eq_val]
      rcases chord_lim_ok lim with ⟨_, n⟩ | hi
      · exact n
      · exact absurd hi (fin_ne_inf hl)
    have := edgePairMin_within_total E.t0 E.t1 (E.vert e).1 (E.vert e).2 lim.1 P.c1 P.c2 P.c3 P.c4 hl h0 hz P.cross
    rw [fval_eq_val, fval_eq_val] at this
    rw [cv]; exact this
  · intro hi
    have := edgePairMin_inf_total E.t0 E.t1 (E.vert e).1 (E.vert e).2 P.c1 P.c2 P.c3 P.c4 P.cross
    rw [fval_eq_val] at this
    rw [cv]
    have e1 : pairCall E e lim.1 = updateEdgePairMinDistance E.t0 E.t1 (E.vert e).1 (E.vert e).2 fInf := by
      unfold pairCall; rw [hi]; rfl
    rw [e1]; exact this

theorem not_near_of_le {e : EdgeKey} {x : Chord} (hf : Fin x.1) (h : val x.1 ≤ rho E e + slack) : ¬ Near E e x := by
  rintro (hi | hlt)
  · exact fin_ne_inf hf hi
  · linarith

/-! ## the cell clause: `Cell.DistanceToEdge` against an index edge with a point in the cell -/

open S2Proofs.C12 S2Proofs.C12Dist in
/-- a visited cell whose exact region contains the point `Q` of edge `e` that realises (with the point `R` of the target
    arc) the exact edge-pair distance is `GoodFor` that edge: its reported distance is at most `rho e + 2^-44` -/
theorem cell_good (H : EdgeTargetOK E) {y : CellID} (hy : Visited E y) {e : EdgeKey} (he : e ∈ E.allEdges)
    {Q R : C17Err.R3} (hR : OnArc (vecR E.t0) (vecR E.t1) R)
    (hQ : InCellXYZ (CellM.cellFromCellID y) (toAcc Q)) (hρ : chordPQ Q R = rho E e) :
    ∀ l, (updCell E y l = none → ¬ Near E e l) ∧ (∀ x, updCell E y l = some x → ¬ Near E e x) := by
  obtain ⟨hf, hle⟩ := distanceToEdge_lower_bound y hy.1 E.t0 E.t1 H.t0 H.t1 H.tEdge (H.cells y hy) Q R hQ hR
  rw [hρ] at hle
  have hD : val (cellDist E y) ≤ rho E e + slack := by unfold cellDist slack; exact hle
  have hf' : Fin (cellDist E y) := hf
  have hr0 := rho_nonneg H he
  intro l
  constructor
  · intro hnone
    unfold updCell at hnone
    split at hnone
    · cases hnone
    · rename_i hnl
      rintro (hi | hlt)
      · rw [hi] at hnl; exact hnl (lt_fin_inf hf')
      · rcases chord_fin_or_inf l with hl | hl
        · have : ¬ (val (cellDist E y) < val l.1) := fun h => hnl ((lt_val hf' hl).mpr h)
          linarith [not_lt.mp this]
        · rw [hl] at hnl; exact hnl (lt_fin_inf hf')
  · intro x hsome
    unfold updCell at hsome
    split at hsome
    · have hx : x = canon (cellDist E y) := by simpa using hsome.symm
      obtain ⟨cf, cv⟩ := canon_fin hf'
      subst hx
      apply not_near_of_le cf
      rw [cv]
      apply max_le
      · exact hD
      · unfold slack; linarith [show (0 : ℝ) ≤ 1 / 2 ^ 44 by positivity]
    · cases hsome

/-! ## the witness path, with the cell hypothesis only AT OR BELOW the initial cell -/

section Tree
variable {D : Type} {NearD : EdgeKey → D → Prop}

/-- `reach_subtree` of the point-target package with the hypothesis on the cells restricted to levels `≥ k0` (the level of
    the initial cell): below a cell `c` (level `k ≥ k0`) that contains the index cell `x` (which lists `e`), the tree has a
    witness path for `e`, provided `x` and its ancestors OF LEVEL `≥ k0` are `GoodFor e` -/
theorem reach_subtree_from (ix : Roots.CIndex) (cd : CellID → D → Option D) (hok : IndexCellsOK (Roots.ids ix))
    (e : EdgeKey) {x : CellID} {es : List EdgeKey} {j : Nat} (hl : ix.lookup x = some es) (hx : IsCell x j)
    (he : e ∈ es) (k0 : Nat)
    (hg : ∀ y i, IsCell y i → contains y x = true → k0 ≤ i →
      ∀ l, (cd y l = none → ¬ NearD e l) ∧ (∀ z, cd y l = some z → ¬ NearD e z)) :
    ∀ (fuel : Nat) (c : CellID) (k : Nat), IsCell c k → contains c x = true → k0 ≤ k → j ≤ k + fuel →
      Slack.Reach NearD e (Roots.subtree ix cd fuel c) := by
  intro fuel
  induction fuel with
  | zero =>
    intro c k hc hcx hk0 hj
    have hp := (hc.contains_iff_parent hx).mp hcx
    have hkj : k = j := by omega
    subst hkj
    have hxc : x = c := by rw [← hp.2, hx.parent_self_id]
    subst hxc
    have hgf := goodFor_subtree ix cd 0 x e (hg x k hx hcx hk0)
    simp only [Roots.subtree, hl, Option.getD_some] at hgf ⊢
    unfold Slack.Reach
    exact ⟨he, hgf⟩
  | succ fuel ih =>
    intro c k hc hcx hk0 hj
    have hxm := Roots.lookup_mem_ids ix hl
    have hgf := goodFor_subtree ix cd (fuel+1) c e (hg c k hc hcx hk0)
    unfold Roots.subtree at hgf ⊢
    cases hlc : ix.lookup c with
    | some es' =>
      have hcm := Roots.lookup_mem_ids ix hlc
      have hxc : c = x := by
        by_contra hne
        rw [Roots.not_contains_of_ne hok hcm hxm hne] at hcx; cases hcx
      subst hxc
      rw [hl] at hlc
      cases hlc
      rw [hl] at hgf
      simp only at hgf ⊢
      unfold Slack.Reach
      exact ⟨he, hgf⟩
    | none =>
      rw [hlc] at hgf
      simp only at hgf ⊢
      have hne : x ≠ c := fun h => Roots.lookup_none_not_mem ix hlc (h ▸ hxm)
      obtain ⟨hk30, t, ⟨ht, hct⟩, _⟩ := hc.unique_child hx hcx hne
      have hkid : child c t ∈ ([1, 0, 3, 2].map (child c)).filter (Roots.hasIndexCell ix) := by
        rw [List.mem_filter]
        constructor
        · have : t = 0 ∨ t = 1 ∨ t = 2 ∨ t = 3 := by omega
          rcases this with rfl | rfl | rfl | rfl <;> simp
        · unfold Roots.hasIndexCell
          rw [List.any_eq_true]
          exact ⟨x, hxm, hct⟩
      unfold Slack.Reach
      refine ⟨hgf, ?_⟩
      apply reachList_of_mem (List.mem_map.2 ⟨child c t, hkid, rfl⟩)
      exact ih (child c t) (k+1) (hc.child_isCell hk30 ht) hct (by omega) (by omega)

end Tree

/-! ## index hypotheses and the `SlackWorld` instance -/

variable (E)

/-- **index invariant I1 in the form the search needs, for an edge target**: for an index edge that is `Near` the limit,
    the pair (`R` on the target arc, `Q` on the arc of the edge) realising the exact distance has `Q` in the exact region
    of an index cell `x` that lists the edge, `x` lies below an initial cell for that limit, and `Q` also lies in the
    exact region of every ancestor of `x`. -/
def ClosestCovered : Prop :=
  ∀ lim, ∀ e ∈ E.allEdges, Near E e lim →
    ∃ R Q : C17Err.R3, OnArc (vecR E.t0) (vecR E.t1) R ∧ OnArc (vecR (E.vert e).1) (vecR (E.vert e).2) Q ∧
      chordPQ Q R = rho E e ∧
      ∃ x es, E.ix.lookup x = some es ∧ e ∈ es ∧
        (∃ c ∈ E.rootIds lim, contains c x = true) ∧
        ∀ y, isValid y = true → contains y x = true →
          S2Proofs.C12Dist.InCellXYZ (CellM.cellFromCellID y) (toAcc Q)

/-- structural hypotheses on the index (the same as for the point target) -/
structure IndexOK : Prop where
  cellsOK : IndexCellsOK (Roots.ids E.ix)
  rootsValid : ∀ lim, ∀ c ∈ E.rootIds lim, isValid c = true
  depth : 30 ≤ E.depth
  /-- index cells and the located cell only list edges of the index -/
  edgesSound : ∀ x es, E.ix.lookup x = some es → ∀ e ∈ es, e ∈ E.allEdges
  locatedSound : ∀ es, E.located = some es → ∀ e ∈ es, e ∈ E.allEdges
  covered : ClosestCovered E

/-- "the unit vector `Q` is closer to SOME point of the target arc than `lim` by more than the slack" -/
def PtNear (Q : C17Err.R3) (lim : Chord) : Prop :=
  lim.1 = posInf ∨ ∃ R : C17Err.R3, OnArc (vecR E.t0) (vecR E.t1) R ∧ chordPQ Q R + slack < val lim.1

/-- **completeness of the initial cells** (edge target): an index cell whose exact region holds a point `PtNear` the limit
    lies below an initial cell for that limit -/
def RootsCover : Prop :=
  ∀ lim : Chord, ∀ x ∈ Roots.ids E.ix, ∀ Q : C17Err.R3, Q.n2 = 1 →
    S2Proofs.C12Dist.InCellXYZ (CellM.cellFromCellID x) (toAcc Q) → PtNear E Q lim →
    ∃ c ∈ E.rootIds lim, contains c x = true

/-- completeness of the initial cells of the UNBOUNDED search (index-only statement, the one of the point-target package:
    `rootsCoverInf_of_initCovering` proves it when the initial cells are the index covering) -/
def RootsCoverInf : Prop := ∀ x ∈ Roots.ids E.ix, ∃ c ∈ E.rootIds cinf, contains c x = true

/-- **completeness of the initial cells for a FINITE limit** (hypothesis, as `RootsCoverFin` of c08world2): an index cell whose
    exact region holds a unit vector `Q` with `chord²(Q, R) + slack < limit` for some point `R` of the target arc lies below one of
    the cells `initQueue` produces in its finite-limit branch (`FastCovering` of the cap
    `Cap(target.capBound().center, radius + limit)` — `MinDistanceToEdgeTarget.capBound` = midpoint of the edge, radius = half
    its length — intersected with the index covering and cleaned up by `LocateCellID`). -/
def RootsCoverFin : Prop :=
  ∀ lim : Chord, Fin lim.1 → ∀ x ∈ Roots.ids E.ix, ∀ Q : C17Err.R3, Q.n2 = 1 →
    S2Proofs.C12Dist.InCellXYZ (CellM.cellFromCellID x) (toAcc Q) →
    (∃ R : C17Err.R3, OnArc (vecR E.t0) (vecR E.t1) R ∧ chordPQ Q R + slack < val lim.1) →
    ∃ c ∈ E.rootIds lim, contains c x = true

variable {E}

/-- **`ClosestCovered` from `I1Arc` (C06; the SAME statement as for the point target: it only speaks about the index)
    and `RootsCover`**; the nesting of the exact regions is `regions_nested` (c08world2), the attaining pair is
    `truePairDist2_is_min` (c17pairs) -/
theorem closestCovered_of_arc_roots (H : EdgeTargetOK E) (hcells : IndexCellsOK (Roots.ids E.ix))
    (h1 : I1Arc E.toPoint) (hr : RootsCover E) : ClosestCovered E := by
  intro lim e he hn
  obtain ⟨R, Q, hR, hQ, hρ⟩ := (rho_is_min H he).2
  obtain ⟨x, es, hl, hes, hin⟩ := h1 e he Q hQ
  have hl' : E.ix.lookup x = some es := hl
  have hQ1 : Q.n2 = 1 := by obtain ⟨_, _, _, _, _, h⟩ := hQ; exact h
  have hxm := Roots.lookup_mem_ids E.ix hl'
  have hρ' : chordPQ Q R = rho E e := by rw [S2Proofs.C12Dist2.chordPQ_comm]; exact hρ
  have hnear : PtNear E Q lim := by
    rcases hn with hi | hlt
    · exact Or.inl hi
    · right; exact ⟨R, hR, by rw [hρ']; exact hlt⟩
  refine ⟨R, Q, hR, hQ, hρ', x, es, hl', hes, hr lim x hxm Q hQ1 hin hnear, ?_⟩
  intro y hy hyx
  exact regions_nested y x hy (hcells.valid x hxm) hyx _ hin

theorem rootsCover_of_inf_fin (hi : RootsCoverInf E) (hf : RootsCoverFin E) : RootsCover E := by
  intro lim x hx Q hQ1 hin hn
  rcases chord_fin_or_inf lim with hl | hl
  · rcases hn with h | h
    · exact absurd h (fin_ne_inf hl)
    · exact hf lim hl x hx Q hQ1 hin h
  · have : lim = cinf := Subtype.ext hl
    subst this
    exact hi x hx

theorem indexOK_of_parts (H : EdgeTargetOK E) (hcells : IndexCellsOK (Roots.ids E.ix))
    (hroots : ∀ lim, ∀ c ∈ E.rootIds lim, isValid c = true) (hdepth : 30 ≤ E.depth)
    (hes : ∀ x es, E.ix.lookup x = some es → ∀ e ∈ es, e ∈ E.allEdges)
    (hloc : ∀ es, E.located = some es → ∀ e ∈ es, e ∈ E.allEdges)
    (h1 : I1Arc E.toPoint) (hr : RootsCover E) : IndexOK E where
  cellsOK := hcells
  rootsValid := hroots
  depth := hdepth
  edgesSound := hes
  locatedSound := hloc
  covered := closestCovered_of_arc_roots H hcells h1 hr

/-- **the concrete edge-target world is a `SlackWorld`** for `Near` = "truly closer than the limit by more than
    `slack = 2^-44`" -/
theorem edge_slackWorld (H : EdgeTargetOK E) (HI : IndexOK E) : Slack.SlackWorld chordI (world E) (Near E) where
  nearMono := near_mono E
  edgeLt e he lim x h := (edge_some H he h).2.2.1
  edgeVal e he lim x h := by
    obtain ⟨f, _, _, herr⟩ := edge_some H he h
    apply not_near_of_le f
    have := (abs_le.mp herr).2
    linarith [edgeErr_le_slack]
  edgeNone e he lim h := by
    obtain ⟨f, hle⟩ := edge_none H he h
    apply not_near_of_le f
    linarith [edgeErr_le_slack]
  reach lim e he hn := by
    obtain ⟨R, Q, hR, hQarc, hρ, x, es, hl, hes, ⟨c, hc, hcx⟩, hin⟩ := HI.covered lim e he hn
    obtain ⟨k, hk⟩ := (isValid_iff c).mp (HI.rootsValid lim c hc)
    have hxm := Roots.lookup_mem_ids E.ix hl
    obtain ⟨j, hj⟩ := (isValid_iff x).mp (HI.cellsOK.valid x hxm)
    show Slack.ReachList (Near E) e ((E.rootIds lim).map (Roots.subtree E.ix (updCell E) E.depth))
    apply reachList_of_mem (List.mem_map.2 ⟨c, hc, rfl⟩)
    refine reach_subtree_from E.ix (updCell E) HI.cellsOK e hl hj hes k ?_ E.depth c k hk hcx (le_refl _) ?_
    · intro y i hy hyx hki
      have hyv : isValid y = true := (isValid_iff y).mpr ⟨i, hy⟩
      have hlv : level c ≤ level y := by rw [hk.level_eq, hy.level_eq]; exact hki
      exact cell_good H ⟨hyv, x, hxm, hyx, lim, c, hc, hcx, hlv⟩ he hR (hin y hyv hyx) hρ
    · have := hj.k_le; have := HI.depth; omega
  rootsSound lim e he := by
    obtain ⟨c, hc, hec⟩ := Roots.exists_of_mem_edgesUnderList he
    obtain ⟨id, _, rfl⟩ := List.mem_map.1 hc
    obtain ⟨x, es, hl, hes⟩ := Roots.subtree_sound E.ix (updCell E) E.depth id e hec
    exact HI.edgesSound x es hl e hes
  locatedSound := HI.locatedSound
  nonEmptyTarget := rfl
  zeroMin e he := by
    apply not_near_of_le czero_facts.1
    show val czero.1 ≤ _
    rw [czero_facts.2]
    have := rho_nonneg H he
    unfold slack; linarith [show (0 : ℝ) ≤ 1 / 2 ^ 44 by positivity]

/-- **`SubLawsOn` for the edge-target world** from the law of `ChordAngle.Sub` on `[0,4]` (c08world2: `chordSubLe_of_subDom`) -/
theorem edge_subLawsOn (H : EdgeTargetOK E) {err : Chord} (h : ChordSubLe err) :
    Slack.SubLawsOn chordI (world E) err where
  sub_edge e he lim x hu := by
    obtain ⟨f, l4, _⟩ := edge_some H he hu
    exact h x f l4
  sub_zero := by
    show cless czero (csub czero err) = false
    rw [csub_zero_left]; exact cless_irrefl _

end S2Proofs.C08Edge
