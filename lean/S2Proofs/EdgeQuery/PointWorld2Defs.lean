/-
  S2Proofs.EdgeQuery.PointWorld2Defs — vocabulary of package c08world2: the hypothesis `ClosestCovered` of
  `PointWorld.lean` split into its three independent parts

    * `I1Arc`      (C06: every point of the arc of an index edge lies in the exact region of an index cell that lists the edge),
    * `RootsCover` (C05 / `initQueue`: an index cell holding a point that is closer to the target than the limit by more than
                    the slack lies below an initial cell for that limit),
    * nesting of the exact cell regions (`RegionsNested`, PROVED in `RegionsNested.lean`),

  and the weakened `SubLaws` the single-result search really needs (`Slack.SubLawsOn`: `x ⊖ err ≤ x` for the values
  `updateDistanceToEdge` returns and for zero — `ChordAngle.Sub` does NOT satisfy `x ⊖ err ≤ x` for every float `x`).
-/
import S2Proofs.EdgeQuery.PointWorld

namespace S2Proofs.C08World
open S2 S2.Exact S2.CellID S2.EdgeNum S2.EdgeQueryM S2Proofs.F64Order S2Proofs.FloatErr S2Proofs.EdgeQuery
open S2Proofs.C17Err S2Proofs.C17

variable (P : PointIndex)

/-- **index invariant I1 for the arcs** (C06): every point of (the arc of) an index edge lies in the exact region of an
    index cell that lists the edge -/
def I1Arc : Prop :=
  ∀ e ∈ P.allEdges, ∀ Q : C17Err.R3, OnArc (vecR (P.vert e).1) (vecR (P.vert e).2) Q →
    ∃ x es, P.ix.lookup x = some es ∧ e ∈ es ∧ S2Proofs.C12Dist.InCellXYZ (CellM.cellFromCellID x) (toAcc Q)

/-- "the unit vector `Q` is closer to (the direction of) the target than `lim` by more than the slack" -/
def PtNear (Q : C17Err.R3) (lim : Chord) : Prop := lim.1 = posInf ∨ dirChordP P.p Q + slack < val lim.1

/-- **completeness of the initial cells**: an index cell whose exact region holds a point `PtNear` the limit lies below an
    initial cell for that limit.  (Unbounded search: the initial cells are the index covering, `initCovering_spec`.  Finite
    limit: the covering of the search disc, intersected with the index covering and cleaned up.) -/
def RootsCover : Prop :=
  ∀ lim : Chord, ∀ x ∈ Roots.ids P.ix, ∀ Q : C17Err.R3, Q.n2 = 1 →
    S2Proofs.C12Dist.InCellXYZ (CellM.cellFromCellID x) (toAcc Q) → PtNear P Q lim →
    ∃ c ∈ P.rootIds lim, contains c x = true

end S2Proofs.C08World
