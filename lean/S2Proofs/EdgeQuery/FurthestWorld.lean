/-
  S2Proofs.EdgeQuery.FurthestWorld — the CONCRETE world of a FURTHEST-edge query with a POINT target
  (`MaxDistanceToPointTarget`, s2/max_distance_targets.go) on a built index, and the proof that it is a
  `Slack.SlackWorld` for the distance type `mchordI` (package c08more-subF):

   * edges  = pairs of float vertices; `updateDistanceToEdge` =
                `if d, ok := UpdateMaxDistance(point, v0, v1, dist.chordAngle()); ok { dist, _ = dist.updateDistance(maxDistance(d)); return dist, true }`
              over the bit-exact `S2.EdgeNum.updateMaxDistance`;
   * cells  = cell ids, arranged as the tree `Roots.subtree` of the index; `updateDistanceToCell` =
                `dist.updateDistance(maxDistance(cell.MaxDistance(point)))` over the bit-exact `S2.CellM.maxDistance`
              (the model `maxDistance_upper_bound` of C12 speaks about);
   * exact distance `rhoMax e` = `trueMaxDist2 p v0 v1` = the MAXIMUM of the squared chord from (the direction of) the target to
              the arc of edge `e` (`rhoMax_is_max`);
   * `Near e lim` = "edge `e` is truly FARTHER than `lim` by more than the slack": `lim = −1 (infinity)  ∨  val lim + farSlack < rhoMax e`,
              `farSlack = 2^-44 + 2^-48` (= c12max's `endSlack`: C12 `maxDistance_upper_bound` 2^-44 + `|p| ≠ 1` + the C12↔C17 bridge);
              it dominates the one-sided error `205u` of one `UpdateMaxDistance` candidate.

  The right-angle class (finding F10 of c17pairs / c12max: `UpdateMaxDistance` takes the NEAR branch — returns the larger endpoint
  chord — although the true larger endpoint chord exceeds 2, and the true maximum over the arc may then lie in the interior and be
  much larger) is an EXPLICIT exclusion in the domain record `FarEdgesOK.notClass`; it is not needed for edges of angle ≤ 120°
  (`EdgeShort`, c12max `maxCall_upper_short`), so the field is a disjunction.
-/
import S2Proofs.EdgeQuery.FurthestChord
import S2Proofs.EdgeQuery.PointWorld
import S2Proofs.EdgeQuery.SlackDefs
import S2Proofs.C12Dist2.MaxCellAttained
import S2Proofs.C12Dist2.MaxEdge

set_option linter.unusedSimpArgs false
set_option linter.unusedVariables false

namespace S2Proofs.C08Far
open S2 S2.Exact S2.CellID S2.EdgeNum S2.EdgeQueryM S2Proofs.F64Order S2Proofs.FloatErr S2Proofs.EdgeQuery
open S2Proofs.C17Err S2Proofs.C17 S2Proofs.C17Pairs S2Proofs.C12Dist2
open S2Proofs.C08World (toAcc dist2_bridge unitPt_ptOK reach_subtree goodFor_subtree reachList_of_mem val_sign_false val_sign_true)

/-! ## the data -/

/-- index + target of one furthest-edge query (the fields of `C08World.PointIndex`, the initial cells as a function of a
    `maxDistance` limit) -/
structure FarIndex where
  /-- the target point -/
  p : V3
  /-- the two vertices of an edge -/
  vert : EdgeKey → V3 × V3
  /-- all edges of the index in brute-force scan order -/
  allEdges : List EdgeKey
  /-- the index cells with their clipped edges -/
  ix : Roots.CIndex
  /-- ids of the initial cells `initQueue` hands to `processOrEnqueue`, as a function of the limit -/
  rootIds : MChord → List CellID
  /-- descent depth of the tree (30 covers every level) -/
  depth : Nat
  interiors : List Int
  located : Option (List EdgeKey)
  small : Bool

variable (P : FarIndex)

/-- `cell.MaxDistance(m.point)` -/
def cellMax (id : CellID) : F64 := CellM.maxDistance (CellM.cellFromCellID id) P.p

/-- `MaxDistanceToPointTarget.updateDistanceToCell`: `dist.updateDistance(maxDistance(cell.MaxDistance(point)))`
    (`updateDistance`: `if arg.less(receiver)` i.e. `arg > dist`) -/
def updCell (id : CellID) (lim : MChord) : Option MChord :=
  if F64.lt lim.1 (cellMax P id) then some (mcanon (cellMax P id)) else none

/-- `MaxDistanceToPointTarget.updateDistanceToEdge`:
    `if d, ok := UpdateMaxDistance(point, v0, v1, dist.chordAngle()); ok { dist, _ = dist.updateDistance(maxDistance(d)); return dist, true }`
    (`updateDistance` keeps the old value unless `d > dist`; `ok` implies `d > dist`: `updateMaxDistance_true_lt`) -/
def updEdge (e : EdgeKey) (lim : MChord) : Option MChord :=
  if (updateMaxDistance P.p (P.vert e).1 (P.vert e).2 lim.1).2 then
    some (if F64.lt lim.1 (updateMaxDistance P.p (P.vert e).1 (P.vert e).2 lim.1).1
      then mcanon (updateMaxDistance P.p (P.vert e).1 (P.vert e).2 lim.1).1 else lim)
  else none

/-- the world of the search model -/
def world : World MChord where
  updEdge := updEdge P
  allEdges := P.allEdges
  interiors := P.interiors
  small := P.small
  emptyTarget := false
  located := P.located
  roots lim := (P.rootIds lim).map (Roots.subtree P.ix (updCell P) P.depth)

/-- TRUE MAXIMUM of the squared chord from (the direction of) the target to the arc of edge `e` -/
noncomputable def rhoMax (e : EdgeKey) : ℝ := trueMaxDist2 P.p (P.vert e).1 (P.vert e).2

/-- THE SLACK of the end-to-end theorems (squared chord length, absolute): `2^-44 + 2^-48` (c12max's `endSlack`) -/
noncomputable def farSlack : ℝ := 1 / 2 ^ 44 + 1 / 2 ^ 48

/-- error of one `UpdateMaxDistance` candidate (both directions): `205u = 205·2^-53` (c12max `maxCallErr`) -/
noncomputable def farEdgeErr : ℝ := 205 / 2 ^ 53

theorem farEdgeErr_eq : farEdgeErr = maxCallErr := by unfold farEdgeErr maxCallErr uR; ring
theorem farSlack_eq : farSlack = endSlack := by unfold farSlack endSlack; rfl
theorem farEdgeErr_le_slack : farEdgeErr ≤ farSlack := by unfold farEdgeErr farSlack; norm_num
theorem farEdgeErr_lt_one : farEdgeErr < 1 := by unfold farEdgeErr; norm_num
theorem farSlack_lt_one : farSlack < 1 := by unfold farSlack; norm_num
theorem farSlack_pos : 0 < farSlack := by unfold farSlack; positivity

/-- "edge `e` is truly FARTHER than `lim` by more than the slack" -/
def Near (e : EdgeKey) (lim : MChord) : Prop := lim.1 = mNegOne ∨ val lim.1 + farSlack < rhoMax P e

/-! ## values of the carrier -/

theorem val_negOne : val mNegOne = -1 := by
  unfold val; rw [negOne_facts.2.2.2]; push_cast; field_simp

theorem val_four : val mFour = 4 := by
  have h : toInt mFour = 4 * 2 ^ 1074 := by decide +kernel
  unfold val; rw [h]; push_cast; field_simp

theorem val_posZero : val mPosZero = 0 := by
  have h : toInt mPosZero = 0 := by decide +kernel
  unfold val; rw [h]; simp

/-- a member is `−1` or non-negative -/
theorem mchord_cases (a : MChord) : (a.1 ≠ mNegOne ∧ 0 ≤ val a.1) ∨ a.1 = mNegOne := by
  rcases a.2 with ⟨_, hs⟩ | he
  · left
    refine ⟨?_, val_sign_false hs⟩
    intro e; rw [e] at hs; rw [negOne_facts.2.1] at hs; cases hs
  · exact Or.inr he

theorem mchord_ge (a : MChord) : -1 ≤ val a.1 := by
  rcases mchord_cases a with ⟨_, h⟩ | h
  · linarith
  · rw [h, val_negOne]

/-- a finite computed value above −1 is injected as a member that is not `−1`, with the same value (−0 and — never on the
    domain — negative values as +0) -/
theorem mcanon_fin {x : F64} (h : Fin x) (h1 : -1 < val x) :
    Fin (mcanon x).1 ∧ (mcanon x).1 ≠ mNegOne ∧ val (mcanon x).1 = max (val x) 0 := by
  unfold mcanon
  by_cases hc : IsMChord x
  · rw [dif_pos hc]
    rcases hc with ⟨_, hs⟩ | he
    · refine ⟨h, ?_, (max_eq_left (val_sign_false hs)).symm⟩
      intro e
      have e' : x = mNegOne := e
      rw [e', negOne_facts.2.1] at hs; cases hs
    · rw [he, val_negOne] at h1; linarith
  · rw [dif_neg hc]
    have hs : x.signBit = true := by
      cases hh : x.signBit with
      | true => rfl
      | false => exact absurd (Or.inl ⟨h, hh⟩) hc
    rw [if_pos ⟨h, hs⟩]
    refine ⟨mfin mnull, by decide, ?_⟩
    show val mPosZero = _
    rw [val_posZero, max_eq_right (val_sign_true hs)]

/-- `mless` in exact values -/
theorem mless_val (a b : MChord) : mless a b = true ↔ val b.1 < val a.1 := lt_val (mfin b) (mfin a)

theorem mless_false_val (a b : MChord) : mless a b = false ↔ val a.1 ≤ val b.1 := by
  rw [← not_lt, ← mless_val]; cases mless a b <;> simp

/-- `Near` is monotone in the limit -/
theorem near_mono (e : EdgeKey) (a b : MChord) (h : Near P e a) (hba : mchordI.less b a = false) : Near P e b := by
  have hle : val b.1 ≤ val a.1 := (mless_false_val b a).mp hba
  rcases h with ha | ha
  · rw [ha, val_negOne] at hle
    rcases mchord_cases b with ⟨_, h0⟩ | hb
    · linarith
    · exact Or.inl hb
  · exact Or.inr (by linarith)

theorem not_near_of_le {e : EdgeKey} {x : MChord} (hx : x.1 ≠ mNegOne) (h : rhoMax P e ≤ val x.1 + farSlack) :
    ¬ Near P e x := by
  rintro (hi | hlt)
  · exact hx hi
  · linarith

/-! ## domain hypotheses -/

/-- the RIGHT-ANGLE CLASS of one `UpdateMaxDistance(x, a, b, ·)` call (finding F10 of c17pairs / c12max): the float 90-degree test
    `maxChord.Expanded(maxChord.MaxPointError()) > 2` is NOT taken although the TRUE larger endpoint chord exceeds 2.  Inside it
    (`2 < D ≤ 2 + 2^-51`, c17pairs `near_branch_class`) the code returns the endpoint value while the true maximum over the arc may
    lie in the interior of a long edge. -/
def RightAngleClassCall (x a b : V3) : Prop := beyondRightAngle x a b = false ∧ 2 < maxEndpointTrue x a b

/-- numeric domain for the target and every edge of the index: c17err's domain of the call `UpdateMaxDistance(p, v0, v1, ·)`
    (the `WedgeMargin` is that of the ANTIPODE `−p`, which is the point `UpdateMinDistance` is called with in the far branch),
    and the EXPLICIT exclusion of the right-angle class for edges longer than 120° -/
structure FarEdgesOK : Prop where
  target : UnitPt P.p
  v0 : ∀ e ∈ P.allEdges, UnitPt (P.vert e).1
  v1 : ∀ e ∈ P.allEdges, UnitPt (P.vert e).2
  edgeOK : ∀ e ∈ P.allEdges, EdgeOK (P.vert e).1 (P.vert e).2
  margin : ∀ e ∈ P.allEdges, WedgeMargin (negV P.p) (P.vert e).1 (P.vert e).2
  /-- EXCLUSION of the right-angle class F10 (not needed for edges of angle ≤ 120°) -/
  notClass : ∀ e ∈ P.allEdges,
    ¬ RightAngleClassCall P.p (P.vert e).1 (P.vert e).2 ∨ EdgeShort (P.vert e).1 (P.vert e).2

variable {P}

theorem FarEdgesOK.anti (H : FarEdgesOK P) {e : EdgeKey} (he : e ∈ P.allEdges) :
    AntiCallOK P.p (P.vert e).1 (P.vert e).2 :=
  ⟨H.target, H.v0 e he, H.v1 e he, H.edgeOK e he, H.margin e he⟩

theorem FarEdgesOK.upper (H : FarEdgesOK P) {e : EdgeKey} (he : e ∈ P.allEdges) :
    CallUpper P.p (P.vert e).1 (P.vert e).2 := by
  rcases H.notClass e he with h | h
  · exact callUpper_of_maxCallOK ⟨H.target, H.v0 e he, H.v1 e he, H.edgeOK e he, H.margin e he, h⟩
  · exact maxCall_upper_short H.target (H.v0 e he) (H.v1 e he) (H.edgeOK e he) (H.margin e he) h

/-- the candidate of the call for edge `e` (`UpdateMaxDistance` compares the old value with it, strictly) -/
def cand (P : FarIndex) (e : EdgeKey) : F64 := maxCandidate P.p (P.vert e).1 (P.vert e).2

/-- two-sided bound of the candidate: finite, within `205u` of the true maximum, which is non-negative -/
theorem cand_bound (H : FarEdgesOK P) {e : EdgeKey} (he : e ∈ P.allEdges) :
    Fin (cand P e) ∧ |val (cand P e) - rhoMax P e| ≤ farEdgeErr ∧ 0 ≤ rhoMax P e := by
  obtain ⟨fc, hlo, h0⟩ := maxCall_lower (H.anti he)
  have hup := (H.upper he).up
  rw [farEdgeErr_eq]
  refine ⟨fc, ?_, h0⟩
  unfold cand rhoMax
  rw [abs_le]; constructor <;> linarith

/-- **`rhoMax` IS the maximum** of the squared chord between the direction of the target and the points of the arc of `e` -/
theorem rhoMax_is_max (H : FarEdgesOK P) {e : EdgeKey} (he : e ∈ P.allEdges) :
    (∀ Q, OnArc (vecR (P.vert e).1) (vecR (P.vert e).2) Q → dirChordP P.p Q ≤ rhoMax P e) ∧
    (∃ Q, OnArc (vecR (P.vert e).1) (vecR (P.vert e).2) Q ∧ dirChordP P.p Q = rhoMax P e) :=
  trueMaxDist2_is_max H.target.1 H.target.len_pos (H.v0 e he).len_pos (H.v1 e he).len_pos

/-- the true maximum never exceeds 4 -/
theorem rhoMax_le_four (H : FarEdgesOK P) {e : EdgeKey} (he : e ∈ P.allEdges) : rhoMax P e ≤ 4 := by
  have hn : UnitPt (negV P.p) := unitWithin_negV H.target
  obtain ⟨Q, hQarc, hρ⟩ := trueDist2_attained (x := negV P.p) (a := (P.vert e).1) (b := (P.vert e).2)
    hn.len_pos (H.v0 e he).len_pos (H.v1 e he).len_pos
  obtain ⟨_, _, _, _, _, hQ1⟩ := hQarc
  have h0 := (dist2_bridge hn Q hQ1).2
  rw [hρ] at h0
  unfold rhoMax trueMaxDist2; linarith

/-! ## the edge clauses of `SlackWorld` -/

theorem updEdge_some {e : EdgeKey} {lim x : MChord} (h : updEdge P e lim = some x) :
    F64.lt lim.1 (cand P e) = true ∧ x = mcanon (cand P e) := by
  unfold cand
  unfold updEdge at h
  rw [updateMaxDistance_eq] at h
  by_cases hlt : F64.lt lim.1 (maxCandidate P.p (P.vert e).1 (P.vert e).2) = true
  · simp only [hlt, if_true] at h
    exact ⟨hlt, by simpa using h.symm⟩
  · simp only [hlt, if_false] at h
    simp at h

theorem updEdge_none {e : EdgeKey} {lim : MChord} (h : updEdge P e lim = none) :
    F64.lt lim.1 (cand P e) = false := by
  unfold cand
  unfold updEdge at h
  rw [updateMaxDistance_eq] at h
  by_cases hlt : F64.lt lim.1 (maxCandidate P.p (P.vert e).1 (P.vert e).2) = true
  · simp only [hlt, if_true] at h
    simp at h
  · simpa using hlt

/-- "ok, x": `x` is finite, not the "infinity" −1, beyond the limit in the search order (Go's `>`), and within `205u` of the
    TRUE maximum distance of the edge -/
theorem edge_some (H : FarEdgesOK P) {e : EdgeKey} (he : e ∈ P.allEdges) {lim x : MChord}
    (h : updEdge P e lim = some x) :
    Fin x.1 ∧ x.1 ≠ mNegOne ∧ mchordI.less x lim = true ∧ |val x.1 - rhoMax P e| ≤ farEdgeErr := by
  obtain ⟨hlt, hx⟩ := updEdge_some h
  obtain ⟨fc, herr, h0⟩ := cand_bound H he
  have hv : val lim.1 < val (cand P e) := (lt_val (mfin lim) fc).mp hlt
  have hl := mchord_ge lim
  obtain ⟨cf, cn, cv⟩ := mcanon_fin fc (by linarith)
  subst hx
  refine ⟨cf, cn, ?_, ?_⟩
  · show mless _ lim = true
    rw [mless_val, cv]
    exact lt_of_lt_of_le hv (le_max_left _ _)
  · rw [cv]
    obtain ⟨e1, e2⟩ := abs_le.mp herr
    have he0 : 0 ≤ farEdgeErr := by unfold farEdgeErr; positivity
    rw [abs_le]
    constructor
    · have := le_max_left (val (cand P e)) 0; linarith
    · apply sub_le_iff_le_add.mpr
      apply max_le <;> linarith

/-- "not ok": the limit is not the "infinity" −1 and the true maximum distance is at most `205u` above it -/
theorem edge_none (H : FarEdgesOK P) {e : EdgeKey} (he : e ∈ P.allEdges) {lim : MChord}
    (h : updEdge P e lim = none) : lim.1 ≠ mNegOne ∧ rhoMax P e ≤ val lim.1 + farEdgeErr := by
  have hnl := updEdge_none h
  obtain ⟨fc, herr, h0⟩ := cand_bound H he
  have hv : val (cand P e) ≤ val lim.1 := by
    have : ¬ (val lim.1 < val (cand P e)) := fun hh => by
      rw [(lt_val (mfin lim) fc).mpr hh] at hnl; cases hnl
    exact not_lt.mp this
  obtain ⟨e1, e2⟩ := abs_le.mp herr
  refine ⟨?_, by linarith⟩
  intro hi
  rw [hi, val_negOne] at hv
  have := farEdgeErr_lt_one
  linarith

/-! ## the cell clause: `Cell.MaxDistance` against an edge with its farthest point in the cell -/

open S2Proofs.C12 S2Proofs.C12Dist in
/-- a cell whose exact region contains the point `Q` of edge `e` that realises the edge's true MAXIMUM distance is
    `GoodFor` that edge: its reported maximum distance is at least `rhoMax e − farSlack`
    (c12max `endpoint_chord_le` = C12 `maxDistance_upper_bound` + the bridge to directions) -/
theorem cell_good (hp : UnitPt P.p) {y : CellID}
    (hv : isValid y = true) {e : EdgeKey} {Q : C17Err.R3} (hQ1 : Q.n2 = 1)
    (hQ : InCellXYZ (CellM.cellFromCellID y) (toAcc Q)) (hρ : dirChordP P.p Q = rhoMax P e) :
    ∀ l, (updCell P y l = none → ¬ Near P e l) ∧ (∀ x, updCell P y l = some x → ¬ Near P e x) := by
  obtain ⟨hf, hle⟩ := endpoint_chord_le y hv hp hQ
  rw [chordPQ_comm, ← dirChordP_eq_chord, hρ] at hle
  have hr0 : 0 ≤ rhoMax P e := by rw [← hρ]; exact (dist2_bridge hp Q hQ1).2
  have hf' : Fin (cellMax P y) := hf
  have hle' : rhoMax P e ≤ val (cellMax P y) + farSlack := hle
  have hs1 := farSlack_lt_one
  intro l
  constructor
  · intro hnone
    unfold updCell at hnone
    split at hnone
    · cases hnone
    · rename_i hnl
      have hv' : val (cellMax P y) ≤ val l.1 := by
        have : ¬ (val l.1 < val (cellMax P y)) := fun hh => hnl ((lt_val (mfin l) hf').mpr hh)
        exact not_lt.mp this
      apply not_near_of_le P
      · intro hi
        rw [hi, val_negOne] at hv'
        linarith
      · linarith
  · intro x hsome
    unfold updCell at hsome
    split at hsome
    · rename_i hlt
      have hx : x = mcanon (cellMax P y) := by simpa using hsome.symm
      have hv' : val l.1 < val (cellMax P y) := (lt_val (mfin l) hf').mp hlt
      have hl := mchord_ge l
      obtain ⟨cf, cn, cv⟩ := mcanon_fin hf' (by linarith)
      subst hx
      apply not_near_of_le P cn
      rw [cv]
      have := le_max_left (val (cellMax P y)) 0
      linarith
    · cases hsome

/-! ## index hypotheses and the `SlackWorld` instance -/

variable (P)

/-- **index invariant I1 in the form the FURTHEST search needs** (the analogue of c08world's `ClosestCovered`): for an edge that is
    `Near` the limit, a point `Q` of its arc that realises the true MAXIMUM distance lies in the exact region of an index cell `x`
    that lists the edge, `x` lies below an initial cell for that limit, and `Q` also lies in the exact region of every ancestor of `x`. -/
def FarthestCovered : Prop :=
  ∀ lim, ∀ e ∈ P.allEdges, Near P e lim →
    ∃ Q : C17Err.R3, OnArc (vecR (P.vert e).1) (vecR (P.vert e).2) Q ∧ dirChordP P.p Q = rhoMax P e ∧
      ∃ x es, P.ix.lookup x = some es ∧ e ∈ es ∧
        (∃ c ∈ P.rootIds lim, contains c x = true) ∧
        ∀ y, isValid y = true → contains y x = true →
          S2Proofs.C12Dist.InCellXYZ (CellM.cellFromCellID y) (toAcc Q)

/-- structural hypotheses on the index -/
structure FarIndexOK : Prop where
  cellsOK : IndexCellsOK (Roots.ids P.ix)
  rootsValid : ∀ lim, ∀ c ∈ P.rootIds lim, isValid c = true
  depth : 30 ≤ P.depth
  /-- index cells and the located cell only list edges of the index -/
  edgesSound : ∀ x es, P.ix.lookup x = some es → ∀ e ∈ es, e ∈ P.allEdges
  locatedSound : ∀ es, P.located = some es → ∀ e ∈ es, e ∈ P.allEdges
  covered : FarthestCovered P

variable {P}

/-- **the concrete furthest-edge point-target world is a `SlackWorld`** for `Near` = "truly farther than the limit by more than
    `farSlack = 2^-44 + 2^-48`". -/
theorem far_slackWorld (HE : FarEdgesOK P) (HI : FarIndexOK P) : Slack.SlackWorld mchordI (world P) (Near P) where
  nearMono := near_mono P
  edgeLt e he lim x h := (edge_some HE he h).2.2.1
  edgeVal e he lim x h := by
    obtain ⟨_, hn, _, herr⟩ := edge_some HE he h
    apply not_near_of_le P hn
    have := (abs_le.mp herr).1
    linarith [farEdgeErr_le_slack]
  edgeNone e he lim h := by
    obtain ⟨hn, hle⟩ := edge_none HE he h
    apply not_near_of_le P hn
    linarith [farEdgeErr_le_slack]
  reach lim e he hn := by
    obtain ⟨Q, hQarc, hρ, x, es, hl, hes, ⟨c, hc, hcx⟩, hin⟩ := HI.covered lim e he hn
    obtain ⟨_, _, _, _, _, hQ1⟩ := hQarc
    obtain ⟨k, hk⟩ := (isValid_iff c).mp (HI.rootsValid lim c hc)
    obtain ⟨j, hj⟩ := (isValid_iff x).mp (HI.cellsOK.valid x (Roots.lookup_mem_ids P.ix hl))
    show Slack.ReachList (Near P) e ((P.rootIds lim).map (Roots.subtree P.ix (updCell P) P.depth))
    apply reachList_of_mem (List.mem_map.2 ⟨c, hc, rfl⟩)
    refine reach_subtree P.ix (updCell P) HI.cellsOK e hl hj hes ?_ P.depth c k hk hcx ?_
    · intro y i hy hyx
      exact cell_good HE.target ((isValid_iff y).mpr ⟨i, hy⟩) hQ1
        (hin y ((isValid_iff y).mpr ⟨i, hy⟩) hyx) hρ
    · have := hj.k_le; have := HI.depth; omega
  rootsSound lim e he := by
    obtain ⟨c, hc, hec⟩ := Roots.exists_of_mem_edgesUnderList he
    obtain ⟨id, _, rfl⟩ := List.mem_map.1 hc
    obtain ⟨x, es, hl, hes⟩ := Roots.subtree_sound P.ix (updCell P) P.depth id e hec
    exact HI.edgesSound x es hl e hes
  locatedSound := HI.locatedSound
  nonEmptyTarget := rfl
  zeroMin e he := by
    have hz : (mchordI.zero : MChord).1 ≠ mNegOne := by decide
    apply not_near_of_le P (x := mchordI.zero) hz
    show rhoMax P e ≤ val mFour + farSlack
    rw [val_four]
    have := rhoMax_le_four HE he
    have := farSlack_pos
    linarith

end S2Proofs.C08Far
