/-
  S2Proofs.EdgeQuery.SearchApproxMulti — the best-first search of `S2.EdgeQueryM` for
  `maxResults ≠ 1` with a target that USES `maxError` (shape-index targets: `WorldApprox`).

  For `maxResults ≠ 1` the Go code never tightens the distance limit (`addResult` only does so for
  `maxResults == 1`), so every call `updateDistanceToEdge(e, limit)` is made with the limit `L` of the
  options and the value reported for an edge is the FUNCTION `hitA w L e` of the edge.  Consequences
  proved here, for either value of `avoidDuplicates` (`testedEdges`) and of
  `useConservativeCellDistance`:

  (A1) raw results of the brute-force scan                       `brute_results_eq`
  (A2) raw results of the optimized search, as a set             `opt_results_mem`
       = interior results ∪ { hitA w L e | e an edge of the index }: the duplicate filter loses
       nothing (a skipped edge was tested with the same limit, hence with the same outcome), the
       conservative keys `sub x maxError` are still within the limit (the early exit of the loop
       never fires), cells for which `updateDistanceToCell` says "not ok" hold no edge within the
       limit.
  (A3) the final answer of either path                            `findEdges_answer`, `opt_eq_brute`
  (A4) an exact world is an approximate world for every error     `WorldOK.toApprox`
  Core-only.
-/
import S2.EdgeQueryM
import S2Proofs.EdgeQuery.Post
import S2Proofs.EdgeQuery.SearchMulti
import S2Proofs.EdgeQuery.SearchSingle
set_option linter.unusedSectionVars false
open S2 S2.EdgeQueryM
namespace S2Proofs.EdgeQuery
namespace ApproxMulti
open Single

variable {D : Type} [DecidableEq D]

/-- the raw result `maybeAddResult` produces for edge `e` when the distance limit is `L` -/
def hitA (w : World D) (L : D) (e : EdgeKey) : Option (Result D) :=
  (w.updEdge e L).map fun x => ⟨x, e.shape, e.edge⟩

/-- the edge is settled: whatever it contributes is among the results -/
def Done (w : World D) (L : D) (s : St D) (e : EdgeKey) : Prop :=
  ∀ r, hitA w L e = some r → r ∈ s.results

/-- the edge is accounted for: settled, or below a queued cell -/
def Cov (w : World D) (L : D) (s : St D) (e : EdgeKey) : Prop :=
  Done w L s e ∨ ∃ p ∈ s.queue, e ∈ edgesUnder p.2

/-- invariant of the search while the limit stays `L`; `R0` = the interior results -/
structure Inv (I : DistI D) (err : D) (w : World D) (d : EdgeKey → D) (L : D)
    (R0 : List (Result D)) (s : St D) : Prop where
  hlim : s.limit = L
  sound : ∀ r ∈ s.results, r ∈ R0 ∨ ∃ e ∈ w.allEdges, hitA w L e = some r
  good : ∀ p ∈ s.queue, Approx.GoodCell I err w d p.2 ∧ I.less p.1 L = true
  tested : ∀ e ∈ s.tested, Done w L s e

section Steps
variable {I : DistI D} {o : Opts D} {w : World D} {d : EdgeKey → D} {a cns : Bool} {L : D}
  {R0 : List (Result D)}

omit [DecidableEq D] in
theorem addResult_multi (h1 : o.maxResults ≠ 1) (s : St D) (r : Result D) :
    addResult I o s r = { s with results := s.results ++ [r] } := by
  unfold addResult; simp [h1]

/-- the state after an edge has been tested -/
def addHit (w : World D) (a : Bool) (s : St D) (e : EdgeKey) : St D :=
  { s with tested := (if a then e :: s.tested else s.tested)
           results := s.results ++ (hitA w s.limit e).toList }

/-- `maybeAddResult` for `maxResults ≠ 1` and the repaired filter -/
theorem maybeAdd_eq (h1 : o.maxResults ≠ 1) (hif : a = true → o.invertedFilter = false)
    (s : St D) (e : EdgeKey) :
    maybeAddResult I o w a s e =
      if (a && s.tested.contains e) = true then s else addHit w a s e := by
  cases a with
  | false =>
    unfold maybeAddResult addHit hitA
    simp only [Bool.false_and, Bool.false_eq_true, if_false]
    cases hu : w.updEdge e s.limit with
    | none => cases s; simp
    | some x => simp [addResult_multi h1]
  | true =>
    have hf := hif rfl
    unfold maybeAddResult addHit hitA
    simp only [hf, Bool.false_eq_true, if_false, Bool.true_and, if_true]
    split
    · rfl
    · cases hu : w.updEdge e s.limit with
      | none => simp
      | some x => simp [addResult_multi h1]

omit [DecidableEq D] in
theorem Done.mono {s s' : St D} (hm : ∀ r ∈ s.results, r ∈ s'.results) {e : EdgeKey}
    (h : Done w L s e) : Done w L s' e := fun r hr => hm r (h r hr)

theorem edge_step (h1 : o.maxResults ≠ 1) (hif : a = true → o.invertedFilter = false)
    {s : St D} (hs : Inv I o.maxError w d L R0 s) {e : EdgeKey} (he : e ∈ w.allEdges) :
    Inv I o.maxError w d L R0 (maybeAddResult I o w a s e) ∧
    (∀ r ∈ s.results, r ∈ (maybeAddResult I o w a s e).results) ∧
    (maybeAddResult I o w a s e).queue = s.queue ∧
    Done w L (maybeAddResult I o w a s e) e := by
  rw [maybeAdd_eq h1 hif]
  split
  · rename_i ht
    have hmem : e ∈ s.tested := by
      simp only [Bool.and_eq_true, List.contains_iff_mem] at ht; exact ht.2
    exact ⟨hs, fun _ h => h, rfl, hs.tested e hmem⟩
  · have hm : ∀ r ∈ s.results, r ∈ s.results ++ (hitA w s.limit e).toList :=
      fun r h => List.mem_append_left _ h
    have hd : Done w L (addHit w a s e) e := by
      intro r hr
      show r ∈ s.results ++ (hitA w s.limit e).toList
      rw [hs.hlim, hr]; simp
    refine ⟨⟨hs.hlim, ?_, hs.good, ?_⟩, hm, rfl, hd⟩
    · intro r hr
      rcases List.mem_append.1 hr with h | h
      · exact hs.sound r h
      · rw [hs.hlim] at h
        exact Or.inr ⟨e, he, by simpa [Option.mem_toList] using h⟩
    · intro e' he'
      have : e' = e ∨ e' ∈ s.tested := by
        cases a with
        | false => exact Or.inr he'
        | true => simpa [addHit] using he'
      rcases this with rfl | h
      · exact hd
      · exact Done.mono (s := s) hm (hs.tested e' h)

theorem edges_step (h1 : o.maxResults ≠ 1) (hif : a = true → o.invertedFilter = false)
    (es : List EdgeKey) : ∀ {s : St D}, Inv I o.maxError w d L R0 s → (∀ e ∈ es, e ∈ w.allEdges) →
    Inv I o.maxError w d L R0 (processEdges I o w a s es) ∧
    (∀ r ∈ s.results, r ∈ (processEdges I o w a s es).results) ∧
    (processEdges I o w a s es).queue = s.queue ∧
    ∀ e ∈ es, Done w L (processEdges I o w a s es) e := by
  induction es with
  | nil => intro s hs _; exact ⟨hs, fun _ h => h, rfl, fun _ h => by cases h⟩
  | cons e es ih =>
    intro s hs hes
    obtain ⟨a1, a2, a3, a4⟩ := edge_step (a := a) h1 hif hs (hes e (by simp))
    obtain ⟨b1, b2, b3, b4⟩ := ih a1 (fun e' he' => hes e' (List.mem_cons_of_mem _ he'))
    have heq : processEdges I o w a s (e :: es) =
        processEdges I o w a (maybeAddResult I o w a s e) es := rfl
    rw [heq]
    refine ⟨b1, fun r hr => b2 r (a2 r hr), b3.trans a3, ?_⟩
    intro e' he'
    rcases List.mem_cons.1 he' with rfl | he'
    · exact Done.mono b2 a4
    · exact b4 e' he'

omit [DecidableEq D] in
theorem poe_eq (s : St D) (c : Cell D) :
    processOrEnqueue I o w a cns s c =
      match c with
      | .index _ edges =>
        if edges.length == 0 then s
        else if edges.length < 10 then processEdges I o w a s edges
        else Approx.enq I o cns s c
      | .node _ _ => Approx.enq I o cns s c := by
  cases c <;> rfl

/-- what a `processOrEnqueue` step (or a fold of them) guarantees -/
structure Out (I : DistI D) (err : D) (w : World D) (d : EdgeKey → D) (L : D) (R0 : List (Result D))
    (s s' : St D) (es : List EdgeKey) : Prop where
  inv : Inv I err w d L R0 s'
  mono : ∀ r ∈ s.results, r ∈ s'.results
  cov : ∀ e, Cov w L s e → Cov w L s' e
  new : ∀ e ∈ es, I.less (d e) L = true → Cov w L s' e

theorem enq_out (O : DistOrder I) (S : SubLaws I o.maxError) {s : St D}
    (hs : Inv I o.maxError w d L R0 s) {c : Cell D} (hc : Approx.GoodCell I o.maxError w d c) :
    Out I o.maxError w d L R0 s (Approx.enq I o cns s c) (edgesUnder c) := by
  have hlb := hc.1 c (self_mem_cellsOf c) s.limit
  unfold Approx.enq
  cases hcd : c.cd s.limit with
  | none =>
    refine ⟨hs, fun _ h => h, fun _ h => h, ?_⟩
    intro e he hlt
    rw [← hs.hlim, hlb.1 hcd e he] at hlt; cases hlt
  | some x =>
    obtain ⟨hx, _⟩ := hlb.2 x hcd
    rw [hs.hlim] at hx
    have hkey : I.less (if cns then I.sub x o.maxError else x) L = true := by
      cases cns with
      | false => exact hx
      | true => exact ord_lt_of_le_of_lt O (S.sub_le x) hx
    refine ⟨⟨hs.hlim, hs.sound, ?_, hs.tested⟩, fun _ h => h, ?_, ?_⟩
    · intro p hp
      rcases List.mem_append.1 hp with h | h
      · exact hs.good p h
      · simp only [List.mem_singleton] at h; subst h; exact ⟨hc, hkey⟩
    · rintro e (he | ⟨p, hp, he⟩)
      · exact Or.inl he
      · exact Or.inr ⟨p, List.mem_append_left _ hp, he⟩
    · intro e he _
      exact Or.inr ⟨(if cns then I.sub x o.maxError else x, c), by simp, he⟩

theorem poe_out (O : DistOrder I) (S : SubLaws I o.maxError) (h1 : o.maxResults ≠ 1)
    (hif : a = true → o.invertedFilter = false) {s : St D} (hs : Inv I o.maxError w d L R0 s)
    {c : Cell D} (hc : Approx.GoodCell I o.maxError w d c) :
    Out I o.maxError w d L R0 s (processOrEnqueue I o w a cns s c) (edgesUnder c) := by
  rw [poe_eq]
  cases c with
  | index cd es =>
    simp only
    split
    · rename_i h0
      have : es = [] := by
        cases es with
        | nil => rfl
        | cons _ _ => simp at h0
      subst this
      exact ⟨hs, fun _ h => h, fun _ h => h, fun e he => by simp [edgesUnder] at he⟩
    · split
      · obtain ⟨a1, a2, a3, a4⟩ := edges_step (a := a) h1 hif es hs (by
          intro e he; apply hc.2; simpa [edgesUnder] using he)
        refine ⟨a1, a2, ?_, ?_⟩
        · rintro e (he | ⟨p, hp, he⟩)
          · exact Or.inl (Done.mono a2 he)
          · exact Or.inr ⟨p, by rw [a3]; exact hp, he⟩
        · intro e he _
          exact Or.inl (a4 e (by simpa [edgesUnder] using he))
      · exact enq_out O S hs hc
  | node cd kids => exact enq_out O S hs hc

theorem poe_fold (O : DistOrder I) (S : SubLaws I o.maxError) (h1 : o.maxResults ≠ 1)
    (hif : a = true → o.invertedFilter = false) (cs : List (Cell D)) :
    ∀ {s : St D}, Inv I o.maxError w d L R0 s → Approx.GoodCells I o.maxError w d cs →
    Out I o.maxError w d L R0 s (cs.foldl (processOrEnqueue I o w a cns) s) (edgesUnderList cs) := by
  induction cs with
  | nil =>
    intro s hs _
    exact ⟨hs, fun _ h => h, fun _ h => h, fun e he => by simp [edgesUnderList] at he⟩
  | cons c cs ih =>
    intro s hs hg
    have h₁ := poe_out (a := a) (cns := cns) O S h1 hif hs hg.head
    have h₂ := ih h₁.inv hg.tail
    rw [List.foldl_cons]
    refine ⟨h₂.inv, fun r hr => h₂.mono r (h₁.mono r hr), fun e he => h₂.cov e (h₁.cov e he), ?_⟩
    intro e he hl
    simp only [edgesUnderList, List.mem_append] at he
    rcases he with he | he
    · exact h₂.cov e (h₁.new e he hl)
    · exact h₂.new e he hl

/-- the loop: every raw result is legitimate, nothing is lost, and every edge within the limit that
    was accounted for ends up settled -/
theorem loop_out (O : DistOrder I) (S : SubLaws I o.maxError) (h1 : o.maxResults ≠ 1)
    (hif : a = true → o.invertedFilter = false) :
    ∀ (fuel : Nat) (s s' : St D), Inv I o.maxError w d L R0 s →
      searchLoop I o w a cns fuel s = some s' →
      (∀ r ∈ s'.results, r ∈ R0 ∨ ∃ e ∈ w.allEdges, hitA w L e = some r) ∧
      (∀ r ∈ s.results, r ∈ s'.results) ∧
      ∀ e, I.less (d e) L = true → Cov w L s e → Done w L s' e := by
  intro fuel
  induction fuel with
  | zero => intro s s' _ h; simp [searchLoop] at h
  | succ fuel ih =>
    intro s s' hs
    unfold searchLoop
    cases hp : popMin I s.queue with
    | none =>
      intro h; cases h
      refine ⟨hs.sound, fun _ h => h, ?_⟩
      rintro e _ (he | ⟨p, hp', _⟩)
      · exact he
      · rw [popMin_none _ hp] at hp'; cases hp'
    | some mr =>
      obtain ⟨⟨k, c⟩, rest⟩ := mr
      obtain ⟨hm, hrest, hsplit, _⟩ := popMin_spec O s.queue _ _ hp
      have hkc := hs.good (k, c) hm
      have hs1 : Inv I o.maxError w d L R0 { s with queue := rest } :=
        ⟨hs.hlim, hs.sound, fun p hp' => hs.good p (hrest p hp'), hs.tested⟩
      dsimp only
      split
      · -- the early exit cannot fire: every queued key is within the (constant) limit
        rename_i hk
        exfalso
        rw [hs.hlim, hkc.2] at hk; cases hk
      · cases c with
        | index cd es =>
          dsimp only
          intro h
          obtain ⟨a1, a2, a3, a4⟩ := edges_step (a := a) h1 hif es hs1 (by
            intro e he; apply hkc.1.2; simpa [edgesUnder] using he)
          have hpost := ih _ s' a1 h
          refine ⟨hpost.1, fun r hr => hpost.2.1 r (a2 r hr), ?_⟩
          rintro e hl (he | ⟨p, hp', he⟩)
          · exact Done.mono (s := s) (fun r hr => hpost.2.1 r (a2 r hr)) he
          · rcases hsplit p hp' with rfl | hp'
            · exact Done.mono hpost.2.1 (a4 e (by simpa [edgesUnder] using he))
            · exact hpost.2.2 e hl (Or.inr ⟨p, by rw [a3]; exact hp', he⟩)
        | node cd kids =>
          dsimp only
          intro h
          have hst := poe_fold (a := a) (cns := cns) O S h1 hif kids hs1 hkc.1.kids
          have hpost := ih _ s' hst.inv h
          refine ⟨hpost.1, fun r hr => hpost.2.1 r (hst.mono r hr), ?_⟩
          rintro e hl (he | ⟨p, hp', he⟩)
          · exact Done.mono (s := s) (fun r hr => hpost.2.1 r (hst.mono r hr)) he
          · rcases hsplit p hp' with rfl | hp'
            · exact hpost.2.2 e hl (hst.new e (by simpa [edgesUnder] using he) hl)
            · exact hpost.2.2 e hl (hst.cov e (Or.inr ⟨p, hp', he⟩))

end Steps

/-! ## `findEdgesInternal` for `maxResults ≠ 1` -/

section Internal
variable (I : DistI D) (o : Opts D) (w : World D) (d : EdgeKey → D)

/-- the state after the interior results have been added -/
def s1 : St D :=
  { limit := o.distanceLimit, results := interiorResults I o w, tested := [], queue := [] }

theorem interiors_fold (h1 : o.maxResults ≠ 1) (l : List Int) : ∀ s : St D,
    l.foldl (fun s sh => addResult I o s ⟨I.zero, sh, -1⟩) s =
      { s with results := s.results ++ l.map (fun sh => ⟨I.zero, sh, -1⟩) } := by
  induction l with
  | nil => intro s; simp
  | cons x xs ih => intro s; rw [List.foldl_cons, ih, addResult_multi h1]; simp

/-- `findEdgesInternal` past its early exits, for `maxResults ≠ 1` and a non-zero limit -/
theorem fei_eq (h1 : o.maxResults ≠ 1) (hz : o.distanceLimit ≠ I.zero) :
    findEdgesInternal I o w =
      if o.useBruteForce || w.small then some (findEdgesBruteForce I o w (s1 I o w))
      else findEdgesOptimized I o w
        ((o.maxError != I.zero && o.targetUsesMaxError) && decide (o.maxResults > 1))
        ((o.maxError != I.zero && o.targetUsesMaxError) &&
          (o.distanceLimit == I.infinity || I.less I.zero (I.sub o.distanceLimit o.maxError)))
        (s1 I o w) := by
  have hs1 : (if o.includeInteriors then
      w.interiors.foldl (fun s sh => addResult I o s ⟨I.zero, sh, -1⟩)
        ({ limit := o.distanceLimit, results := [], tested := [], queue := [] } : St D)
    else { limit := o.distanceLimit, results := [], tested := [], queue := [] }) = s1 I o w := by
    unfold s1 interiorResults
    split
    · rw [interiors_fold I o h1]; simp
    · rfl
  unfold findEdgesInternal
  dsimp only
  rw [hs1]
  have hl : (s1 I o w).limit = o.distanceLimit := rfl
  have hz' : (o.distanceLimit == I.zero) = false := by simpa using hz
  rw [hl]
  simp only [hz', Bool.and_false, Bool.false_eq_true, if_false]

/-- `processEdges` without duplicate filter, `maxResults ≠ 1`: appends what each edge contributes at
    the (unchanged) limit, in order -/
theorem processEdges_false (h1 : o.maxResults ≠ 1) (es : List EdgeKey) : ∀ s : St D,
    processEdges I o w false s es =
      { s with results := s.results ++ es.filterMap (hitA w s.limit) } := by
  unfold processEdges
  induction es with
  | nil => intro s; simp
  | cons e es ih =>
    intro s
    rw [List.foldl_cons, maybeAdd_eq (a := false) h1 (fun h => by cases h)]
    simp only [Bool.false_and, Bool.false_eq_true, if_false]
    rw [ih]
    unfold addHit
    cases hh : hitA w s.limit e with
    | none => simp [hh]
    | some r => simp [hh]

/-- (A1) the final state of the brute-force path, as an equation (no hypothesis on the world) -/
theorem brute_results_eq (h1 : o.maxResults ≠ 1) (hz : o.distanceLimit ≠ I.zero)
    (hb : o.useBruteForce = true ∨ w.small = true) :
    findEdgesInternal I o w = some
      { limit := o.distanceLimit
        results := interiorResults I o w ++ w.allEdges.filterMap (hitA w o.distanceLimit)
        tested := [], queue := [] } := by
  rw [fei_eq I o w h1 hz]
  have : (o.useBruteForce || w.small) = true := by
    rcases hb with h | h <;> simp [h]
  rw [if_pos this]
  unfold findEdgesBruteForce
  rw [processEdges_false I o w h1]
  rfl

/-- (A2) the raw results of the optimized path: exactly the interior results and what each edge of
    the index contributes at the limit of the options (as a set; with `avoidDuplicates` every edge
    key at most once, without it once per index cell holding it) -/
theorem opt_results_mem (O : DistOrder I) (S : SubLaws I o.maxError)
    (A : WorldApprox I o.maxError w d) (h1 : o.maxResults ≠ 1) (hz : o.distanceLimit ≠ I.zero)
    (hif : o.invertedFilter = false) (hb : o.useBruteForce = false) (hsm : w.small = false) :
    ∃ s, findEdgesInternal I o w = some s ∧ ∀ r, r ∈ s.results ↔
      (r ∈ interiorResults I o w ∨ ∃ e ∈ w.allEdges, hitA w o.distanceLimit e = some r) := by
  obtain ⟨s', hs'⟩ := findEdgesInternal_total I o w
  refine ⟨s', hs', ?_⟩
  rw [fei_eq I o w h1 hz] at hs'
  simp only [hb, hsm, Bool.or_false, Bool.false_eq_true, if_false] at hs'
  generalize ((o.maxError != I.zero && o.targetUsesMaxError) && decide (o.maxResults > 1)) = a at hs'
  generalize ((o.maxError != I.zero && o.targetUsesMaxError) &&
    (o.distanceLimit == I.infinity || I.less I.zero (I.sub o.distanceLimit o.maxError))) = cns at hs'
  unfold findEdgesOptimized at hs'
  have hinit : initQueue I o w a cns (s1 I o w) =
      (w.roots o.distanceLimit).foldl (processOrEnqueue I o w a cns) (s1 I o w) := by
    unfold initQueue
    have : (o.maxResults == 1) = false := by simpa using h1
    simp only [A.nonEmptyTarget, this, Bool.false_eq_true, if_false, Bool.false_and]
    rfl
  rw [hinit] at hs'
  have hinv0 : Inv I o.maxError w d o.distanceLimit (interiorResults I o w) (s1 I o w) :=
    ⟨rfl, fun r hr => Or.inl hr, fun p hp => (nomatch hp), fun e he => (nomatch he)⟩
  have hst := poe_fold (a := a) (cns := cns) O S h1 (fun _ => hif) (w.roots o.distanceLimit) hinv0
    ⟨A.cellApprox o.distanceLimit, A.rootsSound o.distanceLimit⟩
  have hpost := loop_out (a := a) (cns := cns) O S h1 (fun _ => hif) _ _ s' hst.inv hs'
  intro r
  constructor
  · exact hpost.1 r
  · rintro (hr | ⟨e, he, hh⟩)
    · exact hpost.2.1 r (hst.mono r hr)
    · -- an edge that contributes something is within the limit, hence below the roots
      obtain ⟨x, hx, rfl⟩ : ∃ x, w.updEdge e o.distanceLimit = some x ∧
          r = ⟨x, e.shape, e.edge⟩ := by
        unfold hitA at hh
        cases hu : w.updEdge e o.distanceLimit with
        | none => rw [hu] at hh; cases hh
        | some x => rw [hu] at hh; exact ⟨x, rfl, by simpa using hh.symm⟩
      obtain ⟨hlt, hge, _⟩ := A.approxEdge e _ x hx
      have hl : I.less (d e) o.distanceLimit = true := ord_lt_of_le_of_lt O hge hlt
      exact hpost.2.2 e hl (hst.new e (A.rootsComplete _ e he hl) hl) _ hh

/-- (A3) the final answer of either path: the interior results and the contributions of all edges
    at the limit of the options, sorted, de-duplicated and cut at `maxResults` -/
theorem findEdges_answer (O : DistOrder I) (S : SubLaws I o.maxError)
    (A : WorldApprox I o.maxError w d) (h1 : o.maxResults ≠ 1) (hz : o.distanceLimit ≠ I.zero)
    (hif : o.invertedFilter = false) :
    findEdges I o w = some (postProcess I o.maxResults
      (interiorResults I o w ++ w.allEdges.filterMap (hitA w o.distanceLimit))) := by
  by_cases hb : o.useBruteForce = true ∨ w.small = true
  · unfold findEdges
    rw [brute_results_eq I o w h1 hz hb]
    rfl
  · have hb1 : o.useBruteForce = false := by
      cases h : o.useBruteForce
      · rfl
      · exact absurd (Or.inl h) hb
    have hb2 : w.small = false := by
      cases h : w.small
      · rfl
      · exact absurd (Or.inr h) hb
    obtain ⟨s₁, e₁, m₁⟩ := opt_results_mem I o w d O S A h1 hz hif hb1 hb2
    unfold findEdges
    rw [e₁]
    simp only [Option.map_some]
    congr 1
    apply postProcess_congr_mem O
    intro r
    rw [m₁]
    simp only [List.mem_append, List.mem_filterMap]

/-- (A3) optimized search (with the duplicate filter) = brute-force scan (without it) -/
theorem opt_eq_brute (O : DistOrder I) (S : SubLaws I o.maxError)
    (A : WorldApprox I o.maxError w d) (h1 : o.maxResults ≠ 1) (hif : o.invertedFilter = false) :
    findEdges I { o with useBruteForce := false } { w with small := false } =
      findEdges I { o with useBruteForce := true } w := by
  by_cases hz : o.distanceLimit = I.zero
  · have hz' : (o.distanceLimit == I.zero) = true := by simpa using hz
    unfold findEdges findEdgesInternal
    simp only [hz', if_true]
  · have A' : WorldApprox I o.maxError { w with small := false } d :=
      ⟨A.approxEdge, A.approxEdgeNone, A.cellApprox, A.rootsComplete, A.rootsSound, A.locatedSound,
        A.nonEmptyTarget, A.zeroMin⟩
    rw [findEdges_answer I { o with useBruteForce := false } { w with small := false } d O S A' h1 hz hif,
      findEdges_answer I { o with useBruteForce := true } w d O S A h1 hz hif]
    rfl

end Internal

/-! ## (A4) an exact world is an approximate world for every permitted error -/

theorem _root_.S2Proofs.EdgeQuery.WorldOK.toApprox {I : DistI D} {w : World D} {d : EdgeKey → D}
    (O : DistOrder I) {err : D} (S : SubLaws I err) (H : WorldOK I w d) : WorldApprox I err w d where
  approxEdge e lim x hx := by
    rw [H.exactEdge] at hx
    split at hx
    · rename_i hl
      simp only [Option.some.injEq] at hx
      subst hx
      exact ⟨hl, O.irrefl _, S.sub_le _⟩
    · cases hx
  approxEdgeNone e lim hx := by
    rw [H.exactEdge] at hx
    split at hx
    · cases hx
    · rename_i hl; simpa using hl
  cellApprox lim c hc := by
    intro lim'
    obtain ⟨h1, h2⟩ := H.cellLB lim c hc lim'
    refine ⟨h1, fun x hx => ⟨(h2 x hx).1, fun e he => ?_⟩⟩
    exact ord_le_trans O (S.sub_le x) ((h2 x hx).2 e he)
  rootsComplete := H.rootsComplete
  rootsSound := H.rootsSound
  locatedSound := H.locatedSound
  nonEmptyTarget := H.nonEmptyTarget
  zeroMin := H.zeroMin

end ApproxMulti
end S2Proofs.EdgeQuery
