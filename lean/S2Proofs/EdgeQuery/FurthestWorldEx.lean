/-
  S2Proofs.EdgeQuery.FurthestWorldEx — NON-VACUITY of the hypotheses `FarEdgesOK` / `FarIndexOK` of
  `S2Proofs.EdgeQuery.FurthestWorld` (package c08more-subF): the two-cell index of `PointWorldEx` with the same target,

      fromFace 0 (node) ── child 0  (uv ∈ [-1,0]×[-1,0])  lists edge 1
                        └─ child 2  (uv ∈ [ 0,1]×[ 0,1])  lists edge 0

  edge 0 = (1,0,0) → (2/3,2/3,1/3),  edge 1 = (2/3,−2/3,−1/3) → (2/3,−1/3,−2/3),  target (1/3,2/3,2/3).
  For the target, edge 0 is within 90° of both endpoints (NEAR branch of `UpdateMaxDistance`: the larger endpoint chord,
  ≈ 4/3), edge 1 is beyond (FAR branch: `4 − UpdateMinDistance(−p, …)`, ≈ 2.9): both branches run.
  Each edge lies entirely in (the exact region of) its index cell, so the point of the arc FARTHEST from the target does, too.
-/
import S2Proofs.EdgeQuery.FurthestWorld
import S2Proofs.EdgeQuery.PointWorldEx
import S2Proofs.Properties.C17_Pairs2

set_option linter.unusedSimpArgs false
set_option linter.unusedVariables false

namespace S2Proofs.C08Far.Ex
open S2 S2.Exact S2.CellID S2.CellM S2.EdgeNum S2.EdgeQueryM S2Proofs.F64Order S2Proofs.FloatErr S2Proofs.EdgeQuery
open S2Proofs.C17Err S2Proofs.C17 S2Proofs.C17Pairs S2Proofs.C12Dist S2Proofs.C08World.Ex
open S2Proofs.C08World (toAcc)

/-! ## the data -/

/-- the target (1/3,2/3,2/3) of `PointWorldEx` -/
abbrev tP : V3 := S2Proofs.C08World.Ex.exP

def farIdx : FarIndex where
  p := tP
  vert e := (exVerts.lookup e.edge).getD (a0, b0)
  allEdges := [e0, e1]
  ix := [(cNeg, [e1]), (cPos, [e0])]
  rootIds := fun _ => [cRoot]
  depth := 30
  interiors := []
  located := none
  small := false

theorem fvert_e0 : farIdx.vert e0 = (a0, b0) := rfl
theorem fvert_e1 : farIdx.vert e1 = (a1, b1) := rfl

/-! ## `FarEdgesOK` -/

/-- the decidable integer form of the domain of the two `UpdateMaxDistance` calls (c17pairs2 `MaxCallOKZ`: unit points, `EdgeOK`,
    `WedgeMargin` of the antipode, and the class exclusion as "far branch taken, or within 90° of both endpoints"), and which
    branch each call takes -/
theorem farFacts : MaxCallOKZ tP a0 b0 ∧ MaxCallOKZ tP a1 b1 ∧
    beyondRightAngle tP a0 b0 = false ∧ beyondRightAngle tP a1 b1 = true := by decide +kernel

theorem call0 : MaxCallOK tP a0 b0 := maxCallOK_of_int farFacts.1
theorem call1 : MaxCallOK tP a1 b1 := maxCallOK_of_int farFacts.2.1

theorem mem_allEdges {e : EdgeKey} (he : e ∈ farIdx.allEdges) : e = e0 ∨ e = e1 := by
  simpa [farIdx] using he

theorem ex_farEdgesOK : FarEdgesOK farIdx where
  target := call0.hx
  v0 e he := by
    rcases mem_allEdges he with rfl | rfl
    · rw [fvert_e0]; exact call0.ha
    · rw [fvert_e1]; exact call1.ha
  v1 e he := by
    rcases mem_allEdges he with rfl | rfl
    · rw [fvert_e0]; exact call0.hb
    · rw [fvert_e1]; exact call1.hb
  edgeOK e he := by
    rcases mem_allEdges he with rfl | rfl
    · rw [fvert_e0]; exact call0.hE
    · rw [fvert_e1]; exact call1.hE
  margin e he := by
    rcases mem_allEdges he with rfl | rfl
    · rw [fvert_e0]; exact call0.hM
    · rw [fvert_e1]; exact call1.hM
  notClass e he := by
    rcases mem_allEdges he with rfl | rfl
    · rw [fvert_e0]; exact Or.inl call0.hcls
    · rw [fvert_e1]; exact Or.inl call1.hcls

/-! ## `FarIndexOK` -/

theorem ex_farCovered : FarthestCovered farIdx := by
  intro lim e he _
  rcases mem_allEdges he with rfl | rfl
  · obtain ⟨Q, hQ, hd⟩ := (rhoMax_is_max ex_farEdgesOK he).2
    rw [fvert_e0] at hQ
    refine ⟨Q, by rw [fvert_e0]; exact hQ, hd, cPos, [e0], by decide, by simp,
      ⟨cRoot, by simp [farIdx], by decide⟩, ?_⟩
    intro y hy hyx
    rcases ancestors_level1 isCell_pos hy hyx with rfl | rfl
    · rw [cellPos_eq]
      show InCell (rectOf cellPos) (uvwR 0 (toAcc Q))
      rw [rectPos]
      exact arc_in_cell _ 0 _ _ _ hom_a0_pos hom_b0_pos hQ
    · rw [parent_pos, cellRoot_eq]
      show InCell (rectOf cellRoot) (uvwR 0 (toAcc Q))
      rw [rectRoot]
      exact arc_in_cell _ 0 _ _ _ hom_a0_root hom_b0_root hQ
  · obtain ⟨Q, hQ, hd⟩ := (rhoMax_is_max ex_farEdgesOK he).2
    rw [fvert_e1] at hQ
    refine ⟨Q, by rw [fvert_e1]; exact hQ, hd, cNeg, [e1], by decide, by simp,
      ⟨cRoot, by simp [farIdx], by decide⟩, ?_⟩
    intro y hy hyx
    rcases ancestors_level1 isCell_neg hy hyx with rfl | rfl
    · rw [cellNeg_eq]
      show InCell (rectOf cellNeg) (uvwR 0 (toAcc Q))
      rw [rectNeg]
      exact arc_in_cell _ 0 _ _ _ hom_a1_neg hom_b1_neg hQ
    · rw [parent_neg, cellRoot_eq]
      show InCell (rectOf cellRoot) (uvwR 0 (toAcc Q))
      rw [rectRoot]
      exact arc_in_cell _ 0 _ _ _ hom_a1_root hom_b1_root hQ

theorem ex_farIndexOK : FarIndexOK farIdx where
  cellsOK := by decide +kernel
  rootsValid lim c hc := by
    have : c = cRoot := by simpa [farIdx] using hc
    subst this; decide
  depth := le_refl _
  edgesSound x es hl e he := by
    have hx : x ∈ Roots.ids farIdx.ix := Roots.lookup_mem_ids _ hl
    have : x = cNeg ∨ x = cPos := by simpa [farIdx, Roots.ids] using hx
    rcases this with rfl | rfl
    · have : farIdx.ix.lookup cNeg = some [e1] := by decide
      rw [this] at hl; cases hl
      have : e = e1 := by simpa using he
      subst this; simp [farIdx]
    · have : farIdx.ix.lookup cPos = some [e0] := by decide
      rw [this] at hl; cases hl
      have : e = e0 := by simpa using he
      subst this; simp [farIdx]
  locatedSound es h := by cases h
  covered := ex_farCovered

/-- **hypothesis-free instance of `far_slackWorld`** -/
theorem ex_farSlackWorld : Slack.SlackWorld mchordI (world farIdx) (Near farIdx) :=
  far_slackWorld ex_farEdgesOK ex_farIndexOK

/-! ## the search really runs on this world (kernel evaluation) -/

def farOpts : Opts MChord :=
  { maxResults := 1, distanceLimit := minf, maxError := mnull, includeInteriors := false, useBruteForce := false,
    targetUsesMaxError := false }

def updCellL (c : CellM.Cell) (lim : MChord) : Option MChord :=
  if F64.lt lim.1 (CellM.maxDistance c tP) then some (mcanon (CellM.maxDistance c tP)) else none

def farTree : EdgeQueryM.Cell MChord :=
  .node (updCellL cellRoot) [.index (updCellL cellNeg) [e1], .index (updCellL cellPos) [e0]]

theorem updCell_root : updCell farIdx cRoot = updCellL cellRoot := by
  funext lim; unfold updCell cellMax updCellL; rw [cellRoot_eq]; rfl
theorem updCell_neg : updCell farIdx cNeg = updCellL cellNeg := by
  funext lim; unfold updCell cellMax updCellL; rw [cellNeg_eq]; rfl
theorem updCell_pos : updCell farIdx cPos = updCellL cellPos := by
  funext lim; unfold updCell cellMax updCellL; rw [cellPos_eq]; rfl

theorem tree_eq : Roots.subtree farIdx.ix (updCell farIdx) 30 cRoot = farTree := by
  have l0 : farIdx.ix.lookup cRoot = none := by decide
  have l1 : farIdx.ix.lookup cNeg = some [e1] := by decide
  have l2 : farIdx.ix.lookup cPos = some [e0] := by decide
  have hk : (([1, 0, 3, 2].map (child cRoot)).filter (Roots.hasIndexCell farIdx.ix)) = [cNeg, cPos] := by
    decide
  have h : Roots.subtree farIdx.ix (updCell farIdx) 30 cRoot =
      .node (updCell farIdx cRoot) [.index (updCell farIdx cNeg) [e1], .index (updCell farIdx cPos) [e0]] := by
    rw [show (30 : Nat) = 28 + 1 + 1 from rfl]
    rw [Roots.subtree, l0]
    rw [hk]
    simp only [List.map_cons, List.map_nil]
    rw [Roots.subtree, l1, Roots.subtree, l2]
  rw [h, updCell_root, updCell_neg, updCell_pos]; rfl

/-- the same world with the tree written out -/
def farWorldL : World MChord := { world farIdx with roots := fun _ => [farTree] }

theorem roots_eq : (world farIdx).roots = fun _ => [farTree] := by
  funext lim
  show [Roots.subtree farIdx.ix (updCell farIdx) 30 cRoot] = _
  rw [tree_eq]

theorem world_eq : world farIdx = farWorldL := by
  unfold farWorldL; rw [← roots_eq]

def farOpts2 : Opts MChord := { farOpts with maxResults := 2 }
def farOptsB : Opts MChord := { farOpts with useBruteForce := true }

/-- the three `Cell.MaxDistance(target)` values: face cell and `child 0` ≈ 3.1547 (far branch `4 − Distance(−p)`), `child 2` = 4/3 (a vertex) -/
theorem ex_cellValues : [(CellM.maxDistance cellRoot tP).bits, (CellM.maxDistance cellNeg tP).bits,
    (CellM.maxDistance cellPos tP).bits] = [0x40093CD3A2C8198E, 0x40093CD3A2C8198E, 0x3FF5555555555556] := by decide +kernel

/-- the two `UpdateMaxDistance` candidates: edge 0 near branch (endpoint (1,0,0): 4/3), edge 1 far branch (interior maximum ≈ 2.9147 >
    both endpoint chords 26/9 ≈ 2.8889) -/
theorem ex_candValues : [(cand farIdx e0).bits, (cand farIdx e1).bits] = [0x3FF5555555555556, 0x40075138CD15385B] := by
  decide +kernel

set_option maxRecDepth 100000 in
/-- the OPTIMIZED furthest-edge search, MaxResults = 1, unbounded (limit = −1), evaluated by the kernel on the bit-exact soft-float:
    the root node is enqueued, popped, its two index cells processed; edge 1 is returned at squared chord `0x40075138CD15385B` ≈ 2.9147 -/
theorem ex_searchL : (findEdges mchordI farOpts farWorldL).map (fun rs => rs.map (fun r => (r.dist.1.bits, r.shape, r.edge)))
    = some [(0x40075138CD15385B, 0, 1)] := by decide +kernel

theorem ex_search : (findEdges mchordI farOpts (world farIdx)).map (fun rs => rs.map (fun r => (r.dist.1.bits, r.shape, r.edge)))
    = some [(0x40075138CD15385B, 0, 1)] := by rw [world_eq]; exact ex_searchL

set_option maxRecDepth 100000 in
/-- with `maxResults = 2` both edges are found, FARTHEST first (edge 0 at 4/3) -/
theorem ex_searchL2 : (findEdges mchordI farOpts2 farWorldL).map (fun rs => rs.map (fun r => (r.dist.1.bits, r.shape, r.edge)))
    = some [(0x40075138CD15385B, 0, 1), (0x3FF5555555555556, 0, 0)] := by decide +kernel

theorem ex_search2 : (findEdges mchordI farOpts2 (world farIdx)).map (fun rs => rs.map (fun r => (r.dist.1.bits, r.shape, r.edge)))
    = some [(0x40075138CD15385B, 0, 1), (0x3FF5555555555556, 0, 0)] := by rw [world_eq]; exact ex_searchL2

set_option maxRecDepth 100000 in
/-- the brute-force scan gives the same answer -/
theorem ex_searchLB : (findEdges mchordI farOptsB farWorldL).map (fun rs => rs.map (fun r => (r.dist.1.bits, r.shape, r.edge)))
    = some [(0x40075138CD15385B, 0, 1)] := by decide +kernel

theorem ex_searchB : (findEdges mchordI farOptsB (world farIdx)).map (fun rs => rs.map (fun r => (r.dist.1.bits, r.shape, r.edge)))
    = some [(0x40075138CD15385B, 0, 1)] := by rw [world_eq]; exact ex_searchLB

/-- a FINITE limit: only edges farther than squared chord 2 (90°) are wanted -/
def farOpts3 : Opts MChord := { farOpts2 with distanceLimit := ⟨⟨0x4000000000000000⟩, by decide⟩ }
/-- limit 3: no edge is that far -/
def farOpts4 : Opts MChord := { farOpts with distanceLimit := ⟨⟨0x4008000000000000⟩, by decide⟩ }

set_option maxRecDepth 100000 in
/-- limit 2, MaxResults 2: only edge 1 (≈ 2.9147 > 2) is reported; edge 0 (4/3) is not beyond the limit -/
theorem ex_searchL3 : (findEdges mchordI farOpts3 farWorldL).map (fun rs => rs.map (fun r => (r.dist.1.bits, r.shape, r.edge)))
    = some [(0x40075138CD15385B, 0, 1)] := by decide +kernel

theorem ex_search3 : (findEdges mchordI farOpts3 (world farIdx)).map (fun rs => rs.map (fun r => (r.dist.1.bits, r.shape, r.edge)))
    = some [(0x40075138CD15385B, 0, 1)] := by rw [world_eq]; exact ex_searchL3

set_option maxRecDepth 100000 in
/-- limit 3: the answer is EMPTY (the face cell and `child 0` have `MaxDistance` ≈ 3.1547 > 3 and are visited, `child 2` (4/3) is pruned;
    the `UpdateMaxDistance` call of edge 1 answers "not ok") -/
theorem ex_searchL4 : findEdges mchordI farOpts4 farWorldL = some [] := by decide +kernel

theorem ex_search4 : findEdges mchordI farOpts4 (world farIdx) = some [] := by rw [world_eq]; exact ex_searchL4

end S2Proofs.C08Far.Ex
