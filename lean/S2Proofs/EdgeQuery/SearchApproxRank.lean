/-
  S2Proofs.EdgeQuery.SearchApproxRank — what the post-processed answer of a search with
  `maxResults ≠ 1` and an approximate target (`WorldApprox`) guarantees, in terms of the TRUE
  distances `d`:

  (R1) soundness of every entry                                        `answer_sound`
  (R2) at most one entry per edge key                                  `answer_key_unique`
  (R3) rank guarantee: fewer than `j+1` edges are truly closer than `reported_j − maxError`
                                                                       `rank_bound`, `rank_count`,
       and with the sorted list of true distances                      `rank_sorted`
  (R4) k-best up to `maxError`: an edge within the limit that is left out is not closer than
       `reported − maxError` for any reported entry, and the answer is full      `answer_kbest`
  (R5) reported distances are not optimistic: `j+1` entries of the index (edges or containing
       shapes) are truly within `reported_j`                            (part of `answer_sound`)
-/
import Batteries.Data.List.Perm
import S2Proofs.EdgeQuery.SearchApproxMulti
set_option linter.unusedSectionVars false
open S2 S2.EdgeQueryM
namespace S2Proofs.EdgeQuery
namespace ApproxMulti
open Single

variable {D : Type} [DecidableEq D]

/-! ## Strictly sorted lists -/

/-- in a strictly sorted list an element smaller than the `j`-th one is among the first `j` -/
theorem mem_take_of_lt {α : Type} {lt : α → α → Bool} (T : StrictTotal lt) {l : List α}
    (hl : l.Pairwise (fun a b => lt a b = true)) {j : Nat} (hj : j < l.length) {h : α}
    (hh : h ∈ l) (hlt : lt h l[j] = true) : h ∈ l.take j := by
  rw [← List.take_append_drop j l] at hh
  rcases List.mem_append.1 hh with h1 | h1
  · exact h1
  · exfalso
    rw [List.drop_eq_getElem_cons hj] at h1
    rcases List.mem_cons.1 h1 with rfl | h2
    · rw [T.irrefl] at hlt; cases hlt
    · have hp : (l.drop j).Pairwise (fun a b => lt a b = true) := hl.sublist (List.drop_sublist _ _)
      rw [List.drop_eq_getElem_cons hj, List.pairwise_cons] at hp
      have := T.asymm (hp.1 h h2)
      rw [this] at hlt; cases hlt

theorem distOrder_strictTotal {I : DistI D} (O : DistOrder I) : StrictTotal I.less :=
  ⟨O.irrefl, O.trans, O.tri⟩

theorem resultLess_of_dist {I : DistI D} (O : DistOrder I) {a b : Result D}
    (h : I.less a.dist b.dist = true) : Result.less I a b = true := by
  have hne : a.dist ≠ b.dist := by
    intro he; rw [he, O.irrefl] at h; cases h
  unfold Result.less
  simp [hne, h]

theorem dist_le_of_resultLess {I : DistI D} (O : DistOrder I) {a b : Result D}
    (h : Result.less I a b = true) : I.less b.dist a.dist = false := by
  unfold Result.less at h
  split at h
  · exact ord_asymm O h
  · rename_i he
    have : a.dist = b.dist := by simpa using he
    rw [this]; exact O.irrefl _

/-- the key of a result -/
def keyOf (r : Result D) : EdgeKey := ⟨r.shape, r.edge⟩

/-! ## The answer -/

section Answer
variable {I : DistI D} {err : D} {w : World D} {d : EdgeKey → D} {L : D} {R0 : List (Result D)}
  {k : Nat}

/-- the raw results of a search with `maxResults ≠ 1` -/
def raw (w : World D) (L : D) (R0 : List (Result D)) : List (Result D) :=
  R0 ++ w.allEdges.filterMap (hitA w L)

theorem mem_raw {r : Result D} :
    r ∈ raw w L R0 ↔ r ∈ R0 ∨ ∃ e ∈ w.allEdges, hitA w L e = some r := by
  simp [raw, List.mem_append, List.mem_filterMap]

theorem hitA_some {e : EdgeKey} {r : Result D} (h : hitA w L e = some r) :
    w.updEdge e L = some r.dist ∧ r.shape = e.shape ∧ r.edge = e.edge := by
  unfold hitA at h
  cases hu : w.updEdge e L with
  | none => rw [hu] at h; cases h
  | some x =>
    rw [hu] at h
    simp only [Option.map_some, Option.some.injEq] at h
    subst h
    exact ⟨rfl, rfl, rfl⟩

/-- an edge within the limit contributes a result whose distance is within `err` of the truth -/
theorem hit_of_within (A : WorldApprox I err w d) {e : EdgeKey}
    (hl : I.less (d e) L = true) :
    ∃ r, hitA w L e = some r ∧ I.less r.dist L = true ∧ I.less r.dist (d e) = false ∧
      I.less (d e) (I.sub r.dist err) = false := by
  cases hu : w.updEdge e L with
  | none => rw [A.approxEdgeNone e L hu] at hl; cases hl
  | some x =>
    obtain ⟨a, b, c⟩ := A.approxEdge e L x hu
    exact ⟨⟨x, e.shape, e.edge⟩, by simp [hitA, hu], a, b, c⟩

/-- (R1) every entry of the answer is an interior result or the contribution of an edge: within the
    limit, not below the true distance, above it by at most `err` -/
theorem answer_sound (A : WorldApprox I err w d) {rs : List (Result D)}
    (hrs : rs = postProcess I k (raw w L R0)) : ∀ r ∈ rs, r ∈ R0 ∨
      ∃ e ∈ w.allEdges, r.shape = e.shape ∧ r.edge = e.edge ∧ w.updEdge e L = some r.dist ∧
        I.less r.dist L = true ∧ I.less r.dist (d e) = false ∧
        I.less (d e) (I.sub r.dist err) = false := by
  intro r hr
  rw [hrs] at hr
  rcases mem_raw.1 (post_mem I k _ r hr) with h | ⟨e, he, hh⟩
  · exact Or.inl h
  · obtain ⟨hu, h1, h2⟩ := hitA_some hh
    obtain ⟨a, b, c⟩ := A.approxEdge e L _ hu
    exact Or.inr ⟨e, he, h1, h2, hu, a, b, c⟩

/-- (R2) two entries for the same edge key are the same entry (interior results have edge id −1) -/
theorem answer_key_unique (hR0 : ∀ r ∈ R0, r.edge = -1) {rs : List (Result D)}
    (hrs : rs = postProcess I k (raw w L R0)) :
    ∀ r ∈ rs, ∀ r' ∈ rs, 0 ≤ r.edge → r.shape = r'.shape → r.edge = r'.edge → r = r' := by
  intro r hr r' hr' h0 hs he
  rw [hrs] at hr hr'
  have key : ∀ x ∈ raw w L R0, 0 ≤ x.edge → ∃ e ∈ w.allEdges, hitA w L e = some x := by
    intro x hx hx0
    rcases mem_raw.1 hx with h | h
    · have := hR0 x h; omega
    · exact h
  obtain ⟨e, _, h1⟩ := key r (post_mem I k _ r hr) h0
  obtain ⟨e', _, h2⟩ := key r' (post_mem I k _ r' hr') (he ▸ h0)
  obtain ⟨_, a1, a2⟩ := hitA_some h1
  obtain ⟨_, b1, b2⟩ := hitA_some h2
  have : e = e' := by
    cases e; cases e'
    simp only [EdgeKey.mk.injEq]
    simp only at a1 a2 b1 b2
    exact ⟨by rw [← a1, ← b1, hs], by rw [← a2, ← b2, he]⟩
  subst this
  rw [h1] at h2
  exact Option.some.inj h2

/-- when `k` is at least the number of raw results nothing is cut off -/
theorem answer_all (O : DistOrder I) (hk : R0.length + w.allEdges.length ≤ k)
    {rs : List (Result D)} (hrs : rs = postProcess I k (raw w L R0)) :
    ∀ r, r ∈ rs ↔ r ∈ raw w L R0 := by
  subst hrs
  apply post_mem_iff_of_le
  have hnd := sortAndUnique_nodup O (raw w L R0)
  have hsub : sortAndUniqueResults I (raw w L R0) ⊆ raw w L R0 :=
    fun r hr => (sortAndUnique_mem I _ r).1 hr
  have h1 := (List.subperm_of_subset hnd hsub).length_le
  have h2 : (raw w L R0).length ≤ R0.length + w.allEdges.length := by
    unfold raw
    rw [List.length_append]
    exact Nat.add_le_add_left (List.length_filterMap_le _ _) _
  omega

/-- key step of the rank bound: an edge truly closer than `reported − err` contributes a result that
    is strictly `less` than the reported one -/
theorem closer_hit (O : DistOrder I) (S : SubLaws I err) (M : SubMono I err)
    (A : WorldApprox I err w d) (hR0 : ∀ r ∈ R0, r.dist = I.zero) {r : Result D}
    (hr : r ∈ raw w L R0) {e : EdgeKey}
    (hc : I.less (d e) (I.sub r.dist err) = true) :
    ∃ h, hitA w L e = some h ∧ Result.less I h r = true := by
  -- `d e < r.dist`
  have hlt : I.less (d e) r.dist = true := ord_lt_of_lt_of_le O hc (S.sub_le _)
  -- `r` is the contribution of an edge (nothing is below zero), hence within the limit
  have hrL : I.less r.dist L = true := by
    rcases mem_raw.1 hr with h | ⟨e', _, hh⟩
    · rw [hR0 r h, A.zeroMin] at hlt; cases hlt
    · exact (A.approxEdge e' L _ (hitA_some hh).1).1
  obtain ⟨h, hh, _, _, h3⟩ := hit_of_within A (O.trans _ _ _ hlt hrL)
  refine ⟨h, hh, resultLess_of_dist O ?_⟩
  -- `h.dist < r.dist`, else `sub r.dist err ≤ sub h.dist err ≤ d e`
  cases hx : I.less h.dist r.dist with
  | true => rfl
  | false =>
    exfalso
    have hle : I.less (I.sub h.dist err) (I.sub r.dist err) = false := by
      by_cases heq : r.dist = h.dist
      · rw [heq]; exact O.irrefl _
      · rcases O.tri _ _ heq with h' | h'
        · exact M.mono _ _ h'
        · rw [hx] at h'; cases h'
    have := ord_le_trans O hle h3
    rw [hc] at this; cases this

/-- (R3) RANK GUARANTEE.  Let `r` be the entry of rank `j` (0-based).  Any duplicate-free list of
    edges of the index that are truly closer than `r.dist − err` has at most `j` members: the
    `(j+1)`-st smallest true distance is at least `r.dist − err`. -/
theorem rank_bound (O : DistOrder I) (S : SubLaws I err) (M : SubMono I err)
    (A : WorldApprox I err w d) (hR0 : ∀ r ∈ R0, r.dist = I.zero) {rs : List (Result D)}
    (hrs : rs = postProcess I k (raw w L R0)) (j : Nat) (hj : j < rs.length)
    (es : List EdgeKey) (hnd : es.Nodup)
    (hes : ∀ e ∈ es, e ∈ w.allEdges ∧ I.less (d e) (I.sub rs[j].dist err) = true) :
    es.length ≤ j := by
  subst hrs
  have T := resultLess_strictTotal O
  have hSs := sortAndUnique_sorted O (raw w L R0)
  have hjl : j < (sortAndUniqueResults I (raw w L R0)).length := by
    have := hj
    rw [post_length] at this
    exact Nat.lt_of_lt_of_le this (Nat.min_le_right _ _)
  have hget : (postProcess I k (raw w L R0))[j] = (sortAndUniqueResults I (raw w L R0))[j] := by
    simp only [post_eq_take, List.getElem_take]
  have hrraw : (sortAndUniqueResults I (raw w L R0))[j] ∈ raw w L R0 :=
    (sortAndUnique_mem I _ _).1 (List.getElem_mem _)
  have hsub : es ⊆ ((sortAndUniqueResults I (raw w L R0)).take j).map keyOf := by
    intro e he
    obtain ⟨heA, hc⟩ := hes e he
    rw [hget] at hc
    obtain ⟨h, hh, hl⟩ := closer_hit O S M A hR0 hrraw hc
    have hS : h ∈ sortAndUniqueResults I (raw w L R0) :=
      (sortAndUnique_mem I _ _).2 (mem_raw.2 (Or.inr ⟨e, heA, hh⟩))
    have htake := mem_take_of_lt T hSs hjl hS hl
    obtain ⟨_, k1, k2⟩ := hitA_some hh
    refine List.mem_map.2 ⟨h, htake, ?_⟩
    cases e
    simp only [keyOf, EdgeKey.mk.injEq]
    exact ⟨k1, k2⟩
  have hlen := (List.subperm_of_subset hnd hsub).length_le
  rw [List.length_map, List.length_take] at hlen
  exact Nat.le_trans hlen (Nat.min_le_left _ _)

/-- (R3, counting form) if the edge list of the index is duplicate-free: at most `j` edges are truly
    closer than `reported_j − err` -/
theorem rank_count (O : DistOrder I) (S : SubLaws I err) (M : SubMono I err)
    (A : WorldApprox I err w d) (hR0 : ∀ r ∈ R0, r.dist = I.zero) (hnd : w.allEdges.Nodup)
    {rs : List (Result D)} (hrs : rs = postProcess I k (raw w L R0)) (j : Nat) (hj : j < rs.length) :
    w.allEdges.countP (fun e => I.less (d e) (I.sub rs[j].dist err)) ≤ j := by
  rw [List.countP_eq_length_filter]
  apply rank_bound O S M A hR0 hrs j hj _ (hnd.sublist List.filter_sublist)
  intro e he
  exact List.mem_filter.1 he

/-- the true distances of all edges, in increasing order -/
def trueSorted (I : DistI D) (w : World D) (d : EdgeKey → D) : List D :=
  sortBy I.less (w.allEdges.map d)

theorem trueSorted_length : (trueSorted I w d).length = w.allEdges.length := by
  unfold trueSorted
  rw [(sortBy_perm I.less _).length_eq, List.length_map]

/-- (R3, sorted form) the distance reported at rank `j` is at most `err` above the `j`-th smallest
    TRUE distance: `sub reported_j err ≤ true_j` -/
theorem rank_sorted (O : DistOrder I) (S : SubLaws I err) (M : SubMono I err)
    (A : WorldApprox I err w d) (hR0 : ∀ r ∈ R0, r.dist = I.zero) (hnd : w.allEdges.Nodup)
    {rs : List (Result D)} (hrs : rs = postProcess I k (raw w L R0)) (j : Nat) (hj : j < rs.length)
    (hj' : j < (trueSorted I w d).length) :
    I.less (trueSorted I w d)[j] (I.sub rs[j].dist err) = false := by
  cases hc : I.less (trueSorted I w d)[j] (I.sub rs[j].dist err) with
  | false => rfl
  | true =>
    exfalso
    have T := distOrder_strictTotal O
    let p : D → Bool := fun x => I.less x (I.sub rs[j].dist err)
    have hws : (trueSorted I w d).Pairwise (fun a b => I.less b a = false) :=
      sortBy_weakSorted T _
    -- the first `j+1` true distances are all below the bound
    have hall : ∀ x ∈ (trueSorted I w d).take (j + 1), p x = true := by
      intro x hx
      obtain ⟨i, hi, rfl⟩ := List.getElem_of_mem hx
      rw [List.length_take] at hi
      have hij : i ≤ j := by omega
      rw [List.getElem_take]
      show I.less _ _ = true
      rcases Nat.lt_or_eq_of_le hij with hlt | heq
      · have := (List.pairwise_iff_getElem.1 hws) i j (by omega) hj' hlt
        exact ord_lt_of_le_of_lt O this hc
      · subst heq; exact hc
    have h1 : ((trueSorted I w d).take (j + 1)).countP p = j + 1 := by
      rw [List.countP_eq_length.2 hall, List.length_take]; omega
    have h2 : ((trueSorted I w d).take (j + 1)).countP p ≤ (trueSorted I w d).countP p :=
      (List.take_sublist _ _).countP_le
    have h3 : (trueSorted I w d).countP p = w.allEdges.countP (p ∘ d) := by
      unfold trueSorted
      rw [(sortBy_perm I.less _).countP_eq, List.countP_map]
    have h4 := rank_count O S M A hR0 hnd hrs j hj
    have : w.allEdges.countP (p ∘ d) = w.allEdges.countP (fun e => I.less (d e) (I.sub rs[j].dist err)) := rfl
    omega

/-- (R4) k-BEST UP TO `err`: an edge of the index that is truly within the limit is reported, or the
    answer is full (`k` entries) and the edge is not closer than `reported − err` for ANY entry -/
theorem answer_kbest (O : DistOrder I) (M : SubMono I err)
    (A : WorldApprox I err w d) {rs : List (Result D)}
    (hrs : rs = postProcess I k (raw w L R0)) {e : EdgeKey} (he : e ∈ w.allEdges)
    (hl : I.less (d e) L = true) :
    (∃ r ∈ rs, r.shape = e.shape ∧ r.edge = e.edge) ∨
    (rs.length = k ∧ ∀ r ∈ rs, I.less (d e) (I.sub r.dist err) = false) := by
  obtain ⟨h, hh, _, _, h3⟩ := hit_of_within A hl
  have hraw : h ∈ raw w L R0 := mem_raw.2 (Or.inr ⟨e, he, hh⟩)
  obtain ⟨_, k1, k2⟩ := hitA_some hh
  by_cases hin : h ∈ rs
  · exact Or.inl ⟨h, hin, k1, k2⟩
  · right
    subst hrs
    constructor
    · -- something was cut off, so the answer has exactly `k` entries
      rw [post_length]
      have hS : h ∈ sortAndUniqueResults I (raw w L R0) := (sortAndUnique_mem I _ _).2 hraw
      rw [post_eq_take] at hin
      by_cases hk : (sortAndUniqueResults I (raw w L R0)).length ≤ k
      · rw [List.take_of_length_le hk] at hin; exact absurd hS hin
      · omega
    · intro r hr
      have hlt := post_kbest O k _ r hr h hraw hin
      have hle := dist_le_of_resultLess O hlt
      -- `sub r.dist err ≤ sub h.dist err ≤ d e`
      have hle' : I.less (I.sub h.dist err) (I.sub r.dist err) = false := by
        by_cases heq : r.dist = h.dist
        · rw [heq]; exact O.irrefl _
        · rcases O.tri _ _ heq with h' | h'
          · exact M.mono _ _ h'
          · rw [hle] at h'; cases h'
      exact ord_le_trans O hle' h3

/-- (R5) LOWER SIDE of the rank guarantee, no interior results: the distance reported at rank `j` is
    not below the `j`-th smallest TRUE distance (`true_j ≤ reported_j`): the first `j+1` entries are
    `j+1` different edges, each truly within `reported_j` -/
theorem rank_sorted_lower (O : DistOrder I) (A : WorldApprox I err w d)
    {rs : List (Result D)} (hrs : rs = postProcess I k (raw w L [])) (j : Nat) (hj : j < rs.length)
    (hj' : j < (trueSorted I w d).length) :
    I.less rs[j].dist (trueSorted I w d)[j] = false := by
  cases hc : I.less rs[j].dist (trueSorted I w d)[j] with
  | false => rfl
  | true =>
    exfalso
    have T := distOrder_strictTotal O
    let p : D → Bool := fun x => I.less x (trueSorted I w d)[j]
    have hws : (trueSorted I w d).Pairwise (fun a b => I.less b a = false) :=
      sortBy_weakSorted T _
    -- (a) at most `j` true distances are below the `j`-th smallest
    have hdrop : ∀ x ∈ (trueSorted I w d).drop j, p x = false := by
      intro x hx
      obtain ⟨i, hi, rfl⟩ := List.getElem_of_mem hx
      rw [List.getElem_drop]
      show I.less _ _ = false
      rcases Nat.eq_zero_or_pos i with h0 | hpos
      · subst h0; exact O.irrefl _
      · exact (List.pairwise_iff_getElem.1 hws) j (j + i) hj' (by rw [List.length_drop] at hi; omega)
          (by omega)
    have ha : (trueSorted I w d).countP p ≤ j := by
      rw [← List.take_append_drop j (trueSorted I w d), List.countP_append]
      have h1 : ((trueSorted I w d).drop j).countP p = 0 := by
        rw [List.countP_eq_zero]
        intro x hx; rw [hdrop x hx]; simp
      have h2 : ((trueSorted I w d).take j).countP p ≤ ((trueSorted I w d).take j).length :=
        List.countP_le_length
      rw [List.length_take] at h2
      omega
    -- (b) the first `j+1` entries give `j+1` different edges below it
    have hnd : (rs.take (j + 1)).Nodup := by
      rw [hrs]; exact (post_nodup O k _).sublist (List.take_sublist _ _)
    have hsorted : rs.Pairwise (fun a b => Result.less I a b = true) := by
      rw [hrs]; exact post_sorted O k _
    have hkey : ∀ r ∈ rs.take (j + 1), keyOf r ∈ w.allEdges ∧ p (d (keyOf r)) = true ∧
        hitA w L (keyOf r) = some r := by
      intro r hr
      have hr' : r ∈ rs := List.mem_of_mem_take hr
      have hraw : r ∈ raw w L [] := by rw [hrs] at hr'; exact post_mem I k _ r hr'
      rcases mem_raw.1 hraw with h0 | ⟨e, he, hh⟩
      · cases h0
      · obtain ⟨hu, k1, k2⟩ := hitA_some hh
        have hke : keyOf r = e := by cases e; simp only [keyOf, EdgeKey.mk.injEq]; exact ⟨k1, k2⟩
        rw [hke]
        refine ⟨he, ?_, hh⟩
        obtain ⟨_, hge, _⟩ := A.approxEdge e L _ hu
        -- `d e ≤ r.dist ≤ rs[j].dist < true_j`
        obtain ⟨i, hi, rfl⟩ := List.getElem_of_mem hr
        rw [List.length_take] at hi
        rw [List.getElem_take] at hge
        have hle : I.less rs[j].dist rs[i].dist = false := by
          rcases Nat.lt_or_eq_of_le (show i ≤ j by omega) with hlt | heq
          · exact dist_le_of_resultLess O ((List.pairwise_iff_getElem.1 hsorted) i j (by omega) hj hlt)
          · subst heq; exact O.irrefl _
        show I.less (d e) _ = true
        exact ord_lt_of_le_of_lt O (ord_le_trans O hge hle) hc
    have hinj : ((rs.take (j + 1)).map keyOf).Nodup := by
      rw [List.Nodup, List.pairwise_map]
      refine List.Pairwise.imp_of_mem (fun {a b} ha' hb' hne hab => hne ?_) hnd
      have h1 := (hkey a ha').2.2
      have h2 := (hkey b hb').2.2
      rw [hab, h2] at h1
      exact (Option.some.inj h1).symm
    have hsub : (rs.take (j + 1)).map keyOf ⊆ w.allEdges.filter (fun e => p (d e)) := by
      intro e he
      obtain ⟨r, hr, rfl⟩ := List.mem_map.1 he
      exact List.mem_filter.2 ⟨(hkey r hr).1, (hkey r hr).2.1⟩
    have hb := (List.subperm_of_subset hinj hsub).length_le
    rw [List.length_map, List.length_take, ← List.countP_eq_length_filter] at hb
    have h3 : (trueSorted I w d).countP p = w.allEdges.countP (p ∘ d) := by
      unfold trueSorted
      rw [(sortBy_perm I.less _).countP_eq, List.countP_map]
    have h4 : w.allEdges.countP (p ∘ d) = w.allEdges.countP (fun e => p (d e)) := rfl
    omega

end Answer
end ApproxMulti
end S2Proofs.EdgeQuery
