/-
  S2Proofs.EdgeQuery.PointBuilt — `I1Arc` (the I1 part of `IndexOK`) for an index that was BUILT by the modelled
  `ShapeIndex` builder (`S2.IndexBuild.build`), from C06's `build_I1_float` (package c08world2, goal 4).

  `build_I1_float : FaceEdgesOK shapes → I1 shapes MeetsReal` speaks about FACE EDGES (the uv segments produced by
  `ClipToPaddedFace`) and the uv rectangles of index cells.  `I1Arc` speaks about points of the SPHERICAL arc and the exact
  spherical regions `InCellXYZ`.  The two are connected by two facts that belong to C06 and are NOT proved here (they
  are the subject of package c06face, "FaceClipSound proper"); they are stated as explicit hypotheses:

   * `ArcInIndexCell`  every point of the arc of an index edge lies in the exact region of SOME index cell
                        (the index cells cover the edges: the builder only drops cells that no clipped edge reaches);
   * `FaceClipLink`    if a point of the arc of edge `e` lies in the exact region of an index cell `x` on face `f`, then the
                        face edge of `e` on face `f` exists and its exact uv segment meets the uv rectangle of `x` expanded by
                        `cellPadding − 4·dblEpsilon` (`MeetsReal`; the documented `faceClipErrorUVCoord = 9/√2·dblEpsilon`
                        is below that).

  Given both, I1 of the built index gives `I1Arc`.
-/
import S2Proofs.EdgeQuery.PointWorld2Defs
import S2Proofs.Properties.C06_ClipFloat

set_option linter.unusedSimpArgs false
set_option linter.unusedVariables false

namespace S2Proofs.C08World
open S2 S2.CellID S2.PaddedCellM S2.IndexBuild S2.EdgeQueryM S2Proofs.EdgeQuery
open S2Proofs.C17Err S2Proofs.C06Build S2Proofs.C06Clip

/-- the edge key of a listed (shape id, edge id) pair -/
def keyOfPair (p : Nat × Nat) : EdgeKey := ⟨(p.1 : Int), (p.2 : Int)⟩

/-- the index of the search model read off the built index: cell id ↦ listed edges -/
def ixOfBuild (shapes : Array Shape) : Roots.CIndex :=
  (build shapes).map fun x => (x.id, (cellPairs x).map keyOfPair)

variable (shapes : Array Shape) (P : PointIndex)

/-- the search index IS the built index (as far as `lookup` sees it; follows from `P.ix = ixOfBuild shapes` when the cell
    ids of the built index are pairwise different: `lookup_ixOfBuild`) -/
def IxIsBuild : Prop :=
  ∀ x ∈ build shapes, P.ix.lookup x.id = some ((cellPairs x).map keyOfPair)

/-- the index cells cover the arcs of the index edges (C06, not proved here) -/
def ArcInIndexCell : Prop :=
  ∀ e ∈ P.allEdges, ∀ Q : C17Err.R3, OnArc (vecR (P.vert e).1) (vecR (P.vert e).2) Q →
    ∃ x ∈ build shapes, S2Proofs.C12Dist.InCellXYZ (CellM.cellFromCellID x.id) (toAcc Q)

/-- the spherical half of face clipping (C06 / c06face, not proved here) -/
def FaceClipLink : Prop :=
  ∀ e ∈ P.allEdges, ∀ Q : C17Err.R3, OnArc (vecR (P.vert e).1) (vecR (P.vert e).2) Q →
    ∀ x ∈ build shapes, S2Proofs.C12Dist.InCellXYZ (CellM.cellFromCellID x.id) (toAcc Q) →
      ∃ f, f < 6 ∧ lo (fromFace f) ≤ lo x.id ∧ hi x.id ≤ hi (fromFace f) ∧
        ∃ fe ∈ faceEdgesOf (allFaceEdges shapes) f,
          ((fe.shapeID : Int) = e.shape ∧ (fe.edgeID : Int) = e.edge) ∧ MeetsReal fe x.id

variable {shapes P}

/-- **`I1Arc` for a built index**: I1 of the build (`build_I1_float`, hypothesis `FaceEdgesOK` only) + the two geometric
    links -/
theorem i1Arc_of_build (hok : FaceEdgesOK shapes) (hix : IxIsBuild shapes P)
    (hcov : ArcInIndexCell shapes P) (hlink : FaceClipLink shapes P) : I1Arc P := by
  intro e he Q hQ
  obtain ⟨x, hx, hin⟩ := hcov e he Q hQ
  obtain ⟨f, hf, h1, h2, fe, hfe, ⟨hs, hed⟩, hm⟩ := hlink e he Q hQ x hx hin
  have hlisted := build_I1_float shapes hok x hx f hf h1 h2 fe hfe hm
  refine ⟨x.id, (cellPairs x).map keyOfPair, hix x hx, ?_, hin⟩
  refine List.mem_map.2 ⟨(fe.shapeID, fe.edgeID), hlisted, ?_⟩
  unfold keyOfPair
  cases e
  simp only at hs hed
  subst hs; subst hed; rfl

/-- `lookup` in the built index, when the ids are pairwise different -/
theorem lookup_ixOfBuild (hnd : ((build shapes).map (·.id)).Nodup) :
    ∀ x ∈ build shapes, (ixOfBuild shapes).lookup x.id = some ((cellPairs x).map keyOfPair) := by
  unfold ixOfBuild
  generalize build shapes = l at hnd
  induction l with
  | nil => intro x hx; cases hx
  | cons a t ih =>
    intro x hx
    rw [List.map_cons, List.nodup_cons] at hnd
    simp only [List.map_cons, List.lookup_cons]
    rcases List.mem_cons.1 hx with rfl | hx'
    · simp
    · have hne : x.id ≠ a.id := by
        intro h
        exact hnd.1 (h ▸ List.mem_map.2 ⟨x, hx', rfl⟩)
      have : (x.id == a.id) = false := by simpa using hne
      rw [this]
      exact ih hnd.2 x hx'

/-- `IxIsBuild` from `P.ix = ixOfBuild shapes` -/
theorem ixIsBuild_of_eq (h : P.ix = ixOfBuild shapes) (hnd : ((build shapes).map (·.id)).Nodup) :
    IxIsBuild shapes P := by
  intro x hx; rw [h]; exact lookup_ixOfBuild hnd x hx

-- non-vacuity: the empty shape array gives the empty index, for which every hypothesis holds trivially and a
-- non-trivial instance of `I1 … MeetsReal` is `C06Clip`'s `exShapes` (`build_I1_float_checked`)
example : FaceEdgesOK (#[] : Array Shape) := by
  intro f _ fe hfe
  simp [allFaceEdges, faceEdgesOf] at hfe

end S2Proofs.C08World
