/-
  S2Proofs.EdgeQuery.ChordSubCore — the main branch of `ChordAngle.Sub` never exceeds its receiver, for a receiver in
  `(0,4]` and an error `e` with `2^-400 ≤ e < receiver` (package c08world2, goal 2).

  Tools: monotonicity of the correctly rounded operations (`F64Round.IsRound.mono`), "nearest" for the sum, the relative
  lower bound of the float square root (`CapF64.CA.sqrt_nn`), and the gap of the floats below 1 (`no_float_below_one`).
-/
import S2Proofs.EdgeQuery.ChordSub
import S2Proofs.C06Clip.ClipReal

set_option linter.unusedSimpArgs false
set_option linter.unusedVariables false

namespace S2Proofs.C08World
open S2 S2.Exact S2Proofs.F64Order S2Proofs.FloatErr S2Proofs.CapF64 S2Proofs.CapF64.CA

/-! ## monotone rounding, real-valued interface -/

theorem isRound_le {r1 r2 : F64} {Q1 Q2 : ℚ} (h1 : F64Round.IsRound r1 Q1) (h2 : F64Round.IsRound r2 Q2)
    (f1 : Fin r1) (f2 : Fin r2) (h : (Q1 : ℝ) ≤ (Q2 : ℝ)) : val r1 ≤ val r2 := by
  have hq : Q1 ≤ Q2 := by exact_mod_cast h
  exact (le_iff_val f1 f2).mp (F64Round.IsRound.mono h1 h2 hq)

theorem mul_le_float {a b z : F64} (ha : Fin a) (hb : Fin b) (hz : Fin z) (hf : Fin (F64.mul a b))
    (h : val a * val b ≤ val z) : val (F64.mul a b) ≤ val z :=
  isRound_le (F64Round.isRound_mul ha hb) (F64Round.isRound_self hz) hf hz
    (by push_cast; rw [val_cast, val_cast, val_cast]; exact h)

theorem mul_mono_float {a b c d : F64} (ha : Fin a) (hb : Fin b) (hc : Fin c) (hd : Fin d)
    (hf1 : Fin (F64.mul a b)) (hf2 : Fin (F64.mul c d))
    (h : val a * val b ≤ val c * val d) : val (F64.mul a b) ≤ val (F64.mul c d) :=
  isRound_le (F64Round.isRound_mul ha hb) (F64Round.isRound_mul hc hd) hf1 hf2
    (by push_cast; rw [val_cast, val_cast, val_cast, val_cast]; exact h)

theorem sub_le_float {a b z : F64} (ha : Fin a) (hb : Fin b) (hz : Fin z) (hf : Fin (F64.sub a b))
    (h : val a - val b ≤ val z) : val (F64.sub a b) ≤ val z :=
  isRound_le (F64Round.isRound_sub ha hb) (F64Round.isRound_self hz) hf hz
    (by push_cast; rw [val_cast, val_cast, val_cast]; exact h)

theorem float_le_sub {a b z : F64} (ha : Fin a) (hb : Fin b) (hz : Fin z) (hf : Fin (F64.sub a b))
    (h : val z ≤ val a - val b) : val z ≤ val (F64.sub a b) :=
  isRound_le (F64Round.isRound_self hz) (F64Round.isRound_sub ha hb) hz hf
    (by push_cast; rw [val_cast, val_cast, val_cast]; exact h)

theorem sub_mono_float {a b c d : F64} (ha : Fin a) (hb : Fin b) (hc : Fin c) (hd : Fin d)
    (hf1 : Fin (F64.sub a b)) (hf2 : Fin (F64.sub c d))
    (h : val a - val b ≤ val c - val d) : val (F64.sub a b) ≤ val (F64.sub c d) :=
  isRound_le (F64Round.isRound_sub ha hb) (F64Round.isRound_sub hc hd) hf1 hf2
    (by push_cast; rw [val_cast, val_cast, val_cast, val_cast]; exact h)

/-- the sum is a float NEAREST to the exact sum: not farther from it than the float `z` -/
theorem add_nearest_real {a b : F64} (ha : Fin a) (hb : Fin b) (hf : Fin (F64.add a b)) (z : F64) :
    |val (F64.add a b) - (val a + val b)| ≤ |val z - (val a + val b)| := by
  have h := F64Round.add_nearest ha hb hf z
  have h' : ((|F64Round.val (F64.add a b) - (F64Round.val a + F64Round.val b)| : ℚ) : ℝ) ≤
      ((|F64Round.val z - (F64Round.val a + F64Round.val b)| : ℚ) : ℝ) := by exact_mod_cast h
  push_cast at h'
  rw [val_cast, val_cast, val_cast, val_cast] at h'
  exact h'

/-- finiteness of a difference of small floats -/
theorem sub_fin_small {a b : F64} (ha : Fin a) (hb : Fin b) (h : |val a - val b| ≤ 2 ^ 30) : Fin (F64.sub a b) := by
  obtain ⟨_, _, _, hf⟩ := sub_std a b ha hb (lt_big h)
  exact hf

/-! ## there is no float strictly between `1 − 2^-53` and `1` -/

theorem no_float_below_one {q : F64} (hq : Fin q) (h1 : 1 - 1 / 2 ^ 53 < val q) (h2 : val q < 1) : False := by
  have hpos : 0 < val q := by
    have : (1 : ℝ) / 2 ^ 53 < 1 := by norm_num
    linarith
  have hs := signBit_of_pos hpos
  have hv := val_mant q
  rw [hs] at hv
  simp only [sg, Bool.false_eq_true, if_false, one_mul] at hv
  have hm : (q.mant : ℝ) < 2 ^ 53 := by exact_mod_cast mant_lt q
  have hm0 : (0 : ℝ) ≤ q.mant := Nat.cast_nonneg _
  have t54 : tw (-54) = 1 / 2 ^ 54 := by
    rw [show (-54 : ℤ) = -((54 : ℕ) : ℤ) by norm_num, tw_neg, tw_nat]; simp
  have t53 : tw (-53) = 1 / 2 ^ 53 := by
    rw [show (-53 : ℤ) = -((53 : ℕ) : ℤ) by norm_num, tw_neg, tw_nat]; simp
  have he : -53 ≤ q.expo := by
    by_contra hc
    have hc' : q.expo ≤ -54 := by omega
    have ht : tw q.expo ≤ tw (-54) := tw_mono hc'
    rw [t54] at ht
    have : (q.mant : ℝ) * tw q.expo ≤ 2 ^ 53 * (1 / 2 ^ 54) :=
      mul_le_mul (le_of_lt hm) ht (le_of_lt (tw_pos _)) (by positivity)
    have e : (2 : ℝ) ^ 53 * (1 / 2 ^ 54) = 1 / 2 := by norm_num
    have : (1 : ℝ) / 2 ^ 53 < 1 / 2 := by norm_num
    linarith
  obtain ⟨k, hk⟩ : ∃ k : ℕ, q.expo = (k : ℤ) + (-53) := ⟨(q.expo + 53).toNat, by omega⟩
  rw [hk, tw_add, tw_nat, t53] at hv
  have hN : ((q.mant * 2 ^ k : ℕ) : ℝ) = val q * 2 ^ 53 := by
    push_cast; rw [hv]; field_simp
  have hN1 : (((2 ^ 53 - 1 : ℕ)) : ℝ) < ((q.mant * 2 ^ k : ℕ) : ℝ) := by
    rw [hN]
    have : (((2 ^ 53 - 1 : ℕ)) : ℝ) = (1 - 1 / 2 ^ 53) * 2 ^ 53 := by norm_num
    rw [this]
    exact mul_lt_mul_of_pos_right h1 (by positivity)
  have hN2 : ((q.mant * 2 ^ k : ℕ) : ℝ) < ((2 ^ 53 : ℕ) : ℝ) := by
    rw [hN]
    have : (((2 ^ 53 : ℕ)) : ℝ) = 1 * 2 ^ 53 := by norm_num
    rw [this]
    exact mul_lt_mul_of_pos_right h2 (by positivity)
  have a := Nat.cast_lt.mp hN1
  have b := Nat.cast_lt.mp hN2
  omega

/-! ## the real core -/

theorem sq_le_imp {w R : ℝ} (hw0 : 0 ≤ w) (hR0 : 0 ≤ R) (h : w ^ 2 ≤ R ^ 2) : w ≤ R := by
  by_contra hc
  push_neg at hc
  nlinarith [mul_pos (sub_pos.mpr hc) (by linarith : 0 < w + R)]

theorem eR_le_1000 : eR ≤ 1 / 2 ^ 1000 := by
  show (1 : ℝ) / 2 ^ 1075 ≤ 1 / 2 ^ 1000
  exact inv_pow_le (by norm_num)

/-- the main branch in exact arithmetic: `S` the rounded sum, `Pr` the rounded product, `R` its rounded root, `T = fl(2R)` -/
theorem sub_core (X Y S Pr R T : ℝ) (hY0 : 0 ≤ Y) (hYX : Y ≤ X) (hX4 : X ≤ 4) (hYm : Y = 0 ∨ 1 / 2 ^ 460 ≤ Y)
    (hS1 : S ≤ (X + Y) * (1 + uR)) (hS2 : S ≤ X + 2 * Y) (hP : X * Y * (1 - uR) - eR ≤ Pr) (hR0 : 0 ≤ R)
    (hR : Pr * (1 - uR) ^ 3 ≤ R ^ 2) (hT0 : 0 ≤ T) (hT : 2 * R * (1 - uR) - eR ≤ T) : S - T ≤ X := by
  rcases hYm with h0 | hm
  · subst h0; linarith
  · have hε0 := eR_nonneg
    have hu0 := uR_nonneg
    have hρ := rho_nonneg
    have hYY : (1 : ℝ) / 2 ^ 920 ≤ Y * Y := by
      rw [show (920 : ℕ) = 460 + 460 from rfl, inv_pow_split]
      exact mul_le_mul hm hm (by positivity) hY0
    have hε : eR ≤ Y * Y * (1 / 2 ^ 80) := by
      have h1 := eR_le_1000
      rw [show (1000 : ℕ) = 920 + 80 from rfl, inv_pow_split] at h1
      have : (1 : ℝ) / 2 ^ 920 * (1 / 2 ^ 80) ≤ Y * Y * (1 / 2 ^ 80) :=
        mul_le_mul_of_nonneg_right hYY (by positivity)
      linarith
    have hXY : Y * Y ≤ X * Y := mul_le_mul_of_nonneg_right hYX hY0
    have hXY0 : 0 ≤ X * Y := le_trans (mul_self_nonneg Y) hXY
    have hεY : eR ≤ Y * (1 / 2 ^ 78) := by
      have h4 : Y * Y ≤ 4 * Y := mul_le_mul_of_nonneg_right (by linarith) hY0
      have : Y * Y * (1 / 2 ^ 80) ≤ 4 * Y * (1 / 2 ^ 80) := mul_le_mul_of_nonneg_right h4 (by positivity)
      have e : 4 * Y * (1 / 2 ^ 80) = Y * (1 / 2 ^ 78) := by ring
      linarith
    have hκ : (1 - 1 / 2 ^ 50 : ℝ) ≤ (1 - uR - 1 / 2 ^ 80) * (1 - uR) ^ 3 := by unfold uR; norm_num
    have hR2 : X * Y * (1 - 1 / 2 ^ 50) ≤ R ^ 2 := by
      have hP' : X * Y * (1 - uR - 1 / 2 ^ 80) ≤ Pr := by
        have : eR ≤ X * Y * (1 / 2 ^ 80) := le_trans hε (mul_le_mul_of_nonneg_right hXY (by positivity))
        have e : X * Y * (1 - uR - 1 / 2 ^ 80) = X * Y * (1 - uR) - X * Y * (1 / 2 ^ 80) := by ring
        linarith
      calc X * Y * (1 - 1 / 2 ^ 50) ≤ X * Y * ((1 - uR - 1 / 2 ^ 80) * (1 - uR) ^ 3) :=
            mul_le_mul_of_nonneg_left hκ hXY0
        _ = X * Y * (1 - uR - 1 / 2 ^ 80) * (1 - uR) ^ 3 := by ring
        _ ≤ Pr * (1 - uR) ^ 3 := mul_le_mul_of_nonneg_right hP' (pow_nonneg hρ 3)
        _ ≤ R ^ 2 := hR
    by_cases h2 : 2 * Y ≤ X
    · have hnum : ((1 : ℝ) + 4 * uR) ^ 2 ≤ 2 * (1 - 1 / 2 ^ 50) := by unfold uR; norm_num
      have hw : (Y * (1 + 4 * uR)) ^ 2 ≤ R ^ 2 := by
        calc (Y * (1 + 4 * uR)) ^ 2 = Y * Y * (1 + 4 * uR) ^ 2 := by ring
          _ ≤ Y * Y * (2 * (1 - 1 / 2 ^ 50)) := mul_le_mul_of_nonneg_left hnum (mul_self_nonneg Y)
          _ = (2 * Y) * Y * (1 - 1 / 2 ^ 50) := by ring
          _ ≤ X * Y * (1 - 1 / 2 ^ 50) :=
              mul_le_mul_of_nonneg_right (mul_le_mul_of_nonneg_right h2 hY0) (by norm_num)
          _ ≤ R ^ 2 := hR2
      have hRw : Y * (1 + 4 * uR) ≤ R := sq_le_imp (mul_nonneg hY0 (by linarith)) hR0 hw
      have h1 : 2 * (Y * (1 + 4 * uR)) * (1 - uR) ≤ 2 * R * (1 - uR) :=
        mul_le_mul_of_nonneg_right (by linarith) hρ
      have h2' : 2 * Y + 4 * uR * Y ≤ 2 * (Y * (1 + 4 * uR)) * (1 - uR) := by
        have e : 2 * (Y * (1 + 4 * uR)) * (1 - uR) = 2 * Y + 4 * uR * Y + 2 * Y * uR * (1 - 4 * uR) := by ring
        have : 0 ≤ 2 * Y * uR * (1 - 4 * uR) :=
          mul_nonneg (mul_nonneg (by linarith) hu0) (by unfold uR; norm_num)
        linarith
      have h3 : eR ≤ 4 * uR * Y := by
        have : Y * (1 / 2 ^ 78) ≤ Y * (4 * uR) := mul_le_mul_of_nonneg_left (by unfold uR; norm_num) hY0
        have e : Y * (4 * uR) = 4 * uR * Y := by ring
        linarith
      linarith
    · push_neg at h2
      have hw : (Y * (1 - 1 / 2 ^ 50)) ^ 2 ≤ R ^ 2 := by
        calc (Y * (1 - 1 / 2 ^ 50)) ^ 2 = Y * Y * ((1 - 1 / 2 ^ 50) * (1 - 1 / 2 ^ 50)) := by ring
          _ ≤ Y * Y * (1 - 1 / 2 ^ 50) := mul_le_mul_of_nonneg_left (by norm_num) (mul_self_nonneg Y)
          _ ≤ X * Y * (1 - 1 / 2 ^ 50) := mul_le_mul_of_nonneg_right hXY (by norm_num)
          _ ≤ R ^ 2 := hR2
      have hRw : Y * (1 - 1 / 2 ^ 50) ≤ R := sq_le_imp (mul_nonneg hY0 (by norm_num)) hR0 hw
      have h1 : 2 * (Y * (1 - 1 / 2 ^ 50)) * (1 - uR) ≤ 2 * R * (1 - uR) :=
        mul_le_mul_of_nonneg_right (by linarith) hρ
      have h3 : uR * X ≤ 2 * uR * Y := by
        have : uR * X ≤ uR * (2 * Y) := mul_le_mul_of_nonneg_left (le_of_lt h2) hu0
        have e : uR * (2 * Y) = 2 * uR * Y := by ring
        linarith
      have h4 : Y * (1 + 3 * uR + 1 / 2 ^ 78) ≤ Y * (2 * (1 - 1 / 2 ^ 50) * (1 - uR)) :=
        mul_le_mul_of_nonneg_left (by unfold uR; norm_num) hY0
      have e1 : (X + Y) * (1 + uR) = X + Y + uR * X + uR * Y := by ring
      have e2 : Y * (1 + 3 * uR + 1 / 2 ^ 78) = Y + 3 * (uR * Y) + Y * (1 / 2 ^ 78) := by ring
      have e3 : Y * (2 * (1 - 1 / 2 ^ 50) * (1 - uR)) = 2 * (Y * (1 - 1 / 2 ^ 50)) * (1 - uR) := by ring
      have e4 : 2 * uR * Y = 2 * (uR * Y) := by ring
      rw [e1] at hS1
      rw [e2, e3] at h4
      rw [e4] at h3
      linarith

/-! ## the float assembly -/

theorem mul_nn' {a b : F64} (ha : Fin a) (hb : Fin b) (ha0 : 0 ≤ val a) (hb0 : 0 ≤ val b)
    (hM : val a * val b ≤ 2 ^ 999) :
    Fin (F64.mul a b) ∧ 0 ≤ val (F64.mul a b) ∧ val a * val b * (1 - uR) - eR ≤ val (F64.mul a b) ∧
      val (F64.mul a b) ≤ val a * val b * (1 + uR) + eR := mul_nn ha hb ha0 hb0 hM

theorem add_nn' {a b : F64} (ha : Fin a) (hb : Fin b) (ha0 : 0 ≤ val a) (hb0 : 0 ≤ val b)
    (hM : val a + val b ≤ 2 ^ 999) :
    Fin (F64.add a b) ∧ 0 ≤ val (F64.add a b) ∧ (val a + val b) * (1 - uR) ≤ val (F64.add a b) ∧
      val (F64.add a b) ≤ (val a + val b) * (1 + uR) := add_nn ha hb ha0 hb0 hM

theorem p53_facts : Fin (⟨0x3CA0000000000000⟩ : F64) ∧ val (⟨0x3CA0000000000000⟩ : F64) = 1 / 2 ^ 53 := by
  have h : Fin (⟨0x3CA0000000000000⟩ : F64) ∧ toInt (⟨0x3CA0000000000000⟩ : F64) = 2 ^ 1021 := by decide +kernel
  refine ⟨h.1, ?_⟩
  unfold val; rw [h.2]; push_cast
  rw [show (1074 : ℕ) = 1021 + 53 from rfl, pow_add]; field_simp

/-- the main branch of `ChordAngle.Sub` with every intermediate float named -/
theorem sub_main (c o qo qc te tx X Y S Pr R T D : F64)
    (hqo : qo = F64.mul Chord.fQuarter o) (hqc : qc = F64.mul Chord.fQuarter c)
    (hte : te = F64.sub F64.one qo) (htx : tx = F64.sub F64.one qc)
    (hX : X = F64.mul c te) (hY : Y = F64.mul o tx) (hS : S = F64.add X Y) (hPr : Pr = F64.mul X Y)
    (hR : R = F64.sqrt Pr) (hT : T = F64.mul F64.two R) (hD : D = F64.sub S T)
    (hc : Fin c) (ho : Fin o) (hc4 : val c ≤ 4) (heo : 1 / 2 ^ 400 ≤ val o) (hlt : val o < val c) :
    Fin D ∧ val D ≤ val c := by
  have e0 : 0 < val o := lt_of_lt_of_le (by positivity) heo
  have x0 : 0 ≤ val c := by linarith
  obtain ⟨fq, vq⟩ := val_quarter
  obtain ⟨f1, v1⟩ := val_one
  obtain ⟨f2, v2⟩ := val_two
  obtain ⟨fz, vz⟩ := czero_facts
  obtain ⟨fp, vp⟩ := p53_facts
  have h30 : (1 : ℝ) ≤ 2 ^ 30 := by norm_num
  have hu0 := uR_nonneg
  have hu1 := uR_le_one
  have hε0 := eR_nonneg
  have hε1 := eR_le_one
  -- the quarters
  obtain ⟨fqo, qo0, -, -⟩ : Fin qo ∧ 0 ≤ val qo ∧ _ ∧ _ := by
    rw [hqo]; exact mul_nn' fq ho (by rw [vq]; norm_num) (le_of_lt e0) (small_big (by rw [vq]; linarith))
  obtain ⟨fqc, qc0, -, -⟩ : Fin qc ∧ 0 ≤ val qc ∧ _ ∧ _ := by
    rw [hqc]; exact mul_nn' fq hc (by rw [vq]; norm_num) x0 (small_big (by rw [vq]; linarith))
  have qc1 : val qc ≤ 1 := by
    have := mul_le_float fq hc f1 (by rw [← hqc]; exact fqc) (by rw [vq, v1]; linarith)
    rw [v1, ← hqc] at this; exact this
  have qoqc : val qo ≤ val qc := by
    have := mul_mono_float fq ho fq hc (by rw [← hqo]; exact fqo) (by rw [← hqc]; exact fqc) (by rw [vq]; linarith)
    rw [← hqo, ← hqc] at this; exact this
  -- the factors
  have fte' : Fin (F64.sub F64.one qo) :=
    sub_fin_small f1 fqo (by rw [v1]; exact abs_le.mpr ⟨by linarith, by linarith⟩)
  have ftx' : Fin (F64.sub F64.one qc) :=
    sub_fin_small f1 fqc (by rw [v1]; exact abs_le.mpr ⟨by linarith, by linarith⟩)
  have fte : Fin te := by rw [hte]; exact fte'
  have ftx : Fin tx := by rw [htx]; exact ftx'
  have tx0 : 0 ≤ val tx := by
    have := float_le_sub f1 fqc fz ftx' (by rw [vz, v1]; linarith)
    rw [vz, ← htx] at this; exact this
  have txte : val tx ≤ val te := by
    have := sub_mono_float f1 fqc f1 fqo ftx' fte' (by linarith)
    rw [← htx, ← hte] at this; exact this
  have te1 : val te ≤ 1 := by
    have := sub_le_float f1 fqo f1 fte' (by rw [v1]; linarith)
    rw [v1, ← hte] at this; exact this
  have te0 : 0 ≤ val te := le_trans tx0 txte
  -- X, Y
  have hcte : val c * val te ≤ val c := mul_le_of_le_one_right x0 te1
  obtain ⟨fX', X0', -, -⟩ := mul_nn' hc fte x0 te0 (small_big (by linarith))
  have fX : Fin X := by rw [hX]; exact fX'
  have X0 : 0 ≤ val X := by rw [hX]; exact X0'
  have Xx : val X ≤ val c := by rw [hX]; exact mul_le_float hc fte hc fX' hcte
  have hotx : val o * val tx ≤ val c * val te := mul_le_mul (le_of_lt hlt) txte tx0 x0
  obtain ⟨fY', Y0', Ylow', -⟩ := mul_nn' ho ftx (le_of_lt e0) tx0 (small_big (by linarith))
  have fY : Fin Y := by rw [hY]; exact fY'
  have Y0 : 0 ≤ val Y := by rw [hY]; exact Y0'
  have YX : val Y ≤ val X := by rw [hY, hX]; exact mul_mono_float ho ftx hc fte fY' fX' hotx
  -- the gap below 1
  have hG : val tx = 0 ∨ 1 / 2 ^ 53 ≤ val tx := by
    by_cases hg : 1 / 2 ^ 53 ≤ 1 - val qc
    · right
      have := float_le_sub f1 fqc fp ftx' (by rw [vp, v1]; exact hg)
      rw [vp, ← htx] at this; exact this
    · left
      have hg' : 1 - val qc < 1 / 2 ^ 53 := not_le.mp hg
      have hq1 : val qc = 1 := by
        by_contra hne
        exact no_float_below_one fqc (by linarith) (lt_of_le_of_ne qc1 hne)
      have := sub_le_float f1 fqc fz ftx' (by rw [v1, vz, hq1]; norm_num)
      rw [vz, ← htx] at this
      exact le_antisymm this tx0
  have hYm : val Y = 0 ∨ 1 / 2 ^ 460 ≤ val Y := by
    rcases hG with h | h
    · left
      have := mul_le_float ho ftx fz fY' (by rw [h, vz]; simp)
      rw [vz, ← hY] at this
      exact le_antisymm this Y0
    · right
      have h1 : (1 : ℝ) / 2 ^ 453 ≤ val o * val tx := by
        rw [show (453 : ℕ) = 400 + 53 from rfl, inv_pow_split]
        exact mul_le_mul heo h (by positivity) (le_of_lt e0)
      have h2 : (1 : ℝ) / 2 ^ 453 * (1 - uR) ≤ val o * val tx * (1 - uR) := mul_le_mul_of_nonneg_right h1 rho_nonneg
      have h3 : (1 : ℝ) / 2 ^ 454 ≤ 1 / 2 ^ 453 * (1 - uR) := by
        rw [show (454 : ℕ) = 453 + 1 from rfl, inv_pow_split]
        exact mul_le_mul_of_nonneg_left (by unfold uR; norm_num) (by positivity)
      have h4 : eR ≤ 1 / 2 ^ 460 := le_trans eR_le_1000 (inv_pow_le (by norm_num))
      have h5 : (1 : ℝ) / 2 ^ 454 = 64 * (1 / 2 ^ 460) := by
        rw [show (460 : ℕ) = 454 + 6 from rfl, inv_pow_split]; ring
      have h6 : (0 : ℝ) ≤ 1 / 2 ^ 460 := by positivity
      rw [hY]; linarith
  -- sum, product, root, double
  obtain ⟨fS', S0', -, Sup'⟩ := add_nn' fX fY X0 Y0 (small_big (by linarith))
  have fS : Fin S := by rw [hS]; exact fS'
  have S0 : 0 ≤ val S := by rw [hS]; exact S0'
  have Sup : val S ≤ (val X + val Y) * (1 + uR) := by rw [hS]; exact Sup'
  have Snear : val S ≤ val X + 2 * val Y := by
    have := add_nearest_real fX fY fS' X
    have e : val X - (val X + val Y) = -val Y := by ring
    rw [e, abs_neg, abs_of_nonneg Y0, ← hS] at this
    have := (abs_le.mp this).2
    linarith
  have hXY16 : val X * val Y ≤ 16 := by
    have : val X * val Y ≤ 4 * 4 := mul_le_mul (by linarith) (by linarith) Y0 (by norm_num)
    linarith
  obtain ⟨fP', P0', Plow', -⟩ := mul_nn' fX fY X0 Y0 (small_big (by linarith))
  have fP : Fin Pr := by rw [hPr]; exact fP'
  have P0 : 0 ≤ val Pr := by rw [hPr]; exact P0'
  have Plow : val X * val Y * (1 - uR) - eR ≤ val Pr := by rw [hPr]; exact Plow'
  obtain ⟨fR', R0', R515', Rlow'⟩ := sqrt_nn fP P0
  have fR : Fin R := by rw [hR]; exact fR'
  have R0 : 0 ≤ val R := by rw [hR]; exact R0'
  have R515 : val R ≤ 2 ^ 515 := by rw [hR]; exact R515'
  have Rlow : val Pr * (1 - uR) ^ 3 ≤ val R ^ 2 := by rw [hR]; exact Rlow'
  have hb515 := big_515
  have hbig := big_le
  have h2R : val F64.two * val R ≤ 2 ^ 999 := by
    rw [v2]
    exact le_trans (le_trans (mul_le_mul_of_nonneg_left R515 (by norm_num))
      (mul_le_mul_of_nonneg_right (by norm_num : (2 : ℝ) ≤ 64) (by positivity))) big_le
  obtain ⟨fT', T0', Tlow', Tup'⟩ := mul_nn' f2 fR (by rw [v2]; norm_num) R0 h2R
  have fT : Fin T := by rw [hT]; exact fT'
  have T0 : 0 ≤ val T := by rw [hT]; exact T0'
  have Tlow : 2 * val R * (1 - uR) - eR ≤ val T := by rw [hT]; rw [v2] at Tlow'; exact Tlow'
  have Tup : val T ≤ 2 * val R * (1 + uR) + eR := by rw [hT]; rw [v2] at Tup'; exact Tup'
  -- the difference
  have hcore : val S - val T ≤ val X :=
    sub_core (val X) (val Y) (val S) (val Pr) (val R) (val T) Y0 YX (by linarith) hYm Sup Snear Plow R0 Rlow T0 Tlow
  have hSle : val S ≤ 16 := by
    have : (val X + val Y) * (1 + uR) ≤ 8 * 2 := mul_le_mul (by linarith) (by linarith) (by linarith) (by norm_num)
    linarith
  have hTle : val T ≤ 4 * 2 ^ 515 + 1 := by
    have : 2 * val R * (1 + uR) ≤ (2 * 2 ^ 515) * 2 := mul_le_mul (by linarith) (by linarith) (by linarith) (by positivity)
    linarith
  have hbound : |val S - val T| < 2 ^ 1000 := by
    have hlt' : (2 : ℝ) ^ 999 < 2 ^ 1000 := pow_lt_pow_right₀ (by norm_num) (by norm_num)
    have key : ∀ A : ℝ, 1 ≤ A → 4 * A + 1 ≤ 64 * A := fun A h => by linarith
    have hT999 : val T ≤ 2 ^ 999 := le_trans hTle (le_trans (key _ big_515) big_le)
    have hT1000 : val T < 2 ^ 1000 := lt_of_le_of_lt hT999 hlt'
    have h16 : (16 : ℝ) < 2 ^ 1000 := lt_of_le_of_lt (small_big (by norm_num)) hlt'
    generalize (2 : ℝ) ^ 1000 = C at hT1000 h16 ⊢
    rw [abs_lt]; constructor <;> linarith
  obtain ⟨_, _, _, fD'⟩ := sub_std S T fS fT hbound
  have fD : Fin D := by rw [hD]; exact fD'
  refine ⟨fD, ?_⟩
  rw [hD]
  exact sub_le_float fS fT hc fD' (by linarith)

/-! ## the law for every finite permitted error `≥ 2^-400` -/

open S2.Generated.DistTargetFns in
/-- **`x ⊖ e ≤ x` for every finite receiver in `[0,4]` and every finite permitted error `e ≥ 2^-400`**
    (squared chord length `2^-400` ↔ an angle of `2^-200` rad; below that `ChordAngle.Sub` can EXCEED its receiver by
    underflow of `x*y`, see the counterexamples in `ChordSub.lean`) -/
theorem chordSubLe_of_ge (e : Chord) (hf : Fin e.1) (he : 1 / 2 ^ 400 ≤ val e.1) : ChordSubLe e := by
  intro x hx hx4
  have e0 : 0 < val e.1 := lt_of_lt_of_le (by positivity) he
  obtain ⟨fz, vz⟩ := czero_facts
  have hne : F64.feq e.1 (⟨0x0000000000000000⟩ : F64) = false := by
    cases h : F64.feq e.1 (⟨0x0000000000000000⟩ : F64) with
    | false => rfl
    | true =>
      have := (feq_iff_val hf fz).mp h
      rw [vz] at this; linarith
  by_cases hle : F64.le x.1 e.1 = true
  · rw [csub_of_le hx hne hle]; exact cless_czero x
  · have hlt : val e.1 < val x.1 := by
      by_contra h; exact hle ((S2Proofs.C17Err.le_val hx hf).mpr (not_lt.mp h))
    have hr : ∃ D, ChordAngle_Sub x.1 e.1 = F64.fmax czero.1 D ∧ Fin D ∧ val D ≤ val x.1 := by
      refine ⟨_, ?_, sub_main x.1 e.1 _ _ _ _ _ _ _ _ _ _ _ rfl rfl rfl rfl rfl rfl rfl rfl rfl rfl rfl hx hf hx4 he hlt⟩
      unfold ChordAngle_Sub
      rw [if_neg (by rw [hne]; simp), if_neg hle]
      rfl
    obtain ⟨D, hD, fD, vD⟩ := hr
    obtain ⟨fm, vm⟩ := S2Proofs.C06Clip.rv_fmax fz fD
    have vm' : val (F64.fmax czero.1 D) = max (val czero.1) (val D) := vm
    obtain ⟨cf, cv⟩ := canon_fin fm
    unfold csub
    rw [if_neg (fin_ne_inf hx), hD]
    show F64.lt x.1 (canon (F64.fmax czero.1 D)).1 = false
    cases h : F64.lt x.1 (canon (F64.fmax czero.1 D)).1 with
    | false => rfl
    | true =>
      exfalso
      have := (S2Proofs.C17Err.lt_val hx cf).mp h
      rw [cv, vm', vz] at this
      have x0 : 0 ≤ val x.1 := by linarith
      have : max (max 0 (val D)) 0 ≤ val x.1 := max_le (max_le x0 vD) x0
      linarith

/-- the permitted errors for which the law is proved: `0`, `+Inf`, or a finite value `≥ 2^-400` -/
def SubDom (e : Chord) : Prop := e = czero ∨ e.1 = posInf ∨ (Fin e.1 ∧ (1 : ℝ) / 2 ^ 400 ≤ val e.1)

theorem chordSubLe_of_subDom {e : Chord} (h : SubDom e) : ChordSubLe e := by
  rcases h with rfl | hi | ⟨hf, he⟩
  · exact chordSubLe_zero
  · have : e = cinf := Subtype.ext hi
    subst this; exact chordSubLe_inf
  · exact chordSubLe_of_ge e hf he

-- non-vacuity: MaxError = 1.0 (squared chord; an angle of 60°) and a MaxError of 1e-6 rad (chord² = 1e-12) are in `SubDom`
example : SubDom (⟨⟨0x3FF0000000000000⟩, by decide⟩ : Chord) := by
  right; right
  have h : Fin (⟨0x3FF0000000000000⟩ : F64) ∧ toInt (⟨0x3FF0000000000000⟩ : F64) = 2 ^ 1074 := by decide +kernel
  refine ⟨h.1, ?_⟩
  have hv : val (⟨0x3FF0000000000000⟩ : F64) = 1 := by unfold val; rw [h.2]; push_cast; field_simp
  show (1 : ℝ) / 2 ^ 400 ≤ val (⟨0x3FF0000000000000⟩ : F64)
  rw [hv]
  have : (1 : ℝ) / 2 ^ 400 ≤ 1 / 2 ^ 0 := inv_pow_le (by norm_num)
  simpa using this

end S2Proofs.C08World
