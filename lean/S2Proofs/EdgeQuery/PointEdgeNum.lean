/-
  S2Proofs.EdgeQuery.PointEdgeNum — the numeric contract of `MinDistanceToPointTarget.updateDistanceToEdge`
  = `UpdateMinDistance(x, a, b, lim)` (`alwaysUpdate = false`, the limit-dependent early exits included)
  against the TRUE squared chord distance from the direction of `x` to the arc `ab` (package c08world).
-/
import S2Proofs.Properties.C17_Error

set_option linter.unusedSimpArgs false
set_option linter.unusedVariables false

namespace S2Proofs.C08World
open S2 S2.Exact S2.EdgeNum S2Proofs.F64Order S2Proofs.EdgeNumLemmas S2Proofs.FloatErr S2Proofs.C17Err S2Proofs.C17

/-! ### the structure of the model -/

/-- the early-exit test of `interiorDist` (`alwaysUpdate = false`) -/
def earlyExit (x a b : V3) (lim : F64) : Bool :=
  F64.gt (x.dot (pointCross a b) * x.dot (pointCross a b)) ((pointCross a b).norm2 * lim)

/-- the float wedge test fails -/
def wedgeFail (x a b : V3) : Bool := F64.ge (wedgeA x a b) fz || F64.le (wedgeB x a b) fz

theorem interiorDist_false_eq (x a b : V3) (lim : F64) :
    interiorDist x a b lim false =
      if prefilterRejects x a b = true then (lim, false) else
      if earlyExit x a b lim = true then (lim, false) else
      if wedgeFail x a b = true then (lim, false) else
      if F64.ge (interiorVal x a b) lim = true then (lim, false) else (interiorVal x a b, true) := by
  unfold interiorDist prefilterRejects earlyExit wedgeFail wedgeA wedgeB interiorVal
  simp only [Bool.not_false, Bool.true_and]

theorem updateMin_eq (x a b : V3) (lim : F64) :
    updateMinDistancePub x a b lim =
      if (interiorDist x a b lim false).2 = true then ((interiorDist x a b lim false).1, true) else
      if F64.ge (vertexDist x a b) lim = true then (lim, false) else (vertexDist x a b, true) := by
  unfold updateMinDistancePub updateMinDistance vertexDist
  simp only [Bool.not_false, Bool.true_and]

/-! ### comparisons with `+Inf`, signs -/

theorem gt_inf_false {x : F64} (hx : Fin x) : F64.gt x (F64.inf false) = false := by
  cases h : F64.gt x (F64.inf false)
  · rfl
  · exfalso
    unfold F64.gt at h
    rw [F64Round.lt_iff_ext (F64Round.inf_isNaN false) (isNaN_false hx), F64Round.ext_inf,
      F64Round.ext_finite hx] at h
    have := (F64Round.toInt_bounds x hx).2
    simp only [Bool.false_eq_true, if_false] at h
    omega

theorem ge_inf_false {x : F64} (hx : Fin x) : F64.ge x (F64.inf false) = false := by
  cases h : F64.ge x (F64.inf false)
  · rfl
  · exfalso
    unfold F64.ge at h
    rw [F64Round.le_iff_ext (F64Round.inf_isNaN false) (isNaN_false hx), F64Round.ext_inf,
      F64Round.ext_finite hx] at h
    have := (F64Round.toInt_bounds x hx).2
    simp only [Bool.false_eq_true, if_false] at h
    omega

theorem lt_inf_true {x : F64} (hx : Fin x) : F64.lt x (F64.inf false) = true := by
  rw [F64Round.lt_iff_ext (isNaN_false hx) (F64Round.inf_isNaN false), F64Round.ext_inf,
      F64Round.ext_finite hx]
  have := (F64Round.toInt_bounds x hx).2
  simp only [Bool.false_eq_true, if_false]
  exact this

theorem signBit_false_of_pos {x : F64} (hpos : 0 < val x) : x.signBit = false := by
  cases h : x.signBit
  · rfl
  · rw [val_mant, h] at hpos
    have : (0 : ℝ) ≤ (x.mant : ℝ) * tw x.expo := mul_nonneg (by positivity) (tw_pos _).le
    unfold sg at hpos
    simp only [if_true] at hpos
    linarith

theorem mul_inf {c : F64} (hc : Fin c) (hpos : 0 < val c) : c * F64.inf false = F64.inf false := by
  have hz : c.isZero = false := isZero_false_of_val_ne hpos.ne'
  have hs := signBit_false_of_pos hpos
  have hiz : (F64.inf false).isZero = false := by decide
  show F64.mul c (F64.inf false) = F64.inf false
  unfold F64.mul
  simp only [isNaN_false hc, F64Round.inf_isNaN, isInf_false hc, F64Round.inf_isInf, hz, hiz, hs,
    F64Round.inf_signBit, Bool.or_self, Bool.false_or, Bool.false_eq_true, if_false, if_true, bne_self_eq_false]

/-- `x > p` and `q ≤ p` (float comparisons, `p` possibly `+Inf`) for finite `x`, `q` -/
theorem gt_of_le_of_gt {x q p : F64} (hx : Fin x) (hq : Fin q) (hle : F64.le q p = true)
    (hgt : F64.gt x p = true) : val q < val x := by
  have hpn : p.isNaN = false := by
    cases h : p.isNaN
    · rfl
    · rw [F64Round.le_nan_right q p h] at hle; cases hle
  unfold F64.gt at hgt
  rw [F64Round.lt_iff_ext hpn (isNaN_false hx), F64Round.ext_finite hx] at hgt
  rw [F64Round.le_iff_ext (isNaN_false hq) hpn, F64Round.ext_finite hq] at hle
  rw [FloatErr.val_lt_iff]
  omega

/-- a float product that is finite comes from finite factors (self-product form) -/
theorem fin_of_mul_self_fin {x : F64} (h : Fin (x * x)) : Fin x := by
  by_contra hx
  unfold F64Order.Fin at hx
  have he : x.expField = 2047 := not_not.mp hx
  apply h
  show (F64.mul x x).expField = 2047
  unfold F64.mul
  by_cases hn : x.isNaN = true
  · simp only [hn, Bool.or_self, if_true]; decide
  · have hn' : x.isNaN = false := by cases hh : x.isNaN <;> simp_all
    have hi : x.isInf = true := by
      unfold F64.isNaN at hn'
      unfold F64.isInf
      simp [he] at hn' ⊢
      exact hn'
    have hz : x.isZero = false := by unfold F64.isZero; simp [he]
    simp only [hn', hi, hz, Bool.or_self, Bool.false_eq_true, if_false, if_true]
    rw [F64Round.inf_expField]

/-! ### the interior value is never negative -/

theorem ratVal_nonneg {x : F64} (h : 0 ≤ val x) : (0 : ℚ) ≤ F64Round.val x := by
  have h1 : (0 : ℝ) ≤ ((F64Round.val x : ℚ) : ℝ) := by rw [← val_cast]; exact h
  exact_mod_cast h1

/-- division in standard-model form when the quotient is known to be finite -/
theorem div_step_fin {x y : F64} (hx : Fin x) (hy : Fin y) (hy0 : val y ≠ 0) (hfin : Fin (x / y)) :
    Rnd uR eR (val x / val y) (val (x / y)) := by
  have hz : y.isZero = false := isZero_false_of_val_ne hy0
  have hR := F64Round.isRound_div hx hy hz
  set Q : ℚ := F64Round.val x / F64Round.val y with hQ
  have hQr : ((Q : ℚ) : ℝ) = val x / val y := by
    rw [hQ]; push_cast; rw [← val_cast, ← val_cast]
  have hfin' : Fin (F64.div x y) := hfin
  have herrQ : |F64Round.val (F64.div x y) - Q| ≤ |Q| / 2 ^ 53 + 1 / 2 ^ 1075 := by
    rcases lt_or_ge |Q| (1 / 2 ^ 1021) with h | h
    · have h1 := hR.abs_err h
      have h2 : (0 : ℚ) ≤ |Q| / 2 ^ 53 := by positivity
      exact le_trans h1 (le_add_of_nonneg_left h2)
    · have h2 : (1 : ℚ) / 2 ^ 1022 ≤ |Q| :=
        le_trans (one_div_le_one_div_of_le (by positivity) (pow_le_pow_right₀ (by norm_num) (by norm_num))) h
      have h3 := hR.rel_err hfin' h2
      have h4 : (0 : ℚ) ≤ 1 / 2 ^ 1075 := by positivity
      exact le_trans h3 (le_add_of_nonneg_right h4)
  have hR' : ((|F64Round.val (F64.div x y) - Q| : ℚ) : ℝ) ≤ ((|Q| / 2 ^ 53 + 1 / 2 ^ 1075 : ℚ) : ℝ) :=
    Rat.cast_le.mpr herrQ
  rw [Rat.cast_abs] at hR'
  push_cast at hR'
  rw [← val_cast, hQr] at hR'
  show |val (F64.div x y) - val x / val y| ≤ uR * |val x / val y| + eR
  have e : uR * |val x / val y| = |val x / val y| / 2 ^ 53 := by unfold uR; ring
  rw [e]
  unfold eR
  exact hR'

theorem edge_LC {a b : V3} (hE : EdgeOK a b) : 1 / 2 ^ 34 ≤ (vC a b).len := by
  unfold EdgeOK at hE
  unfold R3.len
  apply Real.le_sqrt_of_sq_le
  have e : ((1 : ℝ) / 2 ^ 34) ^ 2 = 1 / 2 ^ 68 := by rw [div_pow, one_pow, ← pow_mul]
  rw [e]; exact hE

theorem interiorVal_nonneg (x a b : V3) (hx : UnitPt x) (ha : UnitPt a) (hb : UnitPt b) (hE : EdgeOK a b) :
    0 ≤ val (interiorVal x a b) := by
  have hδ1 : delta0 ≤ 1 := le_trans delta0_le (by norm_num)
  obtain ⟨hlxd, hlx0, hlx⟩ := unit_len delta0_nonneg (le_refl _) hx
  obtain ⟨fc, mc, hvec⟩ := pcRaw_spec delta0_nonneg (le_refl _) ha hb hE
  have hpc := pointCross_eq delta0_nonneg (le_refl _) ha hb hE
  have hLC := edge_LC hE
  have hLC3 := vC_len_le delta0_nonneg (le_refl _) ha hb
  have hXlen : 0 < (vecR x).len := by rw [vecR_len]; exact hlx0
  obtain ⟨hLc, hLc3, _⟩ := dir_theta hLC hLC3 hXlen hvec
  have mx := hx.coord2 delta0_nonneg hδ1
  obtain ⟨fT1, _⟩ := t1_chain x (pcRaw a b) hx.1 mx hlx0 hlx fc mc hLc
  obtain ⟨fT2, _⟩ := t2_chain x (pcRaw a b) hx.1 mx hlx0 hlx fc mc hLc hLc3
  obtain ⟨fd, bd, _⟩ := dot_chain x (pcRaw a b) hx.1 fc mx mc
  have mxd : |val (x.dot (pcRaw a b)) * val (x.dot (pcRaw a b))| ≤ 45369 := by
    have := abs_mul_le_of bd bd; linarith
  obtain ⟨fxd2, _, _⟩ := mul_step stdModel fd fd mxd (by norm_num)
  obtain ⟨fc2, c2pos, _, _⟩ := c2_chain (pcRaw a b) fc mc hLc
  obtain ⟨fsum, _⟩ := interior_value delta0_nonneg (le_refl _) hx ha hb hE
  have hval : interiorVal x a b = (x.dot (pcRaw a b) * x.dot (pcRaw a b)) / (pcRaw a b).norm2
      + (f1 - F64.sqrt (((pcRaw a b).cross x).norm2 / (pcRaw a b).norm2))
        * (f1 - F64.sqrt (((pcRaw a b).cross x).norm2 / (pcRaw a b).norm2)) := by
    unfold interiorVal
    rw [hpc]
  rw [hval] at fsum ⊢
  have n0 := mul_self_val_nonneg fd fxd2
  have n1 : 0 ≤ val ((x.dot (pcRaw a b) * x.dot (pcRaw a b)) / (pcRaw a b).norm2) := by
    apply round_nonneg (F64Round.isRound_div fxd2 fc2 (isZero_false_of_val_ne c2pos.ne')) _ fT1
    exact div_nonneg (ratVal_nonneg n0) (ratVal_nonneg c2pos.le)
  have n2 := mul_self_val_nonneg (fin_of_mul_self_fin fT2) fT2
  exact add_val_nonneg fT1 fT2 n1 n2 fsum


/-! ### sizes of the c17err bounds -/

theorem docInterior_le {b : ℝ} (hb0 : 0 ≤ b) (hb1 : b ≤ 1) : docInterior b ≤ 52 * uR := by
  unfold docInterior
  have hu := uR_nonneg
  have h3l := r3_lo; have h3h := r3_hi; have h3p := r3_pos
  set s := Real.sqrt (b * (2 - b)) with hs
  have hs0 : 0 ≤ s := Real.sqrt_nonneg _
  have hs1 : s ≤ 1 := by
    rw [hs]
    apply Real.sqrt_le_one.mpr
    nlinarith
  have t1 : (5 / 2 + 2 * r3 + 17 / 2 * s) * s ≤ (5 / 2 + 2 * r3 + 17 / 2 * 1) * 1 :=
    mul_le_mul (by linarith) hs1 hs0 (by linarith)
  have t2 : (2 + 2 * r3 / 3 + 13 / 2 * (1 - b)) * b ≤ (2 + 2 * r3 / 3 + 13 / 2 * 1) * 1 :=
    mul_le_mul (by linarith) hb1 hb0 (by linarith)
  have t3 : 16 / r3 ≤ 16 := by
    rw [div_le_iff₀ h3p]; nlinarith
  have t4 : (23 + 16 / r3) * (2 * uR) ≤ 39 * (2 * uR) :=
    mul_le_mul_of_nonneg_right (by linarith) (by linarith)
  have t5 : 39 * (2 * uR) ≤ 1 := by unfold uR; norm_num
  have hsum : (5 / 2 + 2 * r3 + 17 / 2 * s) * s + (2 + 2 * r3 / 3 + 13 / 2 * (1 - b)) * b
      + (23 + 16 / r3) * (2 * uR) ≤ 26 := by linarith
  have := mul_le_mul_of_nonneg_right hsum (by linarith : (0 : ℝ) ≤ 2 * uR)
  linarith

theorem vertexK_le {D : ℝ} (hD0 : 0 ≤ D) (hD4 : D ≤ 4) : k1 * D + k2 ≤ 37 * uR := by
  have h1 : k1 * D ≤ k1 * 4 := mul_le_mul_of_nonneg_left hD4 k1_nonneg
  have h2 : k1 * 4 + k2 ≤ 37 * uR := by unfold k1 k2 uR; norm_num
  linarith

/-! ### the early exit `xDotC2 > c2 * lim` -/

/-- real core of the early exit: the product `fl(C2·L)` is below `xd2`, `T1 = fl(xd2/C2)` -/
theorem ee_core {u e C2 xd2 T1 L p : ℝ} (hu0 : 0 ≤ u) (hu1 : u ≤ 1) (he : 0 ≤ e) (hC : 0 < C2)
    (hx0 : 0 ≤ xd2) (hL0 : 0 ≤ L) (hL4 : L ≤ 4)
    (hp : |p - C2 * L| ≤ u * |C2 * L| + e) (hlt : p < xd2)
    (hT : |T1 - xd2 / C2| ≤ u * |xd2 / C2| + e) :
    L ≤ T1 + 8 * u + e + e / C2 := by
  have hCL : 0 ≤ C2 * L := mul_nonneg hC.le hL0
  rw [abs_of_nonneg hCL] at hp
  have hq0 : 0 ≤ xd2 / C2 := div_nonneg hx0 hC.le
  rw [abs_of_nonneg hq0] at hT
  have hp1 := (abs_le.mp hp).1
  have hT1 := (abs_le.mp hT).1
  have ht0 : 0 ≤ e / C2 := div_nonneg he hC.le
  -- L(1−u) < q + t
  have ha : L * (1 - u) ≤ xd2 / C2 + e / C2 := by
    rw [← add_div, le_div_iff₀ hC]
    nlinarith
  -- q(1−u) ≤ T1 + e
  have hb : xd2 / C2 * (1 - u) ≤ T1 + e := by nlinarith
  have h1u : 0 ≤ 1 - u := by linarith
  have hc : L * (1 - u) * (1 - u) ≤ T1 + e + e / C2 := by
    have h1 := mul_le_mul_of_nonneg_right ha h1u
    have h2 : e / C2 * (1 - u) ≤ e / C2 := by nlinarith
    nlinarith
  have hd : L ≤ L * (1 - u) * (1 - u) + 8 * u := by
    have h1 : L * u ≤ 4 * u := mul_le_mul_of_nonneg_right hL4 hu0
    have h2 : 0 ≤ L * u * u := mul_nonneg (mul_nonneg hL0 hu0) hu0
    nlinarith
  linarith

/-- geometry of the early exit: `σc² ≤ gcDist2 + 2θ + θ²` -/
theorem ee_geom {σc ρc σ ρ θ : ℝ} (hunitc : σc ^ 2 + ρc ^ 2 = 1) (hunit : σ ^ 2 + ρ ^ 2 = 1)
    (hθ0 : 0 ≤ θ) (hΔ : 2 - 2 * (ρc * ρ + σc * σ) ≤ θ ^ 2) :
    σc ^ 2 ≤ (2 - 2 * ρ) + 2 * θ + θ ^ 2 := by
  have h1 : (σc - σ) ^ 2 ≤ θ ^ 2 := by nlinarith [sq_nonneg (ρc - ρ)]
  have h2 : |σc - σ| ≤ θ := by
    have := abs_le_of_sq_le_sq' h1 hθ0
    exact abs_le.mpr this
  have hσ1 : |σ| ≤ 1 := by
    apply abs_le_one_iff_mul_self_le_one.mpr
    nlinarith [sq_nonneg ρ]
  have h3 : |σc| ≤ |σ| + θ := by
    have := abs_sub_abs_le_abs_sub σc σ
    linarith
  have h4 : σc ^ 2 ≤ (|σ| + θ) ^ 2 := by
    rw [← sq_abs σc]
    exact pow_le_pow_left₀ (abs_nonneg _) h3 2
  have h5 : |σ| ^ 2 = σ ^ 2 := sq_abs σ
  have h6 : σ ^ 2 ≤ 2 - 2 * ρ := by nlinarith [sq_nonneg (1 - ρ)]
  have h7 : 2 * |σ| * θ ≤ 2 * 1 * θ := by
    apply mul_le_mul_of_nonneg_right _ hθ0
    linarith
  nlinarith


/-- real assembly of the early-exit bound -/
theorem ee_real {lx σc ρc σ ρ θ T1 L t : ℝ} (hlx0 : 0 < lx) (hlx : lx ≤ 1 + 1 / 2 ^ 52)
    (hunitc : σc ^ 2 + ρc ^ 2 = 1) (hunit : σ ^ 2 + ρ ^ 2 = 1) (hθ0 : 0 ≤ θ) (hθ : θ ≤ 44642 / 10000 * uR)
    (hΔ : 2 - 2 * (ρc * ρ + σc * σ) ≤ θ ^ 2)
    (hT1 : |T1 - lx * σc * (lx * σc)| ≤ e1Bound |σc|) (hL : L ≤ T1 + 8 * uR + t) (ht : t ≤ uR) :
    L ≤ (2 - 2 * ρ) + 40 * uR := by
  have hu := uR_nonneg
  have hσcsq : σc ^ 2 ≤ 1 := by nlinarith only [hunitc, sq_nonneg ρc]
  have hσc1 : |σc| ≤ 1 := by
    apply abs_le_one_iff_mul_self_le_one.mpr
    nlinarith only [hσcsq]
  have hE1 : e1Bound |σc| ≤ 12 * uR := by
    unfold e1Bound
    have h0 := abs_nonneg σc
    have hs : |σc| ^ 2 ≤ 1 := by rw [sq_abs]; exact hσcsq
    have t1 : (3 + 1 / 2 ^ 38) * |σc| + (8 + 1 / 2 ^ 20) * |σc| ^ 2 ≤ 23 / 2 := by nlinarith only [h0, hs, hσc1]
    have t2 := mul_le_mul_of_nonneg_left t1 hu
    have t3 : 52 * uR ^ 2 * |σc| ≤ 52 * uR ^ 2 * 1 := mul_le_mul_of_nonneg_left hσc1 (by positivity)
    have t4 : uR * (23 / 2) + 52 * uR ^ 2 * 1 + 7 * uR ^ 2 ≤ 12 * uR := by unfold uR; norm_num
    linarith only [t2, t3, t4]
  have hA : lx * σc * (lx * σc) ≤ σc ^ 2 + 5 * uR := by
    have h1 : lx * lx ≤ (1 + 1 / 2 ^ 52) * (1 + 1 / 2 ^ 52) := mul_le_mul hlx hlx hlx0.le (by norm_num)
    have h2 : (1 + 1 / 2 ^ 52 : ℝ) * (1 + 1 / 2 ^ 52) ≤ 1 + 5 * uR := by unfold uR; norm_num
    have h3 : lx * lx * σc ^ 2 ≤ (1 + 5 * uR) * σc ^ 2 :=
      mul_le_mul_of_nonneg_right (by linarith only [h1, h2]) (sq_nonneg _)
    have h4 : 5 * uR * σc ^ 2 ≤ 5 * uR * 1 := mul_le_mul_of_nonneg_left hσcsq (by linarith only [hu])
    have e : lx * σc * (lx * σc) = lx * lx * σc ^ 2 := by ring
    rw [e]
    linarith only [h3, h4]
  have hT1up : T1 ≤ σc ^ 2 + 17 * uR := by
    have := (abs_le.mp hT1).2
    linarith only [this, hE1, hA]
  have hgeo := ee_geom hunitc hunit hθ0 hΔ
  have hθsq : θ ^ 2 ≤ uR := by
    have h1 : θ ^ 2 ≤ (44642 / 10000 * uR) ^ 2 := pow_le_pow_left₀ hθ0 hθ 2
    have h2 : (44642 / 10000 * uR) ^ 2 ≤ uR := by unfold uR; norm_num
    linarith only [h1, h2]
  linarith only [hT1up, hgeo, hθsq, hθ, hL, ht, hu]

theorem eR_le_200 : eR ≤ 1 / 2 ^ 200 := by
  unfold eR
  exact one_div_le_one_div_of_le (by positivity) (pow_le_pow_right₀ (by norm_num) (by norm_num))

theorem toInt_nonneg_of_val {x : F64} (h : 0 ≤ val x) : 0 ≤ toInt x := by
  unfold val at h
  have hp : (0 : ℝ) < 2 ^ 1074 := by positivity
  have h1 : (0 : ℝ) ≤ (toInt x : ℝ) := by
    have := mul_nonneg h hp.le
    rwa [div_mul_cancel₀ _ hp.ne'] at this
  exact_mod_cast h1

/-- **the early exit is sound**: if `xDotC2 > c2 * lim` fires then the limit is (up to `40u`) not above the squared
    chord distance to the great circle of the edge. -/
theorem earlyExit_bound (x a b : V3) (hx : UnitPt x) (ha : UnitPt a) (hb : UnitPt b) (hE : EdgeOK a b)
    (lim : F64) (hf : Fin lim) (h0 : 0 ≤ val lim) (hee : earlyExit x a b lim = true) :
    val lim ≤ gcDist2 x a b + 40 * uR := by
  have hδ1 : delta0 ≤ 1 := le_trans delta0_le (by norm_num)
  obtain ⟨hlxd, hlx0, hlx⟩ := unit_len delta0_nonneg (le_refl _) hx
  obtain ⟨fc, mc, hvec⟩ := pcRaw_spec delta0_nonneg (le_refl _) ha hb hE
  have hpc := pointCross_eq delta0_nonneg (le_refl _) ha hb hE
  have hLC := edge_LC hE
  have hLC3 := vC_len_le delta0_nonneg (le_refl _) ha hb
  have hXlen : 0 < (vecR x).len := by rw [vecR_len]; exact hlx0
  obtain ⟨hLc, hLc3, hΔ⟩ := dir_theta hLC hLC3 hXlen hvec
  rw [vecR_len] at hΔ
  have mx := hx.coord2 delta0_nonneg hδ1
  obtain ⟨fT1, hT1⟩ := t1_chain x (pcRaw a b) hx.1 mx hlx0 hlx fc mc hLc
  obtain ⟨fd, bd, _⟩ := dot_chain x (pcRaw a b) hx.1 fc mx mc
  have mxd : |val (x.dot (pcRaw a b)) * val (x.dot (pcRaw a b))| ≤ 45369 := by
    have := abs_mul_le_of bd bd; linarith
  obtain ⟨fxd2, _, _⟩ := mul_step stdModel fd fd mxd (by norm_num)
  obtain ⟨fc2, c2pos, hw, hg⟩ := c2_chain (pcRaw a b) fc mc hLc
  have n0 := mul_self_val_nonneg fd fxd2
  have rT1 := div_step_fin fxd2 fc2 c2pos.ne' fT1
  unfold earlyExit at hee
  rw [hpc] at hee
  set c := pcRaw a b with hcd
  set lx := len x with hlxdef
  set Lc := (vecR c).len with hLcd
  set LC := (vC a b).len with hLCd
  have hLcpos : 0 < Lc := lt_of_lt_of_le (by positivity) hLc
  have hLCpos : 0 < LC := lt_of_lt_of_le (by positivity) hLC
  set σc := (vecR x).dot (vecR c) / (lx * Lc) with hσc
  set ρc := ((vecR c).cross (vecR x)).len / (lx * Lc) with hρc
  set σ := (vecR x).dot (vC a b) / (lx * LC) with hσ
  set ρ := ((vC a b).cross (vecR x)).len / (lx * LC) with hρ
  have hunitc : σc ^ 2 + ρc ^ 2 = 1 := by
    have := unit_pair (vecR c) (vecR x) hLcpos hXlen
    rw [vecR_len] at this; exact this
  have hunit : σ ^ 2 + ρ ^ 2 = 1 := by
    have := unit_pair (vC a b) (vecR x) hLCpos hXlen
    rw [vecR_len] at this; exact this
  have hρ0 : 0 ≤ ρ := div_nonneg (R3.len_nonneg _) (mul_pos hlx0 hLCpos).le
  have hgc : gcDist2 x a b = 2 - 2 * ρ := gc_eq x a b hlx0 hLCpos
  have hρ1 : ρ ≤ 1 := (unit_ab hunit hρ0).1
  have hu := uR_nonneg
  -- the float |c|²
  set C2 := val c.norm2 with hC2
  have hL2pos : 0 < Lc * Lc := mul_pos hLcpos hLcpos
  have hL2lo : 1 / 2 ^ 70 ≤ Lc * Lc := by
    have := mul_le_mul hLc hLc (by positivity) hLcpos.le
    have e : (1 : ℝ) / 2 ^ 35 * (1 / 2 ^ 35) = 1 / 2 ^ 70 := by rw [div_mul_div_comm, one_mul, ← pow_add]
    linarith
  have hL2hi : Lc * Lc ≤ 9 := by
    have := mul_le_mul hLc3 hLc3 hLcpos.le (by norm_num : (0 : ℝ) ≤ 3)
    linarith only [this]
  have hgs : (3 + 1 / 2 ^ 40) * uR ≤ 1 / 10 := by unfold uR; norm_num
  have hwb := abs_le.mp hw
  have hC2lo : 1 / 2 ^ 71 ≤ C2 := by
    have h1 : 1 / 2 ≤ C2 / (Lc * Lc) := by linarith [hwb.1]
    rw [le_div_iff₀ hL2pos] at h1
    have e : (1 : ℝ) / 2 ^ 71 = 1 / 2 * (1 / 2 ^ 70) := by norm_num
    rw [e]
    exact le_trans (mul_le_mul_of_nonneg_left hL2lo (by norm_num)) h1
  have hC2hi : C2 ≤ 10 := by
    have h1 : C2 / (Lc * Lc) ≤ 11 / 10 := by linarith [hwb.2]
    rw [div_le_iff₀ hL2pos] at h1
    linarith
  set T1 := val ((x.dot c * x.dot c) / c.norm2) with hT1d
  have hθ0 : 0 ≤ etaC * (1 + etaC) := mul_nonneg etaC_pos.le (by have := etaC_pos; linarith)
  have hθ : etaC * (1 + etaC) ≤ 44642 / 10000 * uR := le_trans etaC_theta theta0_le
  -- tiny terms
  have htiny : eR + eR / C2 ≤ uR := by
    have he := eR_nonneg
    have h1 : eR / C2 ≤ eR * 2 ^ 71 := by
      rw [div_le_iff₀ c2pos]
      have : 1 ≤ 2 ^ 71 * C2 := by
        have := mul_le_mul_of_nonneg_left hC2lo (by positivity : (0 : ℝ) ≤ 2 ^ 71)
        have e : (2 : ℝ) ^ 71 * (1 / 2 ^ 71) = 1 := by field_simp
        linarith only [this, e]
      have h5 := mul_le_mul_of_nonneg_left this he
      linarith only [h5]
    have h2 := eR_le_200
    have h3 : eR * 2 ^ 71 ≤ 1 / 2 ^ 200 * 2 ^ 71 := mul_le_mul_of_nonneg_right h2 (by positivity)
    have h4 : (1 : ℝ) / 2 ^ 200 + 1 / 2 ^ 200 * 2 ^ 71 ≤ uR := by unfold uR; norm_num
    linarith
  -- the key step for a multiplier in [0, 4]
  have key : ∀ Lf : F64, Fin Lf → 0 ≤ val Lf → val Lf ≤ 4 →
      val (c.norm2 * Lf) < val (x.dot c * x.dot c) → val Lf ≤ gcDist2 x a b + 40 * uR := by
    intro Lf fL hL0 hL4 hlt
    have m : |C2 * val Lf| ≤ 40 := by
      have h1 : |C2| ≤ 10 := by rw [abs_of_pos c2pos]; exact hC2hi
      have h2 : |val Lf| ≤ 4 := by rw [abs_of_nonneg hL0]; exact hL4
      have := abs_mul_le_of h1 h2; linarith
    obtain ⟨fp, rp, _⟩ := mul_step stdModel fc2 fL m (by norm_num)
    have hcore := ee_core hu uR_le_one eR_nonneg c2pos n0 hL0 hL4 rp hlt rT1
    rw [hgc]
    exact ee_real hlx0 hlx hunitc hunit hθ0 hθ hΔ hT1 (by linarith only [hcore]) htiny
  obtain ⟨f4f, f4v⟩ := f4_facts
  rcases le_or_gt (val lim) 4 with h4 | h4
  · have m : |C2 * val lim| ≤ 40 := by
      have h1 : |C2| ≤ 10 := by rw [abs_of_pos c2pos]; exact hC2hi
      have h2 : |val lim| ≤ 4 := by rw [abs_of_nonneg h0]; exact h4
      have := abs_mul_le_of h1 h2; linarith
    obtain ⟨fp, _, _⟩ := mul_step stdModel fc2 hf m (by norm_num)
    exact key lim hf h0 h4 ((gt_val fxd2 fp).mp hee)
  · exfalso
    have hle : F64.le f4 lim = true := (le_val f4f hf).mpr (by rw [f4v]; exact h4.le)
    have hmono : F64.le (c.norm2 * f4) (c.norm2 * lim) = true :=
      F64Round.mul_mono_of_nonneg fc2 f4f hf (toInt_nonneg_of_val c2pos.le) hle
    have m : |C2 * val f4| ≤ 40 := by
      rw [f4v]
      have h1 : |C2| ≤ 10 := by rw [abs_of_pos c2pos]; exact hC2hi
      have := abs_mul_le_of h1 (le_of_eq (abs_of_pos (by norm_num : (0 : ℝ) < 4))); linarith
    obtain ⟨fq, _, _⟩ := mul_step stdModel fc2 f4f m (by norm_num)
    have hlt := gt_of_le_of_gt fxd2 fq hmono hee
    have := key f4 f4f (by rw [f4v]; norm_num) (by rw [f4v]) hlt
    rw [f4v, hgc] at this
    have hu1 : 40 * uR ≤ 1 := by unfold uR; norm_num
    linarith


theorem earlyExit_inf (x a b : V3) (hx : UnitPt x) (ha : UnitPt a) (hb : UnitPt b) (hE : EdgeOK a b) :
    earlyExit x a b (F64.inf false) = false := by
  have hδ1 : delta0 ≤ 1 := le_trans delta0_le (by norm_num)
  obtain ⟨hlxd, hlx0, hlx⟩ := unit_len delta0_nonneg (le_refl _) hx
  obtain ⟨fc, mc, hvec⟩ := pcRaw_spec delta0_nonneg (le_refl _) ha hb hE
  have hpc := pointCross_eq delta0_nonneg (le_refl _) ha hb hE
  have hLC := edge_LC hE
  have hLC3 := vC_len_le delta0_nonneg (le_refl _) ha hb
  have hXlen : 0 < (vecR x).len := by rw [vecR_len]; exact hlx0
  obtain ⟨hLc, _, _⟩ := dir_theta hLC hLC3 hXlen hvec
  have mx := hx.coord2 delta0_nonneg hδ1
  obtain ⟨fd, bd, _⟩ := dot_chain x (pcRaw a b) hx.1 fc mx mc
  have mxd : |val (x.dot (pcRaw a b)) * val (x.dot (pcRaw a b))| ≤ 45369 := by
    have := abs_mul_le_of bd bd; linarith
  obtain ⟨fxd2, _, _⟩ := mul_step stdModel fd fd mxd (by norm_num)
  obtain ⟨fc2, c2pos, _, _⟩ := c2_chain (pcRaw a b) fc mc hLc
  unfold earlyExit
  rw [hpc, mul_inf fc2 c2pos]
  exact gt_inf_false fxd2

theorem gcDist2_range (x a b : V3) (hx : UnitPt x) (ha : UnitPt a) (hb : UnitPt b) (hE : EdgeOK a b) :
    0 ≤ gcDist2 x a b ∧ gcDist2 x a b ≤ 2 := by
  obtain ⟨_, hlx0, _⟩ := unit_len delta0_nonneg (le_refl _) hx
  have hLC := edge_LC hE
  have hLCpos : 0 < (vC a b).len := lt_of_lt_of_le (by positivity) hLC
  have hXlen : 0 < (vecR x).len := by rw [vecR_len]; exact hlx0
  have hunit := unit_pair (vC a b) (vecR x) hLCpos hXlen
  rw [vecR_len] at hunit
  have hρ0 : 0 ≤ ((vC a b).cross (vecR x)).len / (len x * (vC a b).len) :=
    div_nonneg (R3.len_nonneg _) (mul_pos hlx0 hLCpos).le
  have hρ1 := (unit_ab hunit hρ0).1
  rw [gc_eq x a b hlx0 hLCpos]
  constructor <;> linarith

/-- the three outcomes of `UpdateMinDistance` with the reasons -/
theorem updateMin_cases (x a b : V3) (lim : F64) :
    (updateMinDistancePub x a b lim = (interiorVal x a b, true) ∧ prefilterRejects x a b = false ∧
        earlyExit x a b lim = false ∧ wedgeFail x a b = false ∧ F64.ge (interiorVal x a b) lim = false) ∨
    ((prefilterRejects x a b = true ∨ earlyExit x a b lim = true ∨ wedgeFail x a b = true ∨
        F64.ge (interiorVal x a b) lim = true) ∧
      ((updateMinDistancePub x a b lim = (vertexDist x a b, true) ∧ F64.ge (vertexDist x a b) lim = false) ∨
       (updateMinDistancePub x a b lim = (lim, false) ∧ F64.ge (vertexDist x a b) lim = true))) := by
  rw [updateMin_eq, interiorDist_false_eq]
  cases h1 : prefilterRejects x a b <;> cases h2 : earlyExit x a b lim <;> cases h3 : wedgeFail x a b <;>
    cases h4 : F64.ge (interiorVal x a b) lim <;> cases h5 : F64.ge (vertexDist x a b) lim <;> simp


/-- slack of one point-edge distance evaluation (squared chord length): `2^-46 = 128·u` -/
noncomputable def edgeErr : ℝ := 1 / 2 ^ 46

/-- **contract of `UpdateMinDistance` with a limit.**  Domain of c17err (`UnitPt`, `EdgeOK`, `WedgeMargin`); the
    limit is a non-negative finite float or `+Inf`.
    "ok, d": `d` is finite, in `[0,4]`, below the limit (Go's `<`), and within `edgeErr` of the true distance;
    "not ok": the limit is finite and not above the true distance by more than `edgeErr`. -/
theorem updateMin_contract (x a b : V3) (hx : UnitPt x) (ha : UnitPt a) (hb : UnitPt b)
    (hE : EdgeOK a b) (hM : WedgeMargin x a b)
    (lim : F64) (hlim : (Fin lim ∧ 0 ≤ val lim) ∨ lim = F64.inf false) :
    ((updateMinDistancePub x a b lim).2 = true →
      Fin (updateMinDistancePub x a b lim).1 ∧ 0 ≤ val (updateMinDistancePub x a b lim).1 ∧
      val (updateMinDistancePub x a b lim).1 ≤ 4 ∧
      F64.lt (updateMinDistancePub x a b lim).1 lim = true ∧
      |val (updateMinDistancePub x a b lim).1 - trueDist2 x a b| ≤ edgeErr) ∧
    ((updateMinDistancePub x a b lim).2 = false →
      Fin lim ∧ val lim ≤ trueDist2 x a b + edgeErr) := by
  -- c17err facts
  obtain ⟨fI, eI⟩ := interior_value delta0_nonneg (le_refl _) hx ha hb hE
  have nI := interiorVal_nonneg x a b hx ha hb hE
  obtain ⟨fV, v4, eV, _, _⟩ := vertexDist_spec delta0_nonneg (le_refl _) hx ha hb
  obtain ⟨fa, na, a0, a4, _⟩ := vertex_one delta0_nonneg (le_refl _) hx ha
  obtain ⟨fb, nb, b0, _, _⟩ := vertex_one delta0_nonneg (le_refl _) hx hb
  have v0 : 0 ≤ val (vertexDist x a b) := by
    obtain ⟨fm, vm⟩ := val_fmin fa fb
    obtain ⟨_, vc⟩ := val_chordFromLen2 fm
    unfold vertexDist
    rw [vc, vm]
    exact le_min (le_min na nb) (by norm_num)
  obtain ⟨g0, g2⟩ := gcDist2_range x a b hx ha hb hE
  have hgm := gcDist2_le_endpoints x a b hx.len_pos ha.len_pos hb.len_pos (edgeOK_normal_pos hE)
  have htm := trueDist2_le_endpoints hx.len_pos ha.len_pos hb.len_pos (x := x) (a := a) (b := b)
  have hW := wedgeDecisionExact_of_margin x a b hx ha hb hE hM
  set gc := gcDist2 x a b with hgc
  set m := min (dirChord2 x a) (dirChord2 x b) with hm
  set td := trueDist2 x a b with htd
  have hm0 : 0 ≤ m := le_min a0 b0
  have hm4 : m ≤ 4 := le_trans (min_le_left _ _) a4
  have htin : InWedge x a b → td = gc := fun hw => by rw [htd]; unfold trueDist2; rw [if_pos hw]
  have htout : ¬ InWedge x a b → td = m := fun hw => by rw [htd]; unfold trueDist2; rw [if_neg hw]
  have hgt : gc ≤ td := by
    by_cases hw : InWedge x a b
    · rw [htin hw]
    · rw [htout hw]; exact hgm
  have hu := uR_nonneg
  have hE128 : edgeErr = 128 * uR := by unfold edgeErr uR; norm_num
  have hdoc : docInterior (gc / 2) ≤ 52 * uR := docInterior_le (by linarith) (by linarith)
  have hk : k1 * m + k2 ≤ 37 * uR := vertexK_le hm0 hm4
  have eI' := abs_le.mp (le_trans eI hdoc)
  have eV' := abs_le.mp (le_trans eV hk)
  -- comparisons with the limit
  have C1 : ∀ d : F64, Fin d → F64.ge d lim = false → F64.lt d lim = true := by
    intro d fd hge
    rcases hlim with ⟨fl, _⟩ | rfl
    · rw [lt_val fd fl]
      by_contra hc
      rw [(ge_val fd fl).mpr (not_lt.mp hc)] at hge
      cases hge
    · exact lt_inf_true fd
  have C2 : ∀ d : F64, Fin d → F64.ge d lim = true → Fin lim ∧ val lim ≤ val d := by
    intro d fd hge
    rcases hlim with ⟨fl, _⟩ | rfl
    · exact ⟨fl, (ge_val fd fl).mp hge⟩
    · rw [ge_inf_false fd] at hge; cases hge
  have C3 : earlyExit x a b lim = true → Fin lim ∧ val lim ≤ gc + 40 * uR := by
    intro hee
    rcases hlim with ⟨fl, l0⟩ | rfl
    · exact ⟨fl, earlyExit_bound x a b hx ha hb hE lim fl l0 hee⟩
    · rw [earlyExit_inf x a b hx ha hb hE] at hee; cases hee
  -- the wedge decisions
  have hbr_of : prefilterRejects x a b = false → wedgeFail x a b = false → InWedge x a b := by
    intro hpre hwf
    apply hW.1
    rw [interiorBranch_eq, hpre]
    show (!false && !wedgeFail x a b) = true
    rw [hwf]; rfl
  have hpre_of : InWedge x a b → prefilterRejects x a b = false :=
    fun hw => prefilter_never_rejects_wedge x a b hx ha hb hw
  have hwf_of : InWedge x a b → wedgeFail x a b = false := by
    intro hw
    have h := hW.2 hw (hpre_of hw)
    rw [interiorBranch_eq, hpre_of hw] at h
    change (!false && !wedgeFail x a b) = true at h
    cases hq : wedgeFail x a b
    · rfl
    · rw [hq] at h; cases h
  -- why the interior path can fail
  have hUp : (prefilterRejects x a b = true ∨ earlyExit x a b lim = true ∨ wedgeFail x a b = true ∨
        F64.ge (interiorVal x a b) lim = true) →
      ¬ InWedge x a b ∨ (Fin lim ∧ val lim ≤ gc + 52 * uR) := by
    rintro (h | h | h | h)
    · left; intro hw; rw [hpre_of hw] at h; cases h
    · right
      obtain ⟨fl, hl⟩ := C3 h
      exact ⟨fl, by linarith⟩
    · left; intro hw; rw [hwf_of hw] at h; cases h
    · right
      obtain ⟨fl, hl⟩ := C2 _ fI h
      exact ⟨fl, by linarith [eI'.2]⟩
  rcases updateMin_cases x a b lim with ⟨hr, hpre, hee, hwf, hge⟩ | ⟨hwhy, ⟨hr, hge⟩ | ⟨hr, hge⟩⟩
  · -- the interior value is returned
    rw [hr]
    dsimp only
    refine ⟨fun _ => ?_, fun h => by cases h⟩
    have hw := hbr_of hpre hwf
    have ht := htin hw
    have hu52 : 52 * uR ≤ 1 := by unfold uR; norm_num
    refine ⟨fI, nI, by linarith [eI'.2], C1 _ fI hge, ?_⟩
    show |val (interiorVal x a b) - td| ≤ edgeErr
    rw [ht, hE128, abs_le]
    constructor <;> linarith [eI'.1, eI'.2]
  · -- the vertex value is returned
    rw [hr]
    dsimp only
    refine ⟨fun _ => ?_, fun h => by cases h⟩
    have hlt := C1 _ fV hge
    refine ⟨fV, v0, v4, hlt, ?_⟩
    show |val (vertexDist x a b) - td| ≤ edgeErr
    rw [hE128, abs_le]
    refine ⟨by linarith [eV'.1], ?_⟩
    rcases hUp hwhy with hnw | ⟨fl, hl⟩
    · rw [htout hnw]; linarith [eV'.2]
    · have := (lt_val fV fl).mp hlt
      linarith
  · -- nothing is returned
    rw [hr]
    dsimp only
    refine ⟨fun h => (by cases h), fun _ => ?_⟩
    obtain ⟨fl, hl⟩ := C2 _ fV hge
    refine ⟨fl, ?_⟩
    show val lim ≤ td + edgeErr
    rw [hE128]
    rcases hUp hwhy with hnw | ⟨_, hl2⟩
    · rw [htout hnw]; linarith [eV'.2]
    · linarith

end S2Proofs.C08World
