/-
  S2Proofs.EdgeQuery.FarEdgeChord — the distance carrier of a furthest-edge query with an EDGE target (package c08more, goal 3).

  `updateEdgePairMaxDistance` has the early exit `if maxDist == StraightChordAngle { return maxDist, false }` and the crossing exit
  `return StraightChordAngle, true`; the second one answers "ok" with the value 4 even if the old value were ABOVE 4, which a `maxDistance` never is.
  The carrier `MChord` of `FurthestChord.lean` contains every finite float with the sign bit clear, so for this target the carrier is restricted to

      `M4` = the floats a `maxDistance` holds: finite, sign bit clear, `≤ 4` (Go's `<=`), or exactly −1 (`NegativeChordAngle`, the "infinity").

  `m4I : DistI M4` is `mchordI` restricted: `less a b := b < a` (Go: `m.chordAngle() > other.chordAngle()`), `zero = 4`, `infinity = −1`,
  `sub` = `maxDistance.sub` over the generated bit-exact `ChordAngle.Add`, re-injected by `m4canon` (`ChordAngle.Add` clamps at 4; a value outside
  the carrier — never produced for members — would be mapped to +0 / −1 as in `mcanon`).
-/
import S2Proofs.EdgeQuery.FurthestChord
import S2Proofs.EdgeQuery.FurthestWorld

set_option linter.unusedSimpArgs false
set_option linter.unusedVariables false

namespace S2Proofs.C08FarEdge
open S2 S2.Exact S2.EdgeQueryM S2Proofs.F64Order S2Proofs.FloatErr S2Proofs.EdgeQuery
open S2Proofs.C17Err (lt_val le_val)
open S2Proofs.C08Far (MChord IsMChord mless mfin mNegOne mFour mPosZero mless_irrefl mless_trans mless_tri negOne_facts val_negOne val_four
  val_posZero mchord_cases mchord_ge)
open S2Proofs.C08World (val_sign_false val_sign_true)

/-- the floats a `maxDistance` holds -/
def IsM4 (x : F64) : Prop := (Fin x ∧ x.signBit = false ∧ F64.le x mFour = true) ∨ x = mNegOne

instance (x : F64) : Decidable (IsM4 x) := by unfold IsM4 F64Order.Fin; exact inferInstance

abbrev M4 := {x : F64 // IsM4 x}

theorem isM4_isMChord {x : F64} (h : IsM4 x) : IsMChord x := by
  rcases h with ⟨a, b, _⟩ | h
  · exact Or.inl ⟨a, b⟩
  · exact Or.inr h

/-- a member as a member of the wider carrier -/
def M4.toM (a : M4) : MChord := ⟨a.1, isM4_isMChord a.2⟩

theorem toM_inj {a b : M4} (h : a.toM = b.toM) : a = b := by
  apply Subtype.ext
  have := congrArg Subtype.val h
  exact this

theorem m4fin (a : M4) : Fin a.1 := mfin a.toM

theorem four_fin : Fin mFour := by decide

/-- every member is at most 4 -/
theorem m4_le4 (a : M4) : val a.1 ≤ 4 := by
  rcases a.2 with ⟨f, _, h⟩ | h
  · have := (le_val f four_fin).mp h
    rw [val_four] at this; exact this
  · rw [h, val_negOne]; norm_num

theorem m4_cases (a : M4) : (a.1 ≠ mNegOne ∧ 0 ≤ val a.1) ∨ a.1 = mNegOne := mchord_cases a.toM
theorem m4_ge (a : M4) : -1 ≤ val a.1 := mchord_ge a.toM

/-- Go's `maxDistance.less`: `m > other` -/
def m4less (a b : M4) : Bool := F64.lt b.1 a.1

theorem m4less_val (a b : M4) : m4less a b = true ↔ val b.1 < val a.1 := lt_val (m4fin b) (m4fin a)

theorem m4less_false_val (a b : M4) : m4less a b = false ↔ val a.1 ≤ val b.1 := by
  rw [← not_lt, ← m4less_val]; cases m4less a b <;> simp

def m4zero : M4 := ⟨mFour, by decide +kernel⟩
def m4inf : M4 := ⟨mNegOne, Or.inr rfl⟩
/-- the chord angle 0 (`MaxError = 0` travels as `maxDistance(0)`) -/
def m4null : M4 := ⟨mPosZero, by decide +kernel⟩

/-- canonical injection of a computed float (as `mcanon`): a member is itself; another finite value with the sign bit set becomes +0;
    anything else becomes −1 -/
def m4canon (x : F64) : M4 :=
  if h : IsM4 x then ⟨x, h⟩ else if F64Order.Fin x ∧ x.signBit = true then m4null else m4inf

theorem m4canon_of_mem {x : F64} (h : IsM4 x) : m4canon x = ⟨x, h⟩ := by unfold m4canon; rw [dif_pos h]

/-- `maxDistance.sub` -/
def m4sub (a e : M4) : M4 :=
  if S2.Generated.DistTargetFns.maxDistance_sub_cond0 (a.1.isInf && !a.1.signBit) a.1 = true then a
  else m4canon (S2.Generated.DistTargetFns.maxDistance_sub_val0 a.1 e.1)

/-- the `distance` interface of a furthest-edge query over the bit-exact floats `≤ 4` -/
def m4I : DistI M4 where
  less := m4less
  zero := m4zero
  infinity := m4inf
  sub := m4sub

theorem m4_order : DistOrder m4I where
  irrefl a := mless_irrefl a.toM
  trans a b c := mless_trans a.toM b.toM c.toM
  tri a b hne := mless_tri a.toM b.toM (fun h => hne (toM_inj h))

theorem m4sub_zero (a : M4) : m4sub a m4null = a := by
  unfold m4sub
  split
  · rfl
  · have : S2.Generated.DistTargetFns.maxDistance_sub_val0 a.1 m4null.1 = a.1 := by
      unfold S2.Generated.DistTargetFns.maxDistance_sub_val0 S2.Generated.DistTargetFns.ChordAngle_Add
      have : F64.feq m4null.1 (⟨0x0000000000000000⟩ : F64) = true := by decide
      rw [if_pos this]
    rw [this, m4canon_of_mem a.2]

theorem m4_subLaws_zero : SubLaws m4I m4null where
  sub_le a := by
    show m4less a (m4sub a m4null) = false
    rw [m4sub_zero]; exact mless_irrefl a.toM

/-- a finite computed value in `(−1, 4]` is injected as a member that is not `−1`, with the same value (−0 as +0) -/
theorem m4canon_fin {x : F64} (h : Fin x) (h1 : -1 < val x) (h4 : val x ≤ 4) :
    Fin (m4canon x).1 ∧ (m4canon x).1 ≠ mNegOne ∧ val (m4canon x).1 = max (val x) 0 := by
  unfold m4canon
  by_cases hc : IsM4 x
  · rw [dif_pos hc]
    rcases hc with ⟨_, hs, _⟩ | he
    · refine ⟨h, ?_, (max_eq_left (val_sign_false hs)).symm⟩
      intro e
      have e' : x = mNegOne := e
      rw [e', negOne_facts.2.1] at hs; cases hs
    · rw [he, val_negOne] at h1; linarith
  · rw [dif_neg hc]
    have hs : x.signBit = true := by
      cases hh : x.signBit with
      | true => rfl
      | false =>
        have : F64.le x mFour = true := (le_val h four_fin).mpr (by rw [val_four]; exact h4)
        exact absurd (Or.inl ⟨h, hh, this⟩) hc
    rw [if_pos ⟨h, hs⟩]
    refine ⟨m4fin m4null, by decide, ?_⟩
    show val mPosZero = _
    rw [val_posZero, max_eq_right (val_sign_true hs)]

end S2Proofs.C08FarEdge
