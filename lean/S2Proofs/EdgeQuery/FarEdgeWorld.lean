/-
  S2Proofs.EdgeQuery.FarEdgeWorld — the CONCRETE world of a FURTHEST-edge query with an EDGE target
  (`MaxDistanceToEdgeTarget`, s2/max_distance_targets.go) on a built index, and the proof that it is a
  `Slack.SlackWorld` for the reversed distance type `m4I` of `FarEdgeChord.lean` (`maxDistance` values: −1 or in `[0,4]`) (package c08more, goal 3):

   * edges  = pairs of float vertices; `updateDistanceToEdge` =
                `if d, ok := updateEdgePairMaxDistance(target.V0, target.V1, edge.V0, edge.V1, dist.chordAngle()); ok { dist, _ = dist.updateDistance(maxDistance(d)); return dist, true }`
              over the bit-exact `S2.EdgeNum.updateEdgePairMaxDistance` — flag-aware contract `edgePairMax_contract` (`EdgePairMaxNum.lean`), error `205u`;
   * cells  = cell ids, arranged as the tree `Roots.subtree` of the index; `updateDistanceToCell` =
                `dist.updateDistance(maxDistance(cell.MaxDistanceToEdge(target.V0, target.V1)))` over the bit-exact `S2.CellEdgeM.maxDistanceToEdge`
              — c12max `maxDistanceToEdge_upper_bound`: NO point of the exact cell is farther from ANY point of the target arc than reported + 2^-40
              (every branch, the right-angle class of the CELL function included — that is why the slack is 2^-40 and not 2^-44);
   * exact distance `rhoMax e` = `truePairMaxDist2 target e` = the MAXIMUM of the squared chord over (target arc) × (arc of `e`) (c17pairs2);
   * `Near e lim` = "edge `e` is truly FARTHER than `lim` by more than the slack": `lim = −1 (infinity) ∨ val lim + 2^-40 < rhoMax e`.

  The right-angle class F10 of `UpdateMaxDistance` is an EXPLICIT exclusion per call in the domain record (`MaxCall.notClass`: outside the class, or the
  edge of the call is at most 120° long).
-/
import S2Proofs.EdgeQuery.EdgePairMaxNum
import S2Proofs.EdgeQuery.FurthestWorld
import S2Proofs.EdgeQuery.FarEdgeChord
import S2Proofs.F64Round.Carrier
import S2Proofs.EdgeQuery.FurthestSub
import S2Proofs.EdgeQuery.EdgeWorld
import S2Proofs.Properties.C12_MaxDistance2

set_option linter.unusedSimpArgs false
set_option linter.unusedVariables false

namespace S2Proofs.C08FarEdge
open S2 S2.Exact S2.CellID S2.EdgeNum S2.EdgeQueryM S2Proofs.F64Order S2Proofs.FloatErr S2Proofs.EdgeQuery
open S2Proofs.C17Err S2Proofs.C17 S2Proofs.C17Pairs S2Proofs.C12Dist2
open S2Proofs.C08World (toAcc goodFor_subtree reachList_of_mem PointIndex I1Arc regions_nested)
open S2Proofs.C08Far (mNegOne mFour val_negOne val_four)

/-! ## the data -/

structure FarEdgeIndex where
  /-- the target edge `m.e.V0`, `m.e.V1` -/
  t0 : V3
  t1 : V3
  vert : EdgeKey → V3 × V3
  allEdges : List EdgeKey
  ix : Roots.CIndex
  /-- ids of the initial cells as a function of the (`maxDistance`) limit -/
  rootIds : M4 → List CellID
  depth : Nat
  interiors : List Int
  located : Option (List EdgeKey)
  small : Bool

/-- the index part in the vocabulary of the point-target package (only `allEdges`, `vert`, `ix` matter for `I1Arc`) -/
def FarEdgeIndex.toPoint (E : FarEdgeIndex) : PointIndex where
  p := E.t0
  vert := E.vert
  allEdges := E.allEdges
  ix := E.ix
  rootIds := fun _ => E.rootIds m4inf
  depth := E.depth
  interiors := E.interiors
  located := E.located
  small := E.small

variable (E : FarEdgeIndex)

/-- `cell.MaxDistanceToEdge(m.e.V0, m.e.V1)` -/
def cellMax (id : CellID) : F64 := CellEdgeM.maxDistanceToEdge (CellM.cellFromCellID id) E.t0 E.t1

/-- `MaxDistanceToEdgeTarget.updateDistanceToCell` (`maxDistance.updateDistance`: `if arg > dist`) -/
def updCell (id : CellID) (lim : M4) : Option M4 :=
  if F64.lt lim.1 (cellMax E id) then some (m4canon (cellMax E id)) else none

/-- the raw call `updateEdgePairMaxDistance(m.e.V0, m.e.V1, edge.V0, edge.V1, dist.chordAngle())` -/
def pairCall (e : EdgeKey) (lim : F64) : F64 × Bool :=
  updateEdgePairMaxDistance E.t0 E.t1 (E.vert e).1 (E.vert e).2 lim

/-- `MaxDistanceToEdgeTarget.updateDistanceToEdge` -/
def updEdge (e : EdgeKey) (lim : M4) : Option M4 :=
  if (pairCall E e lim.1).2 then
    some (if F64.lt lim.1 (pairCall E e lim.1).1 then m4canon (pairCall E e lim.1).1 else lim)
  else none

def world : World M4 where
  updEdge := updEdge E
  allEdges := E.allEdges
  interiors := E.interiors
  small := E.small
  emptyTarget := false
  located := E.located
  roots lim := (E.rootIds lim).map (Roots.subtree E.ix (updCell E) E.depth)

/-- EXACT MAXIMUM of the squared chord between the target arc and the arc of edge `e` -/
noncomputable def rhoMax (e : EdgeKey) : ℝ := truePairMaxDist2 E.t0 E.t1 (E.vert e).1 (E.vert e).2

/-- THE SLACK (squared chord, absolute): `2^-40`, the bound of c12max's `maxDistanceToEdge_upper_bound` -/
noncomputable def slack40 : ℝ := 1 / 2 ^ 40

theorem maxCallErr_le_slack : maxCallErr ≤ slack40 := by unfold maxCallErr slack40 uR; norm_num
theorem slack40_pos : 0 < slack40 := by unfold slack40; positivity
theorem slack40_lt_one : slack40 < 1 := by unfold slack40; norm_num

/-- "edge `e` is truly FARTHER from the target edge than `lim` by more than the slack" -/
def Near (e : EdgeKey) (lim : M4) : Prop := lim.1 = mNegOne ∨ val lim.1 + slack40 < rhoMax E e

theorem near_mono (e : EdgeKey) (a b : M4) (h : Near E e a) (hba : m4I.less b a = false) : Near E e b := by
  have hle : val b.1 ≤ val a.1 := (m4less_false_val b a).mp hba
  rcases h with ha | ha
  · rw [ha, val_negOne] at hle
    rcases m4_cases b with ⟨_, h0⟩ | hb
    · linarith
    · exact Or.inl hb
  · exact Or.inr (by linarith)

theorem not_near_of_le {e : EdgeKey} {x : M4} (hx : x.1 ≠ mNegOne) (h : rhoMax E e ≤ val x.1 + slack40) :
    ¬ Near E e x := by
  rintro (hi | hlt)
  · exact hx hi
  · linarith

/-! ## the domain -/

/-- cells the search can visit (as for the closest-edge edge target) -/
def Visited (y : CellID) : Prop :=
  isValid y = true ∧ ∃ x ∈ Roots.ids E.ix, contains y x = true ∧
    ∃ lim, ∃ c ∈ E.rootIds lim, contains c x = true ∧ level c ≤ level y

/-- **the numeric domain of a furthest-edge query with an edge target**:
    * c12max (`maxDistanceToEdge_upper_bound`): `UnitPt` of the target endpoints, `EdgeOK` of the target edge, and for every cell the search can visit
      `AntipodalVerticesOK` (the four float vertices against the ANTIPODAL target edge);
    * c17pairs2 / c12max per index edge: `PairMaxOK` = the four `UpdateMaxDistance` calls in c17err's domain, each outside the right-angle class F10 or
      on an edge of at most 120°, and "`Cross` of `CrossingSign(t0,t1,−v0,−v1)` only on different great circles". -/
structure FarEdgeTargetOK : Prop where
  t0 : UnitPt E.t0
  t1 : UnitPt E.t1
  tEdge : EdgeOK E.t0 E.t1
  cells : ∀ y, Visited E y → S2Proofs.C12.AntipodalVerticesOK (CellM.cellFromCellID y) E.t0 E.t1
  pairs : ∀ e ∈ E.allEdges, PairMaxOK E.t0 E.t1 (E.vert e).1 (E.vert e).2

variable {E}

theorem edge_notAntipodal (H : FarEdgeTargetOK E) {e : EdgeKey} (he : e ∈ E.allEdges) :
    NotAntipodal (vecR (E.vert e).1) (vecR (E.vert e).2) := by
  have h := edgeOK_normal_pos (H.pairs e he).c1.anti.hE
  left
  unfold R3.len at h
  exact Real.sqrt_pos.mp h

/-- **`rhoMax` is the maximum of the squared chord over (target arc) × (arc of the edge), and it is attained** -/
theorem rhoMax_is_max (H : FarEdgeTargetOK E) {e : EdgeKey} (he : e ∈ E.allEdges) :
    (∀ R Q, OnArc (vecR E.t0) (vecR E.t1) R → OnArc (vecR (E.vert e).1) (vecR (E.vert e).2) Q → chordPQ R Q ≤ rhoMax E e) ∧
    (∃ R Q, OnArc (vecR E.t0) (vecR E.t1) R ∧ OnArc (vecR (E.vert e).1) (vecR (E.vert e).2) Q ∧ chordPQ R Q = rhoMax E e) :=
  truePairMaxDist2_is_max H.t0 H.t1 (H.pairs e he).c3.anti.hx (H.pairs e he).c4.anti.hx (edge_notAntipodal H he)

theorem rhoMax_nonneg (H : FarEdgeTargetOK E) {e : EdgeKey} (he : e ∈ E.allEdges) : 0 ≤ rhoMax E e := by
  obtain ⟨_, R, Q, hR, hQ, hρ⟩ := rhoMax_is_max H he
  rw [← hρ]
  exact chordPQ_nonneg (onArc_n2 hR) (onArc_n2 hQ)

/-! ## the edge clauses -/

theorem updEdge_some {e : EdgeKey} {lim x : M4} (h : updEdge E e lim = some x) :
    (pairCall E e lim.1).2 = true ∧
    x = (if F64.lt lim.1 (pairCall E e lim.1).1 then m4canon (pairCall E e lim.1).1 else lim) := by
  unfold updEdge at h
  split at h
  · rename_i h2
    exact ⟨h2, by simpa using h.symm⟩
  · cases h

theorem updEdge_none {e : EdgeKey} {lim : M4} (h : updEdge E e lim = none) : (pairCall E e lim.1).2 = false := by
  unfold updEdge at h
  split at h
  · cases h
  · rename_i h2; simpa using h2

/-- "ok, x": `x` is finite, not the "infinity" −1, beyond the limit in the search order (Go's `>`), and within `205u` of the TRUE maximum -/
theorem edge_some (H : FarEdgeTargetOK E) {e : EdgeKey} (he : e ∈ E.allEdges) {lim x : M4}
    (h : updEdge E e lim = some x) :
    Fin x.1 ∧ x.1 ≠ mNegOne ∧ m4I.less x lim = true ∧ |val x.1 - rhoMax E e| ≤ maxCallErr := by
  obtain ⟨h2, hx⟩ := updEdge_some h
  obtain ⟨c1, _, hT4⟩ := edgePairMax_contract (H.pairs e he) (edge_notAntipodal H he) lim.1 (m4fin lim) (m4_le4 lim)
  obtain ⟨f, hgt, hd4, herr⟩ := c1 h2
  change Fin (pairCall E e lim.1).1 at f
  change val lim.1 < val (pairCall E e lim.1).1 at hgt
  change val (pairCall E e lim.1).1 ≤ 4 at hd4
  change |val (pairCall E e lim.1).1 - rhoMax E e| ≤ maxCallErr at herr
  have hlt : F64.lt lim.1 (pairCall E e lim.1).1 = true := (lt_val (m4fin lim) f).mpr hgt
  rw [if_pos hlt] at hx
  have hl := m4_ge lim
  obtain ⟨cf, cn, cv⟩ := m4canon_fin f (by linarith) hd4
  subst hx
  have h0 := rhoMax_nonneg H he
  have hE0 : (0 : ℝ) ≤ maxCallErr := by unfold maxCallErr uR; positivity
  obtain ⟨e1, e2⟩ := abs_le.mp herr
  refine ⟨cf, cn, ?_, ?_⟩
  · show m4less _ lim = true
    rw [m4less_val, cv]
    exact lt_of_lt_of_le hgt (le_max_left _ _)
  · rw [cv, abs_le]
    constructor
    · have := le_max_left (val (pairCall E e lim.1).1) 0; linarith
    · apply sub_le_iff_le_add.mpr
      apply max_le <;> linarith

/-- "not ok": the limit is not the "infinity" −1 and the true maximum is at most `205u` above it -/
theorem edge_none (H : FarEdgeTargetOK E) {e : EdgeKey} (he : e ∈ E.allEdges) {lim : M4}
    (h : updEdge E e lim = none) : lim.1 ≠ mNegOne ∧ rhoMax E e ≤ val lim.1 + maxCallErr := by
  obtain ⟨_, c2, _⟩ := edgePairMax_contract (H.pairs e he) (edge_notAntipodal H he) lim.1 (m4fin lim) (m4_le4 lim)
  obtain ⟨_, hle⟩ := c2 (updEdge_none h)
  refine ⟨?_, hle⟩
  intro hi
  rw [hi, val_negOne] at hle
  have h0 := rhoMax_nonneg H he
  have : maxCallErr < 1 := by unfold maxCallErr uR; norm_num
  change rhoMax E e ≤ -1 + maxCallErr at hle
  linarith

/-! ## the cell clause: `Cell.MaxDistanceToEdge` against an index edge with its farthest point in the cell -/

open S2Proofs.C12 S2Proofs.C12Dist S2.CellM S2.CellEdgeM in
/-- `MaxDistanceToEdge` never exceeds 4: it is the endpoint maximum when that is `≤ 2`, else `4 ⊖ DistanceToEdge(−a, −b)` with a non-negative
    `DistanceToEdge` (rounding is monotone) -/
theorem maxDistanceToEdge_le4 (id : CellID) (hv : isValid id = true) (a b : V3) (ha : UnitPt a) (hb : UnitPt b) (hE : EdgeOK a b)
    (hV : AntipodalVerticesOK (cellFromCellID id) a b) (hf : Fin (maxDistanceToEdge (cellFromCellID id) a b)) :
    val (maxDistanceToEdge (cellFromCellID id) a b) ≤ 4 := by
  unfold maxDistanceToEdge at hf ⊢
  simp only at hf ⊢
  split at hf
  · rename_i hle
    rw [if_pos hle]
    have h2 : Fin F64.two ∧ val F64.two = 2 := by
      refine ⟨by decide, ?_⟩
      unfold val; rw [S2Proofs.F64Round.toInt_two]; push_cast; field_simp
    have := (le_val hf h2.1).mp hle
    rw [h2.2] at this; linarith
  · rename_i hle
    rw [if_neg hle]
    have ha' : UnitPt (negV a) := unitWithin_negV ha
    have hb' : UnitPt (negV b) := unitWithin_negV hb
    have hE' := edgeOK_negV ha.1 hb.1 hE
    have hV' : ∀ k, k < 4 → VertexCallOK (vertex (cellFromCellID id) k) (negV a) (negV b) :=
      fun k hk => ⟨(hV k hk).1, (hV k hk).2⟩
    obtain ⟨q, hq⟩ : ∃ q : C17Err.R3, InCellXYZ (cellFromCellID id) (toAcc q) := ⟨_, corner_inCell id hv 0⟩
    obtain ⟨fD, _⟩ := distanceToEdge_lower id hv (negV a) (negV b) ha' hb' hE' hV' hq (onArc_left _ _ ha'.len_pos)
    have nD := distanceToEdge_nonneg id hv (negV a) (negV b) ha' hb' hE' hV'
    have f4 : Fin F64.four := S2Proofs.C12Dist.VertexErr.fin_four
    have hle4 : F64.le (F64.sub F64.four (distanceToEdge (cellFromCellID id) (negV a) (negV b))) F64.four = true :=
      S2Proofs.F64Round.sub_le_of_nonneg f4 fD (toInt_nonneg_of_val nD)
    have := (le_val hf f4).mp hle4
    rw [S2Proofs.C12Dist.VertexErr.val_four] at this
    exact this

open S2Proofs.C12 S2Proofs.C12Dist in
/-- a visited cell whose exact region contains the point `Q` of edge `e` that realises (with the point `R` of the target arc) the exact MAXIMUM
    is `GoodFor` that edge: its reported maximum distance is at least `rhoMax e − 2^-40` -/
theorem cell_good (H : FarEdgeTargetOK E) {y : CellID} (hy : Visited E y) {e : EdgeKey} (he : e ∈ E.allEdges)
    {Q R : C17Err.R3} (hR : OnArc (vecR E.t0) (vecR E.t1) R)
    (hQ : InCellXYZ (CellM.cellFromCellID y) (toAcc Q)) (hρ : chordPQ Q R = rhoMax E e) :
    ∀ l, (updCell E y l = none → ¬ Near E e l) ∧ (∀ x, updCell E y l = some x → ¬ Near E e x) := by
  obtain ⟨hf, hle⟩ := maxDistanceToEdge_upper_bound y hy.1 E.t0 E.t1 H.t0 H.t1 H.tEdge (H.cells y hy) Q R hQ hR
  rw [hρ] at hle
  have hf' : Fin (cellMax E y) := hf
  have hle' : rhoMax E e ≤ val (cellMax E y) + slack40 := hle
  have h4 : val (cellMax E y) ≤ 4 := maxDistanceToEdge_le4 y hy.1 E.t0 E.t1 H.t0 H.t1 H.tEdge (H.cells y hy) hf
  have hr0 := rhoMax_nonneg H he
  have hs1 := slack40_lt_one
  intro l
  constructor
  · intro hnone
    unfold updCell at hnone
    split at hnone
    · cases hnone
    · rename_i hnl
      have hv' : val (cellMax E y) ≤ val l.1 := by
        have : ¬ (val l.1 < val (cellMax E y)) := fun hh => hnl ((lt_val (m4fin l) hf').mpr hh)
        exact not_lt.mp this
      apply not_near_of_le E
      · intro hi
        rw [hi, val_negOne] at hv'
        linarith
      · linarith
  · intro x hsome
    unfold updCell at hsome
    split at hsome
    · rename_i hlt
      have hx : x = m4canon (cellMax E y) := by simpa using hsome.symm
      have hv' : val l.1 < val (cellMax E y) := (lt_val (m4fin l) hf').mp hlt
      have hl := m4_ge l
      obtain ⟨cf, cn, cv⟩ := m4canon_fin hf' (by linarith) h4
      subst hx
      apply not_near_of_le E cn
      rw [cv]
      have := le_max_left (val (cellMax E y)) 0
      linarith
    · cases hsome

/-! ## index hypotheses and the `SlackWorld` instance -/

variable (E)

/-- **index invariant I1 in the form the FURTHEST search needs, for an edge target**: for an index edge that is `Near` the limit, the pair
    (`R` on the target arc, `Q` on the arc of the edge) realising the exact MAXIMUM has `Q` in the exact region of an index cell `x` that lists the
    edge, `x` lies below an initial cell for that limit, and `Q` also lies in the exact region of every ancestor of `x`. -/
def FarthestCovered : Prop :=
  ∀ lim, ∀ e ∈ E.allEdges, Near E e lim →
    ∃ R Q : C17Err.R3, OnArc (vecR E.t0) (vecR E.t1) R ∧ OnArc (vecR (E.vert e).1) (vecR (E.vert e).2) Q ∧
      chordPQ Q R = rhoMax E e ∧
      ∃ x es, E.ix.lookup x = some es ∧ e ∈ es ∧
        (∃ c ∈ E.rootIds lim, contains c x = true) ∧
        ∀ y, isValid y = true → contains y x = true →
          S2Proofs.C12Dist.InCellXYZ (CellM.cellFromCellID y) (toAcc Q)

structure IndexOK : Prop where
  cellsOK : IndexCellsOK (Roots.ids E.ix)
  rootsValid : ∀ lim, ∀ c ∈ E.rootIds lim, isValid c = true
  depth : 30 ≤ E.depth
  edgesSound : ∀ x es, E.ix.lookup x = some es → ∀ e ∈ es, e ∈ E.allEdges
  locatedSound : ∀ es, E.located = some es → ∀ e ∈ es, e ∈ E.allEdges
  covered : FarthestCovered E

/-- "the unit vector `Q` is FARTHER from SOME point of the target arc than `lim` by more than the slack" -/
def PtNear (Q : C17Err.R3) (lim : M4) : Prop :=
  lim.1 = mNegOne ∨ ∃ R : C17Err.R3, OnArc (vecR E.t0) (vecR E.t1) R ∧ val lim.1 + slack40 < chordPQ Q R

/-- **completeness of the initial cells**: an index cell whose exact region holds a point `PtNear` the limit lies below an initial cell for it -/
def RootsCover : Prop :=
  ∀ lim : M4, ∀ x ∈ Roots.ids E.ix, ∀ Q : C17Err.R3, Q.n2 = 1 →
    S2Proofs.C12Dist.InCellXYZ (CellM.cellFromCellID x) (toAcc Q) → PtNear E Q lim →
    ∃ c ∈ E.rootIds lim, contains c x = true

/-- completeness of the initial cells of the UNBOUNDED search (limit = −1): every index cell lies below one -/
def RootsCoverInf : Prop := ∀ x ∈ Roots.ids E.ix, ∃ c ∈ E.rootIds m4inf, contains c x = true

/-- **completeness of the initial cells for a limit other than −1** (hypothesis): an index cell whose exact region holds a unit vector `Q` with
    `limit + slack < chord²(Q, R)` for some point `R` of the target arc lies below one of the cells `initQueue` produces in its finite-limit branch
    (`FastCovering` of the cap around the ANTIPODE of the target edge — `MaxDistanceToEdgeTarget.capBound` — with radius `4 − limit`). -/
def RootsCoverFin : Prop :=
  ∀ lim : M4, lim.1 ≠ mNegOne → ∀ x ∈ Roots.ids E.ix, ∀ Q : C17Err.R3, Q.n2 = 1 →
    S2Proofs.C12Dist.InCellXYZ (CellM.cellFromCellID x) (toAcc Q) →
    (∃ R : C17Err.R3, OnArc (vecR E.t0) (vecR E.t1) R ∧ val lim.1 + slack40 < chordPQ Q R) →
    ∃ c ∈ E.rootIds lim, contains c x = true

variable {E}

theorem farthestCovered_of_arc_roots (H : FarEdgeTargetOK E) (hcells : IndexCellsOK (Roots.ids E.ix))
    (h1 : I1Arc E.toPoint) (hr : RootsCover E) : FarthestCovered E := by
  intro lim e he hn
  obtain ⟨R, Q, hR, hQ, hρ⟩ := (rhoMax_is_max H he).2
  obtain ⟨x, es, hl, hes, hin⟩ := h1 e he Q hQ
  have hl' : E.ix.lookup x = some es := hl
  have hQ1 : Q.n2 = 1 := onArc_n2 hQ
  have hxm := Roots.lookup_mem_ids E.ix hl'
  have hρ' : chordPQ Q R = rhoMax E e := by rw [S2Proofs.C12Dist2.chordPQ_comm]; exact hρ
  have hnear : PtNear E Q lim := by
    rcases hn with hi | hlt
    · exact Or.inl hi
    · right; exact ⟨R, hR, by rw [hρ']; exact hlt⟩
  refine ⟨R, Q, hR, hQ, hρ', x, es, hl', hes, hr lim x hxm Q hQ1 hin hnear, ?_⟩
  intro y hy hyx
  exact regions_nested y x hy (hcells.valid x hxm) hyx _ hin

theorem rootsCover_of_inf_fin (hi : RootsCoverInf E) (hf : RootsCoverFin E) : RootsCover E := by
  intro lim x hx Q hQ1 hin hn
  by_cases hl : lim.1 = mNegOne
  · have : lim = m4inf := Subtype.ext hl
    subst this
    exact hi x hx
  · rcases hn with h | h
    · exact absurd h hl
    · exact hf lim hl x hx Q hQ1 hin h

theorem indexOK_of_parts (H : FarEdgeTargetOK E) (hcells : IndexCellsOK (Roots.ids E.ix))
    (hroots : ∀ lim, ∀ c ∈ E.rootIds lim, isValid c = true) (hdepth : 30 ≤ E.depth)
    (hes : ∀ x es, E.ix.lookup x = some es → ∀ e ∈ es, e ∈ E.allEdges)
    (hloc : ∀ es, E.located = some es → ∀ e ∈ es, e ∈ E.allEdges)
    (h1 : I1Arc E.toPoint) (hr : RootsCover E) : IndexOK E where
  cellsOK := hcells
  rootsValid := hroots
  depth := hdepth
  edgesSound := hes
  locatedSound := hloc
  covered := farthestCovered_of_arc_roots H hcells h1 hr

/-- **the concrete furthest-edge EDGE-target world is a `SlackWorld`** for `Near` = "truly farther than the limit by more than `2^-40`" -/
theorem farEdge_slackWorld (H : FarEdgeTargetOK E) (HI : IndexOK E) : Slack.SlackWorld m4I (world E) (Near E) where
  nearMono := near_mono E
  edgeLt e he lim x h := (edge_some H he h).2.2.1
  edgeVal e he lim x h := by
    obtain ⟨_, hn, _, herr⟩ := edge_some H he h
    apply not_near_of_le E hn
    have := (abs_le.mp herr).1
    linarith [maxCallErr_le_slack]
  edgeNone e he lim h := by
    obtain ⟨hn, hle⟩ := edge_none H he h
    apply not_near_of_le E hn
    linarith [maxCallErr_le_slack]
  reach lim e he hn := by
    obtain ⟨R, Q, hR, hQarc, hρ, x, es, hl, hes, ⟨c, hc, hcx⟩, hin⟩ := HI.covered lim e he hn
    obtain ⟨k, hk⟩ := (isValid_iff c).mp (HI.rootsValid lim c hc)
    have hxm := Roots.lookup_mem_ids E.ix hl
    obtain ⟨j, hj⟩ := (isValid_iff x).mp (HI.cellsOK.valid x hxm)
    show Slack.ReachList (Near E) e ((E.rootIds lim).map (Roots.subtree E.ix (updCell E) E.depth))
    apply reachList_of_mem (List.mem_map.2 ⟨c, hc, rfl⟩)
    refine S2Proofs.C08Edge.reach_subtree_from E.ix (updCell E) HI.cellsOK e hl hj hes k ?_ E.depth c k hk hcx (le_refl _) ?_
    · intro y i hy hyx hki
      have hyv : isValid y = true := (isValid_iff y).mpr ⟨i, hy⟩
      have hlv : level c ≤ level y := by rw [hk.level_eq, hy.level_eq]; exact hki
      exact cell_good H ⟨hyv, x, hxm, hyx, lim, c, hc, hcx, hlv⟩ he hR (hin y hyv hyx) hρ
    · have := hj.k_le; have := HI.depth; omega
  rootsSound lim e he := by
    obtain ⟨c, hc, hec⟩ := Roots.exists_of_mem_edgesUnderList he
    obtain ⟨id, _, rfl⟩ := List.mem_map.1 hc
    obtain ⟨x, es, hl, hes⟩ := Roots.subtree_sound E.ix (updCell E) E.depth id e hec
    exact HI.edgesSound x es hl e hes
  locatedSound := HI.locatedSound
  nonEmptyTarget := rfl
  zeroMin e he := by
    have hz : (m4I.zero : M4).1 ≠ mNegOne := by decide
    apply not_near_of_le E (x := m4I.zero) hz
    show rhoMax E e ≤ val mFour + slack40
    rw [val_four]
    obtain ⟨_, _, hT4⟩ := edgePairMax_contract (H.pairs e he) (edge_notAntipodal H he) m4zero.1 (m4fin m4zero) (m4_le4 m4zero)
    have := slack40_pos
    change rhoMax E e ≤ 4 at hT4
    linarith

/-- `SubLawsOn` for `MaxError = 0` (the default; `maxDistance.sub` = `ChordAngle.Add` returns its receiver for `other == 0`) -/
theorem farEdge_subLawsOn_zero : Slack.SubLawsOn m4I (world E) m4null := m4_subLaws_zero.on

/-- `maxDistance.sub` with `MaxError = StraightChordAngle`: `x.Add(4) = 4` for every member other than −1 (c08more-subF `add_straight`) -/
theorem m4sub_straight (x : M4) (hn : x.1 ≠ mNegOne) : m4sub x m4zero = m4zero := by
  have h0 : 0 ≤ val x.1 := by
    rcases m4_cases x with ⟨_, h⟩ | h
    · exact h
    · exact absurd h hn
  have hfin := m4fin x
  unfold m4sub S2.Generated.DistTargetFns.maxDistance_sub_cond0 S2.Generated.DistTargetFns.maxDistance_sub_val0
  have hlt : F64.lt x.1 (⟨0x0000000000000000⟩ : F64) = false := by
    cases h : F64.lt x.1 (⟨0x0000000000000000⟩ : F64) with
    | false => rfl
    | true =>
      have := (lt_val hfin (m4fin m4null)).mp h
      have hz : val m4null.1 = 0 := S2Proofs.C08Far.val_posZero
      rw [hz] at this; linarith
  rw [isInf_false hfin, hlt]
  simp only [Bool.false_and, Bool.or_self, Bool.false_eq_true, if_false]
  have : S2.Generated.DistTargetFns.ChordAngle_Add x.1 m4zero.1 = mFour :=
    S2Proofs.C08Far.add_straight hfin (S2Proofs.C08Far.mnz x.toM) h0 (m4_le4 x)
  rw [this]
  exact m4canon_of_mem m4zero.2

/-- **`SubLawsOn` for `MaxError = StraightChordAngle = maxDistance(4)`** (what `IsDistanceGreater` uses) -/
theorem farEdge_subLawsOn_straight (H : FarEdgeTargetOK E) : Slack.SubLawsOn m4I (world E) m4zero where
  sub_edge e he lim x hu := by
    obtain ⟨_, hn, _, _⟩ := edge_some H he hu
    show m4less x (m4sub x m4zero) = false
    rw [m4sub_straight x hn, m4less_false_val]
    show val x.1 ≤ val mFour
    rw [val_four]; exact m4_le4 x
  sub_zero := by
    show m4less m4zero (m4sub m4zero m4zero) = false
    rw [m4sub_straight m4zero (by decide)]
    exact S2Proofs.C08Far.mless_irrefl m4zero.toM

end S2Proofs.C08FarEdge
