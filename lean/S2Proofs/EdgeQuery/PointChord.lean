/-
  S2Proofs.EdgeQuery.PointChord — the distance type of a CLOSEST-edge query as the search model sees it, over the
  bit-exact soft-float: `Chord` = the floats a `minDistance` can hold in such a query (finite, sign bit clear — so
  not −0 — or +Inf), `chordI : DistI Chord` with Go's `<` (`F64.lt`), `zero = +0`, `infinity = +Inf`,
  `sub` = the generated `minDistance.sub` (`ChordAngle.Sub`).  On this carrier `<` is a strict total order
  (`chord_order`), which is what the search theorems need (`DistOrder`).  (package c08world)
-/
import S2.EdgeQueryM
import S2.Generated.DistTargetFns
import S2Proofs.EdgeQuery.Laws
import S2Proofs.F64Order
import S2Proofs.F64Inj

namespace S2Proofs.C08World
open S2 S2.Exact S2.EdgeQueryM S2Proofs.F64Order S2Proofs.EdgeQuery

/-- the floats a `minDistance` holds in a closest-edge query -/
def IsChord (x : F64) : Prop := (Fin x ∧ x.signBit = false) ∨ x = F64.inf false

instance (x : F64) : Decidable (IsChord x) := by unfold IsChord F64Order.Fin; exact inferInstance

abbrev Chord := {x : F64 // IsChord x}

def posInf : F64 := F64.inf false

theorem inf_facts : posInf.isNaN = false ∧ posInf.isInf = true ∧ posInf.signBit = false ∧ ¬ Fin posInf := by
  decide

theorem lt_fin_inf {x : F64} (hx : Fin x) : F64.lt x posInf = true := by
  obtain ⟨a, b, c, _⟩ := inf_facts
  unfold F64.lt F64.cmp
  simp [isNaN_false hx, isInf_false hx, a, b, c]

theorem lt_inf_left (y : F64) : F64.lt posInf y = false := by
  obtain ⟨a, b, c, _⟩ := inf_facts
  unfold F64.lt F64.cmp
  by_cases hn : y.isNaN = true
  · simp [hn]
  · have hn' : y.isNaN = false := by simpa using hn
    by_cases hi : y.isInf = true
    · by_cases hs : y.signBit = true
      · simp [a, b, c, hn', hi, hs]; decide
      · have hs' : y.signBit = false := by simpa using hs
        simp [a, b, c, hn', hi, hs']
    · have hi' : y.isInf = false := by simpa using hi
      simp [a, b, c, hn', hi']

theorem ne_negzero_of_sign {x : F64} (h : x.signBit = false) : x ≠ F64.zero true := by
  intro e; rw [e] at h; revert h; decide

/-- Go's `<` on chords -/
def cless (a b : Chord) : Bool := F64.lt a.1 b.1

theorem cless_irrefl (a : Chord) : cless a a = false := by
  unfold cless
  rcases a.2 with ⟨hf, _⟩ | hi
  · cases h : F64.lt a.1 a.1 with
    | false => rfl
    | true => have := (lt_iff hf hf).mp h; omega
  · have : a.1 = posInf := hi
    rw [this]; exact lt_inf_left _

theorem cless_trans (a b c : Chord) (h1 : cless a b = true) (h2 : cless b c = true) : cless a c = true := by
  unfold cless at *
  have ha : Fin a.1 := by
    rcases a.2 with ⟨hf, _⟩ | hi
    · exact hf
    · have : a.1 = posInf := hi
      rw [this, lt_inf_left] at h1; cases h1
  have hb : Fin b.1 := by
    rcases b.2 with ⟨hf, _⟩ | hi
    · exact hf
    · have : b.1 = posInf := hi
      rw [this, lt_inf_left] at h2; cases h2
  rcases c.2 with ⟨hc, _⟩ | hi
  · have e1 := (lt_iff ha hb).mp h1
    have e2 := (lt_iff hb hc).mp h2
    exact (lt_iff ha hc).mpr (by omega)
  · have : c.1 = posInf := hi
    rw [this]; exact lt_fin_inf ha

theorem cless_tri (a b : Chord) (hne : a ≠ b) : cless a b = true ∨ cless b a = true := by
  unfold cless
  rcases a.2 with ⟨ha, sa⟩ | ia <;> rcases b.2 with ⟨hb, sb⟩ | ib
  · have hv : toInt a.1 ≠ toInt b.1 := by
      intro e
      exact hne (Subtype.ext (S2Proofs.F64Inj.toInt_inj e (ne_negzero_of_sign sa) (ne_negzero_of_sign sb)))
    rcases Int.lt_or_gt_of_ne hv with h | h
    · exact Or.inl ((lt_iff ha hb).mpr h)
    · exact Or.inr ((lt_iff hb ha).mpr h)
  · have : b.1 = posInf := ib
    rw [this]; exact Or.inl (lt_fin_inf ha)
  · have : a.1 = posInf := ia
    rw [this]; exact Or.inr (lt_fin_inf hb)
  · exact absurd (Subtype.ext (ia.trans ib.symm)) hne

def czero : Chord := ⟨⟨0⟩, by decide⟩
def cinf : Chord := ⟨posInf, Or.inr rfl⟩

/-- canonical injection of a computed float: a chord is itself; a finite value with the sign bit set becomes +0
    (−0: Go's `<` and `==` do not distinguish it from +0; negative values are never produced on the domain of the
    theorems); anything else (NaN, −Inf — never produced on the domain) becomes +Inf -/
def canon (x : F64) : Chord :=
  if h : IsChord x then ⟨x, h⟩ else if F64Order.Fin x ∧ x.signBit = true then czero else cinf

theorem canon_of_chord {x : F64} (h : IsChord x) : canon x = ⟨x, h⟩ := by unfold canon; rw [dif_pos h]

/-- `minDistance.sub` (`if IsInfinity() || < 0 { return m }; return ChordAngle.Sub(..)`), re-injected -/
def csub (a e : Chord) : Chord :=
  if a.1 = posInf then a else canon (S2.Generated.DistTargetFns.ChordAngle_Sub a.1 e.1)

/-- the `distance` interface of a closest-edge query over the bit-exact floats -/
def chordI : DistI Chord where
  less := cless
  zero := czero
  infinity := cinf
  sub := csub

theorem chord_order : DistOrder chordI where
  irrefl := cless_irrefl
  trans := cless_trans
  tri := cless_tri

/-- `MaxError = 0` (the default): `sub` is the identity (`ChordAngle.Sub` returns its receiver for `other == 0`) -/
theorem csub_zero (a : Chord) : csub a czero = a := by
  unfold csub
  split
  · rfl
  · have : S2.Generated.DistTargetFns.ChordAngle_Sub a.1 czero.1 = a.1 := by
      unfold S2.Generated.DistTargetFns.ChordAngle_Sub
      have : F64.feq czero.1 (⟨0x0000000000000000⟩ : F64) = true := by decide
      rw [if_pos this]
    rw [this, canon_of_chord a.2]

theorem chord_subLaws_zero : SubLaws chordI czero where
  sub_le a := by
    show cless a (csub a czero) = false
    rw [csub_zero]; exact cless_irrefl a

end S2Proofs.C08World
