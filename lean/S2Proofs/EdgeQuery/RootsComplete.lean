/-
  S2Proofs.EdgeQuery.RootsComplete — the hypothesis `rootsComplete` (`WorldOK` / `WorldApprox`)
  DERIVED, for the unbounded search (`distanceLimit = infinity`: `initQueue` hands the whole
  `indexCovering` to `processOrEnqueue`), from the proved specification of `initCovering`.

  A concrete index is a list of `(cell id, clipped edges)`.  The abstract cell tree of the search is
  `subtree`: an index cell is a leaf with its edges; any other cell is a node whose kids are its
  children (visited in the order 1, 0, 3, 2 of `findEdgesOptimized`) that contain an index cell.
  `subtree_complete`: below a cell `c` the tree holds the edges of EVERY index cell contained in `c`
  (descent never loses an index cell: `IsCell.unique_child`);  `subtree_sound`: and nothing else.
  With `initCovering_spec` ("every index cell lies in a covering cell"):
  `covering_roots_complete`, `covering_roots_sound`.
  What stays a hypothesis: completeness of the index itself (every edge is in some index cell: C06)
  and, for a FINITE limit, that the covering of the search disc contains every index cell holding an
  edge within the limit (C05 / C12 geometry).
-/
import S2Proofs.CellIDAlgebraChildren
import S2Proofs.EdgeQuery.Cover
import S2Proofs.EdgeQuery.SearchDefs
open S2 S2.CellID S2.EdgeQueryM
namespace S2Proofs.EdgeQuery
namespace Roots

variable {D : Type}

/-- a concrete index: `(cell id, clipped edges of the cell)` in cell-id order -/
abbrev CIndex := List (CellID × List EdgeKey)

def ids (ix : CIndex) : List CellID := ix.map (·.1)

/-- does the cell contain an index cell (the two `seek`s of `findEdgesOptimized`) -/
def hasIndexCell (ix : CIndex) (k : CellID) : Bool := (ids ix).any (fun x => contains k x)

/-- the part of the cell tree below `c` that the search can reach -/
def subtree (ix : CIndex) (cd : CellID → D → Option D) : Nat → CellID → Cell D
  | 0, c => .index (cd c) ((ix.lookup c).getD [])
  | fuel+1, c =>
    match ix.lookup c with
    | some es => .index (cd c) es
    | none => .node (cd c)
        ((([1, 0, 3, 2].map (child c)).filter (hasIndexCell ix)).map (subtree ix cd fuel))

theorem lookup_mem_ids (ix : CIndex) {x : CellID} {es : List EdgeKey}
    (h : ix.lookup x = some es) : x ∈ ids ix := by
  induction ix with
  | nil => simp [List.lookup] at h
  | cons p t ih =>
    obtain ⟨a, b⟩ := p
    unfold List.lookup at h
    split at h
    · rename_i heq
      have : x = a := by simpa using heq
      simp [ids, this]
    · have := ih h
      simp only [ids, List.map_cons, List.mem_cons]
      exact Or.inr this

theorem lookup_none_not_mem (ix : CIndex) {x : CellID} (h : ix.lookup x = none) : x ∉ ids ix := by
  induction ix with
  | nil => simp [ids]
  | cons p t ih =>
    obtain ⟨a, b⟩ := p
    unfold List.lookup at h
    split at h
    · cases h
    · rename_i hne
      have hxa : x ≠ a := by simpa using hne
      simp only [ids, List.map_cons, List.mem_cons, not_or]
      exact ⟨hxa, ih h⟩

theorem mem_edgesUnderList {l : List (Cell D)} {c : Cell D} (hc : c ∈ l) {e : EdgeKey}
    (he : e ∈ edgesUnder c) : e ∈ edgesUnderList l := by
  induction l with
  | nil => cases hc
  | cons x xs ih =>
    simp only [edgesUnderList, List.mem_append]
    rcases List.mem_cons.1 hc with rfl | hc
    · exact Or.inl he
    · exact Or.inr (ih hc)

theorem exists_of_mem_edgesUnderList {l : List (Cell D)} {e : EdgeKey}
    (he : e ∈ edgesUnderList l) : ∃ c ∈ l, e ∈ edgesUnder c := by
  induction l with
  | nil => simp [edgesUnderList] at he
  | cons x xs ih =>
    simp only [edgesUnderList, List.mem_append] at he
    rcases he with he | he
    · exact ⟨x, by simp, he⟩
    · obtain ⟨c, hc, h⟩ := ih he
      exact ⟨c, List.mem_cons_of_mem _ hc, h⟩

/-- two different cells of a sorted disjoint list do not contain one another -/
theorem not_contains_of_ne {cells : List CellID} (hok : IndexCellsOK cells) {c x : CellID}
    (hc : c ∈ cells) (hx : x ∈ cells) (hne : c ≠ x) : contains c x = false := by
  obtain ⟨kc, hkc⟩ := (isValid_iff c).mp (hok.valid c hc)
  obtain ⟨kx, hkx⟩ := (isValid_iff x).mp (hok.valid x hx)
  have hdis : rangeMax c < rangeMin x ∨ rangeMax x < rangeMin c := by
    have := hok.sorted
    clear hkc hkx
    induction cells with
    | nil => cases hc
    | cons a t ih =>
      rw [List.pairwise_cons] at this
      rcases List.mem_cons.1 hc with rfl | hc' <;> rcases List.mem_cons.1 hx with rfl | hx'
      · exact absurd rfl hne
      · exact Or.inl (this.1 x hx')
      · exact Or.inr (this.1 c hc')
      · -- both in the tail: a smaller instance (validity / non-emptiness are not used)
        have hok' : IndexCellsOK t :=
          ⟨List.ne_nil_of_mem hc', fun y hy => hok.valid y (List.mem_cons_of_mem _ hy), this.2⟩
        exact ih hok' hc' hx' this.2
  cases hcx : contains c x with
  | false => rfl
  | true =>
    exfalso
    rw [contains_iff] at hcx
    have h1 := hkx.rangeMin_le
    rcases hdis with h | h
    · have := UInt64.lt_iff_toNat_lt.mp h; omega
    · have := UInt64.lt_iff_toNat_lt.mp h; omega

/-- DESCENT IS COMPLETE: below a cell `c` the tree holds the edges of every index cell inside `c` -/
theorem subtree_complete (ix : CIndex) (cd : CellID → D → Option D) (hok : IndexCellsOK (ids ix)) :
    ∀ (fuel : Nat) (c : CellID) (k : Nat), IsCell c k →
      ∀ (x : CellID) (es : List EdgeKey) (j : Nat), ix.lookup x = some es → IsCell x j →
        contains c x = true → j ≤ k + fuel → ∀ e ∈ es, e ∈ edgesUnder (subtree ix cd fuel c) := by
  intro fuel
  induction fuel with
  | zero =>
    intro c k hc x es j hl hx hcx hj e he
    have hp := (hc.contains_iff_parent hx).mp hcx
    have hkj : k = j := by omega
    subst hkj
    have hxc : x = c := by rw [← hp.2, hx.parent_self_id]
    subst hxc
    simp only [subtree, hl, Option.getD_some, edgesUnder]
    exact he
  | succ fuel ih =>
    intro c k hc x es j hl hx hcx hj e he
    have hxm := lookup_mem_ids ix hl
    unfold subtree
    cases hlc : ix.lookup c with
    | some es' =>
      have hcm := lookup_mem_ids ix hlc
      have hxc : c = x := by
        by_contra hne
        rw [not_contains_of_ne hok hcm hxm hne] at hcx; cases hcx
      subst hxc
      rw [hl] at hlc
      cases hlc
      simp only [edgesUnder]
      exact he
    | none =>
      have hne : x ≠ c := fun h => lookup_none_not_mem ix hlc (h ▸ hxm)
      obtain ⟨hk30, t, ⟨ht, hct⟩, _⟩ := hc.unique_child hx hcx hne
      simp only [edgesUnder]
      have hkid : child c t ∈ ([1, 0, 3, 2].map (child c)).filter (hasIndexCell ix) := by
        rw [List.mem_filter]
        constructor
        · have : t = 0 ∨ t = 1 ∨ t = 2 ∨ t = 3 := by omega
          rcases this with rfl | rfl | rfl | rfl <;> simp
        · unfold hasIndexCell
          rw [List.any_eq_true]
          exact ⟨x, hxm, hct⟩
      apply mem_edgesUnderList (List.mem_map.2 ⟨child c t, hkid, rfl⟩)
      have hj' : j ≤ (k + 1) + fuel := by omega
      exact ih (child c t) (k+1) (hc.child_isCell hk30 ht) x es j hl hx hct hj' e he

/-- DESCENT IS SOUND: every edge below a cell of the tree is an edge of some index cell -/
theorem subtree_sound (ix : CIndex) (cd : CellID → D → Option D) :
    ∀ (fuel : Nat) (c : CellID) (e : EdgeKey), e ∈ edgesUnder (subtree ix cd fuel c) →
      ∃ x es, ix.lookup x = some es ∧ e ∈ es := by
  intro fuel
  induction fuel with
  | zero =>
    intro c e he
    simp only [subtree, edgesUnder] at he
    cases hl : ix.lookup c with
    | none => rw [hl] at he; simp at he
    | some es => rw [hl] at he; exact ⟨c, es, hl, by simpa using he⟩
  | succ fuel ih =>
    intro c e he
    unfold subtree at he
    cases hl : ix.lookup c with
    | some es => rw [hl] at he; exact ⟨c, es, hl, by simpa [edgesUnder] using he⟩
    | none =>
      rw [hl] at he
      simp only [edgesUnder] at he
      obtain ⟨kid, hkid, hek⟩ := exists_of_mem_edgesUnderList he
      obtain ⟨c', _, rfl⟩ := List.mem_map.1 hkid
      exact ih c' e hek

/-- the cells `initQueue` starts from when the limit is infinite: the trees below `indexCovering` -/
def coveringRoots (ix : CIndex) (cd : CellID → D → Option D) (cov : List (CellID × Bool)) :
    List (Cell D) :=
  cov.map (fun p => subtree ix cd 30 p.1)

/-- `rootsComplete` for the unbounded search, FROM `initCovering_spec`: every edge of every index
    cell is below the initial cells -/
theorem covering_roots_complete (ix : CIndex) (cd : CellID → D → Option D)
    (hok : IndexCellsOK (ids ix)) {cov : List (CellID × Bool)} (hcov : initCovering (ids ix) = some cov)
    {x : CellID} {es : List EdgeKey} (hl : ix.lookup x = some es) :
    ∀ e ∈ es, e ∈ edgesUnderList (coveringRoots ix cd cov) := by
  obtain ⟨cov', h0, _, _, _, _, hvalid, _, hcover, _⟩ := initCovering_spec (ids ix) hok
  rw [hcov] at h0
  cases h0
  have hxm := lookup_mem_ids ix hl
  obtain ⟨p, hp, hin⟩ := hcover x hxm
  obtain ⟨k, hk⟩ := (isValid_iff p.1).mp (hvalid p hp)
  obtain ⟨j, hj⟩ := (isValid_iff x).mp (hok.valid x hxm)
  have hcx : contains p.1 x = true := by
    rw [contains_iff]
    have h1 := hj.rangeMin_le
    have h2 := UInt64.le_iff_toNat_le.mp hin.1
    have h3 := UInt64.le_iff_toNat_le.mp hin.2
    omega
  intro e he
  apply mem_edgesUnderList (List.mem_map.2 ⟨p, hp, rfl⟩)
  exact subtree_complete ix cd hok 30 p.1 k hk x es j hl hj hcx (by have := hj.k_le; omega) e he

/-- `rootsSound` for the same cells -/
theorem covering_roots_sound (ix : CIndex) (cd : CellID → D → Option D) (cov : List (CellID × Bool))
    {e : EdgeKey} (he : e ∈ edgesUnderList (coveringRoots ix cd cov)) :
    ∃ x es, ix.lookup x = some es ∧ e ∈ es := by
  obtain ⟨c, hc, hec⟩ := exists_of_mem_edgesUnderList he
  obtain ⟨p, _, rfl⟩ := List.mem_map.1 hc
  exact subtree_sound ix cd 30 p.1 e hec

/-! ## Non-vacuity: an index of four cells of mixed levels on two faces -/

def exIndex : CIndex :=
  [(child (child (fromFace 0) 1) 2, [⟨0, 0⟩, ⟨0, 1⟩]),
   (child (fromFace 0) 3, [⟨0, 1⟩, ⟨0, 2⟩]),
   (child (child (child (fromFace 4) 0) 1) 2, [⟨1, 0⟩]),
   (child (fromFace 4) 2, [⟨1, 0⟩, ⟨1, 1⟩])]

theorem exIndex_ok : IndexCellsOK (ids exIndex) := by decide +kernel

theorem exIndex_cov : initCovering (ids exIndex) = some [(fromFace 0, false), (fromFace 4, false)] := by
  decide +kernel

end Roots
end S2Proofs.EdgeQuery
