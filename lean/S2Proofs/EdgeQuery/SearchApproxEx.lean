/-
  S2Proofs.EdgeQuery.SearchApproxEx — concrete worlds witnessing the hypotheses of the theorems
  about approximate targets (non-vacuity), for BOTH distance types:

  * `SingleEx1.w1` (closest, target overestimates by 3, permitted error 7)  — from `SearchSingle`
  * `FurthestEx.wF` (furthest, target UNDERestimates by 3, permitted error 7)
  * `SloppyEx.wC` / `SloppyEx.wF`: the targets of the threshold calls (`maxError = straight`): they
    report the WORST value the contract allows (just inside the limit handed in).
  In every world the big index cell (11 edges) is really enqueued, the small one is processed
  directly, and the edge lists are duplicate-free.
  Core-only.
-/
import S2.EdgeQueryM
import S2Proofs.EdgeQuery.SearchSingle
open S2 S2.EdgeQueryM
namespace S2Proofs.EdgeQuery

/-! ## Instance facts about `minDist` / `maxDist` -/

/-- `ChordAngle.Sub` never subtracts more than the error -/
theorem minDist_sub_ge (top a e : Int) (he : 0 ≤ e) : a - e ≤ (minDist top).sub a e := by
  simp only [minDist]
  repeat' split
  all_goals simp_all
  all_goals omega

/-- `ChordAngle.Add` never adds more than the error -/
theorem maxDist_sub_le (top a e : Int) (he : 0 ≤ e) : (maxDist top).sub a e ≤ a + e := by
  simp only [maxDist]
  repeat' split
  all_goals simp_all
  all_goals omega

theorem minDist_sub_le_self (top a e : Int) (he : 0 ≤ e) : (minDist top).sub a e ≤ a := by
  simp only [minDist]
  repeat' split
  all_goals simp_all
  all_goals omega

theorem maxDist_sub_ge_self (top a e : Int) (he : 0 ≤ e) : a ≤ (maxDist top).sub a e := by
  simp only [maxDist]
  repeat' split
  all_goals simp_all
  all_goals omega

/-- the side condition `hq` of the threshold theorems for a furthest-edge query
    (`straight = top = zero`): every finite distance plus 180° is 180° -/
theorem maxDist_hq (top t : Int) (ht : -1 ≤ t) :
    ∀ x, (maxDist top).less x (maxDist top).zero = false → (maxDist top).less x t = true →
      (maxDist top).less (maxDist top).zero ((maxDist top).sub x top) = false := by
  intro x h1 h2
  simp only [maxDist, decide_eq_false_iff_not, decide_eq_true_eq] at *
  repeat' split
  all_goals simp_all
  all_goals omega

/-- the same for a closest-edge query (`straight = top`), thresholds up to `infinity = top + 1` -/
theorem minDist_hq (top t : Int) (ht : t ≤ top + 1) :
    ∀ x, (minDist top).less x (minDist top).zero = false → (minDist top).less x t = true →
      (minDist top).less (minDist top).zero ((minDist top).sub x top) = false := by
  intro x h1 h2
  simp only [minDist, decide_eq_false_iff_not, decide_eq_true_eq] at *
  repeat' split
  all_goals simp_all
  all_goals omega

/-! ## A furthest-edge world whose target underestimates by 3 -/

namespace FurthestEx
open SingleEx0

/-- true distances: 960, 950, 940 (cell A); 974, 977, 980, 971, … (cell B) -/
def dF (e : EdgeKey) : Int := 1000 - (min (tab e.edge.toNat) 100 : Nat)

/-- reports `m - 3` if that is within (= above) the limit, else `m` if that is, else "not ok" -/
def approxF (m : Int) : Int → Option Int :=
  fun lim => if m - 3 > lim then some (m - 3) else if m > lim then some m else none

def cAF : Cell Int := .index (approxF 965) eA
def cBF : Cell Int := .index (approxF 982) eB
def rootF : Cell Int := .node (approxF 985) [cAF, cBF]

def wF : World Int where
  updEdge e lim := approxF (dF e) lim
  allEdges := eA ++ eB
  interiors := [0]
  small := false
  emptyTarget := false
  located := some eA
  roots _ := [rootF]

/-- options of a furthest-edge query with `MaxError = 7` and a shape-index target -/
def oF (k : Nat) (lim : Int) (interiors brute : Bool) : Opts Int where
  maxResults := k
  distanceLimit := lim
  maxError := 7
  includeInteriors := interiors
  useBruteForce := brute
  targetUsesMaxError := true

theorem approxF_some {m lim x : Int} (h : approxF m lim = some x) : x > lim ∧ x ≤ m ∧ m ≤ x + 3 := by
  unfold approxF at h
  split at h
  · simp only [Option.some.injEq] at h; omega
  · split at h
    · simp only [Option.some.injEq] at h; omega
    · cases h

theorem approxF_none {m lim : Int} (h : approxF m lim = none) : ¬ m > lim := by
  unfold approxF at h
  split at h
  · cases h
  · split at h
    · cases h
    · assumption

theorem subF7 {x y : Int} (hx : 0 ≤ x) (hx' : x ≤ 1000) (h : y ≤ x + 3) (hy : y ≤ 1000) :
    (maxDist 1000).less y ((maxDist 1000).sub x 7) = false := by
  simp only [maxDist, decide_eq_false_iff_not]
  repeat' split
  all_goals simp_all
  all_goals omega

theorem dF_range (e : EdgeKey) : 900 ≤ dF e ∧ dF e ≤ 1000 := by
  simp only [dF]; omega

theorem cellApprox_approxF (c : Cell Int) (m : Int) (h0 : 100 ≤ m) (h9 : m ≤ 1000)
    (hcd : c.cd = approxF m) (h : ∀ e ∈ edgesUnder c, dF e ≤ m) :
    CellApprox (maxDist 1000) 7 dF c := by
  intro lim
  rw [hcd]
  constructor
  · intro hn e he
    have := h e he
    have := approxF_none hn
    simp only [maxDist, decide_eq_false_iff_not]; omega
  · intro x hx
    obtain ⟨a, b, c'⟩ := approxF_some hx
    refine ⟨by simpa [maxDist] using a, ?_⟩
    intro e he
    have := h e he
    have := dF_range e
    exact subF7 (by omega) (by omega) (by omega) (by omega)

theorem wF_ok : WorldApprox (maxDist 1000) 7 wF dF where
  approxEdge e lim x hx := by
    obtain ⟨a, b, c⟩ := approxF_some hx
    have := dF_range e
    refine ⟨by simpa [maxDist] using a, by simp only [maxDist, decide_eq_false_iff_not]; omega,
      subF7 (by omega) (by omega) (by omega) (by omega)⟩
  approxEdgeNone e lim hx := by
    have := approxF_none hx
    simp only [maxDist, decide_eq_false_iff_not]; exact this
  cellApprox lim c hc := by
    have hc' : c = rootF ∨ c = cAF ∨ c = cBF := by
      simpa [wF, cellsOfList, cellsOf, rootF, cAF, cBF] using hc
    rcases hc' with rfl | rfl | rfl
    · exact cellApprox_approxF _ 985 (by omega) (by omega) rfl
        (by simp only [rootF, cAF, cBF, edgesUnder, edgesUnderList]; decide)
    · exact cellApprox_approxF _ 965 (by omega) (by omega) rfl (by simp only [cAF, edgesUnder]; decide)
    · exact cellApprox_approxF _ 982 (by omega) (by omega) rfl (by simp only [cBF, edgesUnder]; decide)
  rootsComplete lim e he _ := by
    simpa [wF, edgesUnderList, edgesUnder, rootF, cAF, cBF] using he
  rootsSound lim e he := by
    simpa [wF, edgesUnderList, edgesUnder, rootF, cAF, cBF] using he
  locatedSound es hes e he := by
    simp only [wF, Option.some.injEq] at hes
    subst hes
    exact List.mem_append_left _ he
  nonEmptyTarget := rfl
  zeroMin e := by
    have := dF_range e
    simp only [maxDist, decide_eq_false_iff_not]; omega

theorem wF_nodup : wF.allEdges.Nodup := by decide

end FurthestEx

/-! ## The closest-edge world of `SearchSingle` with `MaxResults > 1` -/

namespace SingleEx1

/-- options of a closest-edge query with `MaxError = 7` and a shape-index target -/
def oC (k : Nat) (lim : Int) (interiors brute : Bool) : Opts Int where
  maxResults := k
  distanceLimit := lim
  maxError := 7
  includeInteriors := interiors
  useBruteForce := brute
  targetUsesMaxError := true

theorem w1_nodup : w1.allEdges.Nodup := by decide

end SingleEx1

/-! ## Targets of the threshold calls: as sloppy as `maxError = 180°` allows -/

namespace SloppyEx
open SingleEx0

/-- closest: reports the largest value below the limit (capped at 180° = 1000) -/
def sloppyC (m : Int) : Int → Option Int :=
  fun lim => if m < lim then some (max m (min (lim - 1) 1000)) else none

/-- furthest: reports the smallest value above the limit (at least 0) -/
def sloppyF (m : Int) : Int → Option Int :=
  fun lim => if m > lim then some (min m (max (lim + 1) 0)) else none

def wC : World Int where
  updEdge e lim := sloppyC (SingleEx1.d1 e) lim
  allEdges := eA ++ eB
  interiors := [0]
  small := false
  emptyTarget := false
  located := some eA
  roots _ := [.node (sloppyC 15) [.index (sloppyC 35) eA, .index (sloppyC 18) eB]]

def wF : World Int where
  updEdge e lim := sloppyF (FurthestEx.dF e) lim
  allEdges := eA ++ eB
  interiors := [0]
  small := false
  emptyTarget := false
  located := some eA
  roots _ := [.node (sloppyF 985) [.index (sloppyF 965) eA, .index (sloppyF 982) eB]]

/-- options of the caller (the threshold call overrides MaxResults, DistanceLimit, MaxError) -/
def oT (top : Int) (interiors brute : Bool) : Opts Int where
  maxResults := 5
  distanceLimit := top
  maxError := 0
  includeInteriors := interiors
  useBruteForce := brute
  targetUsesMaxError := true

theorem sloppyC_some {m lim x : Int} (h : sloppyC m lim = some x) :
    x < lim ∧ m ≤ x ∧ (m ≤ 1000 → x ≤ 1000) := by
  unfold sloppyC at h
  split at h
  · simp only [Option.some.injEq] at h; omega
  · cases h

theorem sloppyC_none {m lim : Int} (h : sloppyC m lim = none) : ¬ m < lim := by
  unfold sloppyC at h
  split at h
  · cases h
  · assumption

theorem sloppyF_some {m lim x : Int} (h : sloppyF m lim = some x) :
    x > lim ∧ x ≤ m ∧ (0 ≤ m → 0 ≤ x) := by
  unfold sloppyF at h
  split at h
  · simp only [Option.some.injEq] at h; omega
  · cases h

theorem sloppyF_none {m lim : Int} (h : sloppyF m lim = none) : ¬ m > lim := by
  unfold sloppyF at h
  split at h
  · cases h
  · assumption

theorem subC1000 {x y : Int} (hx : 0 ≤ x) (hx' : x ≤ 1000) (hy : 0 ≤ y) :
    (minDist 1000).less y ((minDist 1000).sub x 1000) = false := by
  simp only [minDist, decide_eq_false_iff_not]
  repeat' split
  all_goals simp_all
  all_goals omega

theorem subF1000 {x y : Int} (hx : 0 ≤ x) (hx' : x ≤ 1000) (hy : y ≤ 1000) :
    (maxDist 1000).less y ((maxDist 1000).sub x 1000) = false := by
  simp only [maxDist, decide_eq_false_iff_not]
  repeat' split
  all_goals simp_all
  all_goals omega

theorem d1_range (e : EdgeKey) : 0 ≤ SingleEx1.d1 e ∧ SingleEx1.d1 e ≤ 100 := by
  simp only [SingleEx1.d1]; omega

theorem cellApprox_sloppyC (c : Cell Int) (m : Int) (h0 : 0 ≤ m) (h9 : m ≤ 1000)
    (hcd : c.cd = sloppyC m) (h : ∀ e ∈ edgesUnder c, m ≤ SingleEx1.d1 e) :
    CellApprox (minDist 1000) 1000 SingleEx1.d1 c := by
  intro lim
  rw [hcd]
  constructor
  · intro hn e he
    have := h e he
    have := sloppyC_none hn
    simp only [minDist, decide_eq_false_iff_not]; omega
  · intro x hx
    obtain ⟨a, b, c'⟩ := sloppyC_some hx
    refine ⟨by simpa [minDist] using a, ?_⟩
    intro e he
    have := d1_range e
    exact subC1000 (by omega) (c' h9) (by omega)

theorem cellApprox_sloppyF (c : Cell Int) (m : Int) (h0 : 0 ≤ m) (h9 : m ≤ 1000)
    (hcd : c.cd = sloppyF m) (h : ∀ e ∈ edgesUnder c, FurthestEx.dF e ≤ m) :
    CellApprox (maxDist 1000) 1000 FurthestEx.dF c := by
  intro lim
  rw [hcd]
  constructor
  · intro hn e he
    have := h e he
    have := sloppyF_none hn
    simp only [maxDist, decide_eq_false_iff_not]; omega
  · intro x hx
    obtain ⟨a, b, c'⟩ := sloppyF_some hx
    refine ⟨by simpa [maxDist] using a, ?_⟩
    intro e he
    have := FurthestEx.dF_range e
    exact subF1000 (c' h0) (by omega) (by omega)

theorem wC_ok : WorldApprox (minDist 1000) 1000 wC SingleEx1.d1 where
  approxEdge e lim x hx := by
    obtain ⟨a, b, c⟩ := sloppyC_some hx
    have := d1_range e
    refine ⟨by simpa [minDist] using a, by simp only [minDist, decide_eq_false_iff_not]; omega,
      subC1000 (by omega) (c (by omega)) (by omega)⟩
  approxEdgeNone e lim hx := by
    have := sloppyC_none hx
    simp only [minDist, decide_eq_false_iff_not]; exact this
  cellApprox lim c hc := by
    have hc' : c = .node (sloppyC 15) [.index (sloppyC 35) eA, .index (sloppyC 18) eB] ∨
        c = .index (sloppyC 35) eA ∨ c = .index (sloppyC 18) eB := by
      simpa [wC, cellsOfList, cellsOf] using hc
    rcases hc' with rfl | rfl | rfl
    · exact cellApprox_sloppyC _ 15 (by omega) (by omega) rfl
        (by simp only [edgesUnder, edgesUnderList]; decide)
    · exact cellApprox_sloppyC _ 35 (by omega) (by omega) rfl (by simp only [edgesUnder]; decide)
    · exact cellApprox_sloppyC _ 18 (by omega) (by omega) rfl (by simp only [edgesUnder]; decide)
  rootsComplete lim e he _ := by
    simpa [wC, edgesUnderList, edgesUnder] using he
  rootsSound lim e he := by
    simpa [wC, edgesUnderList, edgesUnder] using he
  locatedSound es hes e he := by
    simp only [wC, Option.some.injEq] at hes
    subst hes
    exact List.mem_append_left _ he
  nonEmptyTarget := rfl
  zeroMin e := by
    have := d1_range e
    simp only [minDist, decide_eq_false_iff_not]; omega

theorem wF_ok : WorldApprox (maxDist 1000) 1000 wF FurthestEx.dF where
  approxEdge e lim x hx := by
    obtain ⟨a, b, c⟩ := sloppyF_some hx
    have := FurthestEx.dF_range e
    refine ⟨by simpa [maxDist] using a, by simp only [maxDist, decide_eq_false_iff_not]; omega,
      subF1000 (c (by omega)) (by omega) (by omega)⟩
  approxEdgeNone e lim hx := by
    have := sloppyF_none hx
    simp only [maxDist, decide_eq_false_iff_not]; exact this
  cellApprox lim c hc := by
    have hc' : c = .node (sloppyF 985) [.index (sloppyF 965) eA, .index (sloppyF 982) eB] ∨
        c = .index (sloppyF 965) eA ∨ c = .index (sloppyF 982) eB := by
      simpa [wF, cellsOfList, cellsOf] using hc
    rcases hc' with rfl | rfl | rfl
    · exact cellApprox_sloppyF _ 985 (by omega) (by omega) rfl
        (by simp only [edgesUnder, edgesUnderList]; decide)
    · exact cellApprox_sloppyF _ 965 (by omega) (by omega) rfl (by simp only [edgesUnder]; decide)
    · exact cellApprox_sloppyF _ 982 (by omega) (by omega) rfl (by simp only [edgesUnder]; decide)
  rootsComplete lim e he _ := by
    simpa [wF, edgesUnderList, edgesUnder] using he
  rootsSound lim e he := by
    simpa [wF, edgesUnderList, edgesUnder] using he
  locatedSound es hes e he := by
    simp only [wF, Option.some.injEq] at hes
    subst hes
    exact List.mem_append_left _ he
  nonEmptyTarget := rfl
  zeroMin e := by
    have := FurthestEx.dF_range e
    simp only [maxDist, decide_eq_false_iff_not]; omega

end SloppyEx

end S2Proofs.EdgeQuery
