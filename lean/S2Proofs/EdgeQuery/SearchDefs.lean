/-
  S2Proofs.EdgeQuery.SearchDefs — vocabulary and hypotheses of the search theorems (C08 iii).
-/
import S2.EdgeQueryM
import S2Proofs.EdgeQuery.Laws
open S2 S2.EdgeQueryM
namespace S2Proofs.EdgeQuery

variable {D : Type}

mutual
/-- the edge keys stored in the index cells of a subtree -/
def edgesUnder : Cell D → List EdgeKey
  | .index _ edges => edges
  | .node _ kids => edgesUnderList kids
def edgesUnderList : List (Cell D) → List EdgeKey
  | [] => []
  | c :: cs => edgesUnder c ++ edgesUnderList cs
end

mutual
/-- all cells of a subtree (the cell itself first) -/
def cellsOf : Cell D → List (Cell D)
  | .index cd edges => [.index cd edges]
  | .node cd kids => .node cd kids :: cellsOfList kids
def cellsOfList : List (Cell D) → List (Cell D)
  | [] => []
  | c :: cs => cellsOf c ++ cellsOfList cs
end

/-- `updateDistanceToCell` is sound for a cell, for a target that does NOT use `maxError`:
    "not ok" means no edge below the cell is within the limit handed in; "ok, x" means `x` is within
    the limit and is a lower bound on the distance of every edge below the cell.
    (`d` = the true distance of an edge to the target.)  This is the numeric hypothesis that
    belongs to C12 / C17. -/
def CellLB (I : DistI D) (d : EdgeKey → D) (c : Cell D) : Prop :=
  ∀ lim, (c.cd lim = none → ∀ e ∈ edgesUnder c, I.less (d e) lim = false) ∧
         (∀ x, c.cd lim = some x → I.less x lim = true ∧ ∀ e ∈ edgesUnder c, I.less (d e) x = false)

/-- hypotheses tying the abstract world to true distances `d`, exact target -/
structure WorldOK (I : DistI D) (w : World D) (d : EdgeKey → D) : Prop where
  /-- `updateDistanceToEdge(e, lim)` = (d e, true) iff `d e` is `less` than `lim` -/
  exactEdge : ∀ e lim, w.updEdge e lim = if I.less (d e) lim then some (d e) else none
  /-- every cell the search can meet has a sound distance bound -/
  cellLB : ∀ lim, ∀ c ∈ cellsOfList (w.roots lim), CellLB I d c
  /-- the initial cells contain every edge that is within the current limit (the index covering is
      complete and the search disc contains everything within the limit) -/
  rootsComplete : ∀ lim, ∀ e ∈ w.allEdges, I.less (d e) lim = true → e ∈ edgesUnderList (w.roots lim)
  /-- index cells only hold edges of the index -/
  rootsSound : ∀ lim, ∀ e ∈ edgesUnderList (w.roots lim), e ∈ w.allEdges
  locatedSound : ∀ es, w.located = some es → ∀ e ∈ es, e ∈ w.allEdges
  /-- the target is not empty (an empty target makes the optimized path return nothing) -/
  nonEmptyTarget : w.emptyTarget = false
  /-- nothing is closer than `zero` -/
  zeroMin : ∀ e, I.less (d e) I.zero = false

end S2Proofs.EdgeQuery
