/-
  S2Proofs.EdgeQuery.RegionsNested — the EXACT regions of the float cells are nested (package c08world2, goal 1).

  The uv bounds of `CellFromCellID(x)` (`IsCell x n`) are the four floats `stToUV(k/2^30)` at the grid indices
  `I·2^m, (I+1)·2^m, J·2^m, (J+1)·2^m` (`m = 30 − n`, `(I, J)` the Hilbert prefix state; `C12.cell_bound_is_square`).
  The float `stToUV` is MONOTONE on the grid `k/2^30` (strictly: consecutive grid points differ by ≥ 2^-31 —
  `C12Dist.CellOK.stToUV_g_gap`, from the 2-ulp accuracy `stToUV_g_close` and the gap `(1/3)·2^-29` of the real map),
  and the ij-square of a descendant lies in the ij-square of its ancestor (`prefixState_mono`); hence the float
  uv-rectangle of a descendant lies in the float uv-rectangle of every ancestor, on the same face, and so does the
  exact spherical region `InCellXYZ`.
-/
import S2Proofs.C12Dist.CellOK
import S2Proofs.CellIDAlgebraChildren

namespace S2Proofs.C08World
open S2 S2.CellID S2.STUV S2.CellM S2Proofs.F64Order
open S2Proofs.C12M S2Proofs.C12ST S2Proofs.C12C S2Proofs.C12H S2Proofs.C12 S2Proofs.C12Dist

/-- the float `stToUV` is monotone on the grid `k/2^30` (real values) -/
theorem stToUV_grid_mono (k1 k2 : Nat) (h12 : k1 ≤ k2) (hk : k2 ≤ 2 ^ 30) :
    FloatErr.val (stToUV (ijToSTMin ((k1 : Nat) : Int))) ≤ FloatErr.val (stToUV (ijToSTMin ((k2 : Nat) : Int))) := by
  rcases Nat.lt_or_eq_of_le h12 with hlt | rfl
  · have h := CellOK.stToUV_g_gap k1 k2 hlt hk
    have hp : (0 : ℝ) < 1 / 2 ^ 31 := by positivity
    have : FloatErr.val (stToUV (g k1)) ≤ FloatErr.val (stToUV (g k2)) := by linarith
    exact this
  · exact le_refl _

/-- the float `stToUV` is STRICTLY increasing on the grid `k/2^30` (real values; gap ≥ 2^-31) -/
theorem stToUV_grid_strict (k1 k2 : Nat) (h12 : k1 < k2) (hk : k2 ≤ 2 ^ 30) :
    FloatErr.val (stToUV (ijToSTMin ((k1 : Nat) : Int))) < FloatErr.val (stToUV (ijToSTMin ((k2 : Nat) : Int))) := by
  have h := CellOK.stToUV_g_gap k1 k2 h12 hk
  have hp : (0 : ℝ) < 1 / 2 ^ 31 := by positivity
  have : FloatErr.val (stToUV (g k1)) < FloatErr.val (stToUV (g k2)) := by linarith
  exact this

/-- an ancestor has the same face -/
theorem face_parent {x : CellID} {j i : Nat} (hx : IsCell x j) (hi : i ≤ j) : face (parent x i) = face x := by
  have hj := hx.k_le
  have hi30 : i ≤ 30 := by omega
  apply face_congr hi30
  rw [parent_toNat x i hi30]
  interval_cases i <;> cell_omega

/-- arithmetic of nested ij-squares -/
theorem square_nested {Ii Ij i j : Nat} (hij : i ≤ j) (hj : j ≤ 30)
    (h1 : Ii * 2 ^ (j - i) ≤ Ij) (h2 : Ij < (Ii + 1) * 2 ^ (j - i)) :
    Ii * 2 ^ (30 - i) ≤ Ij * 2 ^ (30 - j) ∧ (Ij + 1) * 2 ^ (30 - j) ≤ (Ii + 1) * 2 ^ (30 - i) := by
  have e : 2 ^ (30 - i) = 2 ^ (j - i) * 2 ^ (30 - j) := by
    rw [← Nat.pow_add]; congr 1; omega
  rw [e]
  constructor
  · rw [← Nat.mul_assoc]; exact Nat.mul_le_mul_right _ h1
  · rw [← Nat.mul_assoc]; exact Nat.mul_le_mul_right _ h2

/-- **the float uv-rectangle of a cell lies inside the float uv-rectangle of every cell containing it, and the two cells
    are on the same face** -/
theorem rect_nested {y x : CellID} (hy : isValid y = true) (hx : isValid x = true) (hc : contains y x = true) :
    (cellFromCellID y).face = (cellFromCellID x).face ∧
    (rectOf (cellFromCellID y)).u0 ≤ (rectOf (cellFromCellID x)).u0 ∧
    (rectOf (cellFromCellID x)).u1 ≤ (rectOf (cellFromCellID y)).u1 ∧
    (rectOf (cellFromCellID y)).v0 ≤ (rectOf (cellFromCellID x)).v0 ∧
    (rectOf (cellFromCellID x)).v1 ≤ (rectOf (cellFromCellID y)).v1 := by
  obtain ⟨i, hyi⟩ := (isValid_iff y).1 hy
  obtain ⟨j, hxj⟩ := (isValid_iff x).1 hx
  obtain ⟨hij, hp⟩ := (hyi.contains_iff_parent hxj).1 hc
  obtain ⟨huvy, hfy⟩ := cell_bound_is_square hyi
  obtain ⟨huvx, hfx⟩ := cell_bound_is_square hxj
  have hpre : prefixState y i = prefixState x i := by rw [← hp]; exact prefixState_parent hxj hij
  have hface : face y = face x := by rw [← hp]; exact face_parent hxj hij
  obtain ⟨m1, m2, m3, m4⟩ := prefixState_mono x i j hij
  obtain ⟨hIj, hJj, -⟩ := prefixState_bounds x j
  obtain ⟨hIi, hJi, -⟩ := prefixState_bounds x i
  have hj30 := hxj.k_le
  obtain ⟨a1, a2⟩ := square_nested hij hj30 m1 m2
  obtain ⟨b1, b2⟩ := square_nested hij hj30 m3 m4
  have cI := CellOK.square_le (by omega : i ≤ 30) hIi
  have cJ := CellOK.square_le (by omega : i ≤ 30) hJi
  have cIj := CellOK.square_le hj30 hIj
  have cJj := CellOK.square_le hj30 hJj
  unfold rectOf
  rw [huvy, huvx, hfy, hfx, hpre]
  unfold boundOf
  simp only
  refine ⟨hface, ?_, ?_, ?_, ?_⟩
  · exact stToUV_grid_mono _ _ a1 (le_trans (Nat.mul_le_mul_right _ (Nat.le_succ _)) cIj)
  · exact stToUV_grid_mono _ _ a2 cI
  · exact stToUV_grid_mono _ _ b1 (le_trans (Nat.mul_le_mul_right _ (Nat.le_succ _)) cJj)
  · exact stToUV_grid_mono _ _ b2 cJ

/-- **`RegionsNested`: the exact region of a cell lies inside the exact region of every cell containing it** -/
theorem regions_nested (y x : CellID) (hy : isValid y = true) (hx : isValid x = true) (hc : contains y x = true)
    (q : S2Proofs.C16Acc.R3) (hq : InCellXYZ (cellFromCellID x) q) : InCellXYZ (cellFromCellID y) q := by
  obtain ⟨hf, h0, h1, h2, h3⟩ := rect_nested hy hx hc
  unfold InCellXYZ InCell at hq ⊢
  rw [hf]
  obtain ⟨n1, zp, q0, q1, q2, q3⟩ := hq
  refine ⟨n1, zp, ?_, ?_, ?_, ?_⟩
  · have := mul_le_mul_of_nonneg_right h0 (le_of_lt zp); linarith
  · have := mul_le_mul_of_nonneg_right h1 (le_of_lt zp); linarith
  · have := mul_le_mul_of_nonneg_right h2 (le_of_lt zp); linarith
  · have := mul_le_mul_of_nonneg_right h3 (le_of_lt zp); linarith

-- non-vacuity: a face cell contains one of its level-2 descendants, both valid
example : isValid (fromFace 1) = true ∧ isValid (child (child (fromFace 1) 2) 3) = true ∧
    contains (fromFace 1) (child (child (fromFace 1) 2) 3) = true := by decide

end S2Proofs.C08World
