/-
  S2Proofs.EdgeQuery.Post — part (a) of the EdgeQuery model: the result post-processing
  (`Result.less`, `sortAndUniqueResults`, `postProcess`).

  Generic lemmas about `insertBy` / `sortBy` / `uniqLoop` / `uniqAdj` over an arbitrary type with a
  strict total order `lt : α → α → Bool`, then the instantiation with `Result.less I` for a
  distance type whose `less` is a strict total order (`DistOrder I`).
  Core-only (no Mathlib).
-/
import S2Proofs.EdgeQuery.Laws
open S2 S2.EdgeQueryM
namespace S2Proofs.EdgeQuery

/-! ## Strict total orders given as a Boolean relation -/

/-- `lt` is a strict total order. -/
structure StrictTotal {α : Type} (lt : α → α → Bool) : Prop where
  irrefl : ∀ a, lt a a = false
  trans : ∀ a b c, lt a b = true → lt b c = true → lt a c = true
  tri : ∀ a b, a ≠ b → lt a b = true ∨ lt b a = true

namespace StrictTotal
variable {α : Type} {lt : α → α → Bool} (S : StrictTotal lt)
include S

theorem asymm {a b : α} (h : lt a b = true) : lt b a = false := by
  cases h' : lt b a with
  | false => rfl
  | true =>
    have h'' := S.trans a b a h h'
    rw [S.irrefl] at h''
    cases h''

theorem ne_of_lt {a b : α} (h : lt a b = true) : a ≠ b := by
  intro e
  subst e
  rw [S.irrefl] at h
  cases h

theorem lt_of_not_lt {a b : α} (hne : a ≠ b) (h : lt b a = false) : lt a b = true := by
  rcases S.tri a b hne with h' | h'
  · exact h'
  · rw [h] at h'
    cases h'

theorem eq_of_not_lt {a b : α} (h1 : lt a b = false) (h2 : lt b a = false) : a = b := by
  apply Classical.byContradiction
  intro hne
  rcases S.tri a b hne with h' | h'
  · rw [h1] at h'
    cases h'
  · rw [h2] at h'
    cases h'

/-- `x < y ≤ z → x < z` -/
theorem lt_of_lt_of_not_lt {x y z : α} (h1 : lt x y = true) (h2 : lt z y = false) :
    lt x z = true := by
  by_cases e : y = z
  · subst e
    exact h1
  · exact S.trans x y z h1 (S.lt_of_not_lt e h2)

end StrictTotal

/-- weakly sorted: no later element is strictly smaller than an earlier one -/
abbrev WeakSorted {α : Type} (lt : α → α → Bool) (l : List α) : Prop :=
  l.Pairwise (fun a b => lt b a = false)

/-- strictly sorted -/
abbrev StrictSorted {α : Type} (lt : α → α → Bool) (l : List α) : Prop :=
  l.Pairwise (fun a b => lt a b = true)

/-! ## `insertBy` / `sortBy` -/

section Generic
variable {α : Type} {lt : α → α → Bool}

theorem insertBy_perm (lt : α → α → Bool) (x : α) : ∀ l : List α, (insertBy lt x l).Perm (x :: l)
  | [] => List.Perm.refl _
  | y :: ys => by
    simp only [insertBy]
    split
    · exact List.Perm.refl _
    · exact ((insertBy_perm lt x ys).cons y).trans (List.Perm.swap x y ys)

theorem sortBy_perm (lt : α → α → Bool) : ∀ l : List α, (sortBy lt l).Perm l
  | [] => List.Perm.refl _
  | x :: xs => by
    simp only [sortBy]
    exact (insertBy_perm lt x _).trans ((sortBy_perm lt xs).cons x)

theorem mem_insertBy {x z : α} {l : List α} : z ∈ insertBy lt x l ↔ z = x ∨ z ∈ l := by
  rw [(insertBy_perm lt x l).mem_iff, List.mem_cons]

theorem mem_sortBy {z : α} {l : List α} : z ∈ sortBy lt l ↔ z ∈ l :=
  (sortBy_perm lt l).mem_iff

theorem insertBy_weakSorted (S : StrictTotal lt) (x : α) :
    ∀ l : List α, WeakSorted lt l → WeakSorted lt (insertBy lt x l)
  | [], _ => by simp [insertBy, WeakSorted]
  | y :: ys, h => by
    have hy := List.pairwise_cons.mp h
    simp only [insertBy]
    split
    · rename_i hxy
      refine List.pairwise_cons.mpr ⟨?_, h⟩
      intro z hz
      rcases List.mem_cons.mp hz with e | hz'
      · subst e
        exact S.asymm hxy
      · -- `x < y`, `y ≤ z`
        exact S.asymm (S.lt_of_lt_of_not_lt hxy (hy.1 z hz'))
    · rename_i hxy
      refine List.pairwise_cons.mpr ⟨?_, insertBy_weakSorted S x ys hy.2⟩
      intro z hz
      rcases mem_insertBy.mp hz with e | hz'
      · subst e
        simpa using hxy
      · exact hy.1 z hz'

theorem sortBy_weakSorted (S : StrictTotal lt) : ∀ l : List α, WeakSorted lt (sortBy lt l)
  | [] => List.Pairwise.nil
  | x :: xs => by
    simp only [sortBy]
    exact insertBy_weakSorted S x _ (sortBy_weakSorted S xs)

/-! ## `uniqLoop` / `uniqAdj` -/

variable [DecidableEq α]

theorem mem_uniqLoop_sub {z : α} : ∀ (last : α) (l : List α), z ∈ uniqLoop last l → z ∈ l
  | _, [], h => by simp [uniqLoop] at h
  | last, x :: xs, h => by
    simp only [uniqLoop] at h
    split at h
    · exact List.mem_cons_of_mem _ (mem_uniqLoop_sub last xs h)
    · rcases List.mem_cons.mp h with e | h'
      · exact e ▸ List.mem_cons_self
      · exact List.mem_cons_of_mem _ (mem_uniqLoop_sub x xs h')

theorem mem_uniqLoop_sup {z : α} : ∀ (last : α) (l : List α), z ∈ l → z = last ∨ z ∈ uniqLoop last l
  | _, [], h => by simp at h
  | last, x :: xs, h => by
    simp only [uniqLoop]
    split
    · rename_i e
      rcases List.mem_cons.mp h with e' | h'
      · exact Or.inl (e'.trans e.symm)
      · exact mem_uniqLoop_sup last xs h'
    · rcases List.mem_cons.mp h with e' | h'
      · exact Or.inr (e' ▸ List.mem_cons_self)
      · rcases mem_uniqLoop_sup x xs h' with e'' | h''
        · exact Or.inr (e'' ▸ List.mem_cons_self)
        · exact Or.inr (List.mem_cons_of_mem _ h'')

/-- `uniqAdj` keeps exactly the members (for every list, sorted or not). -/
theorem mem_uniqAdj {z : α} : ∀ l : List α, z ∈ uniqAdj l ↔ z ∈ l
  | [] => by simp [uniqAdj]
  | x :: xs => by
    simp only [uniqAdj, List.mem_cons]
    constructor
    · rintro (e | h)
      · exact Or.inl e
      · exact Or.inr (mem_uniqLoop_sub x xs h)
    · rintro (e | h)
      · exact Or.inl e
      · exact (mem_uniqLoop_sup x xs h)

theorem uniqLoop_strictSorted (S : StrictTotal lt) :
    ∀ (last : α) (l : List α), WeakSorted lt (last :: l) → StrictSorted lt (last :: uniqLoop last l)
  | last, [], _ => by simp [uniqLoop, StrictSorted]
  | last, x :: xs, h => by
    have h1 := List.pairwise_cons.mp h
    have h2 := List.pairwise_cons.mp h1.2
    simp only [uniqLoop]
    split
    · apply uniqLoop_strictSorted S last xs
      exact List.pairwise_cons.mpr ⟨fun z hz => h1.1 z (List.mem_cons_of_mem _ hz), h2.2⟩
    · rename_i hne
      have ih := uniqLoop_strictSorted S x xs h1.2
      have hlx : lt last x = true := S.lt_of_not_lt hne (h1.1 x List.mem_cons_self)
      refine List.pairwise_cons.mpr ⟨?_, ih⟩
      intro z hz
      rcases List.mem_cons.mp hz with e | hz'
      · exact e ▸ hlx
      · exact S.trans _ _ _ hlx ((List.pairwise_cons.mp ih).1 z hz')

theorem uniqAdj_strictSorted (S : StrictTotal lt) :
    ∀ l : List α, WeakSorted lt l → StrictSorted lt (uniqAdj l)
  | [], _ => List.Pairwise.nil
  | x :: xs, h => uniqLoop_strictSorted S x xs h

omit [DecidableEq α] in
/-- a strictly sorted list has no duplicates -/
theorem StrictSorted.nodup (S : StrictTotal lt) {l : List α} (h : StrictSorted lt l) : l.Nodup :=
  List.Pairwise.imp (fun {_ _} hab => S.ne_of_lt hab) h

omit [DecidableEq α] in
/-- a strictly sorted list is weakly sorted -/
theorem StrictSorted.weak (S : StrictTotal lt) {l : List α} (h : StrictSorted lt l) :
    WeakSorted lt l :=
  List.Pairwise.imp (fun {_ _} hab => S.asymm hab) h

omit [DecidableEq α] in
/-- A strictly sorted list is determined by its set of members. -/
theorem strictSorted_ext (S : StrictTotal lt) :
    ∀ (l₁ l₂ : List α), StrictSorted lt l₁ → StrictSorted lt l₂ → (∀ z, z ∈ l₁ ↔ z ∈ l₂) → l₁ = l₂
  | [], [], _, _, _ => rfl
  | [], b :: bs, _, _, hm => by
    have := (hm b).mpr List.mem_cons_self
    simp at this
  | a :: as, [], _, _, hm => by
    have := (hm a).mp List.mem_cons_self
    simp at this
  | a :: as, b :: bs, h₁, h₂, hm => by
    have p₁ := List.pairwise_cons.mp h₁
    have p₂ := List.pairwise_cons.mp h₂
    have hab : a = b := by
      apply Classical.byContradiction
      intro hne
      have hba : lt b a = true := by
        rcases List.mem_cons.mp ((hm a).mp List.mem_cons_self) with e | h
        · exact absurd e hne
        · exact p₂.1 a h
      have hab : lt a b = true := by
        rcases List.mem_cons.mp ((hm b).mpr List.mem_cons_self) with e | h
        · exact absurd e.symm hne
        · exact p₁.1 b h
      rw [S.asymm hab] at hba
      cases hba
    subst hab
    have htl : as = bs := by
      apply strictSorted_ext S as bs p₁.2 p₂.2
      intro z
      constructor
      · intro hz
        rcases List.mem_cons.mp ((hm z).mp (List.mem_cons_of_mem _ hz)) with e | h
        · exact absurd e.symm (S.ne_of_lt (p₁.1 z hz))
        · exact h
      · intro hz
        rcases List.mem_cons.mp ((hm z).mpr (List.mem_cons_of_mem _ hz)) with e | h
        · exact absurd e.symm (S.ne_of_lt (p₂.1 z hz))
        · exact h
    rw [htl]

/-- `uniqAdj ∘ sortBy`: strictly sorted, same members. -/
theorem uniqSort_strictSorted (S : StrictTotal lt) (l : List α) :
    StrictSorted lt (uniqAdj (sortBy lt l)) :=
  uniqAdj_strictSorted S _ (sortBy_weakSorted S l)

theorem mem_uniqSort {z : α} (l : List α) : z ∈ uniqAdj (sortBy lt l) ↔ z ∈ l :=
  (mem_uniqAdj _).trans mem_sortBy

/-- Independence of the sorting algorithm: de-duplicating ANY weakly sorted permutation of `l`
    gives the same list as de-duplicating the insertion sort of `l`. -/
theorem uniqAdj_sorted_perm (S : StrictTotal lt) {l l' : List α} (hp : l'.Perm l)
    (hs : WeakSorted lt l') : uniqAdj l' = uniqAdj (sortBy lt l) := by
  apply strictSorted_ext S _ _ (uniqAdj_strictSorted S l' hs) (uniqSort_strictSorted S l)
  intro z
  rw [mem_uniqAdj, mem_uniqSort, hp.mem_iff]

/-- short lists are fixed by sort + de-duplication (the early return of `sortAndUniqueResults`) -/
theorem uniqSort_short (lt : α → α → Bool) : ∀ l : List α, l.length ≤ 1 → uniqAdj (sortBy lt l) = l
  | [], _ => rfl
  | [x], _ => rfl
  | _ :: _ :: _, h => by simp at h

end Generic

/-! ## `Result.less` is a strict total order -/

section Results
variable {D : Type} [DecidableEq D] {I : DistI D}

theorem resultLess_irrefl (_H : DistOrder I) (a : Result D) : Result.less I a a = false := by
  simp [Result.less]

theorem resultLess_trans (H : DistOrder I) (a b c : Result D)
    (hab : Result.less I a b = true) (hbc : Result.less I b c = true) :
    Result.less I a c = true := by
  obtain ⟨ad, as, ae⟩ := a
  obtain ⟨bd, bs, be⟩ := b
  obtain ⟨cd, cs, ce⟩ := c
  simp only [Result.less] at hab hbc ⊢
  by_cases e1 : ad = bd <;> by_cases e2 : bd = cd
  · subst e1
    subst e2
    simp only [ne_eq, not_true_eq_false, if_false] at hab hbc ⊢
    split at hab <;> split at hbc <;> split <;>
      simp only [decide_eq_true_eq] at hab hbc ⊢ <;> omega
  · subst e1
    simp only [ne_eq, e2, not_false_eq_true, if_true] at hbc ⊢
    exact hbc
  · subst e2
    simp only [ne_eq, e1, not_false_eq_true, if_true] at hab ⊢
    exact hab
  · simp only [e1, e2, ne_eq, not_false_eq_true, if_true] at hab hbc
    have hac := H.trans _ _ _ hab hbc
    have e3 : ad ≠ cd := by
      intro e
      subst e
      have h' := H.trans _ _ _ hab hbc
      rw [H.irrefl] at h'
      cases h'
    simp only [e3, ne_eq, not_false_eq_true, if_true]
    exact hac

theorem resultLess_tri (H : DistOrder I) (a b : Result D) (hne : a ≠ b) :
    Result.less I a b = true ∨ Result.less I b a = true := by
  unfold Result.less
  by_cases e1 : a.dist = b.dist
  · have e1' : b.dist = a.dist := e1.symm
    by_cases s1 : a.shape = b.shape
    · have s1' : b.shape = a.shape := s1.symm
      have g1 : a.edge ≠ b.edge := by
        intro g
        apply hne
        cases a
        cases b
        simp_all
      simp only [e1, s1, ne_eq, not_true_eq_false, if_false, decide_eq_true_eq]
      omega
    · have s1' : b.shape ≠ a.shape := fun e => s1 e.symm
      simp only [e1, ne_eq, not_true_eq_false, if_false, s1, s1', not_false_eq_true, if_true,
        decide_eq_true_eq]
      omega
  · have e1' : b.dist ≠ a.dist := fun e => e1 e.symm
    simp only [e1, e1', ne_eq, not_false_eq_true, if_true]
    exact H.tri _ _ e1

/-- 1. `Result.less I` is a strict total order on `Result D`. -/
theorem resultLess_strictTotal (H : DistOrder I) : StrictTotal (Result.less I) where
  irrefl := resultLess_irrefl H
  trans := resultLess_trans H
  tri := resultLess_tri H

/-! ## `sortAndUniqueResults` -/

/-- the early return computes what the general path computes -/
theorem sortAndUnique_eq (I : DistI D) (rs : List (Result D)) :
    sortAndUniqueResults I rs = uniqAdj (sortBy (Result.less I) rs) := by
  unfold sortAndUniqueResults
  split
  · rename_i h
    exact (uniqSort_short _ rs h).symm
  · rfl

/-- 6a. same members -/
theorem sortAndUnique_mem (I : DistI D) (rs : List (Result D)) (r : Result D) :
    r ∈ sortAndUniqueResults I rs ↔ r ∈ rs := by
  rw [sortAndUnique_eq]
  exact mem_uniqSort rs

/-- 6b. strictly sorted -/
theorem sortAndUnique_sorted (H : DistOrder I) (rs : List (Result D)) :
    (sortAndUniqueResults I rs).Pairwise (fun a b => Result.less I a b = true) := by
  rw [sortAndUnique_eq]
  exact uniqSort_strictSorted (resultLess_strictTotal H) rs

/-- 6c. hence without duplicates -/
theorem sortAndUnique_nodup (H : DistOrder I) (rs : List (Result D)) :
    (sortAndUniqueResults I rs).Nodup :=
  StrictSorted.nodup (resultLess_strictTotal H) (sortAndUnique_sorted H rs)

/-- 7. Independence of the algorithm behind `sort.Slice`: ANY weakly sorted permutation of the
    input, de-duplicated by the Go loop, is the model's result. -/
theorem sortAndUnique_unique (H : DistOrder I) (rs l' : List (Result D)) (hp : l'.Perm rs)
    (hs : l'.Pairwise (fun a b => Result.less I b a = false)) :
    uniqAdj l' = sortAndUniqueResults I rs := by
  rw [sortAndUnique_eq]
  exact uniqAdj_sorted_perm (resultLess_strictTotal H) hp hs

/-- 7'. Corollary: the result is THE strictly sorted list with the members of the input. -/
theorem sortAndUnique_unique' (H : DistOrder I) (rs out : List (Result D))
    (hs : out.Pairwise (fun a b => Result.less I a b = true))
    (hm : ∀ r, r ∈ out ↔ r ∈ rs) : out = sortAndUniqueResults I rs := by
  apply strictSorted_ext (resultLess_strictTotal H) _ _ hs (sortAndUnique_sorted H rs)
  intro z
  rw [hm, sortAndUnique_mem]

/-! ## `postProcess` -/

/-- 5. the truncation is `take` -/
theorem post_eq_take (I : DistI D) (k : Nat) (rs : List (Result D)) :
    postProcess I k rs = (sortAndUniqueResults I rs).take k := by
  unfold postProcess
  simp only
  split
  · rfl
  · rename_i h
    exact (List.take_of_length_le (Nat.le_of_not_lt h)).symm

/-- 2. strictly increasing in (distance, shapeID, edgeID) -/
theorem post_sorted (H : DistOrder I) (k : Nat) (rs : List (Result D)) :
    (postProcess I k rs).Pairwise (fun a b => Result.less I a b = true) := by
  rw [post_eq_take]
  exact (sortAndUnique_sorted H rs).sublist (List.take_sublist _ _)

/-- 3. no duplicates -/
theorem post_nodup (H : DistOrder I) (k : Nat) (rs : List (Result D)) :
    (postProcess I k rs).Nodup :=
  StrictSorted.nodup (resultLess_strictTotal H) (post_sorted H k rs)

/-- 4. at most `maxResults` results -/
theorem post_length_le (I : DistI D) (k : Nat) (rs : List (Result D)) :
    (postProcess I k rs).length ≤ k := by
  rw [post_eq_take, List.length_take]
  exact Nat.min_le_left _ _

/-- members of the output are members of the input -/
theorem post_mem (I : DistI D) (k : Nat) (rs : List (Result D)) (r : Result D)
    (h : r ∈ postProcess I k rs) : r ∈ rs := by
  rw [post_eq_take] at h
  exact (sortAndUnique_mem I rs r).mp (List.mem_of_mem_take h)

/-- 8. the output is the `k` best: every result kept is smaller than every input result dropped. -/
theorem post_kbest (H : DistOrder I) (k : Nat) (rs : List (Result D)) :
    ∀ a ∈ postProcess I k rs, ∀ b ∈ rs, b ∉ postProcess I k rs → Result.less I a b = true := by
  intro a ha b hb hnb
  rw [post_eq_take] at ha hnb
  have hs := sortAndUnique_sorted H rs
  rw [← List.take_append_drop k (sortAndUniqueResults I rs)] at hs
  have hb' : b ∈ sortAndUniqueResults I rs := (sortAndUnique_mem I rs b).mpr hb
  rw [← List.take_append_drop k (sortAndUniqueResults I rs)] at hb'
  rcases List.mem_append.mp hb' with h | h
  · exact absurd h hnb
  · exact (List.pairwise_append.mp hs).2.2 a ha b h

/-- when nothing is dropped the output has exactly the members of the input -/
theorem post_mem_iff_of_le (I : DistI D) (k : Nat) (rs : List (Result D))
    (hk : (sortAndUniqueResults I rs).length ≤ k) (r : Result D) :
    r ∈ postProcess I k rs ↔ r ∈ rs := by
  rw [post_eq_take, List.take_of_length_le hk]
  exact sortAndUnique_mem I rs r

/-- the output length is exactly `min k (number of distinct results)` -/
theorem post_length (I : DistI D) (k : Nat) (rs : List (Result D)) :
    (postProcess I k rs).length = min k (sortAndUniqueResults I rs).length := by
  rw [post_eq_take, List.length_take]

end Results

/-! ## Non-vacuity -/

example : DistOrder (minDist 1000) := minDist_order 1000
example : DistOrder (maxDist 1000) := maxDist_order 1000
example : StrictTotal (Result.less (minDist 1000)) := resultLess_strictTotal (minDist_order 1000)

/-- six results: one exact duplicate, ties in distance broken by shape and by edge -/
def sampleResults : List (Result Int) :=
  [⟨7, 2, 0⟩, ⟨3, 1, 5⟩, ⟨7, 1, 9⟩, ⟨3, 1, 5⟩, ⟨3, 1, 2⟩, ⟨900, 0, 0⟩]

example : sortAndUniqueResults (minDist 1000) sampleResults =
    [⟨3, 1, 2⟩, ⟨3, 1, 5⟩, ⟨7, 1, 9⟩, ⟨7, 2, 0⟩, ⟨900, 0, 0⟩] := by decide

example : postProcess (minDist 1000) 3 sampleResults =
    [⟨3, 1, 2⟩, ⟨3, 1, 5⟩, ⟨7, 1, 9⟩] := by decide

example : postProcess (minDist 1000) 10 sampleResults =
    [⟨3, 1, 2⟩, ⟨3, 1, 5⟩, ⟨7, 1, 9⟩, ⟨7, 2, 0⟩, ⟨900, 0, 0⟩] := by decide

example : postProcess (minDist 1000) 0 sampleResults = [] := by decide

example : sortAndUniqueResults (maxDist 1000) sampleResults =
    [⟨900, 0, 0⟩, ⟨7, 1, 9⟩, ⟨7, 2, 0⟩, ⟨3, 1, 2⟩, ⟨3, 1, 5⟩] := by decide

example : postProcess (maxDist 1000) 3 sampleResults =
    [⟨900, 0, 0⟩, ⟨7, 1, 9⟩, ⟨7, 2, 0⟩] := by decide

/-- a differently ordered (weakly sorted) permutation de-duplicates to the same list -/
example : uniqAdj ([⟨3, 1, 2⟩, ⟨3, 1, 5⟩, ⟨3, 1, 5⟩, ⟨7, 1, 9⟩, ⟨7, 2, 0⟩, ⟨900, 0, 0⟩] : List (Result Int)) =
    sortAndUniqueResults (minDist 1000) sampleResults := by decide

end S2Proofs.EdgeQuery

