/-
  S2Proofs.EdgeQuery.FarEdgeWorldEx — NON-VACUITY of the hypotheses `FarEdgeTargetOK` / `IndexOK` of `S2Proofs.EdgeQuery.FarEdgeWorld`
  (package c08more, goal 3): the two-cell index of `PointWorldEx.lean`

      fromFace 0 (node) ── child 0  (uv ∈ [-1,0]×[-1,0])  lists edge 1 = (2/3,−2/3,−1/3) → (2/3,−1/3,−2/3)
                        └─ child 2  (uv ∈ [ 0,1]×[ 0,1])  lists edge 0 = (1,0,0) → (2/3,2/3,1/3)

  with the EDGE target (1/3,2/3,2/3) → (2/3,1/3,2/3) of `EdgeWorldEx` and a FURTHEST-edge query (`MaxDistanceToEdgeTarget`).  Every hypothesis is
  discharged by the kernel on the integer forms (`UnitPtZ`, `EdgeOKZ`, `WedgeMarginZ`, `MaxCallOKZ`, `CirclesDifferZ`); the optimized search is
  evaluated by the kernel on the bit-exact soft-float (`Cell.MaxDistanceToEdge`, `updateEdgePairMaxDistance`).
-/
import S2Proofs.EdgeQuery.FarEdgeWorld
import S2Proofs.EdgeQuery.EdgeWorldEx
import S2Proofs.Properties.C08_World2

set_option linter.unusedSimpArgs false
set_option linter.unusedVariables false

namespace S2Proofs.C08FarEdge.Ex
open S2 S2.Exact S2.CellID S2.CellM S2.CellEdgeM S2.EdgeNum S2.EdgeQueryM S2Proofs.F64Order S2Proofs.FloatErr S2Proofs.EdgeQuery
open S2Proofs.C17Err S2Proofs.C17 S2Proofs.C17Pairs S2Proofs.C12Dist S2Proofs.C12Dist2 S2Proofs.C08World S2Proofs.C08World.Ex
open S2Proofs.C08Edge.Ex (T0 T1)

/-- the index of `PointWorldEx` with the target edge `t0 → t1`, furthest-edge query -/
def mkF (t0 t1 : V3) : FarEdgeIndex where
  t0 := t0
  t1 := t1
  vert := exIdx.vert
  allEdges := exIdx.allEdges
  ix := exIdx.ix
  rootIds := fun _ => [cRoot]
  depth := exIdx.depth
  interiors := exIdx.interiors
  located := exIdx.located
  small := exIdx.small

def exF : FarEdgeIndex := mkF T0 T1

variable {t0 t1 : V3}

theorem vertF_e0 : (mkF t0 t1).vert e0 = (a0, b0) := rfl
theorem vertF_e1 : (mkF t0 t1).vert e1 = (a1, b1) := rfl
theorem memF {e : EdgeKey} (he : e ∈ (mkF t0 t1).allEdges) : e = e0 ∨ e = e1 := mem_allEdges he

/-- the decidable integer facts: target, the 12 vertices of the three visited cells against the ANTIPODAL target edge, the 8 `UpdateMaxDistance`
    calls of the two pairs (c17pairs2 `MaxCallOKZ`: domain + "far branch taken, or within 90° of both endpoints" — the exclusion of the
    right-angle class), and "`Cross` only on different great circles" -/
def Facts (t0 t1 : V3) : Prop :=
    UnitPtZ t0 ∧ UnitPtZ t1 ∧ EdgeOKZ t0 t1 ∧
    ([cellRoot, cellNeg, cellPos].all fun c => (List.range 4).all fun k =>
      decide (UnitPtZ (vertex c k) ∧ WedgeMarginZ (vertex c k) (negV t0) (negV t1))) = true ∧
    ([(a0, b0), (a1, b1)].all fun p =>
      decide (MaxCallOKZ t0 p.1 p.2 ∧ MaxCallOKZ t1 p.1 p.2 ∧ MaxCallOKZ p.1 t0 t1 ∧ MaxCallOKZ p.2 t0 t1 ∧
        (crosses t0 t1 (negV p.1) (negV p.2) = true → CirclesDifferZ t0 t1 (negV p.1) (negV p.2)))) = true

instance (t0 t1 : V3) : Decidable (Facts t0 t1) := by unfold Facts; infer_instance

set_option maxRecDepth 100000 in
theorem factsF : Facts T0 T1 := by decide +kernel

theorem maxCall_of_int {x a b : V3} (h : MaxCallOKZ x a b) : MaxCall x a b :=
  ⟨AntiCallOK.of_maxCallOK (maxCallOK_of_int h), Or.inl (maxCallOK_of_int h).hcls⟩

theorem verticesOK_of_mem (hF : Facts t0 t1) {c : Cell} (hc : c ∈ [cellRoot, cellNeg, cellPos]) :
    S2Proofs.C12.AntipodalVerticesOK c t0 t1 := by
  have h := List.all_eq_true.mp hF.2.2.2.1 c hc
  intro k hk
  have h2 := of_decide_eq_true (List.all_eq_true.mp h k (List.mem_range.mpr hk))
  have hu := unitPt_of_int h2.1
  exact ⟨hu, wedgeMargin_of_int _ _ _ hu (unitWithin_negV (unitPt_of_int hF.1)) (unitWithin_negV (unitPt_of_int hF.2.1)) h2.2⟩

theorem pairOK_of_mem (hF : Facts t0 t1) {p : V3 × V3} (hp : p ∈ [(a0, b0), (a1, b1)]) : PairMaxOK t0 t1 p.1 p.2 := by
  obtain ⟨m1, m2, m3, m4, cr⟩ := of_decide_eq_true (List.all_eq_true.mp hF.2.2.2.2 p hp)
  exact ⟨maxCall_of_int m1, maxCall_of_int m2, maxCall_of_int m3, maxCall_of_int m4, cr⟩

theorem visited_cases {y : CellID} (hy : Visited (mkF t0 t1) y) : y = cNeg ∨ y = cPos ∨ y = cRoot := by
  obtain ⟨hv, x, hx, hyx, _⟩ := hy
  have : x = cNeg ∨ x = cPos := by simpa [mkF, exIdx, Roots.ids] using hx
  rcases this with rfl | rfl
  · rcases ancestors_level1 isCell_neg hv hyx with rfl | rfl
    · exact Or.inl rfl
    · exact Or.inr (Or.inr parent_neg)
  · rcases ancestors_level1 isCell_pos hv hyx with rfl | rfl
    · exact Or.inr (Or.inl rfl)
    · exact Or.inr (Or.inr parent_pos)

theorem targetOK_of_facts (hF : Facts t0 t1) : FarEdgeTargetOK (mkF t0 t1) where
  t0 := unitPt_of_int hF.1
  t1 := unitPt_of_int hF.2.1
  tEdge := edgeOK_of_int hF.2.2.1
  cells y hy := by
    show S2Proofs.C12.AntipodalVerticesOK (cellFromCellID y) t0 t1
    rcases visited_cases hy with rfl | rfl | rfl
    · rw [cellNeg_eq]; exact verticesOK_of_mem hF (by simp)
    · rw [cellPos_eq]; exact verticesOK_of_mem hF (by simp)
    · rw [cellRoot_eq]; exact verticesOK_of_mem hF (by simp)
  pairs e he := by
    rcases memF he with rfl | rfl
    · rw [vertF_e0]; exact pairOK_of_mem hF (p := (a0, b0)) (by simp)
    · rw [vertF_e1]; exact pairOK_of_mem hF (p := (a1, b1)) (by simp)

theorem ex_targetOK : FarEdgeTargetOK exF := targetOK_of_facts factsF

theorem ex_i1ArcF : I1Arc (mkF t0 t1).toPoint := S2Proofs.C08.ex_i1Arc

theorem ex_rootsCoverF : RootsCover (mkF t0 t1) := by
  intro lim x hx Q _ _ _
  have : x = cNeg ∨ x = cPos := by simpa [mkF, exIdx, Roots.ids] using hx
  refine ⟨cRoot, by simp [mkF], ?_⟩
  rcases this with rfl | rfl <;> decide

theorem indexOK_of_facts (hF : Facts t0 t1) : IndexOK (mkF t0 t1) :=
  indexOK_of_parts (targetOK_of_facts hF) ex_indexOK.cellsOK
    (by intro lim c hc
        have : c = cRoot := by simpa [mkF] using hc
        subst this; decide)
    ex_indexOK.depth ex_indexOK.edgesSound ex_indexOK.locatedSound ex_i1ArcF ex_rootsCoverF

theorem ex_indexOKF : IndexOK exF := indexOK_of_facts factsF

/-- **hypothesis-free instance of `farEdge_slackWorld`** -/
theorem ex_slackWorldF : Slack.SlackWorld m4I (world exF) (Near exF) := farEdge_slackWorld ex_targetOK ex_indexOKF

/-! ## the search really runs on this world (kernel evaluation) -/

def updCellL (t0 t1 : V3) (c : CellM.Cell) (lim : M4) : Option M4 :=
  if F64.lt lim.1 (maxDistanceToEdge c t0 t1) then some (m4canon (maxDistanceToEdge c t0 t1)) else none

def exTreeF (t0 t1 : V3) : EdgeQueryM.Cell M4 :=
  .node (updCellL t0 t1 cellRoot) [.index (updCellL t0 t1 cellNeg) [e1], .index (updCellL t0 t1 cellPos) [e0]]

theorem updCellF_root : updCell (mkF t0 t1) cRoot = updCellL t0 t1 cellRoot := by
  funext lim; unfold updCell cellMax updCellL; rw [cellRoot_eq]; rfl
theorem updCellF_neg : updCell (mkF t0 t1) cNeg = updCellL t0 t1 cellNeg := by
  funext lim; unfold updCell cellMax updCellL; rw [cellNeg_eq]; rfl
theorem updCellF_pos : updCell (mkF t0 t1) cPos = updCellL t0 t1 cellPos := by
  funext lim; unfold updCell cellMax updCellL; rw [cellPos_eq]; rfl

theorem treeF_eq : Roots.subtree (mkF t0 t1).ix (updCell (mkF t0 t1)) 30 cRoot = exTreeF t0 t1 := by
  have l0 : (mkF t0 t1).ix.lookup cRoot = none := (by decide : exIdx.ix.lookup cRoot = none)
  have l1 : (mkF t0 t1).ix.lookup cNeg = some [e1] := (by decide : exIdx.ix.lookup cNeg = some [e1])
  have l2 : (mkF t0 t1).ix.lookup cPos = some [e0] := (by decide : exIdx.ix.lookup cPos = some [e0])
  have hk : (([1, 0, 3, 2].map (child cRoot)).filter (Roots.hasIndexCell (mkF t0 t1).ix)) = [cNeg, cPos] :=
    (by decide : (([1, 0, 3, 2].map (child cRoot)).filter (Roots.hasIndexCell exIdx.ix)) = [cNeg, cPos])
  have h : Roots.subtree (mkF t0 t1).ix (updCell (mkF t0 t1)) 30 cRoot =
      .node (updCell (mkF t0 t1) cRoot) [.index (updCell (mkF t0 t1) cNeg) [e1], .index (updCell (mkF t0 t1) cPos) [e0]] := by
    rw [show (30 : Nat) = 28 + 1 + 1 from rfl]
    rw [Roots.subtree, l0]
    rw [hk]
    simp only [List.map_cons, List.map_nil]
    rw [Roots.subtree, l1, Roots.subtree, l2]
  rw [h, updCellF_root, updCellF_neg, updCellF_pos]; rfl

/-- the same world with the tree written out -/
def exWorldFL (t0 t1 : V3) : World M4 := { world (mkF t0 t1) with roots := fun _ => [exTreeF t0 t1] }

theorem rootsF_eq : (world (mkF t0 t1)).roots = fun _ => [exTreeF t0 t1] := by
  funext lim
  show [Roots.subtree (mkF t0 t1).ix (updCell (mkF t0 t1)) 30 cRoot] = _
  rw [treeF_eq]

theorem worldF_eq : world (mkF t0 t1) = exWorldFL t0 t1 := by
  unfold exWorldFL; rw [← rootsF_eq]

/-- options of the furthest-edge query: MaxResults 1, limit = `infinity()` = −1, MaxError 0 -/
def farOpts : Opts M4 :=
  { maxResults := 1, distanceLimit := m4inf, maxError := m4null, includeInteriors := false, useBruteForce := false, targetUsesMaxError := false }
def farOpts2 : Opts M4 := { farOpts with maxResults := 2 }

set_option maxRecDepth 100000 in
/-- the pruning values `MaxDistanceToEdge(cell, target)` of the three cells (bit patterns) -/
theorem ex_cellValues :
    [cellRoot, cellNeg, cellPos].map (fun c => (maxDistanceToEdge c T0 T1).bits) =
      [4614286172884572558, 4614286172884572558, 4608683618675807574] := by decide +kernel

set_option maxRecDepth 100000 in
/-- the two edge-pair maxima for the limit −1 (bit patterns) -/
theorem ex_pairValues :
    [(a0, b0), (a1, b1)].map (fun p => ((updateEdgePairMaxDistance T0 T1 p.1 p.2 S2Proofs.C08Far.mNegOne).1.bits,
      (updateEdgePairMaxDistance T0 T1 p.1 p.2 S2Proofs.C08Far.mNegOne).2)) =
      [(4608683618675807574, true), (4613745647665100891, true)] := by decide +kernel

set_option maxRecDepth 100000 in
theorem ex_searchFL : (findEdges m4I farOpts (exWorldFL T0 T1)).map (fun rs => rs.map (fun r => (r.dist.1.bits, r.shape, r.edge)))
    = some [(4613745647665100891, 0, 1)] := by decide +kernel

/-- the optimized furthest-edge search (MaxResults 1, limit −1, MaxError 0) returns edge 1 at squared chord `4613745647665100891` (≈ 3.5) -/
theorem ex_searchF : (findEdges m4I farOpts (world exF)).map (fun rs => rs.map (fun r => (r.dist.1.bits, r.shape, r.edge)))
    = some [(4613745647665100891, 0, 1)] := by
  show (findEdges m4I farOpts (world (mkF T0 T1))).map _ = _
  rw [worldF_eq]; exact ex_searchFL

set_option maxRecDepth 100000 in
theorem ex_searchFL2 : (findEdges m4I farOpts2 (exWorldFL T0 T1)).map (fun rs => rs.map (fun r => (r.dist.1.bits, r.shape, r.edge)))
    = some [(4613745647665100891, 0, 1), (4608683618675807574, 0, 0)] := by decide +kernel

/-- with `MaxResults = 2` both edges are found, the farthest first -/
theorem ex_searchF2 : (findEdges m4I farOpts2 (world exF)).map (fun rs => rs.map (fun r => (r.dist.1.bits, r.shape, r.edge)))
    = some [(4613745647665100891, 0, 1), (4608683618675807574, 0, 0)] := by
  show (findEdges m4I farOpts2 (world (mkF T0 T1))).map _ = _
  rw [worldF_eq]; exact ex_searchFL2

end S2Proofs.C08FarEdge.Ex
