/-
  S2Proofs.EdgeQuery.SearchSingle — the search of `s2/edge_query.go` for `maxResults = 1`
  (what `findEdge`, `distance`, `isDistanceLess` use), for a target that does not use `maxError`.

  Main theorems (all for `o.maxResults = 1`, `o.targetUsesMaxError = false`, `WorldOK I w d`,
  `DistOrder I`, `SubLaws I o.maxError`, both the brute-force and the optimized path):

    single_length, single_sound, single_optimal, single_complete, single_interior,
    single_zero_limit, single_exact, distance_spec, distance_opt_eq_brute, isDistanceLess_spec,
    isDistanceLess_iff, findEdgesInternal_total (no hypotheses),
  and for a target that USES `maxError` (`WorldApprox`, `SubMono`):
    single_sound_approx, single_optimal_approx, single_complete_approx.
-/
import S2.EdgeQueryM
import S2Proofs.EdgeQuery.Laws
import S2Proofs.EdgeQuery.SearchDefs
open S2 S2.EdgeQueryM
namespace S2Proofs.EdgeQuery

set_option linter.unusedSectionVars false

variable {D : Type} [DecidableEq D]

/-! ## Consequences of the order laws (`a ≤ b` is written `I.less b a = false`) -/

-- auxiliary definitions and lemmas live in `Single` (opened below for the main theorems)
namespace Single

section Order
variable {I : DistI D} (O : DistOrder I)
include O

omit [DecidableEq D] in
theorem ord_asymm {a b : D} (h : I.less a b = true) : I.less b a = false := by
  cases h' : I.less b a with
  | false => rfl
  | true =>
    have := O.trans _ _ _ h h'
    rw [O.irrefl] at this; cases this

/-- `a < b ≤ c → a < c` -/
theorem ord_lt_of_lt_of_le {a b c : D} (h1 : I.less a b = true) (h2 : I.less c b = false) :
    I.less a c = true := by
  by_cases hbc : b = c
  · subst hbc; exact h1
  · rcases O.tri b c hbc with h | h
    · exact O.trans _ _ _ h1 h
    · rw [h2] at h; cases h

/-- `a ≤ b < c → a < c` -/
theorem ord_lt_of_le_of_lt {a b c : D} (h1 : I.less b a = false) (h2 : I.less b c = true) :
    I.less a c = true := by
  by_cases hab : a = b
  · subst hab; exact h2
  · rcases O.tri a b hab with h | h
    · exact O.trans _ _ _ h h2
    · rw [h1] at h; cases h

/-- `a ≤ b ≤ c → a ≤ c` -/
theorem ord_le_trans {a b c : D} (h1 : I.less b a = false) (h2 : I.less c b = false) :
    I.less c a = false := by
  cases h : I.less c a with
  | false => rfl
  | true =>
    have := ord_lt_of_lt_of_le O h h1
    rw [h2] at this; cases this

theorem ord_eq_of_le_le {a b : D} (h1 : I.less a b = false) (h2 : I.less b a = false) : a = b := by
  by_cases hab : a = b
  · exact hab
  · rcases O.tri a b hab with h | h
    · rw [h1] at h; cases h
    · rw [h2] at h; cases h

end Order

/-! ## Post-processing for `maxResults = 1`: the first element of the sorted list -/

section Post
variable {I : DistI D}

theorem Result.less_true_le (O : DistOrder I) {a b : Result D}
    (h : Result.less I a b = true) : I.less b.dist a.dist = false := by
  unfold Result.less at h
  by_cases hd : a.dist = b.dist
  · rw [hd]; exact O.irrefl _
  · rw [if_pos hd] at h; exact ord_asymm O h

theorem Result.less_false_le (O : DistOrder I) {a b : Result D}
    (h : Result.less I a b = false) : I.less a.dist b.dist = false := by
  unfold Result.less at h
  by_cases hd : a.dist = b.dist
  · rw [hd]; exact O.irrefl _
  · rw [if_pos hd] at h; exact h

theorem mem_insertBy {α : Type} (lt : α → α → Bool) (x y : α) (l : List α) :
    y ∈ insertBy lt x l ↔ y = x ∨ y ∈ l := by
  induction l with
  | nil => simp [insertBy]
  | cons z zs ih =>
    unfold insertBy
    split
    · simp
    · simp only [List.mem_cons, ih]
      constructor
      · rintro (h | h | h) <;> simp [h]
      · rintro (h | h | h) <;> simp [h]

theorem mem_sortBy {α : Type} (lt : α → α → Bool) (y : α) (l : List α) :
    y ∈ sortBy lt l ↔ y ∈ l := by
  induction l with
  | nil => simp [sortBy]
  | cons z zs ih => simp [sortBy, mem_insertBy, ih]

/-- the head of the sorted list is an element of minimal distance -/
theorem sortBy_head (O : DistOrder I) : ∀ l : List (Result D), l ≠ [] →
    ∃ h t, sortBy (Result.less I) l = h :: t ∧ h ∈ l ∧ ∀ r ∈ l, I.less r.dist h.dist = false := by
  intro l
  induction l with
  | nil => intro h; exact absurd rfl h
  | cons x xs ih =>
    intro _
    by_cases hxs : xs = []
    · subst hxs
      refine ⟨x, [], by simp [sortBy, insertBy], by simp, ?_⟩
      intro r hr
      simp only [List.mem_singleton] at hr
      subst hr; exact O.irrefl _
    · obtain ⟨y, t, hs, hy, hmin⟩ := ih hxs
      cases hlt : Result.less I x y with
      | true =>
        refine ⟨x, y :: t, by simp [sortBy, hs, insertBy, hlt], by simp, ?_⟩
        intro r hr
        rcases List.mem_cons.1 hr with rfl | hr
        · exact O.irrefl _
        · exact ord_le_trans O (Result.less_true_le O hlt) (hmin r hr)
      | false =>
        refine ⟨y, insertBy (Result.less I) x t, by simp [sortBy, hs, insertBy, hlt],
          List.mem_cons_of_mem _ hy, ?_⟩
        intro r hr
        rcases List.mem_cons.1 hr with rfl | hr
        · exact Result.less_false_le O hlt
        · exact hmin r hr

theorem sortAndUnique_head (O : DistOrder I) (l : List (Result D)) (hl : l ≠ []) :
    ∃ h t, sortAndUniqueResults I l = h :: t ∧ h ∈ l ∧ ∀ r ∈ l, I.less r.dist h.dist = false := by
  unfold sortAndUniqueResults
  split
  · rename_i hlen
    match l, hl, hlen with
    | [x], _, _ =>
      refine ⟨x, [], rfl, by simp, ?_⟩
      intro r hr
      simp only [List.mem_singleton] at hr
      subst hr; exact O.irrefl _
    | _ :: _ :: _, _, hlen => simp at hlen
  · obtain ⟨h, t, hs, hh, hmin⟩ := sortBy_head O l hl
    exact ⟨h, uniqLoop h t, by rw [hs]; rfl, hh, hmin⟩

/-- `postProcess` with `maxResults = 1`: nothing, or exactly one result of minimal distance -/
theorem postProcess_one (O : DistOrder I) (rs : List (Result D)) :
    (rs = [] ∧ postProcess I 1 rs = []) ∨
    ∃ h, postProcess I 1 rs = [h] ∧ h ∈ rs ∧ ∀ r ∈ rs, I.less r.dist h.dist = false := by
  by_cases hrs : rs = []
  · left; subst hrs; exact ⟨rfl, by simp [postProcess, sortAndUniqueResults]⟩
  · right
    obtain ⟨h, t, hs, hh, hmin⟩ := sortAndUnique_head O rs hrs
    refine ⟨h, ?_, hh, hmin⟩
    unfold postProcess
    simp only [hs]
    split
    · rfl
    · rename_i hlen
      cases t with
      | nil => rfl
      | cons a b => simp at hlen

theorem postProcess_one_length (rs : List (Result D)) : (postProcess I 1 rs).length ≤ 1 := by
  unfold postProcess
  simp only
  split
  · simp [List.length_take]; omega
  · omega

end Post

/-! ## The state invariant -/

/-- K2: what a result may be -/
def SoundResult (I : DistI D) (o : Opts D) (w : World D) (d : EdgeKey → D) (r : Result D) : Prop :=
  (o.includeInteriors = true ∧ r.dist = I.zero ∧ r.edge = -1 ∧ r.shape ∈ w.interiors) ∨
  (∃ e ∈ w.allEdges, r = ⟨d e, e.shape, e.edge⟩ ∧ I.less (d e) o.distanceLimit = true)

/-- invariant of the query state for `maxResults = 1` -/
structure Inv (I : DistI D) (o : Opts D) (w : World D) (d : EdgeKey → D) (s : St D) : Prop where
  sound : ∀ r ∈ s.results, SoundResult I o w d r
  nil_limit : s.results = [] → s.limit = o.distanceLimit
  /-- the limit is `sub m.dist maxError` for a result `m` of minimal distance (the last one added) -/
  last : s.results ≠ [] → ∃ m ∈ s.results, s.limit = I.sub m.dist o.maxError ∧
    ∀ r ∈ s.results, I.less r.dist m.dist = false
  /-- an edge within the current limit is within the limit of the options -/
  within : ∀ e, I.less (d e) s.limit = true → I.less (d e) o.distanceLimit = true

/-- what a step may do: the limit never increases, results are never removed -/
structure Step (I : DistI D) (s s' : St D) : Prop where
  limit_le : I.less s.limit s'.limit = false
  results_sub : ∀ r ∈ s.results, r ∈ s'.results

/-- exit condition: no edge of the index is within the final limit -/
def Exit (I : DistI D) (w : World D) (d : EdgeKey → D) (s : St D) : Prop :=
  ∀ e ∈ w.allEdges, I.less (d e) s.limit = false

section Core
variable {I : DistI D} {o : Opts D} {w : World D} {d : EdgeKey → D}

theorem Step.refl (O : DistOrder I) (s : St D) : Step I s s := ⟨O.irrefl _, fun _ h => h⟩

theorem Step.trans (O : DistOrder I) {s1 s2 s3 : St D} (a : Step I s1 s2) (b : Step I s2 s3) :
    Step I s1 s3 :=
  ⟨ord_le_trans O b.limit_le a.limit_le, fun r h => b.results_sub r (a.results_sub r h)⟩

theorem addResult_one (h1 : o.maxResults = 1) (s : St D) (r : Result D) :
    addResult I o s r = { s with results := s.results ++ [r], limit := I.sub r.dist o.maxError } := by
  simp [addResult, h1]

/-- adding a sound result that is not farther than any result so far -/
theorem Inv.add (h1 : o.maxResults = 1) {s : St D} (hs : Inv I o w d s) {r : Result D}
    (hr : SoundResult I o w d r)
    (hmin : ∀ r' ∈ s.results, I.less r'.dist r.dist = false)
    (hirr : I.less r.dist r.dist = false)
    (hw : ∀ e, I.less (d e) (I.sub r.dist o.maxError) = true → I.less (d e) o.distanceLimit = true) :
    Inv I o w d (addResult I o s r) := by
  rw [addResult_one h1]
  refine ⟨?_, ?_, ?_, hw⟩
  · intro r' hr'
    rcases List.mem_append.1 hr' with h | h
    · exact hs.sound r' h
    · simp only [List.mem_singleton] at h; subst h; exact hr
  · intro h; simp at h
  · intro _
    refine ⟨r, by simp, rfl, ?_⟩
    intro r' hr'
    rcases List.mem_append.1 hr' with h | h
    · exact hmin r' h
    · simp only [List.mem_singleton] at h; subst h; exact hirr

theorem maybeAdd_false (H : WorldOK I w d) (s : St D) (e : EdgeKey) :
    maybeAddResult I o w false s e =
      if I.less (d e) s.limit then addResult I o s ⟨d e, e.shape, e.edge⟩ else s := by
  unfold maybeAddResult
  simp only [Bool.false_and, Bool.false_eq_true, if_false, H.exactEdge]
  cases I.less (d e) s.limit <;> simp

/-- one edge handed to `maybeAddResult` -/
theorem edge_step (O : DistOrder I) (S : SubLaws I o.maxError) (H : WorldOK I w d)
    (h1 : o.maxResults = 1) {s : St D} (hs : Inv I o w d s) {e : EdgeKey} (he : e ∈ w.allEdges) :
    Inv I o w d (maybeAddResult I o w false s e) ∧ Step I s (maybeAddResult I o w false s e) ∧
    I.less (d e) (maybeAddResult I o w false s e).limit = false ∧
    (maybeAddResult I o w false s e).queue = s.queue := by
  rw [maybeAdd_false H]
  cases hlt : I.less (d e) s.limit with
  | false => exact ⟨hs, Step.refl O s, hlt, rfl⟩
  | true =>
    simp only [if_true]
    have hle : I.less (d e) (I.sub (d e) o.maxError) = false := S.sub_le _
    refine ⟨?_, ?_, ?_, ?_⟩
    · refine hs.add h1 (Or.inr ⟨e, he, rfl, hs.within e hlt⟩) ?_ (O.irrefl _) ?_
      · intro r' hr'
        -- `d e < limit = sub m err ≤ m ≤ r'`
        obtain ⟨m, _, hlim, hm⟩ := hs.last (List.ne_nil_of_mem hr')
        have h2 : I.less (d e) m.dist = true := ord_lt_of_lt_of_le O (hlim ▸ hlt) (S.sub_le _)
        exact ord_asymm O (ord_lt_of_lt_of_le O h2 (hm r' hr'))
      · intro e' he'
        exact hs.within e' (O.trans _ _ _ (ord_lt_of_lt_of_le O he' hle) hlt)
    · rw [addResult_one h1]
      refine ⟨?_, fun r h => List.mem_append_left _ h⟩
      show I.less s.limit (I.sub (d e) o.maxError) = false
      exact ord_asymm O (ord_lt_of_le_of_lt O hle hlt)
    · rw [addResult_one h1]; exact hle
    · rw [addResult_one h1]

/-- `processEdges` on edges of the index -/
theorem edges_step (O : DistOrder I) (S : SubLaws I o.maxError) (H : WorldOK I w d)
    (h1 : o.maxResults = 1) (es : List EdgeKey) : ∀ {s : St D}, Inv I o w d s →
    (∀ e ∈ es, e ∈ w.allEdges) →
    Inv I o w d (processEdges I o w false s es) ∧ Step I s (processEdges I o w false s es) ∧
    (∀ e ∈ es, I.less (d e) (processEdges I o w false s es).limit = false) ∧
    (processEdges I o w false s es).queue = s.queue := by
  induction es with
  | nil => intro s hs _; exact ⟨hs, Step.refl O s, by simp, rfl⟩
  | cons e es ih =>
    intro s hs hes
    obtain ⟨a1, a2, a3, a4⟩ := edge_step O S H h1 hs (hes e (by simp))
    obtain ⟨b1, b2, b3, b4⟩ := ih a1 (fun e' he' => hes e' (List.mem_cons_of_mem _ he'))
    have heq : processEdges I o w false s (e :: es) =
        processEdges I o w false (maybeAddResult I o w false s e) es := rfl
    rw [heq]
    refine ⟨b1, a2.trans O b2, ?_, b4.trans a4⟩
    intro e' he'
    rcases List.mem_cons.1 he' with rfl | he'
    · exact ord_le_trans O b2.limit_le a3
    · exact b3 e' he'

/-- the brute-force scan -/
theorem brute_step (O : DistOrder I) (S : SubLaws I o.maxError) (H : WorldOK I w d)
    (h1 : o.maxResults = 1) {s : St D} (hs : Inv I o w d s) :
    Inv I o w d (findEdgesBruteForce I o w s) ∧ Step I s (findEdgesBruteForce I o w s) ∧
    Exit I w d (findEdgesBruteForce I o w s) := by
  obtain ⟨a1, a2, a3, _⟩ := edges_step O S H h1 w.allEdges hs (fun _ h => h)
  exact ⟨a1, a2, a3⟩

end Core

/-! ## The optimized path: queue invariant -/

/-- every cell of the subtree has a sound bound, and the subtree only holds edges of the index -/
def GoodCell (I : DistI D) (w : World D) (d : EdgeKey → D) (c : Cell D) : Prop :=
  (∀ c' ∈ cellsOf c, CellLB I d c') ∧ (∀ e ∈ edgesUnder c, e ∈ w.allEdges)

def GoodCells (I : DistI D) (w : World D) (d : EdgeKey → D) (cs : List (Cell D)) : Prop :=
  (∀ c' ∈ cellsOfList cs, CellLB I d c') ∧ (∀ e ∈ edgesUnderList cs, e ∈ w.allEdges)

/-- queued cells are good and their key is a lower bound of their edges -/
def QInv (I : DistI D) (w : World D) (d : EdgeKey → D) (s : St D) : Prop :=
  ∀ kc ∈ s.queue, GoodCell I w d kc.2 ∧ ∀ e ∈ edgesUnder kc.2, I.less (d e) kc.1 = false

/-- the edge lies below a queued cell -/
def Covered (s : St D) (e : EdgeKey) : Prop := ∃ kc ∈ s.queue, e ∈ edgesUnder kc.2

/-- every edge within the limit lies below a queued cell -/
def Cover (I : DistI D) (w : World D) (d : EdgeKey → D) (s : St D) : Prop :=
  ∀ e ∈ w.allEdges, I.less (d e) s.limit = true → Covered s e

omit [DecidableEq D] in
theorem self_mem_cellsOf (c : Cell D) : c ∈ cellsOf c := by
  cases c <;> simp [cellsOf]

omit [DecidableEq D] in
theorem GoodCells.head {I : DistI D} {w : World D} {d : EdgeKey → D} {c : Cell D} {cs : List (Cell D)}
    (h : GoodCells I w d (c :: cs)) : GoodCell I w d c :=
  ⟨fun c' hc' => h.1 c' (by simp [cellsOfList, hc']), fun e he => h.2 e (by simp [edgesUnderList, he])⟩

omit [DecidableEq D] in
theorem GoodCells.tail {I : DistI D} {w : World D} {d : EdgeKey → D} {c : Cell D} {cs : List (Cell D)}
    (h : GoodCells I w d (c :: cs)) : GoodCells I w d cs :=
  ⟨fun c' hc' => h.1 c' (by simp [cellsOfList, hc']), fun e he => h.2 e (by simp [edgesUnderList, he])⟩

omit [DecidableEq D] in
theorem GoodCell.kids {I : DistI D} {w : World D} {d : EdgeKey → D} {cd : D → Option D}
    {kids : List (Cell D)} (h : GoodCell I w d (.node cd kids)) : GoodCells I w d kids :=
  ⟨fun c' hc' => h.1 c' (by simp [cellsOf, hc']), fun e he => h.2 e (by simpa [edgesUnder] using he)⟩

section Queue
variable {I : DistI D} {o : Opts D} {w : World D} {d : EdgeKey → D}

/-- the `enqueue` closure of `processOrEnqueue` for `conservative = false` -/
def enq (s : St D) (c : Cell D) : St D :=
  match c.cd s.limit with
  | none => s
  | some x => { s with queue := s.queue ++ [(x, c)] }

theorem poe_eq (s : St D) (c : Cell D) :
    processOrEnqueue I o w false false s c =
      match c with
      | .index _ edges =>
        if edges.length == 0 then s
        else if edges.length < 10 then processEdges I o w false s edges
        else enq s c
      | .node _ _ => enq s c := by
  cases c <;> rfl

/-- what `processOrEnqueue` guarantees for one cell -/
structure PoeOut (I : DistI D) (o : Opts D) (w : World D) (d : EdgeKey → D)
    (s s' : St D) (es : List EdgeKey) : Prop where
  inv : Inv I o w d s'
  step : Step I s s'
  qinv : QInv I w d s'
  queue_sub : ∀ kc ∈ s.queue, kc ∈ s'.queue
  cover : ∀ e ∈ es, I.less (d e) s'.limit = true → Covered s' e

theorem enq_out (O : DistOrder I) {s : St D} (hs : Inv I o w d s) (hq : QInv I w d s)
    {c : Cell D} (hc : GoodCell I w d c) : PoeOut I o w d s (enq s c) (edgesUnder c) := by
  have hlb := hc.1 c (self_mem_cellsOf c) s.limit
  unfold enq
  cases hcd : c.cd s.limit with
  | none =>
    refine ⟨hs, Step.refl O s, hq, fun _ h => h, ?_⟩
    intro e he hlt
    rw [hlb.1 hcd e he] at hlt; cases hlt
  | some x =>
    refine ⟨⟨hs.sound, hs.nil_limit, hs.last, hs.within⟩, ⟨O.irrefl _, fun _ h => h⟩, ?_,
      fun kc h => List.mem_append_left _ h, ?_⟩
    · intro kc hkc
      rcases List.mem_append.1 hkc with h | h
      · exact hq kc h
      · simp only [List.mem_singleton] at h; subst h
        exact ⟨hc, (hlb.2 x hcd).2⟩
    · intro e he _
      exact ⟨(x, c), by simp, he⟩

theorem poe_out (O : DistOrder I) (S : SubLaws I o.maxError) (H : WorldOK I w d)
    (h1 : o.maxResults = 1) {s : St D} (hs : Inv I o w d s) (hq : QInv I w d s)
    {c : Cell D} (hc : GoodCell I w d c) :
    PoeOut I o w d s (processOrEnqueue I o w false false s c) (edgesUnder c) := by
  rw [poe_eq]
  cases c with
  | node cd kids => exact enq_out O hs hq hc
  | index cd edges =>
    simp only
    split
    · rename_i h0
      have : edges = [] := by simpa using h0
      subst this
      exact ⟨hs, Step.refl O s, hq, fun _ h => h, by simp [edgesUnder]⟩
    · split
      · have hes : ∀ e ∈ edges, e ∈ w.allEdges := fun e he => hc.2 e (by simpa [edgesUnder] using he)
        obtain ⟨a1, a2, a3, a4⟩ := edges_step O S H h1 edges hs hes
        refine ⟨a1, a2, ?_, ?_, ?_⟩
        · intro kc hkc; rw [a4] at hkc; exact hq kc hkc
        · intro kc hkc; rw [a4]; exact hkc
        · intro e he hlt
          rw [a3 e (by simpa [edgesUnder] using he)] at hlt; cases hlt
      · exact enq_out O hs hq hc

/-- the loop over the children / the initial cells -/
theorem poe_fold (O : DistOrder I) (S : SubLaws I o.maxError) (H : WorldOK I w d)
    (h1 : o.maxResults = 1) (cs : List (Cell D)) : ∀ {s : St D}, Inv I o w d s → QInv I w d s →
    GoodCells I w d cs →
    PoeOut I o w d s (cs.foldl (processOrEnqueue I o w false false) s) (edgesUnderList cs) := by
  induction cs with
  | nil =>
    intro s hs hq _
    exact ⟨hs, Step.refl O s, hq, fun _ h => h, by simp [edgesUnderList]⟩
  | cons c cs ih =>
    intro s hs hq hg
    have a := poe_out O S H h1 hs hq hg.head
    have b := ih a.inv a.qinv hg.tail
    simp only [List.foldl_cons]
    refine ⟨b.inv, a.step.trans O b.step, b.qinv, fun kc h => b.queue_sub kc (a.queue_sub kc h), ?_⟩
    intro e he hlt
    simp only [edgesUnderList, List.mem_append] at he
    rcases he with he | he
    · obtain ⟨kc, hkc, hek⟩ := a.cover e he (ord_lt_of_lt_of_le O hlt b.step.limit_le)
      exact ⟨kc, b.queue_sub kc hkc, hek⟩
    · exact b.cover e he hlt

theorem popMin_none : ∀ q : List (D × Cell D), popMin I q = none → q = []
  | [], _ => rfl
  | x :: xs, h => by
    unfold popMin at h
    split at h
    · cases h
    · split at h <;> cases h

theorem popMin_spec (O : DistOrder I) : ∀ (q : List (D × Cell D)) (m : D × Cell D)
    (rest : List (D × Cell D)), popMin I q = some (m, rest) →
    m ∈ q ∧ (∀ x ∈ rest, x ∈ q) ∧ (∀ x ∈ q, x = m ∨ x ∈ rest) ∧ (∀ x ∈ q, I.less x.1 m.1 = false) := by
  intro q
  induction q with
  | nil => intro m rest h; simp [popMin] at h
  | cons x xs ih =>
    intro m rest h
    unfold popMin at h
    split at h
    · rename_i hn
      have := popMin_none xs hn
      subst this
      simp only [Option.some.injEq, Prod.mk.injEq] at h
      obtain ⟨rfl, rfl⟩ := h
      refine ⟨by simp, by simp, by simp, ?_⟩
      intro y hy
      simp only [List.mem_singleton] at hy
      subst hy; exact O.irrefl _
    · rename_i m' rest' hs
      obtain ⟨i1, i2, i3, i4⟩ := ih m' rest' hs
      split at h
      · rename_i hlt
        simp only [Option.some.injEq, Prod.mk.injEq] at h
        obtain ⟨rfl, rfl⟩ := h
        refine ⟨List.mem_cons_of_mem _ i1, ?_, ?_, ?_⟩
        · intro y hy
          rcases List.mem_cons.1 hy with rfl | hy
          · simp
          · exact List.mem_cons_of_mem _ (i2 y hy)
        · intro y hy
          rcases List.mem_cons.1 hy with rfl | hy
          · right; simp
          · rcases i3 y hy with h | h
            · left; exact h
            · right; exact List.mem_cons_of_mem _ h
        · intro y hy
          rcases List.mem_cons.1 hy with rfl | hy
          · exact ord_asymm O hlt
          · exact i4 y hy
      · rename_i hlt
        have hlt' : I.less m'.1 x.1 = false := by simpa using hlt
        simp only [Option.some.injEq, Prod.mk.injEq] at h
        obtain ⟨rfl, rfl⟩ := h
        refine ⟨by simp, fun y hy => List.mem_cons_of_mem _ hy, ?_, ?_⟩
        · intro y hy
          rcases List.mem_cons.1 hy with rfl | hy
          · left; rfl
          · right; exact hy
        · intro y hy
          rcases List.mem_cons.1 hy with rfl | hy
          · exact O.irrefl _
          · exact ord_le_trans O hlt' (i4 y hy)

/-- the main loop: from a state whose queue covers everything within the limit to a final state
    with nothing left within the limit -/
theorem searchLoop_out (O : DistOrder I) (S : SubLaws I o.maxError) (H : WorldOK I w d)
    (h1 : o.maxResults = 1) : ∀ (fuel : Nat) (s s' : St D), Inv I o w d s → QInv I w d s →
    Cover I w d s → searchLoop I o w false false fuel s = some s' →
    Inv I o w d s' ∧ Step I s s' ∧ Exit I w d s' := by
  intro fuel
  induction fuel with
  | zero => intro s s' _ _ _ h; simp [searchLoop] at h
  | succ fuel ih =>
    intro s s' hs hq hc h
    unfold searchLoop at h
    split at h
    · rename_i hn
      have hq0 := popMin_none _ hn
      simp only [Option.some.injEq] at h
      subst h
      refine ⟨hs, Step.refl O s, ?_⟩
      intro e he
      cases hlt : I.less (d e) s.limit with
      | false => rfl
      | true =>
        obtain ⟨kc, hkc, _⟩ := hc e he hlt
        rw [hq0] at hkc; cases hkc
    · rename_i k c rest hp
      obtain ⟨p1, p2, p3, p4⟩ := popMin_spec O _ _ _ hp
      simp only at h
      have hq' : QInv I w d { s with queue := rest } := fun kc hkc => hq kc (p2 kc hkc)
      have hs' : Inv I o w d { s with queue := rest } := ⟨hs.sound, hs.nil_limit, hs.last, hs.within⟩
      split at h
      · -- the popped key is not within the limit: nothing queued is
        rename_i hnl
        have hnl' : I.less k s.limit = false := by simpa using hnl
        simp only [Option.some.injEq] at h
        subst h
        refine ⟨⟨hs.sound, hs.nil_limit, hs.last, hs.within⟩, ⟨O.irrefl _, fun _ h => h⟩, ?_⟩
        intro e he
        cases hlt : I.less (d e) s.limit with
        | false => rfl
        | true =>
          obtain ⟨kc, hkc, hek⟩ := hc e he hlt
          have hk1 : I.less kc.1 k = false := p4 kc hkc
          have hk2 : I.less (d e) kc.1 = false := (hq kc hkc).2 e hek
          have : I.less k s.limit = true :=
            ord_lt_of_le_of_lt O (ord_le_trans O hk1 hk2) hlt
          rw [hnl'] at this; cases this
      · have hgc : GoodCell I w d c := (hq (k, c) p1).1
        split at h
        · -- an index cell: its edges are processed
          rename_i cd edges
          have hes : ∀ e ∈ edges, e ∈ w.allEdges :=
            fun e he => hgc.2 e (by simpa [edgesUnder] using he)
          obtain ⟨a1, a2, a3, a4⟩ := edges_step O S H h1 edges hs' hes
          have hq2 : QInv I w d (processEdges I o w false { s with queue := rest } edges) := by
            intro kc hkc; rw [a4] at hkc; exact hq' kc hkc
          have hc2 : Cover I w d (processEdges I o w false { s with queue := rest } edges) := by
            intro e he hlt
            have hlt0 : I.less (d e) s.limit = true := ord_lt_of_lt_of_le O hlt a2.limit_le
            obtain ⟨kc, hkc, hek⟩ := hc e he hlt0
            rcases p3 kc hkc with rfl | hr
            · rw [a3 e (by simpa [edgesUnder] using hek)] at hlt; cases hlt
            · exact ⟨kc, by rw [a4]; exact hr, hek⟩
          obtain ⟨r1, r2, r3⟩ := ih _ s' a1 hq2 hc2 h
          exact ⟨r1, (Step.trans O (s1 := s) ⟨a2.limit_le, a2.results_sub⟩ r2), r3⟩
        · -- a proper ancestor: its children are processed or enqueued
          rename_i cd kids
          have a := poe_fold O S H h1 kids hs' hq' hgc.kids
          have hc2 : Cover I w d
              (kids.foldl (processOrEnqueue I o w false false) { s with queue := rest }) := by
            intro e he hlt
            have hlt0 : I.less (d e) s.limit = true := ord_lt_of_lt_of_le O hlt a.step.limit_le
            obtain ⟨kc, hkc, hek⟩ := hc e he hlt0
            rcases p3 kc hkc with rfl | hr
            · exact a.cover e (by simpa [edgesUnder] using hek) hlt
            · exact ⟨kc, a.queue_sub kc hr, hek⟩
          obtain ⟨r1, r2, r3⟩ := ih _ s' a.inv a.qinv hc2 h
          exact ⟨r1, (Step.trans O (s1 := s) ⟨a.step.limit_le, a.step.results_sub⟩ r2), r3⟩

end Queue

/-! ## `initQueue`, `findEdgesOptimized`, `findEdgesInternal` -/

section Internal
variable {I : DistI D} {o : Opts D} {w : World D} {d : EdgeKey → D}

theorem Exit.cover {s : St D} (h : Exit I w d s) : Cover I w d s := by
  intro e he hlt
  rw [h e he] at hlt; cases hlt

theorem exit_of_limit_zero (H : WorldOK I w d) {s : St D} (h : s.limit = I.zero) : Exit I w d s := by
  intro e _
  rw [h]; exact H.zeroMin e

theorem initQueue_out (O : DistOrder I) (S : SubLaws I o.maxError) (H : WorldOK I w d)
    (h1 : o.maxResults = 1) {s : St D} (hs : Inv I o w d s) (hq0 : s.queue = []) :
    Inv I o w d (initQueue I o w false false s) ∧ Step I s (initQueue I o w false false s) ∧
    QInv I w d (initQueue I o w false false s) ∧ Cover I w d (initQueue I o w false false s) := by
  have hroots : ∀ lim, GoodCells I w d (w.roots lim) := fun lim => ⟨H.cellLB lim, H.rootsSound lim⟩
  have qnil : ∀ s1 : St D, s1.queue = [] → QInv I w d s1 := by
    intro s1 hq kc hkc; rw [hq] at hkc; cases hkc
  have second : ∀ s1 : St D, Inv I o w d s1 → s1.queue = [] →
      Inv I o w d ((w.roots s1.limit).foldl (processOrEnqueue I o w false false) s1) ∧
      Step I s1 ((w.roots s1.limit).foldl (processOrEnqueue I o w false false) s1) ∧
      QInv I w d ((w.roots s1.limit).foldl (processOrEnqueue I o w false false) s1) ∧
      Cover I w d ((w.roots s1.limit).foldl (processOrEnqueue I o w false false) s1) := by
    intro s1 hs1 hq
    have a := poe_fold O S H h1 (w.roots s1.limit) hs1 (qnil s1 hq) (hroots _)
    refine ⟨a.inv, a.step, a.qinv, ?_⟩
    intro e he hlt
    exact a.cover e (H.rootsComplete _ e he (ord_lt_of_lt_of_le O hlt a.step.limit_le)) hlt
  unfold initQueue
  simp only [H.nonEmptyTarget, h1, Bool.false_eq_true, if_false, beq_self_eq_true, if_true,
    Bool.true_and]
  cases hl : w.located with
  | none =>
    simp only [Option.isSome_none, Bool.false_and, Bool.false_eq_true, if_false]
    exact second s hs hq0
  | some es =>
    simp only [Option.isSome_some, Bool.true_and]
    obtain ⟨a1, a2, _, a4⟩ := edges_step O S H h1 es hs (H.locatedSound es hl)
    split
    · rename_i hz
      have hz' : (processEdges I o w false s es).limit = I.zero := by simpa using hz
      exact ⟨a1, a2, qnil _ (a4.trans hq0), (exit_of_limit_zero H hz').cover⟩
    · obtain ⟨b1, b2, b3, b4⟩ := second _ a1 (a4.trans hq0)
      exact ⟨b1, a2.trans O b2, b3, b4⟩

theorem optimized_out (O : DistOrder I) (S : SubLaws I o.maxError) (H : WorldOK I w d)
    (h1 : o.maxResults = 1) {s s' : St D} (hs : Inv I o w d s) (hq0 : s.queue = [])
    (h : findEdgesOptimized I o w false false s = some s') :
    Inv I o w d s' ∧ Step I s s' ∧ Exit I w d s' := by
  obtain ⟨a1, a2, a3, a4⟩ := initQueue_out O S H h1 hs hq0
  obtain ⟨b1, b2, b3⟩ := searchLoop_out O S H h1 _ _ _ a1 a3 a4 h
  exact ⟨b1, a2.trans O b2, b3⟩

/-- the loop over the containing shapes -/
theorem interiors_fold (O : DistOrder I) (S : SubLaws I o.maxError) (H : WorldOK I w d)
    (h1 : o.maxResults = 1) (hi : o.includeInteriors = true) (l : List Int) :
    ∀ {s : St D}, Inv I o w d s → (∀ r ∈ s.results, r.dist = I.zero) → (∀ sh ∈ l, sh ∈ w.interiors) →
    Inv I o w d (l.foldl (fun s sh => addResult I o s ⟨I.zero, sh, -1⟩) s) ∧
    (∀ r ∈ (l.foldl (fun s sh => addResult I o s ⟨I.zero, sh, -1⟩) s).results, r.dist = I.zero) ∧
    (l.foldl (fun s sh => addResult I o s ⟨I.zero, sh, -1⟩) s).queue = s.queue ∧
    (l ≠ [] → ∃ r ∈ (l.foldl (fun s sh => addResult I o s ⟨I.zero, sh, -1⟩) s).results, r.dist = I.zero) ∧
    (∀ r ∈ s.results, r ∈ (l.foldl (fun s sh => addResult I o s ⟨I.zero, sh, -1⟩) s).results) := by
  induction l with
  | nil => intro s hs hz _; exact ⟨hs, hz, rfl, fun h => absurd rfl h, fun _ h => h⟩
  | cons sh l ih =>
    intro s hs hz hl
    simp only [List.foldl_cons]
    have hs1 : Inv I o w d (addResult I o s ⟨I.zero, sh, -1⟩) := by
      refine hs.add h1 (Or.inl ⟨hi, rfl, rfl, hl sh (by simp)⟩) ?_ (O.irrefl _) ?_
      · intro r' hr'; rw [hz r' hr']; exact O.irrefl _
      · intro e he
        have := ord_lt_of_lt_of_le O he (S.sub_le I.zero)
        rw [H.zeroMin e] at this; cases this
    have hz1 : ∀ r ∈ (addResult I o s ⟨I.zero, sh, -1⟩).results, r.dist = I.zero := by
      rw [addResult_one h1]
      intro r hr
      rcases List.mem_append.1 hr with h | h
      · exact hz r h
      · simp only [List.mem_singleton] at h; subst h; rfl
    obtain ⟨b1, b2, b3, _, b5⟩ := ih hs1 hz1 (fun x hx => hl x (List.mem_cons_of_mem _ hx))
    refine ⟨b1, b2, ?_, ?_, ?_⟩
    · rw [b3, addResult_one h1]
    · intro _
      refine ⟨⟨I.zero, sh, -1⟩, b5 _ ?_, rfl⟩
      rw [addResult_one h1]; simp
    · intro r hr
      apply b5
      rw [addResult_one h1]; exact List.mem_append_left _ hr

/-- everything the theorems K1–K6 need of the final state -/
structure Final (I : DistI D) (o : Opts D) (w : World D) (d : EdgeKey → D) (s : St D) : Prop where
  inv : Inv I o w d s
  exit : Exit I w d s
  interior : o.includeInteriors = true → w.interiors ≠ [] → o.distanceLimit ≠ I.zero →
    ∃ r ∈ s.results, r.dist = I.zero
  zero_nil : o.distanceLimit = I.zero → s.results = []

theorem internal_final (O : DistOrder I) (S : SubLaws I o.maxError) (H : WorldOK I w d)
    (h1 : o.maxResults = 1) (hU : o.targetUsesMaxError = false) {s : St D}
    (hT : findEdgesInternal I o w = some s) : Final I o w d s := by
  have hs0 : Inv I o w d { limit := o.distanceLimit, results := [], tested := [], queue := [] } :=
    ⟨by simp, fun _ => rfl, fun h => absurd rfl h, fun _ h => h⟩
  unfold findEdgesInternal at hT
  simp only [hU, Bool.and_false, Bool.false_and] at hT
  split at hT
  · rename_i hz
    have hz' : o.distanceLimit = I.zero := by simpa using hz
    simp only [Option.some.injEq] at hT
    subst hT
    exact ⟨hs0, exit_of_limit_zero H hz', fun _ _ h => absurd hz' h, fun _ => rfl⟩
  · rename_i hz
    have hne : o.distanceLimit ≠ I.zero := by simpa using hz
    -- the state after the containing shapes
    have hs1 : ∃ s1 : St D, s1 = (if o.includeInteriors then
          w.interiors.foldl (fun s sh => addResult I o s ⟨I.zero, sh, -1⟩)
            { limit := o.distanceLimit, results := [], tested := [], queue := [] }
        else { limit := o.distanceLimit, results := [], tested := [], queue := [] }) ∧
        Inv I o w d s1 ∧ s1.queue = [] ∧
        (o.includeInteriors = true → w.interiors ≠ [] → ∃ r ∈ s1.results, r.dist = I.zero) := by
      refine ⟨_, rfl, ?_⟩
      cases hi : o.includeInteriors with
      | false => exact ⟨hs0, rfl, fun h => by cases h⟩
      | true =>
        simp only [if_true]
        obtain ⟨a1, _, a3, a4, _⟩ := interiors_fold O S H h1 hi w.interiors hs0 (by simp) (fun _ h => h)
        exact ⟨a1, a3, fun _ h => a4 h⟩
    obtain ⟨s1, hs1eq, i1, i2, i3⟩ := hs1
    rw [← hs1eq] at hT
    have fin : ∀ s' : St D, Inv I o w d s' → Step I s1 s' → Exit I w d s' → Final I o w d s' := by
      intro s' a b c
      refine ⟨a, c, ?_, fun h => absurd h hne⟩
      intro hi hne' _
      obtain ⟨r, hr, hr0⟩ := i3 hi hne'
      exact ⟨r, b.results_sub r hr, hr0⟩
    split at hT
    · rename_i hz2
      simp only [Option.some.injEq] at hT
      subst hT
      have : s1.limit = I.zero := by
        simp only [Bool.and_eq_true, beq_iff_eq] at hz2; exact hz2.2
      exact fin _ i1 (Step.refl O _) (exit_of_limit_zero H this)
    · split at hT
      · simp only [Option.some.injEq] at hT
        subst hT
        obtain ⟨a, b, c⟩ := brute_step O S H h1 i1
        exact fin _ a b c
      · obtain ⟨a, b, c⟩ := optimized_out O S H h1 i1 i2 hT
        exact fin _ a b c

end Internal

/-! ## Termination: the fuel of `findEdgesOptimized` is enough (any options, any world) -/

section Total
variable {I : DistI D} {o : Opts D} {w : World D}

omit [DecidableEq D] in
theorem sizeList_append (a b : List (Cell D)) :
    Cell.sizeList (a ++ b) = Cell.sizeList a + Cell.sizeList b := by
  induction a with
  | nil => simp [Cell.sizeList]
  | cons c cs ih => simp [Cell.sizeList, ih]; omega

omit [DecidableEq D] in
theorem size_pos (c : Cell D) : 1 ≤ Cell.size c := by
  cases c <;> simp [Cell.size]

/-- total size of the queued subtrees -/
def qsize (q : List (D × Cell D)) : Nat := Cell.sizeList (q.map (·.2))

omit [DecidableEq D] in
theorem addResult_queue (s : St D) (r : Result D) : (addResult I o s r).queue = s.queue := by
  unfold addResult; simp only; split <;> rfl

theorem maybeAdd_queue (a : Bool) (s : St D) (e : EdgeKey) :
    (maybeAddResult I o w a s e).queue = s.queue := by
  unfold maybeAddResult
  split
  · split
    · rfl
    · split
      · exact addResult_queue _ _
      · rfl
  · split
    · rfl
    · simp only
      split
      · rw [addResult_queue]; split <;> rfl
      · split <;> rfl

theorem processEdges_queue (a : Bool) (es : List EdgeKey) : ∀ s : St D,
    (processEdges I o w a s es).queue = s.queue := by
  induction es with
  | nil => intro s; rfl
  | cons e es ih =>
    intro s
    show (processEdges I o w a (maybeAddResult I o w a s e) es).queue = s.queue
    rw [ih, maybeAdd_queue]

theorem poe_qsize (a cns : Bool) (s : St D) (c : Cell D) :
    qsize (processOrEnqueue I o w a cns s c).queue ≤ qsize s.queue + Cell.size c := by
  have henq : ∀ x : D, qsize (s.queue ++ [(x, c)]) = qsize s.queue + Cell.size c := by
    intro x; simp [qsize, sizeList_append, Cell.sizeList]
  unfold processOrEnqueue
  cases c with
  | index cd edges =>
    simp only
    split
    · omega
    · split
      · rw [processEdges_queue]; omega
      · split
        · omega
        · simp only [henq]; omega
  | node cd kids =>
    simp only
    split
    · omega
    · simp only [henq]; omega

theorem fold_qsize (a cns : Bool) (cs : List (Cell D)) : ∀ s : St D,
    qsize (cs.foldl (processOrEnqueue I o w a cns) s).queue ≤ qsize s.queue + Cell.sizeList cs := by
  induction cs with
  | nil => intro s; simp [Cell.sizeList]
  | cons c cs ih =>
    intro s
    simp only [List.foldl_cons, Cell.sizeList]
    have h1 := ih (processOrEnqueue I o w a cns s c)
    have h2 := poe_qsize (I := I) (o := o) (w := w) a cns s c
    omega

theorem popMin_qsize : ∀ (q : List (D × Cell D)) (m : D × Cell D) (rest : List (D × Cell D)),
    popMin I q = some (m, rest) → qsize q = Cell.size m.2 + qsize rest := by
  intro q
  induction q with
  | nil => intro m rest h; simp [popMin] at h
  | cons x xs ih =>
    intro m rest h
    unfold popMin at h
    split at h
    · rename_i hn
      have := popMin_none xs hn
      subst this
      simp only [Option.some.injEq, Prod.mk.injEq] at h
      obtain ⟨rfl, rfl⟩ := h
      simp [qsize, Cell.sizeList]
    · rename_i m' rest' hs
      have i := ih m' rest' hs
      split at h
      · simp only [Option.some.injEq, Prod.mk.injEq] at h
        obtain ⟨rfl, rfl⟩ := h
        simp only [qsize, List.map_cons, Cell.sizeList] at i ⊢
        omega
      · simp only [Option.some.injEq, Prod.mk.injEq] at h
        obtain ⟨rfl, rfl⟩ := h
        simp [qsize, Cell.sizeList]

theorem searchLoop_total (a cns : Bool) : ∀ (fuel : Nat) (s : St D), qsize s.queue < fuel →
    ∃ s', searchLoop I o w a cns fuel s = some s' := by
  intro fuel
  induction fuel with
  | zero => intro s h; omega
  | succ fuel ih =>
    intro s h
    unfold searchLoop
    split
    · exact ⟨_, rfl⟩
    · rename_i k c rest hp
      have hsz := popMin_qsize _ _ _ hp
      simp only at hsz ⊢
      split
      · exact ⟨_, rfl⟩
      · split
        · rename_i cd edges
          apply ih
          rw [processEdges_queue]
          have := size_pos (Cell.index cd edges)
          simp only at hsz ⊢
          omega
        · rename_i cd kids
          apply ih
          have h2 := fold_qsize (I := I) (o := o) (w := w) a cns kids { s with queue := rest }
          simp only [Cell.size] at hsz
          simp only at h2 ⊢
          omega

theorem findEdgesOptimized_total (a cns : Bool) (s : St D) :
    ∃ s', findEdgesOptimized I o w a cns s = some s' := by
  unfold findEdgesOptimized
  apply searchLoop_total
  simp only [qsize]; omega

/-- the fuel never runs out -/
theorem findEdgesInternal_total (I : DistI D) (o : Opts D) (w : World D) :
    ∃ s, findEdgesInternal I o w = some s := by
  unfold findEdgesInternal
  simp only
  by_cases h1 : (o.distanceLimit == I.zero) = true
  · rw [if_pos h1]; exact ⟨_, rfl⟩
  · rw [if_neg h1]
    generalize (if o.includeInteriors = true then _ else _ : St D) = s1
    split
    · exact ⟨_, rfl⟩
    · split
      · exact ⟨_, rfl⟩
      · exact findEdgesOptimized_total _ _ _

theorem findEdges_total (I : DistI D) (o : Opts D) (w : World D) :
    ∃ rs, findEdges I o w = some rs := by
  obtain ⟨s, hs⟩ := findEdgesInternal_total I o w
  exact ⟨_, by rw [findEdges, hs]; rfl⟩

end Total

end Single

open Single

/-! ## K1–K4: the theorems about `findEdges` with `maxResults = 1` -/

section Main
variable {I : DistI D} {o : Opts D} {w : World D} {d : EdgeKey → D}

theorem findEdges_some {rs : List (Result D)} (h : findEdges I o w = some rs) :
    ∃ s, findEdgesInternal I o w = some s ∧ rs = postProcess I o.maxResults s.results := by
  unfold findEdges at h
  cases hs : findEdgesInternal I o w with
  | none => rw [hs] at h; cases h
  | some s =>
    rw [hs] at h
    simp only [Option.map_some, Option.some.injEq] at h
    exact ⟨s, rfl, h.symm⟩

/-- the returned list is empty (no result was found) or is one result of minimal distance among
    the results of a final state -/
theorem single_char (O : DistOrder I) (S : SubLaws I o.maxError) (H : WorldOK I w d)
    (h1 : o.maxResults = 1) (hU : o.targetUsesMaxError = false) {rs : List (Result D)}
    (h : findEdges I o w = some rs) :
    ∃ s, Final I o w d s ∧ ((s.results = [] ∧ rs = []) ∨
      ∃ m, rs = [m] ∧ m ∈ s.results ∧ ∀ r ∈ s.results, I.less r.dist m.dist = false) := by
  obtain ⟨s, hs, hrs⟩ := findEdges_some h
  refine ⟨s, internal_final O S H h1 hU hs, ?_⟩
  rw [h1] at hrs
  rcases postProcess_one O s.results with ⟨a, b⟩ | ⟨m, a, b, c⟩
  · left; exact ⟨a, hrs.trans b⟩
  · right; exact ⟨m, hrs.trans a, b, c⟩

/-- (K1) at most one result -/
theorem single_length (h1 : o.maxResults = 1) {rs : List (Result D)}
    (h : findEdges I o w = some rs) : rs.length ≤ 1 := by
  obtain ⟨s, _, hrs⟩ := findEdges_some h
  rw [hrs, h1]; exact postProcess_one_length _

/-- (K2) a result is an interior result or an edge of the index at its true distance, within the
    distance limit -/
theorem single_sound (O : DistOrder I) (S : SubLaws I o.maxError) (H : WorldOK I w d)
    (h1 : o.maxResults = 1) (hU : o.targetUsesMaxError = false) {rs : List (Result D)}
    (h : findEdges I o w = some rs) : ∀ r ∈ rs,
    (o.includeInteriors = true ∧ r.dist = I.zero ∧ r.edge = -1 ∧ r.shape ∈ w.interiors) ∨
    (∃ e ∈ w.allEdges, r = ⟨d e, e.shape, e.edge⟩ ∧ I.less (d e) o.distanceLimit = true) := by
  obtain ⟨s, F, hc⟩ := single_char O S H h1 hU h
  intro r hr
  rcases hc with ⟨_, rfl⟩ | ⟨m, rfl, hm, _⟩
  · cases hr
  · simp only [List.mem_singleton] at hr; subst hr
    exact F.inv.sound r hm

/-- (K3) the guarantee of `MaxError`: no edge is closer than the reported distance minus the
    permitted error -/
theorem single_optimal (O : DistOrder I) (S : SubLaws I o.maxError) (H : WorldOK I w d)
    (h1 : o.maxResults = 1) (hU : o.targetUsesMaxError = false) {rs : List (Result D)}
    (h : findEdges I o w = some rs) :
    ∀ r ∈ rs, ∀ e ∈ w.allEdges, I.less (d e) (I.sub r.dist o.maxError) = false := by
  obtain ⟨s, F, hc⟩ := single_char O S H h1 hU h
  intro r hr e he
  rcases hc with ⟨_, rfl⟩ | ⟨m, rfl, hm, hmin⟩
  · cases hr
  · simp only [List.mem_singleton] at hr; subst hr
    obtain ⟨l, hl, hlim, hlmin⟩ := F.inv.last (List.ne_nil_of_mem hm)
    have : r.dist = l.dist := ord_eq_of_le_le O (hlmin r hm) (hmin l hl)
    rw [this, ← hlim]
    exact F.exit e he

/-- (K4, first half) nothing returned: nothing is within the limit -/
theorem single_complete (O : DistOrder I) (S : SubLaws I o.maxError) (H : WorldOK I w d)
    (h1 : o.maxResults = 1) (hU : o.targetUsesMaxError = false) {rs : List (Result D)}
    (h : findEdges I o w = some rs) (hnil : rs = []) :
    ∀ e ∈ w.allEdges, I.less (d e) o.distanceLimit = false := by
  obtain ⟨s, F, hc⟩ := single_char O S H h1 hU h
  intro e he
  rcases hc with ⟨hr, _⟩ | ⟨m, hm, _, _⟩
  · rw [← F.inv.nil_limit hr]; exact F.exit e he
  · rw [hnil] at hm; cases hm

/-- (K4, second half) with interiors included, a target inside an indexed polygon is at distance
    zero -/
theorem single_interior (O : DistOrder I) (S : SubLaws I o.maxError) (H : WorldOK I w d)
    (h1 : o.maxResults = 1) (hU : o.targetUsesMaxError = false) {rs : List (Result D)}
    (h : findEdges I o w = some rs) (hi : o.includeInteriors = true) (hne : w.interiors ≠ [])
    (hz : o.distanceLimit ≠ I.zero) : ∃ r ∈ rs, r.dist = I.zero := by
  obtain ⟨s, F, hc⟩ := single_char O S H h1 hU h
  obtain ⟨r0, hr0, hz0⟩ := F.interior hi hne hz
  rcases hc with ⟨hr, _⟩ | ⟨m, rfl, hm, hmin⟩
  · rw [hr] at hr0; cases hr0
  · refine ⟨m, by simp, ?_⟩
    have hle : I.less I.zero m.dist = false := hz0 ▸ hmin r0 hr0
    rcases F.inv.sound m hm with ⟨_, h0, _⟩ | ⟨e, _, rfl, _⟩
    · exact h0
    · exact ord_eq_of_le_le O (H.zeroMin e) hle

/-- a zero distance limit returns nothing (the first statement of `findEdgesInternal`) -/
theorem single_zero_limit (O : DistOrder I) (S : SubLaws I o.maxError) (H : WorldOK I w d)
    (h1 : o.maxResults = 1) (hU : o.targetUsesMaxError = false) {rs : List (Result D)}
    (h : findEdges I o w = some rs) (hz : o.distanceLimit = I.zero) : rs = [] := by
  obtain ⟨s, F, hc⟩ := single_char O S H h1 hU h
  rcases hc with ⟨_, h⟩ | ⟨m, _, hm, _⟩
  · exact h
  · rw [F.zero_nil hz] at hm; cases hm

/-! ## K5: zero permitted error -/

omit [DecidableEq D] in
theorem subLaws_of_exact (O : DistOrder I) {err : D} (hz : ∀ a, I.sub a err = a) : SubLaws I err :=
  ⟨fun a => by rw [hz]; exact O.irrefl a⟩

/-- (K5) with zero permitted error the reported distance is the true minimum -/
theorem single_exact (O : DistOrder I) (H : WorldOK I w d)
    (h1 : o.maxResults = 1) (hU : o.targetUsesMaxError = false)
    (hz : ∀ a, I.sub a o.maxError = a) {rs : List (Result D)}
    (h : findEdges I o w = some rs) :
    ∀ r ∈ rs, ∀ e ∈ w.allEdges, I.less (d e) r.dist = false := by
  intro r hr e he
  have := single_optimal O (subLaws_of_exact O hz) H h1 hU h r hr e he
  rwa [hz] at this

/-- distance of the first result, `infinity` when there is none (`findEdge` + `.dist`) -/
def headDist (I : DistI D) (rs : List (Result D)) : D :=
  match rs with
  | r :: _ => r.dist
  | [] => I.infinity

theorem distance_eq (I : DistI D) (o : Opts D) (w : World D) :
    distance I o w = (findEdges I { o with maxResults := 1 } w).map (headDist I) := by
  unfold distance findEdge
  cases findEdges I { o with maxResults := 1 } w with
  | none => rfl
  | some rs => cases rs <;> rfl

/-- what `distance` returns, in terms of the true distances only -/
structure DistSpec (I : DistI D) (o : Opts D) (w : World D) (d : EdgeKey → D) (x : D) : Prop where
  zeroLimit : o.distanceLimit = I.zero → x = I.infinity
  interior : o.distanceLimit ≠ I.zero → o.includeInteriors = true → w.interiors ≠ [] → x = I.zero
  edges : o.distanceLimit ≠ I.zero → ¬ (o.includeInteriors = true ∧ w.interiors ≠ []) →
    (x = I.infinity ∧ ∀ e ∈ w.allEdges, I.less (d e) o.distanceLimit = false) ∨
    (∃ e ∈ w.allEdges, x = d e ∧ I.less (d e) o.distanceLimit = true ∧
      ∀ e' ∈ w.allEdges, I.less (d e') x = false)

theorem DistSpec.unique (O : DistOrder I) {x y : D} (hx : DistSpec I o w d x)
    (hy : DistSpec I o w d y) : x = y := by
  by_cases h0 : o.distanceLimit = I.zero
  · rw [hx.zeroLimit h0, hy.zeroLimit h0]
  · by_cases hi : o.includeInteriors = true ∧ w.interiors ≠ []
    · rw [hx.interior h0 hi.1 hi.2, hy.interior h0 hi.1 hi.2]
    · rcases hx.edges h0 hi with ⟨a, a'⟩ | ⟨e, he, a, a', a''⟩
      · rcases hy.edges h0 hi with ⟨b, _⟩ | ⟨f, hf, _, b', _⟩
        · rw [a, b]
        · rw [a' f hf] at b'; cases b'
      · rcases hy.edges h0 hi with ⟨_, b'⟩ | ⟨f, hf, b, _, b''⟩
        · rw [b' e he] at a'; cases a'
        · rw [a, b]
          exact ord_eq_of_le_le O (b ▸ b'' e he) (a ▸ a'' f hf)

/-- `distance` with zero permitted error (any path, any `maxResults` in the options: `findEdge`
    sets it to 1) -/
theorem distance_spec (O : DistOrder I) (H : WorldOK I w d) (hU : o.targetUsesMaxError = false)
    (hz : ∀ a, I.sub a o.maxError = a) {x : D} (h : distance I o w = some x) :
    DistSpec I o w d x := by
  rw [distance_eq] at h
  cases hrs : findEdges I { o with maxResults := 1 } w with
  | none => rw [hrs] at h; cases h
  | some rs =>
    rw [hrs] at h
    simp only [Option.map_some, Option.some.injEq] at h
    have S : SubLaws I ({ o with maxResults := 1 } : Opts D).maxError := subLaws_of_exact O hz
    have k2 := single_sound O S H rfl hU hrs
    have k4 := single_complete O S H rfl hU hrs
    have k4i := single_interior O S H rfl hU hrs
    have k5 := single_exact (o := { o with maxResults := 1 }) O H rfl hU hz hrs
    have k0 := single_zero_limit O S H rfl hU hrs
    cases rs with
    | nil =>
      have hx : x = I.infinity := h.symm
      refine ⟨fun _ => hx, ?_, fun _ _ => Or.inl ⟨hx, k4 rfl⟩⟩
      intro h0 hi hne
      obtain ⟨r, hr, _⟩ := k4i hi hne h0
      cases hr
    | cons r t =>
      have hx : x = r.dist := h.symm
      have hr : r ∈ r :: t := by simp
      refine ⟨fun h0 => (by cases k0 h0), ?_, ?_⟩
      · intro h0 hi hne
        obtain ⟨r', hr', hz'⟩ := k4i hi hne h0
        have hl := single_length (I := I) (o := { o with maxResults := 1 }) (w := w) rfl hrs
        cases t with
        | nil => simp only [List.mem_singleton] at hr'; subst hr'; rw [hx, hz']
        | cons a b => simp at hl
      · intro _ hi
        rcases k2 r hr with ⟨a, _, _, a'⟩ | ⟨e, he, a, a'⟩
        · exact absurd ⟨a, List.ne_nil_of_mem a'⟩ hi
        · right
          have hxe : x = d e := by rw [hx, a]
          exact ⟨e, he, hxe, a', fun e' he' => by rw [hx]; exact k5 r hr e' he'⟩

/-- (K5) both paths report the same distance (the edge reported may differ among ties) -/
theorem distance_opt_eq_brute (O : DistOrder I) (H : WorldOK I w d)
    (hU : o.targetUsesMaxError = false) (hz : ∀ a, I.sub a o.maxError = a) :
    distance I { o with useBruteForce := false } { w with small := false } =
      distance I { o with useBruteForce := true } w := by
  have tot : ∀ (o' : Opts D) (w' : World D), ∃ x, distance I o' w' = some x := by
    intro o' w'
    obtain ⟨rs, hrs⟩ := findEdges_total I { o' with maxResults := 1 } w'
    exact ⟨_, by rw [distance_eq, hrs]; rfl⟩
  obtain ⟨x, hx⟩ := tot { o with useBruteForce := false } { w with small := false }
  obtain ⟨y, hy⟩ := tot { o with useBruteForce := true } w
  have H' : WorldOK I { w with small := false } d :=
    ⟨H.exactEdge, H.cellLB, H.rootsComplete, H.rootsSound, H.locatedSound, H.nonEmptyTarget, H.zeroMin⟩
  have sx := distance_spec (o := { o with useBruteForce := false }) O H' hU hz hx
  have sy := distance_spec (o := { o with useBruteForce := true }) O H hU hz hy
  have sx' : DistSpec I o w d x := ⟨sx.zeroLimit, sx.interior, sx.edges⟩
  have sy' : DistSpec I o w d y := ⟨sy.zeroLimit, sy.interior, sy.edges⟩
  rw [hx, hy, sx'.unique O sy']

end Main

/-! ## K6: `isDistanceLess` agrees with `distance` -/

section Threshold
variable {I : DistI D} {o : Opts D} {w : World D} {d : EdgeKey → D}

/-- "something of the index is within the threshold `t`": the target is inside an indexed polygon
    (interiors included) or an edge is closer than `t`; nothing is closer than `zero` -/
def Within (I : DistI D) (o : Opts D) (w : World D) (d : EdgeKey → D) (t : D) : Prop :=
  t ≠ I.zero ∧ ((o.includeInteriors = true ∧ w.interiors ≠ []) ∨ ∃ e ∈ w.allEdges, I.less (d e) t = true)

theorem isDistanceLess_eq (I : DistI D) (straight : D) (o : Opts D) (w : World D) (t : D) :
    isDistanceLess I straight o w t =
      (findEdges I { o with maxResults := 1, distanceLimit := t, maxError := straight } w).map
        (fun rs => match rs with
          | r :: _ => decide (r.shape ≥ 0)
          | [] => false) := by
  unfold isDistanceLess findEdge
  show Option.map _ (Option.map _
    (findEdges I { o with maxResults := 1, distanceLimit := t, maxError := straight } w)) = _
  cases findEdges I { o with maxResults := 1, distanceLimit := t, maxError := straight } w with
  | none => rfl
  | some rs => cases rs <;> rfl

/-- `isDistanceLess` decides `Within` (any path; the permitted error `straight` makes the search
    stop at the first hit and does not affect the answer) -/
theorem isDistanceLess_spec (O : DistOrder I) (H : WorldOK I w d)
    (hU : o.targetUsesMaxError = false) {straight t : D} (Sst : SubLaws I straight)
    (hsh : ∀ e ∈ w.allEdges, 0 ≤ e.shape) (hin : ∀ sh ∈ w.interiors, 0 ≤ sh)
    {b : Bool} (hb : isDistanceLess I straight o w t = some b) :
    (b = true ↔ Within I o w d t) := by
  rw [isDistanceLess_eq] at hb
  cases hrs : findEdges I { o with maxResults := 1, distanceLimit := t, maxError := straight } w with
  | none => rw [hrs] at hb; cases hb
  | some rs =>
    rw [hrs] at hb
    simp only [Option.map_some, Option.some.injEq] at hb
    have k2 := single_sound (o := { o with maxResults := 1, distanceLimit := t, maxError := straight })
      O Sst H rfl hU hrs
    have k4 := single_complete (o := { o with maxResults := 1, distanceLimit := t, maxError := straight })
      O Sst H rfl hU hrs
    have k4i := single_interior (o := { o with maxResults := 1, distanceLimit := t, maxError := straight })
      O Sst H rfl hU hrs
    have k0 := single_zero_limit (o := { o with maxResults := 1, distanceLimit := t, maxError := straight })
      O Sst H rfl hU hrs
    cases rs with
    | nil =>
      have hbf : b = false := hb.symm
      subst hbf
      refine ⟨fun h => (by cases h), ?_⟩
      rintro ⟨ht, ⟨hi, hne⟩ | ⟨e, he, hlt⟩⟩
      · obtain ⟨r, hr, _⟩ := k4i hi hne ht
        cases hr
      · have := k4 rfl e he
        rw [hlt] at this; cases this
    | cons r rest =>
      have hr : r ∈ r :: rest := by simp
      have ht : t ≠ I.zero := fun h0 => by cases k0 h0
      have hbt : b = decide (r.shape ≥ 0) := hb.symm
      rcases k2 r hr with ⟨a, _, _, a'⟩ | ⟨e, he, a, a'⟩
      · have : r.shape ≥ 0 := hin _ a'
        exact ⟨fun _ => ⟨ht, Or.inl ⟨a, List.ne_nil_of_mem a'⟩⟩, fun _ => by rw [hbt]; simpa using this⟩
      · have : r.shape ≥ 0 := by rw [a]; exact hsh e he
        exact ⟨fun _ => ⟨ht, Or.inr ⟨e, he, a'⟩⟩, fun _ => by rw [hbt]; simpa using this⟩

/-- the distance (unbounded search, zero permitted error) is below `t` iff something is within `t` -/
theorem distance_less_iff (O : DistOrder I) (H : WorldOK I w d)
    (hlim : o.distanceLimit = I.infinity) {t : D}
    (hinf : I.less I.zero I.infinity = true) (ht1 : I.less I.infinity t = false)
    (ht0 : I.less t I.zero = false) {dd : D} (hd : DistSpec I o w d dd) :
    (I.less dd t = true ↔ Within I o w d t) := by
  have hne : o.distanceLimit ≠ I.zero := by
    intro h; rw [hlim] at h; rw [h, O.irrefl] at hinf; cases hinf
  by_cases hi : o.includeInteriors = true ∧ w.interiors ≠ []
  · rw [hd.interior hne hi.1 hi.2]
    constructor
    · intro hlt
      refine ⟨?_, Or.inl hi⟩
      intro h0; rw [h0, O.irrefl] at hlt; cases hlt
    · rintro ⟨ht, _⟩
      rcases O.tri _ _ ht with h | h
      · rw [ht0] at h; cases h
      · exact h
  · rcases hd.edges hne hi with ⟨a, a'⟩ | ⟨e, he, a, _, a''⟩
    · rw [a, ht1]
      refine ⟨fun h => (by cases h), ?_⟩
      rintro ⟨_, h | ⟨e, he, hlt⟩⟩
      · exact absurd h hi
      · have := ord_lt_of_lt_of_le O hlt ht1
        rw [hlim] at a'
        rw [a' e he] at this; cases this
    · rw [a]
      constructor
      · intro hlt
        refine ⟨?_, Or.inr ⟨e, he, hlt⟩⟩
        intro h0; rw [h0, H.zeroMin] at hlt; cases hlt
      · rintro ⟨_, h | ⟨f, hf, hlt⟩⟩
        · exact absurd h hi
        · exact ord_lt_of_le_of_lt O (a ▸ a'' f hf) hlt

/-- (K6) the threshold form agrees with the distance -/
theorem isDistanceLess_iff (O : DistOrder I) (H : WorldOK I w d)
    (hU : o.targetUsesMaxError = false) (hlim : o.distanceLimit = I.infinity)
    (hz : ∀ a, I.sub a o.maxError = a) {straight t : D} (Sst : SubLaws I straight)
    (hinf : I.less I.zero I.infinity = true) (ht1 : I.less I.infinity t = false)
    (ht0 : I.less t I.zero = false)
    (hsh : ∀ e ∈ w.allEdges, 0 ≤ e.shape) (hin : ∀ sh ∈ w.interiors, 0 ≤ sh)
    {b : Bool} {dd : D} (hb : isDistanceLess I straight o w t = some b)
    (hd : distance I o w = some dd) : (b = true ↔ I.less dd t = true) :=
  (isDistanceLess_spec O H hU Sst hsh hin hb).trans
    (distance_less_iff O H hlim hinf ht1 ht0 (distance_spec O H hU hz hd)).symm

/-- the side conditions of `isDistanceLess_iff` hold for `minDist top`, `straight = top`,
    thresholds in `[0, top+1]` -/
example (top t : Int) (h0 : 0 ≤ top) (ht : 0 ≤ t ∧ t ≤ top + 1) :
    (∀ a, (minDist top).sub a 0 = a) ∧ SubLaws (minDist top) top ∧
    (minDist top).less (minDist top).zero (minDist top).infinity = true ∧
    (minDist top).less (minDist top).infinity t = false ∧
    (minDist top).less t (minDist top).zero = false := by
  refine ⟨?_, minDist_sub top top h0, ?_, ?_, ?_⟩
  · intro a; simp [minDist]
  · simp [minDist]; omega
  · simp [minDist]; omega
  · simp [minDist]; omega

end Threshold

/-! ## Non-vacuity: a concrete world -/

namespace SingleEx0

/-- distances of the 14 edges of shape 0 (edge ids 0..13) -/
def tab : Nat → Nat := fun i => [40, 50, 60, 26, 23, 20, 29, 32, 35, 38, 41, 44, 47, 50].getD i 100
def d0 (e : EdgeKey) : Int := (tab e.edge.toNat : Nat)

def eA : List EdgeKey := [⟨0, 0⟩, ⟨0, 1⟩, ⟨0, 2⟩]
def eB : List EdgeKey :=
  [⟨0, 3⟩, ⟨0, 4⟩, ⟨0, 5⟩, ⟨0, 6⟩, ⟨0, 7⟩, ⟨0, 8⟩, ⟨0, 9⟩, ⟨0, 10⟩, ⟨0, 11⟩, ⟨0, 12⟩, ⟨0, 13⟩]

/-- `updateDistanceToCell` of a cell whose distance to the target is `x` -/
def lb (x : Int) : Int → Option Int := fun lim => if x < lim then some x else none

def cA : Cell Int := .index (lb 35) eA
def cB : Cell Int := .index (lb 18) eB
def root0 : Cell Int := .node (lb 15) [cA, cB]

def w0 : World Int where
  updEdge e lim := if d0 e < lim then some (d0 e) else none
  allEdges := eA ++ eB
  interiors := [0]
  small := false
  emptyTarget := false
  located := some eA
  roots _ := [root0]

def o0 (err : Int) (interiors brute : Bool) : Opts Int where
  maxResults := 1
  distanceLimit := 1001
  maxError := err
  includeInteriors := interiors
  useBruteForce := brute
  targetUsesMaxError := false

theorem cellLB_lb (top : Int) (c : Cell Int) (x : Int) (hcd : c.cd = lb x)
    (h : ∀ e ∈ edgesUnder c, x ≤ d0 e) : CellLB (minDist top) d0 c := by
  intro lim
  rw [hcd]
  unfold lb
  constructor
  · intro hn e he
    have := h e he
    split at hn
    · cases hn
    · simp only [minDist, decide_eq_false_iff_not]; omega
  · intro y hy
    split at hy
    · simp only [Option.some.injEq] at hy
      subst hy
      refine ⟨by simpa [minDist], ?_⟩
      intro e he
      have := h e he
      simp only [minDist, decide_eq_false_iff_not]; omega
    · cases hy

theorem w0_ok : WorldOK (minDist 1000) w0 d0 where
  exactEdge e lim := by simp [w0, minDist]
  cellLB lim c hc := by
    have hc' : c = root0 ∨ c = cA ∨ c = cB := by
      simpa [w0, cellsOfList, cellsOf, root0, cA, cB] using hc
    rcases hc' with rfl | rfl | rfl
    · exact cellLB_lb _ _ 15 rfl (by simp only [root0, cA, cB, edgesUnder, edgesUnderList]; decide)
    · exact cellLB_lb _ _ 35 rfl (by simp only [cA, edgesUnder]; decide)
    · exact cellLB_lb _ _ 18 rfl (by simp only [cB, edgesUnder]; decide)
  rootsComplete lim e he _ := by
    simpa [w0, edgesUnderList, edgesUnder, root0, cA, cB] using he
  rootsSound lim e he := by
    simpa [w0, edgesUnderList, edgesUnder, root0, cA, cB] using he
  locatedSound es hes e he := by
    simp only [w0, Option.some.injEq] at hes
    subst hes
    exact List.mem_append_left _ he
  nonEmptyTarget := rfl
  zeroMin e := by simp only [minDist, d0, decide_eq_false_iff_not]; omega

-- exact search (`maxError = 0`): both paths find the closest edge, (0, 5) at distance 20
example : findEdges (minDist 1000) (o0 0 false false) w0 = some [⟨20, 0, 5⟩] := by decide
example : findEdges (minDist 1000) (o0 0 false true) w0 = some [⟨20, 0, 5⟩] := by decide

-- `maxError = 7`: the edge (0, 3) at distance 26 is reported although (0, 5) is at distance 20;
-- K3 holds: `26 - 7 = 19` and no edge is closer than 19 (after (0, 3) the limit is 19, and neither
-- 23 nor 20 is below it)
example : findEdges (minDist 1000) (o0 7 false false) w0 = some [⟨26, 0, 3⟩] := by decide
example : findEdges (minDist 1000) (o0 7 false true) w0 = some [⟨26, 0, 3⟩] := by decide
example : ∀ e ∈ w0.allEdges, (minDist 1000).less (d0 e) ((minDist 1000).sub 26 7) = false := by decide
example : ∃ e ∈ w0.allEdges, (minDist 1000).less (d0 e) 26 = true := by decide
-- interiors included: the target is inside shape 0
example : findEdges (minDist 1000) (o0 7 true false) w0 = some [⟨0, 0, -1⟩] := by decide
-- `distance`
example : distance (minDist 1000) (o0 0 false false) w0 = some 20 := by decide
example : distance (minDist 1000) (o0 0 false true) w0 = some 20 := by decide
example : distance (minDist 1000) (o0 7 false false) w0 = some 26 := by decide
example : distance (minDist 1000) (o0 0 true false) w0 = some 0 := by decide
example : distance (minDist 1000) { o0 0 false false with distanceLimit := 20 } w0 = some 1001 := by
  decide
-- `isDistanceLess` (`straight = 1000`): true exactly for thresholds above the distance 20
example : [0, 20, 21, 1001].map (isDistanceLess (minDist 1000) 1000 (o0 0 false false) w0) =
    [some false, some false, some true, some true] := by decide
example : [0, 20, 21, 1001].map (isDistanceLess (minDist 1000) 1000 (o0 0 false true) w0) =
    [some false, some false, some true, some true] := by decide
example : [0, 1, 21, 1001].map (isDistanceLess (minDist 1000) 1000 (o0 0 true false) w0) =
    [some false, some true, some true, some true] := by decide
-- the state in which the threshold search for `t = 21` stops: one hit, limit `zero`
example : (findEdgesInternal (minDist 1000)
      { o0 0 false false with distanceLimit := 21, maxError := 1000 } w0).map
      (fun s => (s.results, s.limit)) = some ([⟨20, 0, 5⟩], 0) := by decide

-- the theorems apply to the example (hypotheses are satisfiable)
example : ∀ r ∈ [(⟨26, 0, 3⟩ : Result Int)], ∀ e ∈ w0.allEdges,
    (minDist 1000).less (d0 e) ((minDist 1000).sub r.dist 7) = false :=
  single_optimal (o := o0 7 false false) (minDist_order 1000) (minDist_sub 1000 7 (by omega)) w0_ok
    rfl rfl (by decide)

end SingleEx0

/-! ## K7: a target that uses `maxError` (shape-index targets) -/

/-- `sub · err` is monotone -/
structure SubMono {D : Type} (I : DistI D) (err : D) : Prop where
  mono : ∀ a b, I.less a b = true → I.less (I.sub b err) (I.sub a err) = false

theorem minDist_subMono (top err : Int) (h : 0 ≤ err) : SubMono (minDist top) err where
  mono a b := by
    by_cases he : err = 0
    · subst he
      simp only [minDist, decide_eq_true_eq, decide_eq_false_iff_not]
      intro hab
      repeat' split
      all_goals simp_all
      all_goals omega
    · have he' : (err == 0) = false := by simpa using he
      simp only [minDist, decide_eq_true_eq, decide_eq_false_iff_not, he']
      intro hab
      repeat' split
      all_goals simp_all
      all_goals omega

theorem maxDist_subMono (top err : Int) (h : 0 ≤ err) : SubMono (maxDist top) err where
  mono a b := by
    by_cases he : err = 0
    · subst he
      simp only [maxDist, decide_eq_true_eq, decide_eq_false_iff_not]
      intro hab
      repeat' split
      all_goals simp_all
      all_goals omega
    · have he' : (err == 0) = false := by simpa using he
      simp only [maxDist, decide_eq_true_eq, decide_eq_false_iff_not, he']
      intro hab
      repeat' split
      all_goals simp_all
      all_goals omega

/-- `updateDistanceToCell` for a target that uses `maxError`: "not ok" is exact, "ok, x" may
    overestimate the distance of the edges below by at most `err` -/
def CellApprox (I : DistI D) (err : D) (d : EdgeKey → D) (c : Cell D) : Prop :=
  ∀ lim, (c.cd lim = none → ∀ e ∈ edgesUnder c, I.less (d e) lim = false) ∧
         (∀ x, c.cd lim = some x → I.less x lim = true ∧
            ∀ e ∈ edgesUnder c, I.less (d e) (I.sub x err) = false)

/-- hypotheses for a target that uses `maxError = err` -/
structure WorldApprox (I : DistI D) (err : D) (w : World D) (d : EdgeKey → D) : Prop where
  /-- "ok, x": `x` is within the limit, not below the true distance, and above it by at most `err` -/
  approxEdge : ∀ e lim x, w.updEdge e lim = some x →
    I.less x lim = true ∧ I.less x (d e) = false ∧ I.less (d e) (I.sub x err) = false
  /-- "not ok": the edge is not within the limit -/
  approxEdgeNone : ∀ e lim, w.updEdge e lim = none → I.less (d e) lim = false
  cellApprox : ∀ lim, ∀ c ∈ cellsOfList (w.roots lim), CellApprox I err d c
  rootsComplete : ∀ lim, ∀ e ∈ w.allEdges, I.less (d e) lim = true → e ∈ edgesUnderList (w.roots lim)
  rootsSound : ∀ lim, ∀ e ∈ edgesUnderList (w.roots lim), e ∈ w.allEdges
  locatedSound : ∀ es, w.located = some es → ∀ e ∈ es, e ∈ w.allEdges
  nonEmptyTarget : w.emptyTarget = false
  zeroMin : ∀ e, I.less (d e) I.zero = false

namespace Approx

/-- K2 for an approximate target -/
def SoundResult (I : DistI D) (o : Opts D) (w : World D) (d : EdgeKey → D) (r : Result D) : Prop :=
  (o.includeInteriors = true ∧ r.dist = I.zero ∧ r.edge = -1 ∧ r.shape ∈ w.interiors) ∨
  (∃ e ∈ w.allEdges, r.shape = e.shape ∧ r.edge = e.edge ∧ I.less r.dist o.distanceLimit = true ∧
    I.less r.dist (d e) = false ∧ I.less (d e) (I.sub r.dist o.maxError) = false)

structure Inv (I : DistI D) (o : Opts D) (w : World D) (d : EdgeKey → D) (s : St D) : Prop where
  sound : ∀ r ∈ s.results, SoundResult I o w d r
  nil_limit : s.results = [] → s.limit = o.distanceLimit
  last : s.results ≠ [] → ∃ m ∈ s.results, s.limit = I.sub m.dist o.maxError ∧
    ∀ r ∈ s.results, I.less r.dist m.dist = false
  within : ∀ y, I.less y I.zero = false → I.less y s.limit = true → I.less y o.distanceLimit = true

/-- the key invariant of the queue: the search is "dead" (limit ≤ zero), or keys are lower bounds
    (conservative keys), or the limit is still the initial one and every key is within it -/
def Keys (I : DistI D) (d : EdgeKey → D) (cns : Bool) (L0 : D) (s : St D) : Prop :=
  I.less I.zero s.limit = false ∨
  (cns = true ∧ ∀ kc ∈ s.queue, ∀ e ∈ edgesUnder kc.2, I.less (d e) kc.1 = false) ∨
  (cns = false ∧ s.limit = L0 ∧ ∀ kc ∈ s.queue, I.less kc.1 L0 = true)

def GoodCell (I : DistI D) (err : D) (w : World D) (d : EdgeKey → D) (c : Cell D) : Prop :=
  (∀ c' ∈ cellsOf c, CellApprox I err d c') ∧ (∀ e ∈ edgesUnder c, e ∈ w.allEdges)

def GoodCells (I : DistI D) (err : D) (w : World D) (d : EdgeKey → D) (cs : List (Cell D)) : Prop :=
  (∀ c' ∈ cellsOfList cs, CellApprox I err d c') ∧ (∀ e ∈ edgesUnderList cs, e ∈ w.allEdges)

def QGood (I : DistI D) (err : D) (w : World D) (d : EdgeKey → D) (s : St D) : Prop :=
  ∀ kc ∈ s.queue, GoodCell I err w d kc.2

theorem GoodCells.head {I : DistI D} {err : D} {w : World D} {d : EdgeKey → D} {c : Cell D}
    {cs : List (Cell D)} (h : GoodCells I err w d (c :: cs)) : GoodCell I err w d c :=
  ⟨fun c' hc' => h.1 c' (by simp [cellsOfList, hc']), fun e he => h.2 e (by simp [edgesUnderList, he])⟩

theorem GoodCells.tail {I : DistI D} {err : D} {w : World D} {d : EdgeKey → D} {c : Cell D}
    {cs : List (Cell D)} (h : GoodCells I err w d (c :: cs)) : GoodCells I err w d cs :=
  ⟨fun c' hc' => h.1 c' (by simp [cellsOfList, hc']), fun e he => h.2 e (by simp [edgesUnderList, he])⟩

theorem GoodCell.kids {I : DistI D} {err : D} {w : World D} {d : EdgeKey → D} {cd : D → Option D}
    {kids : List (Cell D)} (h : GoodCell I err w d (.node cd kids)) : GoodCells I err w d kids :=
  ⟨fun c' hc' => h.1 c' (by simp [cellsOf, hc']), fun e he => h.2 e (by simpa [edgesUnder] using he)⟩

section Core
variable {I : DistI D} {o : Opts D} {w : World D} {d : EdgeKey → D} {cns : Bool} {L0 : D}

theorem dead_mono (O : DistOrder I) {s s' : St D} (h : I.less I.zero s.limit = false)
    (st : Step I s s') : I.less I.zero s'.limit = false :=
  ord_le_trans O st.limit_le h

theorem exit_of_dead (O : DistOrder I) (A : WorldApprox I o.maxError w d) {s : St D}
    (h : I.less I.zero s.limit = false) : Exit I w d s := by
  intro e _
  cases hlt : I.less (d e) s.limit with
  | false => rfl
  | true =>
    have := ord_lt_of_lt_of_le O hlt h
    rw [A.zeroMin] at this; cases this

/-- `Keys` survives a step that leaves the queue alone, provided a changed limit is below the old
    one by `sub x err` for some `x` within the old limit -/
theorem Keys.of_same_queue (O : DistOrder I)
    (hNC : cns = false → ∀ x, I.less x L0 = true → I.less I.zero (I.sub x o.maxError) = false)
    {s s' : St D} (hk : Keys I d cns L0 s) (st : Step I s s') (hq : s'.queue = s.queue)
    (hl : s'.limit = s.limit ∨ ∃ x, I.less x s.limit = true ∧ s'.limit = I.sub x o.maxError) :
    Keys I d cns L0 s' := by
  rcases hk with h | ⟨hc, h⟩ | ⟨hc, h, h'⟩
  · exact Or.inl (dead_mono O h st)
  · exact Or.inr (Or.inl ⟨hc, by rw [hq]; exact h⟩)
  · rcases hl with hl | ⟨x, hx, hl⟩
    · exact Or.inr (Or.inr ⟨hc, hl.trans h, by rw [hq]; exact h'⟩)
    · left; rw [hl]; exact hNC hc x (h ▸ hx)

theorem Inv.add (h1 : o.maxResults = 1) {s : St D} (hs : Inv I o w d s) {r : Result D}
    (hr : SoundResult I o w d r)
    (hmin : ∀ r' ∈ s.results, I.less r'.dist r.dist = false)
    (hirr : I.less r.dist r.dist = false)
    (hw : ∀ y, I.less y I.zero = false → I.less y (I.sub r.dist o.maxError) = true →
      I.less y o.distanceLimit = true) :
    Inv I o w d (addResult I o s r) := by
  rw [addResult_one h1]
  refine ⟨?_, ?_, ?_, hw⟩
  · intro r' hr'
    rcases List.mem_append.1 hr' with h | h
    · exact hs.sound r' h
    · simp only [List.mem_singleton] at h; subst h; exact hr
  · intro h; simp at h
  · intro _
    refine ⟨r, by simp, rfl, ?_⟩
    intro r' hr'
    rcases List.mem_append.1 hr' with h | h
    · exact hmin r' h
    · simp only [List.mem_singleton] at h; subst h; exact hirr

theorem maybeAdd_false (s : St D) (e : EdgeKey) :
    maybeAddResult I o w false s e =
      match w.updEdge e s.limit with
      | some x => addResult I o s ⟨x, e.shape, e.edge⟩
      | none => s := by
  unfold maybeAddResult
  simp only [Bool.false_and, Bool.false_eq_true, if_false]
  split <;> rfl

theorem edge_step (O : DistOrder I) (S : SubLaws I o.maxError) (A : WorldApprox I o.maxError w d)
    (h1 : o.maxResults = 1)
    (hNC : cns = false → ∀ x, I.less x L0 = true → I.less I.zero (I.sub x o.maxError) = false)
    {s : St D} (hs : Inv I o w d s) (hk : Keys I d cns L0 s) {e : EdgeKey} (he : e ∈ w.allEdges) :
    Inv I o w d (maybeAddResult I o w false s e) ∧ Step I s (maybeAddResult I o w false s e) ∧
    I.less (d e) (maybeAddResult I o w false s e).limit = false ∧
    (maybeAddResult I o w false s e).queue = s.queue ∧
    Keys I d cns L0 (maybeAddResult I o w false s e) := by
  rw [maybeAdd_false]
  cases hu : w.updEdge e s.limit with
  | none => exact ⟨hs, Step.refl O s, A.approxEdgeNone e _ hu, rfl, hk⟩
  | some x =>
    simp only
    obtain ⟨hlt, hge, hap⟩ := A.approxEdge e _ x hu
    have hle : I.less x (I.sub x o.maxError) = false := S.sub_le _
    have hz : I.less x I.zero = false := ord_le_trans O (A.zeroMin e) hge
    have st : Step I s (addResult I o s ⟨x, e.shape, e.edge⟩) := by
      rw [addResult_one h1]
      refine ⟨?_, fun r h => List.mem_append_left _ h⟩
      show I.less s.limit (I.sub x o.maxError) = false
      exact ord_asymm O (ord_lt_of_le_of_lt O hle hlt)
    refine ⟨?_, st, ?_, ?_, ?_⟩
    · refine hs.add h1 (Or.inr ⟨e, he, rfl, rfl, hs.within x hz hlt, hge, hap⟩) ?_ (O.irrefl _) ?_
      · intro r' hr'
        obtain ⟨m, _, hlim, hm⟩ := hs.last (List.ne_nil_of_mem hr')
        have h2 : I.less x m.dist = true := ord_lt_of_lt_of_le O (hlim ▸ hlt) (S.sub_le _)
        exact ord_asymm O (ord_lt_of_lt_of_le O h2 (hm r' hr'))
      · intro y hy0 hy
        exact hs.within y hy0 (O.trans _ _ _ (ord_lt_of_lt_of_le O hy hle) hlt)
    · rw [addResult_one h1]; exact hap
    · rw [addResult_one h1]
    · refine hk.of_same_queue O hNC st (by rw [addResult_one h1]) (Or.inr ⟨x, hlt, ?_⟩)
      rw [addResult_one h1]

theorem edges_step (O : DistOrder I) (S : SubLaws I o.maxError) (A : WorldApprox I o.maxError w d)
    (h1 : o.maxResults = 1)
    (hNC : cns = false → ∀ x, I.less x L0 = true → I.less I.zero (I.sub x o.maxError) = false)
    (es : List EdgeKey) : ∀ {s : St D}, Inv I o w d s → Keys I d cns L0 s →
    (∀ e ∈ es, e ∈ w.allEdges) →
    Inv I o w d (processEdges I o w false s es) ∧ Step I s (processEdges I o w false s es) ∧
    (∀ e ∈ es, I.less (d e) (processEdges I o w false s es).limit = false) ∧
    (processEdges I o w false s es).queue = s.queue ∧
    Keys I d cns L0 (processEdges I o w false s es) := by
  induction es with
  | nil => intro s hs hk _; exact ⟨hs, Step.refl O s, by simp, rfl, hk⟩
  | cons e es ih =>
    intro s hs hk hes
    obtain ⟨a1, a2, a3, a4, a5⟩ := edge_step O S A h1 hNC hs hk (hes e (by simp))
    obtain ⟨b1, b2, b3, b4, b5⟩ := ih a1 a5 (fun e' he' => hes e' (List.mem_cons_of_mem _ he'))
    have heq : processEdges I o w false s (e :: es) =
        processEdges I o w false (maybeAddResult I o w false s e) es := rfl
    rw [heq]
    refine ⟨b1, a2.trans O b2, ?_, b4.trans a4, b5⟩
    intro e' he'
    rcases List.mem_cons.1 he' with rfl | he'
    · exact ord_le_trans O b2.limit_le a3
    · exact b3 e' he'

end Core

section Queue
variable {I : DistI D} {o : Opts D} {w : World D} {d : EdgeKey → D} {cns : Bool} {L0 : D}

/-- the `enqueue` closure of `processOrEnqueue` -/
def enq (I : DistI D) (o : Opts D) (cns : Bool) (s : St D) (c : Cell D) : St D :=
  match c.cd s.limit with
  | none => s
  | some x => { s with queue := s.queue ++ [(if cns then I.sub x o.maxError else x, c)] }

theorem poe_eq (s : St D) (c : Cell D) :
    processOrEnqueue I o w false cns s c =
      match c with
      | .index _ edges =>
        if edges.length == 0 then s
        else if edges.length < 10 then processEdges I o w false s edges
        else enq I o cns s c
      | .node _ _ => enq I o cns s c := by
  cases c <;> rfl

structure PoeOut (I : DistI D) (o : Opts D) (w : World D) (d : EdgeKey → D) (cns : Bool) (L0 : D)
    (s s' : St D) (es : List EdgeKey) : Prop where
  inv : Inv I o w d s'
  step : Step I s s'
  qgood : QGood I o.maxError w d s'
  keys : Keys I d cns L0 s'
  queue_sub : ∀ kc ∈ s.queue, kc ∈ s'.queue
  cover : ∀ e ∈ es, I.less (d e) s'.limit = true → Covered s' e

theorem enq_out (O : DistOrder I) {s : St D} (hs : Inv I o w d s) (hq : QGood I o.maxError w d s)
    (hk : Keys I d cns L0 s) {c : Cell D} (hc : GoodCell I o.maxError w d c) :
    PoeOut I o w d cns L0 s (enq I o cns s c) (edgesUnder c) := by
  have hlb := hc.1 c (self_mem_cellsOf c) s.limit
  unfold enq
  cases hcd : c.cd s.limit with
  | none =>
    refine ⟨hs, Step.refl O s, hq, hk, fun _ h => h, ?_⟩
    intro e he hlt
    rw [hlb.1 hcd e he] at hlt; cases hlt
  | some x =>
    obtain ⟨hx, hxe⟩ := hlb.2 x hcd
    refine ⟨⟨hs.sound, hs.nil_limit, hs.last, hs.within⟩, ⟨O.irrefl _, fun _ h => h⟩, ?_, ?_,
      fun kc h => List.mem_append_left _ h, ?_⟩
    · intro kc hkc
      rcases List.mem_append.1 hkc with h | h
      · exact hq kc h
      · simp only [List.mem_singleton] at h; subst h; exact hc
    · rcases hk with h | ⟨hcn, h⟩ | ⟨hcn, h, h'⟩
      · exact Or.inl h
      · subst hcn
        refine Or.inr (Or.inl ⟨rfl, ?_⟩)
        intro kc hkc
        rcases List.mem_append.1 hkc with h2 | h2
        · exact h kc h2
        · simp only [List.mem_singleton] at h2; subst h2; exact hxe
      · subst hcn
        refine Or.inr (Or.inr ⟨rfl, h, ?_⟩)
        intro kc hkc
        rcases List.mem_append.1 hkc with h2 | h2
        · exact h' kc h2
        · simp only [List.mem_singleton] at h2; subst h2
          show I.less x L0 = true
          rw [← h]; exact hx
    · intro e he _
      exact ⟨(if cns then I.sub x o.maxError else x, c), by simp, he⟩

theorem poe_out (O : DistOrder I) (S : SubLaws I o.maxError) (A : WorldApprox I o.maxError w d)
    (h1 : o.maxResults = 1)
    (hNC : cns = false → ∀ x, I.less x L0 = true → I.less I.zero (I.sub x o.maxError) = false)
    {s : St D} (hs : Inv I o w d s) (hq : QGood I o.maxError w d s) (hk : Keys I d cns L0 s)
    {c : Cell D} (hc : GoodCell I o.maxError w d c) :
    PoeOut I o w d cns L0 s (processOrEnqueue I o w false cns s c) (edgesUnder c) := by
  rw [poe_eq]
  cases c with
  | node cd kids => exact enq_out O hs hq hk hc
  | index cd edges =>
    simp only
    split
    · rename_i h0
      have : edges = [] := by simpa using h0
      subst this
      exact ⟨hs, Step.refl O s, hq, hk, fun _ h => h, by simp [edgesUnder]⟩
    · split
      · have hes : ∀ e ∈ edges, e ∈ w.allEdges := fun e he => hc.2 e (by simpa [edgesUnder] using he)
        obtain ⟨a1, a2, a3, a4, a5⟩ := edges_step O S A h1 hNC edges hs hk hes
        refine ⟨a1, a2, ?_, a5, ?_, ?_⟩
        · intro kc hkc; rw [a4] at hkc; exact hq kc hkc
        · intro kc hkc; rw [a4]; exact hkc
        · intro e he hlt
          rw [a3 e (by simpa [edgesUnder] using he)] at hlt; cases hlt
      · exact enq_out O hs hq hk hc

theorem poe_fold (O : DistOrder I) (S : SubLaws I o.maxError) (A : WorldApprox I o.maxError w d)
    (h1 : o.maxResults = 1)
    (hNC : cns = false → ∀ x, I.less x L0 = true → I.less I.zero (I.sub x o.maxError) = false)
    (cs : List (Cell D)) : ∀ {s : St D}, Inv I o w d s → QGood I o.maxError w d s →
    Keys I d cns L0 s → GoodCells I o.maxError w d cs →
    PoeOut I o w d cns L0 s (cs.foldl (processOrEnqueue I o w false cns) s) (edgesUnderList cs) := by
  induction cs with
  | nil =>
    intro s hs hq hk _
    exact ⟨hs, Step.refl O s, hq, hk, fun _ h => h, by simp [edgesUnderList]⟩
  | cons c cs ih =>
    intro s hs hq hk hg
    have a := poe_out O S A h1 hNC hs hq hk hg.head
    have b := ih a.inv a.qgood a.keys hg.tail
    simp only [List.foldl_cons]
    refine ⟨b.inv, a.step.trans O b.step, b.qgood, b.keys,
      fun kc h => b.queue_sub kc (a.queue_sub kc h), ?_⟩
    intro e he hlt
    simp only [edgesUnderList, List.mem_append] at he
    rcases he with he | he
    · obtain ⟨kc, hkc, hek⟩ := a.cover e he (ord_lt_of_lt_of_le O hlt b.step.limit_le)
      exact ⟨kc, b.queue_sub kc hkc, hek⟩
    · exact b.cover e he hlt

theorem Keys.of_sub_queue {s : St D} (hk : Keys I d cns L0 s) {rest : List (D × Cell D)}
    (hsub : ∀ x ∈ rest, x ∈ s.queue) : Keys I d cns L0 { s with queue := rest } := by
  rcases hk with h | ⟨hc, h⟩ | ⟨hc, h, h'⟩
  · exact Or.inl h
  · exact Or.inr (Or.inl ⟨hc, fun kc hkc => h kc (hsub kc hkc)⟩)
  · exact Or.inr (Or.inr ⟨hc, h, fun kc hkc => h' kc (hsub kc hkc)⟩)

theorem searchLoop_out (O : DistOrder I) (S : SubLaws I o.maxError)
    (A : WorldApprox I o.maxError w d) (h1 : o.maxResults = 1)
    (hNC : cns = false → ∀ x, I.less x L0 = true → I.less I.zero (I.sub x o.maxError) = false) :
    ∀ (fuel : Nat) (s s' : St D), Inv I o w d s → QGood I o.maxError w d s → Keys I d cns L0 s →
    Cover I w d s → searchLoop I o w false cns fuel s = some s' →
    Inv I o w d s' ∧ Step I s s' ∧ Exit I w d s' := by
  intro fuel
  induction fuel with
  | zero => intro s s' _ _ _ _ h; simp [searchLoop] at h
  | succ fuel ih =>
    intro s s' hs hq hk hc h
    unfold searchLoop at h
    split at h
    · rename_i hn
      have hq0 := popMin_none _ hn
      simp only [Option.some.injEq] at h
      subst h
      refine ⟨hs, Step.refl O s, ?_⟩
      intro e he
      cases hlt : I.less (d e) s.limit with
      | false => rfl
      | true =>
        obtain ⟨kc, hkc, _⟩ := hc e he hlt
        rw [hq0] at hkc; cases hkc
    · rename_i k c rest hp
      obtain ⟨p1, p2, p3, p4⟩ := popMin_spec O _ _ _ hp
      simp only at h
      have hq' : QGood I o.maxError w d { s with queue := rest } := fun kc hkc => hq kc (p2 kc hkc)
      have hk' : Keys I d cns L0 { s with queue := rest } := hk.of_sub_queue p2
      have hs' : Inv I o w d { s with queue := rest } := ⟨hs.sound, hs.nil_limit, hs.last, hs.within⟩
      split at h
      · rename_i hnl
        have hnl' : I.less k s.limit = false := by simpa using hnl
        simp only [Option.some.injEq] at h
        subst h
        refine ⟨⟨hs.sound, hs.nil_limit, hs.last, hs.within⟩, ⟨O.irrefl _, fun _ h => h⟩, ?_⟩
        rcases hk with hd | ⟨_, hlb⟩ | ⟨_, hl, hkeys⟩
        · exact exit_of_dead (o := o) O A (s := { s with queue := [] }) hd
        · intro e he
          cases hlt : I.less (d e) s.limit with
          | false => rfl
          | true =>
            obtain ⟨kc, hkc, hek⟩ := hc e he hlt
            have hk1 : I.less kc.1 k = false := p4 kc hkc
            have hk2 : I.less (d e) kc.1 = false := hlb kc hkc e hek
            have : I.less k s.limit = true := ord_lt_of_le_of_lt O (ord_le_trans O hk1 hk2) hlt
            rw [hnl'] at this; cases this
        · have := hkeys (k, c) p1
          rw [← hl] at this
          simp only at this
          rw [hnl'] at this; cases this
      · have hgc : GoodCell I o.maxError w d c := hq (k, c) p1
        split at h
        · rename_i cd edges
          have hes : ∀ e ∈ edges, e ∈ w.allEdges :=
            fun e he => hgc.2 e (by simpa [edgesUnder] using he)
          obtain ⟨a1, a2, a3, a4, a5⟩ := edges_step O S A h1 hNC edges hs' hk' hes
          have hq2 : QGood I o.maxError w d (processEdges I o w false { s with queue := rest } edges) := by
            intro kc hkc; rw [a4] at hkc; exact hq' kc hkc
          have hc2 : Cover I w d (processEdges I o w false { s with queue := rest } edges) := by
            intro e he hlt
            have hlt0 : I.less (d e) s.limit = true := ord_lt_of_lt_of_le O hlt a2.limit_le
            obtain ⟨kc, hkc, hek⟩ := hc e he hlt0
            rcases p3 kc hkc with rfl | hr
            · rw [a3 e (by simpa [edgesUnder] using hek)] at hlt; cases hlt
            · exact ⟨kc, by rw [a4]; exact hr, hek⟩
          obtain ⟨r1, r2, r3⟩ := ih _ s' a1 hq2 a5 hc2 h
          exact ⟨r1, (Step.trans O (s1 := s) ⟨a2.limit_le, a2.results_sub⟩ r2), r3⟩
        · rename_i cd kids
          have a := poe_fold O S A h1 hNC kids hs' hq' hk' hgc.kids
          have hc2 : Cover I w d
              (kids.foldl (processOrEnqueue I o w false cns) { s with queue := rest }) := by
            intro e he hlt
            have hlt0 : I.less (d e) s.limit = true := ord_lt_of_lt_of_le O hlt a.step.limit_le
            obtain ⟨kc, hkc, hek⟩ := hc e he hlt0
            rcases p3 kc hkc with rfl | hr
            · exact a.cover e (by simpa [edgesUnder] using hek) hlt
            · exact ⟨kc, a.queue_sub kc hr, hek⟩
          obtain ⟨r1, r2, r3⟩ := ih _ s' a.inv a.qgood a.keys hc2 h
          exact ⟨r1, (Step.trans O (s1 := s) ⟨a.step.limit_le, a.step.results_sub⟩ r2), r3⟩

end Queue

section Internal
variable {I : DistI D} {o : Opts D} {w : World D} {d : EdgeKey → D} {cns : Bool}

theorem keys_init (cns : Bool) {s : St D} (hq0 : s.queue = []) : Keys I d cns s.limit s := by
  cases cns with
  | true => exact Or.inr (Or.inl ⟨rfl, by rw [hq0]; intro kc hkc; cases hkc⟩)
  | false => exact Or.inr (Or.inr ⟨rfl, rfl, by rw [hq0]; intro kc hkc; cases hkc⟩)

theorem exit_of_limit_zero (O : DistOrder I) (A : WorldApprox I o.maxError w d) {s : St D}
    (h : s.limit = I.zero) : Exit I w d s :=
  exit_of_dead (o := o) O A (by rw [h]; exact O.irrefl _)

theorem initQueue_out (O : DistOrder I) (S : SubLaws I o.maxError)
    (A : WorldApprox I o.maxError w d) (h1 : o.maxResults = 1) {s : St D}
    (hNC : cns = false → ∀ x, I.less x s.limit = true → I.less I.zero (I.sub x o.maxError) = false)
    (hs : Inv I o w d s) (hq0 : s.queue = []) :
    Inv I o w d (initQueue I o w false cns s) ∧ Step I s (initQueue I o w false cns s) ∧
    QGood I o.maxError w d (initQueue I o w false cns s) ∧
    Keys I d cns s.limit (initQueue I o w false cns s) ∧
    Cover I w d (initQueue I o w false cns s) := by
  have hroots : ∀ lim, GoodCells I o.maxError w d (w.roots lim) :=
    fun lim => ⟨A.cellApprox lim, A.rootsSound lim⟩
  have qnil : ∀ s1 : St D, s1.queue = [] → QGood I o.maxError w d s1 := by
    intro s1 hq kc hkc; rw [hq] at hkc; cases hkc
  have second : ∀ s1 : St D, Inv I o w d s1 → s1.queue = [] → Keys I d cns s.limit s1 →
      Inv I o w d ((w.roots s1.limit).foldl (processOrEnqueue I o w false cns) s1) ∧
      Step I s1 ((w.roots s1.limit).foldl (processOrEnqueue I o w false cns) s1) ∧
      QGood I o.maxError w d ((w.roots s1.limit).foldl (processOrEnqueue I o w false cns) s1) ∧
      Keys I d cns s.limit ((w.roots s1.limit).foldl (processOrEnqueue I o w false cns) s1) ∧
      Cover I w d ((w.roots s1.limit).foldl (processOrEnqueue I o w false cns) s1) := by
    intro s1 hs1 hq hk1
    have a := poe_fold O S A h1 hNC (w.roots s1.limit) hs1 (qnil s1 hq) hk1 (hroots _)
    refine ⟨a.inv, a.step, a.qgood, a.keys, ?_⟩
    intro e he hlt
    exact a.cover e (A.rootsComplete _ e he (ord_lt_of_lt_of_le O hlt a.step.limit_le)) hlt
  unfold initQueue
  simp only [A.nonEmptyTarget, h1, Bool.false_eq_true, if_false, beq_self_eq_true, if_true,
    Bool.true_and]
  cases hl : w.located with
  | none =>
    simp only [Option.isSome_none, Bool.false_and, Bool.false_eq_true, if_false]
    exact second s hs hq0 (keys_init cns hq0)
  | some es =>
    simp only [Option.isSome_some, Bool.true_and]
    obtain ⟨a1, a2, _, a4, a5⟩ :=
      edges_step O S A h1 hNC es hs (keys_init cns hq0) (A.locatedSound es hl)
    split
    · rename_i hz
      have hz' : (processEdges I o w false s es).limit = I.zero := by simpa using hz
      exact ⟨a1, a2, qnil _ (a4.trans hq0), a5, (exit_of_limit_zero O A hz').cover⟩
    · obtain ⟨b1, b2, b3, b4, b5⟩ := second _ a1 (a4.trans hq0) a5
      exact ⟨b1, a2.trans O b2, b3, b4, b5⟩

theorem optimized_out (O : DistOrder I) (S : SubLaws I o.maxError)
    (A : WorldApprox I o.maxError w d) (h1 : o.maxResults = 1) {s s' : St D}
    (hNC : cns = false → ∀ x, I.less x s.limit = true → I.less I.zero (I.sub x o.maxError) = false)
    (hs : Inv I o w d s) (hq0 : s.queue = [])
    (h : findEdgesOptimized I o w false cns s = some s') :
    Inv I o w d s' ∧ Step I s s' ∧ Exit I w d s' := by
  obtain ⟨a1, a2, a3, a4, a5⟩ := initQueue_out O S A h1 hNC hs hq0
  obtain ⟨b1, b2, b3⟩ := searchLoop_out O S A h1 hNC _ _ _ a1 a3 a4 a5 h
  exact ⟨b1, a2.trans O b2, b3⟩

theorem brute_step (O : DistOrder I) (S : SubLaws I o.maxError)
    (A : WorldApprox I o.maxError w d) (h1 : o.maxResults = 1) {s : St D} (hs : Inv I o w d s)
    (hq0 : s.queue = []) :
    Inv I o w d (findEdgesBruteForce I o w s) ∧ Step I s (findEdgesBruteForce I o w s) ∧
    Exit I w d (findEdgesBruteForce I o w s) := by
  obtain ⟨a1, a2, a3, _, _⟩ := edges_step (cns := true) (L0 := s.limit) O S A h1
    (fun h => by cases h) w.allEdges hs (keys_init true hq0) (fun _ h => h)
  exact ⟨a1, a2, a3⟩

theorem interiors_fold (O : DistOrder I) (S : SubLaws I o.maxError)
    (h1 : o.maxResults = 1) (hi : o.includeInteriors = true) (l : List Int) :
    ∀ {s : St D}, Inv I o w d s → (∀ r ∈ s.results, r.dist = I.zero) → (∀ sh ∈ l, sh ∈ w.interiors) →
    Inv I o w d (l.foldl (fun s sh => addResult I o s ⟨I.zero, sh, -1⟩) s) ∧
    (l.foldl (fun s sh => addResult I o s ⟨I.zero, sh, -1⟩) s).queue = s.queue := by
  induction l with
  | nil => intro s hs _ _; exact ⟨hs, rfl⟩
  | cons sh l ih =>
    intro s hs hz hl
    simp only [List.foldl_cons]
    have hs1 : Inv I o w d (addResult I o s ⟨I.zero, sh, -1⟩) := by
      refine hs.add h1 (Or.inl ⟨hi, rfl, rfl, hl sh (by simp)⟩) ?_ (O.irrefl _) ?_
      · intro r' hr'; rw [hz r' hr']; exact O.irrefl _
      · intro y hy0 hy
        have := ord_lt_of_lt_of_le O hy (S.sub_le I.zero)
        rw [hy0] at this; cases this
    have hz1 : ∀ r ∈ (addResult I o s ⟨I.zero, sh, -1⟩).results, r.dist = I.zero := by
      rw [addResult_one h1]
      intro r hr
      rcases List.mem_append.1 hr with h | h
      · exact hz r h
      · simp only [List.mem_singleton] at h; subst h; rfl
    obtain ⟨b1, b3⟩ := ih hs1 hz1 (fun x hx => hl x (List.mem_cons_of_mem _ hx))
    exact ⟨b1, by rw [b3, addResult_one h1]⟩

theorem internal_final (O : DistOrder I) (S : SubLaws I o.maxError) (M : SubMono I o.maxError)
    (A : WorldApprox I o.maxError w d) (h1 : o.maxResults = 1)
    (hU : o.targetUsesMaxError = true) (hne : o.maxError ≠ I.zero) {s : St D}
    (hT : findEdgesInternal I o w = some s) : Inv I o w d s ∧ Exit I w d s := by
  have hs0 : Inv I o w d { limit := o.distanceLimit, results := [], tested := [], queue := [] } :=
    ⟨by simp, fun _ => rfl, fun h => absurd rfl h, fun _ _ h => h⟩
  have htu : (o.maxError != I.zero && o.targetUsesMaxError) = true := by simp [hU, hne]
  have hav : decide (o.maxResults > 1) = false := by simp [h1]
  unfold findEdgesInternal at hT
  simp only [htu, hav, Bool.true_and] at hT
  split at hT
  · rename_i hz
    have hz' : o.distanceLimit = I.zero := by simpa using hz
    simp only [Option.some.injEq] at hT
    subst hT
    exact ⟨hs0, exit_of_limit_zero O A hz'⟩
  · have hs1 : ∃ s1 : St D, s1 = (if o.includeInteriors then
          w.interiors.foldl (fun s sh => addResult I o s ⟨I.zero, sh, -1⟩)
            { limit := o.distanceLimit, results := [], tested := [], queue := [] }
        else { limit := o.distanceLimit, results := [], tested := [], queue := [] }) ∧
        Inv I o w d s1 ∧ s1.queue = [] := by
      refine ⟨_, rfl, ?_⟩
      cases hi : o.includeInteriors with
      | false => exact ⟨hs0, rfl⟩
      | true =>
        simp only [if_true]
        exact interiors_fold O S h1 hi w.interiors hs0 (by simp) (fun _ h => h)
    obtain ⟨s1, hs1eq, i1, i2⟩ := hs1
    rw [← hs1eq] at hT
    split at hT
    · rename_i hz2
      simp only [Option.some.injEq] at hT
      subst hT
      have : s1.limit = I.zero := by
        simp only [Bool.and_eq_true, beq_iff_eq] at hz2; exact hz2.2
      exact ⟨i1, exit_of_limit_zero O A this⟩
    · split at hT
      · simp only [Option.some.injEq] at hT
        subst hT
        obtain ⟨a, _, c⟩ := brute_step O S A h1 i1 i2
        exact ⟨a, c⟩
      · have hNC : (s1.limit == I.infinity || I.less I.zero (I.sub s1.limit o.maxError)) = false →
            ∀ x, I.less x s1.limit = true → I.less I.zero (I.sub x o.maxError) = false := by
          intro hc x hx
          have h2 : I.less I.zero (I.sub s1.limit o.maxError) = false := by
            simp only [Bool.or_eq_false_iff] at hc; exact hc.2
          exact ord_le_trans O (M.mono x s1.limit hx) h2
        obtain ⟨a, _, c⟩ := optimized_out O S A h1 hNC i1 i2 hT
        exact ⟨a, c⟩

end Internal

theorem single_char {I : DistI D} {o : Opts D} {w : World D} {d : EdgeKey → D}
    (O : DistOrder I) (S : SubLaws I o.maxError) (M : SubMono I o.maxError)
    (A : WorldApprox I o.maxError w d) (h1 : o.maxResults = 1)
    (hU : o.targetUsesMaxError = true) (hne : o.maxError ≠ I.zero) {rs : List (Result D)}
    (h : findEdges I o w = some rs) :
    ∃ s, Inv I o w d s ∧ Exit I w d s ∧ ((s.results = [] ∧ rs = []) ∨
      ∃ m, rs = [m] ∧ m ∈ s.results ∧ ∀ r ∈ s.results, I.less r.dist m.dist = false) := by
  obtain ⟨s, hs, hrs⟩ := findEdges_some h
  obtain ⟨a, b⟩ := internal_final O S M A h1 hU hne hs
  refine ⟨s, a, b, ?_⟩
  rw [h1] at hrs
  rcases postProcess_one O s.results with ⟨a, b⟩ | ⟨m, a, b, c⟩
  · left; exact ⟨a, hrs.trans b⟩
  · right; exact ⟨m, hrs.trans a, b, c⟩

end Approx

section K7
variable {I : DistI D} {o : Opts D} {w : World D} {d : EdgeKey → D}

/-- (K7, K2') a result of a search with a target that uses `maxError`: an interior result, or an
    edge of the index with a reported distance within the limit, not below the true distance and
    above it by at most `maxError` -/
theorem single_sound_approx (O : DistOrder I) (S : SubLaws I o.maxError) (M : SubMono I o.maxError)
    (A : WorldApprox I o.maxError w d) (h1 : o.maxResults = 1)
    (hU : o.targetUsesMaxError = true) (hne : o.maxError ≠ I.zero) {rs : List (Result D)}
    (h : findEdges I o w = some rs) : ∀ r ∈ rs,
    (o.includeInteriors = true ∧ r.dist = I.zero ∧ r.edge = -1 ∧ r.shape ∈ w.interiors) ∨
    (∃ e ∈ w.allEdges, r.shape = e.shape ∧ r.edge = e.edge ∧
      I.less r.dist o.distanceLimit = true ∧ I.less r.dist (d e) = false ∧
      I.less (d e) (I.sub r.dist o.maxError) = false) := by
  obtain ⟨s, F, _, hc⟩ := Approx.single_char O S M A h1 hU hne h
  intro r hr
  rcases hc with ⟨_, rfl⟩ | ⟨m, rfl, hm, _⟩
  · cases hr
  · simp only [List.mem_singleton] at hr; subst hr
    exact F.sound r hm

/-- (K7, K3) the guarantee of `MaxError`, unchanged -/
theorem single_optimal_approx (O : DistOrder I) (S : SubLaws I o.maxError)
    (M : SubMono I o.maxError) (A : WorldApprox I o.maxError w d) (h1 : o.maxResults = 1)
    (hU : o.targetUsesMaxError = true) (hne : o.maxError ≠ I.zero) {rs : List (Result D)}
    (h : findEdges I o w = some rs) :
    ∀ r ∈ rs, ∀ e ∈ w.allEdges, I.less (d e) (I.sub r.dist o.maxError) = false := by
  obtain ⟨s, F, X, hc⟩ := Approx.single_char O S M A h1 hU hne h
  intro r hr e he
  rcases hc with ⟨_, rfl⟩ | ⟨m, rfl, hm, hmin⟩
  · cases hr
  · simp only [List.mem_singleton] at hr; subst hr
    obtain ⟨l, hl, hlim, hlmin⟩ := F.last (List.ne_nil_of_mem hm)
    have : r.dist = l.dist := ord_eq_of_le_le O (hlmin r hm) (hmin l hl)
    rw [this, ← hlim]
    exact X e he

/-- (K7, K4) nothing returned: nothing is within the limit -/
theorem single_complete_approx (O : DistOrder I) (S : SubLaws I o.maxError)
    (M : SubMono I o.maxError) (A : WorldApprox I o.maxError w d) (h1 : o.maxResults = 1)
    (hU : o.targetUsesMaxError = true) (hne : o.maxError ≠ I.zero) {rs : List (Result D)}
    (h : findEdges I o w = some rs) (hnil : rs = []) :
    ∀ e ∈ w.allEdges, I.less (d e) o.distanceLimit = false := by
  obtain ⟨s, F, X, hc⟩ := Approx.single_char O S M A h1 hU hne h
  intro e he
  rcases hc with ⟨hr, _⟩ | ⟨m, hm, _, _⟩
  · rw [← F.nil_limit hr]; exact X e he
  · rw [hnil] at hm; cases hm

end K7

/-! ### Non-vacuity of K7: a target that overestimates by 3 whenever the limit allows it -/

namespace SingleEx1
open SingleEx0

def d1 (e : EdgeKey) : Int := (min (tab e.edge.toNat) 100 : Nat)

/-- reports `m + 3` if that is within the limit, else `m` if that is, else "not ok" -/
def approx (m : Int) : Int → Option Int :=
  fun lim => if m + 3 < lim then some (m + 3) else if m < lim then some m else none

def cA1 : Cell Int := .index (approx 35) eA
def cB1 : Cell Int := .index (approx 18) eB
def root1 : Cell Int := .node (approx 15) [cA1, cB1]

def w1 : World Int where
  updEdge e lim := approx (d1 e) lim
  allEdges := eA ++ eB
  interiors := [0]
  small := false
  emptyTarget := false
  located := some eA
  roots _ := [root1]

def o1 (lim : Int) (brute : Bool) : Opts Int where
  maxResults := 1
  distanceLimit := lim
  maxError := 7
  includeInteriors := false
  useBruteForce := brute
  targetUsesMaxError := true

theorem approx_some {m lim x : Int} (h : approx m lim = some x) : x < lim ∧ m ≤ x ∧ x ≤ m + 3 := by
  unfold approx at h
  split at h
  · simp only [Option.some.injEq] at h; omega
  · split at h
    · simp only [Option.some.injEq] at h; omega
    · cases h

theorem approx_none {m lim : Int} (h : approx m lim = none) : ¬ m < lim := by
  unfold approx at h
  split at h
  · cases h
  · split at h
    · cases h
    · assumption

theorem sub7 {x y : Int} (hx : 0 ≤ x) (hx' : x ≤ 1000) (h : x ≤ y + 3) (hy : 0 ≤ y) :
    (minDist 1000).less y ((minDist 1000).sub x 7) = false := by
  simp only [minDist, decide_eq_false_iff_not]
  repeat' split
  all_goals simp_all
  all_goals omega

theorem cellApprox_approx (c : Cell Int) (m : Int) (h0 : 0 ≤ m) (h9 : m ≤ 900)
    (hcd : c.cd = approx m) (h : ∀ e ∈ edgesUnder c, m ≤ d1 e) : CellApprox (minDist 1000) 7 d1 c := by
  intro lim
  rw [hcd]
  constructor
  · intro hn e he
    have := h e he
    have := approx_none hn
    simp only [minDist, decide_eq_false_iff_not]; omega
  · intro x hx
    obtain ⟨a, b, c'⟩ := approx_some hx
    refine ⟨by simpa [minDist] using a, ?_⟩
    intro e he
    have := h e he
    exact sub7 (by omega) (by omega) (by omega) (by omega)

theorem w1_ok : WorldApprox (minDist 1000) 7 w1 d1 where
  approxEdge e lim x hx := by
    obtain ⟨a, b, c⟩ := approx_some hx
    have h0 : 0 ≤ d1 e := by simp only [d1]; omega
    have h1 : d1 e ≤ 100 := by simp only [d1]; omega
    refine ⟨by simpa [minDist] using a, by simp only [minDist, decide_eq_false_iff_not]; omega,
      sub7 (by omega) (by omega) (by omega) h0⟩
  approxEdgeNone e lim hx := by
    have := approx_none hx
    simp only [minDist, decide_eq_false_iff_not]; exact this
  cellApprox lim c hc := by
    have hc' : c = root1 ∨ c = cA1 ∨ c = cB1 := by
      simpa [w1, cellsOfList, cellsOf, root1, cA1, cB1] using hc
    rcases hc' with rfl | rfl | rfl
    · exact cellApprox_approx _ 15 (by omega) (by omega) rfl
        (by simp only [root1, cA1, cB1, edgesUnder, edgesUnderList]; decide)
    · exact cellApprox_approx _ 35 (by omega) (by omega) rfl (by simp only [cA1, edgesUnder]; decide)
    · exact cellApprox_approx _ 18 (by omega) (by omega) rfl (by simp only [cB1, edgesUnder]; decide)
  rootsComplete lim e he _ := by
    simpa [w1, edgesUnderList, edgesUnder, root1, cA1, cB1] using he
  rootsSound lim e he := by
    simpa [w1, edgesUnderList, edgesUnder, root1, cA1, cB1] using he
  locatedSound es hes e he := by
    simp only [w1, Option.some.injEq] at hes
    subst hes
    exact List.mem_append_left _ he
  nonEmptyTarget := rfl
  zeroMin e := by simp only [minDist, d1, decide_eq_false_iff_not]; omega

-- the limit 1001 is conservative (keys `x - 7`); the overestimates 43, 29 are found first, then the
-- true minimum 20 (the only value below the limit 22 then in force)
example : findEdges (minDist 1000) (o1 1001 false) w1 = some [⟨20, 0, 5⟩] := by decide
example : findEdges (minDist 1000) (o1 1001 true) w1 = some [⟨20, 0, 5⟩] := by decide
-- limit 25: edge (0, 4) at true distance 23 is reported although (0, 5) is at 20 (23 - 7 ≤ 20)
example : findEdges (minDist 1000) (o1 25 false) w1 = some [⟨23, 0, 4⟩] := by decide
-- limit 5 ≤ maxError: non-conservative keys; nothing is within the limit
example : findEdges (minDist 1000) (o1 5 false) w1 = some [] := by decide
example : ∀ r ∈ [(⟨23, 0, 4⟩ : Result Int)], ∀ e ∈ w1.allEdges,
    (minDist 1000).less (d1 e) ((minDist 1000).sub r.dist 7) = false :=
  single_optimal_approx (o := o1 25 false) (minDist_order 1000) (minDist_sub 1000 7 (by omega))
    (minDist_subMono 1000 7 (by omega)) w1_ok rfl rfl (by decide) (by decide)

end SingleEx1

end S2Proofs.EdgeQuery
