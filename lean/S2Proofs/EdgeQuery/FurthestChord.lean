/-
  S2Proofs.EdgeQuery.FurthestChord — the distance type of a FURTHEST-edge query (`maxDistance`,
  s2/max_distance_targets.go) as the search model sees it, over the bit-exact soft-float (package c08more-subF).

  `C08World.Chord` (finite with sign bit clear, or +Inf) has NO element for `maxDistance.infinity() = NegativeChordAngle = −1`,
  so a new carrier is used:

      `MChord` = the floats a `maxDistance` holds in such a query: finite with the sign bit clear (so not −0), or exactly −1;
      `mchordI : DistI MChord`:  `less a b := F64.lt b a`   (Go: `m.chordAngle() > other.chordAngle()`),
                                 `zero = 4` (`StraightChordAngle`),  `infinity = −1` (`NegativeChordAngle`),
                                 `sub` = `maxDistance.sub`: `if m.IsInfinity() || m < 0 { return m }; return m.Add(other)`
                                         with the GENERATED bit-exact `ChordAngle.Add` (`S2.Generated.DistTargetFns.ChordAngle_Add`).

  Every member is a FINITE float and none is −0, so Go's `>` is a strict total order on the carrier (`mchord_order`:
  `DistOrder mchordI`), which is all the abstract search theorems (`Slack.slack_single_on`, `Slack.slack_multi`) ask of the
  order.  For `MaxError = 0` `sub` is the identity (`msub_zero`, `mchord_subLaws_zero`).
-/
import S2.EdgeQueryM
import S2.Generated.DistTargetFns
import S2Proofs.EdgeQuery.Laws
import S2Proofs.F64Order
import S2Proofs.F64Inj

namespace S2Proofs.C08Far
open S2 S2.Exact S2.EdgeQueryM S2Proofs.F64Order S2Proofs.EdgeQuery

/-- `NegativeChordAngle` = −1 -/
def mNegOne : F64 := ⟨S2.Generated.DistTargetFns.ChordAngle_NegativeChordAngle_bits⟩
/-- `StraightChordAngle` = 4 -/
def mFour : F64 := ⟨S2.Generated.DistTargetFns.ChordAngle_StraightChordAngle_bits⟩
/-- +0 -/
def mPosZero : F64 := ⟨0⟩

/-- the floats a `maxDistance` holds in a furthest-edge query -/
def IsMChord (x : F64) : Prop := (Fin x ∧ x.signBit = false) ∨ x = mNegOne

instance (x : F64) : Decidable (IsMChord x) := by unfold IsMChord F64Order.Fin; exact inferInstance

abbrev MChord := {x : F64 // IsMChord x}

theorem negOne_facts : Fin mNegOne ∧ mNegOne.signBit = true ∧ mNegOne ≠ F64.zero true ∧
    toInt mNegOne = -(2 ^ 1074) := by decide +kernel

theorem mfin (a : MChord) : Fin a.1 := by
  rcases a.2 with ⟨h, _⟩ | h
  · exact h
  · rw [h]; exact negOne_facts.1

theorem mnz (a : MChord) : a.1 ≠ F64.zero true := by
  rcases a.2 with ⟨_, h⟩ | h
  · intro e; rw [e] at h; revert h; decide
  · rw [h]; exact negOne_facts.2.2.1

/-- Go's `maxDistance.less`: `m > other` -/
def mless (a b : MChord) : Bool := F64.lt b.1 a.1

/-- `mless` is the generated `maxDistance.less` (`m.chordAngle() > other.chordAngle()`) -/
theorem mless_generated (a b : MChord) : mless a b = S2.Generated.DistTargetFns.maxDistance_less_val0 a.1 b.1 := rfl

theorem mless_iff (a b : MChord) : mless a b = true ↔ toInt b.1 < toInt a.1 := lt_iff (mfin b) (mfin a)

theorem mless_irrefl (a : MChord) : mless a a = false := by
  cases h : mless a a with
  | false => rfl
  | true => have := (mless_iff a a).mp h; omega

theorem mless_trans (a b c : MChord) (h1 : mless a b = true) (h2 : mless b c = true) : mless a c = true := by
  rw [mless_iff] at *; omega

theorem mless_tri (a b : MChord) (hne : a ≠ b) : mless a b = true ∨ mless b a = true := by
  have hv : toInt a.1 ≠ toInt b.1 := fun e => hne (Subtype.ext (S2Proofs.F64Inj.toInt_inj e (mnz a) (mnz b)))
  rw [mless_iff, mless_iff]; omega

/-- `maxDistance.zero()` = `StraightChordAngle` -/
def mzero : MChord := ⟨mFour, by decide⟩
/-- `maxDistance.infinity()` = `NegativeChordAngle` -/
def minf : MChord := ⟨mNegOne, Or.inr rfl⟩
/-- the chord angle 0 (`MaxError = 0` travels as `maxDistance(0)`) -/
def mnull : MChord := ⟨mPosZero, by decide⟩

/-- canonical injection of a computed float: a member is itself; any other finite value with the sign bit set becomes +0
    (−0: Go's `>` and `==` do not distinguish it from +0; negative values other than −1 are never produced on the domain
    of the theorems); anything else (NaN, ±Inf — never produced on the domain) becomes −1 -/
def mcanon (x : F64) : MChord :=
  if h : IsMChord x then ⟨x, h⟩ else if F64Order.Fin x ∧ x.signBit = true then mnull else minf

theorem mcanon_of_mchord {x : F64} (h : IsMChord x) : mcanon x = ⟨x, h⟩ := by unfold mcanon; rw [dif_pos h]

/-- `maxDistance.sub`: `if m.chordAngle().IsInfinity() || m.chordAngle() < 0 { return m }; return m.chordAngle().Add(other)`
    (the generated `maxDistance_sub_cond0` / `maxDistance_sub_val0`), re-injected -/
def msub (a e : MChord) : MChord :=
  if S2.Generated.DistTargetFns.maxDistance_sub_cond0 (a.1.isInf && !a.1.signBit) a.1 = true then a
  else mcanon (S2.Generated.DistTargetFns.maxDistance_sub_val0 a.1 e.1)

/-- the `distance` interface of a furthest-edge query over the bit-exact floats -/
def mchordI : DistI MChord where
  less := mless
  zero := mzero
  infinity := minf
  sub := msub

theorem mchord_order : DistOrder mchordI where
  irrefl := mless_irrefl
  trans := mless_trans
  tri := mless_tri

/-- `MaxError = 0` (the default): `sub` is the identity (`ChordAngle.Add` returns its receiver for `other == 0`) -/
theorem msub_zero (a : MChord) : msub a mnull = a := by
  unfold msub
  split
  · rfl
  · have : S2.Generated.DistTargetFns.maxDistance_sub_val0 a.1 mnull.1 = a.1 := by
      unfold S2.Generated.DistTargetFns.maxDistance_sub_val0 S2.Generated.DistTargetFns.ChordAngle_Add
      have : F64.feq mnull.1 (⟨0x0000000000000000⟩ : F64) = true := by decide
      rw [if_pos this]
    rw [this, mcanon_of_mchord a.2]

theorem mchord_subLaws_zero : SubLaws mchordI mnull where
  sub_le a := by
    show mless a (msub a mnull) = false
    rw [msub_zero]; exact mless_irrefl a

/-- `infinity` is the LARGEST element of the search order (every member is `≥ −1` as a float) and `zero` … is not the least
    in general (values above 4 are members), but no value the code produces on the domain exceeds 4. -/
theorem mless_inf_false (a : MChord) : mless minf a = false := by
  cases h : mless minf a with
  | false => rfl
  | true =>
    have h1 := (mless_iff minf a).mp h
    exfalso
    rcases a.2 with ⟨_, hs⟩ | he
    · have : toInt a.1 = (S2Proofs.F64Inj.mag a.1 : Int) := by
        rw [S2Proofs.F64Inj.toInt_eq_mag, hs]; simp
      have h2 : toInt minf.1 = -(2 ^ 1074) := negOne_facts.2.2.2
      omega
    · have : a.1 = minf.1 := he
      rw [this] at h1; omega

end S2Proofs.C08Far
