/-
  S2Proofs.EdgeQuery.FurthestSub — `maxDistance.sub` with `MaxError = StraightChordAngle` (the error `IsDistanceLess` /
  `IsDistanceGreater` install) on the values of the furthest-edge point-target world (package c08more-subF).

  * the float GRID around 4: no float lies strictly between `4` and `4 + 2^-50`, nor strictly between `4 − 2^-51` and `4`
    (`le_four_of_lt`, `four_le_of_gt`), from `toInt x = ± mant·2^(expField−1)`;
  * the candidate of `UpdateMaxDistance` is `≤ 4` EXACTLY (`cand_le_four`): near branch = a clamped endpoint chord; far branch
    `4 − d` with `d ≥ 0` a float: the correctly rounded difference of 4 and a non-negative number cannot exceed 4;
  * `x.Add(4) = 4` for every finite `x ∈ [0, 4]` (`add_straight`): `x + 4 ≥ 4` as floats, so `ChordAngle.Add` takes its clamp exit;
  * hence `Slack.SubLawsOn mchordI world mzero` (`far_subLawsOn_straight`) on the domain `FarEdgesOK`.
-/
import S2Proofs.EdgeQuery.FurthestWorld
import S2Proofs.EdgeQuery.FurthestCover
import S2Proofs.FloatErr.Sqrt

set_option linter.unusedSimpArgs false
set_option linter.unusedVariables false

namespace S2Proofs.C08Far
open S2 S2.Exact S2.CellID S2.EdgeNum S2.EdgeQueryM S2Proofs.F64Order S2Proofs.FloatErr S2Proofs.EdgeQuery
open S2Proofs.C17Err S2Proofs.C17 S2Proofs.C17Pairs S2Proofs.C12Dist2

/-! ## the float grid around 4 -/

theorem mant_ge_of_exp {x : F64} (h : x.expField ≠ 0) : 2 ^ 52 ≤ x.mant := by
  unfold F64.mant
  have : (x.expField == 0) = false := by simpa using h
  rw [this]; simp

/-- integer form: a finite float whose scaled value is below `2^1076 + 2^1024` is at most `2^1076` -/
theorem toInt_le_four {x : F64} (h : toInt x < 2 ^ 1076 + 2 ^ 1024) : toInt x ≤ 2 ^ 1076 := by
  rw [S2Proofs.F64Inj.toInt_eq_mag] at h ⊢
  cases hs : x.signBit
  · simp only [hs, Bool.false_eq_true, if_false] at h ⊢
    have hm := S2Proofs.FloatErr.mant_lt x
    unfold S2Proofs.F64Inj.mag at h ⊢
    have hcases : x.expField - 1 ≤ 1023 ∨ x.expField - 1 = 1024 ∨ 1025 ≤ x.expField - 1 := by omega
    rcases hcases with hk | hk | hk
    · have hp : 2 ^ (x.expField - 1) ≤ 2 ^ 1023 := Nat.pow_le_pow_right (by norm_num) hk
      have : x.mant * 2 ^ (x.expField - 1) ≤ 2 ^ 53 * 2 ^ 1023 := Nat.mul_le_mul (by omega) hp
      have e : (2 : Nat) ^ 53 * 2 ^ 1023 = 2 ^ 1076 := by rw [← Nat.pow_add]
      rw [e] at this
      exact_mod_cast this
    · rw [hk] at h ⊢
      have h' : x.mant * 2 ^ 1024 < 2 ^ 1076 + 2 ^ 1024 := by exact_mod_cast h
      have e : (2 : Nat) ^ 1076 = 2 ^ 52 * 2 ^ 1024 := by rw [← Nat.pow_add]
      have goal : x.mant * 2 ^ 1024 ≤ 2 ^ 1076 := by
        rw [e] at h' ⊢
        have h2 : x.mant * 2 ^ 1024 < (2 ^ 52 + 1) * 2 ^ 1024 := by rw [Nat.add_mul, Nat.one_mul]; exact h'
        have h3 : x.mant < 2 ^ 52 + 1 := Nat.lt_of_mul_lt_mul_right h2
        exact Nat.mul_le_mul_right _ (by omega)
      exact_mod_cast goal
    · exfalso
      have hne : x.expField ≠ 0 := by omega
      have hm2 := mant_ge_of_exp hne
      have hp : 2 ^ 1025 ≤ 2 ^ (x.expField - 1) := Nat.pow_le_pow_right (by norm_num) hk
      have : 2 ^ 52 * 2 ^ 1025 ≤ x.mant * 2 ^ (x.expField - 1) := Nat.mul_le_mul hm2 hp
      have e : (2 : Nat) ^ 52 * 2 ^ 1025 = 2 ^ 1077 := by rw [← Nat.pow_add]
      rw [e] at this
      have h' : x.mant * 2 ^ (x.expField - 1) < 2 ^ 1076 + 2 ^ 1024 := by exact_mod_cast h
      have e2 : (2 : Nat) ^ 1076 + 2 ^ 1024 < 2 ^ 1077 := by
        have : (2 : Nat) ^ 1024 < 2 ^ 1076 := Nat.pow_lt_pow_right (by norm_num) (by norm_num)
        have : (2 : Nat) ^ 1077 = 2 ^ 1076 + 2 ^ 1076 := by rw [Nat.pow_succ]; omega
        omega
      omega
  · simp only [hs, if_true]
    have : (0 : Int) ≤ (S2Proofs.F64Inj.mag x : Int) := Int.natCast_nonneg _
    have : (0 : Int) ≤ 2 ^ 1076 := by positivity
    omega

/-- integer form: a float whose scaled value is above `2^1076 − 2^1023` is at least `2^1076` -/
theorem four_le_toInt {x : F64} (h : (2 : Int) ^ 1076 - 2 ^ 1023 < toInt x) : 2 ^ 1076 ≤ toInt x := by
  rw [S2Proofs.F64Inj.toInt_eq_mag] at h ⊢
  have hpos : (0 : Int) < 2 ^ 1076 - 2 ^ 1023 := by
    have : (2 : Int) ^ 1023 < 2 ^ 1076 := by
      exact_mod_cast (Nat.pow_lt_pow_right (by norm_num) (by norm_num) : (2 : Nat) ^ 1023 < 2 ^ 1076)
    omega
  cases hs : x.signBit
  · simp only [hs, Bool.false_eq_true, if_false] at h ⊢
    have hm := S2Proofs.FloatErr.mant_lt x
    unfold S2Proofs.F64Inj.mag at h ⊢
    have e76 : (2 : Nat) ^ 1076 = 2 ^ 53 * 2 ^ 1023 := by rw [← Nat.pow_add]
    have h' : 2 ^ 1076 - 2 ^ 1023 < x.mant * 2 ^ (x.expField - 1) := by
      have : ((2 ^ 1076 - 2 ^ 1023 : Nat) : Int) = (2 : Int) ^ 1076 - 2 ^ 1023 := by
        rw [Nat.cast_sub (Nat.pow_le_pow_right (by norm_num) (by norm_num))]; push_cast; rfl
      rw [← this] at h
      exact_mod_cast h
    have hcases : x.expField - 1 ≤ 1022 ∨ x.expField - 1 = 1023 ∨ 1024 ≤ x.expField - 1 := by omega
    rcases hcases with hk | hk | hk
    · exfalso
      have hp : 2 ^ (x.expField - 1) ≤ 2 ^ 1022 := Nat.pow_le_pow_right (by norm_num) hk
      have h1 : x.mant * 2 ^ (x.expField - 1) ≤ 2 ^ 53 * 2 ^ 1022 := Nat.mul_le_mul (by omega) hp
      have e : (2 : Nat) ^ 53 * 2 ^ 1022 = 2 ^ 1075 := by rw [← Nat.pow_add]
      rw [e] at h1
      have e2 : (2 : Nat) ^ 1076 = 2 ^ 1075 + 2 ^ 1075 := by rw [Nat.pow_succ]; omega
      have e3 : (2 : Nat) ^ 1023 < 2 ^ 1075 := Nat.pow_lt_pow_right (by norm_num) (by norm_num)
      omega
    · exfalso
      rw [hk] at h'
      have e4 : (2 : Nat) ^ 1076 - 2 ^ 1023 = (2 ^ 53 - 1) * 2 ^ 1023 := by
        rw [Nat.sub_mul, Nat.one_mul, ← e76]
      rw [e4] at h'
      have := Nat.lt_of_mul_lt_mul_right h'
      omega
    · have hne : x.expField ≠ 0 := by omega
      have hm2 := mant_ge_of_exp hne
      have hp : 2 ^ 1024 ≤ 2 ^ (x.expField - 1) := Nat.pow_le_pow_right (by norm_num) hk
      have : 2 ^ 52 * 2 ^ 1024 ≤ x.mant * 2 ^ (x.expField - 1) := Nat.mul_le_mul hm2 hp
      have e : (2 : Nat) ^ 52 * 2 ^ 1024 = 2 ^ 1076 := by rw [← Nat.pow_add]
      rw [e] at this
      exact_mod_cast this
  · exfalso
    simp only [hs, if_true] at h
    have : (0 : Int) ≤ (S2Proofs.F64Inj.mag x : Int) := Int.natCast_nonneg _
    omega

/-- no float lies strictly between 4 and `4 + 2^-50` -/
theorem le_four_of_lt {x : F64} (h : val x < 4 + 1 / 2 ^ 50) : val x ≤ 4 := by
  unfold val at h ⊢
  have hpos : (0 : ℝ) < 2 ^ 1074 := by positivity
  rw [div_lt_iff₀ hpos] at h
  rw [div_le_iff₀ hpos]
  have e1 : ((4 : ℝ) + 1 / 2 ^ 50) * 2 ^ 1074 = ((2 ^ 1076 + 2 ^ 1024 : Int) : ℝ) := by
    push_cast
    have a : (2 : ℝ) ^ 1076 = 4 * 2 ^ 50 * 2 ^ 1024 := by
      rw [show (4 : ℝ) = 2 ^ 2 by norm_num, ← pow_add, ← pow_add]
    have b : (2 : ℝ) ^ 1074 = 2 ^ 50 * 2 ^ 1024 := by rw [← pow_add]
    rw [a, b]
    generalize (2 : ℝ) ^ 1024 = T
    ring
  rw [e1] at h
  have h' : toInt x < 2 ^ 1076 + 2 ^ 1024 := by exact_mod_cast h
  have := toInt_le_four h'
  have e2 : (4 : ℝ) * 2 ^ 1074 = ((2 ^ 1076 : Int) : ℝ) := by
    push_cast; rw [show (4 : ℝ) = 2 ^ 2 by norm_num, ← pow_add]
  rw [e2]
  exact_mod_cast this

/-- no float lies strictly between `4 − 2^-51` and 4 -/
theorem four_le_of_gt {x : F64} (h : 4 - 1 / 2 ^ 51 < val x) : 4 ≤ val x := by
  unfold val at h ⊢
  have hpos : (0 : ℝ) < 2 ^ 1074 := by positivity
  rw [lt_div_iff₀ hpos] at h
  rw [le_div_iff₀ hpos]
  have e1 : ((4 : ℝ) - 1 / 2 ^ 51) * 2 ^ 1074 = (((2 : Int) ^ 1076 - 2 ^ 1023 : Int) : ℝ) := by
    push_cast
    have a : (2 : ℝ) ^ 1076 = 4 * 2 ^ 51 * 2 ^ 1023 := by
      rw [show (4 : ℝ) = 2 ^ 2 by norm_num, ← pow_add, ← pow_add]
    have b : (2 : ℝ) ^ 1074 = 2 ^ 51 * 2 ^ 1023 := by rw [← pow_add]
    rw [a, b]
    generalize (2 : ℝ) ^ 1023 = T
    ring
  rw [e1] at h
  have h' : (2 : Int) ^ 1076 - 2 ^ 1023 < toInt x := by exact_mod_cast h
  have := four_le_toInt h'
  have e2 : (4 : ℝ) * 2 ^ 1074 = ((2 ^ 1076 : Int) : ℝ) := by
    push_cast; rw [show (4 : ℝ) = 2 ^ 2 by norm_num, ← pow_add]
  rw [e2]
  exact_mod_cast this

/-! ## the candidate of `UpdateMaxDistance` never exceeds 4 -/

/-- the chord `DistanceFromSegment` computes (always-update call from 0) is finite, non-negative, at most 5 -/
theorem segChord_range {x a b : V3} (hx : UnitPt x) (ha : UnitPt a) (hb : UnitPt b) (hE : EdgeOK a b) :
    Fin (distanceFromSegmentChord x a b) ∧ 0 ≤ val (distanceFromSegmentChord x a b) ∧
      val (distanceFromSegmentChord x a b) ≤ 5 := by
  rw [chord_by_branch]
  by_cases hbr : interiorBranch x a b = true
  · rw [if_pos hbr]
    obtain ⟨fI, eI⟩ := interior_value delta0_nonneg (le_refl _) hx ha hb hE
    obtain ⟨g0, g2⟩ := S2Proofs.C08World.gcDist2_range x a b hx ha hb hE
    have hd := S2Proofs.C08World.docInterior_le (b := gcDist2 x a b / 2) (by linarith) (by linarith)
    have hu : 52 * uR ≤ 1 := by unfold uR; norm_num
    have := (abs_le.mp eI).2
    exact ⟨fI, S2Proofs.C08World.interiorVal_nonneg x a b hx ha hb hE, by linarith⟩
  · rw [if_neg hbr]
    obtain ⟨fV, v4, _⟩ := vertexDist_spec delta0_nonneg (le_refl _) hx ha hb
    obtain ⟨fa, na, _⟩ := vertex_one delta0_nonneg (le_refl _) hx ha
    obtain ⟨fb, nb, _⟩ := vertex_one delta0_nonneg (le_refl _) hx hb
    obtain ⟨fm, vm⟩ := val_fmin fa fb
    obtain ⟨_, vc⟩ := val_chordFromLen2 fm
    refine ⟨fV, ?_, by linarith⟩
    unfold vertexDist
    rw [vc, vm]
    exact le_min (le_min na nb) (by norm_num)

/-- **the candidate of `UpdateMaxDistance(x, a, b, ·)` is at most 4, exactly** -/
theorem maxCandidate_le_four {x a b : V3} (hx : UnitPt x) (ha : UnitPt a) (hb : UnitPt b) (hE : EdgeOK a b) :
    val (maxCandidate x a b) ≤ 4 := by
  cases hbr : beyondRightAngle x a b
  · rw [maxCandidate_near x a b hbr]; exact (maxEndpoint_spec hx ha hb).2.2.1
  · rw [maxCandidate_antipode_chord x a b hbr]
    have hnx : UnitPt (negV x) := unitWithin_negV hx
    show val (f4 - distanceFromSegmentChord (negV x) a b) ≤ 4
    obtain ⟨fd, d0, d5⟩ := segChord_range hnx ha hb hE
    obtain ⟨f4f, f4v⟩ := f4_facts
    set d := distanceFromSegmentChord (negV x) a b with hd
    have hbig : |val f4 - val d| < 2 ^ 1000 := by
      apply lt_big (x := |val f4 - val d|)
      rw [f4v, abs_le]; constructor <;> norm_num <;> linarith
    obtain ⟨δ, hδ, hv, _⟩ := stdModel.sub f4 d f4f fd hbig
    apply le_four_of_lt
    show val (F64.sub f4 d) < _
    rw [hv, f4v]
    obtain ⟨δ1, δ2⟩ := abs_le.mp hδ
    have hu : uR = 1 / 2 ^ 53 := rfl
    have hu0 := uR_nonneg
    have key : (4 - val d) * δ ≤ 4 * uR := by
      by_cases ht : 0 ≤ 4 - val d
      · have : (4 - val d) * δ ≤ (4 - val d) * uR := mul_le_mul_of_nonneg_left δ2 ht
        have : (4 - val d) * uR ≤ 4 * uR := mul_le_mul_of_nonneg_right (by linarith) hu0
        linarith
      · have ht' : 4 - val d ≤ 0 := le_of_lt (not_le.mp ht)
        have : (4 - val d) * δ ≤ (4 - val d) * (-uR) := mul_le_mul_of_nonpos_left δ1 ht'
        have : (val d - 4) * uR ≤ 1 * uR := mul_le_mul_of_nonneg_right (by linarith) hu0
        nlinarith
    have : (4 : ℝ) * uR < 1 / 2 ^ 50 := by rw [hu]; norm_num
    nlinarith

/-! ## `x.Add(4) = 4` -/

theorem eq_posZero_of_val {x : F64} (hnz : x ≠ F64.zero true) (h : val x = 0) : x = mPosZero := by
  have h0 : toInt x = 0 := by
    unfold val at h
    have hpos : (0 : ℝ) < 2 ^ 1074 := by positivity
    have := (div_eq_zero_iff.mp h).resolve_right (ne_of_gt hpos)
    exact_mod_cast this
  have hz : toInt mPosZero = 0 := by decide +kernel
  exact S2Proofs.F64Inj.toInt_inj (h0.trans hz.symm) hnz (by decide)

/-- `ChordAngle.Add(x, 4)` takes its clamp exit for every finite non-negative `x` -/
theorem add_straight {x : F64} (hf : Fin x) (hnz : x ≠ F64.zero true) (h0 : 0 ≤ val x) (h4 : val x ≤ 4) :
    S2.Generated.DistTargetFns.ChordAngle_Add x mFour = mFour := by
  unfold S2.Generated.DistTargetFns.ChordAngle_Add
  have hne : F64.feq mFour (⟨0x0000000000000000⟩ : F64) = false := by decide +kernel
  rw [if_neg (by rw [hne]; simp)]
  have f4f : Fin mFour := mfin mzero
  have hle : F64.le (⟨0x4010000000000000⟩ : F64) (F64.add x mFour) = true := by
    rcases h0.lt_or_eq with hpos | hz
    · have hbig : |val x + val mFour| < 2 ^ 1000 := by
        apply lt_big (x := |val x + val mFour|)
        rw [val_four, abs_le]; constructor <;> norm_num <;> linarith
      obtain ⟨δ, hδ, hv, fa⟩ := stdModel.add x mFour hf f4f hbig
      show F64.le mFour (F64.add x mFour) = true
      rw [le_val f4f fa, val_four]
      apply four_le_of_gt
      rw [hv, val_four]
      obtain ⟨δ1, _⟩ := abs_le.mp hδ
      have hu : uR = 1 / 2 ^ 53 := rfl
      have h1 : (val x + 4) * (1 - uR) ≤ (val x + 4) * (1 + δ) :=
        mul_le_mul_of_nonneg_left (by linarith) (by linarith)
      have h2 : 0 < val x * (1 - uR) := mul_pos hpos (by rw [hu]; norm_num)
      have h3 : (4 : ℝ) * (1 - uR) = 4 - 1 / 2 ^ 51 := by rw [hu]; norm_num
      nlinarith
    · have : x = mPosZero := eq_posZero_of_val hnz hz.symm
      subst this
      decide +kernel
  rw [if_pos hle]
  rfl

/-- `maxDistance.sub` with `MaxError = StraightChordAngle` maps every member in `[0, 4]` to 4 -/
theorem msub_straight (x : MChord) (hn : x.1 ≠ mNegOne) (h4 : val x.1 ≤ 4) : msub x mzero = mzero := by
  have h0 : 0 ≤ val x.1 := by
    rcases mchord_cases x with ⟨_, h⟩ | h
    · exact h
    · exact absurd h hn
  have hfin := mfin x
  unfold msub S2.Generated.DistTargetFns.maxDistance_sub_cond0 S2.Generated.DistTargetFns.maxDistance_sub_val0
  have hlt : F64.lt x.1 (⟨0x0000000000000000⟩ : F64) = false := by
    cases h : F64.lt x.1 (⟨0x0000000000000000⟩ : F64) with
    | false => rfl
    | true =>
      have := (lt_val hfin (mfin mnull)).mp h
      have hz : val mnull.1 = 0 := val_posZero
      rw [hz] at this; linarith
  rw [isInf_false hfin, hlt]
  simp only [Bool.false_and, Bool.or_self, Bool.false_eq_true, if_false]
  have : S2.Generated.DistTargetFns.ChordAngle_Add x.1 mzero.1 = mFour := add_straight hfin (mnz x) h0 h4
  rw [this]
  exact mcanon_of_mchord mzero.2

/-! ## `SubLawsOn` for `MaxError = StraightChordAngle` -/

variable {P : FarIndex}

/-- the value `updateDistanceToEdge` returns is a member of `[0, 4]` other than −1 -/
theorem edge_some_le4 (H : FarEdgesOK P) {e : EdgeKey} (he : e ∈ P.allEdges) {lim x : MChord}
    (h : updEdge P e lim = some x) : x.1 ≠ mNegOne ∧ val x.1 ≤ 4 := by
  obtain ⟨hlt, hx⟩ := updEdge_some h
  obtain ⟨fc, _, _⟩ := cand_bound H he
  have hv : val lim.1 < val (cand P e) := (lt_val (mfin lim) fc).mp hlt
  have hl := mchord_ge lim
  obtain ⟨_, cn, cv⟩ := mcanon_fin fc (by linarith)
  subst hx
  refine ⟨cn, ?_⟩
  rw [cv]
  exact max_le (maxCandidate_le_four H.target (H.v0 e he) (H.v1 e he) (H.edgeOK e he)) (by norm_num)

/-- **`SubLawsOn` for `MaxError = StraightChordAngle = maxDistance(4)`** on the domain `FarEdgesOK` -/
theorem far_subLawsOn_straight (H : FarEdgesOK P) : Slack.SubLawsOn mchordI (world P) mzero where
  sub_edge e he lim x hu := by
    obtain ⟨hn, h4⟩ := edge_some_le4 H he hu
    show mless x (msub x mzero) = false
    rw [msub_straight x hn h4, mless_false_val]
    show val x.1 ≤ val mFour
    rw [val_four]; exact h4
  sub_zero := by
    show mless mzero (msub mzero mzero) = false
    rw [msub_straight mzero (by decide) (by show val mFour ≤ 4; rw [val_four])]
    exact mless_irrefl _

end S2Proofs.C08Far
