/-
  S2Proofs.ExactSignLaws — the algebraic laws of the library's exact orientation sign, stated at the level
  the other packages use it:

    * `Pred.exactDecisionI` on exact integer vectors (`IV3`): range, the six argument orders, zero-iff;
      all inputs, no side condition (consequences of the C02 theorems);
    * `Pred.exactDecision` on float vectors (`V3`): the same for FINITE coordinates
      (`F64Order.Fin3`; NaN / Inf are out of contract: `big.Float` panics), through
      `C02.exactDecision_eq_exactDecisionI`.  "Equal" at this level is Go's `==` (`V3.feq`, which
      identifies +0 and -0): the sign is 0 iff two arguments are `==`.

  These are the facts from which the hypothesis structures of the C03 / C04 / C07 / C10 packages are
  discharged (files `Properties/C03_Exact.lean`, `C04_Exact.lean`, `C07_Exact.lean`, `C10_Exact.lean`).
-/
import S2Proofs.Properties.C02

namespace S2Proofs.ExactLaws
open S2 S2.Exact S2.Pred S2Proofs.PredLemmas S2Proofs.F64Order S2Proofs.C02

/-! ### integer vectors -/

theorem sgn_range (x : Int) : sgn x = -1 ∨ sgn x = 0 ∨ sgn x = 1 := by
  rcases sgn_cases x with ⟨_, h⟩ | ⟨_, h⟩ | ⟨_, h⟩ <;> simp [h]

theorem exactSignSorted_range (a b c : IV3) (p : Bool) :
    exactSignSorted a b c p = -1 ∨ exactSignSorted a b c p = 0 ∨ exactSignSorted a b c p = 1 := by
  by_cases h : det3 a b c = 0
  · cases p
    · have : exactSignSorted a b c false = sgn (det3 a b c) := by simp [exactSignSorted, det3]
      rw [this]; exact sgn_range _
    · rw [exactSignSorted_of_det_eq h, sps_eq_leadL]; exact sgn_range _
  · rw [exactSignSorted_of_det_ne p h]; exact sgn_range _

/-- the exact decision only takes the values -1, 0, +1 -/
theorem EI_range (a b c : IV3) :
    exactDecisionI a b c = -1 ∨ exactDecisionI a b c = 0 ∨ exactDecisionI a b c = 1 := by
  unfold exactDecisionI
  split
  · exact Or.inr (Or.inl rfl)
  · rw [exactSignI_eq]
    have h2 := exactSignSorted_range (sort3 gtI a b c).1 (sort3 gtI a b c).2.1 (sort3 gtI a b c).2.2.1 true
    rcases sort3_sign gtI a b c with h | h <;> rw [h] <;> omega

theorem EI_rot (a b c : IV3) : exactDecisionI b c a = exactDecisionI a b c := exactDecision_rotate a b c
theorem EI_rot' (a b c : IV3) : exactDecisionI c a b = exactDecisionI a b c := by
  rw [← exactDecision_rotate c a b]
theorem EI_swap12 (a b c : IV3) : exactDecisionI b a c = -exactDecisionI a b c := exactDecision_swap12 a b c
theorem EI_swap23 (a b c : IV3) : exactDecisionI a c b = -exactDecisionI a b c := exactDecision_swap23 a b c
theorem EI_swap13 (a b c : IV3) : exactDecisionI c b a = -exactDecisionI a b c := exactDecision_swap13 a b c
theorem EI_zero_iff (a b c : IV3) : exactDecisionI a b c = 0 ↔ (a = b ∨ b = c ∨ c = a) :=
  exactDecision_zero_iff a b c

/-- ±1 on pairwise distinct points -/
theorem EI_unit (a b c : IV3) (hab : a ≠ b) (hbc : b ≠ c) (hca : c ≠ a) :
    exactDecisionI a b c = 1 ∨ exactDecisionI a b c = -1 := by
  have h0 : exactDecisionI a b c ≠ 0 := fun h => by
    rcases (EI_zero_iff a b c).1 h with h | h | h <;> contradiction
  rcases EI_range a b c with h | h | h
  · exact Or.inr h
  · exact absurd h h0
  · exact Or.inl h

/-- when the determinant is non-zero the decision is its sign -/
theorem EI_of_det_ne (a b c : IV3) (h : det3 a b c ≠ 0) : exactDecisionI a b c = sgn (det3 a b c) := by
  unfold exactDecisionI
  rw [if_neg (fun heq => h (det3_eq_zero_of_eq heq))]
  exact exactSign_eq_sign_det _ _ _ true h

theorem EI_eq_one_of_det_pos (a b c : IV3) (h : 0 < det3 a b c) : exactDecisionI a b c = 1 := by
  rw [EI_of_det_ne a b c (ne_of_gt h), sgn_pos h]

theorem EI_eq_neg_one_of_det_neg (a b c : IV3) (h : det3 a b c < 0) : exactDecisionI a b c = -1 := by
  rw [EI_of_det_ne a b c (ne_of_lt h), sgn_neg' h]

/-- for a non-zero determinant: the decision is +1 iff the determinant is positive -/
theorem EI_eq_one_iff_of_det_ne (a b c : IV3) (h : det3 a b c ≠ 0) :
    exactDecisionI a b c = 1 ↔ 0 < det3 a b c := by
  rw [EI_of_det_ne a b c h]
  rcases sgn_cases (det3 a b c) with ⟨h1, h2⟩ | ⟨h1, h2⟩ | ⟨h1, h2⟩ <;> rw [h2] <;> constructor <;> intro h' <;> omega

/-! ### float vectors with finite coordinates -/

section float
variable {a b c : V3}

theorem E_eq (ha : Fin3 a) (hb : Fin3 b) (hc : Fin3 c) :
    exactDecision a b c = exactDecisionI (ofV3 a) (ofV3 b) (ofV3 c) :=
  exactDecision_eq_exactDecisionI a b c ha hb hc

theorem E_range (ha : Fin3 a) (hb : Fin3 b) (hc : Fin3 c) :
    exactDecision a b c = -1 ∨ exactDecision a b c = 0 ∨ exactDecision a b c = 1 := by
  rw [E_eq ha hb hc]; exact EI_range _ _ _

theorem E_rot (ha : Fin3 a) (hb : Fin3 b) (hc : Fin3 c) : exactDecision b c a = exactDecision a b c := by
  rw [E_eq ha hb hc, E_eq hb hc ha]; exact EI_rot _ _ _

theorem E_rot' (ha : Fin3 a) (hb : Fin3 b) (hc : Fin3 c) : exactDecision c a b = exactDecision a b c := by
  rw [E_eq ha hb hc, E_eq hc ha hb]; exact EI_rot' _ _ _

theorem E_swap12 (ha : Fin3 a) (hb : Fin3 b) (hc : Fin3 c) : exactDecision b a c = -exactDecision a b c := by
  rw [E_eq ha hb hc, E_eq hb ha hc]; exact EI_swap12 _ _ _

theorem E_swap23 (ha : Fin3 a) (hb : Fin3 b) (hc : Fin3 c) : exactDecision a c b = -exactDecision a b c := by
  rw [E_eq ha hb hc, E_eq ha hc hb]; exact EI_swap23 _ _ _

theorem E_swap13 (ha : Fin3 a) (hb : Fin3 b) (hc : Fin3 c) : exactDecision c b a = -exactDecision a b c := by
  rw [E_eq ha hb hc, E_eq hc hb ha]; exact EI_swap13 _ _ _

/-- the exact sign is 0 iff two of the points are `==` (Go equality: +0 == -0) -/
theorem E_zero_iff (ha : Fin3 a) (hb : Fin3 b) (hc : Fin3 c) :
    exactDecision a b c = 0 ↔ (V3.feq a b = true ∨ V3.feq b c = true ∨ V3.feq c a = true) := by
  rw [E_eq ha hb hc, EI_zero_iff, v3feq_iff ha hb, v3feq_iff hb hc, v3feq_iff hc ha]

/-- ±1 on points that are pairwise not `==` -/
theorem E_unit (ha : Fin3 a) (hb : Fin3 b) (hc : Fin3 c)
    (hab : V3.feq a b = false) (hbc : V3.feq b c = false) (hca : V3.feq c a = false) :
    exactDecision a b c = 1 ∨ exactDecision a b c = -1 := by
  rw [E_eq ha hb hc]
  refine EI_unit _ _ _ (fun h => ?_) (fun h => ?_) (fun h => ?_)
  · rw [(v3feq_iff ha hb).2 h] at hab; exact absurd hab (by decide)
  · rw [(v3feq_iff hb hc).2 h] at hbc; exact absurd hbc (by decide)
  · rw [(v3feq_iff hc ha).2 h] at hca; exact absurd hca (by decide)

/-! Go `==` on finite vectors is an equivalence relation -/

theorem feq_refl (ha : Fin3 a) : V3.feq a a = true := (v3feq_iff ha ha).2 rfl
theorem feq_symm (ha : Fin3 a) (hb : Fin3 b) (h : V3.feq a b = true) : V3.feq b a = true :=
  (v3feq_iff hb ha).2 ((v3feq_iff ha hb).1 h).symm
theorem feq_trans (ha : Fin3 a) (hb : Fin3 b) (hc : Fin3 c) (h1 : V3.feq a b = true)
    (h2 : V3.feq b c = true) : V3.feq a c = true :=
  (v3feq_iff ha hc).2 (((v3feq_iff ha hb).1 h1).trans ((v3feq_iff hb hc).1 h2))
theorem feq_comm (ha : Fin3 a) (hb : Fin3 b) : V3.feq a b = V3.feq b a :=
  Bool.eq_iff_iff.2 ⟨feq_symm ha hb, feq_symm hb ha⟩

/-- the sign does not distinguish `==` points (e.g. +0 / -0 variants) -/
theorem E_congr {a' b' c' : V3} (ha : Fin3 a) (hb : Fin3 b) (hc : Fin3 c)
    (ha' : Fin3 a') (hb' : Fin3 b') (hc' : Fin3 c')
    (h1 : V3.feq a a' = true) (h2 : V3.feq b b' = true) (h3 : V3.feq c c' = true) :
    exactDecision a b c = exactDecision a' b' c' := by
  rw [E_eq ha hb hc, E_eq ha' hb' hc', (v3feq_iff ha ha').1 h1, (v3feq_iff hb hb').1 h2,
    (v3feq_iff hc hc').1 h3]

end float

/-! ### concrete points used by the non-vacuity examples of the `…_Exact` files -/

def f0 : F64 := F64.zero false
def fm0 : F64 := F64.zero true
def f1 : F64 := F64.one
/-- the three unit axis points -/
def eX : V3 := ⟨f1, f0, f0⟩
def eY : V3 := ⟨f0, f1, f0⟩
def eZ : V3 := ⟨f0, f0, f1⟩
/-- `eX` with negative zeros: `==` to `eX` in Go, a different bit pattern -/
def eXm : V3 := ⟨f1, fm0, fm0⟩
/-- a point on the great circle through `eX`, `eY` (exactly coplanar with them and the origin) -/
def eXY : V3 := ⟨f1, f1, f0⟩
/-- `eXY` moved off the plane by one subnormal ulp: a near-degenerate triple with `eX`, `eY` -/
def eXYu : V3 := ⟨f1, f1, ⟨1⟩⟩
/-- a point in the open octant -/
def eD : V3 := ⟨f1, f1, f1⟩

example : Fin3 eX ∧ Fin3 eY ∧ Fin3 eZ ∧ Fin3 eXm ∧ Fin3 eXY ∧ Fin3 eXYu ∧ Fin3 eD := by decide +kernel

/-- axis points: counter-clockwise; the exactly coplanar triple is decided by the symbolic perturbation;
    one subnormal ulp decides the near-degenerate triple; the ±0 variant is `==` and gives 0 -/
example : exactDecision eX eY eZ = 1 ∧ exactDecision eY eX eZ = -1 ∧
    detSign eX eY eXY = 0 ∧ exactDecision eX eY eXY = -1 ∧ exactDecision eX eY eXYu = 1 ∧
    V3.feq eX eXm = true ∧ eX ≠ eXm ∧ exactDecision eX eXm eY = 0 := by decide +kernel

end S2Proofs.ExactLaws
