/-
  FloatErr.RoundNE — specification of `F64.roundNE` over the reals: for a positive rational `n/d`
  below the overflow range, `roundNE neg n d` is finite and its exact value is `±(n/d)` rounded to
  53 significant bits (relative error ≤ 2^-53), or — below the normal range — to a multiple of
  2^-1074 (absolute error ≤ 2^-1075, and exact when `n/d` is such a multiple).
-/
import Mathlib.Tactic.Ring
import Mathlib.Tactic.Linarith
import Mathlib.Tactic.Positivity
import Mathlib.Tactic.NormNum
import Mathlib.Tactic.FieldSimp
import Mathlib.Data.Real.Basic
import S2Proofs.F64Sym
import S2Proofs.F64Inj
import S2Proofs.FloatErr.StdModel

namespace S2Proofs.FloatErr
open S2 S2.Exact S2Proofs.F64Order S2Proofs.Codec S2Proofs.F64Sym S2Proofs.F64Inj

/-- `2^e` for an integer exponent -/
noncomputable def tw (e : ℤ) : ℝ := (2 : ℝ) ^ e

theorem tw_pos (e : ℤ) : 0 < tw e := by unfold tw; exact zpow_pos (by norm_num) e
theorem tw_add (a b : ℤ) : tw (a + b) = tw a * tw b := by
  unfold tw; exact zpow_add₀ (by norm_num) a b
theorem tw_nat (k : ℕ) : tw (k : ℤ) = (2 : ℝ) ^ k := by unfold tw; exact zpow_natCast 2 k
theorem tw_neg (e : ℤ) : tw (-e) = (tw e)⁻¹ := by unfold tw; exact zpow_neg 2 e
theorem tw_zero : tw 0 = 1 := by unfold tw; simp
theorem tw_one : tw 1 = 2 := by unfold tw; simp
theorem tw_mono {a b : ℤ} (h : a ≤ b) : tw a ≤ tw b := by
  unfold tw; exact zpow_le_zpow_right₀ (by norm_num) h
theorem tw_succ (e : ℤ) : tw (e + 1) = 2 * tw e := by rw [tw_add, tw_one]; ring

/-! ### A. the quotient -/

/-- `n/d = (q + r/den)·2^e` -/
theorem quotF_spec (n d : ℕ) (hd : 0 < d) (e : ℤ) :
    0 < (quotF n d e).2.2 ∧ (quotF n d e).2.1 < (quotF n d e).2.2 ∧
    (n : ℝ) / d = (((quotF n d e).1 : ℝ) + ((quotF n d e).2.1 : ℝ) / ((quotF n d e).2.2 : ℝ)) * tw e := by
  have hdR : (0 : ℝ) < (d : ℝ) := by exact_mod_cast hd
  by_cases he : e ≥ 0
  · obtain ⟨k, rfl⟩ := Int.eq_ofNat_of_zero_le he
    unfold quotF
    rw [if_pos he]
    simp only [Int.toNat_natCast]
    have hden : 0 < d * 2 ^ k := Nat.mul_pos hd (Nat.two_pow_pos _)
    refine ⟨hden, Nat.mod_lt _ hden, ?_⟩
    have hdm : (n : ℝ) = ((d * 2 ^ k : ℕ) : ℝ) * ((n / (d * 2 ^ k) : ℕ) : ℝ)
        + ((n % (d * 2 ^ k) : ℕ) : ℝ) := by
      exact_mod_cast (Nat.div_add_mod n (d * 2 ^ k)).symm
    have hden2 : ((d * 2 ^ k : ℕ) : ℝ) = (d : ℝ) * 2 ^ k := by push_cast; ring
    rw [tw_nat]
    generalize ((n / (d * 2 ^ k) : ℕ) : ℝ) = q at *
    generalize ((n % (d * 2 ^ k) : ℕ) : ℝ) = r at *
    rw [hdm, hden2]
    have h2 : (0 : ℝ) < 2 ^ k := by positivity
    field_simp
  · obtain ⟨k, rfl⟩ : ∃ k : ℕ, e = -(k : ℤ) := ⟨(-e).toNat, by omega⟩
    unfold quotF
    rw [if_neg he]
    simp only [Int.neg_neg, Int.toNat_natCast]
    refine ⟨hd, Nat.mod_lt _ hd, ?_⟩
    have hdm : ((n * 2 ^ k : ℕ) : ℝ) = ((d : ℕ) : ℝ) * ((n * 2 ^ k / d : ℕ) : ℝ)
        + ((n * 2 ^ k % d : ℕ) : ℝ) := by
      exact_mod_cast (Nat.div_add_mod (n * 2 ^ k) d).symm
    have hnum : ((n * 2 ^ k : ℕ) : ℝ) = (n : ℝ) * 2 ^ k := by push_cast; ring
    rw [tw_neg, tw_nat]
    generalize ((n * 2 ^ k / d : ℕ) : ℝ) = q at *
    generalize ((n * 2 ^ k % d : ℕ) : ℝ) = r at *
    have h2 : (0 : ℝ) < 2 ^ k := by positivity
    have hn : (n : ℝ) = (d * q + r) / 2 ^ k := by
      rw [← hdm, hnum]; field_simp
    rw [hn]
    field_simp

/-- the scaled value `w(e) = (n/d)/2^e` lies in `[q, q+1)` -/
theorem quotF_floor (n d : ℕ) (hd : 0 < d) (e : ℤ) :
    ((quotF n d e).1 : ℝ) * tw e ≤ (n : ℝ) / d ∧ (n : ℝ) / d < (((quotF n d e).1 : ℝ) + 1) * tw e := by
  obtain ⟨h1, h2, h3⟩ := quotF_spec n d hd e
  have hden : (0 : ℝ) < ((quotF n d e).2.2 : ℝ) := by exact_mod_cast h1
  have hr : ((quotF n d e).2.1 : ℝ) < ((quotF n d e).2.2 : ℝ) := by exact_mod_cast h2
  have hr0 : (0 : ℝ) ≤ ((quotF n d e).2.1 : ℝ) := by positivity
  have hfrac0 : 0 ≤ ((quotF n d e).2.1 : ℝ) / ((quotF n d e).2.2 : ℝ) := div_nonneg hr0 hden.le
  have hfrac1 : ((quotF n d e).2.1 : ℝ) / ((quotF n d e).2.2 : ℝ) < 1 := (div_lt_one hden).mpr hr
  have ht := tw_pos e
  rw [h3]
  constructor
  · exact mul_le_mul_of_nonneg_right (by linarith) ht.le
  · exact mul_lt_mul_of_pos_right (by linarith) ht

/-! ### B. the rounding decision -/

/-- round-half-even on `q + r/den` -/
def rnd (q r den : ℕ) : ℕ := if 2 * r > den || (2 * r == den && q % 2 == 1) then q + 1 else q

theorem rnd_spec (q r den : ℕ) (hden : 0 < den) (hr : r < den) :
    |((rnd q r den : ℕ) : ℝ) - ((q : ℝ) + (r : ℝ) / (den : ℝ))| ≤ 1 / 2 ∧
    q ≤ rnd q r den ∧ rnd q r den ≤ q + 1 ∧ (r = 0 → rnd q r den = q) := by
  have hdenR : (0 : ℝ) < (den : ℝ) := by exact_mod_cast hden
  unfold rnd
  split
  · rename_i h
    have h2 : den ≤ 2 * r := by
      simp only [Bool.or_eq_true, decide_eq_true_eq, Bool.and_eq_true, beq_iff_eq] at h
      rcases h with h | h <;> omega
    refine ⟨?_, by omega, by omega, by intro h0; omega⟩
    have h2R : (den : ℝ) ≤ 2 * (r : ℝ) := by exact_mod_cast h2
    have hrR : (r : ℝ) < (den : ℝ) := by exact_mod_cast hr
    have e1 : ((q + 1 : ℕ) : ℝ) - ((q : ℝ) + (r : ℝ) / (den : ℝ)) = 1 - (r : ℝ) / (den : ℝ) := by
      push_cast; ring
    rw [e1, abs_le]
    have hf1 : (r : ℝ) / (den : ℝ) < 1 := (div_lt_one hdenR).mpr hrR
    have hf2 : 1 / 2 ≤ (r : ℝ) / (den : ℝ) := by
      rw [le_div_iff₀ hdenR]; linarith
    constructor <;> linarith
  · rename_i h
    have h2 : 2 * r ≤ den := by
      simp only [Bool.or_eq_true, decide_eq_true_eq, Bool.and_eq_true, beq_iff_eq, not_or] at h
      omega
    refine ⟨?_, by omega, by omega, fun _ => rfl⟩
    have h2R : 2 * (r : ℝ) ≤ (den : ℝ) := by exact_mod_cast h2
    have e1 : ((q : ℕ) : ℝ) - ((q : ℝ) + (r : ℝ) / (den : ℝ)) = - ((r : ℝ) / (den : ℝ)) := by ring
    rw [e1, abs_neg, abs_of_nonneg (by positivity)]
    rw [div_le_iff₀ hdenR]; linarith

/-! ### C. encoding and decoding -/

/-- encoding of the positive value `Q·2^E` -/
def enc (Q : ℕ) (E : ℤ) : F64 :=
  if Q < 2 ^ 52 then ⟨(0 : UInt64) ||| UInt64.ofNat Q⟩
  else if E + 1075 ≥ 2047 then F64.inf false
  else ⟨(0 : UInt64) ||| (UInt64.ofNat (E + 1075).toNat <<< 52) ||| UInt64.ofNat (Q - 2 ^ 52)⟩

theorem finR_eq (e : ℤ) (q r den : ℕ) :
    finR false e (q, r, den) =
      if rnd q r den ≥ 2 ^ 53 then enc (rnd q r den / 2) (e + 1) else enc (rnd q r den) e := by
  unfold finR rnd enc
  simp only [Bool.false_eq_true, if_false]
  split <;> split <;> rfl

theorem fields_to_val {x : F64} {E F : ℕ} (hs : x.signBit = false) (he : x.expField = E)
    (hf : x.fracField = F) (hE : E ≠ 2047) :
    Fin x ∧ toInt x = ((if E = 0 then F else F + 2 ^ 52 : ℕ) : ℤ) * 2 ^ (E - 1) := by
  refine ⟨by unfold F64Order.Fin; rw [he]; exact hE, ?_⟩
  rw [toInt_eq_mag, hs]
  simp only [Bool.false_eq_true, if_false]
  unfold mag F64.mant
  rw [he, hf]
  by_cases h0 : E = 0
  · simp [h0]
  · have : (E == 0) = false := by simp [h0]
    simp only [this, h0, if_false]
    push_cast
    rfl

theorem enc_sub_toNat (Q : ℕ) (hQ : Q < 2 ^ 52) : ((0 : UInt64) ||| UInt64.ofNat Q).toNat = Q := by
  have h0 : (0 : UInt64).toNat = 0 := by decide
  rw [UInt64.toNat_or, h0, Nat.zero_or, UInt64.toNat_ofNat']
  exact Nat.mod_eq_of_lt (by omega)

theorem enc_norm_toNat (Q be : ℕ) (hQ1 : 2 ^ 52 ≤ Q) (hQ2 : Q < 2 ^ 53) (hb2 : be ≤ 2046) :
    ((0 : UInt64) ||| (UInt64.ofNat be <<< 52) ||| UInt64.ofNat (Q - 2 ^ 52)).toNat
      = 2 ^ 52 * be + (Q - 2 ^ 52) := by
  simp only [UInt64.toNat_or, UInt64.toNat_shiftLeft, UInt64.toNat_ofNat']
  have h52 : (52 : UInt64).toNat % 64 = 52 := by decide
  have h0 : (0 : UInt64).toNat = 0 := by decide
  rw [h52, h0, Nat.zero_or, Nat.shiftLeft_eq, Nat.mod_eq_of_lt (a := be) (by omega),
    Nat.mod_eq_of_lt (a := be * 2 ^ 52) (by omega),
    Nat.mod_eq_of_lt (a := Q - 2 ^ 52) (by omega), Nat.mul_comm]
  exact (Nat.two_pow_add_eq_or_of_lt (by omega) _).symm

/-- the encoded value: finite, and `val = Q·2^E` -/
theorem enc_val (Q : ℕ) (E : ℤ) (hQ2 : Q < 2 ^ 53) (hE1 : -1074 ≤ E) (hE2 : E ≤ 971)
    (hsub : Q < 2 ^ 52 → E = -1074) :
    Fin (enc Q E) ∧ val (enc Q E) = (Q : ℝ) * tw E := by
  unfold enc
  by_cases hQ : Q < 2 ^ 52
  · rw [if_pos hQ]
    have hE := hsub hQ
    subst hE
    have hb := enc_sub_toNat Q hQ
    obtain ⟨hf, hv⟩ := fields_to_val (x := ⟨(0 : UInt64) ||| UInt64.ofNat Q⟩) (E := 0) (F := Q)
      (by rw [signBit_eq]; simp only [hb]; simp; omega)
      (by rw [expField_eq]; simp only [hb]; omega)
      (by rw [fracField_eq]; simp only [hb]; omega) (by decide)
    refine ⟨hf, ?_⟩
    unfold val
    rw [hv]
    simp only [if_true]
    have : tw (-1074) = 1 / 2 ^ 1074 := by
      rw [tw_neg, show (1074 : ℤ) = ((1074 : ℕ) : ℤ) from rfl, tw_nat, one_div]
    rw [this]
    push_cast
    ring
  · rw [if_neg hQ, if_neg (by omega)]
    obtain ⟨be, hbe⟩ : ∃ be : ℕ, (E + 1075).toNat = be := ⟨_, rfl⟩
    rw [hbe]
    have hb1 : 1 ≤ be := by omega
    have hb2 : be ≤ 2046 := by omega
    have hb := enc_norm_toNat Q be (by omega) hQ2 hb2
    obtain ⟨hf, hv⟩ := fields_to_val
      (x := ⟨(0 : UInt64) ||| (UInt64.ofNat be <<< 52) ||| UInt64.ofNat (Q - 2 ^ 52)⟩)
      (E := be) (F := Q - 2 ^ 52)
      (by rw [signBit_eq]; simp only [hb]; simp; omega)
      (by rw [expField_eq]; simp only [hb]; omega)
      (by rw [fracField_eq]; simp only [hb]; omega) (by omega)
    refine ⟨hf, ?_⟩
    unfold val
    rw [hv, if_neg (by omega)]
    have hQe : Q - 2 ^ 52 + 2 ^ 52 = Q := by omega
    rw [hQe]
    have hE : E = ((be - 1 : ℕ) : ℤ) + (-1074) := by omega
    have : tw E = 2 ^ (be - 1) * (1 / 2 ^ 1074) := by
      rw [hE, tw_add, tw_nat, tw_neg, show (1074 : ℤ) = ((1074 : ℕ) : ℤ) from rfl, tw_nat, one_div]
    rw [this]
    push_cast
    ring

/-! ### D. the final stage `finR` -/

theorem finR_spec (e : ℤ) (q r den : ℕ) (hden : 0 < den) (hr : r < den) (hq : q < 2 ^ 53)
    (he1 : -1074 ≤ e) (he2 : e ≤ 970) (hq52 : 2 ^ 52 ≤ q ∨ e = -1074) :
    Fin (finR false e (q, r, den)) ∧ val (finR false e (q, r, den)) = (rnd q r den : ℝ) * tw e := by
  obtain ⟨_, h1, h2, _⟩ := rnd_spec q r den hden hr
  rw [finR_eq]
  by_cases hc : rnd q r den ≥ 2 ^ 53
  · rw [if_pos hc]
    have heq : rnd q r den = 2 ^ 53 := by omega
    rw [heq]
    obtain ⟨hf, hv⟩ := enc_val (2 ^ 53 / 2) (e + 1) (by norm_num) (by omega) (by omega)
      (by intro h; norm_num at h)
    refine ⟨hf, ?_⟩
    rw [hv, tw_succ]
    norm_num
    ring
  · rw [if_neg hc]
    obtain ⟨hf, hv⟩ := enc_val (rnd q r den) e (by omega) he1 (by omega)
      (by intro h; rcases hq52 with h' | h' <;> omega)
    exact ⟨hf, hv⟩

/-! ### E. the exponent selection -/

theorem tw_lt_imp {a b : ℤ} (h : tw a < tw b) : a < b := by
  by_contra hn
  have := tw_mono (not_lt.mp hn)
  linarith

theorem nat_lt_of_cast_mul_lt {q : ℕ} {B t : ℝ} (ht : 0 < t) (h : (q : ℝ) * t < B * t) : (q : ℝ) < B :=
  lt_of_mul_lt_mul_right h ht.le

/-- `2^(ln−ld−1) ≤ n/d < 2^(ln−ld+1)` -/
theorem ratio_bounds (n d : ℕ) (hn : 0 < n) (hd : 0 < d) :
    tw ((n.log2 : ℤ) - (d.log2 : ℤ) - 1) ≤ (n : ℝ) / d ∧ (n : ℝ) / d < tw ((n.log2 : ℤ) - (d.log2 : ℤ) + 1) := by
  have hdR : (0 : ℝ) < (d : ℝ) := by exact_mod_cast hd
  have n1 : (2 : ℝ) ^ n.log2 ≤ (n : ℝ) := by exact_mod_cast Nat.log2_self_le (by omega)
  have n2 : (n : ℝ) < (2 : ℝ) ^ (n.log2 + 1) := by exact_mod_cast @Nat.lt_log2_self n
  have d1 : (2 : ℝ) ^ d.log2 ≤ (d : ℝ) := by exact_mod_cast Nat.log2_self_le (by omega)
  have d2 : (d : ℝ) < (2 : ℝ) ^ (d.log2 + 1) := by exact_mod_cast @Nat.lt_log2_self d
  constructor
  · rw [le_div_iff₀ hdR]
    have e1 : tw ((n.log2 : ℤ) - (d.log2 : ℤ) - 1) * (2 : ℝ) ^ (d.log2 + 1) = (2 : ℝ) ^ n.log2 := by
      rw [← tw_nat, ← tw_nat, ← tw_add]; congr 1; push_cast; ring
    have := mul_le_mul_of_nonneg_left d2.le (tw_pos ((n.log2 : ℤ) - (d.log2 : ℤ) - 1)).le
    linarith
  · rw [div_lt_iff₀ hdR]
    have e1 : tw ((n.log2 : ℤ) - (d.log2 : ℤ) + 1) * (2 : ℝ) ^ d.log2 = (2 : ℝ) ^ (n.log2 + 1) := by
      rw [← tw_nat, ← tw_nat, ← tw_add]; congr 1; push_cast; ring
    have := mul_le_mul_of_nonneg_left d1 (tw_pos ((n.log2 : ℤ) - (d.log2 : ℤ) + 1)).le
    linarith

/-- after the adjustment the scaled value lies in `[2^52, 2^53)` -/
theorem adjE_spec (n d : ℕ) (hn : 0 < n) (hd : 0 < d) :
    (2 : ℝ) ^ 52 * tw (adjE n d ((n.log2 : ℤ) - (d.log2 : ℤ) - 1 - 52)) ≤ (n : ℝ) / d ∧
    (n : ℝ) / d < (2 : ℝ) ^ 53 * tw (adjE n d ((n.log2 : ℤ) - (d.log2 : ℤ) - 1 - 52)) := by
  obtain ⟨b1, b2⟩ := ratio_bounds n d hn hd
  set e0 : ℤ := (n.log2 : ℤ) - (d.log2 : ℤ) - 1 - 52 with he0
  have t0 := tw_pos e0
  have lo : (2 : ℝ) ^ 52 * tw e0 ≤ (n : ℝ) / d := by
    have : (2 : ℝ) ^ 52 * tw e0 = tw ((n.log2 : ℤ) - (d.log2 : ℤ) - 1) := by
      rw [← tw_nat, ← tw_add]; congr 1; rw [he0]; push_cast; ring
    rw [this]; exact b1
  have hi : (n : ℝ) / d < (2 : ℝ) ^ 54 * tw e0 := by
    have : (2 : ℝ) ^ 54 * tw e0 = tw ((n.log2 : ℤ) - (d.log2 : ℤ) + 1) := by
      rw [← tw_nat, ← tw_add]; congr 1; rw [he0]; push_cast; ring
    rw [this]; exact b2
  obtain ⟨f1, f2⟩ := quotF_floor n d hd e0
  unfold adjE
  simp only
  split
  · rename_i h
    exfalso
    have hq : (2 : ℝ) ^ 54 ≤ ((quotF n d e0).1 : ℝ) := by exact_mod_cast h
    have := mul_le_mul_of_nonneg_right hq t0.le
    linarith
  · split
    · rename_i _ h
      have hq : (2 : ℝ) ^ 53 ≤ ((quotF n d e0).1 : ℝ) := by exact_mod_cast h
      have := mul_le_mul_of_nonneg_right hq t0.le
      rw [tw_succ]
      constructor <;> nlinarith
    · rename_i _ h
      have hq : ((quotF n d e0).1 : ℝ) + 1 ≤ (2 : ℝ) ^ 53 := by
        have : (quotF n d e0).1 + 1 ≤ 2 ^ 53 := by omega
        exact_mod_cast this
      have := mul_le_mul_of_nonneg_right hq t0.le
      exact ⟨lo, by linarith⟩

/-! ### F. the specification of `roundNE` -/

theorem tw_m1074 : tw (-1074) = 1 / 2 ^ 1074 := by
  rw [tw_neg, show (1074 : ℤ) = ((1074 : ℕ) : ℤ) from rfl, tw_nat, one_div]

theorem roundNE_pos_spec (n d : ℕ) (hn : 0 < n) (hd : 0 < d) (hv : (n : ℝ) / d < 2 ^ 1000) :
    Fin (F64.roundNE false n d) ∧ ∃ δ η : ℝ, |δ| ≤ uR ∧ |η| ≤ eR ∧
      val (F64.roundNE false n d) = (n : ℝ) / d * (1 + δ) + η ∧ (d ∣ n * 2 ^ 1074 → η = 0) := by
  have hdR : (0 : ℝ) < (d : ℝ) := by exact_mod_cast hd
  have hnR : (0 : ℝ) < (n : ℝ) := by exact_mod_cast hn
  have hvpos : 0 < (n : ℝ) / d := div_pos hnR hdR
  rw [roundNE_eq]
  have hn0 : (n == 0) = false := by simp; omega
  simp only [hn0, Bool.false_eq_true, if_false]
  obtain ⟨a1, a2⟩ := adjE_spec n d hn hd
  set e1 := adjE n d ((n.log2 : ℤ) - (d.log2 : ℤ) - 1 - 52) with he1
  -- e1 is far from overflow
  have he1up : e1 < 948 := by
    have h1 : tw (52 + e1) < tw 1000 := by
      rw [tw_add, show (52 : ℤ) = ((52 : ℕ) : ℤ) from rfl, tw_nat,
        show (1000 : ℤ) = ((1000 : ℕ) : ℤ) from rfl, tw_nat]
      linarith
    have := tw_lt_imp h1
    omega
  set e : ℤ := if e1 < -1074 then -1074 else e1 with he
  have hee1 : e1 ≤ e := by rw [he]; split <;> omega
  have hem : -1074 ≤ e := by rw [he]; split <;> omega
  have heu : e ≤ 970 := by rw [he]; split <;> omega
  have te := tw_pos e
  obtain ⟨q1, q2, q3⟩ := quotF_spec n d hd e
  obtain ⟨f1, f2⟩ := quotF_floor n d hd e
  -- q < 2^53
  have hq53 : (quotF n d e).1 < 2 ^ 53 := by
    have h1 : ((quotF n d e).1 : ℝ) * tw e < (2 : ℝ) ^ 53 * tw e := by
      have := mul_le_mul_of_nonneg_left (tw_mono hee1) (by positivity : (0 : ℝ) ≤ (2 : ℝ) ^ 53)
      linarith
    have := nat_lt_of_cast_mul_lt te h1
    exact_mod_cast this
  -- q ≥ 2^52 unless clamped
  have hq52 : 2 ^ 52 ≤ (quotF n d e).1 ∨ e = -1074 := by
    by_cases hc : e1 < -1074
    · right; rw [he, if_pos hc]
    · left
      have hee : e = e1 := by rw [he, if_neg hc]
      have h1 : (2 : ℝ) ^ 52 * tw e < (((quotF n d e).1 : ℝ) + 1) * tw e := by
        rw [hee] at f2 ⊢; linarith
      have h2 : (2 : ℝ) ^ 52 < ((quotF n d e).1 : ℝ) + 1 := lt_of_mul_lt_mul_right h1 te.le
      have h3 : (2 : ℝ) ^ 52 < (((quotF n d e).1 + 1 : ℕ) : ℝ) := by push_cast; exact h2
      have h4 : 2 ^ 52 < (quotF n d e).1 + 1 := by exact_mod_cast h3
      omega
  obtain ⟨hfin, hval⟩ := finR_spec e (quotF n d e).1 (quotF n d e).2.1 (quotF n d e).2.2 q1 q2 hq53 hem heu hq52
  obtain ⟨r1, _, _, r4⟩ := rnd_spec (quotF n d e).1 (quotF n d e).2.1 (quotF n d e).2.2 q1 q2
  have hpair : quotF n d e = ((quotF n d e).1, (quotF n d e).2.1, (quotF n d e).2.2) := rfl
  rw [hpair]
  refine ⟨hfin, ?_⟩
  rw [hval]
  set R : ℝ := ((rnd (quotF n d e).1 (quotF n d e).2.1 (quotF n d e).2.2 : ℕ) : ℝ) with hR
  set W : ℝ := ((quotF n d e).1 : ℝ) + ((quotF n d e).2.1 : ℝ) / ((quotF n d e).2.2 : ℝ) with hW
  -- |R·2^e − v| ≤ 2^e / 2
  have herr : |R * tw e - (n : ℝ) / d| ≤ tw e / 2 := by
    rw [q3]
    have e1' : R * tw e - W * tw e = (R - W) * tw e := by ring
    rw [e1', abs_mul, abs_of_pos te]
    have := mul_le_mul_of_nonneg_right r1 te.le
    linarith
  by_cases hc : e1 < -1074
  · -- subnormal range: absolute error
    have hee : e = -1074 := by rw [he, if_pos hc]
    refine ⟨0, R * tw e - (n : ℝ) / d, by simp [uR_nonneg], ?_, by ring, ?_⟩
    · have : tw e / 2 = eR := by
        have h75 : (2 : ℝ) ^ 1075 = 2 ^ 1074 * 2 := pow_succ 2 1074
        rw [hee, tw_m1074]; unfold eR; rw [h75, div_div]
      linarith
    · intro hdvd
      have hr0 : (quotF n d e).2.1 = 0 := by
        rw [hee]
        unfold quotF
        rw [if_neg (by omega)]
        simp only
        have : (-(-1074 : ℤ)).toNat = 1074 := by decide
        rw [this]
        exact Nat.mod_eq_zero_of_dvd hdvd
      have hRq := r4 hr0
      rw [q3, hR, hRq, hW, hr0]
      simp
  · -- normal range: relative error
    have hee : e = e1 := by rw [he, if_neg hc]
    refine ⟨(R * tw e - (n : ℝ) / d) / ((n : ℝ) / d), 0, ?_, by simp [eR_nonneg], ?_, fun _ => rfl⟩
    · rw [abs_div, abs_of_pos hvpos, div_le_iff₀ hvpos]
      have : tw e / 2 ≤ uR * ((n : ℝ) / d) := by
        unfold uR
        rw [hee]
        have : tw e1 ≤ (n : ℝ) / d / 2 ^ 52 := by
          rw [le_div_iff₀ (by positivity)]; linarith
        have h53 : (2 : ℝ) ^ 53 = 2 * 2 ^ 52 := by norm_num
        rw [h53]
        have hv2 : 1 / (2 * (2 : ℝ) ^ 52) * ((n : ℝ) / d) = (n : ℝ) / d / 2 ^ 52 / 2 := by
          field_simp
        rw [hv2]
        linarith
      linarith
    · field_simp
      ring

theorem val_neg (x : F64) : val (F64.neg x) = - val x := by
  unfold val toInt
  rw [toIntAt_neg]
  push_cast
  ring

/-- **Specification of `roundNE`**: finite, correctly rounded with sign `s`. -/
theorem roundNE_spec (s : Bool) (n d : ℕ) (hn : 0 < n) (hd : 0 < d) (hv : (n : ℝ) / d < 2 ^ 1000) :
    Fin (F64.roundNE s n d) ∧ ∃ δ η : ℝ, |δ| ≤ uR ∧ |η| ≤ eR ∧
      val (F64.roundNE s n d) = (if s then -1 else 1) * ((n : ℝ) / d * (1 + δ) + η) ∧
      (d ∣ n * 2 ^ 1074 → η = 0) := by
  obtain ⟨hf, δ, η, h1, h2, h3, h4⟩ := roundNE_pos_spec n d hn hd hv
  cases s
  · refine ⟨hf, δ, η, h1, h2, ?_, h4⟩
    rw [h3]; simp
  · have hneg : F64.roundNE true n d = F64.neg (F64.roundNE false n d) := roundNE_neg false n d
    rw [hneg]
    refine ⟨(isFinite_neg _).mpr hf, δ, η, h1, h2, ?_, h4⟩
    rw [val_neg, h3]; simp

end S2Proofs.FloatErr
