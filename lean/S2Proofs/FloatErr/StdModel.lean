/-
  FloatErr.StdModel — the "standard model" of binary64 arithmetic for the soft-float `S2.F64`,
  stated as ONE hypothesis structure, and its consequences in the form `Rnd u e exact computed`.

      val x = toInt x / 2^1074           (exact real value of a finite float)
      u = 2^-53,  e = 2^-1075            (unit round-off, half the smallest subnormal)
-/
import Mathlib.Tactic.Ring
import Mathlib.Tactic.Linarith
import Mathlib.Tactic.Positivity
import Mathlib.Tactic.NormNum
import Mathlib.Tactic.FieldSimp
import Mathlib.Data.Real.Basic
import S2.Exact
import S2Proofs.F64Order
import S2Proofs.FloatErr.RealCore

namespace S2Proofs.FloatErr
open S2 S2.Exact S2Proofs.F64Order

/-- exact real value of a finite float -/
noncomputable def val (x : F64) : ℝ := (toInt x : ℝ) / 2 ^ 1074

/-- unit round-off `2^-53` -/
noncomputable def uR : ℝ := 1 / 2 ^ 53
/-- half the smallest subnormal, `2^-1075` -/
noncomputable def eR : ℝ := 1 / 2 ^ 1075

theorem uR_nonneg : 0 ≤ uR := by unfold uR; positivity
theorem eR_nonneg : 0 ≤ eR := by unfold eR; positivity
theorem uR_le_one : uR ≤ 1 := by unfold uR; norm_num
theorem eR_le_one : eR ≤ 1 := by
  unfold eR
  rw [div_le_one (by positivity)]
  exact one_le_pow₀ (by norm_num)

/-- **Standard model**: `mul`, `add`, `sub` of finite operands whose exact result is far from overflow are
    finite and correctly rounded (relative error ≤ 2^-53; for `mul` additionally an absolute error ≤ 2^-1075
    when the result is subnormal; `add`/`sub` are exact in the subnormal range). -/
structure StdModel : Prop where
  mul : ∀ x y : F64, Fin x → Fin y → |val x * val y| < 2 ^ 1000 →
    ∃ δ η : ℝ, |δ| ≤ uR ∧ |η| ≤ eR ∧ val (F64.mul x y) = val x * val y * (1 + δ) + η ∧ Fin (F64.mul x y)
  add : ∀ x y : F64, Fin x → Fin y → |val x + val y| < 2 ^ 1000 →
    ∃ δ : ℝ, |δ| ≤ uR ∧ val (F64.add x y) = (val x + val y) * (1 + δ) ∧ Fin (F64.add x y)
  sub : ∀ x y : F64, Fin x → Fin y → |val x - val y| < 2 ^ 1000 →
    ∃ δ : ℝ, |δ| ≤ uR ∧ val (F64.sub x y) = (val x - val y) * (1 + δ) ∧ Fin (F64.sub x y)

theorem lt_big {x : ℝ} (h : x ≤ 2 ^ 30) : x < 2 ^ 1000 := by
  have h2 : (2 : ℝ) ^ 30 < 2 ^ 1000 := pow_lt_pow_right₀ (by norm_num) (by norm_num)
  exact lt_of_le_of_lt h h2

theorem rnd_growth {u e x y M : ℝ} (hu : u ≤ 1) (he : e ≤ 1) (h : Rnd u e x y) (hM : |x| ≤ M) :
    |y| ≤ 2 * M + 1 := by
  have h1 := h.abs_le
  have h0 := abs_nonneg x
  have : u * |x| ≤ 1 * |x| := mul_le_mul_of_nonneg_right hu h0
  nlinarith

section steps
variable (H : StdModel)
include H

theorem mul_step {x y : F64} {M : ℝ} (hx : Fin x) (hy : Fin y) (hM : |val x * val y| ≤ M) (hM' : M ≤ 2 ^ 30) :
    Fin (x * y) ∧ Rnd uR eR (val x * val y) (val (x * y)) ∧ |val (x * y)| ≤ 2 * M + 1 := by
  obtain ⟨δ, η, hδ, hη, hv, hf⟩ := H.mul x y hx hy (lt_big (le_trans hM hM'))
  have hr : Rnd uR eR (val x * val y) (val (x * y)) := by
    show |val (F64.mul x y) - val x * val y| ≤ uR * |val x * val y| + eR
    rw [hv]
    have e1 : val x * val y * (1 + δ) + η - val x * val y = δ * (val x * val y) + η := by ring
    rw [e1]
    have h1 := abs_add_le (δ * (val x * val y)) η
    rw [abs_mul] at h1
    have h2 : |δ| * |val x * val y| ≤ uR * |val x * val y| :=
      mul_le_mul_of_nonneg_right hδ (abs_nonneg _)
    linarith
  exact ⟨hf, hr, rnd_growth uR_le_one eR_le_one hr hM⟩

/-- `mul` with the raw no-overflow hypothesis -/
theorem mul_step_raw {x y : F64} (hx : Fin x) (hy : Fin y) (hv : |val x * val y| < 2 ^ 1000) :
    Fin (x * y) ∧ Rnd uR eR (val x * val y) (val (x * y)) := by
  obtain ⟨δ, η, hδ, hη, hv', hf⟩ := H.mul x y hx hy hv
  refine ⟨hf, ?_⟩
  show |val (F64.mul x y) - val x * val y| ≤ uR * |val x * val y| + eR
  rw [hv']
  have e1 : val x * val y * (1 + δ) + η - val x * val y = δ * (val x * val y) + η := by ring
  rw [e1]
  have h1 := abs_add_le (δ * (val x * val y)) η
  rw [abs_mul] at h1
  have h2 : |δ| * |val x * val y| ≤ uR * |val x * val y| :=
    mul_le_mul_of_nonneg_right hδ (abs_nonneg _)
  linarith

theorem add_step {x y : F64} {M : ℝ} (hx : Fin x) (hy : Fin y) (hM : |val x + val y| ≤ M) (hM' : M ≤ 2 ^ 30) :
    Fin (x + y) ∧ Rnd uR 0 (val x + val y) (val (x + y)) ∧ |val (x + y)| ≤ 2 * M + 1 := by
  obtain ⟨δ, hδ, hv, hf⟩ := H.add x y hx hy (lt_big (le_trans hM hM'))
  have hr : Rnd uR 0 (val x + val y) (val (x + y)) := by
    show |val (F64.add x y) - (val x + val y)| ≤ uR * |val x + val y| + 0
    rw [hv]
    have e1 : (val x + val y) * (1 + δ) - (val x + val y) = δ * (val x + val y) := by ring
    rw [e1, abs_mul, add_zero]
    exact mul_le_mul_of_nonneg_right hδ (abs_nonneg _)
  exact ⟨hf, hr, rnd_growth uR_le_one (by norm_num) hr hM⟩

theorem sub_step {x y : F64} {M : ℝ} (hx : Fin x) (hy : Fin y) (hM : |val x - val y| ≤ M) (hM' : M ≤ 2 ^ 30) :
    Fin (x - y) ∧ Rnd uR 0 (val x - val y) (val (x - y)) ∧ |val (x - y)| ≤ 2 * M + 1 := by
  obtain ⟨δ, hδ, hv, hf⟩ := H.sub x y hx hy (lt_big (le_trans hM hM'))
  have hr : Rnd uR 0 (val x - val y) (val (x - y)) := by
    show |val (F64.sub x y) - (val x - val y)| ≤ uR * |val x - val y| + 0
    rw [hv]
    have e1 : (val x - val y) * (1 + δ) - (val x - val y) = δ * (val x - val y) := by ring
    rw [e1, abs_mul, add_zero]
    exact mul_le_mul_of_nonneg_right hδ (abs_nonneg _)
  exact ⟨hf, hr, rnd_growth uR_le_one (by norm_num) hr hM⟩

/-- one component of the float cross product -/
theorem cross_step {a b a' b' : F64} (ha : Fin a) (hb : Fin b) (ha' : Fin a') (hb' : Fin b')
    (ma : |val a| ≤ 2) (mb : |val b| ≤ 2) (ma' : |val a'| ≤ 2) (mb' : |val b'| ≤ 2) :
    Fin (a * b - a' * b') ∧ |val (a * b - a' * b')| ≤ 37 ∧
    Rnd uR eR (val a * val b) (val (a * b)) ∧ Rnd uR eR (val a' * val b') (val (a' * b')) ∧
    Rnd uR 0 (val (a * b) - val (a' * b')) (val (a * b - a' * b')) := by
  have m1 : |val a * val b| ≤ 4 := by
    rw [abs_mul]; nlinarith [abs_nonneg (val a), abs_nonneg (val b)]
  have m2 : |val a' * val b'| ≤ 4 := by
    rw [abs_mul]; nlinarith [abs_nonneg (val a'), abs_nonneg (val b')]
  obtain ⟨f1, r1, g1⟩ := mul_step H ha hb m1 (by norm_num)
  obtain ⟨f2, r2, g2⟩ := mul_step H ha' hb' m2 (by norm_num)
  have m3 : |val (a * b) - val (a' * b')| ≤ 18 := by
    have := abs_sub (val (a * b)) (val (a' * b'))
    linarith
  obtain ⟨f3, r3, g3⟩ := sub_step H f1 f2 m3 (by norm_num)
  exact ⟨f3, by linarith, r1, r2, r3⟩

end steps

end S2Proofs.FloatErr
