/-
  FloatErr.DotProd — error bound of the float dot product `fl(fl(fl(a₁b₁) + fl(a₂b₂)) + fl(a₃b₃))`
  and the constant `3.046875·dblEpsilon` of `triageSignDotProd`.

      |fl(a·b) − a·b| ≤ f·|a·b| + g·Σ|a_i b_i| + h·e ≤ (f + g)·m + h·e        (‖a‖², ‖b‖² ≤ m)

  f = (3/2)u(1+u/3), g = (3/2)u(1+u)(1+2u/3), h ≈ 3: for m = 2 + 2^-6 this is ≤ 6.0469·u,
  below `3.046875·dblEpsilon = 6.09375·u·(1 − 4e-17)`.
-/
import S2Proofs.FloatErr.Triage
import S2Proofs.FloatErr.Ops

namespace S2Proofs.FloatErr
open S2 S2.Exact S2.Pred S2Proofs.F64Order S2Proofs.PredLemmas S2Proofs.F64Sym S2Proofs.F64Inj

/-! ### `F64.abs` -/

theorem abs_toNat (x : F64) : (F64.abs x).bits.toNat = x.bits.toNat % 2 ^ 63 := by
  show (x.bits &&& 0x7FFFFFFFFFFFFFFF).toNat = _
  rw [UInt64.toNat_and]
  have h7 : (0x7FFFFFFFFFFFFFFF : UInt64).toNat = 2 ^ 63 - 1 := by decide
  rw [h7, Nat.and_two_pow_sub_one_eq_mod]

theorem abs_spec (x : F64) (hx : Fin x) : Fin (F64.abs x) ∧ toInt (F64.abs x) = |toInt x| := by
  have hn := abs_toNat x
  have hb := x.bits.toNat_lt
  have he : (F64.abs x).expField = x.expField := by
    rw [expField_eq, expField_eq, hn]; omega
  have hf : (F64.abs x).fracField = x.fracField := by
    rw [fracField_eq, fracField_eq, hn]; omega
  have hs : (F64.abs x).signBit = false := by
    rw [signBit_eq, hn]; simp; omega
  refine ⟨by unfold F64Order.Fin at hx ⊢; rw [he]; exact hx, ?_⟩
  have hmag : mag (F64.abs x) = mag x := by
    unfold mag F64.mant; rw [he, hf]
  rw [toInt_eq_mag (F64.abs x), hs, toInt_eq_mag x, hmag]
  cases x.signBit <;> simp

/-! ### the chain -/

/-- the float dot product as a chain of rounding steps (exact inputs `t_i = a_i·b_i`) -/
theorem dotChain_of_stdModel (H : StdModel) (a b : V3) (ha : Fin3 a) (hb : Fin3 b)
    (ma : |val a.x| ≤ 2 ∧ |val a.y| ≤ 2 ∧ |val a.z| ≤ 2)
    (mb : |val b.x| ≤ 2 ∧ |val b.y| ≤ 2 ∧ |val b.z| ≤ 2) :
    Fin (a.dot b) ∧
    |val (a.dot b) - (val a.x * val b.x + val a.y * val b.y + val a.z * val b.z)|
      ≤ fU uR * |val a.x * val b.x + val a.y * val b.y + val a.z * val b.z|
        + gU uR * (|val a.x * val b.x| + |val a.y * val b.y| + |val a.z * val b.z|) + hU uR * eR := by
  obtain ⟨ha1, ha2, ha3⟩ := ha
  obtain ⟨hb1, hb2, hb3⟩ := hb
  obtain ⟨ma1, ma2, ma3⟩ := ma
  obtain ⟨mb1, mb2, mb3⟩ := mb
  have m1 : |val a.x * val b.x| ≤ 4 := by have := abs_mul_le_of ma1 mb1; linarith
  have m2 : |val a.y * val b.y| ≤ 4 := by have := abs_mul_le_of ma2 mb2; linarith
  have m3 : |val a.z * val b.z| ≤ 4 := by have := abs_mul_le_of ma3 mb3; linarith
  obtain ⟨fq1, rq1, gq1⟩ := mul_step H ha1 hb1 m1 (by norm_num)
  obtain ⟨fq2, rq2, gq2⟩ := mul_step H ha2 hb2 m2 (by norm_num)
  obtain ⟨fq3, rq3, gq3⟩ := mul_step H ha3 hb3 m3 (by norm_num)
  have ms : |val (a.x * b.x) + val (a.y * b.y)| ≤ 18 := by
    have := abs_add_le (val (a.x * b.x)) (val (a.y * b.y)); linarith
  obtain ⟨fs, rs, gs⟩ := add_step H fq1 fq2 ms (by norm_num)
  have md : |val (a.x * b.x + a.y * b.y) + val (a.z * b.z)| ≤ 46 := by
    have := abs_add_le (val (a.x * b.x + a.y * b.y)) (val (a.z * b.z)); linarith
  obtain ⟨fd, rd, _⟩ := add_step H fs fq3 md (by norm_num)
  refine ⟨fd, ?_⟩
  have := dot3 uR_nonneg eR_nonneg rq1 rq2 rq3 rs rd
  unfold fU gU hU
  exact this

/-! ### the numeric side -/

/-- bound on the squared norms for `triageSignDotProd`: `2 + 2^-6` (the code's contract is ‖·‖ ≤ √2) -/
noncomputable def mDot : ℝ := 2 + 1 / 2 ^ 6

/-- the rigorous absolute error bound of the float dot product for squared norms ≤ 2 + 2^-6 -/
noncomputable def kDot : ℝ := (fU uR + gU uR) * mDot + hU uR * eR

set_option exponentiation.threshold 1100 in
theorem kDot_le : kDot ≤ 604688 / 100000 * uR := by
  unfold kDot fU gU hU mDot uR eR
  norm_num

/-- `6.09·2^-53 ≤ sdpMaxError = 3.046875·dblEpsilon` -/
theorem sdp_ge : 609 / 100 * uR ≤ val sdpMaxError := by
  have h : (609 : ℤ) * 2 ^ 1074 ≤ toInt sdpMaxError * (100 * 2 ^ 53) := by decide +kernel
  have h' : (609 : ℝ) * 2 ^ 1074 ≤ (toInt sdpMaxError : ℝ) * (100 * 2 ^ 53) := by exact_mod_cast h
  unfold val uR
  rw [div_mul_div_comm, div_le_div_iff₀ (by positivity) (by positivity)]
  linarith

/-- finite coordinates and exact squared norm at most `2 + 2^-6` -/
def NormLe2 (p : V3) : Prop := Fin3 p ∧ norm2I p * 64 ≤ 129 * (scale : ℤ) ^ 2

instance (p : V3) : Decidable (NormLe2 p) := by unfold NormLe2; infer_instance

theorem NormLe2.sq_le {p : V3} (h : NormLe2 p) : val p.x ^ 2 + val p.y ^ 2 + val p.z ^ 2 ≤ mDot := by
  rw [norm2_val]
  have h3 : ((norm2I p * 64 : ℤ) : ℝ) ≤ ((129 * (scale : ℤ) ^ 2 : ℤ) : ℝ) := Int.cast_le.mpr h.2
  push_cast at h3
  rw [scale_cast] at h3
  unfold mDot
  have hS : (0 : ℝ) < (2 ^ 1074) ^ 2 := by positivity
  have e1 : (norm2I p : ℝ) * (1 / 2 ^ 1074) ^ 2 = (norm2I p : ℝ) / (2 ^ 1074) ^ 2 := by
    rw [one_div, inv_pow]; rfl
  rw [e1, div_le_iff₀ hS]
  have e2 : (2 + 1 / (2 : ℝ) ^ 6) = 129 / 64 := by norm_num
  rw [e2]
  linarith

theorem NormLe2.coord_le {p : V3} (h : NormLe2 p) : |val p.x| ≤ 2 ∧ |val p.y| ≤ 2 ∧ |val p.z| ≤ 2 := by
  have h1 := h.sq_le
  have ht : mDot ≤ 4 := by unfold mDot; norm_num
  refine ⟨abs_le_of_sq_sum_le h1 ht, ?_, ?_⟩
  · have : val p.y ^ 2 + val p.x ^ 2 + val p.z ^ 2 ≤ mDot := by linarith
    exact abs_le_of_sq_sum_le this ht
  · have : val p.z ^ 2 + val p.x ^ 2 + val p.y ^ 2 ≤ mDot := by linarith
    exact abs_le_of_sq_sum_le this ht

theorem dot_val (a b : V3) :
    val a.x * val b.x + val a.y * val b.y + val a.z * val b.z
      = ((ofV3 a).dot (ofV3 b) : ℝ) * (1 / 2 ^ 1074) ^ 2 := by
  unfold IV3.dot ofV3
  simp only [val_eq]
  push_cast
  ring

/-- **Absolute error bound of the float dot product**: `|fl(a·b) − a·b| ≤ 6.04688·2^-53` for squared
    norms ≤ 2 + 2^-6, and the result is finite. -/
theorem float_dot_error (H : StdModel) (a b : V3) (ha : NormLe2 a) (hb : NormLe2 b) :
    Fin (a.dot b) ∧
    |val (a.dot b) - (val a.x * val b.x + val a.y * val b.y + val a.z * val b.z)| ≤ kDot := by
  obtain ⟨hfin, hE⟩ := dotChain_of_stdModel H a b ha.1 hb.1 ha.coord_le hb.coord_le
  refine ⟨hfin, le_trans hE ?_⟩
  have hm0 : 0 ≤ mDot := by unfold mDot; positivity
  have hT : |val a.x * val b.x| + |val a.y * val b.y| + |val a.z * val b.z| ≤ mDot := by
    simp only [abs_mul]
    have hcs := cs3 (val a.x) (val a.y) (val a.z) (val b.x) (val b.y) (val b.z)
    have n0 : 0 ≤ |val a.x| * |val b.x| + |val a.y| * |val b.y| + |val a.z| * |val b.z| := by positivity
    apply le_of_sq_le n0 hm0
    have na : 0 ≤ val a.x ^ 2 + val a.y ^ 2 + val a.z ^ 2 := by positivity
    have nb : 0 ≤ val b.x ^ 2 + val b.y ^ 2 + val b.z ^ 2 := by positivity
    have := mul_le_mul ha.sq_le hb.sq_le nb hm0
    have e : mDot ^ 2 = mDot * mDot := by ring
    linarith
  have hS : |val a.x * val b.x + val a.y * val b.y + val a.z * val b.z| ≤ mDot :=
    le_trans (abs_add_three _ _ _) hT
  have hf0 : 0 ≤ fU uR := by unfold fU; have := uR_nonneg; positivity
  have hg0 : 0 ≤ gU uR := by unfold gU; have := uR_nonneg; positivity
  have k1 := mul_le_mul_of_nonneg_left hS hf0
  have k2 := mul_le_mul_of_nonneg_left hT hg0
  unfold kDot
  linarith

end S2Proofs.FloatErr
