/-
  FloatErr.Sqrt — a LOWER bound for the soft-float square root (what an error bound computed with
  `math.Sqrt` needs): for finite positive `x`, `F64.sqrt x` is finite, non-negative and

      val (sqrt x)² ≥ val x · (1 − 2^-58) · (1 − 2^-53)².

  Only the easy invariant of the Newton iteration `isqrt` is used (`isqrt n ≥ ⌊√n⌋`, any fuel), not its
  exactness.
-/
import Mathlib.Tactic.Zify
import Mathlib.Data.Nat.Sqrt
import S2Proofs.FloatErr.Ops

namespace S2Proofs.FloatErr
open S2 S2.Exact S2Proofs.F64Order S2Proofs.Codec S2Proofs.F64Sym S2Proofs.F64Inj

/-! ### the integer square root -/

theorem newton_step_ge (n x : ℕ) (hx : 0 < x) : n.sqrt ≤ (x + n / x) / 2 := by
  have hs : n.sqrt ^ 2 ≤ n := Nat.sqrt_le' n
  set s := n.sqrt
  have h2 : 2 * n.sqrt ≤ x + n / x := by
    show 2 * s ≤ x + n / x
    by_cases hc : 2 * s ≤ x
    · exact le_trans hc (Nat.le_add_right _ _)
    · have hc' : x < 2 * s := by omega
      generalize hq : n / x = q
      have : 2 * s - x ≤ q := by
        rw [← hq]
        rw [Nat.le_div_iff_mul_le hx]
        have : (2 * s - x) * x ≤ s ^ 2 := by
          zify [hc'.le]
          nlinarith [sq_nonneg ((s : ℤ) - (x : ℤ))]
        omega
      omega
  generalize hq : n / x = q at h2 ⊢
  omega

theorem isqrt_go_ge (n : ℕ) : ∀ fuel x, 0 < x → n.sqrt ≤ x → n.sqrt ≤ F64.isqrt.go n fuel x := by
  intro fuel
  induction fuel with
  | zero => intro x _ h; simpa [F64.isqrt.go] using h
  | succ f ih =>
    intro x hx h
    unfold F64.isqrt.go
    simp only
    split
    · have hy := newton_step_ge n x hx
      by_cases hy0 : 0 < (x + n / x) / 2
      · exact ih _ hy0 hy
      · have : (x + n / x) / 2 = 0 := by omega
        rw [this] at hy ⊢
        have hs0 : n.sqrt = 0 := by omega
        rw [hs0]; exact Nat.zero_le _
    · exact h

theorem isqrt_go_le (n : ℕ) : ∀ fuel x, F64.isqrt.go n fuel x ≤ x := by
  intro fuel
  induction fuel with
  | zero => intro x; simp [F64.isqrt.go]
  | succ f ih =>
    intro x
    unfold F64.isqrt.go
    simp only
    split
    · rename_i h; exact le_trans (ih _) h.le
    · exact le_refl _

theorem x0_gt (n : ℕ) (hn : n ≠ 0) : n < (2 ^ (n.log2 / 2 + 1)) ^ 2 := by
  have h1 : n < 2 ^ (n.log2 + 1) := Nat.lt_log2_self
  have h2 : 2 ^ (n.log2 + 1) ≤ (2 ^ (n.log2 / 2 + 1)) ^ 2 := by
    rw [← pow_mul]
    exact Nat.pow_le_pow_right (by norm_num) (by omega)
  omega

/-- `isqrt n ≥ ⌊√n⌋`, i.e. `n < (isqrt n + 1)²`, and `isqrt n ≤ 2^(log2 n / 2 + 1)` -/
theorem isqrt_bounds (n : ℕ) (hn : 2 ≤ n) :
    n < (F64.isqrt n + 1) ^ 2 ∧ F64.isqrt n ≤ 2 ^ (n.log2 / 2 + 1) := by
  unfold F64.isqrt
  rw [if_neg (by omega)]
  simp only
  refine ⟨?_, isqrt_go_le n 200 _⟩
  have hx0 : n.sqrt ≤ 2 ^ (n.log2 / 2 + 1) := by
    have h1 := x0_gt n (by omega)
    have h2 := Nat.sqrt_le' n
    by_contra hc
    have hc' : 2 ^ (n.log2 / 2 + 1) < n.sqrt := by omega
    have : (2 ^ (n.log2 / 2 + 1)) ^ 2 < n.sqrt ^ 2 := Nat.pow_lt_pow_left hc' (by norm_num)
    omega
  have hge := isqrt_go_ge n 200 _ (Nat.two_pow_pos _) hx0
  have h3 := Nat.lt_succ_sqrt' n
  have : (n.sqrt.succ) ^ 2 ≤ (F64.isqrt.go n 200 (2 ^ (n.log2 / 2 + 1)) + 1) ^ 2 :=
    Nat.pow_le_pow_left (by omega) 2
  omega

/-! ### the float square root -/

theorem mant_lt (x : F64) : x.mant < 2 ^ 53 := by
  have hf : x.fracField < 2 ^ 52 := by rw [fracField_eq]; exact Nat.mod_lt _ (by decide)
  unfold F64.mant
  split <;> omega

theorem expo_le {x : F64} (hx : Fin x) : x.expo ≤ 971 := by
  have he : x.expField < 2 ^ 11 := by rw [expField_eq]; exact Nat.mod_lt _ (by decide)
  unfold F64Order.Fin at hx
  unfold F64.expo
  split <;> omega

theorem tw_two_mul (t : ℤ) : tw (2 * t) = tw t * tw t := by
  rw [two_mul, tw_add]

/-- lower bound for the float square root -/
theorem sqrt_lower (x : F64) (hx : Fin x) (hpos : 0 < val x) :
    Fin (F64.sqrt x) ∧ 0 ≤ val (F64.sqrt x) ∧ val (F64.sqrt x) ≤ 2 ^ 515 ∧
      val x * ((1 - 1 / 2 ^ 58) * (1 - uR) ^ 2) ≤ val (F64.sqrt x) ^ 2 := by
  have hz : x.isZero = false := by
    cases h : x.isZero
    · rfl
    · rw [val_of_isZero h] at hpos; exact absurd hpos (lt_irrefl _)
  have hsb : x.signBit = false := by
    cases h : x.signBit
    · rfl
    · rw [val_mant, h] at hpos
      have : (0 : ℝ) ≤ (x.mant : ℝ) * tw x.expo := mul_nonneg (by positivity) (tw_pos _).le
      unfold sg at hpos
      simp only [if_true] at hpos
      linarith
  have hm1 : 0 < x.mant := mant_pos hz
  have hm2 := mant_lt x
  have he1 := expo_ge x
  have he2 := expo_le hx
  unfold F64.sqrt
  simp only [isNaN_false hx, isInf_false hx, hz, hsb, Bool.false_eq_true, if_false]
  set t : ℤ := (x.expo - 120) / 2 - 1 with ht
  obtain ⟨k, hk⟩ : ∃ k : ℕ, (x.expo - 2 * t).toNat = k := ⟨_, rfl⟩
  rw [hk]
  have hk1 : 122 ≤ k := by omega
  have hk2 : k ≤ 123 := by omega
  have hke : x.expo = (k : ℤ) + 2 * t := by omega
  set M := x.mant * 2 ^ k with hM
  have hMlo : 2 ^ 122 ≤ M := by
    calc 2 ^ 122 ≤ 2 ^ k := Nat.pow_le_pow_right (by norm_num) hk1
      _ ≤ x.mant * 2 ^ k := Nat.le_mul_of_pos_left _ hm1
  have hMhi : M < 2 ^ 176 := by
    calc M < 2 ^ 53 * 2 ^ k := Nat.mul_lt_mul_of_pos_right hm2 (Nat.two_pow_pos _)
      _ ≤ 2 ^ 53 * 2 ^ 123 := Nat.mul_le_mul_left _ (Nat.pow_le_pow_right (by norm_num) hk2)
      _ = 2 ^ 176 := by norm_num
  obtain ⟨hr1, hr2⟩ := isqrt_bounds M (by omega)
  set r := F64.isqrt M with hr
  have hlog : M.log2 < 176 := (Nat.log2_lt (by omega)).2 hMhi
  have hr88 : r ≤ 2 ^ 88 := le_trans hr2 (Nat.pow_le_pow_right (by norm_num) (by omega))
  have hr61 : 2 ^ 61 ≤ r := by
    by_contra hc
    have : r + 1 ≤ 2 ^ 61 := by omega
    have : (r + 1) ^ 2 ≤ (2 ^ 61) ^ 2 := Nat.pow_le_pow_left this 2
    omega
  -- r² ≥ M(1 − 2^-58)
  have hrM : M * (2 ^ 58 - 1) ≤ r * r * 2 ^ 58 := by
    have h1 : M ≤ r * r + 2 * r := by nlinarith
    have h2 : (r * r + 2 * r) * (2 ^ 58 - 1) ≤ r * r * 2 ^ 58 := by
      zify
      push_cast
      have : ((2 : ℤ) ^ 61) ≤ (r : ℤ) := by exact_mod_cast hr61
      nlinarith
    exact le_trans (Nat.mul_le_mul_right _ h1) h2
  set V := 2 * r + (if (r * r == M) = true then 0 else 1) with hV
  have hV1 : 2 * r ≤ V := by rw [hV]; omega
  have hV2 : V ≤ 2 * r + 1 := by rw [hV]; split <;> omega
  have hVpos : 0 < V := by omega
  have hVt : (V : ℝ) * tw (t - 1) ≤ 2 ^ 514 := by
    have h1 : (V : ℝ) ≤ 2 ^ 90 := by
      have : V ≤ 2 ^ 90 := by omega
      exact_mod_cast this
    have h2 : tw (t - 1) ≤ tw 424 := tw_mono (by omega)
    have h3 : tw 424 = 2 ^ 424 := by rw [show (424 : ℤ) = ((424 : ℕ) : ℤ) from rfl, tw_nat]
    have h4 : (V : ℝ) * tw (t - 1) ≤ 2 ^ 90 * 2 ^ 424 := by
      rw [← h3]; exact mul_le_mul h1 h2 (tw_pos _).le (by positivity)
    rw [← pow_add] at h4
    exact h4
  have hmag : (V : ℝ) * tw (t - 1) < 2 ^ 1000 :=
    lt_of_le_of_lt hVt (pow_lt_pow_right₀ (by norm_num) (by norm_num))
  obtain ⟨hf, δ, η, hδ, _, hval, hη⟩ := roundDyadic_spec false V (t - 1) hVpos hmag
  have hη0 := hη (by omega)
  have hu1 : uR ≤ 1 := uR_le_one
  have hδ' := abs_le.mp hδ
  have hvalR : val (F64.roundDyadic false V (t - 1)) = (V : ℝ) * tw (t - 1) * (1 + δ) := by
    rw [hval, hη0]; unfold sg; simp
  refine ⟨hf, ?_, ?_, ?_⟩
  · rw [hvalR]
    exact mul_nonneg (mul_nonneg (by positivity) (tw_pos _).le) (by linarith)
  · rw [hvalR]
    have hnn : 0 ≤ (V : ℝ) * tw (t - 1) := mul_nonneg (by positivity) (tw_pos _).le
    have h2 : (V : ℝ) * tw (t - 1) * (1 + δ) ≤ 2 ^ 514 * 2 :=
      mul_le_mul hVt (by linarith) (by linarith) (by positivity)
    have h3 : (2 : ℝ) ^ 514 * 2 = 2 ^ 515 := (pow_succ 2 514).symm
    rw [h3] at h2
    exact h2
  · rw [hvalR]
    -- val x = M · 2^(2t)
    have hvx : val x = (M : ℝ) * tw (2 * t) := by
      rw [val_mant, hsb, hke, tw_add, tw_nat, hM]
      unfold sg; push_cast; simp; ring
    have htt : tw t = 2 * tw (t - 1) := by
      have : t = (t - 1) + 1 := by ring
      conv_lhs => rw [this]
      rw [tw_succ]
    have hrR : (M : ℝ) * (2 ^ 58 - 1) ≤ (r : ℝ) * r * 2 ^ 58 := by
      have := hrM
      have h' : ((M * (2 ^ 58 - 1) : ℕ) : ℝ) ≤ ((r * r * 2 ^ 58 : ℕ) : ℝ) := by exact_mod_cast this
      push_cast at h'
      norm_num
      linarith
    have hVR : 2 * (r : ℝ) ≤ (V : ℝ) := by exact_mod_cast hV1
    have hr0 : (0 : ℝ) ≤ (r : ℝ) := by positivity
    have ht1 := tw_pos (t - 1)
    -- (V·2^(t−1))² ≥ r²·2^(2t)
    have hsq1 : (r : ℝ) * r * tw (2 * t) ≤ ((V : ℝ) * tw (t - 1)) ^ 2 := by
      rw [tw_two_mul, htt]
      have : (2 * (r : ℝ) * tw (t - 1)) ^ 2 ≤ ((V : ℝ) * tw (t - 1)) ^ 2 :=
        pow_le_pow_left₀ (by positivity) (mul_le_mul_of_nonneg_right hVR ht1.le) 2
      calc (r : ℝ) * r * (2 * tw (t - 1) * (2 * tw (t - 1))) = (2 * (r : ℝ) * tw (t - 1)) ^ 2 := by ring
        _ ≤ _ := this
    have hsq2 : (1 - uR) ^ 2 ≤ (1 + δ) ^ 2 :=
      pow_le_pow_left₀ (by linarith) (by linarith) 2
    have h58 : (M : ℝ) * (1 - 1 / 2 ^ 58) ≤ (r : ℝ) * r := by
      have : (M : ℝ) * (1 - 1 / 2 ^ 58) = (M : ℝ) * (2 ^ 58 - 1) / 2 ^ 58 := by field_simp
      rw [this, div_le_iff₀ (by positivity)]
      exact hrR
    have t2 := tw_pos (2 * t)
    calc val x * ((1 - 1 / 2 ^ 58) * (1 - uR) ^ 2)
        = ((M : ℝ) * (1 - 1 / 2 ^ 58)) * tw (2 * t) * (1 - uR) ^ 2 := by rw [hvx]; ring
      _ ≤ ((r : ℝ) * r) * tw (2 * t) * (1 - uR) ^ 2 := by
          apply mul_le_mul_of_nonneg_right _ (by positivity)
          exact mul_le_mul_of_nonneg_right h58 t2.le
      _ ≤ ((V : ℝ) * tw (t - 1)) ^ 2 * (1 - uR) ^ 2 :=
          mul_le_mul_of_nonneg_right hsq1 (by positivity)
      _ ≤ ((V : ℝ) * tw (t - 1)) ^ 2 * (1 + δ) ^ 2 :=
          mul_le_mul_of_nonneg_left hsq2 (by positivity)
      _ = ((V : ℝ) * tw (t - 1) * (1 + δ)) ^ 2 := by ring

end S2Proofs.FloatErr
