/-
  FloatErr.Stable — glue for `stableSign`: float chains for `fl(P−O)`, `fl(O−Q)`, the determinant, the squared
  norms, their product, the square root and the computed error bound.
-/
import Mathlib.Analysis.Real.Sqrt
import S2Proofs.FloatErr.Triage
import S2Proofs.FloatErr.Ops
import S2Proofs.FloatErr.Sqrt
import S2Proofs.FloatErr.StableErr

namespace S2Proofs.FloatErr
open S2 S2.Exact S2.Pred S2Proofs.F64Order S2Proofs.PredLemmas S2Proofs.F64Sym

theorem uR_le_quarter : uR ≤ 1 / 4 := by unfold uR; norm_num

section steps
variable (H : StdModel)
include H

theorem sub_step5 {x y : F64} (hx : Fin x) (hy : Fin y) (mx : |val x| ≤ 2) (my : |val y| ≤ 2) :
    Fin (x - y) ∧ Rnd uR 0 (val x - val y) (val (x - y)) ∧ |val (x - y)| ≤ 5 := by
  have m : |val x - val y| ≤ 4 := by have := abs_sub (val x) (val y); linarith
  obtain ⟨f, r, _⟩ := sub_step H hx hy m (by norm_num)
  refine ⟨f, r, ?_⟩
  have h1 := r.abs_le
  have h2 : uR * |val x - val y| ≤ 1 / 4 * 4 :=
    mul_le_mul uR_le_quarter m (abs_nonneg _) (by norm_num)
  linarith

theorem cross_step5 {a b a' b' : F64} (ha : Fin a) (hb : Fin b) (ha' : Fin a') (hb' : Fin b')
    (ma : |val a| ≤ 5) (mb : |val b| ≤ 5) (ma' : |val a'| ≤ 5) (mb' : |val b'| ≤ 5) :
    Fin (a * b - a' * b') ∧ |val (a * b - a' * b')| ≤ 205 ∧
    Rnd uR eR (val a * val b) (val (a * b)) ∧ Rnd uR eR (val a' * val b') (val (a' * b')) ∧
    Rnd uR 0 (val (a * b) - val (a' * b')) (val (a * b - a' * b')) := by
  have m1 : |val a * val b| ≤ 25 := by have := abs_mul_le_of ma mb; linarith
  have m2 : |val a' * val b'| ≤ 25 := by have := abs_mul_le_of ma' mb'; linarith
  obtain ⟨f1, r1, g1⟩ := mul_step H ha hb m1 (by norm_num)
  obtain ⟨f2, r2, g2⟩ := mul_step H ha' hb' m2 (by norm_num)
  have m3 : |val (a * b) - val (a' * b')| ≤ 102 := by
    have := abs_sub (val (a * b)) (val (a' * b')); linarith
  obtain ⟨f3, r3, g3⟩ := sub_step H f1 f2 m3 (by norm_num)
  exact ⟨f3, by linarith, r1, r2, r3⟩

theorem detChain5 (x y o : V3) (hx : Fin3 x) (hy : Fin3 y) (ho : Fin3 o)
    (mx : |val x.x| ≤ 5 ∧ |val x.y| ≤ 5 ∧ |val x.z| ≤ 5)
    (my : |val y.x| ≤ 5 ∧ |val y.y| ≤ 5 ∧ |val y.z| ≤ 5)
    (mo : |val o.x| ≤ 2 ∧ |val o.y| ≤ 2 ∧ |val o.z| ≤ 2) :
    Fin ((x.cross y).dot o) ∧
    DetChain uR eR (val x.x) (val x.y) (val x.z) (val y.x) (val y.y) (val y.z)
      (val o.x) (val o.y) (val o.z) (val ((x.cross y).dot o)) := by
  obtain ⟨ha1, ha2, ha3⟩ := hx
  obtain ⟨hb1, hb2, hb3⟩ := hy
  obtain ⟨hc1, hc2, hc3⟩ := ho
  obtain ⟨ma1, ma2, ma3⟩ := mx
  obtain ⟨mb1, mb2, mb3⟩ := my
  obtain ⟨mc1, mc2, mc3⟩ := mo
  obtain ⟨fx1, gx1, r23, r32, rx1⟩ := cross_step5 H ha2 hb3 ha3 hb2 ma2 mb3 ma3 mb2
  obtain ⟨fx2, gx2, r31, r13, rx2⟩ := cross_step5 H ha3 hb1 ha1 hb3 ma3 mb1 ma1 mb3
  obtain ⟨fx3, gx3, r12, r21, rx3⟩ := cross_step5 H ha1 hb2 ha2 hb1 ma1 mb2 ma2 mb1
  have m1 : |val (x.y * y.z - x.z * y.y) * val o.x| ≤ 410 := by
    have := abs_mul_le_of gx1 mc1; linarith
  have m2 : |val (x.z * y.x - x.x * y.z) * val o.y| ≤ 410 := by
    have := abs_mul_le_of gx2 mc2; linarith
  have m3 : |val (x.x * y.y - x.y * y.x) * val o.z| ≤ 410 := by
    have := abs_mul_le_of gx3 mc3; linarith
  obtain ⟨fq1, rq1, gq1⟩ := mul_step H fx1 hc1 m1 (by norm_num)
  obtain ⟨fq2, rq2, gq2⟩ := mul_step H fx2 hc2 m2 (by norm_num)
  obtain ⟨fq3, rq3, gq3⟩ := mul_step H fx3 hc3 m3 (by norm_num)
  have ms : |val ((x.y * y.z - x.z * y.y) * o.x) + val ((x.z * y.x - x.x * y.z) * o.y)| ≤ 1642 := by
    have := abs_add_le (val ((x.y * y.z - x.z * y.y) * o.x)) (val ((x.z * y.x - x.x * y.z) * o.y))
    linarith
  obtain ⟨fs, rs, gs⟩ := add_step H fq1 fq2 ms (by norm_num)
  have md : |val ((x.y * y.z - x.z * y.y) * o.x + (x.z * y.x - x.x * y.z) * o.y)
      + val ((x.x * y.y - x.y * y.x) * o.z)| ≤ 4106 := by
    have := abs_add_le (val ((x.y * y.z - x.z * y.y) * o.x + (x.z * y.x - x.x * y.z) * o.y))
      (val ((x.x * y.y - x.y * y.x) * o.z))
    linarith
  obtain ⟨fd, rd, _⟩ := add_step H fs fq3 md (by norm_num)
  refine ⟨fd, ⟨⟨_, _, _, _, _, _, _, _, _, _, _, _, _,
    r23, r32, rx1, r31, r13, rx2, r12, r21, rx3, rq1, rq2, rq3, rs, rd⟩⟩⟩

/-- the float squared norm of a vector with coordinates bounded by 5 -/
theorem norm2_step (x : V3) (hx : Fin3 x) (mx : |val x.x| ≤ 5 ∧ |val x.y| ≤ 5 ∧ |val x.z| ≤ 5) :
    Fin x.norm2 ∧
    |val x.norm2 - (val x.x * val x.x + val x.y * val x.y + val x.z * val x.z)|
      ≤ rhoU uR * (val x.x * val x.x + val x.y * val x.y + val x.z * val x.z) + 4 * eR ∧
    0 ≤ val x.x * val x.x + val x.y * val x.y + val x.z * val x.z ∧
    val x.x * val x.x + val x.y * val x.y + val x.z * val x.z ≤ 80 := by
  obtain ⟨h1, h2, h3⟩ := hx
  obtain ⟨m1, m2, m3⟩ := mx
  have p1 : |val x.x * val x.x| ≤ 25 := by have := abs_mul_le_of m1 m1; linarith
  have p2 : |val x.y * val x.y| ≤ 25 := by have := abs_mul_le_of m2 m2; linarith
  have p3 : |val x.z * val x.z| ≤ 25 := by have := abs_mul_le_of m3 m3; linarith
  obtain ⟨fq1, rq1, gq1⟩ := mul_step H h1 h1 p1 (by norm_num)
  obtain ⟨fq2, rq2, gq2⟩ := mul_step H h2 h2 p2 (by norm_num)
  obtain ⟨fq3, rq3, gq3⟩ := mul_step H h3 h3 p3 (by norm_num)
  have ms : |val (x.x * x.x) + val (x.y * x.y)| ≤ 102 := by
    have := abs_add_le (val (x.x * x.x)) (val (x.y * x.y)); linarith
  obtain ⟨fs, rs, gs⟩ := add_step H fq1 fq2 ms (by norm_num)
  have md : |val (x.x * x.x + x.y * x.y) + val (x.z * x.z)| ≤ 256 := by
    have := abs_add_le (val (x.x * x.x + x.y * x.y)) (val (x.z * x.z)); linarith
  obtain ⟨fd, rd, _⟩ := add_step H fs fq3 md (by norm_num)
  have hd := dot3 uR_nonneg eR_nonneg rq1 rq2 rq3 rs rd
  have n1 := mul_self_nonneg (val x.x)
  have n2 := mul_self_nonneg (val x.y)
  have n3 := mul_self_nonneg (val x.z)
  rw [abs_of_nonneg n1, abs_of_nonneg n2, abs_of_nonneg n3,
    abs_of_nonneg (by linarith : 0 ≤ val x.x * val x.x + val x.y * val x.y + val x.z * val x.z)] at hd
  have hh : (1 + uR) * (3 + 2 * uR) ≤ 4 := by unfold uR; norm_num
  have hhe := mul_le_mul_of_nonneg_right hh eR_nonneg
  have a1 := le_abs_self (val x.x * val x.x)
  have a2 := le_abs_self (val x.y * val x.y)
  have a3 := le_abs_self (val x.z * val x.z)
  refine ⟨fd, ?_, by linarith, by linarith⟩
  unfold rhoU fU gU
  show |val (x.x * x.x + x.y * x.y + x.z * x.z) - _| ≤ _
  linarith

end steps

/-! ### constants -/

theorem dem_facts : Fin detErrorMultiplier ∧ 64641 / 10000 * uR ≤ val detErrorMultiplier ∧
    val detErrorMultiplier ≤ 1 := by
  have h : Fin detErrorMultiplier ∧ (64641 : ℤ) * 2 ^ 1074 ≤ toInt detErrorMultiplier * (10000 * 2 ^ 53) ∧
      toInt detErrorMultiplier ≤ 2 ^ 1074 := by decide +kernel
  obtain ⟨h1, h2, h3⟩ := h
  have h2' : (64641 : ℝ) * 2 ^ 1074 ≤ (toInt detErrorMultiplier : ℝ) * (10000 * 2 ^ 53) := by exact_mod_cast h2
  have h3' : (toInt detErrorMultiplier : ℝ) ≤ 2 ^ 1074 := by exact_mod_cast h3
  refine ⟨h1, ?_, ?_⟩
  · unfold val uR
    rw [div_mul_div_comm, div_le_div_iff₀ (by positivity) (by positivity)]
    linarith
  · unfold val
    rw [div_le_one (by positivity)]
    exact h3'

theorem minStable_facts : Fin minStableSignNorm2Product ∧
    val minStableSignNorm2Product = 2 ^ 74 / 2 ^ 1074 := by
  have h : Fin minStableSignNorm2Product ∧ toInt minStableSignNorm2Product = 2 ^ 74 := by decide +kernel
  refine ⟨h.1, ?_⟩
  unfold val; rw [h.2]; norm_num

/-- the abstract parameters of `maxErr_ge`: `e = 2^-1075`, `G = 2^-1000`, `Gs = 2^-501` -/
theorem guard_facts :
    eR ≤ 1 / 16 ∧ eR * 2 ^ 74 ≤ (2 : ℝ) ^ 74 / 2 ^ 1074 ∧ (0 : ℝ) ≤ 2 ^ 36 / 2 ^ 537 ∧
    ((2 : ℝ) ^ 36 / 2 ^ 537) ^ 2 * 4 ≤ 2 ^ 74 / 2 ^ 1074 ∧ eR * (21 * 2 ^ 55) ≤ (2 : ℝ) ^ 36 / 2 ^ 537 ∧
    (0 : ℝ) < 2 ^ 74 / 2 ^ 1074 := by
  have hX : (2 : ℝ) ^ 1074 = (2 ^ 537) ^ 2 := by rw [← pow_mul]
  have h75 : (2 : ℝ) ^ 1075 = (2 ^ 537) ^ 2 * 2 := by rw [← hX]; exact pow_succ 2 1074
  have hY : (2 : ℝ) ^ 23 ≤ 2 ^ 537 := pow_le_pow_right₀ (by norm_num) (by norm_num)
  unfold eR
  rw [hX, h75]
  generalize (2 : ℝ) ^ 537 = Y at hY
  have hY0 : 0 < Y := lt_of_lt_of_le (by norm_num) hY
  refine ⟨?_, ?_, by positivity, ?_, ?_, by positivity⟩
  · rw [div_le_div_iff₀ (by positivity) (by norm_num)]
    nlinarith
  · rw [div_mul_eq_mul_div, one_mul, div_le_div_iff₀ (by positivity) (by positivity)]
    nlinarith [sq_nonneg Y]
  · rw [div_pow, div_mul_eq_mul_div, div_le_div_iff₀ (by positivity) (by positivity)]
    have : ((2 : ℝ) ^ 36) ^ 2 * 4 = 2 ^ 74 := by norm_num
    rw [this]
  · rw [div_mul_eq_mul_div, one_mul, div_le_div_iff₀ (by positivity) (by positivity)]
    have h1 : (21 * 2 ^ 55 : ℝ) ≤ 2 ^ 36 * 2 * 2 ^ 23 := by norm_num
    have h2 : (2 : ℝ) ^ 36 * 2 * 2 ^ 23 ≤ 2 ^ 36 * 2 * Y := mul_le_mul_of_nonneg_left hY (by norm_num)
    have h3 := mul_le_mul_of_nonneg_right (le_trans h1 h2) hY0.le
    nlinarith

/-- the first-order constant: `(5/2 + 6/√3)(1+2^-17) ≤ 5.97`, and the underflow coefficient -/
theorem stable_consts :
    ((gU uR + (1 + fU uR + gU uR) * uR)
      + ((1 + fU uR + gU uR) * (uR * (1 + uR)) + (1 + fU uR) * pU uR) * betaR) * (1 + 1 / 2 ^ 17)
      ≤ 597 / 100 * (1 / 2 ^ 53) ∧
    (1 + fU uR + gU uR) * (2 * (1 + uR)) * 6 + hU uR ≤ 20 := by
  unfold fU gU hU pU uR betaR
  constructor <;> norm_num

theorem fU_nn : 0 ≤ fU uR := by unfold fU; have := uR_nonneg; positivity
theorem gU_nn : 0 ≤ gU uR := by unfold gU; have := uR_nonneg; positivity
theorem hU_nn : 0 ≤ hU uR := by unfold hU; have := uR_nonneg; positivity
theorem pU_nn : 0 ≤ pU uR := by unfold pU; have := uR_nonneg; positivity
theorem rhoU_nn : 0 ≤ rhoU uR := by unfold rhoU; have := fU_nn; have := gU_nn; positivity
theorem cA_nn : 0 ≤ gU uR + (1 + fU uR + gU uR) * uR := by
  have := fU_nn; have := gU_nn; have := uR_nonneg; positivity
theorem cB_nn : 0 ≤ (1 + fU uR + gU uR) * (uR * (1 + uR)) + (1 + fU uR) * pU uR := by
  have := fU_nn; have := gU_nn; have := uR_nonneg; have := pU_nn; positivity
theorem cC_nn : 0 ≤ (1 + fU uR + gU uR) * (2 * (1 + uR)) := by
  have := fU_nn; have := gU_nn; have := uR_nonneg; positivity

theorem detR_shift (p1 p2 p3 q1 q2 q3 o1 o2 o3 : ℝ) :
    detR (p1 - o1) (p2 - o2) (p3 - o3) (o1 - q1) (o2 - q2) (o3 - q3) o1 o2 o3
      = - detR p1 p2 p3 q1 q2 q3 o1 o2 o3 := by
  unfold detR; ring

/-- the three quantities computed by `stableSign` for the vertex order (P, Q, O): the two shortest edges are
    `P − O` and `O − Q` -/
def stableGen (P Q O : V3) : F64 × F64 × F64 :=
  (-(((P.sub O).cross (O.sub Q)).dot O),
   detErrorMultiplier * F64.sqrt ((P.sub O).norm2 * (O.sub Q).norm2),
   (P.sub O).norm2 * (O.sub Q).norm2)

theorem stableGen_sound (H : StdModel) (P Q O : V3) (hP : NormLe P) (hQ : NormLe Q) (hO : NormLe O)
    (hg : F64.lt (stableGen P Q O).2.2 minStableSignNorm2Product = false) :
    threshold (stableGen P Q O).1 (stableGen P Q O).2.1 = 0 ∨
    threshold (stableGen P Q O).1 (stableGen P Q O).2.1 = sgn (det3 (ofV3 P) (ofV3 Q) (ofV3 O)) := by
  obtain ⟨cP1, cP2, cP3⟩ := hP.coord_le
  obtain ⟨cQ1, cQ2, cQ3⟩ := hQ.coord_le
  obtain ⟨cO1, cO2, cO3⟩ := hO.coord_le
  obtain ⟨fP1, fP2, fP3⟩ := hP.1
  obtain ⟨fQ1, fQ2, fQ3⟩ := hQ.1
  obtain ⟨fO1, fO2, fO3⟩ := hO.1
  -- the edges
  obtain ⟨fx1, rx1, mx1⟩ := sub_step5 H fP1 fO1 cP1 cO1
  obtain ⟨fx2, rx2, mx2⟩ := sub_step5 H fP2 fO2 cP2 cO2
  obtain ⟨fx3, rx3, mx3⟩ := sub_step5 H fP3 fO3 cP3 cO3
  obtain ⟨fy1, ry1, my1⟩ := sub_step5 H fO1 fQ1 cO1 cQ1
  obtain ⟨fy2, ry2, my2⟩ := sub_step5 H fO2 fQ2 cO2 cQ2
  obtain ⟨fy3, ry3, my3⟩ := sub_step5 H fO3 fQ3 cO3 cQ3
  have hFx : Fin3 (P.sub O) := ⟨fx1, fx2, fx3⟩
  have hFy : Fin3 (O.sub Q) := ⟨fy1, fy2, fy3⟩
  have hMx : |val (P.sub O).x| ≤ 5 ∧ |val (P.sub O).y| ≤ 5 ∧ |val (P.sub O).z| ≤ 5 := ⟨mx1, mx2, mx3⟩
  have hMy : |val (O.sub Q).x| ≤ 5 ∧ |val (O.sub Q).y| ≤ 5 ∧ |val (O.sub Q).z| ≤ 5 := ⟨my1, my2, my3⟩
  -- the determinant
  obtain ⟨fdch, hch⟩ := detChain5 H (P.sub O) (O.sub Q) O hFx hFy hO.1 hMx hMy hO.coord_le
  have hu2 : uR ≤ 1 / 2 := le_trans uR_le_quarter (by norm_num)
  have hE := stable_det_error uR_nonneg hu2 eR_nonneg
    (show Rnd uR 0 (val P.x - val O.x) (val (P.sub O).x) from rx1)
    (show Rnd uR 0 (val P.y - val O.y) (val (P.sub O).y) from rx2)
    (show Rnd uR 0 (val P.z - val O.z) (val (P.sub O).z) from rx3)
    (show Rnd uR 0 (val O.x - val Q.x) (val (O.sub Q).x) from ry1)
    (show Rnd uR 0 (val O.y - val Q.y) (val (O.sub Q).y) from ry2)
    (show Rnd uR 0 (val O.z - val Q.z) (val (O.sub Q).z) from ry3) hch
  -- the squared norms, their product, the guard
  obtain ⟨fn1, hn1, N1nn, N1le⟩ := norm2_step H (P.sub O) hFx hMx
  obtain ⟨fn2, hn2, N2nn, N2le⟩ := norm2_step H (O.sub Q) hFy hMy
  set x1 := val (P.sub O).x
  set x2 := val (P.sub O).y
  set x3 := val (P.sub O).z
  set y1 := val (O.sub Q).x
  set y2 := val (O.sub Q).y
  set y3 := val (O.sub Q).z
  set N1 := x1 * x1 + x2 * x2 + x3 * x3 with hN1
  set N2 := y1 * y1 + y2 * y2 + y3 * y3 with hN2
  have hρ1 : rhoU uR ≤ 1 / 2 ^ 51 := by unfold rhoU fU gU uR; norm_num
  have hρ0 : 0 ≤ rhoU uR := rhoU_nn
  obtain ⟨g1, g2, g3, g4, g5, g6⟩ := guard_facts
  have kn1 : |val (P.sub O).norm2| ≤ 81 := by
    have := abs_sub_abs_le_abs_sub (val (P.sub O).norm2) N1
    rw [abs_of_nonneg N1nn] at this
    have h1 : rhoU uR * N1 ≤ 1 / 2 ^ 51 * N1 := mul_le_mul_of_nonneg_right hρ1 N1nn
    linarith
  have kn2 : |val (O.sub Q).norm2| ≤ 81 := by
    have := abs_sub_abs_le_abs_sub (val (O.sub Q).norm2) N2
    rw [abs_of_nonneg N2nn] at this
    have h1 : rhoU uR * N2 ≤ 1 / 2 ^ 51 * N2 := mul_le_mul_of_nonneg_right hρ1 N2nn
    linarith
  have kp : |val (P.sub O).norm2 * val (O.sub Q).norm2| ≤ 81 * 81 := abs_mul_le_of kn1 kn2
  obtain ⟨fp, rp, _⟩ := mul_step H fn1 fn2 kp (by norm_num)
  obtain ⟨fmin, vmin⟩ := minStable_facts
  have hG : (2 : ℝ) ^ 74 / 2 ^ 1074 ≤ val ((P.sub O).norm2 * (O.sub Q).norm2) := by
    rw [← vmin]
    have hnlt : ¬ (toInt ((P.sub O).norm2 * (O.sub Q).norm2) < toInt minStableSignNorm2Product) := by
      intro hlt
      have := (lt_iff fp fmin).mpr hlt
      have hg' : F64.lt ((P.sub O).norm2 * (O.sub Q).norm2) minStableSignNorm2Product = false := hg
      rw [this] at hg'
      exact absurd hg' (by decide)
    have := not_lt.mp hnlt
    unfold val
    rw [div_le_div_iff_of_pos_right (by positivity)]
    exact_mod_cast this
  -- the square root and the computed bound
  obtain ⟨fsq, s0, sup, hsq⟩ := sqrt_lower ((P.sub O).norm2 * (O.sub Q).norm2) fp (lt_of_lt_of_le g6 hG)
  obtain ⟨fdem, demlo, demhi⟩ := dem_facts
  have hdem0 : 0 ≤ val detErrorMultiplier := le_trans (mul_nonneg (by norm_num) uR_nonneg) demlo
  have hov : |val detErrorMultiplier * val (F64.sqrt ((P.sub O).norm2 * (O.sub Q).norm2))| < 2 ^ 1000 := by
    rw [abs_of_nonneg (mul_nonneg hdem0 s0)]
    have h1 : val detErrorMultiplier * val (F64.sqrt ((P.sub O).norm2 * (O.sub Q).norm2)) ≤ 1 * 2 ^ 515 :=
      mul_le_mul demhi sup s0 (by norm_num)
    have h2 : (1 : ℝ) * 2 ^ 515 < 2 ^ 1000 := by
      rw [one_mul]; exact pow_lt_pow_right₀ (by norm_num) (by norm_num)
    exact lt_of_le_of_lt h1 h2
  obtain ⟨fmE, rmE⟩ := mul_step_raw H fdem fsq hov
  -- Z = |e1||e2|
  have hZ0 : 0 ≤ Real.sqrt (N1 * N2) := Real.sqrt_nonneg _
  have hZ2 : Real.sqrt (N1 * N2) ^ 2 = N1 * N2 := Real.sq_sqrt (mul_nonneg N1nn N2nn)
  set Z := Real.sqrt (N1 * N2)
  have hmE := maxErr_ge eR_nonneg g1 g2 g3 g4 g5 N1nn N1le N2nn N2le
    (by unfold uR at hn1; exact hn1) (by unfold uR at hn2; exact hn2)
    (by unfold Rnd uR at rp; exact rp) hG s0 (by unfold uR at hsq; exact hsq)
    (by unfold Rnd uR at rmE; exact rmE) hZ0 hZ2 (by unfold uR at demlo; exact demlo)
  -- A ≤ Zμ, B ≤ βZμ
  have hμ : (0 : ℝ) ≤ 1 + 1 / 2 ^ 17 := by norm_num
  have hW0 : 0 ≤ Z * (1 + 1 / 2 ^ 17) := mul_nonneg hZ0 hμ
  have hNo := hO.sq_le
  have hnorm : (x1 ^ 2 + x2 ^ 2 + x3 ^ 2) * (y1 ^ 2 + y2 ^ 2 + y3 ^ 2)
      * (val O.x ^ 2 + val O.y ^ 2 + val O.z ^ 2) ≤ (Z * (1 + 1 / 2 ^ 17)) ^ 2 := by
    have e1 : x1 ^ 2 + x2 ^ 2 + x3 ^ 2 = N1 := by rw [hN1]; ring
    have e2 : y1 ^ 2 + y2 ^ 2 + y3 ^ 2 = N2 := by rw [hN2]; ring
    rw [e1, e2, mul_pow, hZ2]
    have hm : 1 + tauR ≤ (1 + 1 / 2 ^ 17 : ℝ) ^ 2 := by unfold tauR; norm_num
    exact mul_le_mul_of_nonneg_left (le_trans hNo hm) (mul_nonneg N1nn N2nn)
  have hA := sumA_le_gen hW0 hnorm
  have hβ : 0 ≤ betaR := by unfold betaR; positivity
  have hB := sumB_le_gen hW0 hβ beta_sq hnorm
  have hC : |val O.x| + |val O.y| + |val O.z| ≤ 6 := by linarith
  obtain ⟨sc1, sc2⟩ := stable_consts
  -- K ≤ maxErr
  have hf0 : 0 ≤ fU uR := fU_nn
  have hg0 : 0 ≤ gU uR := gU_nn
  have hh0 : 0 ≤ hU uR := hU_nn
  have hp0 : 0 ≤ pU uR := pU_nn
  have hu0 := uR_nonneg
  have k1 := mul_le_mul_of_nonneg_left hA cA_nn
  have k2 := mul_le_mul_of_nonneg_left hB
    cB_nn
  have k3 : ((1 + fU uR + gU uR) * (2 * (1 + uR)) * (|val O.x| + |val O.y| + |val O.z|) + hU uR) * eR
      ≤ 20 * eR := by
    apply mul_le_mul_of_nonneg_right _ eR_nonneg
    have : (1 + fU uR + gU uR) * (2 * (1 + uR)) * (|val O.x| + |val O.y| + |val O.z|)
        ≤ (1 + fU uR + gU uR) * (2 * (1 + uR)) * 6 := mul_le_mul_of_nonneg_left hC cC_nn
    linarith
  have k4 := mul_le_mul_of_nonneg_right sc1 hZ0
  rw [detR_shift] at hE
  set dch := val (((P.sub O).cross (O.sub Q)).dot O)
  set T := detR (val P.x) (val P.y) (val P.z) (val Q.x) (val Q.y) (val Q.z) (val O.x) (val O.y) (val O.z)
  set mEv := val (detErrorMultiplier * F64.sqrt ((P.sub O).norm2 * (O.sub Q).norm2))
  have hbound : |dch - (-T)| ≤ fU uR * |(-T)| + mEv := by
    have e5 : ((gU uR + (1 + fU uR + gU uR) * uR)
        + ((1 + fU uR + gU uR) * (uR * (1 + uR)) + (1 + fU uR) * pU uR) * betaR) * (1 + 1 / 2 ^ 17) * Z
        = (gU uR + (1 + fU uR + gU uR) * uR) * (Z * (1 + 1 / 2 ^ 17))
          + ((1 + fU uR + gU uR) * (uR * (1 + uR)) + (1 + fU uR) * pU uR) * (betaR * (Z * (1 + 1 / 2 ^ 17))) := by
      ring
    linarith
  obtain ⟨hpos, hneg⟩ := sign_of_error_bound fU_lt_one hbound (le_refl _)
  -- the decision
  have fd : Fin (-(((P.sub O).cross (O.sub Q)).dot O)) := (isFinite_neg _).mpr fdch
  have vd : val (-(((P.sub O).cross (O.sub Q)).dot O)) = -dch := val_neg _
  have fnm : Fin (-(detErrorMultiplier * F64.sqrt ((P.sub O).norm2 * (O.sub Q).norm2))) :=
    (isFinite_neg _).mpr fmE
  have vnm : val (-(detErrorMultiplier * F64.sqrt ((P.sub O).norm2 * (O.sub Q).norm2))) = -mEv := val_neg _
  show threshold (-(((P.sub O).cross (O.sub Q)).dot O))
        (detErrorMultiplier * F64.sqrt ((P.sub O).norm2 * (O.sub Q).norm2)) = 0 ∨
      threshold (-(((P.sub O).cross (O.sub Q)).dot O))
        (detErrorMultiplier * F64.sqrt ((P.sub O).norm2 * (O.sub Q).norm2)) = _
  unfold threshold
  split
  · rename_i h
    have h' := (val_lt_iff _ _).mpr ((gt_iff fd fmE).mp h)
    rw [vd] at h'
    have hT := hneg (by linarith)
    right
    rw [sgn_of_pos ((det_pos_iff P Q O).mp (by linarith))]
  · split
    · rename_i _ h
      have h' := (val_lt_iff _ _).mpr ((lt_iff fd fnm).mp h)
      rw [vd, vnm] at h'
      have hT := hpos (by linarith)
      right
      rw [sgn_of_neg ((det_neg_iff P Q O).mp (by linarith))]
    · left; rfl

end S2Proofs.FloatErr
