/-
  FloatErr.Triage — glue between the soft-float `triageSign` and the real-analysis core:
  the float determinant `(a.cross b).dot c` is a `DetChain` (given `StdModel`), the exact real
  determinant is `det3 / 2^(3·1074)`, and the numeric check `K ≤ val maxDeterminantError`.
-/
import S2Proofs.FloatErr.StdModel
import S2Proofs.PredLemmas

namespace S2Proofs.FloatErr
open S2 S2.Exact S2.Pred S2Proofs.F64Order S2Proofs.PredLemmas

/-! ### the float determinant is a `DetChain` -/

theorem abs_mul_le_of {x y X Y : ℝ} (hx : |x| ≤ X) (hy : |y| ≤ Y) : |x * y| ≤ X * Y := by
  rw [abs_mul]
  exact mul_le_mul hx hy (abs_nonneg _) (le_trans (abs_nonneg _) hx)

theorem detChain_of_stdModel (H : StdModel) (a b c : V3) (ha : Fin3 a) (hb : Fin3 b) (hc : Fin3 c)
    (ma : |val a.x| ≤ 2 ∧ |val a.y| ≤ 2 ∧ |val a.z| ≤ 2)
    (mb : |val b.x| ≤ 2 ∧ |val b.y| ≤ 2 ∧ |val b.z| ≤ 2)
    (mc : |val c.x| ≤ 2 ∧ |val c.y| ≤ 2 ∧ |val c.z| ≤ 2) :
    Fin ((a.cross b).dot c) ∧
    DetChain uR eR (val a.x) (val a.y) (val a.z) (val b.x) (val b.y) (val b.z)
      (val c.x) (val c.y) (val c.z) (val ((a.cross b).dot c)) := by
  obtain ⟨ha1, ha2, ha3⟩ := ha
  obtain ⟨hb1, hb2, hb3⟩ := hb
  obtain ⟨hc1, hc2, hc3⟩ := hc
  obtain ⟨ma1, ma2, ma3⟩ := ma
  obtain ⟨mb1, mb2, mb3⟩ := mb
  obtain ⟨mc1, mc2, mc3⟩ := mc
  obtain ⟨fx1, gx1, r23, r32, rx1⟩ := cross_step H ha2 hb3 ha3 hb2 ma2 mb3 ma3 mb2
  obtain ⟨fx2, gx2, r31, r13, rx2⟩ := cross_step H ha3 hb1 ha1 hb3 ma3 mb1 ma1 mb3
  obtain ⟨fx3, gx3, r12, r21, rx3⟩ := cross_step H ha1 hb2 ha2 hb1 ma1 mb2 ma2 mb1
  have m1 : |val (a.y * b.z - a.z * b.y) * val c.x| ≤ 74 := by
    have := abs_mul_le_of gx1 mc1; linarith
  have m2 : |val (a.z * b.x - a.x * b.z) * val c.y| ≤ 74 := by
    have := abs_mul_le_of gx2 mc2; linarith
  have m3 : |val (a.x * b.y - a.y * b.x) * val c.z| ≤ 74 := by
    have := abs_mul_le_of gx3 mc3; linarith
  obtain ⟨fq1, rq1, gq1⟩ := mul_step H fx1 hc1 m1 (by norm_num)
  obtain ⟨fq2, rq2, gq2⟩ := mul_step H fx2 hc2 m2 (by norm_num)
  obtain ⟨fq3, rq3, gq3⟩ := mul_step H fx3 hc3 m3 (by norm_num)
  have ms : |val ((a.y * b.z - a.z * b.y) * c.x) + val ((a.z * b.x - a.x * b.z) * c.y)| ≤ 298 := by
    have := abs_add_le (val ((a.y * b.z - a.z * b.y) * c.x)) (val ((a.z * b.x - a.x * b.z) * c.y))
    linarith
  obtain ⟨fs, rs, gs⟩ := add_step H fq1 fq2 ms (by norm_num)
  have md : |val ((a.y * b.z - a.z * b.y) * c.x + (a.z * b.x - a.x * b.z) * c.y)
      + val ((a.x * b.y - a.y * b.x) * c.z)| ≤ 746 := by
    have := abs_add_le (val ((a.y * b.z - a.z * b.y) * c.x + (a.z * b.x - a.x * b.z) * c.y))
      (val ((a.x * b.y - a.y * b.x) * c.z))
    linarith
  obtain ⟨fd, rd, _⟩ := add_step H fs fq3 md (by norm_num)
  refine ⟨fd, ⟨⟨_, _, _, _, _, _, _, _, _, _, _, _, _,
    r23, r32, rx1, r31, r13, rx2, r12, r21, rx3, rq1, rq2, rq3, rs, rd⟩⟩⟩

/-! ### exact values -/

/-- the integer squared norm at scale `2^(2·1074)` -/
def norm2I (p : V3) : ℤ := (ofV3 p).norm2

theorem val_eq (x : F64) : val x = (toInt x : ℝ) * (1 / 2 ^ 1074) := by
  unfold val; ring

theorem scale_cast : ((scale : ℕ) : ℝ) = 2 ^ 1074 := by
  unfold scale; push_cast; rfl

theorem norm2_val (p : V3) :
    val p.x ^ 2 + val p.y ^ 2 + val p.z ^ 2 = (norm2I p : ℝ) * (1 / 2 ^ 1074) ^ 2 := by
  unfold norm2I IV3.norm2 IV3.dot ofV3
  simp only [val_eq]
  push_cast
  ring

theorem det_val (a b c : V3) :
    detR (val a.x) (val a.y) (val a.z) (val b.x) (val b.y) (val b.z) (val c.x) (val c.y) (val c.z)
      = (det3 (ofV3 a) (ofV3 b) (ofV3 c) : ℝ) * (1 / 2 ^ 1074) ^ 3 := by
  unfold detR det3 IV3.dot IV3.cross ofV3
  simp only [val_eq]
  push_cast
  ring

theorem det_pos_iff (a b c : V3) :
    0 < detR (val a.x) (val a.y) (val a.z) (val b.x) (val b.y) (val b.z) (val c.x) (val c.y) (val c.z)
      ↔ 0 < det3 (ofV3 a) (ofV3 b) (ofV3 c) := by
  rw [det_val]
  have hp : (0 : ℝ) < (1 / 2 ^ 1074) ^ 3 := by positivity
  rw [mul_pos_iff_of_pos_right hp]
  exact Int.cast_pos

theorem det_neg_iff (a b c : V3) :
    detR (val a.x) (val a.y) (val a.z) (val b.x) (val b.y) (val b.z) (val c.x) (val c.y) (val c.z) < 0
      ↔ det3 (ofV3 a) (ofV3 b) (ofV3 c) < 0 := by
  rw [det_val]
  have hp : (0 : ℝ) < (1 / 2 ^ 1074) ^ 3 := by positivity
  constructor
  · intro h
    have : (det3 (ofV3 a) (ofV3 b) (ofV3 c) : ℝ) < 0 := by
      by_contra hn
      have hn := not_lt.mp hn
      have := mul_nonneg hn hp.le
      linarith
    exact_mod_cast this
  · intro h
    have : (det3 (ofV3 a) (ofV3 b) (ofV3 c) : ℝ) < 0 := by exact_mod_cast h
    exact mul_neg_of_neg_of_pos this hp

theorem val_lt_iff (x y : F64) : val x < val y ↔ toInt x < toInt y := by
  unfold val
  rw [div_lt_div_iff_of_pos_right (by positivity)]
  exact Int.cast_lt

/-! ### the tolerance on the squared norm and the numeric check -/

/-- tolerance on the squared norm: `2^-16` -/
noncomputable def tauR : ℝ := 1 / 2 ^ 16
/-- bound on `|a||b||c|`: `N = 1 + (3/2)τ + τ²`, `N² ≥ (1+τ)³` -/
noncomputable def nR : ℝ := 1 + 3 / 2 * tauR + tauR ^ 2
/-- rational upper bound of `2/√3 = 1.1547005383792515…` -/
noncomputable def betaR : ℝ := 115470053838 / 100000000000

theorem tau_cube : (1 + tauR) ^ 3 ≤ nR ^ 2 := by
  unfold nR tauR; norm_num

theorem beta_sq : (4 : ℝ) / 3 ≤ betaR ^ 2 := by
  unfold betaR; norm_num

/-- the rigorous absolute part of the error bound (everything except the term proportional to |det|) for
    squared norms ≤ 1 + 2^-16:  `K = 3.654784…·2^-53`, below `3.654799·2^-53 ≤ maxDeterminantError`. -/
noncomputable def kR : ℝ :=
  (gU uR + (1 + fU uR + gU uR) * uR) * nR + (1 + fU uR + gU uR) * (uR * (1 + uR)) * (betaR * nR)
    + ((1 + fU uR + gU uR) * (2 * (1 + uR)) * 6 + hU uR) * eR

set_option exponentiation.threshold 1100 in
theorem kR_le : kR ≤ 3654785 / 1000000 * uR := by
  unfold kR fU gU hU nR tauR betaR uR eR
  norm_num

theorem fU_lt_one : fU uR < 1 := by
  unfold fU uR; norm_num

/-- `3.654799·2^-53 ≤ maxDeterminantError` (the float constant, exact value) -/
theorem mde_ge : 3654799 / 1000000 * uR ≤ val maxDeterminantError := by
  have h : (3654799 : ℤ) * 2 ^ 1074 ≤ toInt maxDeterminantError * (1000000 * 2 ^ 53) := by decide +kernel
  have h' : (3654799 : ℝ) * 2 ^ 1074 ≤ (toInt maxDeterminantError : ℝ) * (1000000 * 2 ^ 53) := by
    exact_mod_cast h
  unfold val uR
  rw [div_mul_div_comm, div_le_div_iff₀ (by positivity) (by positivity)]
  linarith

/-- `maxDeterminantError < 3.6548·2^-53`: the slack above the rigorous constant is tiny -/
theorem mde_le : val maxDeterminantError ≤ 36548 / 10000 * uR := by
  have h : toInt maxDeterminantError * (10000 * 2 ^ 53) ≤ (36548 : ℤ) * 2 ^ 1074 := by decide +kernel
  have h' : (toInt maxDeterminantError : ℝ) * (10000 * 2 ^ 53) ≤ (36548 : ℝ) * 2 ^ 1074 := by
    exact_mod_cast h
  unfold val uR
  rw [div_mul_div_comm, div_le_div_iff₀ (by positivity) (by positivity)]
  linarith

/-! ### the error bound for float vectors -/

/-- finite coordinates and exact squared norm at most `1 + 2^-16` (NO lower bound is needed) -/
def NormLe (p : V3) : Prop := Fin3 p ∧ (norm2I p - (scale : ℤ) ^ 2) * 2 ^ 16 ≤ (scale : ℤ) ^ 2

instance (p : V3) : Decidable (NormLe p) := by unfold NormLe; infer_instance

theorem NormLe.sq_le {p : V3} (h : NormLe p) : val p.x ^ 2 + val p.y ^ 2 + val p.z ^ 2 ≤ 1 + tauR := by
  rw [norm2_val]
  have h2 : ((norm2I p : ℝ) - (2 ^ 1074) ^ 2) * 2 ^ 16 ≤ (2 ^ 1074) ^ 2 := by
    have := h.2
    have h3 : (((norm2I p - (scale : ℤ) ^ 2) * 2 ^ 16 : ℤ) : ℝ) ≤ (((scale : ℤ) ^ 2 : ℤ) : ℝ) :=
      Int.cast_le.mpr this
    push_cast at h3
    rw [scale_cast] at h3
    have e16 : (2 : ℝ) ^ 16 = 65536 := by norm_num
    rw [e16]
    exact h3
  unfold tauR
  have hS : (0 : ℝ) < (2 ^ 1074) ^ 2 := by positivity
  have e1 : (norm2I p : ℝ) * (1 / 2 ^ 1074) ^ 2 = (norm2I p : ℝ) / (2 ^ 1074) ^ 2 := by
    rw [one_div, inv_pow]; rfl
  rw [e1, div_le_iff₀ hS]
  have : (norm2I p : ℝ) * 2 ^ 16 ≤ (2 ^ 1074) ^ 2 * 2 ^ 16 + (2 ^ 1074) ^ 2 := by linarith
  have e2 : (1 + 1 / (2 : ℝ) ^ 16) * (2 ^ 1074) ^ 2 = ((2 ^ 1074) ^ 2 * 2 ^ 16 + (2 ^ 1074) ^ 2) / 2 ^ 16 := by
    field_simp
  rw [e2, le_div_iff₀ (by positivity)]
  exact this

theorem NormLe.coord_le {p : V3} (h : NormLe p) : |val p.x| ≤ 2 ∧ |val p.y| ≤ 2 ∧ |val p.z| ≤ 2 := by
  have h1 := h.sq_le
  have ht : 1 + tauR ≤ 4 := by unfold tauR; norm_num
  refine ⟨abs_le_of_sq_sum_le h1 ht, ?_, ?_⟩
  · have : val p.y ^ 2 + val p.x ^ 2 + val p.z ^ 2 ≤ 1 + tauR := by linarith
    exact abs_le_of_sq_sum_le this ht
  · have : val p.z ^ 2 + val p.x ^ 2 + val p.y ^ 2 ≤ 1 + tauR := by linarith
    exact abs_le_of_sq_sum_le this ht

/-- **The rigorous error bound of the float determinant** for vectors of squared norm ≤ 1 + 2^-16:
    `|fl((a×b)·c) − (a×b)·c| ≤ f·|(a×b)·c| + K`, `f = 1.5·2^-53·(1+2^-53/3)`, `K ≤ 3.654785·2^-53`. -/
theorem float_det_error (H : StdModel) (a b c : V3) (ha : NormLe a) (hb : NormLe b) (hc : NormLe c) :
    Fin ((a.cross b).dot c) ∧
    |val ((a.cross b).dot c)
        - detR (val a.x) (val a.y) (val a.z) (val b.x) (val b.y) (val b.z) (val c.x) (val c.y) (val c.z)|
      ≤ fU uR *
        |detR (val a.x) (val a.y) (val a.z) (val b.x) (val b.y) (val b.z) (val c.x) (val c.y) (val c.z)|
        + kR := by
  obtain ⟨hfin, hch⟩ := detChain_of_stdModel H a b c ha.1 hb.1 hc.1 ha.coord_le hb.coord_le hc.coord_le
  refine ⟨hfin, ?_⟩
  have hE := det_error uR_nonneg eR_nonneg hch
  have hN : 0 ≤ nR := by unfold nR tauR; positivity
  have hβ : 0 ≤ betaR := by unfold betaR; positivity
  have hA := sumA_le hN ha.sq_le hb.sq_le hc.sq_le tau_cube
  have hB := sumB_le hN hβ beta_sq ha.sq_le hb.sq_le hc.sq_le tau_cube
  obtain ⟨c1, c2, c3⟩ := hc.coord_le
  have hC : |val c.x| + |val c.y| + |val c.z| ≤ 6 := by linarith
  have hu := uR_nonneg
  have hf0 : 0 ≤ fU uR := by unfold fU; positivity
  have hg0 : 0 ≤ gU uR := by unfold gU; positivity
  have hh0 : 0 ≤ hU uR := by unfold hU; positivity
  have k1 : (gU uR + (1 + fU uR + gU uR) * uR)
        * sumA (val a.x) (val a.y) (val a.z) (val b.x) (val b.y) (val b.z) (val c.x) (val c.y) (val c.z)
      ≤ (gU uR + (1 + fU uR + gU uR) * uR) * nR :=
    mul_le_mul_of_nonneg_left hA (by positivity)
  have k2 : (1 + fU uR + gU uR) * (uR * (1 + uR))
        * sumB (val a.x) (val a.y) (val a.z) (val b.x) (val b.y) (val b.z) (val c.x) (val c.y) (val c.z)
      ≤ (1 + fU uR + gU uR) * (uR * (1 + uR)) * (betaR * nR) :=
    mul_le_mul_of_nonneg_left hB (by positivity)
  have k3 : ((1 + fU uR + gU uR) * (2 * (1 + uR)) * (|val c.x| + |val c.y| + |val c.z|) + hU uR) * eR
      ≤ ((1 + fU uR + gU uR) * (2 * (1 + uR)) * 6 + hU uR) * eR := by
    apply mul_le_mul_of_nonneg_right _ eR_nonneg
    have : (1 + fU uR + gU uR) * (2 * (1 + uR)) * (|val c.x| + |val c.y| + |val c.z|)
        ≤ (1 + fU uR + gU uR) * (2 * (1 + uR)) * 6 := mul_le_mul_of_nonneg_left hC (by positivity)
    linarith
  unfold kR
  linarith

/-! ### the decision -/

theorem sgn_of_pos {x : ℤ} (h : 0 < x) : sgn x = 1 := sgn_pos h
theorem sgn_of_neg {x : ℤ} (h : x < 0) : sgn x = -1 := sgn_neg' h

/-- `triageSign` never contradicts the exact determinant sign, for all finite vectors of squared norm at most
    `1 + 2^-16`, given the standard model of the soft-float operations. -/
theorem triageSign_sound_normLe (H : StdModel) (a b c : V3) (ha : NormLe a) (hb : NormLe b) (hc : NormLe c) :
    triageSign a b c = 0 ∨ triageSign a b c = detSign a b c := by
  obtain ⟨hfin, hE⟩ := float_det_error H a b c ha hb hc
  have hK : kR ≤ val maxDeterminantError :=
    le_trans kR_le (le_trans (by have := uR_nonneg; nlinarith) mde_ge)
  obtain ⟨hpos, hneg⟩ := sign_of_error_bound fU_lt_one hE hK
  obtain ⟨h1, h2, h3⟩ := maxDeterminantError_facts
  unfold triageSign threshold detSign
  split
  · rename_i h
    have h' := (gt_iff hfin h1).mp h
    have hd := hpos ((val_lt_iff _ _).mpr h')
    right
    rw [sgn_of_pos ((det_pos_iff a b c).mp hd)]
  · split
    · rename_i h
      have h' := (lt_iff hfin h2).mp h
      rw [h3] at h'
      have hv : val ((a.cross b).dot c) < -val maxDeterminantError := by
        unfold val
        rw [← neg_div, div_lt_div_iff_of_pos_right (by positivity)]
        exact_mod_cast h'
      have hd := hneg hv
      right
      rw [sgn_of_neg ((det_neg_iff a b c).mp hd)]
    · left; rfl

end S2Proofs.FloatErr
