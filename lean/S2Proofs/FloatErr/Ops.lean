/-
  FloatErr.Ops — `StdModel` PROVED: `F64.mul`, `F64.add`, `F64.sub` of finite operands whose exact result
  is below 2^1000 in magnitude are finite and correctly rounded (from `roundNE_spec`).
-/
import S2Proofs.FloatErr.RoundNE

namespace S2Proofs.FloatErr
open S2 S2.Exact S2Proofs.F64Order S2Proofs.Codec S2Proofs.F64Sym S2Proofs.F64Inj

/-- the real sign factor of a sign bit -/
noncomputable def sg (s : Bool) : ℝ := if s then -1 else 1

theorem sg_abs (s : Bool) : |sg s| = 1 := by cases s <;> simp [sg]
theorem sg_mul_self (s : Bool) : sg s * sg s = 1 := by cases s <;> simp [sg]
theorem sg_xor (a b : Bool) : sg (a != b) = sg a * sg b := by cases a <;> cases b <;> simp [sg]

/-! ### `roundDyadic` -/

theorem roundDyadic_spec (s : Bool) (m : ℕ) (e : ℤ) (hm : 0 < m) (hv : (m : ℝ) * tw e < 2 ^ 1000) :
    Fin (F64.roundDyadic s m e) ∧ ∃ δ η : ℝ, |δ| ≤ uR ∧ |η| ≤ eR ∧
      val (F64.roundDyadic s m e) = sg s * ((m : ℝ) * tw e * (1 + δ) + η) ∧ (-1074 ≤ e → η = 0) := by
  unfold F64.roundDyadic sg
  by_cases he : e ≥ 0
  · obtain ⟨k, rfl⟩ := Int.eq_ofNat_of_zero_le he
    rw [if_pos he]
    simp only [Int.toNat_natCast]
    have hval : ((m * 2 ^ k : ℕ) : ℝ) / ((1 : ℕ) : ℝ) = (m : ℝ) * tw (k : ℤ) := by
      rw [tw_nat]; push_cast; ring
    obtain ⟨hf, δ, η, h1, h2, h3, h4⟩ := roundNE_spec s (m * 2 ^ k) 1
      (Nat.mul_pos hm (Nat.two_pow_pos _)) (by norm_num) (by rw [hval]; exact hv)
    rw [hval] at h3
    exact ⟨hf, δ, η, h1, h2, h3, fun _ => h4 (one_dvd _)⟩
  · obtain ⟨k, rfl⟩ : ∃ k : ℕ, e = -(k : ℤ) := ⟨(-e).toNat, by omega⟩
    rw [if_neg he]
    simp only [Int.neg_neg, Int.toNat_natCast]
    have hval : ((m : ℕ) : ℝ) / ((2 ^ k : ℕ) : ℝ) = (m : ℝ) * tw (-(k : ℤ)) := by
      rw [tw_neg, tw_nat]; push_cast; ring
    obtain ⟨hf, δ, η, h1, h2, h3, h4⟩ := roundNE_spec s m (2 ^ k) hm (Nat.two_pow_pos _)
      (by rw [hval]; exact hv)
    rw [hval] at h3
    refine ⟨hf, δ, η, h1, h2, h3, fun hk => h4 ?_⟩
    exact Dvd.dvd.mul_left (Nat.pow_dvd_pow 2 (by omega)) m

/-! ### the exact value of a finite float -/

theorem tw_toNat {a : ℤ} (h : 0 ≤ a) : ((2 : ℝ) ^ a.toNat) = tw a := by
  obtain ⟨k, rfl⟩ := Int.eq_ofNat_of_zero_le h
  rw [Int.toNat_natCast, tw_nat]

/-- `val x = toIntAt x e · 2^e` for every common exponent `-1074 ≤ e ≤ expo x` -/
theorem val_toIntAt (x : F64) (e : ℤ) (he : e ≤ x.expo) (he' : -1074 ≤ e) :
    val x = (x.toIntAt e : ℝ) * tw e := by
  unfold val toInt
  rw [toIntAt_scale x e he he']
  push_cast
  rw [tw_toNat (by omega)]
  have : tw (e + 1074) = tw e * 2 ^ 1074 := by
    rw [tw_add, show (1074 : ℤ) = ((1074 : ℕ) : ℤ) from rfl, tw_nat]
  rw [this]
  field_simp

theorem val_mant (x : F64) : val x = sg x.signBit * (x.mant : ℝ) * tw x.expo := by
  rw [val_toIntAt x x.expo (le_refl _) (expo_ge x)]
  unfold F64.toIntAt sg
  simp only [sub_self, Int.toNat_zero, pow_zero, mul_one]
  cases x.signBit <;> simp

theorem mant_pos {x : F64} (h : x.isZero = false) : 0 < x.mant := by
  unfold F64.isZero at h
  unfold F64.mant
  by_cases he : x.expField = 0
  · have hf : x.fracField ≠ 0 := by
      intro hf; simp [he, hf] at h
    simp [he]; omega
  · have : (x.expField == 0) = false := by simp [he]
    simp only [this]; simp

theorem val_of_isZero {x : F64} (h : x.isZero = true) : val x = 0 := by
  unfold F64.isZero at h
  simp only [Bool.and_eq_true, beq_iff_eq] at h
  rw [val_mant]
  unfold F64.mant
  simp [h.1, h.2]

theorem zero_val (s : Bool) : Fin (F64.zero s) ∧ val (F64.zero s) = 0 := by
  have : ∀ s, Fin (F64.zero s) ∧ toInt (F64.zero s) = 0 := by decide
  refine ⟨(this s).1, ?_⟩
  unfold val; rw [(this s).2]; simp

/-! ### multiplication -/

theorem mul_std (x y : F64) (hx : Fin x) (hy : Fin y) (hv : |val x * val y| < 2 ^ 1000) :
    ∃ δ η : ℝ, |δ| ≤ uR ∧ |η| ≤ eR ∧ val (F64.mul x y) = val x * val y * (1 + δ) + η ∧ Fin (F64.mul x y) := by
  unfold F64.mul
  simp only [isNaN_false hx, isNaN_false hy, isInf_false hx, isInf_false hy, Bool.or_self,
    Bool.false_eq_true, if_false]
  by_cases hz : (x.isZero || y.isZero) = true
  · rw [if_pos hz]
    have h0 : val x * val y = 0 := by
      rcases Bool.or_eq_true _ _ ▸ hz with h | h
      · rw [val_of_isZero h, zero_mul]
      · rw [val_of_isZero h, mul_zero]
    obtain ⟨zf, zv⟩ := zero_val (x.signBit != y.signBit)
    exact ⟨0, 0, by simp [uR_nonneg], by simp [eR_nonneg], by rw [zv, h0]; ring, zf⟩
  · rw [if_neg hz]
    have hzx : x.isZero = false := by
      cases h : x.isZero <;> simp_all
    have hzy : y.isZero = false := by
      cases h : y.isZero <;> simp_all
    have hprod : val x * val y
        = sg (x.signBit != y.signBit) * (((x.mant * y.mant : ℕ) : ℝ) * tw (x.expo + y.expo)) := by
      rw [val_mant x, val_mant y, sg_xor, tw_add]; push_cast; ring
    have hmag : ((x.mant * y.mant : ℕ) : ℝ) * tw (x.expo + y.expo) < 2 ^ 1000 := by
      have hnn : 0 ≤ ((x.mant * y.mant : ℕ) : ℝ) * tw (x.expo + y.expo) :=
        mul_nonneg (by positivity) (tw_pos _).le
      rw [hprod, abs_mul, sg_abs, one_mul, abs_of_nonneg hnn] at hv
      exact hv
    obtain ⟨hf, δ, η, h1, h2, h3, _⟩ := roundDyadic_spec (x.signBit != y.signBit) (x.mant * y.mant)
      (x.expo + y.expo) (Nat.mul_pos (mant_pos hzx) (mant_pos hzy)) hmag
    refine ⟨δ, sg (x.signBit != y.signBit) * η, h1, ?_, ?_, hf⟩
    · rw [abs_mul, sg_abs, one_mul]; exact h2
    · rw [h3, hprod]; ring

/-! ### addition -/

theorem add_std (x y : F64) (hx : Fin x) (hy : Fin y) (hv : |val x + val y| < 2 ^ 1000) :
    ∃ δ : ℝ, |δ| ≤ uR ∧ val (F64.add x y) = (val x + val y) * (1 + δ) ∧ Fin (F64.add x y) := by
  unfold F64.add
  simp only [isNaN_false hx, isNaN_false hy, isInf_false hx, isInf_false hy, Bool.or_self,
    Bool.false_eq_true, if_false]
  by_cases hz : (x.isZero && y.isZero) = true
  · rw [if_pos hz]
    rw [Bool.and_eq_true] at hz
    obtain ⟨zf, zv⟩ := zero_val (x.signBit && y.signBit)
    exact ⟨0, by simp [uR_nonneg], by rw [zv, val_of_isZero hz.1, val_of_isZero hz.2]; ring, zf⟩
  · rw [if_neg hz]
    have e1 := expo_ge x
    have e2 := expo_ge y
    have hmin1 : min x.expo y.expo ≤ x.expo := min_le_left _ _
    have hmin2 : min x.expo y.expo ≤ y.expo := min_le_right _ _
    have hmin3 : -1074 ≤ min x.expo y.expo := le_min e1 e2
    have hsum : val x + val y
        = ((x.toIntAt (min x.expo y.expo) + y.toIntAt (min x.expo y.expo) : ℤ) : ℝ) * tw (min x.expo y.expo) := by
      rw [val_toIntAt x _ hmin1 hmin3, val_toIntAt y _ hmin2 hmin3]; push_cast; ring
    set e := min x.expo y.expo with he
    set s : ℤ := x.toIntAt e + y.toIntAt e with hs
    by_cases hs0 : s = 0
    · have : (s == 0) = true := by simp [hs0]
      rw [if_pos this]
      obtain ⟨zf, zv⟩ := zero_val false
      exact ⟨0, by simp [uR_nonneg], by rw [zv, hsum, hs0]; simp, zf⟩
    · have : (s == 0) = false := by simp [hs0]
      rw [if_neg (by simp [this])]
      have hsabs : ((s.natAbs : ℕ) : ℝ) = |(s : ℝ)| := by
        rw [← Int.cast_abs, Int.abs_eq_natAbs]; simp
      have hmag : ((s.natAbs : ℕ) : ℝ) * tw e < 2 ^ 1000 := by
        rw [hsum, abs_mul, abs_of_pos (tw_pos e)] at hv
        rw [hsabs]; exact hv
      obtain ⟨hf, δ, η, h1, _, h3, h4⟩ := roundDyadic_spec (decide (s < 0)) s.natAbs e
        (Int.natAbs_pos.mpr hs0) hmag
      have hη := h4 hmin3
      refine ⟨δ, h1, ?_, hf⟩
      rw [h3, hη, hsum, hsabs]
      have hsg : sg (decide (s < 0)) * |(s : ℝ)| = (s : ℝ) := by
        unfold sg
        by_cases hneg : s < 0
        · have : (s : ℝ) < 0 := by exact_mod_cast hneg
          simp [hneg, abs_of_neg this]
        · have : (0 : ℝ) ≤ (s : ℝ) := by exact_mod_cast (not_lt.mp hneg)
          simp [hneg, abs_of_nonneg this]
      calc sg (decide (s < 0)) * (|(s : ℝ)| * tw e * (1 + δ) + 0)
          = (sg (decide (s < 0)) * |(s : ℝ)|) * tw e * (1 + δ) := by ring
        _ = (s : ℝ) * tw e * (1 + δ) := by rw [hsg]

/-! ### subtraction -/

theorem sub_std (x y : F64) (hx : Fin x) (hy : Fin y) (hv : |val x - val y| < 2 ^ 1000) :
    ∃ δ : ℝ, |δ| ≤ uR ∧ val (F64.sub x y) = (val x - val y) * (1 + δ) ∧ Fin (F64.sub x y) := by
  unfold F64.sub
  have hny : Fin (F64.neg y) := (isFinite_neg y).mpr hy
  have hvn : val (F64.neg y) = - val y := val_neg y
  obtain ⟨δ, h1, h2, h3⟩ := add_std x (F64.neg y) hx hny (by rw [hvn]; simpa [sub_eq_add_neg] using hv)
  refine ⟨δ, h1, ?_, h3⟩
  rw [h2, hvn]; ring

/-- **The standard model holds for the soft-float** (no hypothesis). -/
theorem stdModel : StdModel := ⟨mul_std, add_std, sub_std⟩

end S2Proofs.FloatErr
