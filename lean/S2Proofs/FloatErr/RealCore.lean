/-
  FloatErr.RealCore — the real-analysis core of the error analysis of `triageSign`
  (pure ℝ, no floats).  This is where the constant lives.

  One rounding step is abstracted as

      Rnd u e x y  :=  |y − x| ≤ u·|x| + e        (y = fl(x); u relative, e absolute/underflow error)

  The float determinant is
      p_jk = fl(a_j·b_k)                    (6 products, Rnd u e)
      x_i  = fl(p_jk − p_kj)                (3 differences, Rnd u 0)
      q_i  = fl(x_i·c_i)                    (3 products, Rnd u e)
      s    = fl(q_1 + q_2),  d = fl(s + q_3) (2 sums, Rnd u 0)
  and `det_error` bounds `|d − (a×b)·c|` by

      f·|det| + (g + (1+f+g)·u)·A + (1+f+g)·u(1+u)·B + ((1+f+g)·2(1+u)·C + h)·e

  with f = u(3/2 + u/2), g = u(1+u)(3/2+u), h = (1+u)(3+2u),
       A = Σ|X_i c_i|, B = Σ(|a_j b_k|+|a_k b_j|)|c_i|, C = Σ|c_i|    (X = a×b exact).
  To first order:  (3/2)u·|det| + (5/2)u·A + u·B;  A ≤ |a||b||c|,  B ≤ (2/√3)|a||b||c|.
  The term proportional to |det| cannot change the sign (`sign_of_error_bound`).
-/
import Mathlib.Tactic.Ring
import Mathlib.Tactic.Linarith
import Mathlib.Tactic.Positivity
import Mathlib.Tactic.NormNum
import Mathlib.Data.Real.Basic

namespace S2Proofs.FloatErr

/-- `y` is `x` rounded: relative error at most `u`, plus an absolute error at most `e` -/
def Rnd (u e x y : ℝ) : Prop := |y - x| ≤ u * |x| + e

theorem Rnd.abs_le {u e x y : ℝ} (h : Rnd u e x y) : |y| ≤ (1 + u) * |x| + e := by
  unfold Rnd at h
  have := abs_sub_abs_le_abs_sub y x
  linarith

/-! ### one component of the cross product -/

theorem cross_comp {u e ab ab' p p' x : ℝ} (hu : 0 ≤ u)
    (h1 : Rnd u e ab p) (h2 : Rnd u e ab' p') (h3 : Rnd u 0 (p - p') x) :
    |x - (ab - ab')| ≤ u * |ab - ab'| + u * (1 + u) * (|ab| + |ab'|) + 2 * (1 + u) * e := by
  unfold Rnd at h1 h2 h3
  -- w = p − p'
  have hw : |(p - p') - (ab - ab')| ≤ u * (|ab| + |ab'|) + 2 * e := by
    have e1 : (p - p') - (ab - ab') = (p - ab) - (p' - ab') := by ring
    rw [e1]
    have := abs_sub (p - ab) (p' - ab')
    linarith
  have hw2 : |p - p'| ≤ |ab - ab'| + (u * (|ab| + |ab'|) + 2 * e) := by
    have := abs_sub_abs_le_abs_sub (p - p') (ab - ab')
    linarith
  have hx : |x - (ab - ab')| ≤ |x - (p - p')| + |(p - p') - (ab - ab')| := abs_sub_le _ _ _
  have hm : u * |p - p'| ≤ u * (|ab - ab'| + (u * (|ab| + |ab'|) + 2 * e)) :=
    mul_le_mul_of_nonneg_left hw2 hu
  have e2 : u * (|ab - ab'| + (u * (|ab| + |ab'|) + 2 * e)) + (u * (|ab| + |ab'|) + 2 * e)
      = u * |ab - ab'| + u * (1 + u) * (|ab| + |ab'|) + 2 * (1 + u) * e := by ring
  linarith

/-! ### the three-term dot product, evaluated as `fl(fl(q1 + q2) + q3)` -/

theorem half_sum_le (t1 t2 t3 : ℝ) :
    2 * |t1 + t2| ≤ |t1 + t2 + t3| + (|t1| + |t2| + |t3|) := by
  have h1 : |t1 + t2| ≤ |t1| + |t2| := abs_add_le _ _
  have h2 : |t1 + t2| ≤ |t1 + t2 + t3| + |t3| := by
    have e : t1 + t2 = (t1 + t2 + t3) - t3 := by ring
    have := abs_sub (t1 + t2 + t3) t3
    rw [← e] at this
    exact this
  linarith

theorem dot3 {u e t1 t2 t3 q1 q2 q3 s d : ℝ} (hu : 0 ≤ u) (he : 0 ≤ e)
    (h1 : Rnd u e t1 q1) (h2 : Rnd u e t2 q2) (h3 : Rnd u e t3 q3)
    (hs : Rnd u 0 (q1 + q2) s) (hd : Rnd u 0 (s + q3) d) :
    |d - (t1 + t2 + t3)| ≤ u * (3 / 2 + u / 2) * |t1 + t2 + t3|
        + u * (1 + u) * (3 / 2 + u) * (|t1| + |t2| + |t3|) + (1 + u) * (3 + 2 * u) * e := by
  unfold Rnd at h1 h2 h3 hs hd
  simp only [add_zero] at hs hd
  have a1 := abs_nonneg t1
  have a2 := abs_nonneg t2
  have a3 := abs_nonneg t3
  set S := t1 + t2 + t3 with hS
  set T := |t1| + |t2| + |t3| with hT
  -- R = (q1+q2+q3) − S
  have hR : |(q1 + q2 + q3) - S| ≤ u * T + 3 * e := by
    have e1 : (q1 + q2 + q3) - S = (q1 - t1) + (q2 - t2) + (q3 - t3) := by rw [hS]; ring
    rw [e1]
    have := abs_add_three (q1 - t1) (q2 - t2) (q3 - t3)
    have e2 : u * T = u * |t1| + u * |t2| + u * |t3| := by rw [hT]; ring
    linarith
  -- Q = q1 + q2
  have hQ : |q1 + q2| ≤ |t1 + t2| + (u * (|t1| + |t2|) + 2 * e) := by
    have e1 : q1 + q2 = (t1 + t2) + ((q1 - t1) + (q2 - t2)) := by ring
    have := abs_add_le (t1 + t2) ((q1 - t1) + (q2 - t2))
    have := abs_add_le (q1 - t1) (q2 - t2)
    rw [e1]
    have e2 : u * (|t1| + |t2|) = u * |t1| + u * |t2| := by ring
    linarith
  have hhalf := half_sum_le t1 t2 t3
  rw [← hS, ← hT] at hhalf
  have hQ2 : |q1 + q2| ≤ (1 / 2) * |S| + (1 / 2 + u) * T + 2 * e := by
    have : u * (|t1| + |t2|) ≤ u * T := by
      apply mul_le_mul_of_nonneg_left _ hu
      rw [hT]; linarith
    have e2 : (1 / 2 + u) * T = (1 / 2) * T + u * T := by ring
    linarith
  have hQu : u * |q1 + q2| ≤ u * ((1 / 2) * |S| + (1 / 2 + u) * T + 2 * e) :=
    mul_le_mul_of_nonneg_left hQ2 hu
  -- |s + q3| ≤ |S| + |R| + |s − Q|
  have hsq : |s + q3| ≤ |S| + (u * T + 3 * e) + u * |q1 + q2| := by
    have e1 : s + q3 = S + (((q1 + q2 + q3) - S) + (s - (q1 + q2))) := by ring
    have := abs_add_le S (((q1 + q2 + q3) - S) + (s - (q1 + q2)))
    have := abs_add_le ((q1 + q2 + q3) - S) (s - (q1 + q2))
    rw [e1]
    linarith
  have hsqu : u * |s + q3| ≤ u * (|S| + (u * T + 3 * e) + u * |q1 + q2|) :=
    mul_le_mul_of_nonneg_left hsq hu
  have hu2 : u * (u * |q1 + q2|) ≤ u * (u * ((1 / 2) * |S| + (1 / 2 + u) * T + 2 * e)) :=
    mul_le_mul_of_nonneg_left hQu hu
  -- total
  have htot : |d - S| ≤ |d - (s + q3)| + |s - (q1 + q2)| + |(q1 + q2 + q3) - S| := by
    have e1 : d - S = (d - (s + q3)) + (s - (q1 + q2)) + ((q1 + q2 + q3) - S) := by ring
    rw [e1]
    exact abs_add_three _ _ _
  have hue : 0 ≤ u * e := mul_nonneg hu he
  have huue : 0 ≤ u * u * e := mul_nonneg (mul_nonneg hu hu) he
  have efin : u * (|S| + (u * T + 3 * e) + u * ((1 / 2) * |S| + (1 / 2 + u) * T + 2 * e))
        + u * ((1 / 2) * |S| + (1 / 2 + u) * T + 2 * e) + (u * T + 3 * e)
      = u * (3 / 2 + u / 2) * |S| + u * (1 + u) * (3 / 2 + u) * T + (1 + u) * (3 + 2 * u) * e
         := by ring
  have e3 : u * (|S| + (u * T + 3 * e) + u * |q1 + q2|)
      = u * (|S| + (u * T + 3 * e)) + u * (u * |q1 + q2|) := by ring
  have e4 : u * (|S| + (u * T + 3 * e) + u * ((1 / 2) * |S| + (1 / 2 + u) * T + 2 * e))
      = u * (|S| + (u * T + 3 * e)) + u * (u * ((1 / 2) * |S| + (1 / 2 + u) * T + 2 * e)) := by ring
  linarith

/-! ### the whole determinant -/

/-- the float evaluation of `(a × b) · c`, as a chain of rounding steps -/
structure DetChain (u e : ℝ) (a1 a2 a3 b1 b2 b3 c1 c2 c3 d : ℝ) : Prop where
  ex : ∃ p23 p32 p31 p13 p12 p21 x1 x2 x3 q1 q2 q3 s : ℝ,
    Rnd u e (a2 * b3) p23 ∧ Rnd u e (a3 * b2) p32 ∧ Rnd u 0 (p23 - p32) x1 ∧
    Rnd u e (a3 * b1) p31 ∧ Rnd u e (a1 * b3) p13 ∧ Rnd u 0 (p31 - p13) x2 ∧
    Rnd u e (a1 * b2) p12 ∧ Rnd u e (a2 * b1) p21 ∧ Rnd u 0 (p12 - p21) x3 ∧
    Rnd u e (x1 * c1) q1 ∧ Rnd u e (x2 * c2) q2 ∧ Rnd u e (x3 * c3) q3 ∧
    Rnd u 0 (q1 + q2) s ∧ Rnd u 0 (s + q3) d

/-- exact determinant `(a × b) · c` -/
def detR (a1 a2 a3 b1 b2 b3 c1 c2 c3 : ℝ) : ℝ :=
  (a2 * b3 - a3 * b2) * c1 + (a3 * b1 - a1 * b3) * c2 + (a1 * b2 - a2 * b1) * c3

/-- `A = Σ |X_i c_i|` -/
def sumA (a1 a2 a3 b1 b2 b3 c1 c2 c3 : ℝ) : ℝ :=
  |a2 * b3 - a3 * b2| * |c1| + |a3 * b1 - a1 * b3| * |c2| + |a1 * b2 - a2 * b1| * |c3|

/-- `B = Σ (|a_j b_k| + |a_k b_j|) |c_i|` -/
def sumB (a1 a2 a3 b1 b2 b3 c1 c2 c3 : ℝ) : ℝ :=
  (|a2 * b3| + |a3 * b2|) * |c1| + (|a3 * b1| + |a1 * b3|) * |c2| + (|a1 * b2| + |a2 * b1|) * |c3|

noncomputable def fU (u : ℝ) : ℝ := u * (3 / 2 + u / 2)
noncomputable def gU (u : ℝ) : ℝ := u * (1 + u) * (3 / 2 + u)
def hU (u : ℝ) : ℝ := (1 + u) * (3 + 2 * u)

theorem comp_mul {u e X P D c : ℝ} (h : |D - X| ≤ u * |X| + u * (1 + u) * P + 2 * (1 + u) * e) :
    |D * c - X * c| ≤ u * (|X| * |c|) + u * (1 + u) * (P * |c|) + 2 * (1 + u) * e * |c| := by
  have e1 : D * c - X * c = (D - X) * c := by ring
  rw [e1, abs_mul]
  have := mul_le_mul_of_nonneg_right h (abs_nonneg c)
  have e2 : (u * |X| + u * (1 + u) * P + 2 * (1 + u) * e) * |c|
      = u * (|X| * |c|) + u * (1 + u) * (P * |c|) + 2 * (1 + u) * e * |c| := by ring
  linarith

/-- **The error bound of the float determinant**, all second-order terms included. -/
theorem det_error {u e a1 a2 a3 b1 b2 b3 c1 c2 c3 d : ℝ} (hu : 0 ≤ u) (he : 0 ≤ e)
    (H : DetChain u e a1 a2 a3 b1 b2 b3 c1 c2 c3 d) :
    |d - detR a1 a2 a3 b1 b2 b3 c1 c2 c3| ≤
      fU u * |detR a1 a2 a3 b1 b2 b3 c1 c2 c3|
      + (gU u + (1 + fU u + gU u) * u) * sumA a1 a2 a3 b1 b2 b3 c1 c2 c3
      + (1 + fU u + gU u) * (u * (1 + u)) * sumB a1 a2 a3 b1 b2 b3 c1 c2 c3
      + ((1 + fU u + gU u) * (2 * (1 + u)) * (|c1| + |c2| + |c3|) + hU u) * e := by
  obtain ⟨p23, p32, p31, p13, p12, p21, x1, x2, x3, q1, q2, q3, s,
    h23, h32, hx1, h31, h13, hx2, h12, h21, hx3, hq1, hq2, hq3, hs, hd⟩ := H.ex
  have hD1 := comp_mul (c := c1) (cross_comp hu h23 h32 hx1)
  have hD2 := comp_mul (c := c2) (cross_comp hu h31 h13 hx2)
  have hD3 := comp_mul (c := c3) (cross_comp hu h12 h21 hx3)
  have hdot := dot3 hu he hq1 hq2 hq3 hs hd
  unfold detR sumA sumB fU gU hU
  set X1 := a2 * b3 - a3 * b2
  set X2 := a3 * b1 - a1 * b3
  set X3 := a1 * b2 - a2 * b1
  set P1 := |a2 * b3| + |a3 * b2|
  set P2 := |a3 * b1| + |a1 * b3|
  set P3 := |a1 * b2| + |a2 * b1|
  set A := |X1| * |c1| + |X2| * |c2| + |X3| * |c3| with hA
  set B := P1 * |c1| + P2 * |c2| + P3 * |c3| with hB
  set C := |c1| + |c2| + |c3| with hC
  set det := X1 * c1 + X2 * c2 + X3 * c3 with hdet
  set S := x1 * c1 + x2 * c2 + x3 * c3 with hS
  set T := |x1 * c1| + |x2 * c2| + |x3 * c3| with hT
  set f := u * (3 / 2 + u / 2) with hf
  set g := u * (1 + u) * (3 / 2 + u) with hg
  -- ε1 = Σ |D_i c_i|
  set E1 := u * A + u * (1 + u) * B + 2 * (1 + u) * e * C with hE1
  have hE1s : |x1 * c1 - X1 * c1| + |x2 * c2 - X2 * c2| + |x3 * c3 - X3 * c3| ≤ E1 := by
    rw [hE1, hA, hB, hC]
    have e2 : u * (|X1| * |c1| + |X2| * |c2| + |X3| * |c3|)
        + u * (1 + u) * (P1 * |c1| + P2 * |c2| + P3 * |c3|) + 2 * (1 + u) * e * (|c1| + |c2| + |c3|)
        = (u * (|X1| * |c1|) + u * (1 + u) * (P1 * |c1|) + 2 * (1 + u) * e * |c1|)
        + (u * (|X2| * |c2|) + u * (1 + u) * (P2 * |c2|) + 2 * (1 + u) * e * |c2|)
        + (u * (|X3| * |c3|) + u * (1 + u) * (P3 * |c3|) + 2 * (1 + u) * e * |c3|) := by ring
    linarith
  have hSd : |S - det| ≤ E1 := by
    have e1 : S - det = (x1 * c1 - X1 * c1) + (x2 * c2 - X2 * c2) + (x3 * c3 - X3 * c3) := by
      rw [hS, hdet]; ring
    rw [e1]
    have := abs_add_three (x1 * c1 - X1 * c1) (x2 * c2 - X2 * c2) (x3 * c3 - X3 * c3)
    linarith
  have hSabs : |S| ≤ |det| + E1 := by
    have := abs_sub_abs_le_abs_sub S det
    linarith
  have hTle : T ≤ A + E1 := by
    have t1 := abs_sub_abs_le_abs_sub (x1 * c1) (X1 * c1)
    have t2 := abs_sub_abs_le_abs_sub (x2 * c2) (X2 * c2)
    have t3 := abs_sub_abs_le_abs_sub (x3 * c3) (X3 * c3)
    rw [abs_mul X1 c1] at t1
    rw [abs_mul X2 c2] at t2
    rw [abs_mul X3 c3] at t3
    rw [hT, hA]
    linarith
  have hf0 : 0 ≤ f := by rw [hf]; positivity
  have hg0 : 0 ≤ g := by rw [hg]; positivity
  have hfS : f * |S| ≤ f * (|det| + E1) := mul_le_mul_of_nonneg_left hSabs hf0
  have hgT : g * T ≤ g * (A + E1) := mul_le_mul_of_nonneg_left hTle hg0
  have htri : |d - det| ≤ |d - S| + |S - det| := abs_sub_le _ _ _
  have efin : f * (|det| + E1) + g * (A + E1) + (1 + u) * (3 + 2 * u) * e + E1
      = f * |det| + (g + (1 + f + g) * u) * A + (1 + f + g) * (u * (1 + u)) * B
        + ((1 + f + g) * (2 * (1 + u)) * C + (1 + u) * (3 + 2 * u)) * e := by
    rw [hE1]; ring
  linarith

/-! ### vector inequalities (Cauchy–Schwarz, Lagrange, and the `4/3`) -/

theorem cs3 (x1 x2 x3 c1 c2 c3 : ℝ) :
    (|x1| * |c1| + |x2| * |c2| + |x3| * |c3|) ^ 2 ≤ (x1 ^ 2 + x2 ^ 2 + x3 ^ 2) * (c1 ^ 2 + c2 ^ 2 + c3 ^ 2) := by
  have e : (x1 ^ 2 + x2 ^ 2 + x3 ^ 2) * (c1 ^ 2 + c2 ^ 2 + c3 ^ 2)
      = (|x1| ^ 2 + |x2| ^ 2 + |x3| ^ 2) * (|c1| ^ 2 + |c2| ^ 2 + |c3| ^ 2) := by
    simp only [sq_abs]
  rw [e]
  have := sq_nonneg (|x1| * |c2| - |x2| * |c1|)
  have := sq_nonneg (|x1| * |c3| - |x3| * |c1|)
  have := sq_nonneg (|x2| * |c3| - |x3| * |c2|)
  nlinarith

/-- Lagrange: `|a × b|² ≤ |a|²|b|²` -/
theorem lagrange (a1 a2 a3 b1 b2 b3 : ℝ) :
    (a2 * b3 - a3 * b2) ^ 2 + (a3 * b1 - a1 * b3) ^ 2 + (a1 * b2 - a2 * b1) ^ 2
      ≤ (a1 ^ 2 + a2 ^ 2 + a3 ^ 2) * (b1 ^ 2 + b2 ^ 2 + b3 ^ 2) := by
  have e : (a1 ^ 2 + a2 ^ 2 + a3 ^ 2) * (b1 ^ 2 + b2 ^ 2 + b3 ^ 2)
      - ((a2 * b3 - a3 * b2) ^ 2 + (a3 * b1 - a1 * b3) ^ 2 + (a1 * b2 - a2 * b1) ^ 2)
      = (a1 * b1 + a2 * b2 + a3 * b3) ^ 2 := by ring
  have := sq_nonneg (a1 * b1 + a2 * b2 + a3 * b3)
  linarith

/-- the "permanent" cross product: `Σ_i (|a_j b_k| + |a_k b_j|)² ≤ (4/3)·|a|²|b|²`
    (this is the origin of `2/√3` in the comment of `maxDeterminantError`). -/
theorem perm_cross (a1 a2 a3 b1 b2 b3 : ℝ) :
    (|a2 * b3| + |a3 * b2|) ^ 2 + (|a3 * b1| + |a1 * b3|) ^ 2 + (|a1 * b2| + |a2 * b1|) ^ 2
      ≤ (4 / 3) * ((a1 ^ 2 + a2 ^ 2 + a3 ^ 2) * (b1 ^ 2 + b2 ^ 2 + b3 ^ 2)) := by
  simp only [abs_mul]
  have e : (a1 ^ 2 + a2 ^ 2 + a3 ^ 2) * (b1 ^ 2 + b2 ^ 2 + b3 ^ 2)
      = (|a1| ^ 2 + |a2| ^ 2 + |a3| ^ 2) * (|b1| ^ 2 + |b2| ^ 2 + |b3| ^ 2) := by
    simp only [sq_abs]
  rw [e]
  generalize |a1| = p1
  generalize |a2| = p2
  generalize |a3| = p3
  generalize |b1| = r1
  generalize |b2| = r2
  generalize |b3| = r3
  have key : (4 / 3) * ((p1 ^ 2 + p2 ^ 2 + p3 ^ 2) * (r1 ^ 2 + r2 ^ 2 + r3 ^ 2))
      - ((p2 * r3 + p3 * r2) ^ 2 + (p3 * r1 + p1 * r3) ^ 2 + (p1 * r2 + p2 * r1) ^ 2)
      = (1 / 3) * ((p2 * r3 - p3 * r2) ^ 2 + (p3 * r1 - p1 * r3) ^ 2 + (p1 * r2 - p2 * r1) ^ 2)
        + (2 / 3) * ((p1 * r1 - p2 * r2) ^ 2 + (p2 * r2 - p3 * r3) ^ 2 + (p1 * r1 - p3 * r3) ^ 2) := by
    ring
  have h1 := sq_nonneg (p2 * r3 - p3 * r2)
  have h2 := sq_nonneg (p3 * r1 - p1 * r3)
  have h3 := sq_nonneg (p1 * r2 - p2 * r1)
  have h4 := sq_nonneg (p1 * r1 - p2 * r2)
  have h5 := sq_nonneg (p2 * r2 - p3 * r3)
  have h6 := sq_nonneg (p1 * r1 - p3 * r3)
  linarith

theorem le_of_sq_le {x y : ℝ} (_hx : 0 ≤ x) (hy : 0 ≤ y) (h : x ^ 2 ≤ y ^ 2) : x ≤ y := by
  by_contra hlt
  have hlt := not_le.mp hlt
  have : y ^ 2 < x ^ 2 := by nlinarith
  linarith

/-- `A ≤ N` when the squared norms are at most `m` and `m³ ≤ N²` -/
theorem sumA_le {a1 a2 a3 b1 b2 b3 c1 c2 c3 m N : ℝ} (hN : 0 ≤ N)
    (ha : a1 ^ 2 + a2 ^ 2 + a3 ^ 2 ≤ m) (hb : b1 ^ 2 + b2 ^ 2 + b3 ^ 2 ≤ m)
    (hc : c1 ^ 2 + c2 ^ 2 + c3 ^ 2 ≤ m) (hmN : m ^ 3 ≤ N ^ 2) :
    sumA a1 a2 a3 b1 b2 b3 c1 c2 c3 ≤ N := by
  have hA0 : 0 ≤ sumA a1 a2 a3 b1 b2 b3 c1 c2 c3 := by unfold sumA; positivity
  apply le_of_sq_le hA0 hN
  have h1 := cs3 (a2 * b3 - a3 * b2) (a3 * b1 - a1 * b3) (a1 * b2 - a2 * b1) c1 c2 c3
  have h2 := lagrange a1 a2 a3 b1 b2 b3
  have na : 0 ≤ a1 ^ 2 + a2 ^ 2 + a3 ^ 2 := by positivity
  have nb : 0 ≤ b1 ^ 2 + b2 ^ 2 + b3 ^ 2 := by positivity
  have nc : 0 ≤ c1 ^ 2 + c2 ^ 2 + c3 ^ 2 := by positivity
  have hm : 0 ≤ m := le_trans na ha
  have h3 : (a1 ^ 2 + a2 ^ 2 + a3 ^ 2) * (b1 ^ 2 + b2 ^ 2 + b3 ^ 2) ≤ m * m :=
    mul_le_mul ha hb nb hm
  have h4 : ((a2 * b3 - a3 * b2) ^ 2 + (a3 * b1 - a1 * b3) ^ 2 + (a1 * b2 - a2 * b1) ^ 2)
      * (c1 ^ 2 + c2 ^ 2 + c3 ^ 2) ≤ (m * m) * m :=
    mul_le_mul (le_trans h2 h3) hc nc (mul_nonneg hm hm)
  unfold sumA
  have e : m * m * m = m ^ 3 := by ring
  linarith

/-- `B ≤ β·N` when `β² ≥ 4/3` -/
theorem sumB_le {a1 a2 a3 b1 b2 b3 c1 c2 c3 m N β : ℝ} (hN : 0 ≤ N) (hβ : 0 ≤ β) (hβ2 : 4 / 3 ≤ β ^ 2)
    (ha : a1 ^ 2 + a2 ^ 2 + a3 ^ 2 ≤ m) (hb : b1 ^ 2 + b2 ^ 2 + b3 ^ 2 ≤ m)
    (hc : c1 ^ 2 + c2 ^ 2 + c3 ^ 2 ≤ m) (hmN : m ^ 3 ≤ N ^ 2) :
    sumB a1 a2 a3 b1 b2 b3 c1 c2 c3 ≤ β * N := by
  have hB0 : 0 ≤ sumB a1 a2 a3 b1 b2 b3 c1 c2 c3 := by unfold sumB; positivity
  apply le_of_sq_le hB0 (mul_nonneg hβ hN)
  have h1 := cs3 (|a2 * b3| + |a3 * b2|) (|a3 * b1| + |a1 * b3|) (|a1 * b2| + |a2 * b1|) c1 c2 c3
  have p1 : 0 ≤ |a2 * b3| + |a3 * b2| := by positivity
  have p2 : 0 ≤ |a3 * b1| + |a1 * b3| := by positivity
  have p3 : 0 ≤ |a1 * b2| + |a2 * b1| := by positivity
  rw [abs_of_nonneg p1, abs_of_nonneg p2, abs_of_nonneg p3] at h1
  have h2 := perm_cross a1 a2 a3 b1 b2 b3
  have na : 0 ≤ a1 ^ 2 + a2 ^ 2 + a3 ^ 2 := by positivity
  have nb : 0 ≤ b1 ^ 2 + b2 ^ 2 + b3 ^ 2 := by positivity
  have nc : 0 ≤ c1 ^ 2 + c2 ^ 2 + c3 ^ 2 := by positivity
  have hm : 0 ≤ m := le_trans na ha
  have h3 : (a1 ^ 2 + a2 ^ 2 + a3 ^ 2) * (b1 ^ 2 + b2 ^ 2 + b3 ^ 2) ≤ m * m :=
    mul_le_mul ha hb nb hm
  have h3' : (4 / 3) * ((a1 ^ 2 + a2 ^ 2 + a3 ^ 2) * (b1 ^ 2 + b2 ^ 2 + b3 ^ 2)) ≤ (4 / 3) * (m * m) := by
    linarith
  have h4 : ((|a2 * b3| + |a3 * b2|) ^ 2 + (|a3 * b1| + |a1 * b3|) ^ 2 + (|a1 * b2| + |a2 * b1|) ^ 2)
      * (c1 ^ 2 + c2 ^ 2 + c3 ^ 2) ≤ ((4 / 3) * (m * m)) * m :=
    mul_le_mul (le_trans h2 h3') hc nc (by positivity)
  have h5 : (4 / 3) * m ^ 3 ≤ β ^ 2 * N ^ 2 := by
    have hm3 : 0 ≤ m ^ 3 := by positivity
    calc (4 / 3) * m ^ 3 ≤ β ^ 2 * m ^ 3 := mul_le_mul_of_nonneg_right hβ2 hm3
      _ ≤ β ^ 2 * N ^ 2 := mul_le_mul_of_nonneg_left hmN (by positivity)
  unfold sumB
  have e : (4 / 3) * (m * m) * m = (4 / 3) * m ^ 3 := by ring
  have e2 : (β * N) ^ 2 = β ^ 2 * N ^ 2 := by ring
  linarith

theorem abs_le_of_sq_sum_le {x y z m : ℝ} (h : x ^ 2 + y ^ 2 + z ^ 2 ≤ m) (hm : m ≤ 4) : |x| ≤ 2 := by
  apply le_of_sq_le (abs_nonneg x) (by norm_num)
  rw [sq_abs]
  have := sq_nonneg y
  have := sq_nonneg z
  linarith

/-! ### from the error bound to the sign -/

/-- If `|d − det| ≤ f·|det| + K` with `f < 1` and `K ≤ T`, then `d > T` forces `det > 0` and `d < −T`
    forces `det < 0`: the part of the error proportional to `|det|` cannot change the sign. -/
theorem sign_of_error_bound {d det f K T : ℝ} (hf : f < 1)
    (h : |d - det| ≤ f * |det| + K) (hK : K ≤ T) :
    (T < d → 0 < det) ∧ (d < -T → det < 0) := by
  have hb := abs_le.mp h
  constructor
  · intro hd
    by_contra hn
    have hn := not_lt.mp hn
    have : |det| = -det := abs_of_nonpos hn
    rw [this] at hb
    nlinarith
  · intro hd
    by_contra hn
    have hn := not_lt.mp hn
    have : |det| = det := abs_of_nonneg hn
    rw [this] at hb
    nlinarith

end S2Proofs.FloatErr
