/-
  FloatErr.StableErr — the error bound COMPUTED by `stableSign`,
      maxErr = fl( detErrorMultiplier · fl(√ fl( fl(|e1|²)·fl(|e2|²) )) ),
  is large enough: `5.97·u·|e1||e2| + 20·e ≤ maxErr` whenever the guard `fl(|e1|²·|e2|²) ≥ G = 2^-1000` holds
  (pure ℝ; `e` = underflow unit, `G` = guard and `Gs = √(G/4)` are kept abstract so that no huge numeral
  reaches `linarith`).
-/
import S2Proofs.FloatErr.StableCore

namespace S2Proofs.FloatErr

/-- `ρ = f + g`: relative error of a float squared norm (all terms non-negative) -/
noncomputable def rhoU (u : ℝ) : ℝ := fU u + gU u

theorem maxErr_ge {e G Gs N1 N2 n1 n2 p s mE DEM Z : ℝ}
    (he0 : 0 ≤ e) (hesm : e ≤ 1 / 16) (heG : e * 2 ^ 74 ≤ G) (hGs0 : 0 ≤ Gs) (hGs : Gs ^ 2 * 4 ≤ G)
    (heGs : e * (21 * 2 ^ 55) ≤ Gs)
    (hN1 : 0 ≤ N1) (hN1' : N1 ≤ 80) (hN2 : 0 ≤ N2) (hN2' : N2 ≤ 80)
    (hn1 : |n1 - N1| ≤ rhoU (1 / 2 ^ 53) * N1 + 4 * e) (hn2 : |n2 - N2| ≤ rhoU (1 / 2 ^ 53) * N2 + 4 * e)
    (hp : |p - n1 * n2| ≤ 1 / 2 ^ 53 * |n1 * n2| + e) (hG : G ≤ p)
    (hs0 : 0 ≤ s) (hs : p * ((1 - 1 / 2 ^ 58) * (1 - 1 / 2 ^ 53) ^ 2) ≤ s ^ 2)
    (hm : |mE - DEM * s| ≤ 1 / 2 ^ 53 * |DEM * s| + e)
    (hZ0 : 0 ≤ Z) (hZ : Z ^ 2 = N1 * N2)
    (hDEM : 64641 / 10000 * (1 / 2 ^ 53) ≤ DEM) :
    597 / 100 * (1 / 2 ^ 53) * Z + 20 * e ≤ mE := by
  have hρ0 : 0 ≤ rhoU (1 / 2 ^ 53) := by unfold rhoU fU gU; positivity
  have hρ1 : rhoU (1 / 2 ^ 53) ≤ 1 / 2 ^ 51 := by unfold rhoU fU gU; norm_num
  have hG0 : 0 ≤ G := le_trans (by positivity) heG
  have he74 : e ≤ G / 2 ^ 74 := by rw [le_div_iff₀ (by positivity)]; exact heG
  have he72 : 4 * e ≤ G / 2 ^ 72 := by
    have : G / 2 ^ 72 = 4 * (G / 2 ^ 74) := by ring
    linarith
  -- |n_i| ≤ N_i(1+ρ) + 4e ≤ 81
  have habs1 : |n1| ≤ N1 * (1 + rhoU (1 / 2 ^ 53)) + 4 * e := by
    have := abs_sub_abs_le_abs_sub n1 N1
    rw [abs_of_nonneg hN1] at this
    linarith
  have habs2 : |n2| ≤ N2 * (1 + rhoU (1 / 2 ^ 53)) + 4 * e := by
    have := abs_sub_abs_le_abs_sub n2 N2
    rw [abs_of_nonneg hN2] at this
    linarith
  have hρN1 : rhoU (1 / 2 ^ 53) * N1 ≤ 1 / 2 ^ 51 * N1 := mul_le_mul_of_nonneg_right hρ1 hN1
  have hρN2 : rhoU (1 / 2 ^ 53) * N2 ≤ 1 / 2 ^ 51 * N2 := mul_le_mul_of_nonneg_right hρ1 hN2
  have k1 : |n1| ≤ 81 := by linarith
  have k2 : |n2| ≤ 81 := by linarith
  -- |n1 n2| ≥ G/2
  have hb : G / 2 ≤ |n1 * n2| := by
    have h1 := (abs_le.mp hp).2
    have h2 := le_abs_self (n1 * n2)
    have h4 : G / 2 ^ 74 ≤ G / 4 := div_le_div_of_nonneg_left hG0 (by norm_num) (by norm_num)
    have h5 : (1 / 2 ^ 53 : ℝ) * |n1 * n2| ≤ 1 / 2 * |n1 * n2| :=
      mul_le_mul_of_nonneg_right (by norm_num) (abs_nonneg _)
    linarith
  -- N_i ≥ G/170
  have hN1lo : G / 170 ≤ N1 := by
    have h1 : |n1| * |n2| ≤ |n1| * 81 := mul_le_mul_of_nonneg_left k2 (abs_nonneg _)
    rw [← abs_mul] at h1
    have h2 : G / 2 ^ 72 ≤ G / 2 ^ 20 := div_le_div_of_nonneg_left hG0 (by norm_num) (by norm_num)
    linarith
  have hN2lo : G / 170 ≤ N2 := by
    have h1 : |n1| * |n2| ≤ 81 * |n2| := mul_le_mul_of_nonneg_right k1 (abs_nonneg _)
    rw [← abs_mul] at h1
    have h2 : G / 2 ^ 72 ≤ G / 2 ^ 20 := div_le_div_of_nonneg_left hG0 (by norm_num) (by norm_num)
    linarith
  -- n_i within (1 ± 2^-50) N_i
  have h4e1 : 4 * e ≤ 1 / 2 ^ 51 * N1 := by
    have : G / 2 ^ 72 = (1 / 2 ^ 72 * 170) * (G / 170) := by ring
    have h2 : (1 / 2 ^ 72 * 170 : ℝ) * (G / 170) ≤ (1 / 2 ^ 72 * 170) * N1 :=
      mul_le_mul_of_nonneg_left hN1lo (by norm_num)
    have h3 : (1 / 2 ^ 72 * 170 : ℝ) * N1 ≤ 1 / 2 ^ 51 * N1 :=
      mul_le_mul_of_nonneg_right (by norm_num) hN1
    linarith
  have h4e2 : 4 * e ≤ 1 / 2 ^ 51 * N2 := by
    have : G / 2 ^ 72 = (1 / 2 ^ 72 * 170) * (G / 170) := by ring
    have h2 : (1 / 2 ^ 72 * 170 : ℝ) * (G / 170) ≤ (1 / 2 ^ 72 * 170) * N2 :=
      mul_le_mul_of_nonneg_left hN2lo (by norm_num)
    have h3 : (1 / 2 ^ 72 * 170 : ℝ) * N2 ≤ 1 / 2 ^ 51 * N2 :=
      mul_le_mul_of_nonneg_right (by norm_num) hN2
    linarith
  have hn1lo : (1 - 1 / 2 ^ 50) * N1 ≤ n1 := by have := (abs_le.mp hn1).1; linarith
  have hn2lo : (1 - 1 / 2 ^ 50) * N2 ≤ n2 := by have := (abs_le.mp hn2).1; linarith
  have hn1hi : n1 ≤ (1 + 1 / 2 ^ 50) * N1 := by have := (abs_le.mp hn1).2; linarith
  have hn2hi : n2 ≤ (1 + 1 / 2 ^ 50) * N2 := by have := (abs_le.mp hn2).2; linarith
  have hθN1 : 0 ≤ (1 - 1 / 2 ^ 50 : ℝ) * N1 := mul_nonneg (by norm_num) hN1
  have hθN2 : 0 ≤ (1 - 1 / 2 ^ 50 : ℝ) * N2 := mul_nonneg (by norm_num) hN2
  have hn1pos : 0 ≤ n1 := le_trans hθN1 hn1lo
  have hn2pos : 0 ≤ n2 := le_trans hθN2 hn2lo
  have hprodlo : (1 - 1 / 2 ^ 50) ^ 2 * Z ^ 2 ≤ n1 * n2 := by
    have := mul_le_mul hn1lo hn2lo hθN2 hn1pos
    rw [hZ]
    calc (1 - 1 / 2 ^ 50 : ℝ) ^ 2 * (N1 * N2) = (1 - 1 / 2 ^ 50) * N1 * ((1 - 1 / 2 ^ 50) * N2) := by ring
      _ ≤ n1 * n2 := this
  have hprodhi : n1 * n2 ≤ (1 + 1 / 2 ^ 50) ^ 2 * Z ^ 2 := by
    have := mul_le_mul hn1hi hn2hi hn2pos (by linarith : (0 : ℝ) ≤ (1 + 1 / 2 ^ 50) * N1)
    rw [hZ]
    calc n1 * n2 ≤ (1 + 1 / 2 ^ 50) * N1 * ((1 + 1 / 2 ^ 50) * N2) := this
      _ = (1 + 1 / 2 ^ 50 : ℝ) ^ 2 * (N1 * N2) := by ring
  have hnn : 0 ≤ n1 * n2 := mul_nonneg hn1pos hn2pos
  rw [abs_of_nonneg hnn] at hb hp
  -- p ≥ (1 − 2^-52)·n1 n2
  have hplo : (1 - 1 / 2 ^ 52) * (n1 * n2) ≤ p := by
    have h1 := (abs_le.mp hp).1
    have h2 : G / 2 ^ 74 = 1 / 2 ^ 73 * (G / 2) := by ring
    have h3 : (1 / 2 ^ 73 : ℝ) * (G / 2) ≤ 1 / 2 ^ 73 * (n1 * n2) :=
      mul_le_mul_of_nonneg_left hb (by norm_num)
    linarith
  -- s ≥ ν Z, ν = 1 − 2^-48
  have hZ2 : 0 ≤ Z ^ 2 := by positivity
  have hsZ : (1 - 1 / 2 ^ 48) * Z ≤ s := by
    apply le_of_sq_le (mul_nonneg (by norm_num) hZ0) hs0
    have hκ0 : (0 : ℝ) ≤ (1 - 1 / 2 ^ 58) * (1 - 1 / 2 ^ 53) ^ 2 := by norm_num
    have h1 : (1 - 1 / 2 ^ 52) * ((1 - 1 / 2 ^ 50) ^ 2 * Z ^ 2) ≤ p :=
      le_trans (mul_le_mul_of_nonneg_left hprodlo (by norm_num)) hplo
    have h2 := mul_le_mul_of_nonneg_right h1 hκ0
    have hnum : ((1 - 1 / 2 ^ 48 : ℝ)) ^ 2
        ≤ (1 - 1 / 2 ^ 52) * (1 - 1 / 2 ^ 50) ^ 2 * ((1 - 1 / 2 ^ 58) * (1 - 1 / 2 ^ 53) ^ 2) := by norm_num
    have h3 := mul_le_mul_of_nonneg_right hnum hZ2
    calc ((1 - 1 / 2 ^ 48) * Z) ^ 2 = (1 - 1 / 2 ^ 48 : ℝ) ^ 2 * Z ^ 2 := by ring
      _ ≤ (1 - 1 / 2 ^ 52) * (1 - 1 / 2 ^ 50) ^ 2 * ((1 - 1 / 2 ^ 58) * (1 - 1 / 2 ^ 53) ^ 2) * Z ^ 2 := h3
      _ = (1 - 1 / 2 ^ 52) * ((1 - 1 / 2 ^ 50) ^ 2 * Z ^ 2) * ((1 - 1 / 2 ^ 58) * (1 - 1 / 2 ^ 53) ^ 2) := by ring
      _ ≤ p * ((1 - 1 / 2 ^ 58) * (1 - 1 / 2 ^ 53) ^ 2) := h2
      _ ≤ s ^ 2 := hs
  -- Z ≥ Gs
  have hZG : Gs ≤ Z := by
    apply le_of_sq_le hGs0 hZ0
    have h1 : (1 + 1 / 2 ^ 50 : ℝ) ^ 2 * Z ^ 2 ≤ 2 * Z ^ 2 :=
      mul_le_mul_of_nonneg_right (by norm_num) hZ2
    linarith
  -- maxErr
  have hDEM0 : 0 ≤ DEM := le_trans (by norm_num) hDEM
  have hDs0 : 0 ≤ DEM * s := mul_nonneg hDEM0 hs0
  rw [abs_of_nonneg hDs0] at hm
  have hmlo := (abs_le.mp hm).1
  have hDs : 64641 / 10000 * (1 / 2 ^ 53) * ((1 - 1 / 2 ^ 48) * Z) ≤ DEM * s :=
    mul_le_mul hDEM hsZ (mul_nonneg (by norm_num) hZ0) hDEM0
  have hc0 : (1 / 2 ^ 55 : ℝ)
      ≤ (1 - 1 / 2 ^ 53) * (64641 / 10000 * (1 / 2 ^ 53) * (1 - 1 / 2 ^ 48)) - 597 / 100 * (1 / 2 ^ 53) := by
    norm_num
  have hc1 := mul_le_mul_of_nonneg_right hc0 hZ0
  have hc2 : (1 / 2 ^ 55 : ℝ) * Gs ≤ 1 / 2 ^ 55 * Z := mul_le_mul_of_nonneg_left hZG (by norm_num)
  have hc3 : 21 * e ≤ 1 / 2 ^ 55 * Gs := by
    have : (1 / 2 ^ 55 : ℝ) * (e * (21 * 2 ^ 55)) ≤ 1 / 2 ^ 55 * Gs :=
      mul_le_mul_of_nonneg_left heGs (by norm_num)
    have e2 : (1 / 2 ^ 55 : ℝ) * (e * (21 * 2 ^ 55)) = 21 * e := by ring
    linarith
  have e3 : ((1 - 1 / 2 ^ 53) * (64641 / 10000 * (1 / 2 ^ 53) * (1 - 1 / 2 ^ 48)) - 597 / 100 * (1 / 2 ^ 53)) * Z
      = (1 - 1 / 2 ^ 53) * (64641 / 10000 * (1 / 2 ^ 53) * ((1 - 1 / 2 ^ 48) * Z))
        - 597 / 100 * (1 / 2 ^ 53) * Z := by ring
  have hDs' := mul_le_mul_of_nonneg_left hDs (by norm_num : (0 : ℝ) ≤ 1 - 1 / 2 ^ 53)
  linarith

end S2Proofs.FloatErr
