/-
  FloatErr.StableCore — real-analysis core for `stableSign`:
  the determinant is evaluated as `−fl( (fl(P−O) × fl(O−Q)) · O )` (P, Q, O a cyclic permutation of a, b, c
  such that the two shortest edges meet at O).  With x = fl(P−O), y = fl(O−Q) (float vectors):

      |fl − T| ≤ f·|T| + (g + (1+f+g)u)·A + ((1+f+g)u(1+u) + (1+f)(2u' + u'²))·B + (…)·e ,   u' = u(1+2u)

  T = ((P−O)×(O−Q))·O = −det(P,Q,O),  A = Σ|(x×y)_i O_i| ≤ |x||y||O|,  B = Σ(|x_j y_k|+|x_k y_j|)|O_i| ≤ (2/√3)|x||y||O|.
  First order: (3/2)u·|T| + (5/2 + 6/√3)·u·|x||y||O| = 5.9641·u·|x||y||O|   (code: 3 + 6/√3 = 6.4641).
-/
import S2Proofs.FloatErr.RealCore

namespace S2Proofs.FloatErr

theorem detR_abs_le (p1 p2 p3 q1 q2 q3 o1 o2 o3 : ℝ) :
    |detR p1 p2 p3 q1 q2 q3 o1 o2 o3| ≤ sumB p1 p2 p3 q1 q2 q3 o1 o2 o3 := by
  unfold detR sumB
  have h := abs_add_three ((p2 * q3 - p3 * q2) * o1) ((p3 * q1 - p1 * q3) * o2) ((p1 * q2 - p2 * q1) * o3)
  have h1 : |(p2 * q3 - p3 * q2) * o1| ≤ (|p2 * q3| + |p3 * q2|) * |o1| := by
    rw [abs_mul]; exact mul_le_mul_of_nonneg_right (abs_sub _ _) (abs_nonneg _)
  have h2 : |(p3 * q1 - p1 * q3) * o2| ≤ (|p3 * q1| + |p1 * q3|) * |o2| := by
    rw [abs_mul]; exact mul_le_mul_of_nonneg_right (abs_sub _ _) (abs_nonneg _)
  have h3 : |(p1 * q2 - p2 * q1) * o3| ≤ (|p1 * q2| + |p2 * q1|) * |o3| := by
    rw [abs_mul]; exact mul_le_mul_of_nonneg_right (abs_sub _ _) (abs_nonneg _)
  linarith

theorem abs_mul_scale_left {d x y k : ℝ} (h : |d| ≤ k * |x|) : |d * y| ≤ k * |x * y| := by
  rw [abs_mul, abs_mul]
  have := mul_le_mul_of_nonneg_right h (abs_nonneg y)
  linarith

theorem abs_mul_scale_right {d x y k : ℝ} (h : |d| ≤ k * |y|) : |x * d| ≤ k * |x * y| := by
  rw [abs_mul, abs_mul]
  have := mul_le_mul_of_nonneg_left h (abs_nonneg x)
  linarith

theorem sumB_scale_left {d1 d2 d3 x1 x2 x3 y1 y2 y3 o1 o2 o3 k : ℝ}
    (h1 : |d1| ≤ k * |x1|) (h2 : |d2| ≤ k * |x2|) (h3 : |d3| ≤ k * |x3|) :
    sumB d1 d2 d3 y1 y2 y3 o1 o2 o3 ≤ k * sumB x1 x2 x3 y1 y2 y3 o1 o2 o3 := by
  unfold sumB
  have a1 := abs_nonneg o1
  have a2 := abs_nonneg o2
  have a3 := abs_nonneg o3
  have t1 := mul_le_mul_of_nonneg_right
    (add_le_add (abs_mul_scale_left (y := y3) h2) (abs_mul_scale_left (y := y2) h3)) a1
  have t2 := mul_le_mul_of_nonneg_right
    (add_le_add (abs_mul_scale_left (y := y1) h3) (abs_mul_scale_left (y := y3) h1)) a2
  have t3 := mul_le_mul_of_nonneg_right
    (add_le_add (abs_mul_scale_left (y := y2) h1) (abs_mul_scale_left (y := y1) h2)) a3
  have e : k * ((|x2 * y3| + |x3 * y2|) * |o1| + (|x3 * y1| + |x1 * y3|) * |o2| + (|x1 * y2| + |x2 * y1|) * |o3|)
      = (k * |x2 * y3| + k * |x3 * y2|) * |o1| + (k * |x3 * y1| + k * |x1 * y3|) * |o2|
        + (k * |x1 * y2| + k * |x2 * y1|) * |o3| := by ring
  linarith

theorem sumB_scale_right {d1 d2 d3 x1 x2 x3 y1 y2 y3 o1 o2 o3 k : ℝ}
    (h1 : |d1| ≤ k * |y1|) (h2 : |d2| ≤ k * |y2|) (h3 : |d3| ≤ k * |y3|) :
    sumB x1 x2 x3 d1 d2 d3 o1 o2 o3 ≤ k * sumB x1 x2 x3 y1 y2 y3 o1 o2 o3 := by
  unfold sumB
  have a1 := abs_nonneg o1
  have a2 := abs_nonneg o2
  have a3 := abs_nonneg o3
  have t1 := mul_le_mul_of_nonneg_right
    (add_le_add (abs_mul_scale_right (x := x2) h3) (abs_mul_scale_right (x := x3) h2)) a1
  have t2 := mul_le_mul_of_nonneg_right
    (add_le_add (abs_mul_scale_right (x := x3) h1) (abs_mul_scale_right (x := x1) h3)) a2
  have t3 := mul_le_mul_of_nonneg_right
    (add_le_add (abs_mul_scale_right (x := x1) h2) (abs_mul_scale_right (x := x2) h1)) a3
  have e : k * ((|x2 * y3| + |x3 * y2|) * |o1| + (|x3 * y1| + |x1 * y3|) * |o2| + (|x1 * y2| + |x2 * y1|) * |o3|)
      = (k * |x2 * y3| + k * |x3 * y2|) * |o1| + (k * |x3 * y1| + k * |x1 * y3|) * |o2|
        + (k * |x1 * y2| + k * |x2 * y1|) * |o3| := by ring
  linarith

theorem sumB_nonneg (a1 a2 a3 b1 b2 b3 c1 c2 c3 : ℝ) : 0 ≤ sumB a1 a2 a3 b1 b2 b3 c1 c2 c3 := by
  unfold sumB; positivity

/-- a float difference `x = fl(a)` with relative error `u ≤ 1/2`: the perturbation is at most `u(1+2u)·|x|` -/
theorem rnd_back {u a x : ℝ} (hu : 0 ≤ u) (hu2 : u ≤ 1 / 2) (h : Rnd u 0 a x) :
    |x - a| ≤ u * (1 + 2 * u) * |x| := by
  unfold Rnd at h
  rw [add_zero] at h
  have h1 : |a| ≤ |x| + |x - a| := by
    have := abs_sub_abs_le_abs_sub a x
    rw [abs_sub_comm a x] at this
    linarith
  have ha := abs_nonneg a
  have hx := abs_nonneg x
  -- |a|(1−u) ≤ |x|  ⇒  |a| ≤ (1+2u)|x|
  have h2 : |a| * (1 - u) ≤ |x| := by nlinarith
  have h3 : |a| ≤ (1 + 2 * u) * |x| := by
    have h4 : (1 + 2 * u) * (|a| * (1 - u)) ≤ (1 + 2 * u) * |x| :=
      mul_le_mul_of_nonneg_left h2 (by positivity)
    have h5 : 0 ≤ u * (1 - 2 * u) * |a| := mul_nonneg (mul_nonneg hu (by linarith)) ha
    have e : (1 + 2 * u) * (|a| * (1 - u)) = |a| + u * (1 - 2 * u) * |a| := by ring
    linarith
  calc |x - a| ≤ u * |a| := h
    _ ≤ u * ((1 + 2 * u) * |x|) := mul_le_mul_of_nonneg_left h3 hu
    _ = u * (1 + 2 * u) * |x| := by ring

noncomputable def pU (u : ℝ) : ℝ := 2 * (u * (1 + 2 * u)) + (u * (1 + 2 * u)) ^ 2

/-- perturbation of the determinant by the rounding of the two edge vectors -/
theorem det_perturb {k : ℝ} (hk : 0 ≤ k) {a1 a2 a3 b1 b2 b3 x1 x2 x3 y1 y2 y3 o1 o2 o3 : ℝ}
    (hx1 : |x1 - a1| ≤ k * |x1|) (hx2 : |x2 - a2| ≤ k * |x2|) (hx3 : |x3 - a3| ≤ k * |x3|)
    (hy1 : |y1 - b1| ≤ k * |y1|) (hy2 : |y2 - b2| ≤ k * |y2|) (hy3 : |y3 - b3| ≤ k * |y3|) :
    |detR x1 x2 x3 y1 y2 y3 o1 o2 o3 - detR a1 a2 a3 b1 b2 b3 o1 o2 o3|
      ≤ (2 * k + k ^ 2) * sumB x1 x2 x3 y1 y2 y3 o1 o2 o3 := by
  have e : detR x1 x2 x3 y1 y2 y3 o1 o2 o3 - detR a1 a2 a3 b1 b2 b3 o1 o2 o3
      = detR (x1 - a1) (x2 - a2) (x3 - a3) y1 y2 y3 o1 o2 o3
        + detR x1 x2 x3 (y1 - b1) (y2 - b2) (y3 - b3) o1 o2 o3
        - detR (x1 - a1) (x2 - a2) (x3 - a3) (y1 - b1) (y2 - b2) (y3 - b3) o1 o2 o3 := by
    unfold detR; ring
  rw [e]
  have t1 := detR_abs_le (x1 - a1) (x2 - a2) (x3 - a3) y1 y2 y3 o1 o2 o3
  have t2 := detR_abs_le x1 x2 x3 (y1 - b1) (y2 - b2) (y3 - b3) o1 o2 o3
  have t3 := detR_abs_le (x1 - a1) (x2 - a2) (x3 - a3) (y1 - b1) (y2 - b2) (y3 - b3) o1 o2 o3
  have s1 := sumB_scale_left (y1 := y1) (y2 := y2) (y3 := y3) (o1 := o1) (o2 := o2) (o3 := o3) hx1 hx2 hx3
  have s2 := sumB_scale_right (x1 := x1) (x2 := x2) (x3 := x3) (o1 := o1) (o2 := o2) (o3 := o3) hy1 hy2 hy3
  have s3a := sumB_scale_left (y1 := y1 - b1) (y2 := y2 - b2) (y3 := y3 - b3) (o1 := o1) (o2 := o2) (o3 := o3)
    hx1 hx2 hx3
  have s3 : sumB (x1 - a1) (x2 - a2) (x3 - a3) (y1 - b1) (y2 - b2) (y3 - b3) o1 o2 o3
      ≤ k * (k * sumB x1 x2 x3 y1 y2 y3 o1 o2 o3) :=
    le_trans s3a (mul_le_mul_of_nonneg_left s2 hk)
  have tri : |detR (x1 - a1) (x2 - a2) (x3 - a3) y1 y2 y3 o1 o2 o3
        + detR x1 x2 x3 (y1 - b1) (y2 - b2) (y3 - b3) o1 o2 o3
        - detR (x1 - a1) (x2 - a2) (x3 - a3) (y1 - b1) (y2 - b2) (y3 - b3) o1 o2 o3|
      ≤ |detR (x1 - a1) (x2 - a2) (x3 - a3) y1 y2 y3 o1 o2 o3|
        + |detR x1 x2 x3 (y1 - b1) (y2 - b2) (y3 - b3) o1 o2 o3|
        + |detR (x1 - a1) (x2 - a2) (x3 - a3) (y1 - b1) (y2 - b2) (y3 - b3) o1 o2 o3| := by
    have h1 := abs_sub (detR (x1 - a1) (x2 - a2) (x3 - a3) y1 y2 y3 o1 o2 o3
        + detR x1 x2 x3 (y1 - b1) (y2 - b2) (y3 - b3) o1 o2 o3)
      (detR (x1 - a1) (x2 - a2) (x3 - a3) (y1 - b1) (y2 - b2) (y3 - b3) o1 o2 o3)
    have h2 := abs_add_le (detR (x1 - a1) (x2 - a2) (x3 - a3) y1 y2 y3 o1 o2 o3)
      (detR x1 x2 x3 (y1 - b1) (y2 - b2) (y3 - b3) o1 o2 o3)
    linarith
  have e2 : (2 * k + k ^ 2) * sumB x1 x2 x3 y1 y2 y3 o1 o2 o3
      = k * sumB x1 x2 x3 y1 y2 y3 o1 o2 o3 + k * sumB x1 x2 x3 y1 y2 y3 o1 o2 o3
        + k * (k * sumB x1 x2 x3 y1 y2 y3 o1 o2 o3) := by ring
  linarith

/-- **Error bound of the determinant evaluated by `stableSign`** (before negation), all terms included. -/
theorem stable_det_error {u e : ℝ} (hu : 0 ≤ u) (hu2 : u ≤ 1 / 2) (he : 0 ≤ e)
    {a1 a2 a3 b1 b2 b3 x1 x2 x3 y1 y2 y3 o1 o2 o3 d : ℝ}
    (hx1 : Rnd u 0 a1 x1) (hx2 : Rnd u 0 a2 x2) (hx3 : Rnd u 0 a3 x3)
    (hy1 : Rnd u 0 b1 y1) (hy2 : Rnd u 0 b2 y2) (hy3 : Rnd u 0 b3 y3)
    (H : DetChain u e x1 x2 x3 y1 y2 y3 o1 o2 o3 d) :
    |d - detR a1 a2 a3 b1 b2 b3 o1 o2 o3| ≤
      fU u * |detR a1 a2 a3 b1 b2 b3 o1 o2 o3|
      + (gU u + (1 + fU u + gU u) * u) * sumA x1 x2 x3 y1 y2 y3 o1 o2 o3
      + ((1 + fU u + gU u) * (u * (1 + u)) + (1 + fU u) * pU u) * sumB x1 x2 x3 y1 y2 y3 o1 o2 o3
      + ((1 + fU u + gU u) * (2 * (1 + u)) * (|o1| + |o2| + |o3|) + hU u) * e := by
  have hk : 0 ≤ u * (1 + 2 * u) := by positivity
  have hp := det_perturb hk (o1 := o1) (o2 := o2) (o3 := o3)
    (rnd_back hu hu2 hx1) (rnd_back hu hu2 hx2) (rnd_back hu hu2 hx3)
    (rnd_back hu hu2 hy1) (rnd_back hu hu2 hy2) (rnd_back hu hu2 hy3)
  have hE := det_error hu he H
  set D := detR x1 x2 x3 y1 y2 y3 o1 o2 o3
  set T := detR a1 a2 a3 b1 b2 b3 o1 o2 o3
  set B := sumB x1 x2 x3 y1 y2 y3 o1 o2 o3
  have hpU : 2 * (u * (1 + 2 * u)) + (u * (1 + 2 * u)) ^ 2 = pU u := rfl
  rw [hpU] at hp
  have hf0 : 0 ≤ fU u := by unfold fU; positivity
  have hDT : |D| ≤ |T| + pU u * B := by
    have := abs_sub_abs_le_abs_sub D T
    linarith
  have hfD : fU u * |D| ≤ fU u * (|T| + pU u * B) := mul_le_mul_of_nonneg_left hDT hf0
  have htri : |d - T| ≤ |d - D| + |D - T| := abs_sub_le _ _ _
  have e1 : ((1 + fU u + gU u) * (u * (1 + u)) + (1 + fU u) * pU u) * B
      = (1 + fU u + gU u) * (u * (1 + u)) * B + pU u * B + fU u * (pU u * B) := by ring
  have e2 : fU u * (|T| + pU u * B) = fU u * |T| + fU u * (pU u * B) := by ring
  linarith

/-- `A ≤ W` when `|a|²|b|²|c|² ≤ W²` -/
theorem sumA_le_gen {a1 a2 a3 b1 b2 b3 c1 c2 c3 W : ℝ} (hW : 0 ≤ W)
    (h : (a1 ^ 2 + a2 ^ 2 + a3 ^ 2) * (b1 ^ 2 + b2 ^ 2 + b3 ^ 2) * (c1 ^ 2 + c2 ^ 2 + c3 ^ 2) ≤ W ^ 2) :
    sumA a1 a2 a3 b1 b2 b3 c1 c2 c3 ≤ W := by
  have hA0 : 0 ≤ sumA a1 a2 a3 b1 b2 b3 c1 c2 c3 := by unfold sumA; positivity
  apply le_of_sq_le hA0 hW
  have h1 := cs3 (a2 * b3 - a3 * b2) (a3 * b1 - a1 * b3) (a1 * b2 - a2 * b1) c1 c2 c3
  have h2 := lagrange a1 a2 a3 b1 b2 b3
  have nc : 0 ≤ c1 ^ 2 + c2 ^ 2 + c3 ^ 2 := by positivity
  have h4 := mul_le_mul_of_nonneg_right h2 nc
  unfold sumA
  linarith

/-- `B ≤ β·W` when `|a|²|b|²|c|² ≤ W²` and `β² ≥ 4/3` -/
theorem sumB_le_gen {a1 a2 a3 b1 b2 b3 c1 c2 c3 W β : ℝ} (hW : 0 ≤ W) (hβ : 0 ≤ β) (hβ2 : 4 / 3 ≤ β ^ 2)
    (h : (a1 ^ 2 + a2 ^ 2 + a3 ^ 2) * (b1 ^ 2 + b2 ^ 2 + b3 ^ 2) * (c1 ^ 2 + c2 ^ 2 + c3 ^ 2) ≤ W ^ 2) :
    sumB a1 a2 a3 b1 b2 b3 c1 c2 c3 ≤ β * W := by
  have hB0 := sumB_nonneg a1 a2 a3 b1 b2 b3 c1 c2 c3
  apply le_of_sq_le hB0 (mul_nonneg hβ hW)
  have h1 := cs3 (|a2 * b3| + |a3 * b2|) (|a3 * b1| + |a1 * b3|) (|a1 * b2| + |a2 * b1|) c1 c2 c3
  have p1 : 0 ≤ |a2 * b3| + |a3 * b2| := by positivity
  have p2 : 0 ≤ |a3 * b1| + |a1 * b3| := by positivity
  have p3 : 0 ≤ |a1 * b2| + |a2 * b1| := by positivity
  rw [abs_of_nonneg p1, abs_of_nonneg p2, abs_of_nonneg p3] at h1
  have h2 := perm_cross a1 a2 a3 b1 b2 b3
  have nc : 0 ≤ c1 ^ 2 + c2 ^ 2 + c3 ^ 2 := by positivity
  have h4 := mul_le_mul_of_nonneg_right h2 nc
  have h5 : (4 / 3) * W ^ 2 ≤ β ^ 2 * W ^ 2 := mul_le_mul_of_nonneg_right hβ2 (by positivity)
  have e2 : (β * W) ^ 2 = β ^ 2 * W ^ 2 := by ring
  have e3 : 4 / 3 * ((a1 ^ 2 + a2 ^ 2 + a3 ^ 2) * (b1 ^ 2 + b2 ^ 2 + b3 ^ 2)) * (c1 ^ 2 + c2 ^ 2 + c3 ^ 2)
      = 4 / 3 * ((a1 ^ 2 + a2 ^ 2 + a3 ^ 2) * (b1 ^ 2 + b2 ^ 2 + b3 ^ 2) * (c1 ^ 2 + c2 ^ 2 + c3 ^ 2)) := by ring
  unfold sumB
  linarith

end S2Proofs.FloatErr
