/-
  S2Proofs.PointCrossExact — the exact fallback of the repaired `Point.PointCross` (D60): `PreciseVector.Vector()` of a
  non-zero exact vector is a normalised float vector (`FE3.Normed`: finite, |·|² within 33·2^-55 of 1).

  The exact vector has integer components `n_i` (scale irrelevant); with `M` = the largest bit length the three conversions
  round `n_i / 2^M` (all < 1, the largest ≥ 1/2) to nearest even, then the float `Normalize`.
-/
import Mathlib.Tactic.Ring
import Mathlib.Tactic.Linarith
import Mathlib.Tactic.Positivity
import Mathlib.Tactic.NormNum
import S2.PointCross
import S2Proofs.FloatErr.Ops
import S2Proofs.FloatErr3.Normalize
import S2Proofs.C16Kernel

namespace S2Proofs.PointCrossExact
open S2 S2.Exact S2.EdgeNum S2Proofs.F64Order S2Proofs.FloatErr

theorem bitLen_bounds (s : SZ) : s.v.natAbs < 2 ^ s.bitLen ∧ (s.v ≠ 0 → 2 ^ (s.bitLen - 1) ≤ s.v.natAbs ∧ 0 < s.bitLen) := by
  unfold SZ.bitLen
  by_cases h : s.v = 0
  · simp [h]
  · have h' : (s.v == 0) = false := by simpa using h
    rw [h']
    simp only [Bool.false_eq_true, if_false]
    have hn : s.v.natAbs ≠ 0 := Int.natAbs_ne_zero.mpr h
    refine ⟨Nat.lt_log2_self, fun _ => ⟨?_, Nat.succ_pos _⟩⟩
    simpa using Nat.log2_self_le hn

/-- one conversion `Float64()` of `n / 2^M` with `bitLen n ≤ M`: finite, at most 2 in magnitude, and at least 1/4 when the
    bit length is exactly `M > 0` -/
theorem toF64_facts (s : SZ) (M : Nat) (hM : s.bitLen ≤ M) :
    Fin (s.toF64 (-(M : Int))) ∧ |val (s.toF64 (-(M : Int)))| ≤ 2 ∧
      (s.v ≠ 0 → s.bitLen = M → 1 / 4 ≤ |val (s.toF64 (-(M : Int)))|) := by
  unfold SZ.toF64
  obtain ⟨hlt, hge⟩ := bitLen_bounds s
  by_cases h0 : s.v = 0
  · have hn : s.v.natAbs = 0 := by simp [h0]
    rw [hn, S2Proofs.C16K.roundDyadic_zero]
    have hz : ∀ b : Bool, Fin (F64.zero b) ∧ val (F64.zero b) = 0 := by
      intro b
      have h : Fin (F64.zero b) ∧ toInt (F64.zero b) = 0 := by cases b <;> decide
      refine ⟨h.1, ?_⟩
      unfold val; rw [h.2]; simp
    obtain ⟨f, v⟩ := hz s.isNeg
    refine ⟨f, by rw [v]; norm_num, fun h => absurd h0 h⟩
  · have hnpos : 0 < s.v.natAbs := Int.natAbs_pos.mpr h0
    have hpow : (2 : ℝ) ^ s.bitLen ≤ 2 ^ M := pow_le_pow_right₀ (by norm_num) hM
    have hnR : (s.v.natAbs : ℝ) < 2 ^ M := by
      have : (s.v.natAbs : ℝ) < 2 ^ s.bitLen := by exact_mod_cast hlt
      linarith
    have htw : tw (-(M : ℤ)) = 1 / 2 ^ M := by rw [tw_neg, tw_nat, one_div]
    have hx0 : 0 ≤ (s.v.natAbs : ℝ) * tw (-(M : ℤ)) := mul_nonneg (Nat.cast_nonneg _) (tw_pos _).le
    have hx1 : (s.v.natAbs : ℝ) * tw (-(M : ℤ)) ≤ 1 := by
      rw [htw, mul_one_div, div_le_one (by positivity)]; exact hnR.le
    obtain ⟨hf, δ, η, hδ, hη, hv, _⟩ := roundDyadic_spec s.isNeg s.v.natAbs (-(M : ℤ)) hnpos
      (lt_of_le_of_lt hx1 (by
        calc (1 : ℝ) < 2 ^ 1 := by norm_num
          _ ≤ 2 ^ 1000 := pow_le_pow_right₀ (by norm_num) (by norm_num)))
    have hu : uR ≤ 1 / 4 := by unfold uR; norm_num
    have he : eR ≤ 1 / 16 := by
      unfold eR
      exact one_div_le_one_div_of_le (by norm_num)
        (by calc (16 : ℝ) = 2 ^ 4 := by norm_num
              _ ≤ 2 ^ 1075 := pow_le_pow_right₀ (by norm_num) (by norm_num))
    have hδ' := abs_le.mp hδ
    have hη' := abs_le.mp hη
    set X := (s.v.natAbs : ℝ) * tw (-(M : ℤ)) with hX
    have habs : |val (F64.roundDyadic s.isNeg s.v.natAbs (-(M : ℤ)))| = |X * (1 + δ) + η| := by
      rw [hv, abs_mul, sg_abs, one_mul]
    refine ⟨hf, ?_, ?_⟩
    · rw [habs, abs_le]
      constructor <;> nlinarith
    · intro _ hb
      rw [habs]
      have hXlo : 1 / 2 ≤ X := by
        obtain ⟨hlo, hpos⟩ := hge h0
        rw [hb] at hlo hpos
        have hloR : (2 : ℝ) ^ (M - 1) ≤ (s.v.natAbs : ℝ) := by exact_mod_cast hlo
        have e : (2 : ℝ) ^ M = 2 * 2 ^ (M - 1) := by
          rw [← pow_succ']; congr 1; omega
        rw [hX, htw, mul_one_div, le_div_iff₀ (by positivity), e]
        linarith
      have : 1 / 4 ≤ X * (1 + δ) + η := by nlinarith
      rw [abs_of_nonneg (by linarith)]
      exact this

theorem bitLen_zero (s : SZ) (hs : s.v = 0) : s.bitLen = 0 := by unfold SZ.bitLen; simp [hs]

theorem normed_of_comps' {A B C : F64} (fA : Fin A) (fB : Fin B) (fC : Fin C)
    (bA : |val A| ≤ 2) (bB : |val B| ≤ 2) (bC : |val C| ≤ 2)
    (hlo : 1 / 4 ≤ |val A| ∨ 1 / 4 ≤ |val B| ∨ 1 / 4 ≤ |val C|) : S2Proofs.FE3.Normed (V3.normalize ⟨A, B, C⟩) := by
  have two_le : (2 : ℝ) ≤ 2 ^ 299 := by
    calc (2 : ℝ) = 2 ^ 1 := by norm_num
      _ ≤ 2 ^ 299 := pow_le_pow_right₀ (by norm_num) (by norm_num)
  have small : (1 : ℝ) / 2 ^ 300 ≤ 1 / 4 := by
    apply one_div_le_one_div_of_le (by norm_num)
    calc (4 : ℝ) = 2 ^ 2 := by norm_num
      _ ≤ 2 ^ 300 := pow_le_pow_right₀ (by norm_num) (by norm_num)
  have bA' : |val A| ≤ 2 ^ 299 := le_trans bA two_le
  have bB' : |val B| ≤ 2 ^ 299 := le_trans bB two_le
  have bC' : |val C| ≤ 2 ^ 299 := le_trans bC two_le
  have hlo' : 1 / 2 ^ 300 ≤ |val A| ∨ 1 / 2 ^ 300 ≤ |val B| ∨ 1 / 2 ^ 300 ≤ |val C| := by
    rcases hlo with h | h | h
    · exact Or.inl (le_trans small h)
    · exact Or.inr (Or.inl (le_trans small h))
    · exact Or.inr (Or.inr (le_trans small h))
  exact S2Proofs.FE3.normalize_normed_of_coord _ ⟨fA, fB, fC⟩ bA' bB' bC' hlo'

/-- three conversions at a common exponent `M ≥` every bit length, `M` attained by a non-zero component -/
theorem normed_of_three (x y z : SZ) (M : Nat) (hxM : x.bitLen ≤ M) (hyM : y.bitLen ≤ M) (hzM : z.bitLen ≤ M)
    (hMpos : 0 < M) (hcase : x.bitLen = M ∨ y.bitLen = M ∨ z.bitLen = M) :
    S2Proofs.FE3.Normed (V3.normalize ⟨x.toF64 (-(M : Int)), y.toF64 (-(M : Int)), z.toF64 (-(M : Int))⟩) := by
  obtain ⟨fx, bx, lx⟩ := toF64_facts x M hxM
  obtain ⟨fy, by', ly⟩ := toF64_facts y M hyM
  obtain ⟨fz', bz, lz⟩ := toF64_facts z M hzM
  refine normed_of_comps' fx fy fz' bx by' bz ?_
  rcases hcase with hc | hc | hc
  · have : x.v ≠ 0 := fun h0 => by rw [bitLen_zero _ h0] at hc; omega
    exact Or.inl (lx this hc)
  · have : y.v ≠ 0 := fun h0 => by rw [bitLen_zero _ h0] at hc; omega
    exact Or.inr (Or.inl (ly this hc))
  · have : z.v ≠ 0 := fun h0 => by rw [bitLen_zero _ h0] at hc; omega
    exact Or.inr (Or.inr (lz this hc))

/-- **`PreciseVector.Vector()` of a non-zero exact vector is a normalised float vector** -/
theorem toVector_normed (v : PV) (e : Int) (h : v.isZero = false) : S2Proofs.FE3.Normed (v.toVector e) := by
  have hxM : v.x.bitLen ≤ max v.x.bitLen (max v.y.bitLen v.z.bitLen) := le_max_left _ _
  have hyM : v.y.bitLen ≤ max v.x.bitLen (max v.y.bitLen v.z.bitLen) := le_trans (le_max_left _ _) (le_max_right _ _)
  have hzM : v.z.bitLen ≤ max v.x.bitLen (max v.y.bitLen v.z.bitLen) := le_trans (le_max_right _ _) (le_max_right _ _)
  have hne : v.x.v ≠ 0 ∨ v.y.v ≠ 0 ∨ v.z.v ≠ 0 := by
    by_contra hc
    simp only [not_or, not_not] at hc
    unfold PV.isZero at h
    simp [hc.1, hc.2.1, hc.2.2] at h
  have hMpos : 0 < max v.x.bitLen (max v.y.bitLen v.z.bitLen) := by
    rcases hne with hn | hn | hn
    · exact lt_of_lt_of_le ((bitLen_bounds v.x).2 hn).2 hxM
    · exact lt_of_lt_of_le ((bitLen_bounds v.y).2 hn).2 hyM
    · exact lt_of_lt_of_le ((bitLen_bounds v.z).2 hn).2 hzM
  have hcase : v.x.bitLen = max v.x.bitLen (max v.y.bitLen v.z.bitLen) ∨
      v.y.bitLen = max v.x.bitLen (max v.y.bitLen v.z.bitLen) ∨ v.z.bitLen = max v.x.bitLen (max v.y.bitLen v.z.bitLen) := by
    rcases max_choice v.x.bitLen (max v.y.bitLen v.z.bitLen) with h1 | h1
    · exact Or.inl h1.symm
    · rcases max_choice v.y.bitLen v.z.bitLen with h2 | h2
      · exact Or.inr (Or.inl (by rw [h1, h2]))
      · exact Or.inr (Or.inr (by rw [h1, h2]))
  exact normed_of_three v.x v.y v.z _ hxM hyM hzM hMpos hcase

end S2Proofs.PointCrossExact
