/-
  S2Proofs.EdgeNbrGeom — integer geometry of the neighbour table `nbrSq`: the box of the square (I,J) of face f and
  the box of its neighbour across side d share exactly an edge (`boxMeet = some 1`), for all 6 faces, 4 sides,
  same-face and cross-face.  Pure integer arithmetic.
-/
import S2Proofs.EdgeNbr
open S2 S2.CellID S2.Hilbert S2.STUV
set_option linter.unusedVariables false
set_option linter.unusedSimpArgs false
namespace S2Proofs.C01W

theorem boxMeet_of (a b : Box)
    (h : (axMeet a.1 b.1 = some 1 ∧ axMeet a.2.1 b.2.1 = some 0 ∧ axMeet a.2.2 b.2.2 = some 0) ∨
         (axMeet a.1 b.1 = some 0 ∧ axMeet a.2.1 b.2.1 = some 1 ∧ axMeet a.2.2 b.2.2 = some 0) ∨
         (axMeet a.1 b.1 = some 0 ∧ axMeet a.2.1 b.2.1 = some 0 ∧ axMeet a.2.2 b.2.2 = some 1)) :
    boxMeet a b = some 1 := by
  unfold boxMeet
  rcases h with ⟨h1, h2, h3⟩ | ⟨h1, h2, h3⟩ | ⟨h1, h2, h3⟩ <;> rw [h1, h2, h3]

/-- the square (I,J) at unit s as a pair of cube intervals -/
def sqBox (f I J s : Nat) : Box :=
  faceBox f (cubeLo I s, cubeLo I s + 2 * ((s : Nat) : Int)) (cubeLo J s, cubeLo J s + 2 * ((s : Nat) : Int))

theorem boxMeet_of' (a b : Box) (x y z : Nat) (hx : axMeet a.1 b.1 = some x) (hy : axMeet a.2.1 b.2.1 = some y)
    (hz : axMeet a.2.2 b.2.2 = some z) (h : x + y + z = 1) : boxMeet a b = some 1 := by
  unfold boxMeet; rw [hx, hy, hz]; show some (x + y + z) = some 1; rw [h]

macro "axm" : tactic =>
  `(tactic| first | exact axMeet_touch _ _ _ _ (by omega) | exact axMeet_overlap _ _ _ _ (by omega))

/-- arithmetic facts about the products I·S, J·S used below -/
theorem sq_prod_facts (I J K S : Nat) (hKS : K * S = 1073741824) (hS : 0 < S) (hI : I ≤ K - 1) (hJ : J ≤ K - 1) :
    (K - 1) * S = 1073741824 - S ∧ S ≤ 1073741824 ∧ I * S ≤ 1073741824 - S ∧ J * S ≤ 1073741824 - S ∧
    (1 ≤ I → S ≤ I * S) ∧ (1 ≤ J → S ≤ J * S) ∧
    (I + 1 ≤ K - 1 → I * S + S ≤ 1073741824 - S) ∧ (J + 1 ≤ K - 1 → J * S + S ≤ 1073741824 - S) ∧
    (K - 1 - I) * S = 1073741824 - S - I * S ∧ (K - 1 - J) * S = 1073741824 - S - J * S ∧
    (I + 1) * S = I * S + S ∧ (J + 1) * S = J * S + S ∧ (I - 1) * S = I * S - S ∧ (J - 1) * S = J * S - S := by
  have hK : 0 < K := by
    rcases Nat.eq_zero_or_pos K with h | h
    · subst h; omega
    · exact h
  have hN : (K - 1) * S = 1073741824 - S := by rw [Nat.sub_mul, Nat.one_mul, hKS]
  refine ⟨hN, ?_, ?_, ?_, ?_, ?_, ?_, ?_, ?_, ?_, ?_, ?_, ?_, ?_⟩
  · rw [← hKS]; exact Nat.le_mul_of_pos_left S hK
  · rw [← hN]; exact Nat.mul_le_mul_right _ hI
  · rw [← hN]; exact Nat.mul_le_mul_right _ hJ
  · exact fun h => Nat.le_mul_of_pos_left S h
  · exact fun h => Nat.le_mul_of_pos_left S h
  · intro h; rw [← hN]
    have := Nat.mul_le_mul_right S h
    rw [Nat.add_mul, Nat.one_mul] at this; exact this
  · intro h; rw [← hN]
    have := Nat.mul_le_mul_right S h
    rw [Nat.add_mul, Nat.one_mul] at this; exact this
  · rw [Nat.sub_mul, hN]
  · rw [Nat.sub_mul, hN]
  · rw [Nat.add_mul, Nat.one_mul]
  · rw [Nat.add_mul, Nat.one_mul]
  · rw [Nat.sub_mul, Nat.one_mul]
  · rw [Nat.sub_mul, Nat.one_mul]

set_option hygiene false in
macro "nbr_box_tac" : tactic => `(tactic|
  (interval_cases f <;>
    simp only [nbrSq, Nat.reduceMod, Nat.reduceAdd, if_true, if_false, Nat.zero_ne_one, OfNat.ofNat_ne_zero,
      Nat.one_ne_zero, OfNat.one_ne_ofNat] <;>
    split <;>
    (rename_i hc
     have q1 : J = 0 → J * S = 0 := fun h => by rw [h, Nat.zero_mul]
     have q2 : I = 0 → I * S = 0 := fun h => by rw [h, Nat.zero_mul]
     have q3 : I = K - 1 → I * S = 1073741824 - S := fun h => by rw [h, hN]
     have q4 : J = K - 1 → J * S = 1073741824 - S := fun h => by rw [h, hN]
     simp only [sqBox, faceBox, cubeLo, hN, hNI, hNJ, hI1, hJ1, hI0, hJ0, Nat.zero_mul]
     try dsimp only
     apply boxMeet_of'
     case hx => axm
     case hy => axm
     case hz => axm
     case h => rfl)))

set_option maxHeartbeats 1000000 in
theorem nbr_box0 (f I J K S : Nat) (hf : f < 6) (hKS : K * S = 1073741824) (hS : 0 < S)
    (hI : I ≤ K - 1) (hJ : J ≤ K - 1) :
    boxMeet (sqBox f I J S) (sqBox (nbrSq f I J (K - 1) 0).1 (nbrSq f I J (K - 1) 0).2.1 (nbrSq f I J (K - 1) 0).2.2 S)
      = some 1 := by
  obtain ⟨hN, hSle, hX, hY, hX1, hY1, hX2, hY2, hNI, hNJ, hI1, hJ1, hI0, hJ0⟩ := sq_prod_facts I J K S hKS hS hI hJ
  nbr_box_tac

set_option maxHeartbeats 1000000 in
theorem nbr_box1 (f I J K S : Nat) (hf : f < 6) (hKS : K * S = 1073741824) (hS : 0 < S)
    (hI : I ≤ K - 1) (hJ : J ≤ K - 1) :
    boxMeet (sqBox f I J S) (sqBox (nbrSq f I J (K - 1) 1).1 (nbrSq f I J (K - 1) 1).2.1 (nbrSq f I J (K - 1) 1).2.2 S)
      = some 1 := by
  obtain ⟨hN, hSle, hX, hY, hX1, hY1, hX2, hY2, hNI, hNJ, hI1, hJ1, hI0, hJ0⟩ := sq_prod_facts I J K S hKS hS hI hJ
  nbr_box_tac

set_option maxHeartbeats 1000000 in
theorem nbr_box2 (f I J K S : Nat) (hf : f < 6) (hKS : K * S = 1073741824) (hS : 0 < S)
    (hI : I ≤ K - 1) (hJ : J ≤ K - 1) :
    boxMeet (sqBox f I J S) (sqBox (nbrSq f I J (K - 1) 2).1 (nbrSq f I J (K - 1) 2).2.1 (nbrSq f I J (K - 1) 2).2.2 S)
      = some 1 := by
  obtain ⟨hN, hSle, hX, hY, hX1, hY1, hX2, hY2, hNI, hNJ, hI1, hJ1, hI0, hJ0⟩ := sq_prod_facts I J K S hKS hS hI hJ
  nbr_box_tac

set_option maxHeartbeats 1000000 in
theorem nbr_box3 (f I J K S : Nat) (hf : f < 6) (hKS : K * S = 1073741824) (hS : 0 < S)
    (hI : I ≤ K - 1) (hJ : J ≤ K - 1) :
    boxMeet (sqBox f I J S) (sqBox (nbrSq f I J (K - 1) 3).1 (nbrSq f I J (K - 1) 3).2.1 (nbrSq f I J (K - 1) 3).2.2 S)
      = some 1 := by
  obtain ⟨hN, hSle, hX, hY, hX1, hY1, hX2, hY2, hNI, hNJ, hI1, hJ1, hI0, hJ0⟩ := sq_prod_facts I J K S hKS hS hI hJ
  nbr_box_tac

end S2Proofs.C01W
