/-
  S2Proofs.CellIDAlgebra — helper lemmas (on `IsCell` / `Nat`) for the cell-id algebra
  property file `S2Proofs/Properties/C01.lean`.
-/
import S2Proofs.CellIDLemmas
open S2 S2.CellID
namespace S2Proofs

/-! ### Group 1: canonical form -/

theorem isCell_iff_canonical (x : CellID) (k : Nat) :
    IsCell x k ↔ k ≤ 30 ∧ ∃ f c, f < 6 ∧ c < 4^k ∧ x.toNat = f*2^61 + (2*c+1)*2^(60-2*k) := by
  constructor
  · rintro ⟨hk, hf, hlow⟩
    refine ⟨hk, x.toNat / 2^61, x.toNat % 2^61 / 2^(61-2*k), ?_, ?_, ?_⟩
    · omega
    · interval_cases k <;> cell_omega
    · interval_cases k <;> cell_omega
  · rintro ⟨hk, f, c, hf, hc, hx⟩
    refine ⟨hk, ?_, ?_⟩
    · interval_cases k <;> cell_omega
    · interval_cases k <;> cell_omega

theorem isCell_of_canonical {x : CellID} {f k c : Nat} (hf : f < 6) (hk : k ≤ 30) (hc : c < 4^k)
    (hx : x.toNat = f*2^61 + (2*c+1)*2^(60-2*k)) : IsCell x k :=
  (isCell_iff_canonical x k).mpr ⟨hk, f, c, hf, hc, hx⟩

/-- in canonical form the face and the curve index are determined -/
theorem canonical_fc {x : CellID} {f k c : Nat} (_hf : f < 6) (hk : k ≤ 30) (hc : c < 4^k)
    (hx : x.toNat = f*2^61 + (2*c+1)*2^(60-2*k)) :
    f = x.toNat / 2^61 ∧ c = x.toNat % 2^61 / 2^(61-2*k) := by
  constructor
  · interval_cases k <;> cell_omega
  · interval_cases k <;> cell_omega

theorem pos_toNat (x : CellID) : (pos x).toNat = x.toNat % 2^61 := by
  unfold pos
  rw [UInt64.toNat_and]
  have : ((18446744073709551615 : UInt64) >>> 3).toNat = 2^61 - 1 := by rfl
  rw [this, Nat.and_two_pow_sub_one_eq_mod]

theorem ofNat_shl61_toNat (f : Nat) (hf : f < 8) : (UInt64.ofNat f <<< 61).toNat = f * 2^61 := by
  rw [UInt64.toNat_shiftLeft, UInt64.toNat_ofNat']
  have : (61 : UInt64).toNat = 61 := rfl
  rw [this, Nat.shiftLeft_eq]
  simp only [Nat.reducePow, Nat.reduceMod]
  omega

theorem nat_or_one (x : Nat) : x ||| 1 = x + 1 - x % 2 := by
  have e : x + 1 - x % 2 = 2 * (x / 2) + 1 := by omega
  rw [e]
  apply Nat.eq_of_testBit_eq
  intro i
  rw [Nat.testBit_or]
  cases i with
  | zero => simp [Nat.testBit_zero]
  | succ j =>
    rw [Nat.testBit_add_one, Nat.testBit_add_one, Nat.testBit_add_one]
    have : (2 * (x/2) + 1) / 2 = x / 2 := by omega
    rw [this]; simp

theorem fromFacePosLevel_toNat (f : Nat) (p : UInt64) (k : Nat) (hf : f < 6) (hp : p.toNat < 2^61)
    (hk : k ≤ 30) :
    (fromFacePosLevel f p k).toNat
      = f * 2^61 + (p.toNat - p.toNat % 2^(61 - 2*k)) + 2^(60 - 2*k) := by
  unfold fromFacePosLevel
  rw [parent_toNat _ _ hk, UInt64.toNat_or, UInt64.toNat_add, ofNat_shl61_toNat f (by omega), one_toNat,
    nat_or_one]
  interval_cases k <;> cell_omega

theorem fromFacePosLevel_isCell (f : Nat) (p : UInt64) (k : Nat) (hf : f < 6) (hp : p.toNat < 2^61)
    (hk : k ≤ 30) : IsCell (fromFacePosLevel f p k) k := by
  refine ⟨hk, ?_, ?_⟩ <;> rw [fromFacePosLevel_toNat f p k hf hp hk]
  · interval_cases k <;> cell_omega
  · interval_cases k <;> cell_omega

theorem fromFace_toNat (f : Nat) (hf : f < 6) : (fromFace f).toNat = f * 2^61 + 2^60 := by
  unfold fromFace
  rw [UInt64.toNat_add, ofNat_shl61_toNat f (by omega), lsbForLevel_toNat 0 (by omega)]
  omega

theorem fromFace_isCell (f : Nat) (hf : f < 6) : IsCell (fromFace f) 0 := by
  refine ⟨by omega, ?_, ?_⟩ <;> rw [fromFace_toNat f hf] <;> omega

/-! ### Group 2: hierarchy -/

theorem IsCell.parent_face {x : CellID} {k j : Nat} (_h : IsCell x k) (hj : j ≤ 30) :
    face (parent x j) = face x := by
  rw [face_toNat, face_toNat, parent_toNat x j hj]
  interval_cases j <;> cell_omega

theorem IsCell.parent_self_id {x : CellID} {k : Nat} (h : IsCell x k) : parent x k = x := by
  apply UInt64.toNat_inj.mp
  rw [parent_toNat x k h.k_le, h.low]
  have := Nat.mod_le x.toNat (2^(61 - 2*k))
  have := h.low
  omega

theorem div_pow_of_round (x a b : Nat) (ha : 1 ≤ a) (hab : a ≤ b) :
    (x - x % 2^a + 2^(a-1)) / 2^b = x / 2^b := by
  have e : (2:Nat)^b = 2^a * 2^(b-a) := by rw [← Nat.pow_add]; congr 1; omega
  have e1 : x - x % 2^a = 2^a * (x / 2^a) := by
    have := Nat.div_add_mod x (2^a); omega
  have e2 : (2:Nat)^a = 2 * 2^(a-1) := by
    rw [show a = (a-1)+1 by omega, Nat.pow_succ]; simp; ring
  have hpos := Nat.two_pow_pos (a-1)
  rw [e, ← Nat.div_div_eq_div_mul, ← Nat.div_div_eq_div_mul, e1]
  congr 1
  rw [Nat.mul_add_div (Nat.two_pow_pos a)]
  have : 2^(a-1) / 2^a = 0 := Nat.div_eq_of_lt (by omega)
  omega

theorem parent_parent (x : CellID) (i j : Nat) (hij : i ≤ j) (hj : j ≤ 30) :
    parent (parent x j) i = parent x i := by
  apply UInt64.toNat_inj.mp
  have hi : i ≤ 30 := by omega
  rw [parent_toNat _ i hi, parent_toNat x i hi, parent_toNat x j hj]
  have key := div_pow_of_round x.toNat (61 - 2*j) (61 - 2*i) (by omega) (by omega)
  rw [show 61 - 2*j - 1 = 60 - 2*j by omega] at key
  have d1 := Nat.div_add_mod (x.toNat - x.toNat % 2^(61-2*j) + 2^(60-2*j)) (2^(61-2*i))
  have d2 := Nat.div_add_mod x.toNat (2^(61-2*i))
  rw [key] at d1
  omega

/-- `contains` between cells is inclusion of leaf ranges -/
theorem IsCell.contains_iff_range {x y : CellID} {k j : Nat} (hx : IsCell x k) (hy : IsCell y j) :
    contains x y = true ↔
      (rangeMin x).toNat ≤ (rangeMin y).toNat ∧ (rangeMax y).toNat ≤ (rangeMax x).toNat := by
  rw [contains_iff, hx.rangeMin_eq, hx.rangeMax_eq, hy.rangeMin_eq, hy.rangeMax_eq]
  by_cases hkj : k ≤ j
  · obtain ⟨hb, hne, hadd⟩ := hy.finer_facts k hkj
    obtain ⟨hk, hf, hlow⟩ := hx
    have hpos := Nat.two_pow_pos (60 - 2*j)
    interval_cases k <;> cell_omega
  · have hz := hy.coarser_facts k (by omega) hx.k_le
    obtain ⟨hb, _, _⟩ := hy.finer_facts j (Nat.le_refl _)
    have hlt : 2^(61 - 2*k) ≤ 2^(60 - 2*j) := Nat.pow_le_pow_right (by omega) (by omega)
    obtain ⟨hk, hf, hlow⟩ := hx
    interval_cases k <;> cell_omega

theorem IsCell.rangeMin_isCell {x : CellID} {k : Nat} (h : IsCell x k) : IsCell (rangeMin x) 30 := by
  have e := h.rangeMin_eq
  obtain ⟨hk, hf, hlow⟩ := h
  refine ⟨by omega, ?_, ?_⟩ <;> rw [e]
  · interval_cases k <;> cell_omega
  · interval_cases k <;> cell_omega

theorem IsCell.rangeMax_isCell {x : CellID} {k : Nat} (h : IsCell x k) : IsCell (rangeMax x) 30 := by
  have e := h.rangeMax_eq
  obtain ⟨hk, hf, hlow⟩ := h
  refine ⟨by omega, ?_, ?_⟩ <;> rw [e]
  · interval_cases k <;> cell_omega
  · interval_cases k <;> cell_omega

theorem IsCell.isLeaf_eq {x : CellID} {k : Nat} (h : IsCell x k) : isLeaf x = decide (k = 30) := by
  unfold isLeaf
  rw [and1_ne_zero]
  obtain ⟨hk, hf, hlow⟩ := h
  by_cases hk30 : k = 30
  · subst hk30
    have : x.toNat % 2 = 1 := by cell_omega
    simp [this]
  · have : ¬ x.toNat % 2 = 1 := by
      have : k ≤ 29 := by omega
      interval_cases k <;> cell_omega
    simp [this, hk30]

theorem IsCell.range_size {x : CellID} {k : Nat} (h : IsCell x k) :
    (rangeMax x).toNat - (rangeMin x).toNat = 2 * (4^(30 - k) - 1) := by
  rw [h.rangeMin_eq, h.rangeMax_eq]
  obtain ⟨hk, hf, hlow⟩ := h
  interval_cases k <;> cell_omega

/-! ### `CommonAncestorLevel` -/

theorem nat_xor_eq_zero {a b : Nat} : a ^^^ b = 0 ↔ a = b := by
  constructor
  · intro h
    have : a ^^^ (a ^^^ b) = b := by rw [← Nat.xor_assoc, Nat.xor_self, Nat.zero_xor]
    rw [h, Nat.xor_zero] at this; exact this
  · rintro rfl; exact Nat.xor_self a

theorem div_eq_iff_xor_lt (x y n : Nat) : x / 2^n = y / 2^n ↔ x ^^^ y < 2^n := by
  rw [← nat_xor_eq_zero, ← Nat.xor_div_two_pow, Nat.div_eq_zero_iff]
  have := Nat.two_pow_pos n
  omega

/-- the word whose top bit `CommonAncestorLevel` looks at -/
def calBits (a b : CellID) : Nat := max (max (a.toNat ^^^ b.toNat) (lsb a).toNat) (lsb b).toNat

theorem commonAncestorLevel_eq (a b : CellID) :
    commonAncestorLevel a b =
      if (calBits a b).log2 > 60 then none else some ((60 - (calBits a b).log2) / 2) := by
  unfold commonAncestorLevel msbPos
  simp only []
  have hB : (if (if a ^^^ b < lsb a then lsb a else a ^^^ b) < lsb b then lsb b
      else (if a ^^^ b < lsb a then lsb a else a ^^^ b)).toNat = calBits a b := by
    unfold calBits
    split <;> split <;> simp only [UInt64.lt_iff_toNat_lt, UInt64.toNat_xor, Nat.not_lt] at * <;> omega
  rw [hB, Nat.shiftRight_eq_div_pow]

theorem calBits_lt_iff (a b : CellID) (T : Nat) :
    calBits a b < T ↔ a.toNat ^^^ b.toNat < T ∧ (lsb a).toNat < T ∧ (lsb b).toNat < T := by
  unfold calBits; omega

theorem parent_eq_iff_div (a b : CellID) (l : Nat) (hl : l ≤ 30) :
    parent a l = parent b l ↔ a.toNat / 2^(61 - 2*l) = b.toNat / 2^(61 - 2*l) := by
  rw [← UInt64.toNat_inj, parent_toNat a l hl, parent_toNat b l hl]
  have d1 := Nat.div_add_mod a.toNat (2^(61-2*l))
  have d2 := Nat.div_add_mod b.toNat (2^(61-2*l))
  have hpos := Nat.two_pow_pos (61-2*l)
  constructor
  · intro h
    have : 2^(61-2*l) * (a.toNat / 2^(61-2*l)) = 2^(61-2*l) * (b.toNat / 2^(61-2*l)) := by omega
    exact Nat.eq_of_mul_eq_mul_left hpos this
  · intro h
    rw [h] at d1; omega

theorem IsCell.cal_none_iff {a b : CellID} {ka kb : Nat} (ha : IsCell a ka) (hb : IsCell b kb) :
    commonAncestorLevel a b = none ↔ face a ≠ face b := by
  rw [commonAncestorLevel_eq, face_toNat, face_toNat, Ne, div_eq_iff_xor_lt]
  have hpos : calBits a b ≠ 0 := by
    have := (calBits_lt_iff a b 1).mp
    have := ha.lsb_eq
    have := Nat.two_pow_pos (60 - 2*ka)
    omega
  have h1 := Nat.log2_lt (k := 61) hpos
  have h2 := calBits_lt_iff a b (2^61)
  have la : (lsb a).toNat < 2^61 := by
    rw [ha.lsb_eq]; exact Nat.pow_lt_pow_right (by omega) (by omega)
  have lb : (lsb b).toNat < 2^61 := by
    rw [hb.lsb_eq]; exact Nat.pow_lt_pow_right (by omega) (by omega)
  constructor
  · intro h
    split at h
    · omega
    · simp at h
  · intro h
    rw [if_pos (by omega)]

theorem IsCell.cal_some_iff {a b : CellID} {ka kb : Nat} (ha : IsCell a ka) (hb : IsCell b kb)
    (l : Nat) :
    (l ≤ ka ∧ l ≤ kb ∧ parent a l = parent b l) ↔
      ∃ m, commonAncestorLevel a b = some m ∧ l ≤ m := by
  have hka := ha.k_le
  have hkb := hb.k_le
  have hpos : calBits a b ≠ 0 := by
    have := (calBits_lt_iff a b 1).mp
    have := ha.lsb_eq
    have := Nat.two_pow_pos (60 - 2*ka)
    omega
  have h1 := Nat.log2_lt (k := 61 - 2*l) hpos
  have h2 := calBits_lt_iff a b (2^(61 - 2*l))
  have la : l ≤ 30 → ((lsb a).toNat < 2^(61 - 2*l) ↔ l ≤ ka) := by
    intro hl
    rw [ha.lsb_eq, Nat.pow_lt_pow_iff_right (by omega)]; omega
  have lb : l ≤ 30 → ((lsb b).toNat < 2^(61 - 2*l) ↔ l ≤ kb) := by
    intro hl
    rw [hb.lsb_eq, Nat.pow_lt_pow_iff_right (by omega)]; omega
  rw [commonAncestorLevel_eq]
  constructor
  · rintro ⟨h1', h2', h3⟩
    have hl : l ≤ 30 := by omega
    rw [parent_eq_iff_div a b l hl, div_eq_iff_xor_lt] at h3
    have : (calBits a b).log2 < 61 - 2*l := by
      rw [h1, h2]; exact ⟨h3, (la hl).mpr h1', (lb hl).mpr h2'⟩
    refine ⟨(60 - (calBits a b).log2) / 2, ?_, by omega⟩
    rw [if_neg (by omega)]
  · rintro ⟨m, hm, hlm⟩
    split at hm
    · simp at hm
    · simp only [Option.some.injEq] at hm
      have hl : l ≤ 30 := by omega
      have : (calBits a b).log2 < 61 - 2*l := by omega
      rw [h1, h2] at this
      obtain ⟨x1, x2, x3⟩ := this
      rw [parent_eq_iff_div a b l hl, div_eq_iff_xor_lt]
      exact ⟨(la hl).mp x2, (lb hl).mp x3, x1⟩

end S2Proofs
