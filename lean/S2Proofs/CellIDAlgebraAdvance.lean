/-
  S2Proofs.CellIDAlgebraAdvance — helper lemmas for Advance / AdvanceWrap / DistanceFromBegin.
-/
import S2Proofs.CellIDAlgebraSteps
open S2 S2.CellID
namespace S2Proofs

theorem int64OfWord_of_lt (w : UInt64) (h : w.toNat < 2^63) : int64OfWord w = (w.toNat : Int) := by
  unfold int64OfWord
  rw [if_pos (by simpa using h)]

/-- the step adjustment of `AdvanceWrap`, verbatim, as a function of `min`, `max`, `wrap` -/
def wrapSteps (minS maxS wrap steps : Int) : Int :=
  if steps < 0 then
    if steps < minS then
      let s := tmod steps wrap
      if s < minS then s + wrap else s
    else steps
  else
    if steps > maxS then
      let s := tmod steps wrap
      if s > maxS then s - wrap else s
    else steps

/-- the step clamping of `Advance` -/
def clampSteps (minS maxS steps : Int) : Int :=
  if steps < 0 then (if steps < minS then minS else steps)
  else (if steps > maxS then maxS else steps)

theorem advanceWrap_unfold (x : CellID) (steps : Int) :
    advanceWrap x steps = if steps == 0 then x else
      x + (wordOfInt (wrapSteps
        (- int64OfWord (x >>> UInt64.ofNat (2 * (maxLevel - level x) + 1)))
        (int64OfWord ((wrapOffset - x) >>> UInt64.ofNat (2 * (maxLevel - level x) + 1)))
        (int64OfWord (wrapOffset >>> UInt64.ofNat (2 * (maxLevel - level x) + 1))) steps)
        <<< UInt64.ofNat (2 * (maxLevel - level x) + 1)) := rfl

theorem advance_unfold (x : CellID) (steps : Int) :
    advance x steps = if steps == 0 then x else
      x + (wordOfInt (clampSteps
        (- int64OfWord (x >>> UInt64.ofNat (2 * (maxLevel - level x) + 1)))
        (int64OfWord ((wrapOffset + lsb x - x) >>> UInt64.ofNat (2 * (maxLevel - level x) + 1))) steps)
        <<< UInt64.ofNat (2 * (maxLevel - level x) + 1)) := rfl

theorem tmod_facts (a b : Int) (hb : 0 < b) :
    (∃ q, tmod a b = a + b * q) ∧ (0 ≤ a → 0 ≤ tmod a b ∧ tmod a b < b) ∧
      (a < 0 → -b < tmod a b ∧ tmod a b ≤ 0) := by
  unfold tmod
  refine ⟨⟨- a.tdiv b, ?_⟩, ?_, ?_⟩
  · have := Int.tmod_add_mul_tdiv a b
    rw [Int.mul_neg]; omega
  · intro ha
    exact ⟨Int.tmod_nonneg _ ha, Int.tmod_lt_of_pos _ hb⟩
  · intro ha
    have h1 : (-a).tmod b = -(a.tmod b) := Int.neg_tmod a b
    have h2 := Int.tmod_nonneg (b := b) (a := -a) (by omega)
    have h3 := Int.tmod_lt_of_pos (-a) hb
    omega

/-- the adjusted step count of `AdvanceWrap` lands the index in `[0,N)` and is congruent mod `N` -/
theorem wrapSteps_spec (D N s : Int) (hD : 0 ≤ D) (hDN : D < N) :
    D + wrapSteps (-D) (N - D - 1) N s = (D + s) % N := by
  have hN : 0 < N := by omega
  obtain ⟨⟨q, hq⟩, hpos, hneg⟩ := tmod_facts s N hN
  have key : ∀ r q' : Int, 0 ≤ r → r < N → r = D + s + N * q' → r = (D + s) % N := by
    intro r q' h0 h1 he
    have : (D + s) = r + N * (-q') := by rw [Int.mul_neg]; omega
    rw [this, Int.add_mul_emod_self_left, Int.emod_eq_of_lt h0 h1]
  unfold wrapSteps
  simp only []
  split
  · rename_i hs
    obtain ⟨t1, t2⟩ := hneg hs
    split
    · split
      · exact key _ (q + 1) (by omega) (by omega) (by rw [Int.mul_add, Int.mul_one]; omega)
      · exact key _ q (by omega) (by omega) (by omega)
    · exact key _ 0 (by omega) (by omega) (by omega)
  · rename_i hs
    obtain ⟨t1, t2⟩ := hpos (by omega)
    split
    · split
      · exact key _ (q - 1) (by omega) (by omega) (by rw [Int.mul_sub, Int.mul_one]; omega)
      · exact key _ q (by omega) (by omega) (by omega)
    · exact key _ 0 (by omega) (by omega) (by omega)

theorem clampSteps_spec (D N s : Int) (hD : 0 ≤ D) (hDN : D < N) :
    D + clampSteps (-D) (N - D) s = max 0 (min N (D + s)) := by
  unfold clampSteps
  split <;> split <;> omega

theorem shl_lit_toNat (w : UInt64) (s : Nat) (hs : s < 64) :
    (w <<< UInt64.ofNat s).toNat = (w.toNat * 2^s) % 2^64 := by
  rw [UInt64.toNat_shiftLeft]
  have : (UInt64.ofNat s).toNat = s := by
    rw [UInt64.toNat_ofNat']; omega
  rw [this, Nat.mod_eq_of_lt hs, Nat.shiftLeft_eq]

theorem wordOfInt_toNat (s : Int) : ((wordOfInt s).toNat : Int) = s % 2^64 := by
  unfold wordOfInt
  rw [UInt64.toNat_ofNat']
  have h0 : 0 ≤ s % 18446744073709551616 := Int.emod_nonneg _ (by omega)
  have h1 : s % 18446744073709551616 < 18446744073709551616 := Int.emod_lt_of_pos _ (by omega)
  omega

/-- adding `s` steps (index stays in `[0, N]`) to a level-`k` cell, in word arithmetic -/
theorem IsCell.add_steps {x : CellID} {k : Nat} (h : IsCell x k) (s : Int)
    (h0 : 0 ≤ ((x.toNat / 2^(61 - 2*k) : Nat) : Int) + s)
    (h1 : ((x.toNat / 2^(61 - 2*k) : Nat) : Int) + s ≤ ((6 * 4^k : Nat) : Int)) :
    (x + (wordOfInt s <<< UInt64.ofNat (2 * (maxLevel - k) + 1))).toNat
      = (((x.toNat / 2^(61 - 2*k) : Nat) : Int) + s).toNat * 2^(61 - 2*k) + 2^(60 - 2*k) := by
  have hw := wordOfInt_toNat s
  have hwl := (wordOfInt s).toNat_lt
  obtain ⟨hk, hf, hlow⟩ := h
  rw [UInt64.toNat_add, shl_lit_toNat _ _ (by simp only [maxLevel]; omega)]
  simp only [maxLevel]
  generalize (wordOfInt s).toNat = W at *
  interval_cases k <;> cell_omega

theorem IsCell.shift_facts {x : CellID} {k : Nat} (h : IsCell x k) :
    int64OfWord (x >>> UInt64.ofNat (2 * (maxLevel - k) + 1)) = ((x.toNat / 2^(61 - 2*k) : Nat) : Int) ∧
    int64OfWord (wrapOffset >>> UInt64.ofNat (2 * (maxLevel - k) + 1)) = ((6 * 4^k : Nat) : Int) ∧
    int64OfWord ((wrapOffset - x) >>> UInt64.ofNat (2 * (maxLevel - k) + 1))
      = ((6 * 4^k : Nat) : Int) - ((x.toNat / 2^(61 - 2*k) : Nat) : Int) - 1 ∧
    int64OfWord ((wrapOffset + lsb x - x) >>> UInt64.ofNat (2 * (maxLevel - k) + 1))
      = ((6 * 4^k : Nat) : Int) - ((x.toNat / 2^(61 - 2*k) : Nat) : Int) := by
  have hl := h.lsb_eq
  obtain ⟨hk, hf, hlow⟩ := h
  have hs : 2 * (maxLevel - k) + 1 < 64 := by simp only [maxLevel]; omega
  have hx := x.toNat_lt
  have e1 := shiftRight_lit_toNat x _ hs
  have e2 := shiftRight_lit_toNat wrapOffset _ hs
  have e3 := shiftRight_lit_toNat (wrapOffset - x) _ hs
  have e4 := shiftRight_lit_toNat (wrapOffset + lsb x - x) _ hs
  rw [UInt64.toNat_sub, wrapOffset_toNat] at e3
  rw [UInt64.toNat_sub, UInt64.toNat_add, wrapOffset_toNat, hl] at e4
  rw [wrapOffset_toNat] at e2
  simp only [maxLevel] at *
  refine ⟨?_, ?_, ?_, ?_⟩
  · rw [int64OfWord_of_lt _ (by rw [e1]; interval_cases k <;> cell_omega), e1]
    interval_cases k <;> simp only [Nat.reducePow, Nat.reduceMul, Nat.reduceSub, Nat.reduceAdd]
  · rw [int64OfWord_of_lt _ (by rw [e2]; interval_cases k <;> cell_omega), e2]
    interval_cases k <;> simp only [Nat.reducePow, Nat.reduceMul, Nat.reduceSub, Nat.reduceAdd, Nat.reduceDiv]
  · rw [int64OfWord_of_lt _ (by rw [e3]; interval_cases k <;> cell_omega), e3]
    interval_cases k <;> cell_omega
  · rw [int64OfWord_of_lt _ (by rw [e4]; interval_cases k <;> cell_omega), e4]
    interval_cases k <;> cell_omega

theorem IsCell.distanceFromBegin_eq {x : CellID} {k : Nat} (h : IsCell x k) :
    distanceFromBegin x = ((x.toNat / 2^(61 - 2*k) : Nat) : Int) := by
  unfold distanceFromBegin
  rw [h.level_eq]; exact h.shift_facts.1

theorem IsCell.advanceWrap_toNat {x : CellID} {k : Nat} (h : IsCell x k) (s : Int) :
    (advanceWrap x s).toNat
      = ((((x.toNat / 2^(61 - 2*k) : Nat) : Int) + s) % ((6 * 4^k : Nat) : Int)).toNat * 2^(61 - 2*k)
        + 2^(60 - 2*k) := by
  obtain ⟨f1, f2, f3, _⟩ := h.shift_facts
  obtain ⟨hi, hD⟩ := h.index_form
  have hD0 : (0:Int) ≤ ((x.toNat / 2^(61 - 2*k) : Nat) : Int) := Int.natCast_nonneg _
  have hDN : ((x.toNat / 2^(61 - 2*k) : Nat) : Int) < ((6 * 4^k : Nat) : Int) := by exact_mod_cast hD
  rw [advanceWrap_unfold, h.level_eq, f1, f2, f3]
  by_cases hs : s = 0
  · subst hs
    simp only [Int.add_zero, beq_self_eq_true, if_true]
    rw [Int.emod_eq_of_lt hD0 hDN, Int.toNat_natCast]
    exact hi
  · have : (s == 0) = false := by simpa using hs
    rw [this]
    simp only [Bool.false_eq_true, if_false]
    have spec := wrapSteps_spec _ _ s hD0 hDN
    have r0 := Int.emod_nonneg (((x.toNat / 2^(61 - 2*k) : Nat) : Int) + s) (b := ((6 * 4^k : Nat) : Int)) (by omega)
    have r1 := Int.emod_lt_of_pos (((x.toNat / 2^(61 - 2*k) : Nat) : Int) + s) (b := ((6 * 4^k : Nat) : Int)) (by omega)
    rw [h.add_steps _ (by omega) (by omega), spec]

theorem IsCell.advance_toNat {x : CellID} {k : Nat} (h : IsCell x k) (s : Int) :
    (advance x s).toNat
      = (max 0 (min ((6 * 4^k : Nat) : Int) (((x.toNat / 2^(61 - 2*k) : Nat) : Int) + s))).toNat
          * 2^(61 - 2*k) + 2^(60 - 2*k) := by
  obtain ⟨f1, _, _, f4⟩ := h.shift_facts
  obtain ⟨hi, hD⟩ := h.index_form
  have hD0 : (0:Int) ≤ ((x.toNat / 2^(61 - 2*k) : Nat) : Int) := Int.natCast_nonneg _
  have hDN : ((x.toNat / 2^(61 - 2*k) : Nat) : Int) < ((6 * 4^k : Nat) : Int) := by exact_mod_cast hD
  rw [advance_unfold, h.level_eq, f1, f4]
  by_cases hs : s = 0
  · subst hs
    simp only [Int.add_zero, beq_self_eq_true, if_true]
    have : max 0 (min ((6 * 4^k : Nat) : Int) ((x.toNat / 2^(61 - 2*k) : Nat) : Int))
        = ((x.toNat / 2^(61 - 2*k) : Nat) : Int) := by omega
    rw [this, Int.toNat_natCast]
    exact hi
  · have : (s == 0) = false := by simpa using hs
    rw [this]
    simp only [Bool.false_eq_true, if_false]
    have spec := clampSteps_spec _ _ s hD0 hDN
    rw [h.add_steps _ (by omega) (by omega), spec]

theorem IsCell.wrap_index {x : CellID} {k : Nat} (h : IsCell x k) :
    (nextWrap x).toNat
      = ((((x.toNat / 2^(61 - 2*k) : Nat) : Int) + 1) % ((6 * 4^k : Nat) : Int)).toNat * 2^(61 - 2*k)
        + 2^(60 - 2*k) ∧
    (prevWrap x).toNat
      = ((((x.toNat / 2^(61 - 2*k) : Nat) : Int) + (-1)) % ((6 * 4^k : Nat) : Int)).toNat * 2^(61 - 2*k)
        + 2^(60 - 2*k) := by
  rw [h.nextWrap_toNat, h.prevWrap_toNat]
  obtain ⟨hk, hf, hlow⟩ := h
  constructor
  · interval_cases k <;> cell_omega
  · interval_cases k <;> cell_omega

theorem clamp_facts (N v : Int) (hN : 0 < N) :
    (0 ≤ max 0 (min N v)) ∧ (v < N → max 0 (min N v) < N) ∧ (N ≤ v → max 0 (min N v) = N) ∧
      (0 ≤ v → v ≤ N → max 0 (min N v) = v) ∧ (v ≤ 0 → max 0 (min N v) = 0) := by
  rcases Int.le_total N v with h1 | h1
  · rw [min_eq_left h1, max_eq_right (Int.le_of_lt hN)]; omega
  · rw [min_eq_right h1]
    rcases Int.le_total 0 v with h2 | h2
    · rw [max_eq_right h2]; omega
    · rw [max_eq_left h2]; omega

theorem sixPow_pos (k : Nat) : (0:Int) < ((6 * 4^k : Nat) : Int) := by
  have := Nat.pow_pos (n := k) (show 0 < 4 by omega); omega

theorem IsCell.advanceWrap_isCell {x : CellID} {k : Nat} (h : IsCell x k) (s : Int) :
    IsCell (advanceWrap x s) k ∧
      (((advanceWrap x s).toNat / 2^(61 - 2*k) : Nat) : Int)
        = (((x.toNat / 2^(61 - 2*k) : Nat) : Int) + s) % ((6 * 4^k : Nat) : Int) := by
  have e := h.advanceWrap_toNat s
  have hN : (0:Int) < ((6 * 4^k : Nat) : Int) := by
    have := Nat.pow_pos (n := k) (show 0 < 4 by omega); omega
  have r0 := Int.emod_nonneg (((x.toNat / 2^(61 - 2*k) : Nat) : Int) + s) (b := ((6 * 4^k : Nat) : Int)) (by omega)
  have r1 := Int.emod_lt_of_pos (((x.toNat / 2^(61 - 2*k) : Nat) : Int) + s) hN
  obtain ⟨hc, hi⟩ := isCell_of_index (y := advanceWrap x s) h.k_le (r := _) (by omega) e
  refine ⟨hc, ?_⟩
  rw [hi]; omega

theorem IsCell.advanceWrap_add {x : CellID} {k : Nat} (h : IsCell x k) (s t : Int) :
    advanceWrap (advanceWrap x s) t = advanceWrap x (s + t) := by
  obtain ⟨hc, hi⟩ := h.advanceWrap_isCell s
  apply UInt64.toNat_inj.mp
  rw [hc.advanceWrap_toNat t, h.advanceWrap_toNat (s + t), hi, Int.emod_add_emod, Int.add_assoc]

theorem IsCell.advanceWrap_period {x : CellID} {k : Nat} (h : IsCell x k) (s : Int) :
    advanceWrap x (s + ((6 * 4^k : Nat) : Int)) = advanceWrap x s := by
  apply UInt64.toNat_inj.mp
  rw [h.advanceWrap_toNat, h.advanceWrap_toNat, ← Int.add_assoc, Int.add_emod_right]

theorem IsCell.advanceWrap_one {x : CellID} {k : Nat} (h : IsCell x k) :
    advanceWrap x 1 = nextWrap x ∧ advanceWrap x (-1) = prevWrap x := by
  obtain ⟨e1, e2⟩ := h.wrap_index
  constructor
  · apply UInt64.toNat_inj.mp; rw [h.advanceWrap_toNat, e1]
  · apply UInt64.toNat_inj.mp; rw [h.advanceWrap_toNat, e2]

theorem IsCell.advance_cases {x : CellID} {k : Nat} (h : IsCell x k) (s : Int) :
    (((x.toNat / 2^(61 - 2*k) : Nat) : Int) + s < ((6 * 4^k : Nat) : Int) → IsCell (advance x s) k) ∧
    (((6 * 4^k : Nat) : Int) ≤ ((x.toNat / 2^(61 - 2*k) : Nat) : Int) + s →
      (advance x s).toNat = 6 * 2^61 + 2^(60 - 2*k)) := by
  have e := h.advance_toNat s
  have hk := h.k_le
  obtain ⟨c0, c1, c2, _, _⟩ := clamp_facts ((6 * 4^k : Nat) : Int)
    (((x.toNat / 2^(61 - 2*k) : Nat) : Int) + s) (sixPow_pos k)
  constructor
  · intro hlt
    exact (isCell_of_index (y := advance x s) hk (r := _) ((Int.toNat_lt c0).mpr (c1 hlt)) e).1
  · intro hge
    rw [e]
    rw [c2 hge, Int.toNat_natCast]
    interval_cases k <;> cell_omega

theorem IsCell.advance_one {x : CellID} {k : Nat} (h : IsCell x k) :
    advance x 1 = next x ∧ (2^(61 - 2*k) ≤ x.toNat → advance x (-1) = prev x) ∧
      (x.toNat < 2^(61 - 2*k) → advance x (-1) = x) := by
  obtain ⟨hi, hD⟩ := h.index_form
  obtain ⟨n1, _⟩ := h.next_low
  have hN0 := sixPow_pos k
  have hD0 : (0:Int) ≤ ((x.toNat / 2^(61 - 2*k) : Nat) : Int) := Int.natCast_nonneg _
  have hDN : ((x.toNat / 2^(61 - 2*k) : Nat) : Int) + 1 ≤ ((6 * 4^k : Nat) : Int) := by
    exact_mod_cast hD
  have t1 : (((x.toNat / 2^(61 - 2*k) : Nat) : Int) + 1).toNat = x.toNat / 2^(61 - 2*k) + 1 := by
    generalize x.toNat / 2^(61 - 2*k) = D; omega
  have t2 : (((x.toNat / 2^(61 - 2*k) : Nat) : Int) + -1).toNat = x.toNat / 2^(61 - 2*k) - 1 := by
    generalize x.toNat / 2^(61 - 2*k) = D; omega
  obtain ⟨_, _, _, c3, _⟩ := clamp_facts ((6 * 4^k : Nat) : Int)
    (((x.toNat / 2^(61 - 2*k) : Nat) : Int) + 1) hN0
  obtain ⟨_, _, _, d3, d4⟩ := clamp_facts ((6 * 4^k : Nat) : Int)
    (((x.toNat / 2^(61 - 2*k) : Nat) : Int) + -1) hN0
  have c3' := c3 (Int.add_nonneg hD0 (by decide)) hDN
  refine ⟨?_, ?_, ?_⟩
  · apply UInt64.toNat_inj.mp
    rw [h.advance_toNat 1, n1, c3', t1, Nat.add_mul]; omega
  · intro hge
    obtain ⟨_, p1⟩ := h.prev_isCell hge
    have hpos : 1 ≤ x.toNat / 2^(61 - 2*k) := (Nat.one_le_div_iff (Nat.two_pow_pos _)).mpr hge
    have hpos' : (0:Int) ≤ ((x.toNat / 2^(61 - 2*k) : Nat) : Int) + -1 := by
      generalize x.toNat / 2^(61 - 2*k) = D at *; omega
    have hle' : ((x.toNat / 2^(61 - 2*k) : Nat) : Int) + -1 ≤ ((6 * 4^k : Nat) : Int) := by
      generalize ((x.toNat / 2^(61 - 2*k) : Nat) : Int) = D at *; omega
    apply UInt64.toNat_inj.mp
    rw [h.advance_toNat (-1), p1, d3 hpos' hle', t2, Nat.sub_mul]
    generalize x.toNat / 2^(61 - 2*k) = D at *
    generalize 2^(61 - 2*k) = S at *
    have : S ≤ D * S := Nat.le_mul_of_pos_left _ (by omega)
    omega
  · intro hlt
    have h0 : x.toNat / 2^(61 - 2*k) = 0 := Nat.div_eq_of_lt hlt
    apply UInt64.toNat_inj.mp
    rw [h.advance_toNat (-1)]
    rw [h0] at hi d4 ⊢
    rw [d4 (by decide)]; simpa using hi.symm

theorem distance_canonical {x : CellID} {f k c : Nat} (_hf : f < 6) (hk : k ≤ 30) (hc : c < 4^k)
    (hx : x.toNat = f*2^61 + (2*c+1)*2^(60-2*k)) : x.toNat / 2^(61 - 2*k) = f * 4^k + c := by
  interval_cases k <;> cell_omega

end S2Proofs
