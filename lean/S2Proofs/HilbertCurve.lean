/-
  S2Proofs.HilbertCurve — continuity of the curve: consecutive positions of the 2-bit recursion
  `hIJ` are 4-adjacent in (i,j), at every number of levels (entry/exit-corner invariant).
-/
import S2Proofs.HilbertLemmas
open S2 S2.Hilbert
namespace S2Proofs

/-- (i,j) and (i',j') differ by exactly 1 in exactly one coordinate -/
def Adj (i j i' j' : Nat) : Prop :=
  (i' = i + 1 ∧ j' = j) ∨ (i = i' + 1 ∧ j' = j) ∨ (i' = i ∧ j' = j + 1) ∨ (i' = i ∧ j = j' + 1)

/-- entry corner of orientation `o` (same bit for both coordinates): the invert bit -/
def entryBit (o : Nat) : Nat := o / 2
/-- exit corner of orientation `o` -/
def exitI (o : Nat) : Nat := if o = 0 ∨ o = 3 then 1 else 0
def exitJ (o : Nat) : Nat := if o = 0 ∨ o = 3 then 0 else 1

theorem first_table : ∀ o < 4, posToIJ[o]![0]! / 2 = entryBit o ∧ posToIJ[o]![0]! % 2 = entryBit o ∧
    entryBit (o ^^^ posToOrientation[0]!) = entryBit o ∧ (o ^^^ posToOrientation[0]!) < 4 ∧ entryBit o ≤ 1 := by
  decide

theorem last_table : ∀ o < 4, posToIJ[o]![3]! / 2 = exitI o ∧ posToIJ[o]![3]! % 2 = exitJ o ∧
    exitI (o ^^^ posToOrientation[3]!) = exitI o ∧ exitJ (o ^^^ posToOrientation[3]!) = exitJ o ∧
    (o ^^^ posToOrientation[3]!) < 4 ∧ exitI o ≤ 1 ∧ exitJ o ≤ 1 := by
  decide

theorem corner_step (e X : Nat) (he : e ≤ 1) (hX : 1 ≤ X) : e * X + e * (X - 1) = e * (2 * X - 1) := by
  have : e = 0 ∨ e = 1 := by omega
  rcases this with rfl | rfl <;> omega

theorem hIJ_first : ∀ m o, o < 4 →
    (hIJ m o 0).1 = entryBit o * (2^m - 1) ∧ (hIJ m o 0).2.1 = entryBit o * (2^m - 1) := by
  intro m
  induction m with
  | zero => intro o _; simp [hIJ]
  | succ m ih =>
    intro o ho
    obtain ⟨t1, t2, t3, t4, t5⟩ := first_table o ho
    obtain ⟨i1, i2⟩ := ih _ t4
    have hX := Nat.two_pow_pos m
    simp only [hIJ, Nat.zero_div, Nat.zero_mod]
    rw [t1, t2, i1, i2, t3, Nat.pow_succ, Nat.mul_comm (2^m) 2]
    exact ⟨corner_step _ _ t5 hX, corner_step _ _ t5 hX⟩

theorem hIJ_last : ∀ m o, o < 4 →
    (hIJ m o (4^m - 1)).1 = exitI o * (2^m - 1) ∧ (hIJ m o (4^m - 1)).2.1 = exitJ o * (2^m - 1) := by
  intro m
  induction m with
  | zero => intro o _; simp [hIJ]
  | succ m ih =>
    intro o ho
    obtain ⟨t1, t2, t3, t4, t5, t6, t7⟩ := last_table o ho
    obtain ⟨i1, i2⟩ := ih _ t5
    have hX := Nat.two_pow_pos m
    have h4 : 0 < 4^m := Nat.pow_pos (by omega)
    have e : 4^(m+1) - 1 = 3 * 4^m + (4^m - 1) := by rw [Nat.pow_succ]; omega
    have ed : (4^(m+1) - 1) / 4^m % 4 = 3 := by rw [e, div_lem _ _ _ (by omega)]
    have em : (4^(m+1) - 1) % 4^m = 4^m - 1 := by rw [e, mod_lem _ _ _ (by omega)]
    simp only [hIJ, ed, em]
    rw [t1, t2, i1, i2, t3, t4, Nat.pow_succ, Nat.mul_comm (2^m) 2]
    exact ⟨corner_step _ _ t6 hX, corner_step _ _ t7 hX⟩

/-- exit corner of sub-block `d` faces the entry corner of sub-block `d+1` across their common edge -/
theorem corner_table : ∀ o < 4, ∀ d < 3,
    (o ^^^ posToOrientation[d]!) < 4 ∧ (o ^^^ posToOrientation[d+1]!) < 4 ∧
    ((posToIJ[o]![d+1]! / 2 = posToIJ[o]![d]! / 2 + 1 ∧ posToIJ[o]![d+1]! % 2 = posToIJ[o]![d]! % 2 ∧
        exitI (o ^^^ posToOrientation[d]!) = 1 ∧ exitJ (o ^^^ posToOrientation[d]!) = 0 ∧
        entryBit (o ^^^ posToOrientation[d+1]!) = 0) ∨
     (posToIJ[o]![d]! / 2 = posToIJ[o]![d+1]! / 2 + 1 ∧ posToIJ[o]![d+1]! % 2 = posToIJ[o]![d]! % 2 ∧
        exitI (o ^^^ posToOrientation[d]!) = 0 ∧ exitJ (o ^^^ posToOrientation[d]!) = 1 ∧
        entryBit (o ^^^ posToOrientation[d+1]!) = 1) ∨
     (posToIJ[o]![d+1]! / 2 = posToIJ[o]![d]! / 2 ∧ posToIJ[o]![d+1]! % 2 = posToIJ[o]![d]! % 2 + 1 ∧
        exitI (o ^^^ posToOrientation[d]!) = 0 ∧ exitJ (o ^^^ posToOrientation[d]!) = 1 ∧
        entryBit (o ^^^ posToOrientation[d+1]!) = 0) ∨
     (posToIJ[o]![d+1]! / 2 = posToIJ[o]![d]! / 2 ∧ posToIJ[o]![d]! % 2 = posToIJ[o]![d+1]! % 2 + 1 ∧
        exitI (o ^^^ posToOrientation[d]!) = 1 ∧ exitJ (o ^^^ posToOrientation[d]!) = 0 ∧
        entryBit (o ^^^ posToOrientation[d+1]!) = 1)) := by
  intro o ho d hd
  interval_cases o <;> interval_cases d <;> decide

theorem Adj_translate {a b i j i' j' : Nat} (h : Adj i j i' j') : Adj (a + i) (b + j) (a + i') (b + j') := by
  unfold Adj at *; omega

/-- consecutive positions are 4-adjacent, for every number of levels -/
theorem hIJ_adj : ∀ m o p, o < 4 → p + 1 < 4^m →
    Adj (hIJ m o p).1 (hIJ m o p).2.1 (hIJ m o (p+1)).1 (hIJ m o (p+1)).2.1 := by
  intro m
  induction m with
  | zero => intro o p _ hp; simp at hp
  | succ m ih =>
    intro o p ho hp
    have h4 : 0 < 4^m := Nat.pow_pos (by omega)
    have hS := Nat.two_pow_pos m
    have hdm := Nat.div_add_mod p (4^m)
    have hq := Nat.mod_lt p h4
    have hd4 : p / 4^m < 4 := by
      rw [Nat.div_lt_iff_lt_mul h4]; rw [Nat.pow_succ] at hp; omega
    by_cases hc : p % 4^m + 1 < 4^m
    · -- same sub-block
      have e1 : (p + 1) / 4^m = p / 4^m := by
        have : p + 1 = (p / 4^m) * 4^m + (p % 4^m + 1) := by rw [Nat.mul_comm]; omega
        rw [this, div_lem _ _ _ hc]
      have e2 : (p + 1) % 4^m = p % 4^m + 1 := by
        have : p + 1 = (p / 4^m) * 4^m + (p % 4^m + 1) := by rw [Nat.mul_comm]; omega
        rw [this, mod_lem _ _ _ hc]
      have hd : p / 4^m % 4 < 4 := Nat.mod_lt _ (by omega)
      obtain ⟨_, _, h3, _, _⟩ := tbl_small o ho _ hd
      have := ih (o ^^^ posToOrientation[p / 4^m % 4]!) (p % 4^m) h3 hc
      simp only [hIJ, e1, e2]
      exact Adj_translate this
    · -- last cell of sub-block d, first cell of sub-block d+1
      have hlast : p % 4^m = 4^m - 1 := by omega
      have e1 : (p + 1) / 4^m = p / 4^m + 1 := by
        have : p + 1 = (p / 4^m + 1) * 4^m + 0 := by rw [Nat.add_mul, Nat.mul_comm]; omega
        rw [this, div_lem _ _ _ h4]
      have e2 : (p + 1) % 4^m = 0 := by
        have : p + 1 = (p / 4^m + 1) * 4^m + 0 := by rw [Nat.add_mul, Nat.mul_comm]; omega
        rw [this, mod_lem _ _ _ h4]
      have hd3 : p / 4^m < 3 := by
        have : (p + 1) / 4^m < 4 := by
          rw [Nat.div_lt_iff_lt_mul h4]; rw [Nat.pow_succ] at hp; omega
        omega
      have m1 : p / 4^m % 4 = p / 4^m := Nat.mod_eq_of_lt hd4
      have m2 : (p / 4^m + 1) % 4 = p / 4^m + 1 := Nat.mod_eq_of_lt (by omega)
      obtain ⟨o1, o2, hT⟩ := corner_table o ho (p / 4^m) hd3
      obtain ⟨l1, l2⟩ := hIJ_last m _ o1
      obtain ⟨f1, f2⟩ := hIJ_first m _ o2
      simp only [hIJ, e1, e2, m1, m2, hlast]
      rw [l1, l2, f1, f2]
      generalize hSe : 2^m = S at *
      have hS1 : 0 < S := hSe ▸ Nat.two_pow_pos m
      generalize posToIJ[o]![p / 4^m]! / 2 = a at *
      generalize posToIJ[o]![p / 4^m]! % 2 = b at *
      generalize posToIJ[o]![p / 4^m + 1]! / 2 = a' at *
      generalize posToIJ[o]![p / 4^m + 1]! % 2 = b' at *
      unfold Adj
      rcases hT with ⟨r1, r2, r3, r4, r5⟩ | ⟨r1, r2, r3, r4, r5⟩ | ⟨r1, r2, r3, r4, r5⟩ | ⟨r1, r2, r3, r4, r5⟩ <;>
        (rw [r3, r4, r5]; subst r1; subst r2;
         simp only [Nat.add_mul, Nat.one_mul, Nat.zero_mul, Nat.add_zero, and_true, true_and]; omega)

end S2Proofs
