/-
  S2Proofs.HilbertGeometry — cells as ij-squares: a level-k cell is exactly the set of leaves whose
  (i,j) lie in one aligned square of side 2^(30-k); consecutive level-k cells of a face are
  edge-adjacent squares.
-/
import S2Proofs.HilbertCells
import S2Proofs.HilbertCurve
open S2 S2.CellID S2.Hilbert
namespace S2Proofs

theorem isCell_of_valid {id : CellID} (hv : isValid id = true) : IsCell id (level id) := by
  obtain ⟨k, h⟩ := (isValid_iff id).mp hv
  rw [h.level_eq]; exact h

section
variable {L : Nat} (hL : L = 30)
include hL

/-- square coordinates (i / 2^(30-k), j / 2^(30-k)) of any word = level-k decoding of its position prefix -/
theorem square_eq (ci : CellID) (k : Nat) (hk : k ≤ 30) :
    (faceIJOrientation ci).2.1 / 2^(30-k) = (hIJ k (face ci &&& 1) (posBits60 ci / 4^(30-k))).1 ∧
    (faceIJOrientation ci).2.2.1 / 2^(30-k) = (hIJ k (face ci &&& 1) (posBits60 ci / 4^(30-k))).2.1 := by
  rw [faceIJOrientation_spec hL]
  have e30 : L = k + (30 - k) := by omega
  have hs := hIJ_add (30-k) k (face ci &&& 1) (posBits60 ci)
  rw [← e30] at hs
  have hb := hIJ_bounds (30-k) (hIJ k (face ci &&& 1) (posBits60 ci / 4^(30-k))).2.2 (posBits60 ci % 4^(30-k))
    (hIJ_bounds k _ _ (and_one_lt4 _)).2.2
  rw [hs]
  exact ⟨div_lem _ _ _ hb.1, div_lem _ _ _ hb.2.1⟩

omit hL in
theorem four_pow_eq (n : Nat) : (4:Nat)^n = 2^(2*n) := by
  rw [show (4:Nat) = 2^2 from rfl, ← Nat.pow_mul]

omit hL in
theorem next_pos_arith0 (x k : Nat) (hk : k ≤ 30)
    (hface : (x + 2^(61 - 2*k)) / 2^61 = x / 2^61) :
    (x + 2^(61 - 2*k)) / 2 = x / 2 + 2^(60 - 2*k) ∧ (x / 2 + 2^(60 - 2*k)) / 2^60 = (x / 2) / 2^60 := by
  interval_cases k <;> cell_omega

omit hL in
theorem next_pos_arith1 (x k : Nat) (hk : k ≤ 30)
    (hface : (x + 2^(61 - 2*k)) / 2^61 = x / 2^61) :
    ((x + 2^(61 - 2*k)) / 2 % 2^60) / 2^(60 - 2*k) = (x / 2 % 2^60) / 2^(60 - 2*k) + 1 := by
  obtain ⟨s1, s2⟩ := next_pos_arith0 x k hk hface
  rw [s1]
  have hM := Nat.two_pow_pos (60 - 2*k)
  generalize 2^(60 - 2*k) = M at *
  generalize x / 2 = u at *
  have : (u + M) % 2^60 = u % 2^60 + M := by
    have d1 := Nat.div_add_mod (u + M) (2^60)
    have d2 := Nat.div_add_mod u (2^60)
    rw [s2] at d1
    omega
  rw [this, Nat.add_div_right _ hM]

omit hL in
theorem next_pos_arith2 (x k : Nat) (hk : k ≤ 30) (hlow : x % 2^(61 - 2*k) = 2^(60 - 2*k))
    (hx : x + 2^(61 - 2*k) < 2^64)
    (hface : (x + 2^(61 - 2*k)) / 2^61 = x / 2^61) :
    ((x + 2^(61 - 2*k)) / 2 % 2^60) / 2^(60 - 2*k) = (x / 2 % 2^60) / 2^(60 - 2*k) + 1 ∧
    (x / 2 % 2^60) / 2^(60 - 2*k) + 1 < 2^(2*k) := by
  refine ⟨next_pos_arith1 x k hk hface, ?_⟩
  interval_cases k <;> cell_omega

omit hL in
theorem next_pos_arith (x k : Nat) (hk : k ≤ 30) (hlow : x % 2^(61 - 2*k) = 2^(60 - 2*k))
    (hx : x + 2^(61 - 2*k) < 2^64)
    (hface : (x + 2^(61 - 2*k)) / 2^61 = x / 2^61) :
    ((x + 2^(61 - 2*k)) / 2 % 2^60) / 4^(30-k) = (x / 2 % 2^60) / 4^(30-k) + 1 ∧
    (x / 2 % 2^60) / 4^(30-k) + 1 < 4^k := by
  rw [four_pow_eq, four_pow_eq, show 2 * (30 - k) = 60 - 2*k by omega]
  exact next_pos_arith2 x k hk hlow hx hface

/-- consecutive cells of one level on one face are edge-adjacent squares -/
theorem next_adjacent (ci : CellID) (k : Nat) (h : IsCell ci k) (hface : face (next ci) = face ci) :
    Adj ((faceIJOrientation ci).2.1 / 2^(30-k)) ((faceIJOrientation ci).2.2.1 / 2^(30-k))
        ((faceIJOrientation (next ci)).2.1 / 2^(30-k)) ((faceIJOrientation (next ci)).2.2.1 / 2^(30-k)) := by
  obtain ⟨a1, a2⟩ := square_eq hL ci k h.k_le
  obtain ⟨b1, b2⟩ := square_eq hL (next ci) k h.k_le
  rw [a1, a2, b1, b2, hface]
  have hn := h.next_toNat
  have hlt : ci.toNat + 2^(61 - 2*k) < 2^64 := by
    have := h.face_lt; have hk := h.k_le
    have : 2^(61 - 2*k) ≤ 2^61 := Nat.pow_le_pow_right (by omega) (by omega)
    omega
  rw [Nat.mod_eq_of_lt hlt] at hn
  rw [face_toNat, face_toNat, hn] at hface
  obtain ⟨e1, e2⟩ := next_pos_arith ci.toNat k h.k_le h.low hlt hface
  unfold posBits60
  rw [hn, e1]
  exact hIJ_adj k _ _ (and_one_lt4 _) e2

/-- a level-k cell contains exactly the leaves of its face whose (i,j) lie in its square -/
theorem contains_leaf_iff_square (ci : CellID) (k : Nat) (h : IsCell ci k) (f i j : Nat) (hf : f < 6)
    (hi : i < 2^30) (hj : j < 2^30) :
    contains ci (cellIDFromFaceIJ f i j) = true ↔
      f = face ci ∧ i / 2^(30-k) = (faceIJOrientation ci).2.1 / 2^(30-k) ∧
        j / 2^(30-k) = (faceIJOrientation ci).2.2.1 / 2^(30-k) := by
  obtain ⟨g1, g2, g3, _, g5⟩ := faceIJOrientation_leaf_in_cell hL ci k h
  obtain ⟨hleaf, _, _⟩ := cellIDFromFaceIJ_facts hL f i j hf hi hj
  rw [h.contains_iff_parent hleaf]
  have key := parent_cellIDFromFaceIJ_eq_iff hL f i j (faceIJOrientation ci).1 (faceIJOrientation ci).2.1
    (faceIJOrientation ci).2.2.1 k hf (by rw [g1]; exact h.face_lt6) hi hj g2 g3 h.k_le
  rw [g5, g1] at key
  constructor
  · rintro ⟨_, hp⟩; exact key.mp hp
  · intro hh; exact ⟨h.k_le, key.mpr hh⟩

end

end S2Proofs
