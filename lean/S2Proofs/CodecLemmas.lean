/-
  S2Proofs.CodecLemmas — helper lemmas for property C09 (encoding is lossless).
  The material lives in `S2Proofs/Codec/*`:
    Prim        little-endian, uvarint, N-th derivative coder
    Interleave  bit interleave (table based) and zig-zag, all 32-bit values
    Points      face runs, per-point pipeline, off-centre list, compressed point list
    Lossless    Point, Cap, Rect, CellID, Cell, CellUnion, Polyline, Loop, lossless Polygon
    F64Exact    siTiToST(si) = piQiToST(pi, L) for every centre coordinate (soft-float, exact)
    Compressed  snap detection ⇒ decoder expression, compressed Loop / Polygon
-/
import S2Proofs.Codec.Prim
import S2Proofs.Codec.Interleave
import S2Proofs.Codec.Points
import S2Proofs.Codec.Lossless
import S2Proofs.Codec.F64Exact
import S2Proofs.Codec.Compressed
namespace S2Proofs.Codec
open S2 S2.Codec

/-- the bit-level laws, proved for all 32-bit values -/
theorem bitLaws : BitLaws :=
  ⟨deinterleave_interleave, deinterleave_interleave_trunc, zigzagDecode_encode⟩

end S2Proofs.Codec
