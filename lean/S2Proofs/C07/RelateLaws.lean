/-
  S2Proofs.C07.RelateLaws — set-algebra laws of the exact brute-force loop relations of
  `S2.Relate` at MODEL level, for every geometry satisfying `SgLaws`.
-/
import S2.Relate
import S2Proofs.C07.Wedge

namespace S2Proofs.C07
open S2.Relate

set_option linter.unusedSectionVars false

section
variable {α : Type} [DecidableEq α] {G : Geo α}

/-! ### R1 : symmetries of `crossingSign` -/

theorem sg_swap12 (h : SgLaws G) (a b c : α) : G.sg b a c = -G.sg a b c := by
  have h1 := h.swap c a b
  have h2 := h.rot b c a
  have h3 := h.rot a b c
  omega

/-- `crossingSign` in normal form -/
theorem crossingSign_eq (a b c d : α) :
    crossingSign G a b c d =
      if a = c ∨ a = d ∨ b = c ∨ b = d then 0
      else if a = b ∨ c = d then -1
      else if G.sg a b d = -G.sg a b c ∧ G.sg c d b = G.sg a b c ∧ G.sg c d a = -G.sg a b c then 1
      else -1 := by
  unfold crossingSign crossingSignS
  by_cases h1 : a = c ∨ a = d ∨ b = c ∨ b = d
  · simp only [h1, if_true]
  · simp only [h1, if_false]
    by_cases h2 : a = b ∨ c = d
    · simp only [h2, if_true]
    · simp only [h2, if_false]
      by_cases h3 : G.sg a b d = -G.sg a b c
      · by_cases h4 : G.sg c d b = G.sg a b c
        · by_cases h5 : G.sg c d a = -G.sg a b c
          · simp [h3, h4, h5]
          · simp [h3, h4, h5]
        · have : ¬ (-G.sg c d b = -G.sg a b c) := by omega
          simp [h3, h4, this]
      · simp [h3]

theorem crossingSign_swap_ab (h : SgLaws G) (a b c d : α) :
    crossingSign G b a c d = crossingSign G a b c d := by
  rw [crossingSign_eq, crossingSign_eq, sg_swap12 h a b c, sg_swap12 h a b d]
  have e1 : (b = c ∨ b = d ∨ a = c ∨ a = d) ↔ (a = c ∨ a = d ∨ b = c ∨ b = d) := by
    constructor <;> rintro (e | e | e | e) <;> simp [e]
  have e2 : (b = a ∨ c = d) ↔ (a = b ∨ c = d) := by rw [eq_comm]
  have e3 : (-G.sg a b d = - -G.sg a b c ∧ G.sg c d a = -G.sg a b c ∧ G.sg c d b = - -G.sg a b c) ↔
      (G.sg a b d = -G.sg a b c ∧ G.sg c d b = G.sg a b c ∧ G.sg c d a = -G.sg a b c) := by omega
  simp only [e1, e2, e3]

theorem crossingSign_swap_cd (h : SgLaws G) (a b c d : α) :
    crossingSign G a b d c = crossingSign G a b c d := by
  rw [crossingSign_eq, crossingSign_eq, sg_swap12 h c d b, sg_swap12 h c d a]
  have e1 : (a = d ∨ a = c ∨ b = d ∨ b = c) ↔ (a = c ∨ a = d ∨ b = c ∨ b = d) := by
    constructor <;> rintro (e | e | e | e) <;> simp [e]
  have e2 : (a = b ∨ d = c) ↔ (a = b ∨ c = d) := by rw [eq_comm (a := d)]
  by_cases h1 : a = c ∨ a = d ∨ b = c ∨ b = d
  · simp only [e1, h1, if_true]
  · by_cases h2 : a = b ∨ c = d
    · simp only [e1, e2, h1, h2, if_true, if_false]
    · simp only [e1, e2, h1, h2, if_false]
      have e3 : (G.sg a b c = -G.sg a b d ∧ -G.sg c d b = G.sg a b d ∧ -G.sg c d a = -G.sg a b d) ↔
          (G.sg a b d = -G.sg a b c ∧ G.sg c d b = G.sg a b c ∧ G.sg c d a = -G.sg a b c) := by
        omega
      simp only [e3]

/-- holds by the shape of the definition, no law needed -/
theorem crossingSign_swap_pairs (a b c d : α) :
    crossingSign G c d a b = crossingSign G a b c d := by
  rw [crossingSign_eq, crossingSign_eq]
  have e1 : (c = a ∨ c = b ∨ d = a ∨ d = b) ↔ (a = c ∨ a = d ∨ b = c ∨ b = d) := by
    constructor <;> rintro (e | e | e | e) <;> simp [e]
  have e2 : (c = d ∨ a = b) ↔ (a = b ∨ c = d) := or_comm
  have e3 : (G.sg c d b = -G.sg c d a ∧ G.sg a b d = G.sg c d a ∧ G.sg a b c = -G.sg c d a) ↔
      (G.sg a b d = -G.sg a b c ∧ G.sg c d b = G.sg a b c ∧ G.sg c d a = -G.sg a b c) := by omega
  simp only [e1, e2, e3]

/-! ### generic list facts -/

theorem any_range_comm (n m : Nat) (f : Nat → Nat → Bool) :
    ((List.range n).any fun i => (List.range m).any fun j => f i j) =
    ((List.range m).any fun j => (List.range n).any fun i => f i j) := by
  rw [Bool.eq_iff_iff]
  simp only [List.any_eq_true, List.mem_range]
  constructor
  · rintro ⟨i, hi, j, hj, e⟩; exact ⟨j, hj, i, hi, e⟩
  · rintro ⟨j, hj, i, hi, e⟩; exact ⟨i, hi, j, hj, e⟩

/-! ### R2 : `intersects` is symmetric -/

theorem anyCrossing_symm (A B : Loop α) : anyCrossing G A B = anyCrossing G B A := by
  unfold anyCrossing
  rw [any_range_comm]
  simp only [crossingSign_swap_pairs (G := G)]

theorem mem_sharedVertices (A B : Loop α) (i j : Nat) :
    (i, j) ∈ sharedVertices G A B ↔
      i < A.numEdges ∧ j < B.numEdges ∧ A.vertex G i = B.vertex G j := by
  unfold sharedVertices
  simp only [List.mem_flatMap, List.mem_filterMap, List.mem_range]
  constructor
  · rintro ⟨i', hi', j', hj', e⟩
    by_cases hv : A.vertex G i' = B.vertex G j'
    · simp only [hv, if_true, Option.some.injEq, Prod.mk.injEq] at e
      obtain ⟨rfl, rfl⟩ := e
      exact ⟨hi', hj', hv⟩
    · simp [hv] at e
  · rintro ⟨hi, hj, hv⟩
    exact ⟨i, hi, j, hj, by simp [hv]⟩

theorem mem_sharedVertices_swap (A B : Loop α) (i j : Nat) :
    (i, j) ∈ sharedVertices G A B ↔ (j, i) ∈ sharedVertices G B A := by
  rw [mem_sharedVertices, mem_sharedVertices]
  constructor
  · rintro ⟨a, b, c⟩; exact ⟨b, a, c.symm⟩
  · rintro ⟨a, b, c⟩; exact ⟨b, a, c.symm⟩

theorem intersectsWedgeCross_swap (A B : Loop α) (i j : Nat)
    (hv : A.vertex G i = B.vertex G j) :
    intersectsWedgeCross G A B (i, j) = intersectsWedgeCross G B A (j, i) := by
  simp only [intersectsWedgeCross, hv]
  exact wedgeIntersects_symm G _ _ _ _ _

theorem sharedVertices_isEmpty_swap (A B : Loop α) :
    (sharedVertices G A B).isEmpty = (sharedVertices G B A).isEmpty := by
  rw [Bool.eq_iff_iff]
  simp only [List.isEmpty_iff, List.eq_nil_iff_forall_not_mem]
  constructor
  · intro hh p hp; exact hh (p.2, p.1) ((mem_sharedVertices_swap B A p.1 p.2).1 hp)
  · intro hh p hp; exact hh (p.2, p.1) ((mem_sharedVertices_swap A B p.1 p.2).1 hp)

theorem sharedVertices_any_intersects_swap (A B : Loop α) :
    (sharedVertices G A B).any (intersectsWedgeCross G A B) =
    (sharedVertices G B A).any (intersectsWedgeCross G B A) := by
  rw [Bool.eq_iff_iff]
  simp only [List.any_eq_true]
  constructor
  · rintro ⟨⟨i, j⟩, hp, e⟩
    refine ⟨(j, i), (mem_sharedVertices_swap A B i j).1 hp, ?_⟩
    rw [← intersectsWedgeCross_swap A B i j ((mem_sharedVertices A B i j).1 hp).2.2]; exact e
  · rintro ⟨⟨j, i⟩, hp, e⟩
    refine ⟨(i, j), (mem_sharedVertices_swap B A j i).1 hp, ?_⟩
    rw [← intersectsWedgeCross_swap B A j i ((mem_sharedVertices B A j i).1 hp).2.2]; exact e

/-- R2 : `Intersects` is symmetric, for ALL loops (no validity needed) -/
theorem intersects_symm (A B : Loop α) : intersects G A B = intersects G B A := by
  unfold intersects intersectsWith scan
  simp only []
  rw [anyCrossing_symm A B, sharedVertices_any_intersects_swap A B,
    sharedVertices_isEmpty_swap A B, Bool.or_comm A.isEmpty,
    Bool.or_comm (A.containsPoint G (B.vertex G 0))]

/-! ### R3 : reflexivity -/

/-- a degenerate edge (v,v) is never crossed -/
theorem edgeOrVertexCrossing_degenerate (a b v : α) : edgeOrVertexCrossing G a b v v = false := by
  unfold edgeOrVertexCrossing
  rw [crossingSign_eq]
  by_cases h1 : a = v ∨ b = v
  · simp [h1, vertexCrossing]
  · simp [h1]
    intro e; exact absurd (Or.inl e) h1

/-- the one-vertex loops contain a point iff `originInside` -/
theorem containsPoint_of_size_one (A : Loop α) (h1 : A.vs.size = 1) (p : α) :
    A.containsPoint G p = A.originInside := by
  unfold Loop.containsPoint
  have e : A.vertex G (0 + 1) = A.vertex G 0 := by simp [Loop.vertex, h1]
  simp [h1, List.range_succ, e, edgeOrVertexCrossing_degenerate]

theorem numEdges_of_size_one (A : Loop α) (h1 : A.vs.size = 1) : A.numEdges = 0 := by
  simp [Loop.numEdges, Loop.isEmptyOrFull, h1]

theorem numEdges_of_size_ne_one (A : Loop α) (h1 : A.vs.size ≠ 1) : A.numEdges = A.vs.size := by
  simp [Loop.numEdges, Loop.isEmptyOrFull, h1]

theorem anyCrossing_of_numEdges_zero_left (A B : Loop α) (h0 : A.numEdges = 0) :
    anyCrossing G A B = false := by
  simp [anyCrossing, h0]

theorem anyCrossing_of_numEdges_zero_right (A B : Loop α) (h0 : B.numEdges = 0) :
    anyCrossing G A B = false := by
  simp [anyCrossing, h0]

theorem sharedVertices_of_numEdges_zero_left (A B : Loop α) (h0 : A.numEdges = 0) :
    sharedVertices G A B = [] := by
  simp [sharedVertices, h0]

theorem sharedVertices_of_numEdges_zero_right (A B : Loop α) (h0 : B.numEdges = 0) :
    sharedVertices G A B = [] := by
  simp [sharedVertices, h0]

/-- the empty and the full loop contain themselves -/
theorem contains_refl_of_size_one (A : Loop α) (h1 : A.vs.size = 1) : contains G A A = true := by
  unfold contains containsWith
  cases ho : A.originInside <;> simp [Loop.isEmptyOrFull, Loop.isFull, Loop.isEmpty, h1, ho]

/-- the full loop intersects itself, the empty loop does not -/
theorem intersects_refl_of_size_one (A : Loop α) (h1 : A.vs.size = 1) :
    intersects G A A = !A.isEmpty := by
  unfold intersects intersectsWith scan
  simp only [anyCrossing_of_numEdges_zero_left A A (numEdges_of_size_one A h1),
    sharedVertices_of_numEdges_zero_left A A (numEdges_of_size_one A h1),
    containsPoint_of_size_one A h1]
  cases ho : A.originInside <;> simp [Loop.isEmptyOrFull, Loop.isEmpty, h1, ho]

/-- the hypotheses of reflexivity for a proper loop: at least three, pairwise distinct vertices and
    no pair of edges crossing properly -/
structure SimpleLoop (G : Geo α) (A : Loop α) : Prop where
  three : 3 ≤ A.vs.size
  distinct : ∀ i j, i < A.vs.size → j < A.vs.size → A.vertex G i = A.vertex G j → i = j
  noCross : anyCrossing G A A = false

theorem vertex_add_size (A : Loop α) (i : Nat) : A.vertex G (i + A.vs.size) = A.vertex G i := by
  simp [Loop.vertex]

theorem contains_refl (h : SgLaws G) (A : Loop α) (hA : SimpleLoop G A) :
    contains G A A = true := by
  have hn1 : A.vs.size ≠ 1 := by have := hA.three; omega
  have hne : A.numEdges = A.vs.size := numEdges_of_size_ne_one A hn1
  have hany : (sharedVertices G A A).any (containsWedgeCross G A A) = false := by
    rw [Bool.eq_false_iff]
    intro hh
    rw [List.any_eq_true] at hh
    obtain ⟨⟨i, j⟩, hp, e⟩ := hh
    obtain ⟨hi, hj, hv⟩ := (mem_sharedVertices A A i j).1 hp
    rw [hne] at hi hj
    have hij : i = j := hA.distinct i j hi hj hv
    subst hij
    simp [containsWedgeCross, wedgeContains_refl h] at e
  have hmem : (0, 0) ∈ sharedVertices G A A :=
    (mem_sharedVertices A A 0 0).2 ⟨by rw [hne]; have := hA.three; omega,
      by rw [hne]; have := hA.three; omega, rfl⟩
  have hnonempty : (sharedVertices G A A).isEmpty = false := by
    rw [Bool.eq_false_iff]; intro hh
    rw [List.isEmpty_iff] at hh; rw [hh] at hmem; exact absurd hmem List.not_mem_nil
  unfold contains containsWith scan
  simp [Loop.isEmptyOrFull, hn1, hA.noCross, hany, hnonempty]

theorem intersects_refl (h : SgLaws G) (A : Loop α) (hA : SimpleLoop G A) :
    intersects G A A = true := by
  have h3 := hA.three
  have hn1 : A.vs.size ≠ 1 := by omega
  have hne : A.numEdges = A.vs.size := numEdges_of_size_ne_one A hn1
  have hmem : (0, 0) ∈ sharedVertices G A A :=
    (mem_sharedVertices A A 0 0).2 ⟨by rw [hne]; omega, by rw [hne]; omega, rfl⟩
  have hprev : A.prev G 0 = A.vertex G (A.vs.size - 1) := by
    simp [Loop.prev]
  have d1 : A.prev G 0 ≠ A.vertex G 0 := by
    rw [hprev]; intro e
    have := hA.distinct _ _ (by omega) (by omega) e; omega
  have d2 : A.next G 0 ≠ A.vertex G 0 := by
    intro e
    have := hA.distinct (0 + 1) 0 (by omega) (by omega) e; omega
  have d3 : A.prev G 0 ≠ A.next G 0 := by
    rw [hprev]; intro e
    have := hA.distinct (A.vs.size - 1) (0 + 1) (by omega) (by omega) e; omega
  have hany : (sharedVertices G A A).any (intersectsWedgeCross G A A) = true := by
    rw [List.any_eq_true]
    exact ⟨(0, 0), hmem, wedgeIntersects_refl h _ _ _ d1 d2 d3⟩
  unfold intersects intersectsWith scan
  simp [Loop.isEmpty, Loop.isEmptyOrFull, hn1, hA.noCross, hany]

/-! ### R4 : complement laws -/

theorem invert_size (A : Loop α) : A.invert.vs.size = A.vs.size := by simp [Loop.invert]

theorem invert_invert (A : Loop α) : A.invert.invert = A := by
  cases A; simp [Loop.invert]

theorem invert_isEmptyOrFull (A : Loop α) : A.invert.isEmptyOrFull = A.isEmptyOrFull := by
  simp [Loop.isEmptyOrFull, invert_size]

theorem invert_originInside (A : Loop α) : A.invert.originInside = !A.originInside := rfl

theorem invert_isEmpty (A : Loop α) : A.invert.isEmpty = A.isFull := by
  simp [Loop.isEmpty, Loop.isFull, invert_isEmptyOrFull, invert_originInside]

theorem invert_isFull (A : Loop α) : A.invert.isFull = A.isEmpty := by
  simp [Loop.isEmpty, Loop.isFull, invert_isEmptyOrFull, invert_originInside]

theorem invert_numEdges (A : Loop α) : A.invert.numEdges = A.numEdges := by
  simp [Loop.numEdges, invert_isEmptyOrFull, invert_size]

theorem numEdges_le_size (A : Loop α) : A.numEdges ≤ A.vs.size := by
  unfold Loop.numEdges; split <;> omega

/-- the index lemma: vertex i of the inverted loop is vertex n-1-i -/
theorem invert_vertex (A : Loop α) (i : Nat) (hi : i < A.vs.size) :
    A.invert.vertex G i = A.vertex G (A.vs.size - 1 - i) := by
  unfold Loop.vertex
  rw [invert_size, Nat.mod_eq_of_lt hi, Nat.mod_eq_of_lt (by omega)]
  have h2 : A.vs.size - 1 - i < A.vs.size := by omega
  simp [Loop.invert, Array.getD, hi, h2]

theorem vertex_eq_of_eq_add (A : Loop α) (i j : Nat) (e : i = j + A.vs.size) :
    A.vertex G i = A.vertex G j := by
  rw [e]; exact vertex_add_size A j

theorem invert_vertex' (A : Loop α) (i : Nat) (hi : i < A.vs.size) :
    A.invert.vertex G (A.vs.size - 1 - i) = A.vertex G i := by
  rw [invert_vertex A _ (by omega)]
  congr 1; omega

theorem invert_next (A : Loop α) (i : Nat) (hi : i < A.vs.size) :
    A.invert.next G (A.vs.size - 1 - i) = A.prev G i := by
  unfold Loop.next Loop.prev
  by_cases h0 : i = 0
  · subst h0
    rw [vertex_eq_of_eq_add A.invert (A.vs.size - 1 - 0 + 1) 0 (by rw [invert_size]; omega),
      invert_vertex A 0 hi]
    congr 1; omega
  · rw [invert_vertex A _ (by omega), vertex_eq_of_eq_add A (i + A.vs.size - 1) (i - 1) (by omega)]
    congr 1; omega

theorem invert_prev (A : Loop α) (i : Nat) (hi : i < A.vs.size) :
    A.invert.prev G (A.vs.size - 1 - i) = A.next G i := by
  unfold Loop.next Loop.prev
  rw [invert_size]
  by_cases h0 : i + 1 = A.vs.size
  · rw [invert_vertex A _ (by omega), vertex_eq_of_eq_add A (i + 1) 0 (by omega)]
    congr 1; omega
  · rw [vertex_eq_of_eq_add A.invert (A.vs.size - 1 - i + A.vs.size - 1) (A.vs.size - 2 - i)
        (by rw [invert_size]; omega), invert_vertex A _ (by omega)]
    congr 1; omega

/-- re-indexing `List.any` over `List.range n` along an involution of `[0,n)` -/
theorem any_range_reindex (n : Nat) (σ : Nat → Nat) (hσ : ∀ k, k < n → σ k < n)
    (hinv : ∀ k, k < n → σ (σ k) = k) (f g : Nat → Bool) (hfg : ∀ k, k < n → g k = f (σ k)) :
    (List.range n).any g = (List.range n).any f := by
  rw [Bool.eq_iff_iff]
  simp only [List.any_eq_true, List.mem_range]
  constructor
  · rintro ⟨k, hk, e⟩; exact ⟨σ k, hσ k hk, by rw [← hfg k hk]; exact e⟩
  · rintro ⟨k, hk, e⟩
    exact ⟨σ k, hσ k hk, by rw [hfg (σ k) (hσ k hk), hinv k hk]; exact e⟩

/-- edge k of the inverted loop is the edge `revEdge n k` of the loop, reversed -/
def revEdge (n k : Nat) : Nat := if k + 1 = n then n - 1 else n - 2 - k

theorem revEdge_lt (n k : Nat) (hk : k < n) : revEdge n k < n := by
  unfold revEdge; split <;> omega

theorem revEdge_revEdge (n k : Nat) (hk : k < n) : revEdge n (revEdge n k) = k := by
  unfold revEdge; split <;> split <;> omega

theorem invert_edge_fst (A : Loop α) (k : Nat) (hk : k < A.vs.size) :
    A.invert.vertex G k = A.vertex G (revEdge A.vs.size k + 1) := by
  rw [invert_vertex A k hk]
  unfold revEdge
  by_cases h0 : k + 1 = A.vs.size
  · rw [if_pos h0, vertex_eq_of_eq_add A (A.vs.size - 1 + 1) 0 (by omega)]
    congr 1; omega
  · rw [if_neg h0]; congr 1; omega

theorem invert_edge_snd (A : Loop α) (k : Nat) (hk : k < A.vs.size) :
    A.invert.vertex G (k + 1) = A.vertex G (revEdge A.vs.size k) := by
  unfold revEdge
  by_cases h0 : k + 1 = A.vs.size
  · rw [if_pos h0, vertex_eq_of_eq_add A.invert (k + 1) 0 (by rw [invert_size]; omega),
      invert_vertex A 0 (by omega)]
    congr 1
  · rw [if_neg h0, invert_vertex A (k + 1) (by omega)]; congr 1; omega

theorem anyCrossing_invert_left (h : SgLaws G) (A B : Loop α) :
    anyCrossing G A.invert B = anyCrossing G A B := by
  unfold anyCrossing
  rw [invert_numEdges]
  by_cases h1 : A.vs.size = 1
  · simp [numEdges_of_size_one A h1]
  · rw [numEdges_of_size_ne_one A h1]
    apply any_range_reindex A.vs.size (revEdge A.vs.size) (revEdge_lt _) (revEdge_revEdge _)
    intro k hk
    simp only [invert_edge_fst A k hk, invert_edge_snd A k hk]
    simp only [crossingSign_swap_ab h (A.vertex G (revEdge A.vs.size k))]

theorem anyCrossing_invert_right (h : SgLaws G) (A B : Loop α) :
    anyCrossing G A B.invert = anyCrossing G A B := by
  rw [anyCrossing_symm, anyCrossing_invert_left h, anyCrossing_symm]

/-! shared vertices of the inverted loops -/

theorem mem_sharedVertices_lt_left {A B : Loop α} {i j : Nat} (hp : (i, j) ∈ sharedVertices G A B) :
    i < A.vs.size :=
  Nat.lt_of_lt_of_le ((mem_sharedVertices A B i j).1 hp).1 (numEdges_le_size A)

theorem mem_sharedVertices_lt_right {A B : Loop α} {i j : Nat} (hp : (i, j) ∈ sharedVertices G A B) :
    j < B.vs.size :=
  Nat.lt_of_lt_of_le ((mem_sharedVertices A B i j).1 hp).2.1 (numEdges_le_size B)

theorem mem_sharedVertices_invert_left {A B : Loop α} {i j : Nat}
    (hp : (i, j) ∈ sharedVertices G A B) :
    (A.vs.size - 1 - i, j) ∈ sharedVertices G A.invert B := by
  have hi := mem_sharedVertices_lt_left hp
  obtain ⟨h1, h2, h3⟩ := (mem_sharedVertices A B i j).1 hp
  refine (mem_sharedVertices A.invert B _ j).2 ⟨?_, h2, ?_⟩
  · rw [invert_numEdges]
    by_cases hs : A.vs.size = 1
    · rw [numEdges_of_size_one A hs] at h1; omega
    · rw [numEdges_of_size_ne_one A hs]; omega
  · rw [invert_vertex' A i hi]; exact h3

theorem mem_sharedVertices_invert_right {A B : Loop α} {i j : Nat}
    (hp : (i, j) ∈ sharedVertices G A B) :
    (i, B.vs.size - 1 - j) ∈ sharedVertices G A B.invert :=
  (mem_sharedVertices_swap _ _ _ _).2
    (mem_sharedVertices_invert_left ((mem_sharedVertices_swap _ _ _ _).1 hp))

theorem mem_sharedVertices_invert_both {A B : Loop α} {i j : Nat}
    (hp : (i, j) ∈ sharedVertices G A B) :
    (B.vs.size - 1 - j, A.vs.size - 1 - i) ∈ sharedVertices G B.invert A.invert :=
  (mem_sharedVertices_swap _ _ _ _).1
    (mem_sharedVertices_invert_left (mem_sharedVertices_invert_right hp))

/-- at a shared vertex: the wedge of the inverted loop is the complementary wedge -/
theorem containsWedgeCross_invert_left (A B : Loop α) (i j : Nat) (hi : i < A.vs.size) :
    containsWedgeCross G A.invert B (A.vs.size - 1 - i, j) = intersectsWedgeCross G A B (i, j) := by
  simp only [containsWedgeCross, intersectsWedgeCross, invert_prev A i hi, invert_next A i hi,
    invert_vertex' A i hi]
  exact (wedgeIntersects_eq_not_complement_contains G _ _ _ _ _).symm

theorem containsWedgeCross_invert_both (A B : Loop α) (i j : Nat) (hi : i < A.vs.size)
    (hj : j < B.vs.size) (hv : A.vertex G i = B.vertex G j) :
    containsWedgeCross G B.invert A.invert (B.vs.size - 1 - j, A.vs.size - 1 - i) =
      containsWedgeCross G A B (i, j) := by
  simp only [containsWedgeCross, invert_prev A i hi, invert_next A i hi, invert_prev B j hj,
    invert_next B j hj, invert_vertex' B j hj, ← hv]
  rw [wedgeContains_eq_complements_swapped G (A.prev G i)]

theorem sub_sub_self' {n i : Nat} (hi : i < n) : n - 1 - (n - 1 - i) = i := by omega

theorem shared_any_invert_left (A B : Loop α) :
    (sharedVertices G A.invert B).any (containsWedgeCross G A.invert B) =
    (sharedVertices G A B).any (intersectsWedgeCross G A B) := by
  rw [Bool.eq_iff_iff]
  simp only [List.any_eq_true]
  constructor
  · rintro ⟨⟨i, j⟩, hp, e⟩
    have hi := mem_sharedVertices_lt_left hp
    rw [invert_size] at hi
    have hp' := mem_sharedVertices_invert_left hp
    rw [invert_invert, invert_size] at hp'
    refine ⟨_, hp', ?_⟩
    rw [← containsWedgeCross_invert_left A B _ j (by omega), sub_sub_self' hi]; exact e
  · rintro ⟨⟨i, j⟩, hp, e⟩
    have hi := mem_sharedVertices_lt_left hp
    refine ⟨_, mem_sharedVertices_invert_left hp, ?_⟩
    rw [containsWedgeCross_invert_left A B i j hi]; exact e

theorem shared_isEmpty_invert_left (A B : Loop α) :
    (sharedVertices G A.invert B).isEmpty = (sharedVertices G A B).isEmpty := by
  rw [Bool.eq_iff_iff]
  simp only [List.isEmpty_iff, List.eq_nil_iff_forall_not_mem]
  constructor
  · rintro hh ⟨i, j⟩ hp; exact hh _ (mem_sharedVertices_invert_left hp)
  · rintro hh ⟨i, j⟩ hp
    have hp' := mem_sharedVertices_invert_left hp
    rw [invert_invert] at hp'
    exact hh _ hp'

theorem shared_any_invert_both (A B : Loop α) :
    (sharedVertices G B.invert A.invert).any (containsWedgeCross G B.invert A.invert) =
    (sharedVertices G A B).any (containsWedgeCross G A B) := by
  rw [Bool.eq_iff_iff]
  simp only [List.any_eq_true]
  constructor
  · rintro ⟨⟨j, i⟩, hp, e⟩
    have hj := mem_sharedVertices_lt_left hp
    have hi := mem_sharedVertices_lt_right hp
    rw [invert_size] at hi hj
    have hp' := mem_sharedVertices_invert_both hp
    rw [invert_invert, invert_invert, invert_size, invert_size] at hp'
    refine ⟨_, hp', ?_⟩
    have hv := ((mem_sharedVertices A B _ _).1 hp').2.2
    rw [← containsWedgeCross_invert_both A B _ _ (by omega) (by omega) hv,
      sub_sub_self' hi, sub_sub_self' hj]
    exact e
  · rintro ⟨⟨i, j⟩, hp, e⟩
    have hi := mem_sharedVertices_lt_left hp
    have hj := mem_sharedVertices_lt_right hp
    have hv := ((mem_sharedVertices A B _ _).1 hp).2.2
    refine ⟨_, mem_sharedVertices_invert_both hp, ?_⟩
    rw [containsWedgeCross_invert_both A B i j hi hj hv]; exact e

theorem shared_isEmpty_invert_both (A B : Loop α) :
    (sharedVertices G B.invert A.invert).isEmpty = (sharedVertices G A B).isEmpty := by
  rw [Bool.eq_iff_iff]
  simp only [List.isEmpty_iff, List.eq_nil_iff_forall_not_mem]
  constructor
  · rintro hh ⟨i, j⟩ hp; exact hh _ (mem_sharedVertices_invert_both hp)
  · rintro hh ⟨i, j⟩ hp
    have hp' := mem_sharedVertices_invert_both hp
    rw [invert_invert, invert_invert] at hp'
    exact hh _ hp'

/-- R4a : A ∩ B ≠ ∅ ⇔ ¬ (complement of A ⊇ B).  The two geometric facts are explicit hypotheses:
    `hIn` is the point-in-loop inversion law (package C04) at the vertex `B.vertex 0`, `hSide`
    says that vertex 0 of A and vertex 0 of the inverted loop (= the last vertex of A) are on the
    same side of B (a Jordan-type fact when the boundaries neither cross nor touch).  They are
    only used when both loops are proper (neither is the empty / full loop) and the boundaries
    have no proper crossing and no shared vertex.  No condition on the number of vertices is
    needed. -/
theorem intersects_eq_not_invert_contains (h : SgLaws G) (A B : Loop α)
    (hIn : A.invert.containsPoint G (B.vertex G 0) = !A.containsPoint G (B.vertex G 0))
    (hSide : B.containsPoint G (A.invert.vertex G 0) = B.containsPoint G (A.vertex G 0)) :
    intersects G A B = !contains G A.invert B := by
  unfold intersects contains intersectsWith containsWith scan
  simp only []
  rw [anyCrossing_invert_left h, shared_any_invert_left, shared_isEmpty_invert_left,
    invert_isEmptyOrFull, invert_isFull, hIn, hSide]
  by_cases hA : A.vs.size = 1
  · have c := anyCrossing_of_numEdges_zero_left (G := G) A B (numEdges_of_size_one A hA)
    have s := sharedVertices_of_numEdges_zero_left (G := G) A B (numEdges_of_size_one A hA)
    have eA : A.isEmptyOrFull = true := by simp [Loop.isEmptyOrFull, hA]
    rw [c, s, containsPoint_of_size_one A hA]
    simp only [Loop.isEmpty, eA]
    cases A.originInside <;> cases B.isEmptyOrFull <;> cases B.originInside <;>
      cases B.containsPoint G (A.vertex G 0) <;> rfl
  · by_cases hB : B.vs.size = 1
    · have c := anyCrossing_of_numEdges_zero_right (G := G) A B (numEdges_of_size_one B hB)
      have s := sharedVertices_of_numEdges_zero_right (G := G) A B (numEdges_of_size_one B hB)
      have eB : B.isEmptyOrFull = true := by simp [Loop.isEmptyOrFull, hB]
      rw [c, s, containsPoint_of_size_one B hB]
      simp only [Loop.isEmpty, eB]
      cases B.originInside <;> cases A.isEmptyOrFull <;> cases A.originInside <;>
        cases A.containsPoint G (B.vertex G 0) <;> rfl
    · have eA : A.isEmptyOrFull = false := by simp [Loop.isEmptyOrFull, hA]
      have eB : B.isEmptyOrFull = false := by simp [Loop.isEmptyOrFull, hB]
      simp only [Loop.isEmpty, eA, eB]
      cases anyCrossing G A B <;>
        cases (sharedVertices G A B).any (intersectsWedgeCross G A B) <;>
        cases (sharedVertices G A B).isEmpty <;>
        cases A.containsPoint G (B.vertex G 0) <;>
        cases B.containsPoint G (A.vertex G 0) <;> rfl

/-- R4b : A ⊇ B ⇔ complement of B ⊇ complement of A.  Geometric hypotheses (used only when
    both loops are proper and the boundaries neither cross nor share a vertex): the
    point-in-loop inversion law combined with the same-side fact, for both loops. -/
theorem contains_eq_invert_contains_invert (h : SgLaws G) (A B : Loop α)
    (hB : B.invert.containsPoint G (A.invert.vertex G 0) = !B.containsPoint G (A.vertex G 0))
    (hA : A.invert.containsPoint G (B.invert.vertex G 0) = !A.containsPoint G (B.vertex G 0)) :
    contains G A B = contains G B.invert A.invert := by
  unfold contains containsWith scan
  simp only []
  rw [anyCrossing_invert_left h, anyCrossing_invert_right h, anyCrossing_symm B A,
    shared_any_invert_both, shared_isEmpty_invert_both,
    invert_isEmptyOrFull, invert_isEmptyOrFull, invert_isFull, invert_isEmpty, hA, hB]
  cases A.isEmptyOrFull <;> cases B.isEmptyOrFull <;> cases A.isFull <;> cases B.isEmpty <;>
    cases anyCrossing G A B <;>
    cases (sharedVertices G A B).any (containsWedgeCross G A B) <;>
    cases (sharedVertices G A B).isEmpty <;>
    cases A.containsPoint G (B.vertex G 0) <;>
    cases B.containsPoint G (A.vertex G 0) <;> rfl

end

/-! ### non-vacuity on `geo5` (five points in convex position, counter-clockwise) -/

/-- the pentagon 0,1,2,3,4 -/
def pent5 : Loop (Fin 5) := { vs := #[0, 1, 2, 3, 4], originInside := false }
/-- the triangle 0,2,3 (inside the pentagon, sharing three vertices with it) -/
def tri5 : Loop (Fin 5) := { vs := #[0, 2, 3], originInside := false }
/-- the triangles 0,1,2 and 2,3,4 : interiors disjoint, one shared vertex -/
def tri5b : Loop (Fin 5) := { vs := #[0, 1, 2], originInside := false }
def tri5c : Loop (Fin 5) := { vs := #[2, 3, 4], originInside := false }
def empty5 : Loop (Fin 5) := { vs := #[0], originInside := false }
def full5 : Loop (Fin 5) := { vs := #[0], originInside := true }

theorem simpleLoop_pent5 : SimpleLoop geo5 pent5 := by
  refine ⟨by decide, ?_, by decide⟩
  have : ∀ i, i < 5 → ∀ j, j < 5 → pent5.vertex geo5 i = pent5.vertex geo5 j → i = j := by decide
  exact fun i j hi hj => this i hi j hj

theorem simpleLoop_tri5 : SimpleLoop geo5 tri5 := by
  refine ⟨by decide, ?_, by decide⟩
  have : ∀ i, i < 3 → ∀ j, j < 3 → tri5.vertex geo5 i = tri5.vertex geo5 j → i = j := by decide
  exact fun i j hi hj => this i hi j hj

/-- R3 applies (and agrees with evaluation) -/
example : contains geo5 pent5 pent5 = true ∧ intersects geo5 tri5 tri5 = true :=
  ⟨contains_refl sgLaws_geo5 pent5 simpleLoop_pent5, intersects_refl sgLaws_geo5 tri5 simpleLoop_tri5⟩
example : contains geo5 pent5 pent5 = true ∧ intersects geo5 tri5 tri5 = true := by decide

/-- the relations take both truth values: the pentagon contains the triangle 0,2,3 but not
    conversely; they intersect both ways; the triangles 0,1,2 and 2,3,4 do not intersect (either
    way) and neither contains the other -/
example : contains geo5 pent5 tri5 = true ∧ contains geo5 tri5 pent5 = false ∧
    intersects geo5 pent5 tri5 = true ∧ intersects geo5 tri5 pent5 = true ∧
    intersects geo5 tri5b tri5c = false ∧ intersects geo5 tri5c tri5b = false ∧
    contains geo5 tri5b tri5c = false ∧ contains geo5 tri5c tri5b = false := by decide

/-- the one-vertex loops -/
example : contains geo5 empty5 empty5 = true ∧ contains geo5 full5 full5 = true ∧
    intersects geo5 empty5 empty5 = false ∧ intersects geo5 full5 full5 = true ∧
    contains geo5 full5 pent5 = true ∧ contains geo5 pent5 full5 = false ∧
    contains geo5 pent5 empty5 = true ∧ intersects geo5 pent5 empty5 = false ∧
    intersects geo5 pent5 full5 = true := by decide

theorem pent5_invert : pent5.invert = { vs := #[4, 3, 2, 1, 0], originInside := true } := by
  simp [Loop.invert, pent5]
theorem tri5_invert : tri5.invert = { vs := #[3, 2, 0], originInside := true } := by
  simp [Loop.invert, tri5]
theorem tri5b_invert : tri5b.invert = { vs := #[2, 1, 0], originInside := true } := by
  simp [Loop.invert, tri5b]

/-- R4 : the hypotheses `hIn`, `hSide` are satisfiable, and the laws agree with evaluation -/
example : intersects geo5 pent5 tri5 = !contains geo5 pent5.invert tri5 :=
  intersects_eq_not_invert_contains sgLaws_geo5 pent5 tri5
    (by rw [pent5_invert]; decide) (by rw [pent5_invert]; decide)
example : intersects geo5 tri5b tri5c = !contains geo5 tri5b.invert tri5c :=
  intersects_eq_not_invert_contains sgLaws_geo5 tri5b tri5c
    (by rw [tri5b_invert]; decide) (by rw [tri5b_invert]; decide)
example : contains geo5 pent5 tri5 = contains geo5 tri5.invert pent5.invert :=
  contains_eq_invert_contains_invert sgLaws_geo5 pent5 tri5
    (by rw [pent5_invert, tri5_invert]; decide) (by rw [pent5_invert, tri5_invert]; decide)
example : contains geo5 pent5.invert tri5 = false ∧ contains geo5 tri5b.invert tri5c = true ∧
    contains geo5 tri5.invert pent5.invert = true := by
  rw [pent5_invert, tri5_invert, tri5b_invert]; decide

end S2Proofs.C07

