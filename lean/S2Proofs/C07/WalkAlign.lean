/-
  S2Proofs.C07.WalkAlign — the iterator alignment of the two-index walk (`S2.RelateWalk.mainLoop`):
  laminarity of two valid indexes, position lemmas for `collect / hasCrossing / centerLoop /
  crosserStep` (for EVERY instance of the tests), the frontier invariant `Clean`, termination.
  Helper lemmas; the property theorems are in S2Proofs/Properties/C07_Walk.lean.
-/
import S2Proofs.C07.WalkIter
namespace S2Proofs.C07
open S2 S2.CellID S2.RelateWalk

/-! ### two indexes -/

/-- cells of two indexes are pairwise nested or disjoint, and the comparison of the two `lsb`
    (`abRelation`) is the comparison of the sizes of the leaf ranges -/
structure Lam (IA IB : Index) : Prop where
  lam : ∀ p q, p < IA.size → q < IB.size →
    hi IA p < lo IB q ∨ hi IB q < lo IA p ∨ (lo IA p ≤ lo IB q ∧ hi IB q ≤ hi IA p) ∨ (lo IB q ≤ lo IA p ∧ hi IA p ≤ hi IB q)
  rel : ∀ p q, p < IA.size → q < IB.size →
    (0 < int64OfWord (lsb (IA.idAt p) - lsb (IB.idAt q)) ↔ hi IB q - lo IB q < hi IA p - lo IA p) ∧
    (int64OfWord (lsb (IA.idAt p) - lsb (IB.idAt q)) < 0 ↔ hi IA p - lo IA p < hi IB q - lo IB q)

theorem int64_sub (a b : UInt64) (ha : a.toNat ≤ 2 ^ 60) (hb : b.toNat ≤ 2 ^ 60) :
    int64OfWord (a - b) = (a.toNat : Int) - (b.toNat : Int) := by
  unfold int64OfWord
  rw [UInt64.toNat_sub]
  have := a.toNat_lt; have := b.toNat_lt
  split <;> omega

theorem cell_of_ok {I : Index} (h : IdxOK I) {p : Nat} (hp : p < I.size) : ∃ k, IsCell (I.idAt p) k := by
  rw [idAt_lt I hp]
  exact (isValid_iff _).mp (h.1 _ (List.getElem_mem _))

theorem lam_of_ok {IA IB : Index} (hA : IdxOK IA) (hB : IdxOK IB) : Lam IA IB := by
  refine ⟨?_, ?_⟩
  · intro p q hp hq
    obtain ⟨k, hx⟩ := cell_of_ok hA hp
    obtain ⟨j, hy⟩ := cell_of_ok hB hq
    unfold lo hi Index.rangeMinAt Index.rangeMaxAt
    rcases hx.nested_or_disjoint hy with h | h | h | h
    · right; right; left; exact (hx.contains_iff_range hy).mp h
    · right; right; right; exact (hy.contains_iff_range hx).mp h
    · left; exact h
    · right; left; exact h
  · intro p q hp hq
    obtain ⟨k, hx⟩ := cell_of_ok hA hp
    obtain ⟨j, hy⟩ := cell_of_ok hB hq
    have lx := hx.lsb_eq
    have ly := hy.lsb_eq
    have px : 2 ^ (60 - 2 * k) ≤ 2 ^ 60 := Nat.pow_le_pow_right (by omega) (by omega)
    have py : 2 ^ (60 - 2 * j) ≤ 2 ^ 60 := Nat.pow_le_pow_right (by omega) (by omega)
    have e := int64_sub (lsb (IA.idAt p)) (lsb (IB.idAt q)) (by omega) (by omega)
    have qx := Nat.two_pow_pos (60 - 2 * k)
    have qy := Nat.two_pow_pos (60 - 2 * j)
    have bx := (hx.finer_facts k (Nat.le_refl _)).1
    have by' := (hy.finer_facts j (Nat.le_refl _)).1
    unfold lo hi Index.rangeMinAt Index.rangeMaxAt
    rw [e, lx, ly, hx.rangeMin_eq, hx.rangeMax_eq, hy.rangeMin_eq, hy.rangeMax_eq]
    generalize 2 ^ (60 - 2 * k) = P at *
    generalize 2 ^ (60 - 2 * j) = Q at *
    constructor <;> constructor <;> intro h <;> omega

/-! ### one step of a loopCrosser -/

/-- the situation in which `loopCrosser.hasCrossingRelation(ai, bi)` is called: the own cell `pa`
    strictly contains the other index's cell `pb`, all earlier cells of the other index lie before it -/
structure StepCtx (IO IT : Index) (pa pb : Nat) : Prop where
  FO : Facts IO
  FT : Facts IT
  hpa : pa < IO.size
  hpb : pb < IT.size
  lamRow : ∀ j, j < IT.size → hi IO pa < lo IT j ∨ hi IT j < lo IO pa ∨
    (lo IO pa ≤ lo IT j ∧ hi IT j ≤ hi IO pa) ∨ (lo IT j ≤ lo IO pa ∧ hi IO pa ≤ hi IT j)
  sub : lo IO pa ≤ lo IT pb ∧ hi IT pb ≤ hi IO pa
  strict : hi IT pb - lo IT pb < hi IO pa - lo IO pa
  before : ∀ j, j < pb → hi IT j < lo IO pa

namespace StepCtx
variable {IO IT : Index} {pa pb : Nat} (C : StepCtx IO IT pa pb)
include C

/-- a cell at or after `pb` that starts inside the own cell lies inside it -/
theorem inside {j : Nat} (hj : pb ≤ j) (hjs : j < IT.size) (hlo : lo IT j ≤ hi IO pa) :
    lo IO pa ≤ lo IT j ∧ hi IT j ≤ hi IO pa := by
  have hm := C.FT.lo_mono hj hjs
  have hR := C.FT.inR j hjs
  have hRb := C.FT.inR pb C.hpb
  have hs := C.sub
  have hst := C.strict
  rcases C.lamRow j hjs with h | h | h | h
  · omega
  · omega
  · exact h
  · rcases Nat.lt_or_ge pb j with hlt | hge
    · have := C.FT.srt pb j hlt hjs; omega
    · have : j = pb := by omega
      subst this; omega

theorem hiO_small : hi IO pa + 2 < SN ∧ hi IO pa % 2 = 1 := by
  have := C.FO.inR pa C.hpa; omega

/-- stopping at the first position after `pb` whose id exceeds the own range is stopping at the boundary -/
theorem bnd_of_stop {p : Nat} (hp : pb < p) (hps : p ≤ IT.size)
    (hin : ∀ j, pb ≤ j → j < p → idn IT j ≤ hi IO pa) (hout : hi IO pa < idn IT p) : BndLo IT (hi IO pa) p := by
  refine ⟨hps, ?_, ?_⟩
  · intro j hj
    have hjs : j < IT.size := by omega
    have hR := C.FT.inR j hjs
    rcases Nat.lt_or_ge j pb with h | h
    · have := C.FT.lo_mono (show j ≤ pb by omega) C.hpb
      have := C.FT.inR pb C.hpb
      have := C.sub
      have := hin pb (Nat.le_refl _) hp
      omega
    · have := hin j h hj; omega
  · intro j hj hjs
    have hps' : p < IT.size := by omega
    have hid : idn IT p ≤ idn IT j := by
      rcases Nat.lt_or_ge p j with h | h
      · exact Nat.le_of_lt (C.FT.idn_lt h hjs)
      · have : j = p := by omega
        subst this; exact Nat.le_refl _
    have hR := C.FT.inR j hjs
    have hRb := C.FT.inR pb C.hpb
    have hs := C.sub
    have hsrt := C.FT.srt pb j (by omega) hjs
    rcases C.lamRow j hjs with h | h | h | h <;> omega

/-- membership in the own range, for a cell at or after `pb`, is being before the boundary -/
theorem lt_bnd_iff {q : Nat} (hq : BndLo IT (hi IO pa) q) {j : Nat} (hj : pb ≤ j) (hjs : j < IT.size) :
    j < q ↔ (lo IO pa ≤ lo IT j ∧ hi IT j ≤ hi IO pa) := by
  constructor
  · intro h; exact C.inside hj hjs (hq.2.1 j h)
  · intro h
    rcases Nat.lt_or_ge j q with h' | h'
    · exact h'
    · have := hq.2.2 j h' hjs; have := C.FT.inR j hjs; omega

theorem pb_lt_bnd {q : Nat} (hq : BndLo IT (hi IO pa) q) : pb < q := by
  rcases Nat.lt_or_ge pb q with h | h
  · exact h
  · have := hq.2.2 pb h C.hpb; have := C.sub; have := C.FT.inR pb C.hpb; omega

end StepCtx

/-! ### `collect` -/

theorem collect_spec (IT : Index) (F : Facts IT) (aMax : CellID) (haM : aMax.toNat < SN) :
    ∀ fuel pb total acc, pb < IT.size → idn IT pb ≤ aMax.toNat → IT.size - pb < fuel →
    ∃ q L pb', collect IT aMax fuel pb total acc = (q, acc ++ L, pb') ∧ pb ≤ pb' ∧
      L.Pairwise (· < ·) ∧ (∀ j ∈ L, pb ≤ j ∧ j < pb' ∧ 0 < IT.numEdgesAt j) ∧
      (q = true → pb' < IT.size ∧ (∀ j, pb ≤ j → j ≤ pb' → idn IT j ≤ aMax.toNat)) ∧
      (q = false → pb < pb' ∧ pb' ≤ IT.size ∧ (∀ j, pb ≤ j → j < pb' → idn IT j ≤ aMax.toNat) ∧
          aMax.toNat < idn IT pb' ∧ (∀ j, pb ≤ j → j < pb' → 0 < IT.numEdgesAt j → j ∈ L)) := by
  intro fuel
  induction fuel with
  | zero => intro pb total acc hpb _ hf; omega
  | succ fuel ih =>
    intro pb total acc hpb hin hf
    -- the step to the next position, shared by the two branches that advance
    have next : ∀ (acc' : List Nat) (total' : Nat) (L0 : List Nat), acc' = acc ++ L0 → (L0 = [] ∨ L0 = [pb]) →
        (0 < IT.numEdgesAt pb → L0 = [pb]) → (L0 = [pb] → 0 < IT.numEdgesAt pb) →
        ∃ q L pb', (if IT.idAt (pb + 1) > aMax then (false, acc', pb + 1) else collect IT aMax fuel (pb + 1) total' acc') = (q, acc ++ L, pb') ∧
          pb ≤ pb' ∧ L.Pairwise (· < ·) ∧ (∀ j ∈ L, pb ≤ j ∧ j < pb' ∧ 0 < IT.numEdgesAt j) ∧
          (q = true → pb' < IT.size ∧ (∀ j, pb ≤ j → j ≤ pb' → idn IT j ≤ aMax.toNat)) ∧
          (q = false → pb < pb' ∧ pb' ≤ IT.size ∧ (∀ j, pb ≤ j → j < pb' → idn IT j ≤ aMax.toNat) ∧
            aMax.toNat < idn IT pb' ∧ (∀ j, pb ≤ j → j < pb' → 0 < IT.numEdgesAt j → j ∈ L)) := by
      intro acc' total' L0 hacc hL0 hL1 hL2
      by_cases hgt : IT.idAt (pb + 1) > aMax
      · rw [if_pos hgt]
        have hgt' : aMax.toNat < idn IT (pb + 1) := toNat_lt_iff.mp hgt
        refine ⟨false, L0, pb + 1, by rw [hacc], by omega, ?_, ?_, by simp, ?_⟩
        · rcases hL0 with h | h <;> simp [h]
        · intro j hj
          rcases hL0 with h | h
          · simp [h] at hj
          · simp [h] at hj; subst hj; exact ⟨Nat.le_refl _, by omega, hL2 h⟩
        · intro _
          refine ⟨by omega, by omega, ?_, hgt', ?_⟩
          · intro j h1 h2
            have : j = pb := by omega
            subst this; exact hin
          · intro j h1 h2 h3
            have : j = pb := by omega
            subst this; rw [hL1 h3]; simp
      · rw [if_neg hgt]
        have hle : idn IT (pb + 1) ≤ aMax.toNat := by
          have : ¬ (aMax.toNat < idn IT (pb + 1)) := fun h => hgt (toNat_lt_iff.mpr h)
          omega
        have hps : pb + 1 < IT.size := by
          rcases Nat.lt_or_ge (pb + 1) IT.size with h | h
          · exact h
          · have := (F.out (pb + 1) h).2.1; omega
        obtain ⟨q, L, pb', he, h1, h2, h3, h4, h5⟩ := ih (pb + 1) total' acc' hps hle (by omega)
        refine ⟨q, L0 ++ L, pb', by rw [he, hacc, List.append_assoc], by omega, ?_, ?_, ?_, ?_⟩
        · rcases hL0 with h | h
          · simpa [h] using h2
          · rw [h]; simp only [List.singleton_append, List.pairwise_cons]
            exact ⟨fun j hj => by have := (h3 j hj).1; omega, h2⟩
        · intro j hj
          rcases List.mem_append.mp hj with hj | hj
          · rcases hL0 with h | h
            · simp [h] at hj
            · simp [h] at hj; subst hj; exact ⟨Nat.le_refl _, by omega, hL2 h⟩
          · have := h3 j hj; exact ⟨by omega, this.2.1, this.2.2⟩
        · intro hq
          obtain ⟨a, b⟩ := h4 hq
          refine ⟨a, ?_⟩
          intro j hj1 hj2
          rcases Nat.lt_or_ge pb j with h | h
          · exact b j h hj2
          · have : j = pb := by omega
            subst this; exact hin
        · intro hq
          obtain ⟨a, b, c, d, e⟩ := h5 hq
          refine ⟨by omega, b, ?_, d, ?_⟩
          · intro j hj1 hj2
            rcases Nat.lt_or_ge pb j with h | h
            · exact c j h hj2
            · have : j = pb := by omega
              subst this; exact hin
          · intro j hj1 hj2 hj3
            rcases Nat.lt_or_ge pb j with h | h
            · exact List.mem_append.mpr (Or.inr (e j h hj2 hj3))
            · have : j = pb := by omega
              subst this; rw [hL1 hj3]; simp
    unfold collect
    simp only []
    by_cases hn : IT.numEdgesAt pb > 0
    · rw [if_pos hn]
      by_cases hth : total + IT.numEdgesAt pb ≥ edgeQueryMinEdges
      · rw [if_pos hth]
        refine ⟨true, [], pb, by simp, Nat.le_refl _, by simp, by simp, ?_, by simp⟩
        intro _
        refine ⟨hpb, ?_⟩
        intro j h1 h2
        have : j = pb := by omega
        subst this; exact hin
      · rw [if_neg hth]
        exact next (acc ++ [pb]) _ [pb] rfl (Or.inr rfl) (fun _ => rfl) (fun _ => hn)
    · rw [if_neg hn]
      have := next acc total [] (by simp) (Or.inl rfl) (fun h => absurd h hn) (fun h => by simp at h)
      simpa using this

/-! ### ghost log -/

/-- pairs (position in A's index, position in B's index) -/
abbrev Log := List (Nat × Nat)

/-- the pair of positions a crosser's test is about (the crosser `ba` has the roles exchanged) -/
def mkPair (sw : Bool) (own other : Nat) : Nat × Nat := if sw then (other, own) else (own, other)

/-- positions of the cells of `IT` whose id lies in the leaf range of cell `pa` of `IO` -/
def under (IO IT : Index) (pa : Nat) : List Nat :=
  (List.range IT.size).filter fun j => decide (IO.rangeMinAt pa ≤ IT.idAt j) && decide (IT.idAt j ≤ IO.rangeMaxAt pa)

theorem under_nodup (IO IT : Index) (pa : Nat) : (under IO IT pa).Nodup :=
  List.Nodup.sublist List.filter_sublist List.nodup_range

theorem mem_under (IO IT : Index) (pa j : Nat) :
    j ∈ under IO IT pa ↔ (j < IT.size ∧ lo IO pa ≤ idn IT j ∧ idn IT j ≤ hi IO pa) := by
  unfold under lo hi idn
  simp [List.mem_filter, toNat_le_iff]

theorem StepCtx.mem_range_iff {IO IT : Index} {pa pb : Nat} (C : StepCtx IO IT pa pb) {q : Nat}
    (hq : BndLo IT (hi IO pa) q) (j : Nat) :
    (j < IT.size ∧ lo IO pa ≤ idn IT j ∧ idn IT j ≤ hi IO pa) ↔ (pb ≤ j ∧ j < q) := by
  constructor
  · rintro ⟨hjs, h1, h2⟩
    have hR := C.FT.inR j hjs
    have hpbj : pb ≤ j := by
      rcases Nat.lt_or_ge j pb with h | h
      · have := C.before j h; omega
      · exact h
    refine ⟨hpbj, ?_⟩
    rcases Nat.lt_or_ge j q with h | h
    · exact h
    · have := hq.2.2 j h hjs; omega
  · rintro ⟨h1, h2⟩
    have hjs : j < IT.size := by have := hq.1; omega
    have := C.inside h1 hjs (hq.2.1 j h2)
    have hR := C.FT.inR j hjs
    exact ⟨hjs, by omega, by omega⟩

section eqns
variable {σ : Type} (T : Tests σ)

theorem centerLoop_succ (sw : Bool) (IT : Index) (aMax : CellID) (pa fuel pb : Nat) (s : σ) :
    centerLoop T sw IT aMax pa (fuel + 1) pb s =
      if IT.idAt pb ≤ aMax then
        (if (T.centerB sw pa pb s).2 = true then ((T.centerB sw pa pb s).1, pb, true)
         else centerLoop T sw IT aMax pa fuel (pb + 1) (T.centerB sw pa pb s).1)
      else (s, pb, false) := rfl

theorem crosserStep_eq (sw : Bool) (IO IT : Index) (pa pb : Nat) (s : σ) :
    crosserStep T sw IO IT pa pb s =
      if (IO.numEdgesAt pa != 0) = true then
        (if (hasCrossing T sw IO IT pa pb s).2.2 = true then ((hasCrossing T sw IO IT pa pb s).1, pa, (hasCrossing T sw IO IT pa pb s).2.1, true)
         else ((hasCrossing T sw IO IT pa pb s).1, pa + 1, (hasCrossing T sw IO IT pa pb s).2.1, false))
      else
        if (T.centerA sw pa s).2 = true then
          (if (centerLoop T sw IT (IO.rangeMaxAt pa) pa (IT.size + 2 - pb) pb (T.centerA sw pa s).1).2.2 = true then
            ((centerLoop T sw IT (IO.rangeMaxAt pa) pa (IT.size + 2 - pb) pb (T.centerA sw pa s).1).1, pa,
             (centerLoop T sw IT (IO.rangeMaxAt pa) pa (IT.size + 2 - pb) pb (T.centerA sw pa s).1).2.1, true)
           else ((centerLoop T sw IT (IO.rangeMaxAt pa) pa (IT.size + 2 - pb) pb (T.centerA sw pa s).1).1, pa + 1,
             (centerLoop T sw IT (IO.rangeMaxAt pa) pa (IT.size + 2 - pb) pb (T.centerA sw pa s).1).2.1, false))
        else ((T.centerA sw pa s).1, pa + 1, IT.seekBeyond (IO.rangeMaxAt pa), false) := by
  unfold crosserStep
  cases h1 : (IO.numEdgesAt pa != 0) <;> simp only [] 
  · cases h2 : (T.centerA sw pa s).2 <;> simp [h2]
  · rfl

end eqns

section step
variable {σ : Type} (T : Tests σ) (sw : Bool) (IO IT : Index) (pa : Nat)
variable (g : σ → Log) (mk : Nat → Nat × Nat) (U : List Nat) (P : Prop)

theorem directCells_spec (hcc : P → ∀ y s, g (T.cellCell sw pa y s).1 = g s ++ [mk y]) :
    ∀ (cells : List Nat) (s : σ),
      (directCells T sw pa cells s).2 = true ∨ (P → g (directCells T sw pa cells s).1 = g s ++ cells.map mk) := by
  intro cells
  induction cells with
  | nil => intro s; right; intro _; simp [directCells]
  | cons c rest ih =>
    intro s
    unfold directCells
    simp only []
    by_cases hr : (T.cellCell sw pa c s).2 = true
    · left; rw [if_pos hr]
    · rw [if_neg hr]
      rcases ih (T.cellCell sw pa c s).1 with h | h
      · left; exact h
      · right; intro hP; rw [h hP, hcc hP]; simp

theorem hasCrossing_spec {pb : Nat} (C : StepCtx IO IT pa pb)
    (hcc : P → ∀ y s, g (T.cellCell sw pa y s).1 = g s ++ [mk y])
    (hsub : P → ∀ s, g (T.subcell sw pa s).1 = g s ++ U.map mk)
    (hU : U.Nodup ∧ ∀ j, j ∈ U ↔ (j < IT.size ∧ lo IO pa ≤ idn IT j ∧ idn IT j ≤ hi IO pa)) (s : σ) :
    (hasCrossing T sw IO IT pa pb s).2.2 = true ∨
    (BndLo IT (hi IO pa) (hasCrossing T sw IO IT pa pb s).2.1 ∧
      (P → ∃ Δ : List Nat, g (hasCrossing T sw IO IT pa pb s).1 = g s ++ Δ.map mk ∧ Δ.Nodup ∧
        (∀ j ∈ Δ, pb ≤ j ∧ j < (hasCrossing T sw IO IT pa pb s).2.1) ∧
        (∀ j, pb ≤ j → j < (hasCrossing T sw IO IT pa pb s).2.1 → 0 < IT.numEdgesAt j → j ∈ Δ))) := by
  have hsm := C.hiO_small
  have ehi : hi IO pa = (IO.rangeMaxAt pa).toNat := rfl
  have hin : idn IT pb ≤ (IO.rangeMaxAt pa).toNat := by
    have := C.FT.inR pb C.hpb; have := C.sub; omega
  obtain ⟨q, L, pb', he, h1, h2, h3, h4, h5⟩ :=
    collect_spec IT C.FT (IO.rangeMaxAt pa) (by have := hsm.1; omega)
      (IT.size + 2 - pb) pb 0 [] C.hpb hin (by have := C.hpb; omega)
  rw [hasCrossing]
  rw [he]
  cases q with
  | true =>
    simp only []
    by_cases hr : (T.subcell sw pa s).2 = true
    · left; rw [if_pos hr]
    · right; rw [if_neg hr]
      have hb : BndLo IT (hi IO pa) (IT.seekBeyond (IO.rangeMaxAt pa)) :=
        seekBeyond_spec C.FT hsm.2 hsm.1
      refine ⟨hb, ?_⟩
      intro hP
      refine ⟨U, hsub hP s, hU.1, ?_, ?_⟩
      · intro j hj; exact (C.mem_range_iff hb j).mp ((hU.2 j).mp hj)
      · intro j hj1 hj2 _; exact (hU.2 j).mpr ((C.mem_range_iff hb j).mpr ⟨hj1, hj2⟩)
  | false =>
    simp only [List.nil_append]
    obtain ⟨a, b, c, d, e⟩ := h5 rfl
    rcases directCells_spec T sw pa g mk P hcc L s with h | h
    · left; exact h
    · right
      refine ⟨C.bnd_of_stop a b c d, ?_⟩
      intro hP
      refine ⟨L, h hP, ?_, ?_, ?_⟩
      · exact (List.Pairwise.imp (fun h => Nat.ne_of_lt h) h2)
      · intro j hj; have := h3 j hj; exact ⟨this.1, this.2.1⟩
      · intro j x y z; exact e j x y z

theorem centerLoop_spec {pb : Nat} (C : StepCtx IO IT pa pb)
    (hcB : P → ∀ y s, g (T.centerB sw pa y s).1 = g s ++ [mk y]) :
    ∀ (fuel p : Nat) (s : σ), pb ≤ p → p ≤ IT.size → IT.size - p < fuel →
      (∀ j, pb ≤ j → j < p → idn IT j ≤ hi IO pa) →
      (centerLoop T sw IT (IO.rangeMaxAt pa) pa fuel p s).2.2 = true ∨
      (BndLo IT (hi IO pa) (centerLoop T sw IT (IO.rangeMaxAt pa) pa fuel p s).2.1 ∧
        p ≤ (centerLoop T sw IT (IO.rangeMaxAt pa) pa fuel p s).2.1 ∧
        (P → g (centerLoop T sw IT (IO.rangeMaxAt pa) pa fuel p s).1 =
          g s ++ (List.range' p ((centerLoop T sw IT (IO.rangeMaxAt pa) pa fuel p s).2.1 - p)).map mk)) := by
  intro fuel
  induction fuel with
  | zero => intro p s _ _ hf; omega
  | succ fuel ih =>
    intro p s hp hps hf hin
    rw [centerLoop_succ]
    by_cases hle : IT.idAt p ≤ IO.rangeMaxAt pa
    · rw [if_pos hle]
      have hle' : idn IT p ≤ hi IO pa := toNat_le_iff.mp hle
      have hp1 : p < IT.size := by
        rcases Nat.lt_or_ge p IT.size with h | h
        · exact h
        · have := (C.FT.out p h).2.1; have := C.hiO_small; omega
      by_cases hr : (T.centerB sw pa p s).2 = true
      · left; rw [if_pos hr]
      · rw [if_neg hr]
        rcases ih (p + 1) (T.centerB sw pa p s).1 (by omega) (by omega) (by omega)
            (fun j x y => by
              rcases Nat.lt_or_ge j p with h | h
              · exact hin j x h
              · have : j = p := by omega
                subst this; exact hle') with h | ⟨h1, h2, h3⟩
        · left; exact h
        · right
          refine ⟨h1, by omega, ?_⟩
          intro hP
          rw [h3 hP, hcB hP]
          generalize (centerLoop T sw IT (IO.rangeMaxAt pa) pa fuel (p + 1) (T.centerB sw pa p s).1).2.1 = q at *
          have : q - p = (q - (p + 1)) + 1 := by omega
          rw [this, List.range'_succ]
          simp
    · rw [if_neg hle]
      right
      have hgt : hi IO pa < idn IT p := by
        have : ¬ (idn IT p ≤ hi IO pa) := fun h => hle (toNat_le_iff.mpr h)
        omega
      have hpp : pb < p := by
        rcases Nat.lt_or_ge pb p with h | h
        · exact h
        · have : p = pb := by omega
          subst this
          have := C.FT.inR p C.hpb; have := C.sub; omega
      refine ⟨C.bnd_of_stop hpp hps hin hgt, Nat.le_refl _, ?_⟩
      intro _; simp

theorem crosserStep_spec {pb : Nat} (C : StepCtx IO IT pa pb)
    (hcc : P → ∀ y s, g (T.cellCell sw pa y s).1 = g s ++ [mk y])
    (hsub : P → ∀ s, g (T.subcell sw pa s).1 = g s ++ U.map mk)
    (hcA : P → ∀ s, g (T.centerA sw pa s).1 = g s ++ (if (T.centerA sw pa s).2 then [] else U.map mk))
    (hcB : P → ∀ y s, g (T.centerB sw pa y s).1 = g s ++ [mk y])
    (hU : U.Nodup ∧ ∀ j, j ∈ U ↔ (j < IT.size ∧ lo IO pa ≤ idn IT j ∧ idn IT j ≤ hi IO pa)) (s : σ) :
    (crosserStep T sw IO IT pa pb s).2.2.2 = true ∨
    ((crosserStep T sw IO IT pa pb s).2.1 = pa + 1 ∧
      BndLo IT (hi IO pa) (crosserStep T sw IO IT pa pb s).2.2.1 ∧
      (P → ∃ Δ : List Nat, g (crosserStep T sw IO IT pa pb s).1 = g s ++ Δ.map mk ∧ Δ.Nodup ∧
        (∀ j ∈ Δ, pb ≤ j ∧ j < (crosserStep T sw IO IT pa pb s).2.2.1) ∧
        (∀ j, pb ≤ j → j < (crosserStep T sw IO IT pa pb s).2.2.1 →
            (IO.numEdgesAt pa = 0 ∨ 0 < IT.numEdgesAt j) → j ∈ Δ))) := by
  have hsm := C.hiO_small
  have hpbs := C.hpb
  rw [crosserStep_eq]
  by_cases hne : (IO.numEdgesAt pa != 0) = true
  · rw [if_pos hne]
    have hne' : IO.numEdgesAt pa ≠ 0 := by simpa using hne
    rcases hasCrossing_spec T sw IO IT pa g mk U P C hcc hsub hU s with h | ⟨h1, h2⟩
    · left; rw [if_pos h]
    · by_cases hr : (hasCrossing T sw IO IT pa pb s).2.2 = true
      · left; rw [if_pos hr]
      · right; rw [if_neg hr]
        refine ⟨rfl, h1, ?_⟩
        intro hP
        obtain ⟨Δ, a, b, c, d⟩ := h2 hP
        refine ⟨Δ, a, b, c, ?_⟩
        intro j x y z
        rcases z with z | z
        · exact absurd z hne'
        · exact d j x y z
  · rw [if_neg hne]
    by_cases hm : (T.centerA sw pa s).2 = true
    · rw [if_pos hm]
      rcases centerLoop_spec T sw IO IT pa g mk P C hcB (IT.size + 2 - pb) pb (T.centerA sw pa s).1
          (Nat.le_refl _) (Nat.le_of_lt C.hpb) (by omega) (fun j x y => by omega) with h | ⟨h1, h2, h3⟩
      · left; rw [if_pos h]
      · by_cases hr : (centerLoop T sw IT (IO.rangeMaxAt pa) pa (IT.size + 2 - pb) pb (T.centerA sw pa s).1).2.2 = true
        · left; rw [if_pos hr]
        · right; rw [if_neg hr]
          refine ⟨rfl, h1, ?_⟩
          intro hP
          refine ⟨List.range' pb ((centerLoop T sw IT (IO.rangeMaxAt pa) pa (IT.size + 2 - pb) pb (T.centerA sw pa s).1).2.1 - pb), ?_, ?_, ?_, ?_⟩
          · show g (centerLoop T sw IT (IO.rangeMaxAt pa) pa (IT.size + 2 - pb) pb (T.centerA sw pa s).1).1 = _
            rw [h3 hP, hcA hP, if_pos hm]; simp
          · exact List.nodup_range'
          · intro j hj
            have := List.mem_range'_1.mp hj
            show pb ≤ j ∧ j < (centerLoop T sw IT (IO.rangeMaxAt pa) pa (IT.size + 2 - pb) pb (T.centerA sw pa s).1).2.1
            omega
          · intro j x y _
            have y' : j < (centerLoop T sw IT (IO.rangeMaxAt pa) pa (IT.size + 2 - pb) pb (T.centerA sw pa s).1).2.1 := y
            exact List.mem_range'_1.mpr ⟨x, by omega⟩
    · rw [if_neg hm]
      right
      have hb : BndLo IT (hi IO pa) (IT.seekBeyond (IO.rangeMaxAt pa)) :=
        seekBeyond_spec C.FT hsm.2 hsm.1
      refine ⟨rfl, hb, ?_⟩
      intro hP
      refine ⟨U, ?_, hU.1, ?_, ?_⟩
      · show g (T.centerA sw pa s).1 = _
        rw [hcA hP, if_neg hm]
      · intro j hj; exact (C.mem_range_iff hb j).mp ((hU.2 j).mp hj)
      · intro j hj1 hj2 _; exact (hU.2 j).mpr ((C.mem_range_iff hb j).mpr ⟨hj1, hj2⟩)

end step

/-! ### the frontier invariant of the merge loop (stated for a pair of roles `O`, `T`) -/

/-- no cell before the frontier meets a cell at or after the frontier of the other index -/
def CleanR (IO IT : Index) (po pt : Nat) : Prop :=
  (∀ i j, i < po → pt ≤ j → j < IT.size → hi IO i < lo IT j) ∧
  (∀ i j, j < pt → po ≤ i → i < IO.size → hi IT j < lo IO i)

theorem CleanR.swap {IO IT : Index} {po pt : Nat} (h : CleanR IO IT po pt) : CleanR IT IO pt po :=
  ⟨fun j i a b c => h.2 i j a b c, fun j i a b c => h.1 i j a b c⟩

/-- the leaf ranges of cell `i` of `IO` and cell `j` of `IT` intersect -/
def interR (IO IT : Index) (i j : Nat) : Prop :=
  i < IO.size ∧ j < IT.size ∧ lo IO i ≤ hi IT j ∧ lo IT j ≤ hi IO i

/-- the pair has to be looked at: equal cells when both have edges; nested cells unless the larger
    one has edges and the smaller one has none (such a pair is stepped over by `hasCrossing`) -/
def needR (IO IT : Index) (i j : Nat) : Prop :=
  (hi IO i - lo IO i = hi IT j - lo IT j → 0 < IO.numEdgesAt i ∧ 0 < IT.numEdgesAt j) ∧
  (hi IT j - lo IT j < hi IO i - lo IO i → IO.numEdgesAt i = 0 ∨ 0 < IT.numEdgesAt j) ∧
  (hi IO i - lo IO i < hi IT j - lo IT j → IT.numEdgesAt j = 0 ∨ 0 < IO.numEdgesAt i)

structure LogInvR (IO IT : Index) (mk : Nat → Nat → Nat × Nat) (po pt : Nat) (l : Log) : Prop where
  nodup : l.Nodup
  sound : ∀ e ∈ l, ∃ i j, e = mk i j ∧ interR IO IT i j ∧ (i < po ∨ j < pt)
  complete : ∀ i j, interR IO IT i j → (i < po ∨ j < pt) → needR IO IT i j → mk i j ∈ l

theorem LogInvR.swap {IO IT : Index} {mk : Nat → Nat → Nat × Nat} {po pt : Nat} {l : Log}
    (h : LogInvR IO IT mk po pt l) : LogInvR IT IO (fun j i => mk i j) pt po l := by
  refine ⟨h.nodup, ?_, ?_⟩
  · intro e he
    obtain ⟨i, j, a, b, c⟩ := h.sound e he
    exact ⟨j, i, a, ⟨b.2.1, b.1, b.2.2.2, b.2.2.1⟩, c.symm⟩
  · intro j i a b c
    exact h.complete i j ⟨a.2.1, a.1, a.2.2.2, a.2.2.1⟩ b.symm ⟨fun e => (c.1 e.symm).symm, c.2.2, c.2.1⟩

/-- injectivity of the pair constructor -/
def MkInj (mk : Nat → Nat → Nat × Nat) : Prop := ∀ i j i' j', mk i j = mk i' j' → i = i' ∧ j = j'

theorem mkInj_false : MkInj (mkPair false) := by
  intro i j i' j' h; simp [mkPair] at h; exact h
theorem mkInj_true : MkInj (mkPair true) := by
  intro i j i' j' h; simp [mkPair] at h; exact ⟨h.2, h.1⟩

/-- the iterator of `O` lies before the cell of `T`: `seekTo` -/
theorem step_seek {IO IT : Index} (FO : Facts IO) (FT : Facts IT) {mk : Nat → Nat → Nat × Nat} {po pt po' : Nat} {l : Log}
    (hpo : po < IO.size) (hpt : pt ≤ IT.size) (hlt : hi IO po < lo IT pt) (hq : BndHi IO (lo IT pt) po')
    (hc : CleanR IO IT po pt) :
    po < po' ∧ po' ≤ IO.size ∧ CleanR IO IT po' pt ∧ (LogInvR IO IT mk po pt l → LogInvR IO IT mk po' pt l) := by
  have h1 : po < po' := by
    rcases Nat.lt_or_ge po po' with h | h
    · exact h
    · have := hq.2.2 po h hpo; omega
  have hno : ∀ i j, i < po' → pt ≤ j → j < IT.size → hi IO i < lo IT j := by
    intro i j hi' hj hjs
    have := hq.2.1 i hi'
    have := FT.lo_mono hj hjs
    omega
  refine ⟨h1, hq.1, ⟨hno, fun i j a b c => hc.2 i j a (by omega) c⟩, ?_⟩
  intro hl
  refine ⟨hl.nodup, ?_, ?_⟩
  · intro e he
    obtain ⟨i, j, a, b, c⟩ := hl.sound e he
    exact ⟨i, j, a, b, by omega⟩
  · intro i j hi' hor hn
    by_cases hold : i < po ∨ j < pt
    · exact hl.complete i j hi' hold hn
    · have := hno i j (by omega) (by omega) hi'.2.1
      have := hi'.2.2.2
      omega

/-- the cell of `O` strictly contains the cell of `T`: one `loopCrosser.hasCrossingRelation` -/
theorem step_larger {IO IT : Index} {mk : Nat → Nat → Nat × Nat} (hmk : MkInj mk) {po pt q : Nat} {l : Log}
    (C : StepCtx IO IT po pt) (hq : BndLo IT (hi IO po) q) (hc : CleanR IO IT po pt) :
    pt < q ∧ q ≤ IT.size ∧ CleanR IO IT (po + 1) q ∧
    (∀ Δ : List Nat, Δ.Nodup → (∀ j ∈ Δ, pt ≤ j ∧ j < q) →
      (∀ j, pt ≤ j → j < q → (IO.numEdgesAt po = 0 ∨ 0 < IT.numEdgesAt j) → j ∈ Δ) →
      LogInvR IO IT mk po pt l → LogInvR IO IT mk (po + 1) q (l ++ Δ.map (mk po))) := by
  have hptq := C.pb_lt_bnd hq
  have hins : ∀ j, pt ≤ j → j < q → lo IO po ≤ lo IT j ∧ hi IT j ≤ hi IO po :=
    fun j a b => C.inside a (by have := hq.1; omega) (hq.2.1 j b)
  have hcl : CleanR IO IT (po + 1) q := by
    refine ⟨?_, ?_⟩
    · intro i j hi' hj hjs
      rcases Nat.lt_or_ge i po with h | h
      · exact hc.1 i j h (by omega) hjs
      · have : i = po := by omega
        subst this; exact hq.2.2 j hj hjs
    · intro i j hj hi' his
      rcases Nat.lt_or_ge j pt with h | h
      · exact hc.2 i j h (by omega) his
      · have := hins j h hj
        have := C.FO.srt po i (by omega) his
        omega
  refine ⟨hptq, hq.1, hcl, ?_⟩
  intro Δ hΔ1 hΔ2 hΔ3 hl
  refine ⟨?_, ?_, ?_⟩
  · rw [List.nodup_append]
    refine ⟨hl.nodup, ?_, ?_⟩
    · exact List.Pairwise.map _ (fun x y hxy h => hxy (hmk _ _ _ _ h).2) hΔ1
    · intro a ha b hb hab
      obtain ⟨j, hj, rfl⟩ := List.mem_map.mp hb
      obtain ⟨i', j', e1, _, e3⟩ := hl.sound a ha
      rw [hab] at e1
      obtain ⟨x, y⟩ := hmk _ _ _ _ e1
      have := (hΔ2 j hj).1
      omega
  · intro e he
    rcases List.mem_append.mp he with he | he
    · obtain ⟨i, j, a, b, c⟩ := hl.sound e he
      exact ⟨i, j, a, b, by omega⟩
    · obtain ⟨j, hj, rfl⟩ := List.mem_map.mp he
      have hj' := hΔ2 j hj
      have hin := hins j hj'.1 hj'.2
      have hjs : j < IT.size := by have := hq.1; omega
      have hR := C.FT.inR j hjs
      refine ⟨po, j, rfl, ⟨C.hpa, hjs, by omega, by omega⟩, Or.inl (by omega)⟩
  · intro i j hi' hor hn
    by_cases hold : i < po ∨ j < pt
    · exact List.mem_append.mpr (Or.inl (hl.complete i j hi' hold hn))
    · have hi1 : po ≤ i := by omega
      have hj1 : pt ≤ j := by omega
      rcases Nat.lt_or_ge po i with h | h
      · -- i > po: then j < q, and T(j) lies inside O(po), before O(i)
        have hjq : j < q := by omega
        have := hins j hj1 hjq
        have := C.FO.srt po i h hi'.1
        have := hi'.2.2.1
        omega
      · have : i = po := by omega
        subst this
        have hjq : j < q := by
          rcases Nat.lt_or_ge j q with h' | h'
          · exact h'
          · have := hq.2.2 j h' hi'.2.1; have := hi'.2.2.2; omega
        have hin := hins j hj1 hjq
        -- T(j) is strictly smaller than O(po)
        have hsm : hi IT j - lo IT j < hi IO i - lo IO i := by
          have hR := C.FT.inR j hi'.2.1
          rcases Nat.lt_or_ge pt j with h' | h'
          · have := C.FT.srt pt j h' hi'.2.1
            have := C.FT.inR pt C.hpb
            have := C.sub
            omega
          · have : j = pt := by omega
            subst this; exact C.strict
        exact List.mem_append.mpr (Or.inr (List.mem_map.mpr ⟨j, hΔ3 j hj1 hjq (hn.2.1 hsm), rfl⟩))

/-- equal cells -/
theorem step_same {IO IT : Index} (FO : Facts IO) (FT : Facts IT) {mk : Nat → Nat → Nat × Nat} (hmk : MkInj mk)
    {po pt : Nat} {l : Log} (hpo : po < IO.size) (hpt : pt < IT.size)
    (hlo : lo IO po = lo IT pt) (hhi : hi IO po = hi IT pt) (hc : CleanR IO IT po pt) :
    CleanR IO IT (po + 1) (pt + 1) ∧
    (LogInvR IO IT mk po pt l →
      (¬ (0 < IO.numEdgesAt po ∧ 0 < IT.numEdgesAt pt) → LogInvR IO IT mk (po + 1) (pt + 1) l) ∧
      LogInvR IO IT mk (po + 1) (pt + 1) (l ++ [mk po pt])) := by
  have hRo := FO.inR po hpo
  have hRt := FT.inR pt hpt
  have hcl : CleanR IO IT (po + 1) (pt + 1) := by
    refine ⟨?_, ?_⟩
    · intro i j hi' hj hjs
      rcases Nat.lt_or_ge i po with h | h
      · exact hc.1 i j h (by omega) hjs
      · have : i = po := by omega
        subst this
        have := FT.srt pt j (by omega) hjs; omega
    · intro i j hj hi' his
      rcases Nat.lt_or_ge j pt with h | h
      · exact hc.2 i j h (by omega) his
      · have : j = pt := by omega
        subst this
        have := FO.srt po i (by omega) his; omega
  refine ⟨hcl, ?_⟩
  intro hl
  -- the only new pair is (po, pt)
  have honly : ∀ i j, interR IO IT i j → (i < po + 1 ∨ j < pt + 1) → ¬ (i < po ∨ j < pt) → i = po ∧ j = pt := by
    intro i j hi' hor hold
    have hi1 : po ≤ i := by omega
    have hj1 : pt ≤ j := by omega
    rcases Nat.lt_or_ge po i with h | h
    · have hjp : j = pt := by omega
      subst hjp
      have := FO.srt po i h hi'.1
      have := hi'.2.2.1
      omega
    · rcases Nat.lt_or_ge pt j with h' | h'
      · have hip : i = po := by omega
        subst hip
        have := FT.srt pt j h' hi'.2.1
        have := hi'.2.2.2
        omega
      · omega
  refine ⟨?_, ?_⟩
  · intro hne
    refine ⟨hl.nodup, ?_, ?_⟩
    · intro e he
      obtain ⟨i, j, a, b, c⟩ := hl.sound e he
      exact ⟨i, j, a, b, by omega⟩
    · intro i j hi' hor hn
      by_cases hold : i < po ∨ j < pt
      · exact hl.complete i j hi' hold hn
      · obtain ⟨rfl, rfl⟩ := honly i j hi' hor hold
        exact absurd (hn.1 (by omega)) hne
  · refine ⟨?_, ?_, ?_⟩
    · rw [List.nodup_append]
      refine ⟨hl.nodup, by simp, ?_⟩
      intro a ha b hb hab
      simp only [List.mem_singleton] at hb
      subst hb
      obtain ⟨i', j', e1, _, e3⟩ := hl.sound a ha
      rw [hab] at e1
      obtain ⟨x, y⟩ := hmk _ _ _ _ e1
      omega
    · intro e he
      rcases List.mem_append.mp he with he | he
      · obtain ⟨i, j, a, b, c⟩ := hl.sound e he
        exact ⟨i, j, a, b, by omega⟩
      · simp only [List.mem_singleton] at he
        subst he
        exact ⟨po, pt, rfl, ⟨hpo, hpt, by omega, by omega⟩, Or.inl (by omega)⟩
    · intro i j hi' hor hn
      by_cases hold : i < po ∨ j < pt
      · exact List.mem_append.mpr (Or.inl (hl.complete i j hi' hold hn))
      · obtain ⟨rfl, rfl⟩ := honly i j hi' hor hold
        exact List.mem_append.mpr (Or.inr (by simp))

end S2Proofs.C07
