/-
  S2Proofs.C07.WalkWedge — the real tests of the walk (`S2.RelateWalk.edgeCrossesCell` …
  `cellCrossesAnySubcell`), both directions:
    * SOUNDNESS (`…_sound`): whatever a test answers, it keeps a state invariant `J` that every wedge
      evaluation at a shared end vertex keeps, and a `true` answer comes from a proper crossing of two
      of the edges it was given or from a wedge evaluation at a shared end vertex that answered `true`;
    * COMPLETENESS for the wedges (`…_inv`, `…_le`, `…_obs`): a test that answers `false` has evaluated
      the wedge test at EVERY pair of given edges with a common end vertex, every one of these
      evaluations answered `false`, and the flags they set are still set in the returned state.
  Helper lemmas; the property theorems are in S2Proofs/Properties/C07_WalkSound.lean.
-/
import S2Proofs.C07.WalkReal
namespace S2Proofs.C07
open S2 S2.CellID S2.RelateWalk S2.Relate

section
variable {α : Type} [DecidableEq α] (G : Geo α)

/-- the wedge test `edgeCrossesCell` issues for the own edge `aj` and the other loop's edge `bj`
    (the crosser `ba`, `sw = true`, passes the wedges in exchanged order: the first wedge is always A's) -/
def wedgeOf (k : RelKind) (sw : Bool) (X Y : Loop α) (aj bj : Nat) (s : RelState) : RelState × Bool :=
  if sw then wedgesCross G k s (Y.vertex G bj) (Y.vertex G (bj + 1)) (Y.vertex G (bj + 2)) (X.vertex G aj) (X.vertex G (aj + 2))
  else wedgesCross G k s (X.vertex G aj) (X.vertex G (aj + 1)) (X.vertex G (aj + 2)) (Y.vertex G bj) (Y.vertex G (bj + 2))

theorem edgeCrossesCell_cons_eq (k : RelKind) (sw : Bool) (X Y : Loop α) (aj b : Nat) (rest : List Nat) (s : RelState) :
    edgeCrossesCell G k sw X Y aj (b :: rest) s =
      if (crossingSign G (X.vertex G aj) (X.vertex G (aj + 1)) (Y.vertex G b) (Y.vertex G (b + 1)) == -1) = true then
        edgeCrossesCell G k sw X Y aj rest s
      else if (crossingSign G (X.vertex G aj) (X.vertex G (aj + 1)) (Y.vertex G b) (Y.vertex G (b + 1)) == 1) = true then (s, true)
      else if X.vertex G (aj + 1) = Y.vertex G (b + 1) then
        (if (wedgeOf G k sw X Y aj b s).2 = true then ((wedgeOf G k sw X Y aj b s).1, true)
         else edgeCrossesCell G k sw X Y aj rest (wedgeOf G k sw X Y aj b s).1)
      else edgeCrossesCell G k sw X Y aj rest s := by
  rfl

/-- the four things the head edge can do -/
theorem edgeCrossesCell_head (k : RelKind) (sw : Bool) (X Y : Loop α) (aj b : Nat) (rest : List Nat) (s : RelState) :
    (¬ SharedEnd G X Y aj b ∧ ¬ CrossE G X Y aj b ∧
      edgeCrossesCell G k sw X Y aj (b :: rest) s = edgeCrossesCell G k sw X Y aj rest s) ∨
    (CrossE G X Y aj b ∧ edgeCrossesCell G k sw X Y aj (b :: rest) s = (s, true)) ∨
    (SharedEnd G X Y aj b ∧ (wedgeOf G k sw X Y aj b s).2 = true ∧
      edgeCrossesCell G k sw X Y aj (b :: rest) s = ((wedgeOf G k sw X Y aj b s).1, true)) ∨
    (SharedEnd G X Y aj b ∧ (wedgeOf G k sw X Y aj b s).2 = false ∧
      edgeCrossesCell G k sw X Y aj (b :: rest) s = edgeCrossesCell G k sw X Y aj rest (wedgeOf G k sw X Y aj b s).1) := by
  have hz : SharedEnd G X Y aj b →
      crossingSign G (X.vertex G aj) (X.vertex G (aj + 1)) (Y.vertex G b) (Y.vertex G (b + 1)) = 0 := by
    intro hsh; rw [crossingSign_eq]; unfold SharedEnd at hsh; simp [hsh]
  rw [edgeCrossesCell_cons_eq]
  by_cases h1 : (crossingSign G (X.vertex G aj) (X.vertex G (aj + 1)) (Y.vertex G b) (Y.vertex G (b + 1)) == -1) = true
  · rw [if_pos h1]
    have e : crossingSign G (X.vertex G aj) (X.vertex G (aj + 1)) (Y.vertex G b) (Y.vertex G (b + 1)) = -1 := by simpa using h1
    left
    refine ⟨fun hsh => ?_, fun hc => ?_, rfl⟩
    · rw [hz hsh] at e; cases e
    · unfold CrossE at hc; rw [hc] at e; cases e
  · rw [if_neg h1]
    by_cases h2 : (crossingSign G (X.vertex G aj) (X.vertex G (aj + 1)) (Y.vertex G b) (Y.vertex G (b + 1)) == 1) = true
    · rw [if_pos h2]
      right; left
      exact ⟨by unfold CrossE; simpa using h2, rfl⟩
    · rw [if_neg h2]
      have hnc : ¬ CrossE G X Y aj b := by
        intro hc; unfold CrossE at hc; rw [hc] at h2; simp at h2
      by_cases h3 : X.vertex G (aj + 1) = Y.vertex G (b + 1)
      · rw [if_pos h3]
        by_cases h4 : (wedgeOf G k sw X Y aj b s).2 = true
        · rw [if_pos h4]; right; right; left; exact ⟨h3, h4, rfl⟩
        · rw [if_neg h4]; right; right; right; exact ⟨h3, by simpa using h4, rfl⟩
      · rw [if_neg h3]; left; exact ⟨h3, hnc, rfl⟩

/-! ### soundness: every answer keeps `J`; a `true` answer yields `W` -/

section sound
variable (k : RelKind) (sw : Bool) (X Y : Loop α) {J : RelState → Prop} {W : Prop} (PA PB : Nat → Prop)
  (hcross : ∀ aj bj, PA aj → PB bj → CrossE G X Y aj bj → W)
  (hwedge : ∀ aj bj, PA aj → PB bj → SharedEnd G X Y aj bj → ∀ s0, J s0 →
      J (wedgeOf G k sw X Y aj bj s0).1 ∧ ((wedgeOf G k sw X Y aj bj s0).2 = true → W))
include hcross hwedge

theorem edgeCrossesCell_sound (aj : Nat) (ha : PA aj) :
    ∀ (bEdges : List Nat), (∀ bj ∈ bEdges, PB bj) → ∀ s, J s →
      J (edgeCrossesCell G k sw X Y aj bEdges s).1 ∧ ((edgeCrossesCell G k sw X Y aj bEdges s).2 = true → W) := by
  intro bEdges
  induction bEdges with
  | nil => intro _ s hJ; exact ⟨hJ, fun h => by simp [edgeCrossesCell] at h⟩
  | cons b rest ih =>
    intro hB s hJ
    have hb : PB b := hB b (by simp)
    have hrest : ∀ bj ∈ rest, PB bj := fun bj h => hB bj (List.mem_cons_of_mem _ h)
    rcases edgeCrossesCell_head G k sw X Y aj b rest s with ⟨_, _, e⟩ | ⟨hc, e⟩ | ⟨hs, hf, e⟩ | ⟨hs, _, e⟩
    · rw [e]; exact ih hrest s hJ
    · rw [e]; exact ⟨hJ, fun _ => hcross aj b ha hb hc⟩
    · rw [e]
      obtain ⟨w1, w2⟩ := hwedge aj b ha hb hs s hJ
      exact ⟨w1, fun _ => w2 hf⟩
    · rw [e]
      exact ih hrest _ (hwedge aj b ha hb hs s hJ).1

theorem cellCrossesCell_sound (bEdges : List Nat) (hB : ∀ bj ∈ bEdges, PB bj) :
    ∀ (aEdges : List Nat), (∀ aj ∈ aEdges, PA aj) → ∀ s, J s →
      J (cellCrossesCell G k sw X Y bEdges aEdges s).1 ∧ ((cellCrossesCell G k sw X Y bEdges aEdges s).2 = true → W) := by
  intro aEdges
  induction aEdges with
  | nil => intro _ s hJ; exact ⟨hJ, fun h => by simp [cellCrossesCell] at h⟩
  | cons a rest ih =>
    intro hA s hJ
    obtain ⟨e1, e2⟩ := edgeCrossesCell_sound G k sw X Y PA PB hcross hwedge a (hA a (by simp)) bEdges hB s hJ
    unfold cellCrossesCell
    simp only []
    by_cases hr : (edgeCrossesCell G k sw X Y a bEdges s).2 = true
    · rw [if_pos hr]; exact ⟨e1, fun _ => e2 hr⟩
    · rw [if_neg hr]; exact ih (fun aj h => hA aj (List.mem_cons_of_mem _ h)) _ e1

theorem edgeCrossesCells_sound (IT : Index) (hB : ∀ c, ∀ bj ∈ IT.edgesAt c, PB bj) (aj : Nat) (ha : PA aj) :
    ∀ (cells : List Nat) s, J s →
      J (edgeCrossesCells G k sw X Y IT aj cells s).1 ∧ ((edgeCrossesCells G k sw X Y IT aj cells s).2 = true → W) := by
  intro cells
  induction cells with
  | nil => intro s hJ; exact ⟨hJ, fun h => by simp [edgeCrossesCells] at h⟩
  | cons c rest ih =>
    intro s hJ
    obtain ⟨e1, e2⟩ := edgeCrossesCell_sound G k sw X Y PA PB hcross hwedge aj ha (IT.edgesAt c) (hB c) s hJ
    unfold edgeCrossesCells
    simp only []
    by_cases hr : (edgeCrossesCell G k sw X Y aj (IT.edgesAt c) s).2 = true
    · rw [if_pos hr]; exact ⟨e1, fun _ => e2 hr⟩
    · rw [if_neg hr]; exact ih _ e1

theorem cellCrossesAnySubcell_sound (IT : Index) (hB : ∀ c, ∀ bj ∈ IT.edgesAt c, PB bj) (gc : Nat → List Nat) :
    ∀ (aEdges : List Nat), (∀ aj ∈ aEdges, PA aj) → ∀ q s, J s →
      J (cellCrossesAnySubcell G k sw X Y IT gc aEdges q s).1.1 ∧
      ((cellCrossesAnySubcell G k sw X Y IT gc aEdges q s).2 = true → W) := by
  intro aEdges
  induction aEdges with
  | nil => intro _ q s hJ; exact ⟨hJ, fun h => by simp [cellCrossesAnySubcell] at h⟩
  | cons a rest ih =>
    intro hA q s hJ
    have hrest : ∀ aj ∈ rest, PA aj := fun aj h => hA aj (List.mem_cons_of_mem _ h)
    unfold cellCrossesAnySubcell
    simp only []
    by_cases he : (q ++ gc a).isEmpty = true
    · rw [if_pos he]; exact ih hrest _ s hJ
    · rw [if_neg he]
      obtain ⟨e1, e2⟩ := edgeCrossesCells_sound G k sw X Y PA PB hcross hwedge IT hB a (hA a (by simp)) (q ++ gc a) s hJ
      by_cases hr : (edgeCrossesCells G k sw X Y IT a (q ++ gc a) s).2 = true
      · rw [if_pos hr]; exact ⟨e1, fun _ => e2 hr⟩
      · rw [if_neg hr]; exact ih hrest _ _ e1

end sound

/-! ### tests that answer `false`: state invariants kept by the non-firing wedge evaluations -/

section inv
variable (k : RelKind) (sw : Bool) (X Y : Loop α) {Inv : RelState → Prop}
  (hstep : ∀ aj bj s0, Inv s0 → (wedgeOf G k sw X Y aj bj s0).2 = false → Inv (wedgeOf G k sw X Y aj bj s0).1)
include hstep

theorem edgeCrossesCell_inv (aj : Nat) : ∀ (bEdges : List Nat) s, Inv s →
    (edgeCrossesCell G k sw X Y aj bEdges s).2 = false → Inv (edgeCrossesCell G k sw X Y aj bEdges s).1 := by
  intro bEdges
  induction bEdges with
  | nil => intro s hI _; exact hI
  | cons b rest ih =>
    intro s hI
    rcases edgeCrossesCell_head G k sw X Y aj b rest s with ⟨_, _, e⟩ | ⟨_, e⟩ | ⟨_, _, e⟩ | ⟨_, hf, e⟩
    · rw [e]; exact ih s hI
    · rw [e]; intro h; cases h
    · rw [e]; intro h; cases h
    · rw [e]; exact ih _ (hstep aj b s hI hf)

theorem cellCrossesCell_inv (bEdges : List Nat) : ∀ (aEdges : List Nat) s, Inv s →
    (cellCrossesCell G k sw X Y bEdges aEdges s).2 = false → Inv (cellCrossesCell G k sw X Y bEdges aEdges s).1 := by
  intro aEdges
  induction aEdges with
  | nil => intro s hI _; exact hI
  | cons a rest ih =>
    intro s hI
    unfold cellCrossesCell
    simp only []
    by_cases hr : (edgeCrossesCell G k sw X Y a bEdges s).2 = true
    · rw [if_pos hr]; intro h; cases h
    · rw [if_neg hr]
      exact ih _ (edgeCrossesCell_inv G k sw X Y hstep a bEdges s hI (by simpa using hr))

theorem edgeCrossesCells_inv (IT : Index) (aj : Nat) : ∀ (cells : List Nat) s, Inv s →
    (edgeCrossesCells G k sw X Y IT aj cells s).2 = false → Inv (edgeCrossesCells G k sw X Y IT aj cells s).1 := by
  intro cells
  induction cells with
  | nil => intro s hI _; exact hI
  | cons c rest ih =>
    intro s hI
    unfold edgeCrossesCells
    simp only []
    by_cases hr : (edgeCrossesCell G k sw X Y aj (IT.edgesAt c) s).2 = true
    · rw [if_pos hr]; intro h; cases h
    · rw [if_neg hr]
      exact ih _ (edgeCrossesCell_inv G k sw X Y hstep aj _ s hI (by simpa using hr))

theorem cellCrossesAnySubcell_inv (IT : Index) (gc : Nat → List Nat) : ∀ (aEdges q : List Nat) s, Inv s →
    (cellCrossesAnySubcell G k sw X Y IT gc aEdges q s).2 = false →
    Inv (cellCrossesAnySubcell G k sw X Y IT gc aEdges q s).1.1 := by
  intro aEdges
  induction aEdges with
  | nil => intro q s hI _; exact hI
  | cons a rest ih =>
    intro q s hI
    unfold cellCrossesAnySubcell
    simp only []
    by_cases he : (q ++ gc a).isEmpty = true
    · rw [if_pos he]; exact ih _ s hI
    · rw [if_neg he]
      by_cases hr : (edgeCrossesCells G k sw X Y IT a (q ++ gc a) s).2 = true
      · rw [if_pos hr]; intro h; cases h
      · rw [if_neg hr]
        exact ih _ _ (edgeCrossesCells_inv G k sw X Y hstep IT a _ s hI (by simpa using hr))

end inv

/-! ### the flags only grow; what a non-firing test has observed -/

/-- flag-wise implication -/
def StLe (s t : RelState) : Prop :=
  (s.foundSharedVertex = true → t.foundSharedVertex = true) ∧ (s.containsEdge = true → t.containsEdge = true) ∧
  (s.excludesEdge = true → t.excludesEdge = true)

theorem StLe.refl (s : RelState) : StLe s s := ⟨id, id, id⟩
theorem StLe.trans {s t u : RelState} (h1 : StLe s t) (h2 : StLe t u) : StLe s u :=
  ⟨fun h => h2.1 (h1.1 h), fun h => h2.2.1 (h1.2.1 h), fun h => h2.2.2 (h1.2.2 h)⟩

theorem wedgesCross_le (k : RelKind) (s : RelState) (a0 ab1 a2 b0 b2 : α) :
    StLe s (wedgesCross G k s a0 ab1 a2 b0 b2).1 := by
  cases k with
  | contains => exact ⟨fun _ => rfl, id, id⟩
  | intersects => exact ⟨fun _ => rfl, id, id⟩
  | compareBoundary r =>
    unfold wedgesCross
    simp only []
    split
    · exact ⟨fun _ => rfl, fun _ => rfl, id⟩
    · exact ⟨fun _ => rfl, id, fun _ => rfl⟩

theorem wedgeOf_le (k : RelKind) (sw : Bool) (X Y : Loop α) (aj bj : Nat) (s : RelState) :
    StLe s (wedgeOf G k sw X Y aj bj s).1 := by
  unfold wedgeOf; split <;> exact wedgesCross_le G k s _ _ _ _ _

/-- the wedge test at (`aj`, `bj`) was evaluated in some state, answered `false`, and the flags of the
    state it produced are set in `s'` -/
def Obs (k : RelKind) (sw : Bool) (X Y : Loop α) (aj bj : Nat) (s' : RelState) : Prop :=
  ∃ s0, (wedgeOf G k sw X Y aj bj s0).2 = false ∧ StLe (wedgeOf G k sw X Y aj bj s0).1 s'

theorem Obs.mono {k : RelKind} {sw : Bool} {X Y : Loop α} {aj bj : Nat} {s t : RelState}
    (h : Obs G k sw X Y aj bj s) (hst : StLe s t) : Obs G k sw X Y aj bj t := by
  obtain ⟨s0, a, b⟩ := h; exact ⟨s0, a, b.trans hst⟩

section obs
variable (k : RelKind) (sw : Bool) (X Y : Loop α)

theorem edgeCrossesCell_le (aj : Nat) (bEdges : List Nat) (s : RelState)
    (h : (edgeCrossesCell G k sw X Y aj bEdges s).2 = false) : StLe s (edgeCrossesCell G k sw X Y aj bEdges s).1 :=
  edgeCrossesCell_inv G k sw X Y (Inv := StLe s) (fun aj bj s0 h0 _ => h0.trans (wedgeOf_le G k sw X Y aj bj s0))
    aj bEdges s (StLe.refl s) h

theorem cellCrossesCell_le (bEdges aEdges : List Nat) (s : RelState)
    (h : (cellCrossesCell G k sw X Y bEdges aEdges s).2 = false) : StLe s (cellCrossesCell G k sw X Y bEdges aEdges s).1 :=
  cellCrossesCell_inv G k sw X Y (Inv := StLe s) (fun aj bj s0 h0 _ => h0.trans (wedgeOf_le G k sw X Y aj bj s0))
    bEdges aEdges s (StLe.refl s) h

theorem edgeCrossesCells_le (IT : Index) (aj : Nat) (cells : List Nat) (s : RelState)
    (h : (edgeCrossesCells G k sw X Y IT aj cells s).2 = false) : StLe s (edgeCrossesCells G k sw X Y IT aj cells s).1 :=
  edgeCrossesCells_inv G k sw X Y (Inv := StLe s) (fun aj bj s0 h0 _ => h0.trans (wedgeOf_le G k sw X Y aj bj s0))
    IT aj cells s (StLe.refl s) h

theorem cellCrossesAnySubcell_le (IT : Index) (gc : Nat → List Nat) (aEdges q : List Nat) (s : RelState)
    (h : (cellCrossesAnySubcell G k sw X Y IT gc aEdges q s).2 = false) :
    StLe s (cellCrossesAnySubcell G k sw X Y IT gc aEdges q s).1.1 :=
  cellCrossesAnySubcell_inv G k sw X Y (Inv := StLe s) (fun aj bj s0 h0 _ => h0.trans (wedgeOf_le G k sw X Y aj bj s0))
    IT gc aEdges q s (StLe.refl s) h

theorem edgeCrossesCell_obs (aj : Nat) : ∀ (bEdges : List Nat) s, (edgeCrossesCell G k sw X Y aj bEdges s).2 = false →
    ∀ bj ∈ bEdges, SharedEnd G X Y aj bj → Obs G k sw X Y aj bj (edgeCrossesCell G k sw X Y aj bEdges s).1 := by
  intro bEdges
  induction bEdges with
  | nil => intro s _ bj hbj; simp at hbj
  | cons b rest ih =>
    intro s h bj hbj hsh
    rcases edgeCrossesCell_head G k sw X Y aj b rest s with ⟨hns, _, e⟩ | ⟨_, e⟩ | ⟨_, _, e⟩ | ⟨_, hf, e⟩
    · rw [e] at h ⊢
      rcases List.mem_cons.mp hbj with rfl | hm
      · exact absurd hsh hns
      · exact ih s h bj hm hsh
    · rw [e] at h; cases h
    · rw [e] at h; cases h
    · rw [e] at h ⊢
      rcases List.mem_cons.mp hbj with rfl | hm
      · exact ⟨s, hf, edgeCrossesCell_le G k sw X Y aj rest _ h⟩
      · exact ih _ h bj hm hsh

theorem cellCrossesCell_obs (bEdges : List Nat) : ∀ (aEdges : List Nat) s,
    (cellCrossesCell G k sw X Y bEdges aEdges s).2 = false →
    ∀ aj ∈ aEdges, ∀ bj ∈ bEdges, SharedEnd G X Y aj bj →
      Obs G k sw X Y aj bj (cellCrossesCell G k sw X Y bEdges aEdges s).1 := by
  intro aEdges
  induction aEdges with
  | nil => intro s _ aj haj; simp at haj
  | cons a rest ih =>
    intro s h aj haj bj hbj hsh
    have hle := cellCrossesCell_le G k sw X Y bEdges
    unfold cellCrossesCell at h ⊢
    simp only [] at h ⊢
    by_cases hr : (edgeCrossesCell G k sw X Y a bEdges s).2 = true
    · rw [if_pos hr] at h; cases h
    · rw [if_neg hr] at h ⊢
      rcases List.mem_cons.mp haj with rfl | hm
      · exact (edgeCrossesCell_obs G k sw X Y aj bEdges s (by simpa using hr) bj hbj hsh).mono G (hle rest _ h)
      · exact ih _ h aj hm bj hbj hsh

theorem edgeCrossesCells_obs (IT : Index) (aj : Nat) : ∀ (cells : List Nat) s,
    (edgeCrossesCells G k sw X Y IT aj cells s).2 = false →
    ∀ c ∈ cells, ∀ bj ∈ IT.edgesAt c, SharedEnd G X Y aj bj →
      Obs G k sw X Y aj bj (edgeCrossesCells G k sw X Y IT aj cells s).1 := by
  intro cells
  induction cells with
  | nil => intro s _ c hc; simp at hc
  | cons c0 rest ih =>
    intro s h c hc bj hbj hsh
    have hle := edgeCrossesCells_le G k sw X Y IT aj
    unfold edgeCrossesCells at h ⊢
    simp only [] at h ⊢
    by_cases hr : (edgeCrossesCell G k sw X Y aj (IT.edgesAt c0) s).2 = true
    · rw [if_pos hr] at h; cases h
    · rw [if_neg hr] at h ⊢
      rcases List.mem_cons.mp hc with rfl | hm
      · exact (edgeCrossesCell_obs G k sw X Y aj _ s (by simpa using hr) bj hbj hsh).mono G (hle rest _ h)
      · exact ih _ h c hm bj hbj hsh

theorem cellCrossesAnySubcell_obs (IT : Index) (gc : Nat → List Nat) : ∀ (aEdges q : List Nat) s,
    (cellCrossesAnySubcell G k sw X Y IT gc aEdges q s).2 = false →
    ∀ aj ∈ aEdges, ∀ c ∈ gc aj, ∀ bj ∈ IT.edgesAt c, SharedEnd G X Y aj bj →
      Obs G k sw X Y aj bj (cellCrossesAnySubcell G k sw X Y IT gc aEdges q s).1.1 := by
  intro aEdges
  induction aEdges with
  | nil => intro q s _ aj haj; simp at haj
  | cons a rest ih =>
    intro q s h aj haj c hc bj hbj hsh
    have hle := cellCrossesAnySubcell_le G k sw X Y IT gc
    unfold cellCrossesAnySubcell at h ⊢
    simp only [] at h ⊢
    by_cases he : (q ++ gc a).isEmpty = true
    · rw [if_pos he] at h ⊢
      rcases List.mem_cons.mp haj with rfl | hm
      · have : q ++ gc aj = [] := by simpa using he
        have : gc aj = [] := (List.append_eq_nil_iff.mp this).2
        rw [this] at hc; simp at hc
      · exact ih _ _ h aj hm c hc bj hbj hsh
    · rw [if_neg he] at h ⊢
      by_cases hr : (edgeCrossesCells G k sw X Y IT a (q ++ gc a) s).2 = true
      · rw [if_pos hr] at h; cases h
      · rw [if_neg hr] at h ⊢
        rcases List.mem_cons.mp haj with rfl | hm
        · exact (edgeCrossesCells_obs G k sw X Y IT aj _ s (by simpa using hr) c
            (List.mem_append.mpr (Or.inr hc)) bj hbj hsh).mono G (hle rest _ _ h)
        · exact ih _ _ h aj hm c hc bj hbj hsh

end obs
end
end S2Proofs.C07
