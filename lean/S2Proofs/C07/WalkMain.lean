/-
  S2Proofs.C07.WalkMain — the merge loop of `hasCrossingRelation` (`S2.RelateWalk.mainLoop`): for
  every instance of the tests it terminates within `walkFuel`, and (ghost log) it looks at every pair
  of cells with intersecting leaf ranges exactly once.
  Helper lemmas; the property theorems are in S2Proofs/Properties/C07_Walk.lean.
-/
import S2Proofs.C07.WalkAlign
namespace S2Proofs.C07
open S2 S2.CellID S2.RelateWalk

section eqn
variable {σ : Type} (T : Tests σ)

theorem mainLoop_succ (IA IB : Index) (fuel pa pb : Nat) (s : σ) :
    mainLoop T IA IB (fuel + 1) pa pb s =
      if (!(!IA.done pa || !IB.done pb)) = true then some (s, false)
      else if IA.rangeMaxAt pa < IB.rangeMinAt pb then
        mainLoop T IA IB fuel (IA.seekTo (IB.rangeMinAt pb) (IB.rangeMaxAt pb) (IB.idAt pb)) pb s
      else if IB.rangeMaxAt pb < IA.rangeMinAt pa then
        mainLoop T IA IB fuel pa (IB.seekTo (IA.rangeMinAt pa) (IA.rangeMaxAt pa) (IA.idAt pa)) s
      else if 0 < int64OfWord (lsb (IA.idAt pa) - lsb (IB.idAt pb)) then
        (if (crosserStep T false IA IB pa pb s).2.2.2 = true then some ((crosserStep T false IA IB pa pb s).1, true)
         else mainLoop T IA IB fuel (crosserStep T false IA IB pa pb s).2.1 (crosserStep T false IA IB pa pb s).2.2.1
                (crosserStep T false IA IB pa pb s).1)
      else if int64OfWord (lsb (IA.idAt pa) - lsb (IB.idAt pb)) < 0 then
        (if (crosserStep T true IB IA pb pa s).2.2.2 = true then some ((crosserStep T true IB IA pb pa s).1, true)
         else mainLoop T IA IB fuel (crosserStep T true IB IA pb pa s).2.2.1 (crosserStep T true IB IA pb pa s).2.1
                (crosserStep T true IB IA pb pa s).1)
      else if (T.sameCenter pa pb s).2 = true then some ((T.sameCenter pa pb s).1, true)
      else if (decide (IA.numEdgesAt pa > 0) && decide (IB.numEdgesAt pb > 0)) = true then
        (if (T.cellCell false pa pb (T.sameCenter pa pb s).1).2 = true then
            some ((T.cellCell false pa pb (T.sameCenter pa pb s).1).1, true)
         else mainLoop T IA IB fuel (pa + 1) (pb + 1) (T.cellCell false pa pb (T.sameCenter pa pb s).1).1)
      else mainLoop T IA IB fuel (pa + 1) (pb + 1) (T.sameCenter pa pb s).1 := by
  rfl

end eqn

/-- the list `under` of the crosser `sw` -/
def underOf (IA IB : Index) (sw : Bool) (x : Nat) : List Nat := if sw then under IB IA x else under IA IB x

/-- a ghost log `g` of the state: every callback appends the pairs of cells it looks at.
    `P` switches the ghost on (`P = False`: no requirement, every `T` qualifies). -/
structure Ghost {σ : Type} (T : Tests σ) (IA IB : Index) (g : σ → Log) (P : Prop) : Prop where
  cellCell : P → ∀ sw x y s, g (T.cellCell sw x y s).1 = g s ++ [mkPair sw x y]
  subcell : P → ∀ sw x s, g (T.subcell sw x s).1 = g s ++ (underOf IA IB sw x).map (mkPair sw x)
  centerA : P → ∀ sw x s, g (T.centerA sw x s).1 =
    g s ++ (if (T.centerA sw x s).2 = true then [] else (underOf IA IB sw x).map (mkPair sw x))
  centerB : P → ∀ sw x y s, g (T.centerB sw x y s).1 = g s ++ [mkPair sw x y]
  sameCenter : P → ∀ x y s, g (T.sameCenter x y s).1 = g s

theorem ghost_off {σ : Type} (T : Tests σ) (IA IB : Index) : Ghost T IA IB (fun _ => []) False :=
  ⟨fun h => h.elim, fun h => h.elim, fun h => h.elim, fun h => h.elim, fun h => h.elim⟩

theorem mkPair_true_eq : (fun j i => mkPair false i j) = mkPair true := by
  funext j i; simp [mkPair]

theorem mainLoop_spec {σ : Type} (T : Tests σ) (IA IB : Index) (g : σ → Log) (P : Prop)
    (G : Ghost T IA IB g P) (FA : Facts IA) (FB : Facts IB) (L : Lam IA IB) :
    ∀ (fuel pa pb : Nat) (s : σ), pa ≤ IA.size → pb ≤ IB.size → CleanR IA IB pa pb →
      IA.size + IB.size - (pa + pb) < fuel → (P → LogInvR IA IB (mkPair false) pa pb (g s)) →
      ∃ s' r, mainLoop T IA IB fuel pa pb s = some (s', r) ∧
        (r = false → P → LogInvR IA IB (mkPair false) IA.size IB.size (g s')) := by
  intro fuel
  induction fuel with
  | zero => intro pa pb s _ _ _ hf; omega
  | succ fuel ih =>
    intro pa pb s hpa hpb hc hf hl
    rw [mainLoop_succ]
    by_cases hd : (!(!IA.done pa || !IB.done pb)) = true
    · rw [if_pos hd]
      have hd' : IA.done pa = true ∧ IB.done pb = true := by
        cases h1 : IA.done pa <;> cases h2 : IB.done pb <;> simp [h1, h2] at hd ⊢
      have e1 : pa = IA.size := by have := (FA.done_iff pa).mp hd'.1; omega
      have e2 : pb = IB.size := by have := (FB.done_iff pb).mp hd'.2; omega
      exact ⟨s, false, rfl, fun _ hP => by subst e1; subst e2; exact hl hP⟩
    · rw [if_neg hd]
      have hnd : pa < IA.size ∨ pb < IB.size := by
        rcases Nat.lt_or_ge pa IA.size with h | h
        · exact Or.inl h
        · rcases Nat.lt_or_ge pb IB.size with h' | h'
          · exact Or.inr h'
          · have a := (FA.done_iff pa).mpr h
            have b := (FB.done_iff pb).mpr h'
            rw [a, b] at hd; simp at hd
      have eloA : lo IA pa = (IA.rangeMinAt pa).toNat := rfl
      have ehiA : hi IA pa = (IA.rangeMaxAt pa).toNat := rfl
      have eloB : lo IB pb = (IB.rangeMinAt pb).toNat := rfl
      have ehiB : hi IB pb = (IB.rangeMaxAt pb).toNat := rfl
      -- values at the end of an index
      have outA : IA.size ≤ pa → lo IA pa = SN ∧ hi IA pa = SN := fun h => ⟨(FA.out pa h).1, (FA.out pa h).2.2⟩
      have outB : IB.size ≤ pb → lo IB pb = SN ∧ hi IB pb = SN := fun h => ⟨(FB.out pb h).1, (FB.out pb h).2.2⟩
      have inA : pa < IA.size → lo IA pa ≤ hi IA pa ∧ hi IA pa < SN := fun h => by have := FA.inR pa h; omega
      have inB : pb < IB.size → lo IB pb ≤ hi IB pb ∧ hi IB pb < SN := fun h => by have := FB.inR pb h; omega
      by_cases h1 : IA.rangeMaxAt pa < IB.rangeMinAt pb
      · -- A precedes B: ai.seekTo(bi)
        rw [if_pos h1]
        have h1' : hi IA pa < lo IB pb := toNat_lt_iff.mp h1
        have hpa' : pa < IA.size := by
          rcases Nat.lt_or_ge pa IA.size with h | h
          · exact h
          · have := outA h
            rcases Nat.lt_or_ge pb IB.size with h' | h'
            · have := inB h'; omega
            · have := outB h'; omega
        have tgt : Target IA (IB.rangeMinAt pb).toNat (IB.idAt pb).toNat (IB.rangeMaxAt pb).toNat := by
          refine ⟨?_, ?_⟩
          · rcases Nat.lt_or_ge pb IB.size with h | h
            · have := FB.inR pb h; unfold lo hi idn at this; omega
            · have := FB.out pb h; unfold lo hi idn at this; omega
          · intro p hp
            rcases Nat.lt_or_ge pb IB.size with h | h
            · exact L.lam p pb hp h
            · left; have := outB h; have := FA.inR p hp; omega
        have hq := seekTo_spec FA tgt
        obtain ⟨a, b, c, d⟩ := step_seek (mk := mkPair false) (l := g s) FA FB hpa' hpb h1' hq hc
        exact ih _ pb s b hpb c (by omega) (fun hP => d (hl hP))
      · rw [if_neg h1]
        have h1' : ¬ hi IA pa < lo IB pb := fun h => h1 (toNat_lt_iff.mpr h)
        by_cases h2 : IB.rangeMaxAt pb < IA.rangeMinAt pa
        · -- B precedes A: bi.seekTo(ai)
          rw [if_pos h2]
          have h2' : hi IB pb < lo IA pa := toNat_lt_iff.mp h2
          have hpb' : pb < IB.size := by
            rcases Nat.lt_or_ge pb IB.size with h | h
            · exact h
            · have := outB h
              rcases Nat.lt_or_ge pa IA.size with h' | h'
              · have := inA h'; omega
              · have := outA h'; omega
          have tgt : Target IB (IA.rangeMinAt pa).toNat (IA.idAt pa).toNat (IA.rangeMaxAt pa).toNat := by
            refine ⟨?_, ?_⟩
            · rcases Nat.lt_or_ge pa IA.size with h | h
              · have := FA.inR pa h; unfold lo hi idn at this; omega
              · have := FA.out pa h; unfold lo hi idn at this; omega
            · intro p hp
              rcases Nat.lt_or_ge pa IA.size with h | h
              · rcases L.lam pa p h hp with x | x | x | x
                · right; left; exact x
                · left; exact x
                · right; right; right; exact x
                · right; right; left; exact x
              · left; have := outA h; have := FB.inR p hp; omega
          have hq := seekTo_spec FB tgt
          obtain ⟨a, b, c, d⟩ := step_seek (mk := fun j i => mkPair false i j) (l := g s) FB FA hpb' hpa h2' hq hc.swap
          exact ih pa _ s hpa b c.swap (by omega) (fun hP => (d (hl hP).swap).swap)
        · rw [if_neg h2]
          have h2' : ¬ hi IB pb < lo IA pa := fun h => h2 (toNat_lt_iff.mpr h)
          -- the ranges overlap: neither iterator is done, the cells are nested
          have hpa' : pa < IA.size := by
            rcases Nat.lt_or_ge pa IA.size with h | h
            · exact h
            · have := outA h
              rcases hnd with h' | h'
              · omega
              · have := inB h'; omega
          have hpb' : pb < IB.size := by
            rcases Nat.lt_or_ge pb IB.size with h | h
            · exact h
            · have := outB h; have := inA hpa'; omega
          have hlam := L.lam pa pb hpa' hpb'
          have hrel := L.rel pa pb hpa' hpb'
          have hRa := FA.inR pa hpa'
          have hRb := FB.inR pb hpb'
          by_cases h3 : 0 < int64OfWord (lsb (IA.idAt pa) - lsb (IB.idAt pb))
          · -- A's cell is larger
            rw [if_pos h3]
            have hst := hrel.1.mp h3
            have C : StepCtx IA IB pa pb :=
              { FO := FA, FT := FB, hpa := hpa', hpb := hpb', lamRow := fun j hj => L.lam pa j hpa' hj
                sub := by rcases hlam with x | x | x | x <;> omega
                strict := hst
                before := fun j hj => hc.2 pa j hj (Nat.le_refl _) hpa' }
            have hspec := crosserStep_spec T false IA IB pa g (mkPair false pa) (under IA IB pa) P C
              (fun hP => G.cellCell hP false pa) (fun hP => G.subcell hP false pa)
              (fun hP => G.centerA hP false pa) (fun hP => G.centerB hP false pa)
              ⟨under_nodup IA IB pa, mem_under IA IB pa⟩ s
            by_cases hr : (crosserStep T false IA IB pa pb s).2.2.2 = true
            · rw [if_pos hr]
              exact ⟨_, true, rfl, fun h => by cases h⟩
            · rw [if_neg hr]
              rcases hspec with hx | ⟨e1, hq, hΔ⟩
              · exact absurd hx hr
              · obtain ⟨a, b, c, d⟩ := step_larger (l := g s) mkInj_false C hq hc
                rw [e1]
                refine ih (pa + 1) _ _ (by omega) b c (by omega) ?_
                intro hP
                obtain ⟨Δ, x1, x2, x3, x4⟩ := hΔ hP
                rw [x1]
                exact d Δ x2 x3 x4 (hl hP)
          · rw [if_neg h3]
            by_cases h4 : int64OfWord (lsb (IA.idAt pa) - lsb (IB.idAt pb)) < 0
            · -- B's cell is larger
              rw [if_pos h4]
              have hst := hrel.2.mp h4
              have C : StepCtx IB IA pb pa :=
                { FO := FB, FT := FA, hpa := hpb', hpb := hpa'
                  lamRow := fun i hi' => by
                    rcases L.lam i pb hi' hpb' with x | x | x | x
                    · right; left; exact x
                    · left; exact x
                    · right; right; right; exact x
                    · right; right; left; exact x
                  sub := by rcases hlam with x | x | x | x <;> omega
                  strict := hst
                  before := fun i hi' => hc.1 i pb hi' (Nat.le_refl _) hpb' }
              have hspec := crosserStep_spec T true IB IA pb g (mkPair true pb) (under IB IA pb) P C
                (fun hP => G.cellCell hP true pb) (fun hP => G.subcell hP true pb)
                (fun hP => G.centerA hP true pb) (fun hP => G.centerB hP true pb)
                ⟨under_nodup IB IA pb, mem_under IB IA pb⟩ s
              by_cases hr : (crosserStep T true IB IA pb pa s).2.2.2 = true
              · rw [if_pos hr]
                exact ⟨_, true, rfl, fun h => by cases h⟩
              · rw [if_neg hr]
                rcases hspec with hx | ⟨e1, hq, hΔ⟩
                · exact absurd hx hr
                · obtain ⟨a, b, c, d⟩ := step_larger (l := g s) mkInj_true C hq hc.swap
                  rw [e1]
                  refine ih _ (pb + 1) _ b (by omega) c.swap (by omega) ?_
                  intro hP
                  obtain ⟨Δ, x1, x2, x3, x4⟩ := hΔ hP
                  rw [x1]
                  have hsw : LogInvR IB IA (mkPair true) pb pa (g s) := by
                    have := (hl hP).swap; rw [mkPair_true_eq] at this; exact this
                  have := (d Δ x2 x3 x4 hsw).swap
                  have e : (fun j i => mkPair true i j) = mkPair false := by
                    funext j i; simp [mkPair]
                  rw [e] at this; exact this
            · -- equal cells
              rw [if_neg h4]
              have hsz : hi IA pa - lo IA pa = hi IB pb - lo IB pb := by
                have a := hrel.1; have b := hrel.2
                rcases Nat.lt_trichotomy (hi IB pb - lo IB pb) (hi IA pa - lo IA pa) with x | x | x
                · exact absurd (a.mpr x) h3
                · exact x.symm
                · exact absurd (b.mpr x) h4
              have hlo : lo IA pa = lo IB pb := by rcases hlam with x | x | x | x <;> omega
              have hhi : hi IA pa = hi IB pb := by rcases hlam with x | x | x | x <;> omega
              obtain ⟨c, d⟩ := step_same (l := g s) FA FB mkInj_false hpa' hpb' hlo hhi hc
              by_cases h5 : (T.sameCenter pa pb s).2 = true
              · rw [if_pos h5]
                exact ⟨_, true, rfl, fun h => by cases h⟩
              · rw [if_neg h5]
                by_cases h6 : (decide (IA.numEdgesAt pa > 0) && decide (IB.numEdgesAt pb > 0)) = true
                · rw [if_pos h6]
                  by_cases h7 : (T.cellCell false pa pb (T.sameCenter pa pb s).1).2 = true
                  · rw [if_pos h7]
                    exact ⟨_, true, rfl, fun h => by cases h⟩
                  · rw [if_neg h7]
                    refine ih (pa + 1) (pb + 1) _ (by omega) (by omega) c (by omega) ?_
                    intro hP
                    rw [G.cellCell hP, G.sameCenter hP]
                    exact (d (hl hP)).2
                · rw [if_neg h6]
                  refine ih (pa + 1) (pb + 1) _ (by omega) (by omega) c (by omega) ?_
                  intro hP
                  rw [G.sameCenter hP]
                  refine (d (hl hP)).1 ?_
                  intro hboth
                  apply h6
                  simp [hboth.1, hboth.2]

/-! ### tests that never report a crossing: the walk runs to the end and returns `false` -/

section quiet
variable {σ : Type} (T : Tests σ)

/-- every callback except `centerA` answers `false` (`centerA` only selects the control path) -/
structure Quiet : Prop where
  cellCell : ∀ sw x y s, (T.cellCell sw x y s).2 = false
  subcell : ∀ sw x s, (T.subcell sw x s).2 = false
  centerB : ∀ sw x y s, (T.centerB sw x y s).2 = false
  sameCenter : ∀ x y s, (T.sameCenter x y s).2 = false

variable {T}

theorem directCells_quiet (Q : Quiet T) (sw : Bool) (pa : Nat) : ∀ (cells : List Nat) (s : σ),
    (directCells T sw pa cells s).2 = false := by
  intro cells
  induction cells with
  | nil => intro s; rfl
  | cons c rest ih =>
    intro s
    unfold directCells
    simp only [Q.cellCell sw pa c s, Bool.false_eq_true, if_false]
    exact ih _

theorem hasCrossing_quiet (Q : Quiet T) (sw : Bool) (IO IT : Index) (pa pb : Nat) (s : σ) :
    (hasCrossing T sw IO IT pa pb s).2.2 = false := by
  unfold hasCrossing
  split
  · simp only [Q.subcell sw pa s, Bool.false_eq_true, if_false]
  · exact directCells_quiet Q sw pa _ s

theorem centerLoop_quiet (Q : Quiet T) (sw : Bool) (IT : Index) (aMax : CellID) (pa : Nat) :
    ∀ (fuel p : Nat) (s : σ), (centerLoop T sw IT aMax pa fuel p s).2.2 = false := by
  intro fuel
  induction fuel with
  | zero => intro p s; rfl
  | succ fuel ih =>
    intro p s
    rw [centerLoop_succ]
    split
    · simp only [Q.centerB sw pa p s, Bool.false_eq_true, if_false]
      exact ih _ _
    · rfl

theorem crosserStep_quiet (Q : Quiet T) (sw : Bool) (IO IT : Index) (pa pb : Nat) (s : σ) :
    (crosserStep T sw IO IT pa pb s).2.2.2 = false := by
  rw [crosserStep_eq]
  split
  · simp only [hasCrossing_quiet Q, Bool.false_eq_true, if_false]
  · split
    · simp only [centerLoop_quiet Q, Bool.false_eq_true, if_false]
    · rfl

theorem mainLoop_quiet (Q : Quiet T) (IA IB : Index) : ∀ (fuel pa pb : Nat) (s s' : σ) (r : Bool),
    mainLoop T IA IB fuel pa pb s = some (s', r) → r = false := by
  intro fuel
  induction fuel with
  | zero => intro pa pb s s' r h; simp [mainLoop] at h
  | succ fuel ih =>
    intro pa pb s s' r h
    rw [mainLoop_succ] at h
    split at h
    · simp only [Option.some.injEq, Prod.mk.injEq] at h; exact h.2.symm
    · split at h
      · exact ih _ _ _ _ _ h
      · split at h
        · exact ih _ _ _ _ _ h
        · split at h
          · rw [if_neg (by simp [crosserStep_quiet Q])] at h
            exact ih _ _ _ _ _ h
          · split at h
            · rw [if_neg (by simp [crosserStep_quiet Q])] at h
              exact ih _ _ _ _ _ h
            · rw [if_neg (by simp [Q.sameCenter])] at h
              split at h
              · rw [if_neg (by simp [Q.cellCell])] at h
                exact ih _ _ _ _ _ h
              · exact ih _ _ _ _ _ h

end quiet

/-! ### state invariants: what holds as long as no test reports a crossing -/

section invariant
variable {σ : Type} (T : Tests σ) (IA IB : Index) (J : σ → Prop)

/-- `J` survives every callback that does not report a crossing; the two centre callbacks are only
    issued for an own cell without edges -/
structure Preserves : Prop where
  cellCell : ∀ sw x y s, J s → (T.cellCell sw x y s).2 = false → J (T.cellCell sw x y s).1
  subcell : ∀ sw x s, J s → (T.subcell sw x s).2 = false → J (T.subcell sw x s).1
  centerA : ∀ sw x s, J s → (if sw then IB else IA).numEdgesAt x = 0 → J (T.centerA sw x s).1
  centerB : ∀ sw x y s, J s → (if sw then IB else IA).numEdgesAt x = 0 → (T.centerB sw x y s).2 = false →
    J (T.centerB sw x y s).1
  sameCenter : ∀ x y s, J s → (T.sameCenter x y s).2 = false → J (T.sameCenter x y s).1

variable {T IA IB J}

theorem directCells_inv (hcc : ∀ sw x y s, J s → (T.cellCell sw x y s).2 = false → J (T.cellCell sw x y s).1)
    (sw : Bool) (pa : Nat) : ∀ (cells : List Nat) (s : σ),
    J s → (directCells T sw pa cells s).2 = false → J (directCells T sw pa cells s).1 := by
  intro cells
  induction cells with
  | nil => intro s hJ _; exact hJ
  | cons c rest ih =>
    intro s hJ
    unfold directCells
    simp only []
    by_cases hr : (T.cellCell sw pa c s).2 = true
    · rw [if_pos hr]; intro h; cases h
    · rw [if_neg hr]
      exact ih _ (hcc sw pa c s hJ (by simpa using hr))

theorem hasCrossing_inv (hcc : ∀ sw x y s, J s → (T.cellCell sw x y s).2 = false → J (T.cellCell sw x y s).1)
    (hsub : ∀ sw x s, J s → (T.subcell sw x s).2 = false → J (T.subcell sw x s).1)
    (sw : Bool) (IO IT : Index) (pa pb : Nat) (s : σ) :
    J s → (hasCrossing T sw IO IT pa pb s).2.2 = false → J (hasCrossing T sw IO IT pa pb s).1 := by
  intro hJ
  unfold hasCrossing
  split
  · simp only []
    by_cases hr : (T.subcell sw pa s).2 = true
    · rw [if_pos hr]; intro h; cases h
    · rw [if_neg hr]; intro _; exact hsub sw pa s hJ (by simpa using hr)
  · exact directCells_inv hcc sw pa _ s hJ

theorem centerLoop_inv (sw : Bool) (IT : Index) (aMax : CellID) (pa : Nat)
    (hcB : ∀ y s, J s → (T.centerB sw pa y s).2 = false → J (T.centerB sw pa y s).1) :
    ∀ (fuel p : Nat) (s : σ), J s → (centerLoop T sw IT aMax pa fuel p s).2.2 = false →
      J (centerLoop T sw IT aMax pa fuel p s).1 := by
  intro fuel
  induction fuel with
  | zero => intro p s hJ _; exact hJ
  | succ fuel ih =>
    intro p s hJ
    rw [centerLoop_succ]
    split
    · by_cases hr : (T.centerB sw pa p s).2 = true
      · rw [if_pos hr]; intro h; cases h
      · rw [if_neg hr]; exact ih _ _ (hcB p s hJ (by simpa using hr))
    · intro _; exact hJ

theorem crosserStep_inv (hcc : ∀ sw x y s, J s → (T.cellCell sw x y s).2 = false → J (T.cellCell sw x y s).1)
    (hsub : ∀ sw x s, J s → (T.subcell sw x s).2 = false → J (T.subcell sw x s).1)
    (sw : Bool) (IO IT : Index) (pa pb : Nat)
    (hcA : ∀ s, J s → IO.numEdgesAt pa = 0 → J (T.centerA sw pa s).1)
    (hcB : ∀ y s, J s → IO.numEdgesAt pa = 0 → (T.centerB sw pa y s).2 = false → J (T.centerB sw pa y s).1) (s : σ) :
    J s → (crosserStep T sw IO IT pa pb s).2.2.2 = false → J (crosserStep T sw IO IT pa pb s).1 := by
  intro hJ
  rw [crosserStep_eq]
  split
  · by_cases hr : (hasCrossing T sw IO IT pa pb s).2.2 = true
    · rw [if_pos hr]; intro h; cases h
    · rw [if_neg hr]; intro _; exact hasCrossing_inv hcc hsub sw IO IT pa pb s hJ (by simpa using hr)
  · rename_i hne
    have h0 : IO.numEdgesAt pa = 0 := by simpa using hne
    split
    · by_cases hr : (centerLoop T sw IT (IO.rangeMaxAt pa) pa (IT.size + 2 - pb) pb (T.centerA sw pa s).1).2.2 = true
      · rw [if_pos hr]; intro h; cases h
      · rw [if_neg hr]; intro _
        exact centerLoop_inv sw IT _ pa (fun y s a b => hcB y s a h0 b) _ _ _ (hcA s hJ h0) (by simpa using hr)
    · intro _; exact hcA s hJ h0

theorem mainLoop_inv (Pr : Preserves T IA IB J) : ∀ (fuel pa pb : Nat) (s s' : σ),
    J s → mainLoop T IA IB fuel pa pb s = some (s', false) → J s' := by
  intro fuel
  induction fuel with
  | zero => intro pa pb s s' _ h; simp [mainLoop] at h
  | succ fuel ih =>
    intro pa pb s s' hJ h
    rw [mainLoop_succ] at h
    split at h
    · simp only [Option.some.injEq, Prod.mk.injEq] at h; rw [← h.1]; exact hJ
    · split at h
      · exact ih _ _ _ _ hJ h
      · split at h
        · exact ih _ _ _ _ hJ h
        · split at h
          · by_cases hr : (crosserStep T false IA IB pa pb s).2.2.2 = true
            · rw [if_pos hr] at h; simp at h
            · rw [if_neg hr] at h
              exact ih _ _ _ _ (crosserStep_inv Pr.cellCell Pr.subcell false IA IB pa pb
                (fun s a b => Pr.centerA false pa s a (by simpa using b))
                (fun y s a b c => Pr.centerB false pa y s a (by simpa using b) c) s hJ (by simpa using hr)) h
          · split at h
            · by_cases hr : (crosserStep T true IB IA pb pa s).2.2.2 = true
              · rw [if_pos hr] at h; simp at h
              · rw [if_neg hr] at h
                exact ih _ _ _ _ (crosserStep_inv Pr.cellCell Pr.subcell true IB IA pb pa
                  (fun s a b => Pr.centerA true pb s a (by simpa using b))
                  (fun y s a b c => Pr.centerB true pb y s a (by simpa using b) c) s hJ (by simpa using hr)) h
            · by_cases h5 : (T.sameCenter pa pb s).2 = true
              · rw [if_pos h5] at h; simp at h
              · rw [if_neg h5] at h
                have hJ1 := Pr.sameCenter pa pb s hJ (by simpa using h5)
                split at h
                · by_cases h7 : (T.cellCell false pa pb (T.sameCenter pa pb s).1).2 = true
                  · rw [if_pos h7] at h; simp at h
                  · rw [if_neg h7] at h
                    exact ih _ _ _ _ (Pr.cellCell false pa pb _ hJ1 (by simpa using h7)) h
                · exact ih _ _ _ _ hJ1 h

end invariant

/-! ### instrumentation -/

/-- any tests `T`, instrumented with the same log (the answers and the state of `T` are untouched) -/
def instr {σ : Type} (T : Tests σ) (IA IB : Index) : Tests (σ × Log) where
  cellCell sw x y s := (((T.cellCell sw x y s.1).1, s.2 ++ [mkPair sw x y]), (T.cellCell sw x y s.1).2)
  subcell sw x s := (((T.subcell sw x s.1).1, s.2 ++ (underOf IA IB sw x).map (mkPair sw x)), (T.subcell sw x s.1).2)
  centerA sw x s := (((T.centerA sw x s.1).1,
      s.2 ++ (if (T.centerA sw x s.1).2 = true then [] else (underOf IA IB sw x).map (mkPair sw x))), (T.centerA sw x s.1).2)
  centerB sw x y s := (((T.centerB sw x y s.1).1, s.2 ++ [mkPair sw x y]), (T.centerB sw x y s.1).2)
  sameCenter x y s := (((T.sameCenter x y s.1).1, s.2), (T.sameCenter x y s.1).2)


section fst
variable {σ : Type} (T : Tests σ) (IA IB : Index)

theorem directCells_fst (sw : Bool) (pa : Nat) : ∀ (cells : List Nat) (s : σ) (l : Log),
    ((directCells (instr T IA IB) sw pa cells (s, l)).1.1, (directCells (instr T IA IB) sw pa cells (s, l)).2) =
      directCells T sw pa cells s := by
  intro cells
  induction cells with
  | nil => intro s l; rfl
  | cons c rest ih =>
    intro s l
    unfold directCells
    simp only [instr]
    by_cases hr : (T.cellCell sw pa c s).2 = true
    · simp only [hr, if_true]
    · simp only [hr, Bool.false_eq_true, if_false]
      exact ih _ _

theorem hasCrossing_fst (sw : Bool) (IO IT : Index) (pa pb : Nat) (s : σ) (l : Log) :
    ((hasCrossing (instr T IA IB) sw IO IT pa pb (s, l)).1.1, (hasCrossing (instr T IA IB) sw IO IT pa pb (s, l)).2) =
      hasCrossing T sw IO IT pa pb s := by
  unfold hasCrossing
  split
  · simp only [instr]
    by_cases hr : (T.subcell sw pa s).2 = true
    · simp only [hr, if_true]
    · simp only [hr, Bool.false_eq_true, if_false]
  · have := directCells_fst T IA IB sw pa (by assumption) s l
    simp only []
    rw [← this]

theorem centerLoop_fst (sw : Bool) (IT : Index) (aMax : CellID) (pa : Nat) : ∀ (fuel p : Nat) (s : σ) (l : Log),
    ((centerLoop (instr T IA IB) sw IT aMax pa fuel p (s, l)).1.1, (centerLoop (instr T IA IB) sw IT aMax pa fuel p (s, l)).2) =
      centerLoop T sw IT aMax pa fuel p s := by
  intro fuel
  induction fuel with
  | zero => intro p s l; rfl
  | succ fuel ih =>
    intro p s l
    rw [centerLoop_succ, centerLoop_succ]
    split
    · simp only [instr]
      by_cases hr : (T.centerB sw pa p s).2 = true
      · simp only [hr, if_true]
      · simp only [hr, Bool.false_eq_true, if_false]
        exact ih _ _ _
    · rfl

theorem crosserStep_fst (sw : Bool) (IO IT : Index) (pa pb : Nat) (s : σ) (l : Log) :
    ((crosserStep (instr T IA IB) sw IO IT pa pb (s, l)).1.1, (crosserStep (instr T IA IB) sw IO IT pa pb (s, l)).2) =
      crosserStep T sw IO IT pa pb s := by
  rw [crosserStep_eq, crosserStep_eq]
  have h1 := hasCrossing_fst T IA IB sw IO IT pa pb s l
  split
  · rw [← h1]
    simp only []
    split <;> rfl
  · have hA : ((instr T IA IB).centerA sw pa (s, l)).2 = (T.centerA sw pa s).2 := rfl
    rw [hA]
    split
    · have h2 := centerLoop_fst T IA IB sw IT (IO.rangeMaxAt pa) pa (IT.size + 2 - pb) pb (T.centerA sw pa s).1
        ((instr T IA IB).centerA sw pa (s, l)).1.2
      have e : ((instr T IA IB).centerA sw pa (s, l)).1 = ((T.centerA sw pa s).1, ((instr T IA IB).centerA sw pa (s, l)).1.2) := rfl
      rw [e, ← h2]
      simp only []
      split <;> rfl
    · rfl

theorem mainLoop_fst : ∀ (fuel pa pb : Nat) (s : σ) (l : Log),
    (mainLoop (instr T IA IB) IA IB fuel pa pb (s, l)).map (fun x => (x.1.1, x.2)) = mainLoop T IA IB fuel pa pb s := by
  intro fuel
  induction fuel with
  | zero => intro pa pb s l; rfl
  | succ fuel ih =>
    intro pa pb s l
    rw [mainLoop_succ, mainLoop_succ]
    split
    · rfl
    · split
      · exact ih _ _ _ _
      · split
        · exact ih _ _ _ _
        · split
          · have h := crosserStep_fst T IA IB false IA IB pa pb s l
            rw [← h]
            simp only []
            split
            · rfl
            · exact ih _ _ _ _
          · split
            · have h := crosserStep_fst T IA IB true IB IA pb pa s l
              rw [← h]
              simp only []
              split
              · rfl
              · exact ih _ _ _ _
            · have hS : ((instr T IA IB).sameCenter pa pb (s, l)).2 = (T.sameCenter pa pb s).2 := rfl
              rw [hS]
              split
              · rfl
              · split
                · have e : ((instr T IA IB).sameCenter pa pb (s, l)).1 = ((T.sameCenter pa pb s).1, l) := rfl
                  rw [e]
                  have hC : ((instr T IA IB).cellCell false pa pb ((T.sameCenter pa pb s).1, l)).2 =
                      (T.cellCell false pa pb (T.sameCenter pa pb s).1).2 := rfl
                  rw [hC]
                  split
                  · rfl
                  · exact ih _ _ _ _
                · exact ih _ _ _ _

end fst

end S2Proofs.C07
