/-
  S2Proofs.C07.WalkCentre — COMPLETENESS of the centre shortcuts of the merge loop
  (`S2.RelateWalk.mainLoop`): if the walk returns `false` then on every pair of cells with meeting leaf
  ranges on which a centre shortcut could fire (equal cells; a cell below a larger cell without edges)
  the centre tests do not both match.  For every instance of the tests whose centre callbacks answer
  state-independent predicates (`CentreT`; in particular `realTests`).
  Helper lemmas; the property theorems are in S2Proofs/Properties/C07_WalkSound.lean.
-/
import S2Proofs.C07.WalkSoundGen
namespace S2Proofs.C07
open S2 S2.CellID S2.RelateWalk

/-- the centre callbacks answer state-independent predicates: `MA x` = the centre test of cell `x` of
    A's index matches A's crossing target, `MB y` likewise for B (the crosser `ba` has them exchanged) -/
structure CentreT {σ : Type} (T : Tests σ) (MA MB : Nat → Prop) : Prop where
  centerA : ∀ sw x s, (T.centerA sw x s).2 = true ↔ (if sw then MB x else MA x)
  centerB : ∀ sw x y s, (T.centerB sw x y s).2 = true ↔ (if sw then MA y else MB y)
  sameCenter : ∀ x y s, (T.sameCenter x y s).2 = true ↔ (MA x ∧ MB y)

/-- a centre shortcut is applicable to the pair: equal cells, or the larger cell has no edges -/
def EligR (IA IB : Index) (i j : Nat) : Prop :=
  hi IA i - lo IA i = hi IB j - lo IB j ∨
  (IA.numEdgesAt i = 0 ∧ hi IB j - lo IB j < hi IA i - lo IA i) ∨
  (IB.numEdgesAt j = 0 ∧ hi IA i - lo IA i < hi IB j - lo IB j)

/-- on every applicable meeting pair before the frontier the two centre tests do not both match -/
def CentreInv (IA IB : Index) (MA MB : Nat → Prop) (pa pb : Nat) : Prop :=
  ∀ i j, interR IA IB i j → (i < pa ∨ j < pb) → EligR IA IB i j → ¬ (MA i ∧ MB j)

theorem centerLoop_false {σ : Type} {T : Tests σ} (sw : Bool) (IT : Index) (aMax : CellID) (pa : Nat) :
    ∀ (fuel p : Nat) (s : σ), (centerLoop T sw IT aMax pa fuel p s).2.2 = false →
      ∀ j, p ≤ j → j < (centerLoop T sw IT aMax pa fuel p s).2.1 → ∃ s0, (T.centerB sw pa j s0).2 = false := by
  intro fuel
  induction fuel with
  | zero => intro p s _ j h1 h2; have : j < p := h2; omega
  | succ fuel ih =>
    intro p s
    rw [centerLoop_succ]
    by_cases hle : IT.idAt p ≤ aMax
    · rw [if_pos hle]
      by_cases hr : (T.centerB sw pa p s).2 = true
      · rw [if_pos hr]; intro h; cases h
      · rw [if_neg hr]
        intro h j h1 h2
        rcases Nat.lt_or_ge p j with hj | hj
        · exact ih (p + 1) _ h j hj h2
        · have : j = p := by omega
          subst this; exact ⟨s, by simpa using hr⟩
    · rw [if_neg hle]
      intro _ j h1 h2
      have : j < p := h2
      omega

/-- a crosser step on an own cell without edges that does not fire: the own centre test does not match,
    or every cell of the other index it stepped over has been tested and does not match -/
theorem crosserStep_centre_false {σ : Type} {T : Tests σ} (sw : Bool) (IO IT : Index) (pa pb : Nat) (s : σ)
    (h0 : IO.numEdgesAt pa = 0) (hr : (crosserStep T sw IO IT pa pb s).2.2.2 = false) :
    (T.centerA sw pa s).2 = false ∨
    ∀ j, pb ≤ j → j < (crosserStep T sw IO IT pa pb s).2.2.1 → ∃ s0, (T.centerB sw pa j s0).2 = false := by
  rw [crosserStep_eq] at hr ⊢
  have hne : ¬ (IO.numEdgesAt pa != 0) = true := by simp [h0]
  rw [if_neg hne] at hr ⊢
  by_cases hm : (T.centerA sw pa s).2 = true
  · rw [if_pos hm] at hr ⊢
    by_cases hf : (centerLoop T sw IT (IO.rangeMaxAt pa) pa (IT.size + 2 - pb) pb (T.centerA sw pa s).1).2.2 = true
    · rw [if_pos hf] at hr; cases hr
    · rw [if_neg hf]
      right
      exact centerLoop_false sw IT _ pa _ pb _ (by simpa using hf)
  · left; simpa using hm

/-- the pairs that enter the frontier in a crosser step: the own cell with the cells it strictly contains -/
theorem larger_new {IO IT : Index} {po pt q : Nat} (C : StepCtx IO IT po pt) (hq : BndLo IT (hi IO po) q)
    {i j : Nat} (hm : interR IO IT i j) (hnew : i < po + 1 ∨ j < q) (hold : ¬ (i < po ∨ j < pt)) :
    i = po ∧ pt ≤ j ∧ j < q ∧ hi IT j - lo IT j < hi IO i - lo IO i := by
  have hins : ∀ j, pt ≤ j → j < q → lo IO po ≤ lo IT j ∧ hi IT j ≤ hi IO po :=
    fun j a b => C.inside a (by have := hq.1; omega) (hq.2.1 j b)
  have hi1 : po ≤ i := by omega
  have hj1 : pt ≤ j := by omega
  rcases Nat.lt_or_ge po i with h | h
  · exfalso
    have hjq : j < q := by omega
    have := hins j hj1 hjq
    have := C.FO.srt po i h hm.1
    have := hm.2.2.1
    omega
  · have : i = po := by omega
    subst this
    have hjq : j < q := by
      rcases Nat.lt_or_ge j q with h' | h'
      · exact h'
      · have := hq.2.2 j h' hm.2.1; have := hm.2.2.2; omega
    have hin := hins j hj1 hjq
    refine ⟨rfl, hj1, hjq, ?_⟩
    have hR := C.FT.inR j hm.2.1
    rcases Nat.lt_or_ge pt j with h' | h'
    · have := C.FT.srt pt j h' hm.2.1
      have := C.FT.inR pt C.hpb
      have := C.sub
      omega
    · have : j = pt := by omega
      subst this; exact C.strict

/-- the only pair that enters the frontier when both iterators step over equal cells -/
theorem same_new {IO IT : Index} (FO : Facts IO) (FT : Facts IT) {po pt : Nat} (hpo : po < IO.size) (hpt : pt < IT.size)
    (hlo : lo IO po = lo IT pt) (hhi : hi IO po = hi IT pt)
    {i j : Nat} (hm : interR IO IT i j) (hnew : i < po + 1 ∨ j < pt + 1) (hold : ¬ (i < po ∨ j < pt)) :
    i = po ∧ j = pt := by
  have hRo := FO.inR po hpo
  have hRt := FT.inR pt hpt
  have hi1 : po ≤ i := by omega
  have hj1 : pt ≤ j := by omega
  rcases Nat.lt_or_ge po i with h | h
  · have hjp : j = pt := by omega
    subst hjp
    have := FO.srt po i h hm.1
    have := hm.2.2.1
    omega
  · rcases Nat.lt_or_ge pt j with h' | h'
    · have hip : i = po := by omega
      subst hip
      have := FT.srt pt j h' hm.2.1
      have := hm.2.2.2
      omega
    · omega

/-- COMPLETENESS OF THE CENTRE SHORTCUTS: a walk that returns `false` has applied the centre tests to
    every applicable pair of cells with meeting ranges, and they did not both match. -/
theorem mainLoop_centre_complete {σ : Type} {T : Tests σ} {IA IB : Index} {MA MB : Nat → Prop}
    (Ct : CentreT T MA MB) (FA : Facts IA) (FB : Facts IB) (L : Lam IA IB) :
    ∀ (fuel pa pb : Nat) (s s' : σ), pa ≤ IA.size → pb ≤ IB.size → CleanR IA IB pa pb →
      CentreInv IA IB MA MB pa pb → mainLoop T IA IB fuel pa pb s = some (s', false) →
      CentreInv IA IB MA MB IA.size IB.size := by
  intro fuel
  induction fuel with
  | zero => intro pa pb s s' _ _ _ _ h; simp [mainLoop] at h
  | succ fuel ih =>
    intro pa pb s s' hpa hpb hc hI h
    rw [mainLoop_succ] at h
    by_cases hd : (!(!IA.done pa || !IB.done pb)) = true
    · have hd' : IA.done pa = true ∧ IB.done pb = true := by
        cases h1 : IA.done pa <;> cases h2 : IB.done pb <;> simp [h1, h2] at hd ⊢
      have e1 : pa = IA.size := by have := (FA.done_iff pa).mp hd'.1; omega
      have e2 : pb = IB.size := by have := (FB.done_iff pb).mp hd'.2; omega
      subst e1; subst e2; exact hI
    · rw [if_neg hd] at h
      have hnd : pa < IA.size ∨ pb < IB.size := by
        rcases Nat.lt_or_ge pa IA.size with h | h
        · exact Or.inl h
        · rcases Nat.lt_or_ge pb IB.size with h' | h'
          · exact Or.inr h'
          · have a := (FA.done_iff pa).mpr h
            have b := (FB.done_iff pb).mpr h'
            rw [a, b] at hd; simp at hd
      have eloA : lo IA pa = (IA.rangeMinAt pa).toNat := rfl
      have ehiA : hi IA pa = (IA.rangeMaxAt pa).toNat := rfl
      have eloB : lo IB pb = (IB.rangeMinAt pb).toNat := rfl
      have ehiB : hi IB pb = (IB.rangeMaxAt pb).toNat := rfl
      have outA : IA.size ≤ pa → lo IA pa = SN ∧ hi IA pa = SN := fun h => ⟨(FA.out pa h).1, (FA.out pa h).2.2⟩
      have outB : IB.size ≤ pb → lo IB pb = SN ∧ hi IB pb = SN := fun h => ⟨(FB.out pb h).1, (FB.out pb h).2.2⟩
      have inA : pa < IA.size → lo IA pa ≤ hi IA pa ∧ hi IA pa < SN := fun h => by have := FA.inR pa h; omega
      have inB : pb < IB.size → lo IB pb ≤ hi IB pb ∧ hi IB pb < SN := fun h => by have := FB.inR pb h; omega
      by_cases h1 : IA.rangeMaxAt pa < IB.rangeMinAt pb
      · rw [if_pos h1] at h
        have h1' : hi IA pa < lo IB pb := toNat_lt_iff.mp h1
        have hpa' : pa < IA.size := by
          rcases Nat.lt_or_ge pa IA.size with h | h
          · exact h
          · have := outA h
            rcases Nat.lt_or_ge pb IB.size with h' | h'
            · have := inB h'; omega
            · have := outB h'; omega
        have tgt : Target IA (IB.rangeMinAt pb).toNat (IB.idAt pb).toNat (IB.rangeMaxAt pb).toNat := by
          refine ⟨?_, ?_⟩
          · rcases Nat.lt_or_ge pb IB.size with h | h
            · have := FB.inR pb h; unfold lo hi idn at this; omega
            · have := FB.out pb h; unfold lo hi idn at this; omega
          · intro p hp
            rcases Nat.lt_or_ge pb IB.size with h | h
            · exact L.lam p pb hp h
            · left; have := outB h; have := FA.inR p hp; omega
        have hq := seekTo_spec FA tgt
        obtain ⟨_, b, c, _⟩ := step_seek (mk := mkPair false) (l := []) FA FB hpa' hpb h1' hq hc
        refine ih _ pb s s' b hpb c ?_ h
        intro i j hm hor he
        by_cases hold : i < pa ∨ j < pb
        · exact hI i j hm hold he
        · exfalso
          have := c.1 i j (by omega) (by omega) hm.2.1
          have := hm.2.2.2
          omega
      · rw [if_neg h1] at h
        have h1' : ¬ hi IA pa < lo IB pb := fun h => h1 (toNat_lt_iff.mpr h)
        by_cases h2 : IB.rangeMaxAt pb < IA.rangeMinAt pa
        · rw [if_pos h2] at h
          have h2' : hi IB pb < lo IA pa := toNat_lt_iff.mp h2
          have hpb' : pb < IB.size := by
            rcases Nat.lt_or_ge pb IB.size with h | h
            · exact h
            · have := outB h
              rcases Nat.lt_or_ge pa IA.size with h' | h'
              · have := inA h'; omega
              · have := outA h'; omega
          have tgt : Target IB (IA.rangeMinAt pa).toNat (IA.idAt pa).toNat (IA.rangeMaxAt pa).toNat := by
            refine ⟨?_, ?_⟩
            · rcases Nat.lt_or_ge pa IA.size with h | h
              · have := FA.inR pa h; unfold lo hi idn at this; omega
              · have := FA.out pa h; unfold lo hi idn at this; omega
            · intro p hp
              rcases Nat.lt_or_ge pa IA.size with h | h
              · rcases L.lam pa p h hp with x | x | x | x
                · right; left; exact x
                · left; exact x
                · right; right; right; exact x
                · right; right; left; exact x
              · left; have := outA h; have := FB.inR p hp; omega
          have hq := seekTo_spec FB tgt
          obtain ⟨_, b, c, _⟩ := step_seek (mk := fun j i => mkPair false i j) (l := []) FB FA hpb' hpa h2' hq hc.swap
          refine ih pa _ s s' hpa b c.swap ?_ h
          intro i j hm hor he
          by_cases hold : i < pa ∨ j < pb
          · exact hI i j hm hold he
          · exfalso
            have := c.1 j i (by omega) (by omega) hm.1
            have := hm.2.2.1
            omega
        · rw [if_neg h2] at h
          have h2' : ¬ hi IB pb < lo IA pa := fun h => h2 (toNat_lt_iff.mpr h)
          have hpa' : pa < IA.size := by
            rcases Nat.lt_or_ge pa IA.size with h | h
            · exact h
            · have := outA h
              rcases hnd with h' | h'
              · omega
              · have := inB h'; omega
          have hpb' : pb < IB.size := by
            rcases Nat.lt_or_ge pb IB.size with h | h
            · exact h
            · have := outB h; have := inA hpa'; omega
          have hlam := L.lam pa pb hpa' hpb'
          have hrel := L.rel pa pb hpa' hpb'
          have hRa := FA.inR pa hpa'
          have hRb := FB.inR pb hpb'
          by_cases h3 : 0 < int64OfWord (lsb (IA.idAt pa) - lsb (IB.idAt pb))
          · rw [if_pos h3] at h
            have hst := hrel.1.mp h3
            have C : StepCtx IA IB pa pb :=
              { FO := FA, FT := FB, hpa := hpa', hpb := hpb', lamRow := fun j hj => L.lam pa j hpa' hj
                sub := by rcases hlam with x | x | x | x <;> omega
                strict := hst
                before := fun j hj => hc.2 pa j hj (Nat.le_refl _) hpa' }
            have hspec := crosserStep_spec T false IA IB pa (fun _ => []) (mkPair false pa) (under IA IB pa) False C
              (fun hP => hP.elim) (fun hP => hP.elim) (fun hP => hP.elim) (fun hP => hP.elim)
              ⟨under_nodup IA IB pa, mem_under IA IB pa⟩ s
            by_cases hr : (crosserStep T false IA IB pa pb s).2.2.2 = true
            · rw [if_pos hr] at h; simp at h
            · rw [if_neg hr] at h
              rcases hspec with hx | ⟨e1, hq, _⟩
              · exact absurd hx hr
              · obtain ⟨_, b, c, _⟩ := step_larger (l := []) mkInj_false C hq hc
                rw [e1] at h
                refine ih (pa + 1) _ _ s' (by omega) b c ?_ h
                intro i j hm hor he
                by_cases hold : i < pa ∨ j < pb
                · exact hI i j hm hold he
                · obtain ⟨rfl, hj1, hj2, hsm⟩ := larger_new C hq hm hor hold
                  rcases he with he | ⟨h0, _⟩ | ⟨_, hlt⟩
                  · omega
                  · rintro ⟨ma, mb⟩
                    rcases crosserStep_centre_false false IA IB i pb s h0 (by simpa using hr) with hA | hB
                    · have := (Ct.centerA false i s).mpr ma
                      rw [hA] at this; cases this
                    · obtain ⟨s0, hs0⟩ := hB j hj1 hj2
                      have := (Ct.centerB false i j s0).mpr mb
                      rw [hs0] at this; cases this
                  · omega
          · rw [if_neg h3] at h
            by_cases h4 : int64OfWord (lsb (IA.idAt pa) - lsb (IB.idAt pb)) < 0
            · rw [if_pos h4] at h
              have hst := hrel.2.mp h4
              have C : StepCtx IB IA pb pa :=
                { FO := FB, FT := FA, hpa := hpb', hpb := hpa'
                  lamRow := fun i hi' => by
                    rcases L.lam i pb hi' hpb' with x | x | x | x
                    · right; left; exact x
                    · left; exact x
                    · right; right; right; exact x
                    · right; right; left; exact x
                  sub := by rcases hlam with x | x | x | x <;> omega
                  strict := hst
                  before := fun i hi' => hc.1 i pb hi' (Nat.le_refl _) hpb' }
              have hspec := crosserStep_spec T true IB IA pb (fun _ => []) (mkPair true pb) (under IB IA pb) False C
                (fun hP => hP.elim) (fun hP => hP.elim) (fun hP => hP.elim) (fun hP => hP.elim)
                ⟨under_nodup IB IA pb, mem_under IB IA pb⟩ s
              by_cases hr : (crosserStep T true IB IA pb pa s).2.2.2 = true
              · rw [if_pos hr] at h; simp at h
              · rw [if_neg hr] at h
                rcases hspec with hx | ⟨e1, hq, _⟩
                · exact absurd hx hr
                · obtain ⟨_, b, c, _⟩ := step_larger (l := []) mkInj_true C hq hc.swap
                  rw [e1] at h
                  refine ih _ (pb + 1) _ s' b (by omega) c.swap ?_ h
                  intro i j hm hor he
                  by_cases hold : i < pa ∨ j < pb
                  · exact hI i j hm hold he
                  · have hm' : interR IB IA j i := ⟨hm.2.1, hm.1, hm.2.2.2, hm.2.2.1⟩
                    obtain ⟨rfl, hj1, hj2, hsm⟩ := larger_new C hq hm' (by omega) (by omega)
                    rcases he with he | ⟨_, hlt⟩ | ⟨h0, _⟩
                    · omega
                    · omega
                    · rintro ⟨ma, mb⟩
                      rcases crosserStep_centre_false true IB IA j pa s h0 (by simpa using hr) with hA | hB
                      · have := (Ct.centerA true j s).mpr mb
                        rw [hA] at this; cases this
                      · obtain ⟨s0, hs0⟩ := hB i hj1 hj2
                        have := (Ct.centerB true j i s0).mpr ma
                        rw [hs0] at this; cases this
            · rw [if_neg h4] at h
              have hlo : lo IA pa = lo IB pb := by
                have a := hrel.1; have b := hrel.2
                rcases hlam with x | x | x | x <;> omega
              have hhi : hi IA pa = hi IB pb := by
                have a := hrel.1; have b := hrel.2
                rcases hlam with x | x | x | x <;> omega
              obtain ⟨c, _⟩ := step_same (l := []) (mk := mkPair false) FA FB mkInj_false hpa' hpb' hlo hhi hc
              by_cases h5 : (T.sameCenter pa pb s).2 = true
              · rw [if_pos h5] at h; simp at h
              · rw [if_neg h5] at h
                have hI' : CentreInv IA IB MA MB (pa + 1) (pb + 1) := by
                  intro i j hm hor he
                  by_cases hold : i < pa ∨ j < pb
                  · exact hI i j hm hold he
                  · obtain ⟨rfl, rfl⟩ := same_new FA FB hpa' hpb' hlo hhi hm hor hold
                    intro hboth
                    exact h5 ((Ct.sameCenter i j s).mpr hboth)
                by_cases h6 : (decide (IA.numEdgesAt pa > 0) && decide (IB.numEdgesAt pb > 0)) = true
                · rw [if_pos h6] at h
                  by_cases h7 : (T.cellCell false pa pb (T.sameCenter pa pb s).1).2 = true
                  · rw [if_pos h7] at h; simp at h
                  · rw [if_neg h7] at h
                    exact ih (pa + 1) (pb + 1) _ s' (by omega) (by omega) c hI' h
                · rw [if_neg h6] at h
                  exact ih (pa + 1) (pb + 1) _ s' (by omega) (by omega) c hI' h

end S2Proofs.C07
